/-
  C14 — cloned contexts are independent, also when run concurrently on several threads.

  Property theorems only. Model: Model/World.lean (shared immutable programs + the shared mutable
  cells extracted from the source + per-context state; one step = one top-level statement run by
  `exec` of Model/Interp.lean).

  SCOPE, said once and meant for every theorem below: this is schedule-independence OF THE MODEL at
  statement granularity. "Thread" here is "context whose steps are interleaved with the steps of other
  contexts in any order". That real threads, interleaving at the granularity of machine instructions,
  cannot do more is the data-race-freedom assumption; it is exactly what the recorded races
  (`_level`, the error record, the RNG statics, `_type_volatile`) break. (`Error::what`'s buffer was
  one of them until fix 1cb0b5a made it `thread_local`: it is per-thread state now, `whatBuf` of the
  context, and no exception to anything below.)
  The C++ memory model, the allocator and stdio locking are outside. Script-visible exceptions to
  independence, documented as shared by design: `random()` and module objects — nothing else.
-/
import BlocV.Model.World
import BlocV.Proofs.C05
import BlocV.Proofs.Lemmas.Interp

namespace BlocV.C14
open BlocV BlocV.World BlocV.Lemmas

/-! ### the list of shared cells is covered -/

/-- Every `mutable` member / non-const static / shared heap cell that extract/shared.py finds in
/repo/blocc is assigned to a kind of the model, and every `thread_local` static to a per-thread
kind. A new shared mutable field makes this fail — and so does `Error::what`'s buffer if it loses its
`thread_local`: it then reappears in `Gen.sharedCells`, where `cellKind` does not know it. -/
theorem all_shared_cells_classified :
    Gen.sharedCells.all (fun c => (cellKind c).isSome) = true ∧
    Gen.threadLocalCells.all (fun c => (threadCellKind c).isSome) = true := by
  decide

/-- non-vacuity: both lists are inhabited (31 cells — 30 shared, 1 per thread) -/
example : Gen.sharedCells.length = 30 ∧ Gen.threadLocalCells.length = 1 := by decide

/-- The `what` buffer is per-thread state: listed as `thread_local`, not among the shared cells, and
no shared kind stands for it. (Negated before fix 1cb0b5a: it was the shared cell of kind
`whatBuffer`.) -/
theorem what_buffer_is_thread_local :
    Gen.threadLocalCells.filter (fun c => threadCellKind c == some .whatBuffer) = [("blocc/exception.h", "buf")] ∧
    Gen.sharedCells.all (fun c => c.1 != "blocc/exception.h") = true ∧
    cellKind ("blocc/exception.h", "buf") = none := by
  decide

/-- non-vacuity / sensitivity: with the cell back among the shared ones (the tree before the fix, or
a later removal of `thread_local`) the classification obligation is false -/
example : (("blocc/exception.h", "buf") :: Gen.sharedCells).all (fun c => (cellKind c).isSome) = false := by
  decide

/-- No kind is stale: each one still has a cell in the source (shared kinds in the shared list,
per-thread kinds in the `thread_local` list). -/
theorem every_kind_has_a_cell (k : SharedKind) : Gen.sharedCells.any (fun c => cellKind c == some k) = true := by
  cases k <;> decide

theorem every_thread_kind_has_a_cell (k : ThreadKind) :
    Gen.threadLocalCells.any (fun c => threadCellKind c == some k) = true := by
  cases k <;> decide

example : Gen.threadLocalCells.map threadCellKind = [some .whatBuffer] := by decide

/-- The shared cells a step writes are where the task says they are: the error record and `_level`,
nothing else (the `what` buffer of exception.h left this list with the repair of `Error::what`; the record's own
message copy `bloc_error_msg` joined it). -/
theorem written_cells :
    Gen.sharedCells.filter (fun c => match cellKind c with | some k => writtenKinds.contains k | none => false) =
      [("blocc/bloc_capi.cpp", "bloc_error"), ("blocc/bloc_capi.cpp", "bloc_error_msg"), ("blocc/statement.h", "_level")] := by
  decide

/-! ### small facts about the update functions -/

theorem upd_same (f : CtxId → Option Ctx) (c : CtxId) (v : Option Ctx) : upd f c v c = v := by simp [upd]

theorem upd_other (f : CtxId → Option Ctx) (c d : CtxId) (v : Option Ctx) (h : d ≠ c) : upd f c v d = f d := by
  simp [upd, h]

theorem updShared_other (s : Shared) (k j : SharedKind) (v : CellVal) (h : j ≠ k) : updShared s k v j = s j := by
  simp [updShared, h]

theorem appendLevels_other (s : Shared) (ws : List (StmtRef × Nat)) (j : SharedKind) (h : j ≠ .stmtLevel) :
    appendLevels s ws j = s j := by
  cases hm : s .stmtLevel <;> simp [appendLevels, hm, updShared, h]

theorem recordError_other (s : Shared) (code : Nat) (arg : Bytes) (j : SharedKind)
    (h1 : j ≠ .errorRecord) : recordError s code arg j = s j := by
  unfold recordError
  rw [updShared_other _ _ _ _ h1]

/-! ### clone -/

/-- **clone_copies.** At clone time the clone holds the original's variables (names, values, types)
and function declarations; it has no saved return value, no output and no run of its own; the
original and every other context are exactly as before, and so is every shared cell. (Nor does it
inherit per-thread state: its `what` buffer is empty.) -/
theorem clone_copies (w : World) (src dst : CtxId) (s : Ctx) (h : w.ctxs src = some s) :
    (∃ d, (apply w (.clone src dst)).ctxs dst = some d ∧ d.st.vars = s.st.vars ∧ d.funcs = s.funcs ∧
          d.st.returned = none ∧ d.st.out = [] ∧ d.running = false ∧ d.result = none ∧ d.whatBuf = none) ∧
    (∀ e, e ≠ dst → (apply w (.clone src dst)).ctxs e = w.ctxs e) ∧
    (apply w (.clone src dst)).shared = w.shared ∧ (apply w (.clone src dst)).progs = w.progs := by
  have e : apply w (.clone src dst) = { w with ctxs := upd w.ctxs dst (some (cloneCtx s)) } := by
    simp only [apply, h]
  rw [e]
  refine ⟨⟨cloneCtx s, upd_same _ _ _, rfl, rfl, rfl, rfl, rfl, rfl, rfl⟩, ?_, rfl, rfl⟩
  intro e he
  exact upd_other _ _ _ _ he

/-- Non-vacuity: the original of `demoWorld` has two variables and one function after compiling. -/
def demoProg : List Stmt :=
  [.funcS "F" [("P", Ty.int)] Ty.int [.returnS (some (.bin .add (.var "P") (.lit (.int 1))))] [],
   .letS "X" (.lit (.int 5)),
   .letS "Y" (.fcall "F" [.var "X"]),
   .printS [.var "Y"]]

def demoWorld : World := run (initWorld [demoProg] 50) [.compile 0 0, .clone 0 1, .clone 0 2]

example : ((demoWorld.ctxs 1).map fun c => (c.st.vars.map (·.1), c.funcs.map (·.name))) = some (["X", "Y"], ["F"]) := by
  decide

/-! ### footprint -/

/-- **footprint (writes).** Whatever an operation on context `op.target` does, it leaves alone: the
programs, every OTHER context (variables, functions, saved value, output, run state, and the `what`
buffer of the thread that runs it), and every shared cell whose kind is not one of `writtenKinds` =
{`_level`, error record} — in particular the constant cells, the RNG, the registry. No exception for
`Error::what`'s buffer any more: it is not a shared cell (`what_buffer_is_thread_local`), a step
writes only the buffer of its own context. -/
theorem footprint (w : World) (op : Op) :
    (apply w op).progs = w.progs ∧ (apply w op).fuel = w.fuel ∧
    (∀ d, d ≠ op.target → (apply w op).ctxs d = w.ctxs d) ∧
    (∀ k, k ∉ writtenKinds → (apply w op).shared k = w.shared k) := by
  cases op with
  | compile c pid =>
    simp only [apply]
    split
    · exact ⟨rfl, rfl, fun _ _ => rfl, fun _ _ => rfl⟩
    · exact ⟨rfl, rfl, fun d hd => upd_other _ _ _ _ hd, fun _ _ => rfl⟩
  | start c pid =>
    simp only [apply]
    split
    · exact ⟨rfl, rfl, fun _ _ => rfl, fun _ _ => rfl⟩
    · split
      · exact ⟨rfl, rfl, fun _ _ => rfl, fun _ _ => rfl⟩
      · split
        · exact ⟨rfl, rfl, fun d hd => upd_other _ _ _ _ hd, fun _ _ => rfl⟩
        · exact ⟨rfl, rfl, fun d hd => upd_other _ _ _ _ hd, fun _ _ => rfl⟩
  | step c =>
    simp only [apply]
    split
    · exact ⟨rfl, rfl, fun _ _ => rfl, fun _ _ => rfl⟩
    · refine ⟨rfl, rfl, fun d hd => upd_other _ _ _ _ hd, ?_⟩
      intro k hk
      have h1 : k ≠ .stmtLevel := fun e => hk (by simp [writtenKinds, e])
      have h2 : k ≠ .errorRecord := fun e => hk (by simp [writtenKinds, e])
      dsimp only
      split
      · rw [recordError_other _ _ _ _ h2, appendLevels_other _ _ _ h1]
      · rw [appendLevels_other _ _ _ h1]
  | clone s d =>
    simp only [apply]
    split
    · exact ⟨rfl, rfl, fun _ _ => rfl, fun _ _ => rfl⟩
    · exact ⟨rfl, rfl, fun e he => upd_other _ _ _ _ he, fun _ _ => rfl⟩
  | purge c =>
    simp only [apply]
    split
    · exact ⟨rfl, rfl, fun _ _ => rfl, fun _ _ => rfl⟩
    · exact ⟨rfl, rfl, fun d hd => upd_other _ _ _ _ hd, fun _ _ => rfl⟩
  | free c =>
    exact ⟨rfl, rfl, fun d hd => upd_other _ _ _ _ hd, fun _ _ => rfl⟩
  | host c h =>
    simp only [apply]
    split
    · exact ⟨rfl, rfl, fun _ _ => rfl, fun _ _ => rfl⟩
    · exact ⟨rfl, rfl, fun d hd => upd_other _ _ _ _ hd, fun _ _ => rfl⟩

/-- The statement step, as the task states it: a step of context `c` writes only `c`'s own state and
the listed shared cells. -/
theorem step_footprint (w : World) (c : CtxId) :
    (∀ d, d ≠ c → (step w c).ctxs d = w.ctxs d) ∧ (step w c).progs = w.progs ∧
    (∀ k, k ∉ writtenKinds → (step w c).shared k = w.shared k) :=
  let f := footprint w (.step c)
  ⟨f.2.2.1, f.1, f.2.2.2⟩

/-- **footprint (reads).** What an operation makes of its target context depends only on that context
(for `clone`: on the source), the immutable programs and the fuel — not on any other context and not
on ANY shared mutable cell: `w` and `w'` may differ in every shared cell. This holds of the code
without the former exception: which handler an error reaches (`BEGINStatement::docatch` reading the
name through `Error::what()`) depends on the thread's own buffer only, so a handled user exception
cannot miss its handler because of what another context does (`handler_found_under_every_schedule`). -/
theorem reads_footprint (w w' : World) (op : Op)
    (ht : w.ctxs op.target = w'.ctxs op.target) (hp : w.progs = w'.progs) (hf : w.fuel = w'.fuel)
    (hs : ∀ s d, op = .clone s d → w.ctxs s = w'.ctxs s) :
    (apply w op).ctxs op.target = (apply w' op).ctxs op.target := by
  cases op with
  | compile c pid =>
    simp only [Op.target] at ht
    simp only [apply, Op.target, ← ht, ← hp]
    split <;> simp [upd_same, ht]
  | start c pid =>
    simp only [Op.target] at ht
    simp only [apply, Op.target, ← ht]
    split
    · exact ht
    · split
      · exact ht
      · split <;> simp [upd_same]
  | step c =>
    simp only [Op.target] at ht
    simp only [apply, Op.target, ← ht, ← hp, ← hf]
    split
    · exact ht
    · simp [upd_same]
  | clone s d =>
    have := hs s d rfl
    simp only [apply, Op.target, ← this]
    split
    · exact ht
    · simp [upd_same]
  | purge c =>
    simp only [Op.target] at ht
    simp only [apply, Op.target, ← ht]
    split
    · exact ht
    · simp [upd_same]
  | free c =>
    simp [apply, Op.target, upd_same]
  | host c h =>
    simp only [Op.target] at ht
    simp only [apply, Op.target, ← ht]
    split
    · exact ht
    · simp [upd_same]

/-! ### commutation -/

/-- **steps_commute.** Steps of two different contexts commute on everything script-visible: every
context (variables, functions, results, outputs), the programs, and every shared cell outside
`writtenKinds` = {`_level`, error record}. (Those two differ only in the ORDER of log entries / in
which error was recorded last — see `level_writes_benign` and `error_record_is_last_writer`; the
`what` buffers are part of the contexts and commute with them.) -/
theorem steps_commute (w : World) (c d : CtxId) (h : c ≠ d) :
    (∀ e, (step (step w c) d).ctxs e = (step (step w d) c).ctxs e) ∧
    (step (step w c) d).progs = (step (step w d) c).progs ∧
    (∀ k, k ∉ writtenKinds → (step (step w c) d).shared k = (step (step w d) c).shared k) := by
  have fc := footprint w (.step c)
  have fd := footprint w (.step d)
  have fcd := footprint (step w c) (.step d)
  have fdc := footprint (step w d) (.step c)
  simp only [Op.target] at fc fd fcd fdc
  refine ⟨?_, ?_, ?_⟩
  · intro e
    by_cases hec : e = c
    · subst hec
      -- left: d's step does not touch c; right: c's step reads only c, which d's step left alone
      show (apply (step w e) (.step d)).ctxs e = (apply (step w d) (.step e)).ctxs e
      rw [fcd.2.2.1 e h]
      exact reads_footprint w (step w d) (.step e) (fd.2.2.1 e h).symm fd.1.symm fd.2.1.symm (fun _ _ hh => by cases hh)
    · by_cases hed : e = d
      · subst hed
        show (apply (step w c) (.step e)).ctxs e = (apply (step w c |> fun _ => step w e) (.step c)).ctxs e
        rw [fdc.2.2.1 e (Ne.symm h)]
        exact (reads_footprint w (step w c) (.step e) (fc.2.2.1 e (Ne.symm h)).symm fc.1.symm fc.2.1.symm (fun _ _ hh => by cases hh)).symm
      · show (apply (step w c) (.step d)).ctxs e = (apply (step w d) (.step c)).ctxs e
        rw [fcd.2.2.1 e hed, fdc.2.2.1 e hec]
        show (apply w (.step c)).ctxs e = (apply w (.step d)).ctxs e
        rw [fc.2.2.1 e hec, fd.2.2.1 e hed]
  · show (apply (step w c) (.step d)).progs = (apply (step w d) (.step c)).progs
    rw [fcd.1, fdc.1]
    show (apply w (.step c)).progs = (apply w (.step d)).progs
    rw [fc.1, fd.1]
  · intro k hk
    show (apply (step w c) (.step d)).shared k = (apply (step w d) (.step c)).shared k
    rw [fcd.2.2.2 k hk, fdc.2.2.2 k hk]
    show (apply w (.step c)).shared k = (apply w (.step d)).shared k
    rw [fc.2.2.2 k hk, fd.2.2.2 k hk]

/-! ### every schedule -/

/-- two worlds that a context cannot tell apart -/
def Agree (c : CtxId) (w w' : World) : Prop := w.ctxs c = w'.ctxs c ∧ w.progs = w'.progs ∧ w.fuel = w'.fuel

theorem run_cons (w : World) (op : Op) (ops : List Op) : run w (op :: ops) = run (apply w op) ops := rfl

/-- The general form: in ANY sequence of operations (statement steps of any contexts, compiles,
starts, clones, purges, frees, in any order) that does not clone INTO `c`, context `c` ends exactly
as if only the operations on `c` itself had been performed, in their order. -/
theorem projection (c : CtxId) (ops : List Op) (hno : ∀ s, Op.clone s c ∉ ops) :
    ∀ w w', Agree c w w' → Agree c (run w ops) (run w' (ops.filter fun op => op.target == c)) := by
  induction ops with
  | nil => intro w w' h; exact h
  | cons op ops ih =>
    intro w w' h
    have hno' : ∀ s, Op.clone s c ∉ ops := fun s hm => hno s (List.mem_cons_of_mem _ hm)
    by_cases ht : op.target = c
    · have hf : (op :: ops).filter (fun op => op.target == c) = op :: ops.filter (fun op => op.target == c) := by
        simp [ht]
      rw [hf, run_cons, run_cons]
      apply ih hno'
      have fw := footprint w op
      have fw' := footprint w' op
      refine ⟨?_, by rw [fw.1, fw'.1]; exact h.2.1, by rw [fw.2.1, fw'.2.1]; exact h.2.2⟩
      have := reads_footprint w w' op (by rw [ht]; exact h.1) h.2.1 h.2.2
        (fun s d hh => by subst hh; simp only [Op.target] at ht; subst ht; exact absurd (List.mem_cons_self) (hno s))
      rw [ht] at this
      exact this
    · have hf : (op :: ops).filter (fun op => op.target == c) = ops.filter (fun op => op.target == c) := by
        simp [ht]
      rw [hf, run_cons]
      apply ih hno'
      have fw := footprint w op
      exact ⟨by rw [fw.2.2.1 c (Ne.symm ht)]; exact h.1, by rw [fw.1]; exact h.2.1, by rw [fw.2.1]; exact h.2.2⟩

theorem agree_refl (c : CtxId) (w : World) : Agree c w w := ⟨rfl, rfl, rfl⟩

/-- the sequential run: `n` consecutive statement steps of one context, nobody else moves -/
def alone (w : World) (c : CtxId) (n : Nat) : World := run w (List.replicate n (.step c))

theorem target_step (d : CtxId) : (Op.step d).target = d := rfl

theorem filter_steps (c : CtxId) (sched : List CtxId) :
    (sched.map Op.step).filter (fun op => op.target == c) = List.replicate (sched.count c) (Op.step c) := by
  induction sched with
  | nil => rfl
  | cons d r ih =>
    by_cases h : d = c
    · subst h
      simp only [List.map_cons, List.filter_cons, target_step, beq_self_eq_true, if_true, List.count_cons_self,
        List.replicate_succ]
      rw [ih]
    · have h' : (d == c) = false := by simpa using h
      simp only [List.map_cons, List.filter_cons, target_step, h', List.count_cons, Bool.false_eq_true, if_false]
      rw [ih]
      simp

/-- **interleaving_eq_sequential.** For EVERY schedule — any finite sequence of context ids, each
occurrence one statement step of that context; any number of contexts, in particular 2..8 clones of
one original running the same or different programs — every context ends with exactly the
variables, function declarations, saved return value, result (ok / error code and argument), printed
output, position and `what` buffer that its own steps alone produce: its sequential run of the same
length. In particular every error is handled by the handler the sequential run selects: the former
script-visible exception of the code ("a handled user exception can miss its handler", finding
C14.what_static_buffer) is gone with fix 1cb0b5a, the statement needs no exclusion for it. -/
theorem interleaving_eq_sequential (w : World) (sched : List CtxId) (c : CtxId) :
    (run w (sched.map Op.step)).ctxs c = (alone w c (sched.count c)).ctxs c := by
  have := projection c (sched.map Op.step) (fun s hm => by simp at hm) w w (agree_refl c w)
  rw [filter_steps] at this
  exact this.1

/-- A context that is not running ignores steps … -/
theorem step_idle (w : World) (c : CtxId) (x : Ctx) (h : w.ctxs c = some x) (hr : x.running = false) :
    (step w c).ctxs c = w.ctxs c := by
  simp only [step, apply, h, stepCtx, hr, upd_same]
  rfl

theorem alone_succ (w : World) (c : CtxId) (n : Nat) : alone w c (n + 1) = alone (step w c) c n := rfl

theorem alone_add (w : World) (c : CtxId) (n m : Nat) : alone w c (n + m) = alone (alone w c n) c m := by
  induction n generalizing w with
  | zero => simp [alone, run]
  | succ n ih => rw [Nat.succ_add, alone_succ, alone_succ, ih]

theorem alone_idle (w : World) (c : CtxId) (x : Ctx) (h : w.ctxs c = some x) (hr : x.running = false) (m : Nat) :
    (alone w c m).ctxs c = some x := by
  induction m generalizing w with
  | zero => exact h
  | succ m ih =>
    rw [alone_succ]
    exact ih (step w c) (by rw [step_idle w c x h hr]; exact h)

/-- … so two COMPLETE schedules (in each, the context got to the end of its run) give the context
the same final state, however differently they interleave it with the others. -/
theorem complete_schedules_agree (w : World) (s1 s2 : List CtxId) (c : CtxId) (x y : Ctx)
    (h1 : (run w (s1.map Op.step)).ctxs c = some x) (hx : x.running = false)
    (h2 : (run w (s2.map Op.step)).ctxs c = some y) (hy : y.running = false) : x = y := by
  rw [interleaving_eq_sequential] at h1 h2
  rcases Nat.le_total (s1.count c) (s2.count c) with hle | hle
  · obtain ⟨m, hm⟩ := Nat.exists_eq_add_of_le hle
    rw [hm, alone_add] at h2
    have := alone_idle _ c x h1 hx m
    rw [this] at h2
    exact Option.some.inj h2
  · obtain ⟨m, hm⟩ := Nat.exists_eq_add_of_le hle
    rw [hm, alone_add] at h1
    have := alone_idle _ c y h2 hy m
    rw [this] at h1
    exact (Option.some.inj h1).symm

/-- **purge_free_independent.** Purging or freeing another context `o` (the original, say) at ANY
point of ANY sequence of operations changes nothing for context `c`: it keeps working with its
variables and functions, and ends as if `o` had been left alone. -/
theorem purge_free_independent (w : World) (pre post : List Op) (c o : CtxId) (ho : o ≠ c)
    (hno : ∀ s, Op.clone s c ∉ pre ++ post) :
    (run w (pre ++ [.purge o] ++ post)).ctxs c = (run w (pre ++ post)).ctxs c ∧
    (run w (pre ++ [.free o] ++ post)).ctxs c = (run w (pre ++ post)).ctxs c ∧
    (run w (pre ++ [.purge o, .free o] ++ post)).ctxs c = (run w (pre ++ post)).ctxs c := by
  have key : ∀ (mid : List Op), (∀ op ∈ mid, op.target ≠ c) → (∀ s, Op.clone s c ∉ mid) →
      (run w (pre ++ mid ++ post)).ctxs c = (run w (pre ++ post)).ctxs c := by
    intro mid hmid hcl
    have hno2 : ∀ s, Op.clone s c ∉ pre ++ mid ++ post := by
      intro s hm
      simp only [List.mem_append] at hm
      rcases hm with (hm | hm) | hm
      · exact hno s (List.mem_append_left _ hm)
      · exact hcl s hm
      · exact hno s (List.mem_append_right _ hm)
    have a := projection c (pre ++ mid ++ post) hno2 w w (agree_refl c w)
    have b := projection c (pre ++ post) hno w w (agree_refl c w)
    have hmf : mid.filter (fun op => op.target == c) = [] := by
      apply List.filter_eq_nil_iff.mpr
      intro op hop
      simpa using hmid op hop
    have : (pre ++ mid ++ post).filter (fun op => op.target == c) = (pre ++ post).filter (fun op => op.target == c) := by
      simp only [List.filter_append, hmf, List.append_nil]
    rw [this] at a
    exact a.1.trans b.1.symm
  refine ⟨key [.purge o] ?_ ?_, key [.free o] ?_ ?_, key [.purge o, .free o] ?_ ?_⟩
  all_goals (intro x hx; simp at hx)
  · subst hx; exact ho
  · subst hx; exact ho
  · rcases hx with hx | hx <;> (subst hx; exact ho)

/-! ### the shared writes -/

/-- **shared_writes_benign, constant cells.** No operation of the model writes a constant cell … -/
theorem const_cells_never_written (w : World) (ops : List Op) :
    (run w ops).shared .constValue = w.shared .constValue := by
  induction ops generalizing w with
  | nil => rfl
  | cons op ops ih =>
    rw [run_cons, ih]
    exact (footprint w op).2.2.2 .constValue (by decide)

/-- … and that is what the storage discipline guarantees (C05 `eval_frame`): two contexts whose store
views share the SAME constant cells `cs` (all carrying the LVALUE flag) and own their variables and
temporaries — evaluating any expression in one leaves `cs`, hence the other's view of every literal,
exactly as it was. -/
theorem const_cells_frame (cs : List Cell) (varsA poolA : List Cell) (wmA : Nat) (e : LExpr) (ℓ : Loc) (σ' : Store)
    (hcs : ∀ c ∈ cs, c.lv = true) (hv : ∀ c ∈ varsA, c.lv = true)
    (he : evalL e { vars := varsA, csts := cs, pool := poolA, wm := wmA } = .ok (ℓ, σ')) :
    σ'.csts = cs :=
  (C05.eval_frame e _ σ' ℓ ⟨hv, hcs⟩ he).1.2

/-- the level a node receives when every run starts at exec level `b` -/
def refLevel (b : Nat) (progs : List (List Stmt)) : StmtRef → Nat
  | .prog pid (i :: rel) => match (progs.getD pid [])[i]? with
    | some s => levelOf b s rel
    | none => b
  | .prog _ [] => b
  | .fn f rel => levelOf 0 (.beginS f.body f.catches) rel

def LevelInv (b : Nat) (progs : List (List Stmt)) (log : List (StmtRef × Nat)) : Prop :=
  ∀ r v, (r, v) ∈ log → v = refLevel b progs r

theorem stepOutcome_levels (ctx : Ctx) (lw : List (StmtRef × Nat)) (r : Res Flow × St) :
    (stepOutcome ctx lw r).2.1 = lw := by
  unfold stepOutcome
  split <;> rfl

theorem stepOutcome_execLevel (ctx : Ctx) (lw : List (StmtRef × Nat)) (r : Res Flow × St) :
    (stepOutcome ctx lw r).1.execLevel = ctx.execLevel := by
  unfold stepOutcome
  split <;> rfl

theorem stepCtx_levels (progs : List (List Stmt)) (fuel : Nat) (ctx : Ctx) (r : StmtRef) (v : Nat)
    (h : (r, v) ∈ (stepCtx progs fuel ctx).2.1) : v = refLevel ctx.execLevel progs r := by
  unfold stepCtx at h
  split at h
  · simp at h
  · split at h
    · simp at h
    · split at h
      · rw [stepOutcome_levels] at h; simp at h
      · split at h
        · simp at h
        · rename_i stmt hstmt
          split at h
          · rw [stepOutcome_levels] at h; simp at h
          rw [stepOutcome_levels] at h
          rcases List.mem_append.mp h with hm | hm
          · simp only [stmtLevelWrites, List.mem_map] at hm
            obtain ⟨rel, _, he⟩ := hm
            cases he
            simp only [refLevel]
            rw [hstmt]
          · simp only [List.mem_flatten, List.mem_map] at hm
            obtain ⟨l, ⟨f, _, hl⟩, hin⟩ := hm
            subst hl
            simp only [funcLevelWrites, List.mem_map] at hin
            obtain ⟨rel, _, he⟩ := hin
            cases he
            simp [refLevel]

theorem stepCtx_execLevel (progs : List (List Stmt)) (fuel : Nat) (ctx : Ctx) :
    (stepCtx progs fuel ctx).1.execLevel = ctx.execLevel := by
  unfold stepCtx
  split
  · rfl
  · split
    · rfl
    · split
      · rw [stepOutcome_execLevel]
      · split
        · rfl
        · split <;> rw [stepOutcome_execLevel]

/-- every live context starts its runs at exec level `b` -/
def SameBase (b : Nat) (w : World) : Prop := ∀ c x, w.ctxs c = some x → x.execLevel = b

theorem sameBase_apply (w : World) (op : Op) (h : SameBase 0 w) : SameBase 0 (apply w op) := by
  intro e x hx
  by_cases he : e = op.target
  · subst he
    cases op with
    | compile c pid =>
      simp only [apply, Op.target] at hx
      split at hx
      · exact h _ _ hx
      · rename_i ctx hc; dsimp only at hx; rw [upd_same] at hx; cases hx; exact h c ctx hc
    | start c pid =>
      simp only [apply, Op.target] at hx
      split at hx
      · exact h _ _ hx
      · rename_i ctx hc
        split at hx
        · exact h _ _ hx
        · split at hx <;> (dsimp only at hx; rw [upd_same] at hx; cases hx; exact h c ctx hc)
    | step c =>
      simp only [apply, Op.target] at hx
      split at hx
      · exact h _ _ hx
      · rename_i ctx hc
        dsimp only at hx; rw [upd_same] at hx
        cases hx
        rw [stepCtx_execLevel]
        exact h c ctx hc
    | clone s d =>
      simp only [apply, Op.target] at hx
      split at hx
      · exact h _ _ hx
      · dsimp only at hx; rw [upd_same] at hx; cases hx; rfl
    | purge c =>
      simp only [apply, Op.target] at hx
      split at hx
      · exact h _ _ hx
      · rename_i ctx hc; dsimp only at hx; rw [upd_same] at hx; cases hx; exact h c ctx hc
    | free c =>
      simp only [apply, Op.target] at hx; rw [upd_same] at hx
      cases hx
    | host c hc' =>
      simp only [apply, Op.target] at hx
      split at hx
      · exact h _ _ hx
      · rename_i ctx hc; dsimp only at hx; rw [upd_same] at hx; cases hx
        have := h c ctx hc
        cases hc' <;> exact this
  · rw [(footprint w op).2.2.1 e he] at hx
    exact h _ _ hx

/-- **shared_writes_benign, `_level`.** ASSUMPTION, stated exactly: every context enters its runs with
the same exec-stack depth (`SameBase 0`: the stack is empty between runs — true unless a foreign
exception skipped an `execEnd`; a fresh clone always starts at 0). Then every write any context
ever performs on a statement node stores the value `refLevel` = (number of enclosing `begin` blocks
of the node): a function of the node alone. Concurrent writers of one node therefore write the SAME
value, and a reader (`Context::onRuntimeError` comparing `stmt->level()` with its own depth) sees
that value whichever write it observes. -/
theorem level_writes_benign (ops : List Op) : ∀ (w : World) (log0 : List (StmtRef × Nat)),
    SameBase 0 w → w.shared .stmtLevel = .levels log0 → LevelInv 0 w.progs log0 →
    ∃ log, (run w ops).shared .stmtLevel = .levels log ∧ LevelInv 0 w.progs log := by
  induction ops with
  | nil => intro w log0 _ hs hi; exact ⟨log0, hs, hi⟩
  | cons op ops ih =>
    intro w log0 hb hs hi
    rw [run_cons]
    have hp : (apply w op).progs = w.progs := (footprint w op).1
    have hb' := sameBase_apply w op hb
    -- the log after `op`
    have : ∃ log1, (apply w op).shared .stmtLevel = .levels log1 ∧ LevelInv 0 w.progs log1 := by
      cases op with
      | step c =>
        simp only [apply]
        split
        · exact ⟨log0, hs, hi⟩
        · rename_i ctx hc
          have hlv : ∀ (sh : Shared) code arg, recordError sh code arg .stmtLevel = sh .stmtLevel :=
            fun sh code arg => recordError_other sh code arg _ (by decide)
          refine ⟨(stepCtx w.progs w.fuel ctx).2.1 ++ log0, ?_, ?_⟩
          · dsimp only
            split
            · rw [hlv]; simp [appendLevels, hs, updShared]
            · simp [appendLevels, hs, updShared]
          · intro r v hm
            rcases List.mem_append.mp hm with hm | hm
            · have := stepCtx_levels w.progs w.fuel ctx r v hm
              rw [hb c ctx hc] at this
              exact this
            · exact hi r v hm
      | compile c pid => simp only [apply]; split <;> exact ⟨log0, hs, hi⟩
      | start c pid =>
        simp only [apply]
        split
        · exact ⟨log0, hs, hi⟩
        · split
          · exact ⟨log0, hs, hi⟩
          · split <;> exact ⟨log0, hs, hi⟩
      | clone s d => simp only [apply]; split <;> exact ⟨log0, hs, hi⟩
      | purge c => simp only [apply]; split <;> exact ⟨log0, hs, hi⟩
      | free c => exact ⟨log0, hs, hi⟩
      | host c h => simp only [apply]; split <;> exact ⟨log0, hs, hi⟩
    obtain ⟨log1, hs1, hi1⟩ := this
    have := ih (apply w op) log1 hb' hs1 (by rw [hp]; exact hi1)
    rw [hp] at this
    exact this

/-- Consequence in the form "concurrent writers write the same value". -/
theorem same_node_same_level (progs : List (List Stmt)) (log : List (StmtRef × Nat)) (h : LevelInv 0 progs log)
    (r : StmtRef) (v v' : Nat) (h1 : (r, v) ∈ log) (h2 : (r, v') ∈ log) : v = v' :=
  (h r v h1).trans (h r v' h2).symm

/-- **shared_writes_benign**, both halves in one statement: over ANY sequence of operations from a
world in which every exec stack is empty between runs, the constant cells are never written and all
writes to one statement node's `_level` carry the same value. With the `what` buffer per thread, the
only shared write that is NOT benign is the error record (`error_record_is_last_writer`). -/
theorem shared_writes_benign (w : World) (ops : List Op) (log0 : List (StmtRef × Nat))
    (hb : SameBase 0 w) (hs : w.shared .stmtLevel = .levels log0) (hi : LevelInv 0 w.progs log0) :
    (run w ops).shared .constValue = w.shared .constValue ∧
    ∃ log, (run w ops).shared .stmtLevel = .levels log ∧
      ∀ r v v', (r, v) ∈ log → (r, v') ∈ log → v = v' := by
  refine ⟨const_cells_never_written w ops, ?_⟩
  obtain ⟨log, h1, h2⟩ := level_writes_benign ops w log0 hb hs hi
  exact ⟨log, h1, fun r v v' a b => same_node_same_level w.progs log h2 r v v' a b⟩

/-- non-vacuity: the initial world satisfies the three hypotheses -/
example : SameBase 0 (initWorld [demoProg]) ∧ (initWorld [demoProg]).shared .stmtLevel = .levels [] ∧
    LevelInv 0 (initWorld [demoProg]).progs [] := by
  refine ⟨?_, rfl, ?_⟩
  · intro c x h
    simp only [initWorld] at h
    split at h
    · cases h; rfl
    · cases h
  · intro r v h; cases h

/-- The assumption is needed: a context whose exec stack is one deep between runs (execLevel 1)
and a fresh one, running the same statement, store DIFFERENT levels into the same node. -/
example :
    let p : List Stmt := [.nop]
    let w : World := { initWorld [p] 5 with
      ctxs := fun c => if c = 0 then some { running := true, execLevel := 1 } else if c = 1 then some { running := true } else none }
    (match (run w [.step 0, .step 1]).shared .stmtLevel with
     | .levels log => log.map (·.2)
     | _ => []) = [0, 1] := by
  decide +kernel

/-- **The error record is NOT benign** (finding C14.error_record_process_wide): `bloc_error` is a
single process-wide cell; after two contexts failed, the record holds the error of whichever failed
last — `bloc_errno()` / `bloc_strerror()` of a failed `bloc_execute2` depend on the schedule, in the
model already. The buffer the message is formatted into is NOT part of this any more (fix 1cb0b5a):
each context's `what` buffer holds its own error under both schedules. -/
def errDemo : World :=
  { initWorld [[.raiseS "E1"], [.raiseS "DIVIDE_BY_ZERO"]] 5 with
    ctxs := fun c => if c = 0 then some { running := true, prog := 0 } else if c = 1 then some { running := true, prog := 1 } else none }

def recordedCode (w : World) : Option Nat :=
  match w.shared .errorRecord with
  | .lastError (some (c, _)) => some c
  | _ => none

theorem error_record_is_last_writer :
    recordedCode (run errDemo [.step 0, .step 1]) = some Gen.EXC_RT_DIVIDE_BY_ZERO ∧
    recordedCode (run errDemo [.step 1, .step 0]) = some Gen.EXC_RT_USER_S ∧
    -- … while each context's own result is the same under both schedules
    ((run errDemo [.step 0, .step 1]).ctxs 0).map (·.running) = ((run errDemo [.step 1, .step 0]).ctxs 0).map (·.running) ∧
    -- … and so is the `what` buffer of each: its own error, whoever failed last
    (∀ ops ∈ [[Op.step 0, .step 1], [.step 1, .step 0]],
      ((run errDemo ops).ctxs 0).map (fun c => c.whatBuf.map (·.1)) = some (some Gen.EXC_RT_USER_S) ∧
      ((run errDemo ops).ctxs 1).map (fun c => c.whatBuf.map (·.1)) = some (some Gen.EXC_RT_DIVIDE_BY_ZERO)) := by
  decide +kernel

/-! ### the `what` buffer is private to its thread -/

/-- A step of context `c` (any operation on it) leaves the `what` buffer of every other context
alone: corollary of `footprint`, the buffer being part of the context. -/
theorem what_buffer_private (w : World) (op : Op) (d : CtxId) (h : d ≠ op.target) :
    ((apply w op).ctxs d).map (·.whatBuf) = (w.ctxs d).map (·.whatBuf) := by
  rw [(footprint w op).2.2.1 d h]

/-- non-vacuity: in `errDemo` context 1 fails AFTER context 0 did; context 0's buffer still holds
context 0's error (USER, argument "E1"), context 1's its own -/
example :
    ((run errDemo [.step 0]).ctxs 0).map (·.whatBuf) = some (some (Gen.EXC_RT_USER_S, "E1".toUTF8.toList)) ∧
    ((run errDemo [.step 0, .step 1]).ctxs 0).map (·.whatBuf) = some (some (Gen.EXC_RT_USER_S, "E1".toUTF8.toList)) ∧
    ((run errDemo [.step 0, .step 1]).ctxs 1).map (fun c => c.whatBuf.map (·.1)) = some (some Gen.EXC_RT_DIVIDE_BY_ZERO) := by
  decide +kernel

/-- Two contexts, each raising its OWN user exception inside a block that handles exactly that name
(the stress witness of the former finding C14.what_static_buffer, one round). -/
def whatDemo : World :=
  let p (e : String) : List Stmt :=
    [.letS "N" (.lit (.int 0)),
     .beginS [.raiseS e] [(e, [.letS "N" (.bin .add (.var "N") (.lit (.int 1)))])],
     .returnS (some (.var "N"))]
  { initWorld [p "NAMEA", p "NAMEBBBBBBBBBBBBBBB"] 50 with
    ctxs := fun c => if c = 0 then some { running := true, prog := 0 } else if c = 1 then some { running := true, prog := 1 } else none }

/-- the run ended normally and handed `v` to the host -/
def returnedVal (x : Ctx) (v : Val) : Bool :=
  match x.result with
  | some (.ok (some r)) => r == v
  | _ => false

/-- **Every schedule selects the right handler** (was: false of the code — under threads the clause
name was compared with a buffer another thread could have overwritten; the model never had the
defect, the statement was an exclusion of the correspondence). General form: `interleaving_eq_sequential`;
here for the witness, over ALL 20 interleavings of the two 3-statement runs: each context ends `ok`
having counted its one handled exception, no error recorded, no `what` buffer left behind. -/
theorem handler_found_under_every_schedule :
    ∀ sched ∈ [[0,0,0,1,1,1],[0,0,1,0,1,1],[0,0,1,1,0,1],[0,0,1,1,1,0],[0,1,0,0,1,1],[0,1,0,1,0,1],[0,1,0,1,1,0],
               [0,1,1,0,0,1],[0,1,1,0,1,0],[0,1,1,1,0,0],[1,0,0,0,1,1],[1,0,0,1,0,1],[1,0,0,1,1,0],[1,0,1,0,0,1],
               [1,0,1,0,1,0],[1,0,1,1,0,0],[1,1,0,0,0,1],[1,1,0,0,1,0],[1,1,0,1,0,0],[1,1,1,0,0,0]],
      let w := run whatDemo (sched.map Op.step)
      recordedCode w = none ∧
      ∀ c ∈ [0, 1], ((w.ctxs c).map fun x => (x.running, returnedVal x (.int 1), x.whatBuf.isNone)) =
        some (false, true, true) := by
  decide +kernel

/-- the witness discriminates: had context 0's clause been compared with context 1's name (what the
shared buffer could make the code do), the run would have ended with the unhandled USER error, which
the error record and the `what` buffer then show -/
example :
    let p : List Stmt := [.beginS [.raiseS "NAMEA"] [("NAMEBBBBBBBBBBBBBBB", [.nop])], .returnS (some (.lit (.int 1)))]
    let w : World := { initWorld [p] 50 with ctxs := fun c => if c = 0 then some { running := true } else none }
    let w' := run w [.step 0, .step 0]
    (recordedCode w', (w'.ctxs 0).map fun x => (x.running, returnedVal x (.int 1), x.whatBuf.map (·.1))) =
      (some Gen.EXC_RT_USER_S, some (false, false, some Gen.EXC_RT_USER_S)) := by
  decide +kernel

/-! ### the function table: what `clone` copies, and why order and completeness matter -/

theorem sameSig_iff (f g : Func) : sameSig f g = true ↔ sigOf f = sigOf g := by
  simp [sameSig, sigOf]

theorem sigs_addFunc (fs : List Func) (f : Func) :
    sigs (addFunc fs f) = if sigOf f ∈ sigs fs then sigs fs else sigs fs ++ [sigOf f] := by
  unfold addFunc
  by_cases h : fs.any (sameSig f) = true
  · have hm : sigOf f ∈ sigs fs := by
      obtain ⟨g, hg, hs⟩ := List.any_eq_true.mp h
      exact List.mem_map.mpr ⟨g, hg, ((sameSig_iff f g).mp hs).symm⟩
    rw [if_pos h, if_pos hm]
    simp only [sigs, List.map_map]
    apply List.map_congr_left
    intro g _
    by_cases hs : sameSig f g = true
    · simp [hs, (sameSig_iff f g).mp hs]
    · simp [hs]
  · have hm : sigOf f ∉ sigs fs := by
      intro hm
      obtain ⟨g, hg, hs⟩ := List.mem_map.mp hm
      exact h (List.any_eq_true.mpr ⟨g, hg, (sameSig_iff f g).mpr hs.symm⟩)
    rw [if_neg h, if_neg hm]
    simp [sigs]

/-- `createOrReplace` never moves or removes an entry: the old table's signatures are the start of
the new table's, position by position. -/
theorem sigs_addFunc_prefix (fs : List Func) (f : Func) : sigs fs <+: sigs (addFunc fs f) := by
  rw [sigs_addFunc]
  split
  · exact List.prefix_refl _
  · exact List.prefix_append _ _

theorem nodup_sigs_addFunc (fs : List Func) (f : Func) (h : (sigs fs).Nodup) : (sigs (addFunc fs f)).Nodup := by
  rw [sigs_addFunc]
  split
  · exact h
  · rename_i hm
    rw [List.nodup_append]
    refine ⟨h, by simp, ?_⟩
    intro a ha b hb
    simp only [List.mem_singleton] at hb
    subst hb
    intro e
    exact hm (e ▸ ha)

theorem declare_cons (fs : List Func) (st : Stmt) (prog : List Stmt) :
    declare fs (st :: prog) = declare (declare fs [st]) prog := by
  simp [declare]

theorem sigs_declare_one (fs : List Func) (st : Stmt) :
    sigs fs <+: sigs (declare fs [st]) ∧ ((sigs fs).Nodup → (sigs (declare fs [st])).Nodup) := by
  cases st <;> simp only [declare, List.foldl_cons, List.foldl_nil] <;>
    first
    | exact ⟨List.prefix_refl _, id⟩
    | exact ⟨sigs_addFunc_prefix _ _, nodup_sigs_addFunc _ _⟩

/-- Compiling a program into a context (`Parser::parse`: `createOrReplace` per declaration) keeps
every executable and every function body that was linked against the old table linked: positions are
stable — a redefinition replaces in place, a new (name, arity) — an OVERLOAD included — is appended. -/
theorem sigs_declare_prefix (prog : List Stmt) : ∀ fs : List Func, sigs fs <+: sigs (declare fs prog) := by
  induction prog with
  | nil => intro fs; exact List.prefix_refl _
  | cons st prog ih =>
    intro fs
    rw [declare_cons]
    exact List.IsPrefix.trans (sigs_declare_one fs st).1 (ih _)

/-- … and the table never holds a signature twice. -/
theorem nodup_sigs_declare (prog : List Stmt) : ∀ fs : List Func, (sigs fs).Nodup → (sigs (declare fs prog)).Nodup := by
  induction prog with
  | nil => intro fs h; exact h
  | cons st prog ih =>
    intro fs h
    rw [declare_cons]
    exact ih _ ((sigs_declare_one fs st).2 h)

theorem linked_iff (l : List Sig) (fs : List Func) : linked l fs = true ↔ l <+: sigs fs := by
  simp [linked, List.isPrefixOf_iff_prefix]

theorem linked_declare (l : List Sig) (fs : List Func) (prog : List Stmt) (h : linked l fs = true) :
    linked l (declare fs prog) = true :=
  (linked_iff _ _).mpr (List.IsPrefix.trans ((linked_iff _ _).mp h) (sigs_declare_prefix prog fs))

theorem find_by_sig (fs : List Func) (nd : (sigs fs).Nodup) : ∀ (i : Nat) (h : i < fs.length),
    fs.find? (fun f => sigOf f == sigOf fs[i]) = some fs[i] := by
  induction fs with
  | nil => intro i h; simp at h
  | cons g r ih =>
    intro i h
    have nd' : sigOf g ∉ sigs r ∧ (sigs r).Nodup := by simpa [sigs] using nd
    cases i with
    | zero => simp
    | succ j =>
      have hj : j < r.length := by simpa using h
      have hne : (sigOf g == sigOf r[j]) = false := by
        apply beq_false_of_ne
        intro e
        exact nd'.1 (e ▸ List.mem_map.mpr ⟨r[j], List.getElem_mem hj, rfl⟩)
      simp only [List.getElem_cons_succ, List.find?_cons, hne]
      exact ih nd'.2 j hj

/-- **index_call_eq_name_call.** A call node compiled against a table with signatures `l` holds the
index of (name, arity) in `l`. Run in ANY context whose table continues `l` position by position and
holds each signature once, the entry at that index (what the C++ calls: `getDeclaration(_id)`) is the
first entry with that name and arity (what `callFunc` of Model/Interp.lean calls). So for linked runs
the by-name semantics of the model is the by-index semantics of the code. -/
theorem index_call_eq_name_call (l : List Sig) (fs : List Func) (name : String) (arity : Nat)
    (hl : linked l fs = true) (nd : (sigs fs).Nodup) (hm : (name, arity) ∈ l) :
    callByIndex l fs name arity = callByName fs name arity := by
  obtain ⟨t, ht⟩ := (linked_iff l fs).mp hl
  have hlt := List.idxOf_lt_length_of_mem hm
  have hfl : l.idxOf (name, arity) < fs.length := by
    have : (sigs fs).length = fs.length := by simp [sigs]
    rw [← this, ← ht, List.length_append]; omega
  have hsig : sigOf fs[l.idxOf (name, arity)] = (name, arity) := by
    have h1 : (sigs fs)[l.idxOf (name, arity)]? = some (name, arity) := by
      rw [← ht, List.getElem?_append_left hlt, List.getElem?_eq_getElem hlt, List.getElem_idxOf]
    simp only [sigs, List.getElem?_map, List.getElem?_eq_getElem hfl, Option.map_some] at h1
    exact Option.some.inj h1
  have hfind := find_by_sig fs nd _ hfl
  rw [hsig] at hfind
  have hi : l.idxOf? (name, arity) = some (l.idxOf (name, arity)) := by
    simp [List.idxOf?, List.idxOf, List.findIdx?_eq_some_of_exists, hm]
  unfold callByIndex callByName
  rw [hi]
  simp only [List.getElem?_eq_getElem hfl]
  rw [← hfind]
  congr 1

/-- non-vacuity: three overloads of AREA and a function declared after them; a call of AREA/2 compiled
against that table finds AREA/2 in a table that went on growing -/
def overProg : List Stmt :=
  [.funcS "AREA" [] Ty.int [.returnS (some (.lit (.int 1)))] [],
   .funcS "AREA" [("W", Ty.int)] Ty.int [.returnS (some (.bin .mul (.var "W") (.var "W")))] [],
   .funcS "AREA" [("W", Ty.int), ("H", Ty.int)] Ty.int [.returnS (some (.bin .mul (.var "W") (.var "H")))] [],
   .funcS "G" [("X", Ty.int)] Ty.int [.returnS (some (.bin .add (.fcall "AREA" [.var "X", .lit (.int 5)]) (.fcall "AREA" [])))] [],
   .letS "Q" (.fcall "G" [.lit (.int 2)]),
   .returnS (some (.var "Q"))]

example : sigs (declare [] overProg) = [("AREA", 0), ("AREA", 1), ("AREA", 2), ("G", 1)] ∧
    linked (sigs (declare [] overProg)) (declare (declare [] overProg) demoProg) = true ∧
    (callByIndex (sigs (declare [] overProg)) (declare (declare [] overProg) demoProg) "AREA" 2).map sigOf = some ("AREA", 2) := by
  decide +kernel

/-- **clone_copies_functions.** After `clone src dst` the clone's function table IS the original's:
same length, the same declaration (name, parameters — hence arity —, return type, body, handlers,
private symbols) at EVERY index, overloads included, in the same order. Consequently (i) every
executable and function body linked against the original's table is linked against the clone's, (ii) a
call node (index `i`) reaches the same function in both, and (iii) so does the model's lookup by name
and arity. -/
theorem clone_copies_functions (w : World) (src dst : CtxId) (s : Ctx) (h : w.ctxs src = some s) :
    ∃ d, (apply w (.clone src dst)).ctxs dst = some d ∧
      d.funcs.length = s.funcs.length ∧ (∀ i : Nat, d.funcs[i]? = s.funcs[i]?) ∧
      (∀ l, linked l d.funcs = linked l s.funcs) ∧
      (∀ l name arity, callByIndex l d.funcs name arity = callByIndex l s.funcs name arity) ∧
      (∀ name arity, callByName d.funcs name arity = callByName s.funcs name arity) := by
  obtain ⟨⟨d, hd, _, hf, _⟩, _⟩ := clone_copies w src dst s h
  exact ⟨d, hd, by rw [hf], fun i => by rw [hf], fun l => by rw [hf], fun l n a => by rw [hf], fun n a => by rw [hf]⟩

/-- non-vacuity, and the table really has overloads: the clone of a context that compiled `overProg`
has AREA/0, AREA/1, AREA/2, G/1 at indices 0..3 -/
example : ((run (initWorld [overProg] 50) [.compile 0 0, .clone 0 1]).ctxs 1).map (fun c => sigs c.funcs) =
    some [("AREA", 0), ("AREA", 1), ("AREA", 2), ("G", 1)] := by
  decide +kernel

/-- Why "every declaration, in order" is what must be proved — the counter-model. With the table copy
of seeded mutation C14-m3 (skip a declaration whose NAME is already there) the clone of `overProg`'s
context loses AREA/1 and AREA/2, G moves from index 3 to index 1, the table is no longer linked, and
the call node `AREA(x, 5)` (index 2) reaches nothing while `G(2)` (index 3) is past the end. -/
theorem reset_skipping_names_is_not_a_copy :
    let fs := declare [] overProg
    let bad := resetSkippingNames fs
    sigs bad = [("AREA", 0), ("G", 1)] ∧ linked (sigs fs) bad = false ∧
    (callByIndex (sigs fs) bad "AREA" 1).map sigOf = some ("G", 1) ∧
    callByIndex (sigs fs) bad "AREA" 2 = none ∧ callByIndex (sigs fs) bad "G" 1 = none ∧
    (callByIndex (sigs fs) fs "AREA" 2).map sigOf = some ("AREA", 2) := by
  decide +kernel

/-- the instrumentation of `LWorld` does not change the world -/
theorem applyL_world (lw : LWorld) (op : Op) : (applyL lw op).w = apply lw.w op := by
  unfold applyL
  cases op <;> dsimp only <;> (repeat' split) <;> rfl

theorem runL_world (ops : List Op) : ∀ lw : LWorld, (runL lw ops).w = run lw.w ops := by
  induction ops with
  | nil => intro lw; rfl
  | cons op ops ih =>
    intro lw
    show (runL (applyL lw op) ops).w = run (apply lw.w op) ops
    rw [ih, applyL_world]

theorem isPrefixOf_self {α} [BEq α] [LawfulBEq α] (l : List α) : l.isPrefixOf l = true := by
  induction l with
  | nil => rfl
  | cons a l ih => simp [List.isPrefixOf, ih]

/-- **clone_keeps_linked.** Whatever executable is linked in the source — its compile-time function
table `l` and symbol table `lv` are continued by the source's — is linked in the clone. -/
theorem clone_keeps_linked (w : World) (src dst : CtxId) (s : Ctx) (h : w.ctxs src = some s)
    (l : List Sig) (lv : List String) (hl : linked l s.funcs = true) (hv : symLinked lv s.st.vars = true) :
    ∃ d, (apply w (.clone src dst)).ctxs dst = some d ∧ linked l d.funcs = true ∧ symLinked lv d.st.vars = true := by
  obtain ⟨⟨d, hd, hvars, hf, _⟩, _⟩ := clone_copies w src dst s h
  exact ⟨d, hd, by rw [hf]; exact hl, by rw [hvars]; exact hv⟩

example : ∃ d, (apply demoWorld (.clone 0 5)).ctxs 5 = some d ∧ linked [("F", 1)] d.funcs = true ∧ symLinked ["X", "Y"] d.st.vars = true :=
  clone_keeps_linked demoWorld 0 5 _ rfl _ _ (by decide) (by decide)

/-- The documented use is linked, for EVERY program: compile in the original, clone, run the shared
executable in the clone (and in the original) — the instrumentation flag stays true. -/
theorem shared_executable_linked (progs : List (List Stmt)) (fuel pid : Nat) (d : CtxId) :
    (runL (initLWorld progs fuel) [.compile 0 pid, .clone 0 d, .start d pid, .start 0 pid]).linkedAll = true := by
  by_cases hd : d = 0
  · subst hd
    simp [runL, applyL, apply, initLWorld, initWorld, upd, cloneCtx, linked, symLinked, isPrefixOf_self]
  · simp [runL, applyL, apply, initLWorld, initWorld, upd, cloneCtx, linked, symLinked, isPrefixOf_self, Ne.symm hd]

example : (runL (initLWorld [overProg] 50) [.compile 0 0, .clone 0 3, .start 3 0, .start 0 0]).linkedAll = true :=
  shared_executable_linked _ _ _ _

theorem symLinked_iff (l : List String) (vars : List (String × Val)) : symLinked l vars = true ↔ l <+: vars.map (·.1) := by
  simp [symLinked, List.isPrefixOf_iff_prefix]

theorem names_register_prefix (decls : List (String × Ty)) : ∀ vars : List (String × Val),
    vars.map (·.1) <+: (decls.foldl (fun vs (n, t) => if vs.any (·.1 == n) then vs else vs ++ [(n, Val.null t)]) vars).map (·.1) := by
  induction decls with
  | nil => intro vars; exact List.prefix_refl _
  | cons d ds ih =>
    intro vars
    simp only [List.foldl_cons]
    split
    · exact ih vars
    · refine List.IsPrefix.trans ?_ (ih _)
      simp

/-- **Compiling keeps symbol slots in place**: `registerSymbol` appends new symbols to the storage pool and
never moves one — an executable whose compile-time symbol table the context continues is still linked
after the context compiled any further program (the symbol-slot counterpart of `linked_declare`). -/
theorem symLinked_compile (w : World) (c : CtxId) (pid : Nat) (x : Ctx) (lv : List String) (hx : w.ctxs c = some x)
    (hl : symLinked lv x.st.vars = true) :
    ∃ y, (apply w (.compile c pid)).ctxs c = some y ∧ symLinked lv y.st.vars = true := by
  simp only [apply, hx, upd_same]
  refine ⟨_, rfl, ?_⟩
  rw [symLinked_iff] at hl ⊢
  exact List.IsPrefix.trans hl (names_register_prefix _ _)

example : ((apply demoWorld (.compile 1 0)).ctxs 1).map (fun y => symLinked ["X", "Y"] y.st.vars) = some true := by
  decide +kernel

/-- A context is linked to what it compiled itself: `compile c pid` then `start c pid` leaves the flag as
it was, for every world, context and program. -/
theorem own_executable_linked (lw : LWorld) (c : CtxId) (pid : Nat) (x : Ctx) (hx : lw.w.ctxs c = some x) :
    (runL lw [.compile c pid, .start c pid]).linkedAll = lw.linkedAll := by
  simp [runL, applyL, apply, hx, upd, linked, symLinked, isPrefixOf_self]

example : (runL (initLWorld [overProg, demoProg] 50) [.compile 0 0, .clone 0 1, .compile 1 1, .start 1 1]).linkedAll = true := by
  decide +kernel

/-- What the flag means at a `start`: the executable's compile-time function table and symbol table are
continued by the running context's — so (`reachable_index_call_eq_name_call`) every call node of the
executable reaches, by index, the function the model reaches by name. -/
theorem linkedAll_start (lw : LWorld) (c : CtxId) (pid : Nat) (x : Ctx) (l : List Sig × List String)
    (hx : lw.w.ctxs c = some x) (hl : lw.link pid = some l) (h : (applyL lw (.start c pid)).linkedAll = true) :
    lw.linkedAll = true ∧ linked l.1 x.funcs = true ∧ symLinked l.2 x.st.vars = true := by
  simp only [applyL, hx, hl, Bool.and_eq_true] at h
  exact ⟨h.1.1, h.1.2, h.2⟩

example : (applyL (runL (initLWorld [overProg] 50) [.compile 0 0, .clone 0 3]) (.start 3 0)).linkedAll = true := by
  decide +kernel

/-- non-vacuity of the flag: the shared executable compiled in the original is linked in the clone;
after the ORIGINAL declared one more function and compiled a second program against the longer table,
that second executable is NOT linked in the old clone (index 4 does not exist there) -/
example :
    (runL (initLWorld [overProg, demoProg] 50) [.compile 0 0, .clone 0 1, .start 1 0]).linkedAll = true ∧
    (runL (initLWorld [overProg, demoProg] 50) [.compile 0 0, .clone 0 1, .compile 0 1, .start 1 1]).linkedAll = false ∧
    (runL (initLWorld [overProg, demoProg] 50) [.compile 0 0, .clone 0 1, .compile 0 1, .start 0 1, .start 1 0]).linkedAll = true := by
  decide +kernel

/-! ### independence after the clone: declarations, stop condition, purge -/

/-- The general insertion lemma behind `purge_free_independent`: operations that do not target `c`
(and do not clone into it), inserted ANYWHERE into ANY sequence, change nothing for `c`. -/
theorem others_ops_independent (w : World) (pre mid post : List Op) (c : CtxId)
    (hno : ∀ s, Op.clone s c ∉ pre ++ post) (hmid : ∀ op ∈ mid, op.target ≠ c) :
    (run w (pre ++ mid ++ post)).ctxs c = (run w (pre ++ post)).ctxs c := by
  have hcl : ∀ s, Op.clone s c ∉ mid := fun s hm => hmid _ hm rfl
  have hno2 : ∀ s, Op.clone s c ∉ pre ++ mid ++ post := by
    intro s hm
    simp only [List.mem_append] at hm
    rcases hm with (hm | hm) | hm
    · exact hno s (List.mem_append_left _ hm)
    · exact hcl s hm
    · exact hno s (List.mem_append_right _ hm)
  have a := projection c (pre ++ mid ++ post) hno2 w w (agree_refl c w)
  have b := projection c (pre ++ post) hno w w (agree_refl c w)
  have hmf : mid.filter (fun op => op.target == c) = [] := by
    apply List.filter_eq_nil_iff.mpr
    intro op hop
    simpa using hmid op hop
  have : (pre ++ mid ++ post).filter (fun op => op.target == c) = (pre ++ post).filter (fun op => op.target == c) := by
    simp only [List.filter_append, hmf, List.append_nil]
  rw [this] at a
  exact a.1.trans b.1.symm

/-- non-vacuity: a compile and a break of context 0 inserted into clone 1's run of `demoProg` -/
example : (run demoWorld ([.start 1 0, .step 1] ++ [.compile 0 0, .host 0 .brk] ++ [.step 1, .step 1, .step 1, .step 1])).ctxs 1 =
    (run demoWorld ([.start 1 0, .step 1] ++ [.step 1, .step 1, .step 1, .step 1])).ctxs 1 :=
  others_ops_independent demoWorld _ _ _ 1 (by intro s hm; simp at hm) (by decide)

/-- **clone_independent_functions.** After `clone src dst` (src ≠ dst), whatever is compiled into
ONE of the two — new functions, more overloads, REDEFINITIONS of functions the other one uses — and
whatever else is done to it (`ops`, all targeting that one), the OTHER one keeps exactly the table it
had: the clone keeps the old body after the original redefined the function, and the original keeps
its own after the clone did. (The C++ shares the `Functor` objects between the two tables, but a
redefinition swaps a NEW object into the redefining table's entry — `createOrReplace` — and never
writes through the shared pointer.) -/
theorem clone_independent_functions (w : World) (src dst : CtxId) (s : Ctx) (hne : src ≠ dst)
    (h : w.ctxs src = some s) (ops : List Op) :
    -- the original goes on: the clone keeps what it copied
    ((∀ op ∈ ops, op.target = src) →
      ((run (apply w (.clone src dst)) ops).ctxs dst).map (·.funcs) = some s.funcs) ∧
    -- the clone goes on: the original keeps what it had
    ((∀ op ∈ ops, op.target = dst) →
      (run (apply w (.clone src dst)) ops).ctxs src = some s) := by
  obtain ⟨⟨d, hd, _, hf, _⟩, hoth, _⟩ := clone_copies w src dst s h
  constructor
  · intro hops
    have := others_ops_independent (apply w (.clone src dst)) [] ops [] dst (by simp)
      (fun op hop => by rw [hops op hop]; exact hne)
    simp only [List.nil_append, List.append_nil] at this
    rw [this]
    show ((apply w (.clone src dst)).ctxs dst).map (·.funcs) = some s.funcs
    rw [hd, Option.map_some, hf]
  · intro hops
    have := others_ops_independent (apply w (.clone src dst)) [] ops [] src (by simp)
      (fun op hop => by rw [hops op hop]; exact Ne.symm hne)
    simp only [List.nil_append, List.append_nil] at this
    rw [this]
    show (apply w (.clone src dst)).ctxs src = some s
    rw [hoth src hne, h]

/-- a program that REDEFINES `F` of `demoProg` (other body) and adds an overload `F/2` -/
def redefProg : List Stmt :=
  [.funcS "F" [("P", Ty.int)] Ty.int [.returnS (some (.bin .mul (.var "P") (.lit (.int 100))))] [],
   .funcS "F" [("P", Ty.int), ("Q", Ty.int)] Ty.int [.returnS (some (.var "Q"))] [],
   .letS "Y" (.fcall "F" [.lit (.int 5)])]

/-- non-vacuity, both directions, by running: the original redefines F after the clone was taken — the
clone still computes F(5) = 6 with the OLD body, the original 500; and vice versa -/
example :
    let w := run (initWorld [demoProg, redefProg] 50) [.compile 0 0, .clone 0 1, .compile 0 1, .start 0 1, .start 1 0]
    let w' := run w [.step 0, .step 1, .step 0, .step 1, .step 0, .step 1, .step 0, .step 1, .step 1]
    ((w'.ctxs 0).map fun c => (lookupVar c.st.vars "Y" == .int 500, sigs c.funcs)) = some (true, [("F", 1), ("F", 2)]) ∧
    ((w'.ctxs 1).map fun c => (lookupVar c.st.vars "Y" == .int 6, sigs c.funcs)) = some (true, [("F", 1)]) := by
  decide +kernel

example :
    let w := run (initWorld [demoProg, redefProg] 50) [.compile 0 0, .clone 0 1, .compile 1 1, .start 1 1, .start 0 0]
    let w' := run w [.step 0, .step 1, .step 0, .step 1, .step 0, .step 1, .step 0, .step 1, .step 0]
    ((w'.ctxs 1).map fun c => (lookupVar c.st.vars "Y" == .int 500, sigs c.funcs)) = some (true, [("F", 1), ("F", 2)]) ∧
    ((w'.ctxs 0).map fun c => (lookupVar c.st.vars "Y" == .int 6, sigs c.funcs)) = some (true, [("F", 1)]) := by
  decide +kernel

/-- **clone_stop_independent.** The stop condition (`_returnCondition` of the root: set by a top-level
`return` or by `bloc_break`, cleared by `bloc_reset_stop`) is per context:
(1) a clone never inherits it — cloned from an original with a PENDING return / break it starts clear,
    with no saved value, and the original keeps its own;
(2) breaking, resetting, returning in any OTHER context `o` at any point of any history changes
    nothing for `c` (in particular: functions called in `c` run to their end — seeded C14-m4 made them
    test the original's condition);
(3) and vice versa: nothing done to the clone touches the original's condition. -/
theorem clone_stop_independent (w : World) (src dst : CtxId) (s : Ctx) (h : w.ctxs src = some s) :
    (∃ d, (apply w (.clone src dst)).ctxs dst = some d ∧ d.retPending = false ∧ d.st.returned = none ∧ d.running = false) ∧
    (src ≠ dst → (apply w (.clone src dst)).ctxs src = some s) ∧
    (∀ (w0 : World) (pre post : List Op) (c o : CtxId) (hc : HostCall), o ≠ c → (∀ s', Op.clone s' c ∉ pre ++ post) →
      (run w0 (pre ++ [.host o hc] ++ post)).ctxs c = (run w0 (pre ++ post)).ctxs c) := by
  refine ⟨?_, ?_, ?_⟩
  · have e : apply w (.clone src dst) = { w with ctxs := upd w.ctxs dst (some (cloneCtx s)) } := by
      simp only [apply, h]
    rw [e]
    exact ⟨cloneCtx s, upd_same _ _ _, rfl, rfl, rfl⟩
  · intro hne
    rw [(clone_copies w src dst s h).2.1 src hne, h]
  · intro w0 pre post c o hc ho hno
    exact others_ops_independent w0 pre [.host o hc] post c hno (by intro op hop; simp at hop; subst hop; exact ho)

/-- the last run ended normally without handing a value to the host -/
def endedOkNone (x : Ctx) : Bool :=
  match x.result with
  | some (.ok none) => true
  | _ => false

/-- non-vacuity: the original ran `return 1` (return pending), THEN is cloned; the clone runs
`demoProg` to its end (Y = 6) while the original's next run returns at once; breaking the original in
the middle of the clone's run changes nothing for the clone -/
example :
    let w := run (initWorld [demoProg, [.returnS (some (.lit (.int 1)))]] 50)
      [.compile 0 0, .compile 0 1, .start 0 1, .step 0, .clone 0 1, .start 1 0, .step 1, .step 1, .host 0 .brk, .start 0 0,
       .step 1, .step 1, .step 1]
    ((w.ctxs 0).map fun c => (c.retPending, c.running, endedOkNone c, lookupVar c.st.vars "Y" == .null Ty.int)) =
      some (true, false, true, true) ∧
    ((w.ctxs 1).map fun c => (c.retPending, c.running, lookupVar c.st.vars "Y" == .int 6, c.st.output)) =
      some (false, false, true, [54, 10]) := by
  decide +kernel

/-- a break that arrives DURING a run ends it at the next statement boundary, successfully; after
`bloc_reset_stop` the context runs again -/
example :
    let w := run demoWorld [.start 0 0, .step 0, .step 0, .host 0 .brk, .step 0, .step 0]
    let w' := run w [.host 0 .resetStop, .start 0 0, .step 0, .step 0, .step 0, .step 0, .step 0]
    ((w.ctxs 0).map fun c => (c.running, endedOkNone c, lookupVar c.st.vars "Y" == .null Ty.int, c.retPending)) =
      some (false, true, true, true) ∧
    ((w'.ctxs 0).map fun c => (c.running, lookupVar c.st.vars "Y" == .int 6, c.retPending)) = some (false, true, false) := by
  decide +kernel

/-- A host call changes the one flag it names and nothing else of the context: variables, declarations,
saved value, output, run state, result. -/
theorem host_frame (h : HostCall) (x : Ctx) :
    (hostCtx h x).st = x.st ∧ (hostCtx h x).funcs = x.funcs ∧ (hostCtx h x).running = x.running ∧
    (hostCtx h x).result = x.result ∧ (hostCtx h x).pc = x.pc ∧ (hostCtx h x).prog = x.prog ∧
    (hostCtx h x).execLevel = x.execLevel ∧ (hostCtx h x).whatBuf = x.whatBuf := by
  cases h <;> exact ⟨rfl, rfl, rfl, rfl, rfl, rfl, rfl, rfl⟩

example : hostCtx .brk { retPending := false, trusted := true } = { retPending := true, trusted := true } := rfl

/-- `Executable::run` entered while the stop condition is pending (`if (ctx.returnCondition()) return 0;`):
the call succeeds at once, hands no value to the host, executes nothing — variables, declarations and
output stay — and the condition stays pending until `bloc_reset_stop`; after the reset the same `start`
begins a real run. -/
theorem start_while_pending (w : World) (c : CtxId) (pid : Nat) (x : Ctx) (hx : w.ctxs c = some x)
    (hr : x.running = false) (hp : x.retPending = true) :
    (∃ y, (apply w (.start c pid)).ctxs c = some y ∧ y.running = false ∧ endedOkNone y = true ∧ y.retPending = true ∧
      y.st.vars = x.st.vars ∧ y.st.out = x.st.out ∧ y.funcs = x.funcs) ∧
    (∃ z, (run w [.host c .resetStop, .start c pid]).ctxs c = some z ∧ z.running = true ∧ z.pc = 0 ∧ z.prog = pid ∧
      z.retPending = false ∧ z.st.vars = x.st.vars ∧ z.funcs = x.funcs) := by
  constructor
  · simp only [apply, hx, hr, hp, Bool.false_eq_true, if_false, if_true, upd_same]
    exact ⟨_, rfl, rfl, rfl, rfl, rfl, rfl, rfl⟩
  · simp only [run, List.foldl_cons, List.foldl_nil, apply, hx, upd_same, hostCtx, hr, Bool.false_eq_true, if_false]
    exact ⟨_, rfl, rfl, rfl, rfl, rfl, rfl, rfl⟩

example : ((run (initWorld [[.returnS (some (.lit (.int 1)))], demoProg] 50) [.compile 0 0, .compile 0 1, .start 0 0, .step 0]).ctxs 0).map
    (fun x => (x.running, x.retPending)) = some (false, true) := by
  decide +kernel

/-- **purge_original_keeps_clone.** After `clone src dst` (src ≠ dst) the original may be purged, freed,
or both, at once or at any later point of any history (`pre`/`post`: operations on any contexts): the
clone still holds the variables and the declarations it copied, and everything it does afterwards —
compiling, running shared executables that call the copied functions — ends exactly as if the original
had been left alone. (In the C++ the clone's table shares the `Functor` objects through
`shared_ptr`: they survive the original's manager; fixes 137dbae / 4769647 were needed for the call
contexts and the destructor order.) -/
theorem purge_original_keeps_clone (w : World) (src dst : CtxId) (s : Ctx) (hne : src ≠ dst) (h : w.ctxs src = some s)
    (pre post : List Op) (hno : ∀ s', Op.clone s' dst ∉ pre ++ post) :
    (∀ kill ∈ [[Op.purge src], [Op.free src], [Op.purge src, Op.free src]],
      (run (apply w (.clone src dst)) (pre ++ kill ++ post)).ctxs dst = (run (apply w (.clone src dst)) (pre ++ post)).ctxs dst) ∧
    (∀ kill ∈ [[Op.purge src], [Op.free src], [Op.purge src, Op.free src]],
      ((run (apply w (.clone src dst)) kill).ctxs dst).map (fun d => (d.st.vars, d.funcs)) = some (s.st.vars, s.funcs)) := by
  constructor
  · intro kill hk
    apply others_ops_independent _ pre kill post dst hno
    intro op hop
    simp only [List.mem_cons, List.not_mem_nil, or_false] at hk
    rcases hk with rfl | rfl | rfl <;> simp only [List.mem_cons, List.not_mem_nil, or_false] at hop
    · subst hop; exact hne
    · subst hop; exact hne
    · rcases hop with rfl | rfl <;> exact hne
  · intro kill hk
    obtain ⟨⟨d, hd, hv, hf, _⟩, _⟩ := clone_copies w src dst s h
    have := others_ops_independent (apply w (.clone src dst)) [] kill [] dst (by simp) (by
      intro op hop
      simp only [List.mem_cons, List.not_mem_nil, or_false] at hk
      rcases hk with rfl | rfl | rfl <;> simp only [List.mem_cons, List.not_mem_nil, or_false] at hop
      · subst hop; exact hne
      · subst hop; exact hne
      · rcases hop with rfl | rfl <;> exact hne)
    simp only [List.nil_append, List.append_nil] at this
    rw [this]
    show ((apply w (.clone src dst)).ctxs dst).map (fun d => (d.st.vars, d.funcs)) = some (s.st.vars, s.funcs)
    rw [hd, Option.map_some, hv, hf]

/-- non-vacuity: `overProg` compiled in the original, cloned, the original purged and freed BEFORE the
clone runs the shared executable: G(2) = AREA(2,5) + AREA() = 11 through the copied table -/
example :
    let w := run (initWorld [overProg] 50) [.compile 0 0, .clone 0 1, .purge 0, .free 0, .start 1 0,
      .step 1, .step 1, .step 1, .step 1, .step 1, .step 1]
    (w.ctxs 0).isNone = true ∧
    ((w.ctxs 1).map fun c => (c.running, returnedVal c (.int 11), sigs c.funcs)) =
      some (false, true, [("AREA", 0), ("AREA", 1), ("AREA", 2), ("G", 1)]) := by
  decide +kernel

/-- What else `clone` copies and does not copy (`Context::clone`, member by member — `cloneCtx`): the
trusted flag IS copied, the trace flag is NOT (a new context does not trace), nor are the value saved
by `return`, the output buffer, a run in progress, the exec stack, the running `forall`s, the thread's
`what` buffer; `purge` keeps the trusted flag and clears the trace flag. -/
theorem clone_flags (w : World) (src dst : CtxId) (s : Ctx) (h : w.ctxs src = some s) :
    (∃ d, (apply w (.clone src dst)).ctxs dst = some d ∧ d.trusted = s.trusted ∧ d.trace = false ∧
      d.execLevel = 0 ∧ d.st.iters = [] ∧ d.pc = 0 ∧ d.whatBuf = none) ∧
    (∃ p, (apply w (.purge src)).ctxs src = some p ∧ p.trusted = s.trusted ∧ p.trace = false ∧ p.retPending = false ∧
      p.funcs = [] ∧ p.st.vars = []) := by
  constructor
  · have e : apply w (.clone src dst) = { w with ctxs := upd w.ctxs dst (some (cloneCtx s)) } := by
      simp only [apply, h]
    rw [e]
    exact ⟨cloneCtx s, upd_same _ _ _, rfl, rfl, rfl, rfl, rfl, rfl⟩
  · have e : apply w (.purge src) = { w with ctxs := upd w.ctxs src (some (purgeCtx s)) } := by
      simp only [apply, h]
    rw [e]
    exact ⟨purgeCtx s, upd_same _ _ _, rfl, rfl, rfl, rfl, rfl⟩

example :
    let w := run demoWorld [.host 0 (.trusted true), .host 0 (.trace true), .clone 0 3, .purge 0]
    ((w.ctxs 3).map fun c => (c.trusted, c.trace)) = some (true, false) ∧
    ((w.ctxs 0).map fun c => (c.trusted, c.trace)) = some (true, false) ∧
    ((w.ctxs 1).map fun c => (c.trusted, c.trace)) = some (false, false) := by
  decide +kernel

/-! ### invariants of the function tables over all reachable worlds -/

theorem stepOutcome_funcs (ctx : Ctx) (lw : List (StmtRef × Nat)) (r : Res Flow × St) :
    (stepOutcome ctx lw r).1.funcs = ctx.funcs := by
  unfold stepOutcome
  split <;> rfl

theorem reinstall_eq (fs fs' : List Func) (s : Stmt) (h : reinstall fs s = some fs') :
    fs' = fs ∨ fs' = declare fs [s] := by
  cases s <;> simp only [reinstall] at h
  case funcS n ps rt b c =>
    split at h
    · cases h; exact .inr rfl
    · cases h
  all_goals (cases h; exact .inl rfl)

/-- what a step can do to the function table: nothing, or re-install one declaration (`declare … [s]`) -/
theorem stepCtx_funcs (progs : List (List Stmt)) (fuel : Nat) (x : Ctx) :
    ∃ prog, (stepCtx progs fuel x).1.funcs = declare x.funcs prog := by
  unfold stepCtx
  split
  · exact ⟨[], rfl⟩
  · split
    · exact ⟨[], rfl⟩
    · split
      · exact ⟨[], stepOutcome_funcs _ _ _⟩
      · split
        · exact ⟨[], rfl⟩
        · rename_i stmt _
          split
          · exact ⟨[], stepOutcome_funcs _ _ _⟩
          · rename_i fs' hre
            rw [stepOutcome_funcs]
            rcases reinstall_eq _ _ _ hre with e | e
            · exact ⟨[], e⟩
            · exact ⟨[stmt], e⟩

/-- One operation, seen from context `c`: it is left as it was; or it stays and its function table is
`declare`d further (compile, a re-installing step; `[]` = unchanged); or it is released; or purged
(empty table); or it becomes the clone of a live context. -/
theorem apply_ctx_cases (w : World) (op : Op) (c : CtxId) :
    (apply w op).ctxs c = w.ctxs c ∨
    (∃ x y prog, w.ctxs c = some x ∧ (apply w op).ctxs c = some y ∧ y.funcs = declare x.funcs prog) ∨
    (op = .free c ∧ (apply w op).ctxs c = none) ∨
    (op = .purge c ∧ ∃ y, (apply w op).ctxs c = some y ∧ y.funcs = []) ∨
    (∃ s sx, op = .clone s c ∧ w.ctxs s = some sx ∧ (apply w op).ctxs c = some (cloneCtx sx)) := by
  by_cases ht : c = op.target
  · subst ht
    cases op with
    | compile c pid =>
      simp only [apply, Op.target]
      split
      · exact .inl rfl
      · rename_i x hx
        exact .inr (.inl ⟨x, _, _, hx, upd_same _ _ _, rfl⟩)
    | start c pid =>
      simp only [apply, Op.target]
      split
      · exact .inl rfl
      · rename_i x hx
        split
        · exact .inl rfl
        · split
          · exact .inr (.inl ⟨x, _, [], hx, upd_same _ _ _, rfl⟩)
          · exact .inr (.inl ⟨x, _, [], hx, upd_same _ _ _, rfl⟩)
    | step c =>
      simp only [apply, Op.target]
      split
      · exact .inl rfl
      · rename_i x hx
        obtain ⟨prog, hp⟩ := stepCtx_funcs w.progs w.fuel x
        exact .inr (.inl ⟨x, _, prog, hx, upd_same _ _ _, hp⟩)
    | clone s d =>
      simp only [apply, Op.target]
      split
      · exact .inl rfl
      · rename_i sx hsx
        exact .inr (.inr (.inr (.inr ⟨s, sx, rfl, hsx, upd_same _ _ _⟩)))
    | purge c =>
      simp only [apply, Op.target]
      split
      · exact .inl rfl
      · exact .inr (.inr (.inr (.inl ⟨trivial, _, upd_same _ _ _, rfl⟩)))
    | free c =>
      exact .inr (.inr (.inl ⟨rfl, upd_same _ _ _⟩))
    | host c h =>
      simp only [apply, Op.target]
      split
      · exact .inl rfl
      · rename_i x hx
        exact .inr (.inl ⟨x, _, [], hx, upd_same _ _ _, by cases h <;> rfl⟩)
  · exact .inl ((footprint w op).2.2.1 c ht)

/-- every table of the world holds each signature once -/
def TablesNodup (w : World) : Prop := ∀ c x, w.ctxs c = some x → (sigs x.funcs).Nodup

/-- **The hypothesis of `index_call_eq_name_call` holds in every reachable world**: no operation ever
puts a signature twice into a table (`createOrReplace` replaces in place or appends a NEW signature;
`clone` copies a table that has the property; `purge` empties). -/
theorem tablesNodup_apply (w : World) (op : Op) (h : TablesNodup w) : TablesNodup (apply w op) := by
  intro c y hy
  rcases apply_ctx_cases w op c with e | ⟨x, y', prog, hx, hy', hf⟩ | ⟨_, hn⟩ | ⟨_, y', hy', hf⟩ | ⟨s, sx, _, hsx, hc⟩
  · rw [e] at hy; exact h c y hy
  · rw [hy'] at hy; cases hy; rw [hf]; exact nodup_sigs_declare prog _ (h c x hx)
  · rw [hn] at hy; cases hy
  · rw [hy'] at hy; cases hy; rw [hf]; exact List.nodup_nil
  · rw [hc] at hy; cases hy; exact h s sx hsx

theorem tablesNodup_run (ops : List Op) : ∀ w, TablesNodup w → TablesNodup (run w ops) := by
  induction ops with
  | nil => intro w h; exact h
  | cons op ops ih => intro w h; rw [run_cons]; exact ih _ (tablesNodup_apply w op h)

theorem tablesNodup_init (progs : List (List Stmt)) (fuel : Nat) : TablesNodup (initWorld progs fuel) := by
  intro c x hx
  simp only [initWorld] at hx
  split at hx
  · cases hx; exact List.nodup_nil
  · cases hx

/-- non-vacuity: the world after compiling the overload program, cloning, redefining in the clone -/
example : TablesNodup (run (initWorld [overProg, demoProg] 50) [.compile 0 0, .clone 0 1, .compile 1 1, .start 1 0, .step 1]) :=
  tablesNodup_run _ _ (tablesNodup_init _ _)

/-- **An executable linked in a context stays linked there** (function-table part) through everything
that can happen to the context except a purge, its release, or its replacement by a clone of another
context: compiling more programs, running any executables (re-installing declarations), host calls,
and every operation on other contexts. -/
theorem linked_preserved (w : World) (op : Op) (c : CtxId) (x : Ctx) (l : List Sig) (hx : w.ctxs c = some x)
    (hl : linked l x.funcs = true) (hp : op ≠ .purge c) (hf : op ≠ .free c) (hk : ∀ s, op ≠ .clone s c) :
    ∃ y, (apply w op).ctxs c = some y ∧ linked l y.funcs = true := by
  rcases apply_ctx_cases w op c with e | ⟨x', y, prog, hx', hy, hfy⟩ | ⟨ho, _⟩ | ⟨ho, _⟩ | ⟨s, _, ho, _⟩
  · exact ⟨x, by rw [e, hx], hl⟩
  · rw [hx] at hx'; cases hx'
    exact ⟨y, hy, by rw [hfy]; exact linked_declare l _ prog hl⟩
  · exact absurd ho hf
  · exact absurd ho hp
  · exact absurd ho (hk s)

/-- … over whole histories: no purge / free of `c`, no clone into `c`. -/
theorem linked_preserved_run (l : List Sig) (c : CtxId) (ops : List Op) : ∀ (w : World) (x : Ctx), w.ctxs c = some x →
    linked l x.funcs = true → Op.purge c ∉ ops → Op.free c ∉ ops → (∀ s, Op.clone s c ∉ ops) →
    ∃ y, (run w ops).ctxs c = some y ∧ linked l y.funcs = true := by
  induction ops with
  | nil => intro w x hx hl _ _ _; exact ⟨x, hx, hl⟩
  | cons op ops ih =>
    intro w x hx hl hp hf hk
    obtain ⟨y, hy, hly⟩ := linked_preserved w op c x l hx hl
      (fun e => hp (e ▸ List.mem_cons_self)) (fun e => hf (e ▸ List.mem_cons_self)) (fun s e => hk s (e ▸ List.mem_cons_self))
    rw [run_cons]
    exact ih _ y hy hly (fun m => hp (List.mem_cons_of_mem _ m)) (fun m => hf (List.mem_cons_of_mem _ m))
      (fun s m => hk s (List.mem_cons_of_mem _ m))

/-- non-vacuity: clone 1 of `demoWorld` is linked to the table [F/1]; the history below (it compiles the
redefinition + overload, runs, is interrupted) has no purge / free / clone into 1 — and F/1 is still at index 0 after it -/
example : ((demoWorld.ctxs 1).map fun x => linked [("F", 1)] x.funcs) = some true ∧
    (((run { demoWorld with progs := [demoProg, redefProg] } [.compile 1 1, .start 1 1, .step 1, .step 1, .host 1 .brk, .purge 0]).ctxs 1).map
      fun y => (linked [("F", 1)] y.funcs, sigs y.funcs)) = some (true, [("F", 1), ("F", 2)]) := by
  decide +kernel

/-- **index = name in every reachable world**: `index_call_eq_name_call` without its table hypothesis —
in any world reached from a fresh process by ANY operations, for any context and any executable linked
there, the entry the C++ calls (by index) is the function the model calls (by name and arity). -/
theorem reachable_index_call_eq_name_call (progs : List (List Stmt)) (fuel : Nat) (ops : List Op) (c : CtxId) (x : Ctx)
    (l : List Sig) (name : String) (arity : Nat) (hx : (run (initWorld progs fuel) ops).ctxs c = some x)
    (hl : linked l x.funcs = true) (hm : (name, arity) ∈ l) :
    callByIndex l x.funcs name arity = callByName x.funcs name arity :=
  index_call_eq_name_call l x.funcs name arity hl (tablesNodup_run ops _ (tablesNodup_init progs fuel) c x hx) hm

example : ((run (initWorld [overProg] 50) [.compile 0 0, .clone 0 1, .purge 0]).ctxs 1).map
    (fun x => (linked [("AREA", 0), ("AREA", 1), ("AREA", 2), ("G", 1)] x.funcs,
               (callByIndex [("AREA", 0), ("AREA", 1), ("AREA", 2), ("G", 1)] x.funcs "AREA" 2).map sigOf,
               (callByName x.funcs "AREA" 2).map sigOf)) = some (true, some ("AREA", 2), some ("AREA", 2)) := by
  decide +kernel

/-! ### World ↔ Interp: a stepped run IS `runProgram`

`stepCtx` hands statement number `pc` to `exec` with fuel `w.fuel - pc - 1` — the fuel `execList` of
Model/Interp.lean has left when it reaches that statement — so the equality below is exact: same
outcome, same state, also when the fuel runs out. -/

theorem execList_cons' (funcs : List Func) (depth fuel : Nat) (st : Stmt) (rest : List Stmt) (s : St) :
    execList funcs depth (fuel + 1) (st :: rest) s =
      match exec funcs depth fuel st s with
      | (.ok fl, s') => if fl == .norm then execList funcs depth fuel rest s' else (.ok fl, s')
      | (.err c a, s') => (.err c a, s')
      | (.haz h, s') => (.haz h, s')
      | (.unmodelled, s') => (.unmodelled, s') := by
  rw [execList]
  rw [bind_app]
  cases h : exec funcs depth fuel st s with
  | mk r s' =>
    cases r with
    | ok fl => dsimp only; split <;> rfl
    | err c a => rfl
    | haz h => rfl
    | unmodelled => rfl

theorem execList_zero (funcs : List Func) (depth : Nat) (l : List Stmt) (s : St) :
    execList funcs depth 0 l s = (.err oofCode [], s) := by
  rw [execList]; rfl

theorem execList_nil (funcs : List Func) (depth fuel : Nat) (s : St) :
    execList funcs depth (fuel + 1) [] s = (.ok .norm, s) := by
  rw [execList]
  · rfl
  · simp

/-- what `bloc_execute2` + `bloc_drop_returned` hand to the host for a finished statement list -/
def outcomeOf (r : Res Flow × St) : Res (Option Val) :=
  match r.1 with
  | .ok _ => .ok r.2.returned
  | .err c a => .err c a
  | .haz h => .haz h
  | .unmodelled => .unmodelled

/-- context `y` is what a finished run with interpreter result `r` leaves -/
def Finished (fs : List Func) (r : Res Flow × St) (y : Ctx) : Prop :=
  y.running = false ∧ y.result = some (outcomeOf r) ∧ y.st = r.2 ∧ y.funcs = fs

theorem step_ctx (w : World) (c : CtxId) (x : Ctx) (h : w.ctxs c = some x) :
    (step w c).ctxs c = some (stepCtx w.progs w.fuel x).1 ∧ (step w c).progs = w.progs ∧ (step w c).fuel = w.fuel := by
  refine ⟨?_, (footprint w (.step c)).1, (footprint w (.step c)).2.1⟩
  simp only [step, apply, h, upd_same]

theorem stepOutcome_finished (x : Ctx) (lw : List (StmtRef × Nat)) (r : Res Flow × St)
    (hn : ∀ s', r ≠ (.ok .norm, s')) : Finished x.funcs r (stepOutcome x lw r).1 := by
  rcases r with ⟨r, s'⟩
  cases r with
  | ok fl => cases fl <;> first | exact absurd rfl (hn s') | exact ⟨rfl, rfl, rfl, rfl⟩
  | err c a => exact ⟨rfl, rfl, rfl, rfl⟩
  | haz h => exact ⟨rfl, rfl, rfl, rfl⟩
  | unmodelled => exact ⟨rfl, rfl, rfl, rfl⟩

theorem stepped_run_eq_execList : ∀ (rest : List Stmt) (w : World) (c : CtxId) (x : Ctx),
    w.ctxs c = some x → x.running = true → x.retPending = false →
    (w.progs.getD x.prog []).drop x.pc = rest →
    (∀ s ∈ rest, reinstall x.funcs s = some x.funcs) →
    ∀ n, rest.length + 1 ≤ n →
    ∃ y, (alone w c n).ctxs c = some y ∧ Finished x.funcs (execList x.funcs 0 (w.fuel - x.pc) rest x.st) y := by
  intro rest
  induction rest with
  | nil =>
    intro w c x hx hr hp hd _ n hn
    obtain ⟨m, rfl⟩ : ∃ m, n = m + 1 := ⟨n - 1, by omega⟩
    rw [alone_succ]
    obtain ⟨hs, _, _⟩ := step_ctx w c x hx
    have hnone : (w.progs.getD x.prog [])[x.pc]? = none := by
      rw [List.getElem?_eq_none_iff]; exact List.drop_eq_nil_iff.mp hd
    have hfin : Finished x.funcs (execList x.funcs 0 (w.fuel - x.pc) [] x.st) (stepCtx w.progs w.fuel x).1 := by
      simp only [stepCtx, hr, hp, Bool.not_true, Bool.false_eq_true, if_false]
      cases hf : w.fuel - x.pc with
      | zero => dsimp only; rw [execList_zero]; exact ⟨rfl, rfl, rfl, rfl⟩
      | succ f => dsimp only; rw [hnone, execList_nil]; exact ⟨rfl, rfl, rfl, rfl⟩
    exact ⟨_, alone_idle (step w c) c _ hs hfin.1 m, hfin⟩
  | cons s rest' ih =>
    intro w c x hx hr hp hd hst n hn
    obtain ⟨m, rfl⟩ : ∃ m, n = m + 1 := ⟨n - 1, by omega⟩
    have hm : rest'.length + 1 ≤ m := by simp only [List.length_cons] at hn; omega
    have hre : reinstall x.funcs s = some x.funcs := hst s List.mem_cons_self
    rw [alone_succ]
    obtain ⟨hs, hpr, hfu⟩ := step_ctx w c x hx
    have hsome : (w.progs.getD x.prog [])[x.pc]? = some s := by
      have := List.getElem?_drop (xs := w.progs.getD x.prog []) (i := x.pc) (j := 0)
      rw [hd] at this
      simpa using this.symm
    have hd' : (w.progs.getD x.prog []).drop (x.pc + 1) = rest' := by
      have := congrArg (List.drop 1) hd
      simpa [List.drop_drop] using this
    cases hf : w.fuel - x.pc with
    | zero =>
      have hfin : Finished x.funcs (execList x.funcs 0 0 (s :: rest') x.st) (stepCtx w.progs w.fuel x).1 := by
        simp only [stepCtx, hr, hp, Bool.not_true, Bool.false_eq_true, if_false, hf]
        rw [execList_zero]; exact ⟨rfl, rfl, rfl, rfl⟩
      exact ⟨_, alone_idle (step w c) c _ hs hfin.1 m, hfin⟩
    | succ f =>
      have hstep : stepCtx w.progs w.fuel x = stepOutcome x
          (stmtLevelWrites x.prog x.pc x.execLevel s ++ (x.funcs.map funcLevelWrites).flatten) (exec x.funcs 0 f s x.st) := by
        have hx' : ({ x with running := true, retPending := false } : Ctx) = x := by
          cases x; simp only at hr hp; subst hr; subst hp; rfl
        simp only [stepCtx, hr, hp, Bool.not_true, Bool.false_eq_true, if_false, hf, hsome, hre]
        exact congrArg (fun y => stepOutcome y _ _) hx'
      rw [execList_cons']
      by_cases hnorm : ∃ s', exec x.funcs 0 f s x.st = (.ok .norm, s')
      · obtain ⟨s', he⟩ := hnorm
        rw [he]
        simp only [beq_self_eq_true, if_true]
        rw [hstep, he] at hs
        have := ih (step w c) c { x with st := s', pc := x.pc + 1 } hs hr hp (by rw [hpr]; exact hd')
          (fun t ht => hst t (List.mem_cons_of_mem _ ht)) m hm
        rw [hfu] at this
        have hff : w.fuel - (x.pc + 1) = f := by omega
        simp only [hff] at this
        exact this
      · have hn' : ∀ s', exec x.funcs 0 f s x.st ≠ (.ok .norm, s') := fun s' e => hnorm ⟨s', e⟩
        have hfin := stepOutcome_finished x (stmtLevelWrites x.prog x.pc x.execLevel s ++ (x.funcs.map funcLevelWrites).flatten) _ hn'
        rw [← hstep] at hfin
        refine ⟨_, alone_idle (step w c) c _ hs hfin.1 m, ?_⟩
        -- the list result is the statement's own result
        have : (match exec x.funcs 0 f s x.st with
            | (.ok fl, s') => if fl == .norm then execList x.funcs 0 f rest' s' else (.ok fl, s')
            | (.err c a, s') => (.err c a, s')
            | (.haz h, s') => (.haz h, s')
            | (.unmodelled, s') => (.unmodelled, s')) = exec x.funcs 0 f s x.st := by
          rcases he : exec x.funcs 0 f s x.st with ⟨r, s'⟩
          cases r with
          | ok fl =>
            cases fl with
            | norm => exact absurd he (hn' s')
            | _ => rfl
          | _ => rfl
        rw [this]
        exact hfin


/-- the state `runProgram` starts from: every symbol the parser registered, as a typed null -/
def progInit (prog : List Stmt) (init : St) : St :=
  let vars0 := (mainDecls (collectFuncs prog) prog).foldl (fun vs (n, t) => if vs.any (·.1 == n) then vs else vs ++ [(n, Val.null t)]) init.vars
  { init with vars := vars0 }

theorem runProgram_eq_execList (fuel : Nat) (prog : List Stmt) (init : St) :
    (runProgram fuel prog init).outcome = outcomeOf (execList (collectFuncs prog) 0 fuel prog (progInit prog init)) ∧
    (runProgram fuel prog init).st = (execList (collectFuncs prog) 0 fuel prog (progInit prog init)).2 := by
  unfold runProgram progInit
  dsimp only
  split <;> (rename_i h; rw [h]; exact ⟨rfl, rfl⟩)

/-- `w`'s context `d` is about to run `prog` (executable `pid`) from the state `runProgram` starts
from: the declarations of `prog` in its table, every variable of `prog` a typed null -/
def ReadyToRun (w : World) (d : CtxId) (prog : List Stmt) : Prop :=
  ∃ x, w.ctxs d = some x ∧ x.running = true ∧ x.retPending = false ∧ x.pc = 0 ∧
    w.progs.getD x.prog [] = prog ∧ x.funcs = collectFuncs prog ∧ x.st = progInit prog {}

theorem run_append (w : World) (a b : List Op) : run w (a ++ b) = run (run w a) b := by
  simp [run, List.foldl_append]

/-- Executing a declaration of `prog` puts back what compiling `prog` had put into the table
(`FUNCTIONStatement::doit` is then a no-op, as `exec` of Model/Interp.lean has it). True of a program
that declares each signature once and whose function bodies call only functions declared before them
(what the parser accepts); FALSE of a program that declares one signature twice — there the first
declaration is in force until the second one is executed, which `runProgram` does not model. -/
def StableDecls (prog : List Stmt) : Prop :=
  ∀ s ∈ prog, reinstall (collectFuncs prog) s = some (collectFuncs prog)

/-- A program without function declarations has nothing to re-install: for those `world_run_eq_runProgram`
and its companions hold unconditionally. -/
theorem stableDecls_of_noDecl (prog : List Stmt)
    (h : ∀ s ∈ prog, ∀ n ps rt b c, s ≠ .funcS n ps rt b c) : StableDecls prog := by
  intro s hs
  cases s with
  | funcS n ps rt b c => exact absurd rfl (h _ hs n ps rt b c)
  | _ => rfl

example : StableDecls [.letS "X" (.lit (.int 5)), .printS [.var "X"], .returnS (some (.var "X"))] :=
  stableDecls_of_noDecl _ (by intro s hs; simp at hs; rcases hs with rfl | rfl | rfl <;> (intros; simp))

/-! #### a syntactic criterion for `StableDecls` -/

/-- the declared return type the typing pass finds for a call (`typeOfExpr`, case `fcall`) -/
def retOf (fs : List Func) (name : String) (k : Nat) : Ty :=
  (fs.find? (fun f => f.name == name && f.params.length == k)).map (·.ret) |>.getD Ty.none

theorem argsOK_all (S : String → Nat → Bool) (fuel : Nat) (args : List Expr) (h : argsOK S fuel args = true) :
    ∀ a ∈ args, exprOK S fuel a = true := by
  induction args with
  | nil => intro a ha; cases ha
  | cons x xs ih =>
    rw [argsOK, Bool.and_eq_true] at h
    intro a ha
    rcases List.mem_cons.mp ha with rfl | ha
    · exact h.1
    · exact ih h.2 a ha

theorem typeOfExpr_congr (S : String → Nat → Bool) (fs gs : List Func)
    (hret : ∀ name k, S name k = true → retOf fs name k = retOf gs name k) :
    ∀ (fuel : Nat) (tab : List (String × Ty)) (e : Expr), exprOK S fuel e = true →
      typeOfExpr fs tab fuel e = typeOfExpr gs tab fuel e := by
  intro fuel
  induction fuel with
  | zero => intro tab e _; rfl
  | succ fuel ih =>
    intro tab e h
    cases e with
    | lit v => rfl
    | var n => rfl
    | un op a =>
      rw [exprOK] at h
      simp only [typeOfExpr]; rw [ih tab a h]
    | bin op a b =>
      rw [exprOK, Bool.and_eq_true] at h
      simp only [typeOfExpr]; rw [ih tab a h.1, ih tab b h.2]
    | call name args =>
      rw [exprOK] at h
      have hm : args.map (typeOfExpr fs tab fuel) = args.map (typeOfExpr gs tab fuel) :=
        List.map_congr_left (fun a ha => ih tab a (argsOK_all S fuel args h a ha))
      unfold typeOfExpr
      split <;> rename_i heq <;>
        first
        | (cases heq; rw [hm])
        | (cases heq)
    | fcall name args =>
      rw [exprOK] at h
      have := hret name args.length h
      simp only [retOf] at this
      simp only [typeOfExpr]
      exact this
    | member m recv args =>
      rw [exprOK] at h
      simp only [typeOfExpr]; rw [ih tab recv h]
    | errorE => simp only [typeOfExpr]
    | item e n =>
      -- `ItemExpression::type`: the declaration is static only for `error@N` and `tup(…)@N`
      cases e with
      | call name args =>
        by_cases hn : name = "tup"
        · subst hn
          have hok : argsOK S fuel args = true := by rw [exprOK] at h; exact h
          have hm : args.map (typeOfExpr fs tab fuel) = args.map (typeOfExpr gs tab fuel) :=
            List.map_congr_left (fun a ha => ih tab a (argsOK_all S fuel args hok a ha))
          simp only [typeOfExpr, hm]
        · rw [typeOfExpr, typeOfExpr] <;> first | rfl | (intro args' hc; cases hc; exact hn rfl) | (intro hc; cases hc)
      | errorE => simp only [typeOfExpr]
      | lit v => simp only [typeOfExpr]
      | var v => simp only [typeOfExpr]
      | un op a => simp only [typeOfExpr]
      | bin op a b => simp only [typeOfExpr]
      | fcall name args => simp only [typeOfExpr]
      | member m recv args => simp only [typeOfExpr]
      | item e2 n2 => simp only [typeOfExpr]


theorem decl_congr (S : String → Nat → Bool) (fs gs : List Func)
    (hret : ∀ name k, S name k = true → retOf fs name k = retOf gs name k) : ∀ fuel : Nat,
    (∀ t st, stmtOK S fuel st = true → declStmt fs fuel t st = declStmt gs fuel t st) ∧
    (∀ t l, listOK S fuel l = true → declList fs fuel t l = declList gs fuel t l) ∧
    (∀ t l, rulesOK S fuel l = true → declRules fs fuel t l = declRules gs fuel t l) ∧
    (∀ t l, catchesOK S fuel l = true → declCatches fs fuel t l = declCatches gs fuel t l) := by
  have hE := typeOfExpr_congr S fs gs hret
  intro fuel
  induction fuel with
  | zero =>
    refine ⟨fun t st _ => ?_, fun t l _ => ?_, fun t l _ => ?_, fun t l _ => ?_⟩
    · simp only [declStmt]
    · simp only [declList]
    · simp only [declRules]
    · simp only [declCatches]
  | succ fuel ih =>
    obtain ⟨ihS, ihL, ihR, ihC⟩ := ih
    refine ⟨?_, ?_, ?_, ?_⟩
    · intro t st h
      cases st with
      | letS n e =>
        simp only [stmtOK] at h
        simp only [declStmt]; rw [hE 100 _ e h]
      | forS v b e st d body =>
        simp only [stmtOK] at h
        simp only [declStmt]; exact ihL _ body h
      | forallS it src d body =>
        simp only [stmtOK, Bool.and_eq_true] at h
        simp only [declStmt]; rw [hE 100 _ src h.1]; exact ihL _ body h.2
      | whileS c body =>
        simp only [stmtOK] at h
        simp only [declStmt]; exact ihL _ body h
      | ifS rules =>
        simp only [stmtOK] at h
        simp only [declStmt]; exact ihR _ rules h
      | beginS body catches =>
        simp only [stmtOK, Bool.and_eq_true] at h
        simp only [declStmt]; rw [ihL _ body h.1]; exact ihC _ catches h.2
      | _ => simp only [declStmt]
    · intro t l h
      cases l with
      | nil => simp only [declList]
      | cons s rest =>
        simp only [listOK, Bool.and_eq_true] at h
        simp only [declList]; rw [ihS _ s h.1]; exact ihL _ rest h.2
    · intro t l h
      cases l with
      | nil => simp only [declRules]
      | cons r rest =>
        obtain ⟨c, body⟩ := r
        simp only [rulesOK, Bool.and_eq_true] at h
        simp only [declRules]; rw [ihL _ body h.1]; exact ihR _ rest h.2
    · intro t l h
      cases l with
      | nil => simp only [declCatches]
      | cons r rest =>
        obtain ⟨c, body⟩ := r
        simp only [catchesOK, Bool.and_eq_true] at h
        simp only [declCatches]; rw [ihL _ body h.1]; exact ihC _ rest h.2


/-! #### the fold: a program that declares each signature once, bodies calling only what is declared so far -/

theorem any_sameSig_iff (fs : List Func) (f : Func) : fs.any (sameSig f) = true ↔ sigOf f ∈ sigs fs := by
  constructor
  · intro h
    obtain ⟨g, hg, hs⟩ := List.any_eq_true.mp h
    exact List.mem_map.mpr ⟨g, hg, ((sameSig_iff f g).mp hs).symm⟩
  · intro hm
    obtain ⟨g, hg, hs⟩ := List.mem_map.mp hm
    exact List.any_eq_true.mpr ⟨g, hg, (sameSig_iff f g).mpr hs.symm⟩

theorem addFunc_new (fs : List Func) (f : Func) (h : sigOf f ∉ sigs fs) : addFunc fs f = fs ++ [f] := by
  unfold addFunc
  rw [if_neg]
  intro ha
  exact h ((any_sameSig_iff fs f).mp ha)

theorem addFunc_replace (pre post : List Func) (g f : Func) (nd : (sigs (pre ++ [g] ++ post)).Nodup)
    (hs : sigOf f = sigOf g) : addFunc (pre ++ [g] ++ post) f = pre ++ [f] ++ post := by
  have hmem : sigOf f ∈ sigs (pre ++ [g] ++ post) := by
    rw [hs]; simp [sigs]
  unfold addFunc
  rw [if_pos ((any_sameSig_iff _ f).mpr hmem)]
  simp only [sigs, List.map_append, List.map_cons, List.map_nil] at nd
  have hpre : ∀ x ∈ pre, sameSig f x = false := by
    intro x hx
    cases hq : sameSig f x with
    | false => rfl
    | true =>
      exfalso
      have e := (sameSig_iff f x).mp hq
      have h1 : sigOf g ∈ pre.map sigOf := by rw [← hs, e]; exact List.mem_map.mpr ⟨x, hx, rfl⟩
      have nd1 := (List.nodup_append.mp (List.nodup_append.mp nd).1).2.2
      exact nd1 _ h1 _ (List.mem_singleton.mpr rfl) rfl
  have hpost : ∀ x ∈ post, sameSig f x = false := by
    intro x hx
    cases hq : sameSig f x with
    | false => rfl
    | true =>
      exfalso
      have e := (sameSig_iff f x).mp hq
      have h1 : sigOf g ∈ post.map sigOf := by rw [← hs, e]; exact List.mem_map.mpr ⟨x, hx, rfl⟩
      have nd1 := (List.nodup_append.mp nd).2.2
      exact nd1 (sigOf g) (by simp) _ h1 rfl
  have hg : sameSig f g = true := (sameSig_iff f g).mpr hs
  simp only [List.map_append, List.map_cons, List.map_nil, hg, if_true]
  congr 1
  · congr 1
    conv => rhs; rw [← List.map_id pre]
    exact List.map_congr_left (fun x hx => by simp [hpre x hx])
  · conv => rhs; rw [← List.map_id post]
    exact List.map_congr_left (fun x hx => by simp [hpost x hx])

theorem retOf_append (l1 l2 : List Func) (name : String) (k : Nat) (h : (name, k) ∈ sigs l1) :
    retOf (l1 ++ l2) name k = retOf l1 name k := by
  unfold retOf
  rw [List.find?_append]
  obtain ⟨g, hg, hs⟩ := List.mem_map.mp h
  have : (l1.find? (fun f => f.name == name && f.params.length == k)).isSome = true := by
    rw [List.find?_isSome]
    refine ⟨g, hg, ?_⟩
    simp only [sigOf, Prod.mk.injEq] at hs
    simp [hs.1, hs.2]
  cases hf : l1.find? (fun f => f.name == name && f.params.length == k) with
  | none => rw [hf] at this; cases this
  | some x => rfl

/-- the private symbols the compilation of `function n(ps) … ` computes in a context whose table is `fs` -/
def declsOf (fs : List Func) (n : String) (ps : List (String × Ty)) (rt : Ty) (b : List Stmt) (c : List (String × List Stmt)) :
    List (String × Ty) :=
  let f0 : Func := { name := n, params := ps, ret := rt, body := b, catches := c }
  (declCatches (addFunc fs f0) 1000 (declList (addFunc fs f0) 1000 (ps.map fun (pn, pt) => (pn, pt, pt)) b) c).first

theorem declare_one_func (fs : List Func) (n : String) (ps : List (String × Ty)) (rt : Ty) (b : List Stmt) (c : List (String × List Stmt)) :
    declare fs [.funcS n ps rt b c] =
      addFunc fs { name := n, params := ps, ret := rt, body := b, catches := c, decls := declsOf fs n ps rt b c } := rfl

theorem wfDecls_func (seen : List Sig) (n : String) (ps : List (String × Ty)) (rt : Ty) (b : List Stmt)
    (c : List (String × List Stmt)) (rest : List Stmt) (h : wfDecls seen (.funcS n ps rt b c :: rest) = true) :
    (n, ps.length) ∉ seen ∧
    listOK (fun name k => (seen ++ [(n, ps.length)]).contains (name, k)) 1000 b = true ∧
    catchesOK (fun name k => (seen ++ [(n, ps.length)]).contains (name, k)) 1000 c = true ∧
    wfDecls (seen ++ [(n, ps.length)]) rest = true := by
  simp only [wfDecls, Bool.and_eq_true, Bool.not_eq_true'] at h
  refine ⟨?_, h.1.1.2, h.1.2, h.2⟩
  intro hm
  have : seen.contains (n, ps.length) = true := by simpa using hm
  rw [this] at h
  exact absurd h.1.1.1 (by decide)

theorem wfDecls_other (seen : List Sig) (st : Stmt) (rest : List Stmt) (hst : ∀ n ps rt b c, st ≠ .funcS n ps rt b c)
    (h : wfDecls seen (st :: rest) = true) : wfDecls seen rest = true ∧ ∀ fs, declare fs [st] = fs := by
  cases st with
  | funcS n ps rt b c => exact absurd rfl (hst n ps rt b c)
  | _ => exact ⟨h, fun fs => rfl⟩

/-- a well-formed declaration sequence only APPENDS to the table -/
theorem declare_wf_append (rest : List Stmt) : ∀ fs : List Func, wfDecls (sigs fs) rest = true →
    ∃ extra, declare fs rest = fs ++ extra := by
  induction rest with
  | nil => intro fs _; exact ⟨[], by simp [declare]⟩
  | cons st rest ih =>
    intro fs h
    rw [declare_cons]
    by_cases hst : ∃ n ps rt b c, st = .funcS n ps rt b c
    · obtain ⟨n, ps, rt, b, c, rfl⟩ := hst
      obtain ⟨hnew, _, _, hrest⟩ := wfDecls_func _ n ps rt b c rest h
      have e : declare fs [.funcS n ps rt b c] = fs ++ [{ name := n, params := ps, ret := rt, body := b, catches := c, decls := declsOf fs n ps rt b c }] := by
        rw [declare_one_func]; exact addFunc_new fs _ hnew
      rw [e]
      have hs : sigs (fs ++ [{ name := n, params := ps, ret := rt, body := b, catches := c, decls := declsOf fs n ps rt b c }]) = sigs fs ++ [(n, ps.length)] := by
        simp [sigs, sigOf]
      obtain ⟨extra, he⟩ := ih _ (by rw [hs]; exact hrest)
      refine ⟨[{ name := n, params := ps, ret := rt, body := b, catches := c, decls := declsOf fs n ps rt b c }] ++ extra, ?_⟩
      rw [he, List.append_assoc]
    · have hst' : ∀ n ps rt b c, st ≠ .funcS n ps rt b c := fun n ps rt b c e => hst ⟨n, ps, rt, b, c, e⟩
      obtain ⟨hrest, hd⟩ := wfDecls_other _ st rest hst' h
      rw [hd]
      exact ih fs hrest

/-- **Syntactic criterion for `StableDecls`** (general form, over a table `fs0` that exists already):
in a well-formed declaration sequence, executing any declaration after the whole sequence was compiled
puts back exactly what the compilation had put there. -/
theorem reinstall_stable_of_wf (prog : List Stmt) : ∀ fs0 : List Func, (sigs fs0).Nodup → wfDecls (sigs fs0) prog = true →
    ∀ s ∈ prog, reinstall (declare fs0 prog) s = some (declare fs0 prog) := by
  induction prog with
  | nil => intro fs0 _ _ s hs; cases hs
  | cons st rest ih =>
    intro fs0 nd h s hs
    rw [declare_cons]
    by_cases hst : ∃ n ps rt b c, st = .funcS n ps rt b c
    · obtain ⟨n, ps, rt, b, c, rfl⟩ := hst
      obtain ⟨hnew, hb, hc, hrest⟩ := wfDecls_func _ n ps rt b c rest h
      let F : Func := { name := n, params := ps, ret := rt, body := b, catches := c, decls := declsOf fs0 n ps rt b c }
      have e : declare fs0 [.funcS n ps rt b c] = fs0 ++ [F] := by
        rw [declare_one_func]; exact addFunc_new fs0 _ hnew
      have hs1 : sigs (fs0 ++ [F]) = sigs fs0 ++ [(n, ps.length)] := by simp [sigs, sigOf, F]
      have nd1 : (sigs (fs0 ++ [F])).Nodup := by
        rw [← e]; exact (sigs_declare_one fs0 _).2 nd
      rw [e]
      rcases List.mem_cons.mp hs with rfl | hs'
      · -- the declaration itself, executed after everything was compiled
        obtain ⟨extra, he⟩ := declare_wf_append rest (fs0 ++ [F]) (by rw [hs1]; exact hrest)
        have ndT : (sigs (fs0 ++ [F] ++ extra)).Nodup := by rw [← he]; exact nodup_sigs_declare rest _ nd1
        rw [he]
        have hin : (fs0 ++ [F] ++ extra).any (sameSig { name := n, params := ps, ret := rt, body := b, catches := c }) = true := by
          rw [any_sameSig_iff]; simp [sigs, sigOf, F]
        simp only [reinstall, hin, if_true]
        rw [declare_one_func]
        -- the table the re-installation computes the private symbols against
        have hT0 : addFunc (fs0 ++ [F] ++ extra) { name := n, params := ps, ret := rt, body := b, catches := c } =
            fs0 ++ [{ name := n, params := ps, ret := rt, body := b, catches := c }] ++ extra :=
          addFunc_replace fs0 extra F _ ndT rfl
        have h00 : addFunc fs0 { name := n, params := ps, ret := rt, body := b, catches := c } =
            fs0 ++ [{ name := n, params := ps, ret := rt, body := b, catches := c }] :=
          addFunc_new fs0 _ hnew
        have hret : ∀ name k, (fun name k => (sigs fs0 ++ [(n, ps.length)]).contains (name, k)) name k = true →
            retOf (fs0 ++ [{ name := n, params := ps, ret := rt, body := b, catches := c }] ++ extra) name k =
            retOf (fs0 ++ [{ name := n, params := ps, ret := rt, body := b, catches := c }]) name k := by
          intro name k hk
          apply retOf_append
          simp only [List.contains_eq_mem, decide_eq_true_eq] at hk
          simpa [sigs, sigOf] using hk
        obtain ⟨_, hL, _, hC⟩ := decl_congr _ _ _ hret 1000
        have hdecls : declsOf (fs0 ++ [F] ++ extra) n ps rt b c = declsOf fs0 n ps rt b c := by
          unfold declsOf
          simp only [hT0, h00]
          rw [hL _ b hb, hC _ c hc]
        rw [hdecls]
        exact congrArg some (addFunc_replace fs0 extra F F ndT rfl)
      · exact ih (fs0 ++ [F]) nd1 (by rw [hs1]; exact hrest) s hs'
    · have hst' : ∀ n ps rt b c, st ≠ .funcS n ps rt b c := fun n ps rt b c e => hst ⟨n, ps, rt, b, c, e⟩
      obtain ⟨hrest, hd⟩ := wfDecls_other _ st rest hst' h
      rw [hd]
      rcases List.mem_cons.mp hs with rfl | hs'
      · cases s with
        | funcS n ps rt b c => exact absurd rfl (hst' n ps rt b c)
        | _ => rfl
      · exact ih fs0 nd hrest s hs'

/-- **stableDecls_of_wf**: every program whose declarations are well formed (each signature once, bodies call
what is declared so far — checkable by evaluation: `wfDecls [] prog`) satisfies the hypothesis of
`world_run_eq_runProgram` and its companions. -/
theorem stableDecls_of_wf (prog : List Stmt) (h : wfDecls [] prog = true) : StableDecls prog :=
  reinstall_stable_of_wf prog [] List.nodup_nil h

example : wfDecls [] demoProg = true ∧ wfDecls [] overProg = true := by decide +kernel

/-- **World ↔ Interp, the core.** A context that is ready to run `prog`, stepped to the end of its run
(`n` steps, at least one per statement and one to notice the end) with nobody else moving, ends with
EXACTLY the outcome and the state `runProgram` of Model/Interp.lean computes with the same fuel: result
handed to the host, variables, saved value, output, remaining budget. -/
theorem ready_run_eq_runProgram (w : World) (d : CtxId) (prog : List Stmt) (h : ReadyToRun w d prog)
    (hsd : StableDecls prog) (n : Nat) (hn : prog.length + 1 ≤ n) :
    ∃ y, (alone w d n).ctxs d = some y ∧ y.running = false ∧
      y.result = some (runProgram w.fuel prog).outcome ∧ y.st = (runProgram w.fuel prog).st ∧
      y.funcs = collectFuncs prog := by
  obtain ⟨x, hx, hr, hp, hpc, hprog, hf, hst⟩ := h
  obtain ⟨y, hy, h1, h2, h3, h4⟩ := stepped_run_eq_execList prog w d x hx hr hp (by rw [hpc, hprog]; rfl)
    (by rw [hf]; exact hsd) n hn
  have e := runProgram_eq_execList w.fuel prog {}
  rw [hpc, Nat.sub_zero, hf, hst] at h2 h3
  exact ⟨y, hy, h1, by rw [h2, e.1], by rw [h3, e.2], by rw [h4, hf]⟩

/-- **World ↔ Interp under every schedule.** The same, with the steps of `d` interleaved in ANY way
with steps of any other contexts (`sched`: any list of context ids in which `d` occurs often enough):
what a clone computes on its thread is `runProgram` — the semantics C04–C08 are proved about. -/
theorem interleaved_run_eq_runProgram (w : World) (d : CtxId) (prog : List Stmt) (h : ReadyToRun w d prog)
    (hsd : StableDecls prog) (sched : List CtxId) (hn : prog.length + 1 ≤ sched.count d) :
    ∃ y, (run w (sched.map Op.step)).ctxs d = some y ∧ y.running = false ∧
      y.result = some (runProgram w.fuel prog).outcome ∧ y.st = (runProgram w.fuel prog).st := by
  rw [interleaving_eq_sequential]
  obtain ⟨y, hy, h1, h2, h3, _⟩ := ready_run_eq_runProgram w d prog h hsd _ hn
  exact ⟨y, hy, h1, h2, h3⟩

/-- The original after `compile` + `start` is ready … -/
theorem original_ready (fuel : Nat) (prog : List Stmt) :
    ReadyToRun (run (initWorld [prog] fuel) [.compile 0 0, .start 0 0]) 0 prog := by
  have hc : (run (initWorld [prog] fuel) [.compile 0 0, .start 0 0]).ctxs 0 =
      some { st := progInit prog {}, funcs := collectFuncs prog, prog := 0, pc := 0, running := true, result := none } := by
    have hdecl : declare [] prog = collectFuncs prog := rfl
    simp [run, apply, initWorld, upd, progInit, hdecl]
  exact ⟨_, hc, rfl, rfl, rfl, rfl, rfl, rfl⟩

/-- … and so is every clone `d` of the compiled original (clone, then `start` of the SHARED
executable in the clone — nothing is compiled in the clone), whatever is done afterwards to other
contexts: more clones, their starts, their steps, purge / free of the original (`more`). -/
theorem clone_ready (fuel : Nat) (prog : List Stmt) (d : CtxId) (more : List Op)
    (hm : ∀ op ∈ more, op.target ≠ d) :
    ReadyToRun (run (initWorld [prog] fuel) ([.compile 0 0, .clone 0 d, .start d 0] ++ more)) d prog := by
  have hfoot : ∀ (ops : List Op) (w : World), (run w ops).progs = w.progs := by
    intro ops
    induction ops with
    | nil => intro w; rfl
    | cons op ops ih => intro w; rw [run_cons, ih, (footprint w op).1]
  rw [run_append]
  have := others_ops_independent (run (initWorld [prog] fuel) [.compile 0 0, .clone 0 d, .start d 0]) [] more [] d
    (by intro s hmem; simp at hmem) hm
  simp only [List.append_nil, List.nil_append] at this
  have hc : (run (initWorld [prog] fuel) [.compile 0 0, .clone 0 d, .start d 0]).ctxs d =
      some { st := progInit prog {}, funcs := collectFuncs prog, prog := 0, pc := 0, running := true, result := none } := by
    have hdecl : declare [] prog = collectFuncs prog := rfl
    simp [run, apply, initWorld, upd, cloneCtx, progInit, hdecl]
  refine ⟨_, this.trans hc, rfl, rfl, rfl, ?_, rfl, rfl⟩
  rw [hfoot, hfoot]; rfl

/-- **world_run_eq_runProgram** (goal 2 of the task, exact — no fuel slack): the single-context
`World.run` of a program IS `Interp.runProgram`. -/
theorem world_run_eq_runProgram (fuel : Nat) (prog : List Stmt) (hsd : StableDecls prog) (n : Nat) (hn : prog.length + 1 ≤ n) :
    ∃ y, (run (initWorld [prog] fuel) ([.compile 0 0, .start 0 0] ++ List.replicate n (.step 0))).ctxs 0 = some y ∧
      y.running = false ∧ y.result = some (runProgram fuel prog).outcome ∧ y.st = (runProgram fuel prog).st ∧
      y.funcs = collectFuncs prog := by
  rw [run_append]
  exact ready_run_eq_runProgram _ 0 prog (original_ready fuel prog) hsd n hn

/-- **clones_run_eq_runProgram**: `k` clones of one compiled original, all running the shared
executable under ANY interleaving of their statement steps (and of steps of the original): every clone
whose run got to its end ends with `runProgram`'s outcome and state. -/
theorem clones_run_eq_runProgram (fuel : Nat) (prog : List Stmt) (hsd : StableDecls prog) (d : CtxId) (more : List Op)
    (hm : ∀ op ∈ more, op.target ≠ d) (sched : List CtxId) (hn : prog.length + 1 ≤ sched.count d) :
    ∃ y, (run (initWorld [prog] fuel) ([.compile 0 0, .clone 0 d, .start d 0] ++ more ++ sched.map Op.step)).ctxs d = some y ∧
      y.running = false ∧ y.result = some (runProgram fuel prog).outcome ∧ y.st = (runProgram fuel prog).st := by
  rw [run_append]
  have hfu : ∀ (ops : List Op) (w : World), (run w ops).fuel = w.fuel := by
    intro ops
    induction ops with
    | nil => intro w; rfl
    | cons op ops ih => intro w; rw [run_cons, ih, (footprint w op).2.1]
  have := interleaved_run_eq_runProgram _ d prog (clone_ready fuel prog d more hm) hsd sched hn
  rw [hfu] at this
  exact this

/-- `demoProg` and `overProg` (three overloads, a function calling two of them) satisfy the hypothesis -/
theorem stable_demoProg : StableDecls demoProg := by
  intro s hs
  simp only [demoProg, List.mem_cons, List.not_mem_nil, or_false] at hs
  rcases hs with rfl | rfl | rfl | rfl <;> rfl

theorem stable_overProg : StableDecls overProg := by
  intro s hs
  simp only [overProg, List.mem_cons, List.not_mem_nil, or_false] at hs
  rcases hs with rfl | rfl | rfl | rfl | rfl | rfl <;> rfl

/-- The hypothesis is needed, and where it fails the CODE agrees with `World`, not with `runProgram`: a
program that declares F twice with a call in between. Executing the first declaration puts the first
body back (`FUNCTIONStatement::doit`), so X = 1 and Y = 2 (checked on the real library: family
`redecl` of vlib/props/c14.py); `runProgram` of Model/Interp.lean resolves both calls in the table the
compilation left (second body): X = 2. -/
def redeclProg : List Stmt :=
  [.funcS "F" [] Ty.int [.returnS (some (.lit (.int 1)))] [],
   .letS "X" (.fcall "F" []),
   .funcS "F" [] Ty.int [.returnS (some (.lit (.int 2)))] [],
   .letS "Y" (.fcall "F" [])]

/-- … and the criterion rejects it (F/0 is declared twice) -/
example : wfDecls [] redeclProg = false := by decide +kernel

theorem stableDecls_needed :
    let w := run (initWorld [redeclProg] 50) ([.compile 0 0, .start 0 0] ++ List.replicate 5 (.step 0))
    ((w.ctxs 0).map fun c => (c.running, lookupVar c.st.vars "X" == .int 1, lookupVar c.st.vars "Y" == .int 2)) = some (false, true, true) ∧
    (lookupVar (runProgram 50 redeclProg).st.vars "X" == .int 2) = true ∧
    (lookupVar (runProgram 50 redeclProg).st.vars "Y" == .int 2) = true := by
  decide +kernel

/-- **A declaration statement re-installs its function where it is executed — and only there.** Clone 1
redefines F (`redefProg`: F(p) = 100·p) and runs it (Y = 500); then it runs the OLD shared executable
`demoProg`, whose first statement is the declaration of the old F: clone 1's F/1 is the old one again
(Y = 6), the overload F/2 it added stays, and the original — which never ran `redefProg` — was never
affected. -/
theorem old_executable_reinstalls_its_functions :
    let w := run (initWorld [demoProg, redefProg] 50)
      ([.compile 0 0, .clone 0 1, .compile 1 1, .start 1 1, .step 1, .step 1, .step 1, .step 1] )
    let w' := run w ([.start 1 0, .step 1, .step 1, .step 1, .step 1, .step 1, .start 0 0, .step 0, .step 0, .step 0, .step 0, .step 0])
    ((w.ctxs 1).map fun c => (lookupVar c.st.vars "Y" == .int 500, sigs c.funcs)) = some (true, [("F", 1), ("F", 2)]) ∧
    ((w'.ctxs 1).map fun c => (c.running, lookupVar c.st.vars "Y" == .int 6, sigs c.funcs)) = some (false, true, [("F", 1), ("F", 2)]) ∧
    ((w'.ctxs 0).map fun c => (c.running, lookupVar c.st.vars "Y" == .int 6, sigs c.funcs)) = some (false, true, [("F", 1)]) := by
  decide +kernel

/-- non-vacuity: `demoProg` (4 statements) — original and two clones, the clones started after
everything was set up, 15 interleaved steps: clone 2 ends as `runProgram` says (Y = 6, "6\n") -/
example : (runProgram 50 demoProg).st.output = [54, 10] ∧
    lookupVar (runProgram 50 demoProg).st.vars "Y" == .int 6 := by
  decide +kernel

example : ∃ y, (run (initWorld [demoProg] 50) ([.compile 0 0, .clone 0 2, .start 2 0] ++ [.clone 0 1, .start 1 0, .purge 0] ++
      ([2, 0, 1, 1, 2, 0, 0, 2, 1, 1, 0, 2, 2, 1, 0].map Op.step))).ctxs 2 = some y ∧
    y.running = false ∧ y.result = some (runProgram 50 demoProg).outcome ∧ y.st = (runProgram 50 demoProg).st :=
  clones_run_eq_runProgram 50 demoProg stable_demoProg 2 _ (by decide) _ (by decide)

/-- **world_run_eq_runProgram for every well-formed program** — the hypothesis discharged by evaluation of
`wfDecls [] prog` (true of every program the generators of the correspondence produce except the
family `redecl`, which exists to show the difference). -/
theorem world_run_eq_runProgram_wf (fuel : Nat) (prog : List Stmt) (hwf : wfDecls [] prog = true) (n : Nat) (hn : prog.length + 1 ≤ n) :
    ∃ y, (run (initWorld [prog] fuel) ([.compile 0 0, .start 0 0] ++ List.replicate n (.step 0))).ctxs 0 = some y ∧
      y.running = false ∧ y.result = some (runProgram fuel prog).outcome ∧ y.st = (runProgram fuel prog).st ∧
      y.funcs = collectFuncs prog :=
  world_run_eq_runProgram fuel prog (stableDecls_of_wf prog hwf) n hn

theorem clones_run_eq_runProgram_wf (fuel : Nat) (prog : List Stmt) (hwf : wfDecls [] prog = true) (d : CtxId) (more : List Op)
    (hm : ∀ op ∈ more, op.target ≠ d) (sched : List CtxId) (hn : prog.length + 1 ≤ sched.count d) :
    ∃ y, (run (initWorld [prog] fuel) ([.compile 0 0, .clone 0 d, .start d 0] ++ more ++ sched.map Op.step)).ctxs d = some y ∧
      y.running = false ∧ y.result = some (runProgram fuel prog).outcome ∧ y.st = (runProgram fuel prog).st :=
  clones_run_eq_runProgram fuel prog (stableDecls_of_wf prog hwf) d more hm sched hn

example : ∃ y, (run (initWorld [overProg] 50) ([.compile 0 0, .start 0 0] ++ List.replicate 9 (.step 0))).ctxs 0 = some y ∧
    y.running = false ∧ y.result = some (runProgram 50 overProg).outcome ∧ y.st = (runProgram 50 overProg).st ∧
    y.funcs = collectFuncs overProg :=
  world_run_eq_runProgram_wf 50 overProg (by decide +kernel) 9 (by decide)

/-! ### non-vacuity of the schedule theorems -/

/-- Three contexts (original + two clones) running `demoProg` under an interleaved schedule: each
ends with Y = 6 and the output "6\n" of its own. -/
def demoRun : World :=
  run demoWorld ([.start 0 0, .start 1 0, .start 2 0] ++ [2, 0, 1, 1, 2, 0, 0, 2, 1, 1, 0, 2, 2, 1, 0].map Op.step)

example : ((demoRun.ctxs 1).map fun c => (c.running, lookupVar c.st.vars "Y" == .int 6, c.st.output)) =
    some (false, true, [54, 10]) := by
  decide +kernel

example : ((demoRun.ctxs 2).map fun c => (c.running, lookupVar c.st.vars "Y" == .int 6, c.st.output)) =
    some (false, true, [54, 10]) := by
  decide +kernel

/-- freeing the original in the middle changes nothing for clone 1 -/
example :
    ((run demoWorld ([.start 1 0, .step 1, .step 1, .purge 0, .step 1, .free 0, .step 1, .step 1])).ctxs 1).map
      (fun c => (c.running, lookupVar c.st.vars "Y" == .int 6, c.st.output)) = some (false, true, [54, 10]) := by
  decide +kernel

end BlocV.C14
