/-
  C12 — saving a compiled program as text and loading it back preserves its behaviour.

  Property theorems (helpers in Proofs/Lemmas/Parse.lean). The parser theorems are stated on TOKEN lists:
  `toksExpr e` is the token sequence the text `unparseExpr e` is meant to scan to; that it does scan to it is
  evaluated by the driver on every case of the correspondence run (`lex=1`), not proved here.

  Status: the full statement "parse (unparse p) = p up to `norm` for every tree the parser can build" is
  FALSE. The theorems below hold on the decidable domain `wf` (Spec/Roundtrip.lean); the three regions it
  excludes (wrapped integer literals, 17-digit decimals, fused print items) are witnessed at the end
  (negations proved by evaluation) and recorded as findings. A fourth region, DO statements whose expression
  does not start with a word (`doHead`), was repaired in the code (1a89173: DOStatement::unparse writes its
  keyword): its former negation witness `do (1 + 2);` is now the example of the positive `stmt_do_roundtrip`.
-/
import BlocV.Proofs.Lemmas.Parse
import BlocV.Proofs.Lemmas.ParseStmt
import BlocV.Proofs.Lemmas.ParseBlock
import BlocV.Proofs.Lemmas.ParseSize

namespace BlocV.C12
open BlocV BlocV.Parse BlocV.Unparse BlocV.Roundtrip BlocV.C12L

/-! ### String literals -/

/-- `parseLiteral (readableLiteral s) = s` for every byte string without a NUL byte: every escape
(`\a \b \f \n \r \t \\ \"`), every other byte written raw. -/
theorem literal_roundtrip (s : Bytes) (h : ∀ c ∈ s, c ≠ 0) : parseLiteral (readableLiteral s) = s :=
  parseLiteral_readable s h

example : parseLiteral (readableLiteral [97, 34, 92, 10, 13, 9, 7, 8, 12, 255, 39]) = [97, 34, 92, 10, 13, 9, 7, 8, 12, 255, 39] := by decide

/-- The hypothesis is exactly what the code needs, and it holds for every string constant the parser can
build: `parseLiteral` never outputs a NUL byte (its "no pending byte" marker is 0). -/
theorem parseLiteral_no_nul (text : Bytes) : ∀ c ∈ parseLiteral text, c ≠ 0 :=
  plGo_no_nul text false 0

/-- …and without it the statement is false: a NUL byte is lost. -/
example : parseLiteral (readableLiteral [97, 0, 98]) = [97, 98] := by decide

/-- so every literal the parser builds survives unparse ∘ parse -/
theorem literal_roundtrip_image (text : Bytes) :
    parseLiteral (readableLiteral (parseLiteral text)) = parseLiteral text :=
  literal_roundtrip _ (parseLiteral_no_nul text)

/-! ### Integer literals -/

/-- A non-negative integer constant reads back from the decimal text `std::to_string` writes. -/
theorem integer_literal_roundtrip (v : Int64) (h : v ≥ 0) : parseDec (intToString v) = some v :=
  parseDec_intToString v h

example : parseDec (intToString 9223372036854775807) = some 9223372036854775807 := by decide +kernel

/-- The parser also builds NEGATIVE constants (`std::stoull`, then the conversion to int64): -/
example : parseDec (bytesOf "18446744073709551615") = some (-1) := by decide +kernel
example : parseHex (bytesOf "0x8000000000000000") = some (-9223372036854775808) := by decide +kernel

/-! ### Decimal literals: "%.16g" is not injective -/

/-- 0.3 and 0.30000000000000004 (= 0.1 + 0.2) are different doubles with the same "%.16g" text. -/
theorem fmt16_not_injective :
    ∃ a b : UInt64, a ≠ b ∧ Fmt.fmt16g a = Fmt.fmt16g b :=
  ⟨0x3FD3333333333333, 0x3FD3333333333334, by decide, by decide +kernel⟩

/-- consequently the constant `0.30000000000000004` is saved as `0.3` and loads as another number -/
theorem decimal_roundtrip_fails :
    parseNumeric (bytesOf "0.30000000000000004") = some 0x3FD3333333333334 ∧
    numText 0x3FD3333333333334 = bytesOf "0.3" ∧
    parseNumeric (numText 0x3FD3333333333334) = some 0x3FD3333333333333 := by decide +kernel

/-- The literal reader is `std::stod` with glibc's ERANGE rule (Model/Strtod.lean): just below DBL_MIN a literal that
rounds to 2^-1022 is still "tiny after rounding" and inexact, hence a parse error (reported by the C10 agent; the first
model `parseNumericOld` answered 2^-1022); DBL_MIN itself and the exactly representable subnormals are read. -/
example : parseNumeric (bytesOf "2.22507385850720119781e-308") = none ∧
    parseNumericOld (bytesOf "2.22507385850720119781e-308") = some 0x0010000000000000 ∧
    parseNumeric (bytesOf "2.2250738585072014e-308") = some 0x0010000000000000 ∧
    parseNumeric (bytesOf "4.9e-324") = none ∧ parseNumeric (bytesOf "1.7976931348623159e308") = none ∧
    parseNumeric (bytesOf "1.7976931348623157e308") = some 0x7fefffffffffffff := by decide +kernel

/-- **Decimal constants: the round trip holds exactly where `std::stod` reads the "%.16g" text back.** `numOk d` — the
hypothesis of `expr_roundtrip` on decimal leaves — is, now that both `Fmt.fmt16g` (glibc "%.16g") and `Strtod.stod` (glibc
strtod + ERANGE rule) are exact models, the statement `std::stod (text unparse writes for d) = d`; and the parser returns the
constant `d` from that text iff it holds (for every stop token, every fuel ≥ 3). -/
theorem decimal_roundtrip_iff (d : UInt64) :
    (numOk d = true ↔ Strtod.stod (numText d) = .val d) ∧
    (∀ (rest : List Tok) (g : Nat), pElem (g + 1) (numTok d :: rest) = .ok (.num d, rest) ↔ numOk d = true) ∧
    (numOk d = true → ∀ (t : Tok) (ts : List Tok), Stops 9 t → ∀ f, 29 ≤ f →
      pExpr f (toksExpr (.num d) ++ t :: ts) = .ok (.num d, t :: ts)) := by
  have h1 : numOk d = true ↔ Strtod.stod (numText d) = .val d := by
    simp only [numOk, parseNumeric, beq_iff_eq]
    cases h : Strtod.stod (numText d) <;> simp
  refine ⟨h1, ?_, ?_⟩
  · intro rest g
    obtain ⟨c, hc, heq⟩ := numTok_eq d
    rw [heq, pElem.eq_def]
    cases hn : parseNumeric (numText d) with
    | none =>
      rcases hc with rfl | rfl <;>
        simp [numOk, hn, cDBL, cFLT, cINT, cHEX, Gen.TOKEN_DOUBLE, Gen.TOKEN_FLOAT, Gen.TOKEN_INTEGER, Gen.TOKEN_HEXANUM]
    | some d' =>
      rcases hc with rfl | rfl <;>
        simp [numOk, hn, pure, Except.pure, cDBL, cFLT, cINT, cHEX, Gen.TOKEN_DOUBLE, Gen.TOKEN_FLOAT, Gen.TOKEN_INTEGER, Gen.TOKEN_HEXANUM]
  · intro hok t ts hst f hf
    exact (full_rt (.num d) 9 (by simpa [wf] using hok) (lvlE_le9 _) (Nat.le_refl _)).1 t ts hst (by simp [endsVar]) f
      (by simp [esize]; omega)

example : numOk 0x3FD3333333333333 = true ∧ Strtod.stod (numText 0x3FD3333333333333) = .val 0x3FD3333333333333 :=
  ⟨by decide +kernel, (decimal_roundtrip_iff _).1.mp (by decide +kernel)⟩

/-- a decimal that "%.16g" gives back (the hypothesis `numOk` of the round trip is satisfiable) -/
example : numOk 0x3FD3333333333333 = true ∧ numOk 0x4005bf0a8b145769 = true := by decide +kernel

/-- the largest double is NOT such a decimal: its 16-digit text 1.797693134862316e+308 overflows when read -/
example : numOk 0x7fefffffffffffff = false := by decide +kernel

/-! ### Expressions: parse ∘ unparse, every expression form -/

/-- **Round trip of expressions (all node kinds).** For every tree `e` in the image of the parser (`wf`: precedence
respected, integer constants ≥ 0, decimals that survive "%.16g", NUL-free strings, upper-case non-reserved
names, built-in calls with an accepted arity, member receivers that are elements) built from all 21 binary
operators, the 4 unary operators, variables, literals, the constants `null true false error phi pi ee ii`,
parentheses, built-in calls `f(a, b)` (incl. `tup(...)`, `tab(..)` constructors), user function calls `F(a,b)`, member
calls `e.m(args)`, `e.set@N(x)` and items `e@N` — argument lists of any length, member chains of any depth:
parsing the tokens of its text, followed by any token `t` that does not continue an expression (and is not `(`
when the text ends with a variable name), yields exactly `norm e` and leaves `t :: ts`, for every sufficient fuel.
(Until round C12-deepen this was proved for the operator core only; `core` is no longer a hypothesis.) -/
theorem expr_roundtrip (e : PExpr) (hwf : wf e = true)
    (t : Tok) (ts : List Tok) (hstop : Stops 9 t) (hvar : endsVar e = true → t.code ≠ cLP)
    (f : Nat) (hf : 16 * esize e + 13 ≤ f) :
    pExpr f (toksExpr e ++ t :: ts) = .ok (norm e, t :: ts) :=
  (full_rt e 9 hwf (lvlE_le9 e) (Nat.le_refl _)).1 t ts hstop hvar f hf

/-- the same at every precedence level `L` the node can be produced at (what the operand positions need) -/
theorem expr_roundtrip_level (e : PExpr) (L : Nat) (hwf : wf e = true)
    (hl : lvlE e ≤ L) (h9 : L ≤ 9) (t : Tok) (ts : List Tok) (hstop : Stops L t)
    (hvar : endsVar e = true → t.code ≠ cLP) (f : Nat) (hf : 16 * esize e + L + 4 ≤ f) :
    pLevel f L (toksExpr e ++ t :: ts) = .ok (norm e, t :: ts) :=
  (full_rt e L hwf hl h9).1 t ts hstop hvar f hf

/-- `- a ** 2 + (b * 3 <= 4) and not c`-like tree: hypotheses are satisfiable, `norm` is not the identity -/
def exTree : PExpr :=
  .bin .band false
    (.bin .le false (.bin .add false (.un .neg false (.bin .exp false (.var (bytesOf "A")) (.int 2)))
      (.bin .mul true (.var (bytesOf "B")) (.num 0x3FD3333333333333))) (.str (bytesOf "x\"y")))
    (.un .bnot false (.kw (bytesOf "true")))

example : wf exTree = true ∧ core exTree = true := by decide +kernel
example : Stops 9 (ch 59) ∧ (endsVar exTree = true → (ch 59).code ≠ cLP) := by decide
example : pExpr 1000 (toksExpr exTree ++ [ch 59]) = .ok (norm exTree, [ch 59]) :=
  expr_roundtrip exTree (by decide +kernel) (ch 59) [] (by decide) (by decide) 1000 (by decide +kernel)

/-- `max(A, F(1,"x")).concat(T@2).set@3(tup(1, -B))`: built-in call, user function call, member call, item, `set@`,
tuple constructor, nested argument lists — outside the operator core, inside the theorem's domain. -/
def exCalls : PExpr :=
  .setm (.member (.call (bytesOf "max") [.var (bytesOf "A"), .fcall (bytesOf "F") [.int 1, .str (bytesOf "x")]])
      (bytesOf "concat") [.item (.var (bytesOf "T")) 2]) 3
    (.call (bytesOf "tup") [.int 1, .un .neg false (.var (bytesOf "B"))])

example : wf exCalls = true ∧ core exCalls = false := by decide +kernel
example : unparseExpr exCalls = bytesOf "max(A, F(1,\"x\")).concat(T@2).set@3(tup(1, -B))" := by decide +kernel
example : pExpr 1000 (toksExpr exCalls ++ [ch 59]) = .ok (norm exCalls, [ch 59]) :=
  expr_roundtrip exCalls (by decide +kernel) (ch 59) [] (by decide) (by decide) 1000 (by decide +kernel)

/-- Trees the parser itself returns with every unary operand already enclosed are fixed points. -/
theorem expr_roundtrip_id (e : PExpr) (hwf : wf e = true) (hn : norm e = e)
    (t : Tok) (ts : List Tok) (hstop : Stops 9 t) (hvar : endsVar e = true → t.code ≠ cLP)
    (f : Nat) (hf : 16 * esize e + 13 ≤ f) :
    pExpr f (toksExpr e ++ t :: ts) = .ok (e, t :: ts) := by
  have := expr_roundtrip e hwf t ts hstop hvar f hf
  rwa [hn] at this

/-- after one round trip the tree is in normal form: the second round trip is the identity -/
theorem norm_idempotent (e : PExpr) : norm (norm e) = norm e := norm_idem e

/-! ### unparse is a fixpoint, behaviour is preserved (all node kinds) -/

/-- The text of the tree read back is the text it was read from — byte for byte, and token for token.
With `expr_roundtrip`: unparse (parse (unparse e)) = unparse e. -/
theorem unparse_fixpoint (e : PExpr) : unparseExpr (norm e) = unparseExpr e ∧ toksExpr (norm e) = toksExpr e :=
  ⟨unparse_norm e, toks_norm e⟩

theorem unparse_fixpoint_core (e : PExpr) (hwf : wf e = true)
    (t : Tok) (ts : List Tok) (hstop : Stops 9 t) (hvar : endsVar e = true → t.code ≠ cLP)
    (f : Nat) (hf : 16 * esize e + 13 ≤ f) :
    (pExpr f (toksExpr e ++ t :: ts)).toOption.map (fun r => unparseExpr r.1) = some (unparseExpr e) := by
  rw [expr_roundtrip e hwf t ts hstop hvar f hf]
  simp [Except.toOption, unparse_norm]

/-- The tree read back translates to the SAME interpreter program (the translation forgets `enc`), so it
has the same behaviour — value, output, errors, final variables — in every state, for every fuel. -/
theorem behaviour_preserved (e : PExpr) : toExpr (norm e) = toExpr e := toExpr_norm e

theorem behaviour_preserved_eval (e : PExpr) (funcs : List Func) (depth fuel : Nat) (st : St) :
    (toExpr (norm e)).map (fun x => eval funcs depth fuel x st) = (toExpr e).map (fun x => eval funcs depth fuel x st) := by
  rw [behaviour_preserved]

theorem behaviour_preserved_core (e : PExpr) (hwf : wf e = true)
    (t : Tok) (ts : List Tok) (hstop : Stops 9 t) (hvar : endsVar e = true → t.code ≠ cLP)
    (f : Nat) (hf : 16 * esize e + 13 ≤ f) :
    ∃ e', pExpr f (toksExpr e ++ t :: ts) = .ok (e', t :: ts) ∧ toExpr e' = toExpr e :=
  ⟨norm e, expr_roundtrip e hwf t ts hstop hvar f hf, toExpr_norm e⟩

/-! ### Statements: assignment, also chained (`a = e1 , b = e2 ;`) -/

theorem semi_stops : Stops 9 (ch 59) := by decide
theorem semi_not_lp : (ch 59).code ≠ cLP := by decide
theorem comma_stops : Stops 9 (ch 44) := by decide
theorem comma_not_lp : (ch 44).code ≠ cLP := by decide

theorem nameOk_notStmt {n : Bytes} (h : nameOk n = true) : isStmtKw n = false := by
  simp [nameOk, reserved] at h; exact h.1.2.1

theorem nameOk_notReserved {n : Bytes} (h : nameOk n = true) : reserved n = false := by
  simp [nameOk] at h; simp [h.1.2]

/-- tokens of `NAME = e ;` (the text LETStatement::unparse + the separator of Executable::unparse scan to) -/
def toksLet (n : Bytes) (e : PExpr) : List Tok := ⟨cKW, n⟩ :: ch 61 :: (toksExpr e ++ [ch 59])

/-- `NAME = e;` reads back as the same assignment (of `norm e`), whatever follows, at top level or in a block. -/
theorem stmt_let_roundtrip (n : Bytes) (e : PExpr) (hn : nameOk n = true) (hwf : wf e = true)
    (nested : Bool) (rest : List Tok) (f : Nat) (hf : 16 * esize e + 16 ≤ f) :
    pStmt f nested (toksLet n e ++ rest) = .ok (some (.letS n (norm e) none), rest) := by
  obtain ⟨f1, rfl⟩ : ∃ f1, f = f1 + 1 := ⟨f - 1, by omega⟩
  obtain ⟨f2, rfl⟩ : ∃ f2, f1 = f2 + 1 := ⟨f1 - 1, by omega⟩
  have he := expr_roundtrip e hwf (ch 59) rest semi_stops (fun _ => semi_not_lp) f2 (by omega)
  have e1 : toksLet n e ++ rest = ⟨cKW, n⟩ :: ch 61 :: (toksExpr e ++ ch 59 :: rest) := by simp [toksLet]
  rw [e1, pStmt.eq_def]
  simp [nameOk_notStmt hn, cKW, cSEMI, Gen.TOKEN_KEYWORD, ch, cEQ]
  rw [pLet.eq_def]
  simp [popName, nameOk_notReserved hn, nameOk_upper hn, cKW, Gen.TOKEN_KEYWORD, cEQ, bind, Except.bind, pure, Except.pure]
  have he' : pExpr f2 (toksExpr e ++ { code := 59, text := [59] } :: rest) = .ok (norm e, { code := 59, text := [59] } :: rest) := he
  simp [he', beyond, cCOMMA, cRP, cSEMI, pure, Except.pure]

example : pStmt 100 false (toksLet (bytesOf "A") (.bin .add false (.int 1) (.var (bytesOf "B"))) ++ [kw "print"]) =
    .ok (some (.letS (bytesOf "A") (.bin .add false (.int 1) (.var (bytesOf "B"))) none), [kw "print"]) :=
  stmt_let_roundtrip _ _ (by decide +kernel) (by decide +kernel) false _ 100 (by decide +kernel)

/-- Chained: `NAME = e , <next statement>` reads back as the assignment carrying whatever the next
statement reads back as (`unparse_next` writes ` , `). -/
theorem stmt_let_chain (n : Bytes) (e : PExpr) (hn : nameOk n = true) (hwf : wf e = true)
    (nested : Bool) (ts' r : List Tok) (nx : Option PStmt) (f : Nat) (hf : 16 * esize e + 13 ≤ f)
    (hnext : pStmt f nested ts' = .ok (nx, r)) :
    pStmt (f + 2) nested (⟨cKW, n⟩ :: ch 61 :: (toksExpr e ++ ch 44 :: ts')) = .ok (some (.letS n (norm e) nx), r) := by
  have he := expr_roundtrip e hwf (ch 44) ts' comma_stops (fun _ => comma_not_lp) f hf
  rw [pStmt.eq_def]
  simp [nameOk_notStmt hn, cKW, cSEMI, Gen.TOKEN_KEYWORD, ch, cEQ]
  rw [pLet.eq_def]
  simp [popName, nameOk_notReserved hn, nameOk_upper hn, cKW, Gen.TOKEN_KEYWORD, cEQ, bind, Except.bind, pure, Except.pure]
  have he' : pExpr f (toksExpr e ++ { code := 44, text := [44] } :: ts') = .ok (norm e, { code := 44, text := [44] } :: ts') := he
  simp [he', cCOMMA, hnext]

/-! ### Statements: DO — saved WITH its keyword (DOStatement::unparse since 1a89173) -/

/-- the text of a saved DO statement: the keyword, a blank, the expression — for every expression -/
theorem stmt_do_text (lvl : Nat) (e : PExpr) : unparseStmt lvl (.doS e) = bytesOf "do " ++ unparseExpr e :=
  unparseStmt_do lvl e

example : unparseStmt 0 (.doS (.var (bytesOf "X"))) = bytesOf "do X" := by decide +kernel

/-- **Round trip of DO statements.** `do e ;` as saved (`toksDo e` = the keyword, the tokens of the expression,
the separator) reads back as the DO statement of `norm e`, whatever follows, at top level or in a block — for
EVERY well-formed expression of the operator core. There is no hypothesis on how the text of `e` starts: the
former exclusion `doHead e = false` (expression statements are recognised by a leading word, and only the
expression used to be written) is gone with the defect. -/
theorem stmt_do_roundtrip (e : PExpr) (hwf : wf e = true)
    (nested : Bool) (rest : List Tok) (f : Nat) (hf : 16 * esize e + 14 ≤ f) :
    pStmt f nested (toksDo e ++ rest) = .ok (some (.doS (norm e)), rest) := by
  obtain ⟨f1, rfl⟩ : ∃ f1, f = f1 + 1 := ⟨f - 1, by omega⟩
  have he := expr_roundtrip e hwf (ch 59) rest semi_stops (fun _ => semi_not_lp) f1 (by omega)
  have e1 : toksDo e ++ rest = kw "do" :: (toksExpr e ++ ch 59 :: rest) := by simp [toksDo]
  rw [e1, pStmt_do, he]
  simp [beyond, ch, cRP, cSEMI, bind, Except.bind, pure, Except.pure]

/-- the former negation witness, `do (1 + 2);`: inside the region `doHead`, in the domain of the theorem -/
def exDo : PExpr := .bin .add true (.int 1) (.int 2)

example : doHead exDo = true ∧ wf exDo = true ∧ core exDo = true := by decide +kernel
example : norm exDo = exDo := rfl
example : unparseProgram [.doS exDo] = bytesOf "do (1 + 2);\n" := by decide +kernel
/-- …its saved text scans (C13 lexer model) to the token list the theorem speaks about… -/
example : tokensOf (unparseStmt 0 (.doS exDo) ++ [59]) = toksDo exDo := by decide +kernel
/-- …and loads as the same statement (was: `(1 + 2);` is not a statement). -/
example : pStmt 100 false (toksDo exDo ++ [kw "print"]) = .ok (some (.doS exDo), [kw "print"]) :=
  stmt_do_roundtrip exDo (by decide +kernel) false _ 100 (by decide +kernel)
/-- the other members of the former region: `do 1;`, `do -X;`, `do "s";`, `do 2.5;` -/
example : (pStmt 100 true (toksDo (.int 1))).toOption.isSome = true ∧
    (pStmt 100 true (toksDo (.un .neg false (.var (bytesOf "X"))))).toOption.isSome = true ∧
    (pStmt 100 true (toksDo (.str (bytesOf "s")))).toOption.isSome = true ∧
    (pStmt 100 true (toksDo (.num 0x4004000000000000))).toOption.isSome = true := by decide +kernel

/-- The keyword is what makes the text a statement: the expression text alone, which DOStatement::unparse
wrote before the repair, is rejected (a fact about the parser, not a failure of the property any more). -/
example : (pStmt 200 false (toksExpr exDo ++ [ch 59])).toOption.isNone = true := by decide +kernel

/-- An expression statement written WITHOUT the keyword (`t.concat(5);`, `x + 1;`) is a DO statement too and is
saved with the keyword; that text loads as the same statement and is saved as the same text (by evaluation,
through the lexer model; members are outside `core`). -/
example : (parseText (bytesOf "t.concat(5);\nx + 1;\n")).toOption.map unparseProgram = some (bytesOf "do T.concat(5);\ndo X + 1;\n") ∧
    (parseText (bytesOf "do T.concat(5);\ndo X + 1;\n")).toOption.map unparseProgram = some (bytesOf "do T.concat(5);\ndo X + 1;\n") := by
  decide +kernel

/-- Chained: `NAME = e1 , do e2 ;` (`unparse_next` writes ` , ` and then the DO statement with its keyword). -/
theorem stmt_let_do_chain (n : Bytes) (e1 e2 : PExpr) (hn : nameOk n = true)
    (hwf1 : wf e1 = true) (hwf2 : wf e2 = true)
    (nested : Bool) (rest : List Tok) (f : Nat) (hf1 : 16 * esize e1 + 13 ≤ f) (hf2 : 16 * esize e2 + 14 ≤ f) :
    pStmt (f + 2) nested (⟨cKW, n⟩ :: ch 61 :: (toksExpr e1 ++ ch 44 :: (toksDo e2 ++ rest))) =
      .ok (some (.letS n (norm e1) (some (.doS (norm e2)))), rest) :=
  stmt_let_chain n e1 hn hwf1 nested _ rest _ f hf1 (stmt_do_roundtrip e2 hwf2 nested rest f hf2)

example : pStmt 102 false (⟨cKW, bytesOf "A"⟩ :: ch 61 :: (toksExpr (.int 1) ++ ch 44 :: (toksDo exDo ++ []))) =
    .ok (some (.letS (bytesOf "A") (.int 1) (some (.doS exDo))), []) :=
  stmt_let_do_chain _ _ _ (by decide +kernel) (by decide +kernel) (by decide +kernel)
    false [] 100 (by decide +kernel) (by decide +kernel)

/-- **Fixpoint for DO statements** (all node kinds): the DO statement of the tree read back is saved as the same
bytes, at every indentation level, and as the same tokens. -/
theorem stmt_do_fixpoint (lvl : Nat) (e : PExpr) :
    unparseStmt lvl (.doS (norm e)) = unparseStmt lvl (.doS e) ∧ toksDo (norm e) = toksDo e := by
  simp [unparseStmt, toksDo, unparse_norm, toks_norm]

/-- `do -A power 2;`: `norm` is not the identity here (`-(A power 2)` comes back enclosed), the text is the same -/
def exDoNeg : PExpr := .un .neg false (.bin .exp false (.var (bytesOf "A")) (.int 2))
example : norm exDoNeg = .un .neg false (.bin .exp true (.var (bytesOf "A")) (.int 2)) := rfl
example : unparseStmt 1 (.doS (norm exDoNeg)) = bytesOf "do -(A power 2)" ∧
    unparseStmt 1 (.doS exDoNeg) = bytesOf "do -(A power 2)" := by decide +kernel

/-- with the round trip: unparse (parse (unparse (do e))) = unparse (do e) -/
theorem stmt_do_fixpoint_core (e : PExpr) (hwf : wf e = true)
    (nested : Bool) (rest : List Tok) (f : Nat) (hf : 16 * esize e + 14 ≤ f) (lvl : Nat) :
    (pStmt f nested (toksDo e ++ rest)).toOption.map (fun r => r.1.map (unparseStmt lvl)) =
      some (some (unparseStmt lvl (.doS e))) := by
  rw [stmt_do_roundtrip e hwf nested rest f hf]
  simp [Except.toOption, (stmt_do_fixpoint lvl e).1]

example : (pStmt 100 false (toksDo exDoNeg)).toOption.map (fun r => r.1.map (unparseStmt 0)) = some (some (bytesOf "do -(A power 2)")) := by
  decide +kernel

/-- **Behaviour of DO statements is preserved** (all node kinds): the statement read back translates to the same
interpreter program. -/
theorem stmt_do_behaviour (e : PExpr) : toStmts (.doS (norm e)) = toStmts (.doS e) := by
  have h : ∀ x : PExpr, toStmts (.doS x) = (toExpr x).map fun y => [Stmt.doS y] := fun _ => rfl
  rw [h, h, toExpr_norm]

example : toStmts (.doS (norm exDoNeg)) = toStmts (.doS exDoNeg) ∧ (toStmts (.doS exDoNeg)).isSome = true :=
  ⟨stmt_do_behaviour _, by decide +kernel⟩

/-! ### Statements and programs (round C12-deepen)

  FULL STATEMENT aimed at (NOT proved in full — see `program_roundtrip_partial`):
      ∀ p, wfP p → parseText (unparseProgram p) = .ok (normP p)
  Proved: (a) for ALL programs, every statement kind, every indentation level: the program read back is saved as the
  same bytes / tokens and is the same interpreter program (`unparse_fixpoint_program`, `behaviour_preserved_program`);
  (b) the parser half on TOKENS for every statement kind without a block, with all expression forms inside, chains of
  any length and print lists with their side condition explicit (`stmt_roundtrip_flat`, `print_roundtrip`), and for
  programs made of such statements (`program_roundtrip_partial`).
  Missing: the block statements (if / while / for / forall / begin / function) in the parser half, and the step from
  bytes to tokens (`tokensOf (unparseProgram p) = toksProgram p`), which is evaluated by the driver on every case. -/

/-- **Print / put lists, side condition explicit.** The items of a print list are written one after the other; they read
back as the same items iff consecutive items are separable — `itemsSep`: the next item's first token does not continue
an expression (no sign) and is not `(` after a bare name (the region `printAdj` of finding C12.print_items_fuse). -/
theorem print_roundtrip (args : List PExpr) (hwf : wfArgs args = true) (hsep : itemsSep args = true)
    (rest : List Tok) (f : Nat) (hf : 16 * esizeArgs args + 15 ≤ f) :
    pItems f ((toksArgs args).flatten ++ ch 59 :: rest) = .ok (normArgs args, ch 59 :: rest) :=
  items_rt args hwf hsep rest f hf

/-- `print A "x" (B + 1) T@1 not C` -/
def exItems : List PExpr :=
  [.var (bytesOf "A"), .str (bytesOf "x"), .bin .add true (.var (bytesOf "B")) (.int 1), .item (.var (bytesOf "T")) 1,
   .un .bnot false (.var (bytesOf "C"))]
example : wfArgs exItems = true ∧ itemsSep exItems = true := by decide +kernel
/-- the side condition is needed, and it is where the finding lives: `X` `(-1)` fuse; a sign fuses too -/
example : itemsSep [.var (bytesOf "X"), .un .neg true (.int 1)] = false ∧ printAdj [.var (bytesOf "X"), .un .neg true (.int 1)] = true ∧
    itemsSep [.int 1, .un .neg false (.var (bytesOf "X"))] = false := by decide +kernel

/-- **Round trip of every statement kind without a block** (nop, break, continue, trace, return [e], `X = e`, `X:type`,
both with chains ` , ` of any length and any flat statement after the comma, print, put, do, raise), all expression
forms inside: the tokens of the saved statement followed by the separator read back as `normS s`. -/
theorem stmt_roundtrip_flat (s : PStmt) (hwf : wfFlat s = true) (nested : Bool) (rest : List Tok) (f : Nat)
    (hf : 16 * fsize s + 20 ≤ f) :
    pStmt f nested (toksStmt s ++ ch 59 :: rest) = .ok (some (normS s), rest) :=
  flat_rt s hwf nested rest f hf

/-- `A = -B power 2 , C:integer , print A "x" (B + 1)` -/
def exChain : PStmt :=
  .letS (bytesOf "A") (.un .neg false (.bin .exp false (.var (bytesOf "B")) (.int 2)))
    (some (.letn (bytesOf "C") (bytesOf "integer") (some (.print [.var (bytesOf "A"), .str (bytesOf "x"),
      .bin .add true (.var (bytesOf "B")) (.int 1)]))))
example : wfFlat exChain = true := by decide +kernel
example : unparseStmt 0 exChain = bytesOf "A = -(B power 2) , C:integer , print A \"x\" (B + 1)" := by decide +kernel
example : pStmt 1000 true (toksStmt exChain ++ ch 59 :: [kw "end"]) = .ok (some (normS exChain), [kw "end"]) :=
  stmt_roundtrip_flat exChain (by decide +kernel) true _ 1000 (by decide +kernel)

/-- **Programs — partial.** `Parser::parse` on the tokens of a saved program whose statements are flat gives `normP p`.
(Full statement: the same for every well-formed program and on bytes; the block statements and the byte→token step are
missing, see the section comment.) -/
theorem program_roundtrip_partial (p : List PStmt) (hwf : wfFlatB p = true) (f : Nat) (hf : 16 * psize p + 21 ≤ f) :
    pProgram f (toksProgram p) = .ok (normP p) :=
  flat_program_rt p hwf f hf

def exProg : List PStmt := [exChain, .doS exCalls, .ret (some (.call (bytesOf "max") [.var (bytesOf "A"), .int 2])), .raise (bytesOf "E")]
example : wfFlatB exProg = true := by decide +kernel
example : pProgram 2000 (toksProgram exProg) = .ok (normP exProg) :=
  program_roundtrip_partial exProg (by decide +kernel) 2000 (by decide +kernel)
/-- on this example the saved bytes do scan to `toksProgram` (C13 lexer model, by evaluation) -/
example : tokensOf (unparseProgram exProg) = toksProgram exProg := by decide +kernel

/-- **Fixpoint at program level, ALL statement kinds**: the program read back (`normP p`) is saved as the same bytes —
indentation, `elsif` / `else` / `exception` / `when` / `end` lines, function headers included — and as the same tokens. -/
theorem unparse_fixpoint_program (p : List PStmt) :
    unparseProgram (normP p) = unparseProgram p ∧ toksProgram (normP p) = toksProgram p :=
  ⟨unparseBlock_norm 0 p, toksBlock_norm p⟩

/-- the same for a block at any exec level -/
theorem unparse_fixpoint_block (lvl : Nat) (b : List PStmt) : unparseBlock lvl (normB b) = unparseBlock lvl b :=
  unparseBlock_norm lvl b

/-- **Behaviour at program level, ALL statement kinds**: the program read back translates to the SAME interpreter
program (Model/Interp.lean), hence runs the same in every state. -/
theorem behaviour_preserved_program (p : List PStmt) : toProgram (normP p) = toProgram p := toBlock_norm p

/-- `if -A power 2 < 0 then while B loop C = -(1) ; end loop; else begin nop; exception when E then return -A power 2; end; end if;
function F(X:integer) return integer is begin return -X power 2; end;` -/
def exBlocks : List PStmt :=
  [.ifS [(.bin .lt false exDoNeg (.int 0), [.whileS (.var (bytesOf "B")) [.letS (bytesOf "C") (.un .neg false (.int 1)) none]])]
      (some [.begin [.nop] [(bytesOf "E", [.ret (some exDoNeg)])]]),
   .func (bytesOf "F") [(bytesOf "X", bytesOf "integer")] (bytesOf "integer") [.ret (some exDoNeg)] []]
example : unparseProgram (normP exBlocks) = unparseProgram exBlocks := (unparse_fixpoint_program exBlocks).1
example : toProgram (normP exBlocks) = toProgram exBlocks ∧ (toProgram exBlocks).isSome = true :=
  ⟨behaviour_preserved_program _, by decide +kernel⟩
/-- by evaluation (lexer + parser model): this block program does load again from its BYTES and is saved as the same bytes -/
example : (parseText (unparseProgram exBlocks)).toOption.map unparseProgram = some (unparseProgram exBlocks) := by decide +kernel

/-- with the partial round trip: unparse (parse (unparse p)) = unparse p on the tokens of flat programs -/
theorem unparse_fixpoint_program_partial (p : List PStmt) (hwf : wfFlatB p = true) (f : Nat) (hf : 16 * psize p + 21 ≤ f) :
    (pProgram f (toksProgram p)).toOption.map unparseProgram = some (unparseProgram p) := by
  rw [program_roundtrip_partial p hwf f hf]
  simp [Except.toOption, (unparse_fixpoint_program p).1]

example : (pProgram 2000 (toksProgram exProg)).toOption.map unparseProgram = some (unparseProgram exProg) :=
  unparse_fixpoint_program_partial exProg (by decide +kernel) 2000 (by decide +kernel)

/-! ### Statements of EVERY kind, clauses, programs (round C12-deepen 2): the parser half on tokens, no `flat` restriction -/

/-- **Round trip of statements, every kind.** For every well-formed statement `s` (`wfS`: names are parser names, type
keywords are type keywords, expressions `wf`, print lists `itemsSep`, clauses of if / elsif / else / while / for / forall /
when non-empty, function declarations at top level only, parameters `paramOk`) — nop, break, continue, trace, return,
assignments and typed declarations with chains, print, put, do, raise, **if / elsif… / else, while, for (with and without
step, asc / desc), forall (asc / desc), begin / exception / when…, function declarations with typed parameters and
exception clauses**, nested to any depth: the tokens of the saved statement followed by the separator read back as
`normS s`, whatever follows. By mutual induction over statements, clauses (`block_roundtrip`), rule lists and catch lists. -/
theorem stmt_roundtrip (s : PStmt) (nested : Bool) (hwf : wfS nested s = true) (rest : List Tok) (f : Nat)
    (hf : 16 * ssize s + 30 ≤ f) :
    pStmt f nested (toksStmt s ++ ch 59 :: rest) = .ok (some (normS s), rest) :=
  stmt_rt s nested hwf rest f hf

/-- **Clauses** (`parse_clause` / `parse_catch` / the body of BEGIN): the statements of a clause, followed by a word `e`
that ends it (`end`, `elsif`, `else`, `exception`, `when` — whichever set `enders` the construct uses), read back as
`normB b` and leave `e`; `ne` = the construct requires at least one statement. -/
theorem block_roundtrip (b : List PStmt) (hwf : wfB b = true) (enders : List Bytes) (ne : Bool) (e : Tok) (rest : List Tok)
    (f : Nat) (hc : e.code = cKW) (he : enders.contains e.text = true)
    (hsub : ∀ x, enders.contains x = true → enderKws.contains x = true) (hne : ne = true → b ≠ [])
    (hf : 16 * ssizeB b + 30 ≤ f) :
    pBlock f enders ne (toksBlock b ++ e :: rest) = .ok (normB b, e :: rest) :=
  block_rt b hwf enders ne e rest f hc he hsub hne hf

/-- **Round trip of programs (tokens), every statement kind**: `Parser::parse` on the tokens of a saved program gives
`normP p`. (What is still missing for `parseText (unparseProgram p) = ok (normP p)` is only the byte → token step.) -/
theorem program_roundtrip (p : List PStmt) (hwf : wfP p = true) (f : Nat) (hf : 16 * ssizeB p + 31 ≤ f) :
    pProgram f (toksProgram p) = .ok (normP p) :=
  program_rt p hwf f hf

/-- **unparse ∘ parse ∘ unparse = unparse on tokens, all programs**: the program read back from the tokens of the saved
text is saved as the same bytes. -/
theorem unparse_fixpoint_program_tokens (p : List PStmt) (hwf : wfP p = true) (f : Nat) (hf : 16 * ssizeB p + 31 ≤ f) :
    (pProgram f (toksProgram p)).toOption.map unparseProgram = some (unparseProgram p) := by
  rw [program_roundtrip p hwf f hf]
  simp [Except.toOption, (unparse_fixpoint_program p).1]

/-- …and is the same interpreter program -/
theorem behaviour_preserved_program_tokens (p : List PStmt) (hwf : wfP p = true) (f : Nat) (hf : 16 * ssizeB p + 31 ≤ f) :
    ∃ q, pProgram f (toksProgram p) = .ok q ∧ toProgram q = toProgram p ∧ unparseProgram q = unparseProgram p :=
  ⟨normP p, program_roundtrip p hwf f hf, behaviour_preserved_program p, (unparse_fixpoint_program p).1⟩

/-- `for I in 1 to -N power 2 step 2 desc loop if … elsif … else … end if; end loop; forall E in T asc loop … end loop;
begin … exception when A then … when B then … end; function F(X:integer,Y) return integer is begin … exception when Z then … end;` -/
def exAll : List PStmt :=
  [.forS (bytesOf "I") (.int 1) exDoNeg (some (.int 2)) .desc
     [.ifS [(.var (bytesOf "A"), [.print [.var (bytesOf "I")]]), (.var (bytesOf "B"), [.brk, .cont])] (some [.nop])],
   .forall (bytesOf "E") (.var (bytesOf "T")) .asc [.doS exCalls],
   .whileS (.kw (bytesOf "true")) [.ifS [(.var (bytesOf "A"), [.raise (bytesOf "X")])] none],
   .begin [exChain] [(bytesOf "A", [.ret none]), (bytesOf "B", [.trace (.kw (bytesOf "false"))])],
   .func (bytesOf "F") [(bytesOf "X", bytesOf "integer"), (bytesOf "Y", [])] (bytesOf "integer")
     [.ret (some exDoNeg)] [(bytesOf "Z", [.ret (some (.int 0))])]]
example : wfP exAll = true := by decide +kernel
example : pProgram 5000 (toksProgram exAll) = .ok (normP exAll) :=
  program_roundtrip exAll (by decide +kernel) 5000 (by decide +kernel)
/-- on this example the saved bytes scan to `toksProgram` (C13 lexer model, by evaluation) -/
example : tokensOf (unparseProgram exAll) = toksProgram exAll := by decide +kernel

/-! ### On BYTES (round C12-deepen 2): `parseText ∘ unparseProgram`, with the scanning step as ONE explicit hypothesis

  `parseText text = pProgram (parseFuel ts) ts` with `ts = tokensOf text` (the library's line reader + chunked scanner,
  C13). The byte → token step `tokensOf (unparseProgram p) = toksProgram p` is NOT proved in general (plan in
  notes/NOTES-C12.md); it is a decidable statement about `p`, evaluated by the driver on every case (`ptoks`), and enters
  here as hypothesis `hscan`. It subsumes the three side conditions a proof of it needs (names are identifiers, the shape
  of `numText d`, lines ≤ 1023 bytes). That the fuel `parseText` gives the parser suffices is proved (`parse_fuel_suffices`). -/

/-- The fuel `parseText` hands to the parser (`parseFuel`, 64 per token) covers the bound of `program_roundtrip` for EVERY
program: the fuel measure is at most three times the number of tokens (`C12L.ssizeB_le`, all statement and expression kinds). -/
theorem parse_fuel_suffices (p : List PStmt) : 16 * ssizeB p + 31 ≤ parseFuel (toksProgram p) := parseFuel_ok p

example : 16 * ssizeB exAll + 31 ≤ parseFuel (toksProgram exAll) := parse_fuel_suffices exAll

/-- **`parseText (unparseProgram p) = ok (normP p)`** for every well-formed program of every statement kind whose saved
bytes scan to its token list. -/
theorem program_roundtrip_bytes (p : List PStmt) (hwf : wfP p = true)
    (hscan : tokensOf (unparseProgram p) = toksProgram p) :
    parseText (unparseProgram p) = .ok (normP p) := by
  simp only [parseText, hscan]
  exact program_roundtrip p hwf _ (parse_fuel_suffices p)

/-- **unparse (parse (unparse p)) = unparse p on BYTES**, and the program read back is the same interpreter program. -/
theorem unparse_fixpoint_program_bytes (p : List PStmt) (hwf : wfP p = true)
    (hscan : tokensOf (unparseProgram p) = toksProgram p) :
    ∃ q, parseText (unparseProgram p) = .ok q ∧ unparseProgram q = unparseProgram p ∧ toProgram q = toProgram p :=
  ⟨normP p, program_roundtrip_bytes p hwf hscan, (unparse_fixpoint_program p).1, behaviour_preserved_program p⟩

/-- expressions on bytes: the text of `e` followed by `;`, scanned and parsed -/
theorem expr_roundtrip_bytes (e : PExpr) (hwf : wf e = true)
    (hscan : tokensOf (unparseExpr e ++ [59]) = toksExpr e ++ [ch 59]) (f : Nat) (hf : 16 * esize e + 13 ≤ f) :
    pExpr f (tokensOf (unparseExpr e ++ [59])) = .ok (norm e, [ch 59]) := by
  rw [hscan]
  exact expr_roundtrip e hwf (ch 59) [] semi_stops (fun _ => semi_not_lp) f hf

example : parseText (unparseProgram exAll) = .ok (normP exAll) :=
  program_roundtrip_bytes exAll (by decide +kernel) (by decide +kernel)
example : pExpr 1000 (tokensOf (unparseExpr exCalls ++ [59])) = .ok (norm exCalls, [ch 59]) :=
  expr_roundtrip_bytes exCalls (by decide +kernel) (by decide +kernel) 1000 (by decide +kernel)
/-- the model parser no longer runs out of fuel on deep parentheses (it did with fuel `2 * tokens + 50`) -/
example : (parseText (bytesOf "a = ((((((((((((1))))))))))));")).toOption.map unparseProgram = some (bytesOf "A = 1;\n") := by
  decide +kernel

/-! ### Where the full statement fails (negations, by evaluation) -/

/-- the text the tokens `ts` are read back to (`none` = rejected) -/
def reText (ts : List Tok) : Option Bytes := (pExpr 200 ts).toOption.map fun r => unparseExpr r.1

/-- `18446744073709551615 ** 2` is the tree EXP(int −1, int 2); its text `-1 power 2` reads back as −(1 ** 2). -/
example : unparseExpr (.bin .exp false (.int (-1)) (.int 2)) = bytesOf "-1 power 2" ∧
    reText (toksExpr (.bin .exp false (.int (-1)) (.int 2)) ++ [ch 59]) = some (bytesOf "-(1 power 2)") := by decide +kernel

/-- `2 ** 18446744073709551615`: the text `2 power -1` is rejected. -/
example : reText (toksExpr (.bin .exp false (.int 2) (.int (-1))) ++ [ch 59]) = none := by decide +kernel

/-- `9223372036854775808` is the constant −2^63; the text read back unparses to `--9223372036854775808`. -/
example : reText (toksExpr (.int (-9223372036854775808)) ++ [ch 59]) = some (bytesOf "--9223372036854775808") := by decide +kernel

/-- print items `X` `(-1)` are written `X (-1)`, which reads back as ONE item, a call of a function X. -/
example : (pItems 200 (toksExpr (.var (bytesOf "X")) ++ toksExpr (.un .neg true (.int 1)) ++ [ch 59])).toOption.map
    (fun r => r.1.map unparseExpr) = some [bytesOf "X(-1)"] := by decide +kernel

end BlocV.C12
