/-
  Helper lemmas for C10: Base64 (blocc/builtin/base64.cpp as modelled by `b64encode`/`b64decode`).
  The 64-entry alphabet facts are checked by kernel evaluation over all 64 indices; the round trip is an
  induction over 3-byte groups plus the three tail shapes.
  (Helper lemmas only — the property theorems are in BlocV/Proofs/C10.lean.)
-/
import BlocV.Model.Builtins
namespace BlocV.Lemmas
open BlocV

theorem b64index_b64char_lt : ∀ n : Fin 64, b64index (b64char n.val) = n.val := by decide +kernel

theorem b64char_mod (n : Nat) : b64char n = b64char (n % 64) := by simp [b64char]

theorem b64index_b64char (n : Nat) : b64index (b64char n) = n % 64 := by
  have h := b64index_b64char_lt ⟨n % 64, Nat.mod_lt _ (by decide)⟩
  simp only at h
  rw [b64char_mod, h]

theorem b64char_ne_pad_lt : ∀ n : Fin 64, b64char n.val ≠ 61 := by decide +kernel

theorem b64char_ne_pad (n : Nat) : b64char n ≠ 61 := by
  have h := b64char_ne_pad_lt ⟨n % 64, Nat.mod_lt _ (by decide)⟩
  rw [b64char_mod]; exact h

theorem u8_ofNat_eq (x : Nat) (a : UInt8) (h : x % 256 = a.toNat) : UInt8.ofNat x = a := by
  apply UInt8.toNat_inj.mp
  rw [UInt8.toNat_ofNat']
  exact h

/-- One full group: the four characters of three bytes decode to the three bytes. -/
theorem b64_group (a b c : UInt8) :
    let n := a.toNat * 65536 + b.toNat * 256 + c.toNat
    let n' := b64index (b64char (n / 262144)) * 262144 + b64index (b64char (n / 4096)) * 4096
              + b64index (b64char (n / 64)) * 64 + b64index (b64char n)
    UInt8.ofNat (n' / 65536) = a ∧ UInt8.ofNat (n' / 256) = b ∧ UInt8.ofNat n' = c := by
  intro n n'
  have ha := a.toNat_lt; have hb := b.toNat_lt; have hc := c.toNat_lt
  have hn : n' = n := by
    simp only [n', b64index_b64char]
    omega
  rw [hn]
  refine ⟨u8_ofNat_eq _ _ ?_, u8_ofNat_eq _ _ ?_, u8_ofNat_eq _ _ ?_⟩ <;> omega

theorem b64encode_cons3 (a b c : UInt8) (rest : Bytes) :
    b64encode (a :: b :: c :: rest) =
      let n := a.toNat * 65536 + b.toNat * 256 + c.toNat
      b64char (n / 262144) :: b64char (n / 4096) :: b64char (n / 64) :: b64char n :: b64encode rest := by
  rw [b64encode]

/-- Main loop of the decoder on the encoding of `3k` bytes followed by anything. -/
theorem b64decodeGroups_encode : ∀ (k : Nat) (g t : Bytes), g.length = 3 * k →
    b64decodeGroups k (b64encode (g ++ t)) = g := by
  intro k
  induction k with
  | zero => intro g t h; have : g = [] := List.eq_nil_of_length_eq_zero (by omega); subst this; simp [b64decodeGroups]
  | succ k ih =>
    intro g t h
    match g, h with
    | a :: b :: c :: g', h =>
      have hg' : g'.length = 3 * k := by simp at h; omega
      simp only [List.cons_append, b64encode_cons3, b64decodeGroups]
      obtain ⟨h1, h2, h3⟩ := b64_group a b c
      rw [h1, h2, h3, ih g' t hg']

theorem b64encode_length_groups : ∀ (k : Nat) (g t : Bytes), g.length = 3 * k →
    b64encode (g ++ t) = b64encode g ++ b64encode t ∧ (b64encode g).length = 4 * k ∧ (∀ c ∈ b64encode g, c ≠ 61) := by
  intro k
  induction k with
  | zero => intro g t h; have : g = [] := List.eq_nil_of_length_eq_zero (by omega); subst this; simp [b64encode]
  | succ k ih =>
    intro g t h
    match g, h with
    | a :: b :: c :: g', h =>
      have hg' : g'.length = 3 * k := by simp at h; omega
      obtain ⟨e1, e2, e3⟩ := ih g' t hg'
      simp only [List.cons_append, b64encode_cons3]
      refine ⟨by rw [e1], by simp [e2]; omega, ?_⟩
      intro x hx
      simp only [List.mem_cons] at hx
      rcases hx with rfl | rfl | rfl | rfl | hx
      · exact b64char_ne_pad _
      · exact b64char_ne_pad _
      · exact b64char_ne_pad _
      · exact b64char_ne_pad _
      · exact e3 x hx



theorem b64decode_tail0 (E : Bytes) (k : Nat) (hE : E.length = 4 * k) (hne : ∀ c ∈ E, c ≠ 61) :
    b64decode E = b64decodeGroups k E := by
  unfold b64decode
  by_cases hk : k = 0
  · subst hk
    have : E = [] := List.eq_nil_of_length_eq_zero (by omega)
    subst this; simp [b64decodeGroups]
  · have hl : (E.length == 0) = false := beq_eq_false_iff_ne.mpr (by omega)
    have hlast : (E.getLast? == some 61) = false := by
      cases h : E.getLast? with
      | none => rfl
      | some c =>
        have := hne c (List.mem_of_getLast? h)
        simp [this]
    have hm : E.length % 4 = 0 := by omega
    simp only [hl, hm, hlast]
    simp
    congr 1
    omega

theorem drop_append_len (E T : Bytes) (n j : Nat) (hE : E.length = n) : (E ++ T).drop (n + j) = T.drop j := by
  subst hE
  rw [← List.drop_drop, List.drop_left]

theorem getElem?_append_len (E T : Bytes) (n j : Nat) (hE : E.length = n) : (E ++ T)[n + j]? = T[j]? := by
  subst hE
  rw [List.getElem?_append_right (by omega)]
  congr 1; omega

theorem b64decode_tail1 (E : Bytes) (k : Nat) (hE : E.length = 4 * k) (c0 c1 : UInt8) :
    b64decode (E ++ [c0, c1, 61, 61]) =
      b64decodeGroups k (E ++ [c0, c1, 61, 61]) ++ [UInt8.ofNat ((b64index c0 * 262144 + b64index c1 * 4096) / 65536)] := by
  unfold b64decode
  have hlen : (E ++ [c0, c1, 61, 61]).length = 4 * k + 4 := by simp [hE]
  have hm : (4 * k + 4) % 4 = 0 := by omega
  have hd : (E ++ [c0, c1, 61, 61]).drop (4 * k + 4 - 2) = [61, 61] := by
    have : 4 * k + 4 - 2 = 4 * k + 2 := by omega
    rw [this, drop_append_len E _ _ 2 hE]; rfl
  have hl : (E ++ [c0, c1, 61, 61]).getLast? = some 61 := by simp
  have hlast : (4 * k + 3) / 4 = k := by omega
  have g0 : (E ++ [c0, c1, 61, 61])[k * 4]? = some c0 := by
    rw [show k * 4 = 4 * k + 0 by omega, getElem?_append_len E _ _ 0 hE]; rfl
  have g1 : (E ++ [c0, c1, 61, 61])[k * 4 + 1]? = some c1 := by
    rw [show k * 4 + 1 = 4 * k + 1 by omega, getElem?_append_len E _ _ 1 hE]; rfl
  have hlt : k * 4 < 4 * k + 3 := by omega
  simp only [hlen, hm, hd, hl]
  simp [hlast] 
  simp [g0, g1, hlt]

theorem b64decode_tail2 (E : Bytes) (k : Nat) (hE : E.length = 4 * k) (c0 c1 c2 : UInt8) (h2 : c2 ≠ 61) :
    b64decode (E ++ [c0, c1, c2, 61]) =
      b64decodeGroups k (E ++ [c0, c1, c2, 61]) ++ [UInt8.ofNat ((b64index c0 * 262144 + b64index c1 * 4096) / 65536),
        UInt8.ofNat ((b64index c0 * 262144 + b64index c1 * 4096 + b64index c2 * 64) / 256)] := by
  unfold b64decode
  have hlen : (E ++ [c0, c1, c2, 61]).length = 4 * k + 4 := by simp [hE]
  have hm : (4 * k + 4) % 4 = 0 := by omega
  have hd : (E ++ [c0, c1, c2, 61]).drop (4 * k + 4 - 2) = [c2, 61] := by
    have : 4 * k + 4 - 2 = 4 * k + 2 := by omega
    rw [this, drop_append_len E _ _ 2 hE]; rfl
  have hl : (E ++ [c0, c1, c2, 61]).getLast? = some 61 := by simp
  have hlast : (4 * k + 3) / 4 = k := by omega
  have g0 : (E ++ [c0, c1, c2, 61])[k * 4]? = some c0 := by
    rw [show k * 4 = 4 * k + 0 by omega, getElem?_append_len E _ _ 0 hE]; rfl
  have g1 : (E ++ [c0, c1, c2, 61])[k * 4 + 1]? = some c1 := by
    rw [show k * 4 + 1 = 4 * k + 1 by omega, getElem?_append_len E _ _ 1 hE]; rfl
  have g2 : (E ++ [c0, c1, c2, 61])[k * 4 + 2]? = some c2 := by
    rw [show k * 4 + 2 = 4 * k + 2 by omega, getElem?_append_len E _ _ 2 hE]; rfl
  have hlt : k * 4 < 4 * k + 3 := by omega
  simp only [hlen, hm, hd, hl]
  simp [hlast, h2] 
  simp [g0, g1, g2, hlt]



theorem split3 (x : Bytes) : ∃ (k : Nat) (g t : Bytes), x = g ++ t ∧ g.length = 3 * k ∧ t.length < 3 := by
  refine ⟨x.length / 3, x.take (3 * (x.length / 3)), x.drop (3 * (x.length / 3)), (List.take_append_drop _ _).symm, ?_, ?_⟩
  · rw [List.length_take]; omega
  · rw [List.length_drop]; omega

/-- **Base64 round trip** on byte lists. -/
theorem b64decode_b64encode (x : Bytes) : b64decode (b64encode x) = x := by
  obtain ⟨k, g, t, rfl, hg, ht⟩ := split3 x
  obtain ⟨e1, e2, e3⟩ := b64encode_length_groups k g t hg
  have hgr := b64decodeGroups_encode k g t hg
  rw [e1] at hgr ⊢
  match t, ht with
  | [], _ =>
    simp only [b64encode, List.append_nil] at hgr ⊢
    rw [b64decode_tail0 _ k e2 e3, hgr]
  | [a], _ =>
    simp only [b64encode] at hgr ⊢
    rw [b64decode_tail1 _ k e2, hgr]
    congr 2
    apply u8_ofNat_eq
    simp only [b64index_b64char]
    have := a.toNat_lt
    omega
  | [a, b], _ =>
    simp only [b64encode] at hgr ⊢
    rw [b64decode_tail2 _ k e2 _ _ _ (b64char_ne_pad _), hgr]
    have := a.toNat_lt
    have := b.toNat_lt
    congr 2
    · apply u8_ofNat_eq
      simp only [b64index_b64char]
      omega
    · congr 1
      apply u8_ofNat_eq
      simp only [b64index_b64char]
      omega

end BlocV.Lemmas
