/-
  C13R2 — helper lemmas about the readers of source text (Model/LexReaders.lean): every transcribed `read`
  is an instance of one generic call `genCall drop`, and the sequence of calls of `genCall drop max` is the line
  discipline `lineSplit max` on the text without the dropped bytes.
-/
import BlocV.Proofs.Lemmas.Lex
import BlocV.Model.LexReaders

namespace BlocV.Lex
open BlocV

/-- The common shape of the four byte-by-byte readers: room is tested BEFORE a byte is taken, a byte of class
`drop` is skipped, any other byte is stored, a stored '\n' ends the call. -/
def genCall (drop : UInt8 → Bool) (max : Nat) : Bytes → Bytes → Bytes × Bytes
  | acc, [] => (acc.reverse, [])
  | acc, c :: t =>
    if acc.length < max then
      if drop c then genCall drop max acc t
      else if c == 10 then ((c :: acc).reverse, t)
      else genCall drop max (c :: acc) t
    else (acc.reverse, c :: t)

def isCr (c : UInt8) : Bool := c == 13
def noDrop (_ : UInt8) : Bool := false

theorem srCall_eq_gen (max : Nat) : ∀ (s acc : Bytes), srCall max acc s = genCall isCr max acc s := by
  intro s
  induction s with
  | nil => intro acc; simp [srCall, genCall]
  | cons c t ih =>
    intro acc
    simp only [srCall, genCall, isCr]
    by_cases hl : acc.length < max
    · simp only [hl, if_true]
      by_cases h13 : c = 13
      · subst h13
        have : ((13 : UInt8) == 10) = false := by decide
        simp [this, ih]
      · have h13' : (c == 13) = false := by simpa using h13
        simp only [h13', bne, Bool.not_false, if_true, Bool.false_eq_true, if_false, ih]
    · simp [hl]

theorem rfCall_eq_gen (max : Nat) : ∀ (s acc : Bytes), rfCall max acc s = genCall isCr max acc s := by
  intro s
  induction s with
  | nil => intro acc; simp [rfCall, genCall]
  | cons c t ih =>
    intro acc
    simp only [rfCall, genCall, isCr]
    by_cases hl : acc.length < max
    · simp only [hl, if_true]
      by_cases h13 : (c == 13) = true
      · simp [h13, ih]
      · simp only [h13, Bool.false_eq_true, if_false]
        by_cases h10 : (c == 10) = true
        · simp [h10, bne]
        · simp [h10, bne, ih]
    · simp [hl]

theorem incCall_eq_gen (max : Nat) : ∀ (s acc : Bytes), incCall max acc s = genCall isCr max acc s := by
  intro s
  induction s with
  | nil => intro acc; simp [incCall, genCall]
  | cons c t ih =>
    intro acc
    simp only [incCall, genCall, isCr]
    by_cases hl : acc.length < max
    · simp only [hl, if_true]
      by_cases h13 : (c == 13) = true
      · simp [h13, ih]
      · simp only [h13, Bool.false_eq_true, if_false]
        by_cases h10 : (c == 10) = true
        · simp [h10, bne]
        · simp [h10, bne, ih]
    · simp [hl]

theorem stdinCall_eq_gen (max : Nat) : ∀ (s acc : Bytes), stdinCall max acc s = genCall noDrop max acc s := by
  intro s
  induction s with
  | nil => intro acc; simp [stdinCall, genCall]
  | cons c t ih =>
    intro acc
    simp only [stdinCall, genCall, noDrop]
    by_cases hl : acc.length < max
    · simp [hl, ih]
    · simp [hl]

theorem calls_congr (f g : Bytes → Bytes × Bytes) (h : ∀ s, f s = g s) (text : Bytes) : calls f text = calls g text := by
  have : f = g := funext h
  rw [this]

/-! ## the generic reader is the line discipline -/

theorem genCall_full (drop : UInt8 → Bool) (max : Nat) (acc s : Bytes) (h : max ≤ acc.length) :
    genCall drop max acc s = (acc.reverse, s) := by
  cases s with
  | nil => simp [genCall]
  | cons c t =>
    have : ¬ acc.length < max := by omega
    simp [genCall, this]

theorem callsF_nil (drop : UInt8 → Bool) (max fuel : Nat) : callsF (genCall drop max []) fuel [] = [] := by
  cases fuel <;> simp [callsF, genCall]

/-- What `tokenizer_buf` makes of a call's result: nothing (end of input) when it is empty. -/
def emitCall (call : Bytes → Bytes × Bytes) (fuel : Nat) (r : Bytes × Bytes) : List Bytes :=
  if r.1.isEmpty then [] else r.1 :: callsF call fuel r.2

theorem callsF_succ (call : Bytes → Bytes × Bytes) (fuel : Nat) (s : Bytes) :
    callsF call (fuel + 1) s = emitCall call fuel (call s) := rfl

def keep (drop : UInt8 → Bool) (s : Bytes) : Bytes := s.filter fun c => !drop c

theorem gen_calls (drop : UInt8 → Bool) (max : Nat) : ∀ (s acc : Bytes) (fuel : Nat),
    acc.length < max → s.length ≤ fuel →
    emitCall (genCall drop max []) fuel (genCall drop max acc s) = lineSplitAux max acc (keep drop s) := by
  intro s
  induction s with
  | nil =>
    intro acc fuel _ _
    simp only [genCall, emitCall, keep, List.filter_nil, lineSplitAux, callsF_nil]
    cases acc <;> simp
  | cons c t ih =>
    intro acc fuel hacc hfuel
    have hmax : 0 < max := by omega
    -- the rest of the text after a chunk has been closed
    have rest : callsF (genCall drop max []) fuel t = lineSplitAux max [] (keep drop t) := by
      cases fuel with
      | zero => simp at hfuel
      | succ f =>
        rw [callsF_succ]
        exact ih [] f (by simp; omega) (by simp at hfuel; omega)
    simp only [genCall, hacc, if_true]
    by_cases hd : drop c = true
    · have hk : keep drop (c :: t) = keep drop t := by simp [keep, hd]
      simp only [hd, if_true, hk]
      exact ih acc fuel hacc (by simp at hfuel; omega)
    · have hd' : drop c = false := by simpa using hd
      have hk : keep drop (c :: t) = c :: keep drop t := by simp [keep, hd']
      simp only [hd', Bool.false_eq_true, if_false, hk, lineSplitAux]
      by_cases h10 : (c == 10) = true
      · simp only [h10, if_true, Bool.true_or, emitCall]
        simp [rest]
      · have h10' : (c == 10) = false := by simpa using h10
        simp only [h10', Bool.false_eq_true, if_false, Bool.false_or]
        by_cases hfull : (c :: acc).length = max
        · rw [genCall_full drop max (c :: acc) t (by omega)]
          have : ((c :: acc).length == max) = true := by simpa using hfull
          simp only [this, if_true, emitCall]
          simp [rest]
        · have : ((c :: acc).length == max) = false := by simpa using hfull
          simp only [this, Bool.false_eq_true, if_false]
          exact ih (c :: acc) fuel (by simp at hfull ⊢; omega) (by simp at hfuel; omega)

theorem gen_reader (drop : UInt8 → Bool) (max : Nat) (hmax : 1 ≤ max) (text : Bytes) :
    calls (genCall drop max []) text = lineSplit max (keep drop text) := by
  unfold calls lineSplit
  rw [callsF_succ]
  exact gen_calls drop max text [] text.length (by simp; omega) (Nat.le_refl _)

theorem keep_isCr (s : Bytes) : keep isCr s = stripCr s := by
  unfold keep stripCr isCr
  congr 1

theorem keep_noDrop (s : Bytes) : keep noDrop s = s := by
  unfold keep noDrop
  simp

/-! ## what a line-discipline reader delivers -/

theorem lineSplit_chunks_ok (max : Nat) (hmax : 1 ≤ max) (s : Bytes) :
    ∀ c ∈ lineSplit max s, c ≠ [] ∧ c.length ≤ max := by
  intro c hc
  refine ⟨?_, lineSplitAux_len max hmax s [] (by simp; omega) c hc⟩
  obtain ⟨p, _, h | ⟨h, hp⟩⟩ := lineSplitAux_chunks max s [] (by intro x hx; simp at hx) c hc
  · rw [h]; simp
  · rw [h]; exact hp

/-- `lineSplit` restarts after every '\n': the chunks of `a ⏎ b` are those of `a ⏎` followed by those of `b`. -/
theorem lineSplitAux_nl (max : Nat) (b : Bytes) : ∀ (a cur : Bytes),
    lineSplitAux max cur (a ++ 10 :: b) = lineSplitAux max cur (a ++ [10]) ++ lineSplitAux max [] b := by
  intro a
  induction a with
  | nil => intro cur; simp [lineSplitAux]
  | cons c t ih =>
    intro cur
    simp only [List.cons_append, lineSplitAux]
    split
    · simp [ih]
    · exact ih _

/-! ## the readline line server -/

theorem rlCopy_full (max : Nat) (acc s : Bytes) (h : max ≤ acc.length) : rlCopy max acc s = (acc.reverse, s, false) := by
  cases s with
  | nil => simp [rlCopy]
  | cons c t =>
    have : ¬ acc.length < max := by omega
    simp [rlCopy, this]

/-- `rlCall` + the rest of the line's calls, with the later calls abstracted as `K`. -/
def rlFinish (max : Nat) (K : Bytes → List Bytes) (r : Bytes × Bytes × Bool) : List Bytes :=
  if r.2.2 then r.1 :: K r.2.1 else if max ≤ r.1.length then r.1 :: K r.2.1 else [r.1 ++ [10]]

theorem readlineLineF_succ (max fuel : Nat) (rest : Bytes) :
    readlineLineF max (fuel + 1) rest = rlFinish max (readlineLineF max fuel) (rlCopy max [] rest) := by
  simp only [readlineLineF, rlCall, rlFinish]
  by_cases h1 : (rlCopy max [] rest).2.2 = true
  · simp [h1]
  · by_cases h2 : max ≤ (rlCopy max [] rest).1.length
    · simp [h1, h2]
    · simp [h1, h2]

theorem rl_inner (max N : Nat) (K : Bytes → List Bytes)
    (hK : ∀ r : Bytes, r.length < N → K r = lineSplitAux max [] (r ++ [10])) :
    ∀ (s acc : Bytes), s.length ≤ N → acc.length < max →
      rlFinish max K (rlCopy max acc s) = lineSplitAux max acc (s ++ [10]) := by
  intro s
  induction s with
  | nil =>
    intro acc _ hacc
    have h1 : ¬ max ≤ acc.length := by omega
    simp [rlCopy, rlFinish, h1, lineSplitAux]
  | cons c t ih =>
    intro acc hN hacc
    have ht : t.length < N := by simp at hN; omega
    simp only [rlCopy, hacc, if_true, List.cons_append, lineSplitAux]
    by_cases h10 : (c == 10) = true
    · simp only [h10, if_true, Bool.true_or, rlFinish]
      rw [hK t ht]
    · have h10' : (c == 10) = false := by simpa using h10
      simp only [h10', Bool.false_eq_true, if_false, Bool.false_or]
      by_cases hfull : (c :: acc).length = max
      · rw [rlCopy_full max (c :: acc) t (by omega)]
        have e1 : ((c :: acc).length == max) = true := by simpa using hfull
        have e2 : max ≤ (c :: acc).reverse.length := by simp; simp at hfull; omega
        simp only [e1, if_true, rlFinish, Bool.false_eq_true, if_false, e2]
        rw [hK t ht]
      · have e1 : ((c :: acc).length == max) = false := by simpa using hfull
        simp only [e1, Bool.false_eq_true, if_false]
        exact ih (c :: acc) (by omega) (by simp at hfull ⊢; omega)

/-- One line served by the readline branch of `ReadInput::read` = the line discipline on `line ⏎`. -/
theorem readlineLineF_eq (max : Nat) (hmax : 1 ≤ max) : ∀ (fuel : Nat) (rest : Bytes), rest.length + 2 ≤ fuel →
    readlineLineF max fuel rest = lineSplitAux max [] (rest ++ [10]) := by
  intro fuel
  induction fuel with
  | zero => intro rest h; omega
  | succ f ihf =>
    intro rest hlen
    rw [readlineLineF_succ]
    exact rl_inner max rest.length _ (fun r hr => ihf r (by omega)) rest [] (Nat.le_refl _) (by simp; omega)

/-! ## a safe split (section 2) -/

theorem endsWithNl_drop (l : Bytes) (n : Nat) (h : n < l.length) : endsWithNl (l.drop n) = endsWithNl l := by
  unfold endsWithNl
  rw [List.getLast?_drop]
  have : ¬ l.length ≤ n := by omega
  simp [this]

theorem lex_append (b : Bytes) : ∀ (k : Nat) (r : Bytes), r.length ≤ k → r ≠ [] → ∀ (st : St) (bol : Bool),
    noCross b k st bol r = true →
    lex st bol (r ++ b) = ((lex st bol r).1 ++ (lex (lex st bol r).2 (endsWithNl r) b).1,
                           (lex (lex st bol r).2 (endsWithNl r) b).2) := by
  intro k
  induction k with
  | zero =>
    intro r hr hne
    exact absurd (List.eq_nil_of_length_eq_zero (by omega)) hne
  | succ k ih =>
    intro r hr hne st bol hnc
    cases r with
    | nil => exact absurd rfl hne
    | cons c t =>
      simp only [noCross, Bool.and_eq_true, beq_iff_eq, Bool.or_eq_true] at hnc
      obtain ⟨hp, hrest⟩ := hnc
      simp only [List.cons_append] at hp
      have h1 := pick_pos (rulesOf st) (rulesOf_hasAny st) bol c t
      have h2 := pick_le (rulesOf st) bol (c :: t)
      simp only [List.cons_append]
      rw [lex_cons st bol c (t ++ b), lex_cons st bol c t, hp]
      generalize hm : pick (rulesOf st) bol (c :: t) = m at h1 h2 hrest
      have hm0 : ¬ m.2 = 0 := by omega
      have hrest' : noCross b k (nextSt st m.1) (endsNl ((c :: t).take m.2)) ((c :: t).drop m.2) = true := by
        rcases hrest with h | h
        · exact absurd h hm0
        · exact h
      simp only [hm0, if_false]
      have e1 : (c :: (t ++ b)).take m.2 = (c :: t).take m.2 := by
        rw [← List.cons_append, List.take_append_of_le_length h2]
      have e3 : (c :: (t ++ b)).drop m.2 = (c :: t).drop m.2 ++ b := by
        rw [← List.cons_append, List.drop_append_of_le_length h2]
      rw [e1, e3]
      by_cases hfull : m.2 = (c :: t).length
      · have hd : (c :: t).drop m.2 = [] := by rw [hfull]; exact List.drop_length
        have ht : (c :: t).take m.2 = c :: t := by rw [hfull]; exact List.take_length
        rw [hd, ht]
        simp [lex_nil, endsNl, endsWithNl]
      · have hlt : m.2 < (c :: t).length := by omega
        have hl : ((c :: t).drop m.2).length ≤ k := by
          simp only [List.length_drop, List.length_cons]
          simp only [List.length_cons] at hr
          omega
        have hne' : (c :: t).drop m.2 ≠ [] := by
          intro h0
          have := congrArg List.length h0
          simp only [List.length_drop, List.length_nil] at this
          omega
        rw [ih _ hl hne' _ _ hrest', endsWithNl_drop _ _ hlt]
        simp [List.append_assoc]

theorem lex_bol_irrelevant (st : St) (b : Bytes) (h : pick (rulesOf st) true b = pick (rulesOf st) false b) :
    lex st true b = lex st false b := by
  cases b with
  | nil => rfl
  | cons x u => rw [lex_cons, lex_cons, h]

theorem lexChunks_pair (a b : Bytes) (ha : a ≠ []) (hb : b ≠ []) (na : noNul a = true) (nb : noNul b = true) :
    lexChunks [a, b] = (lex .initial true a).1 ++ (lex (lex .initial true a).2 true b).1 := by
  cases a with
  | nil => exact absurd rfl ha
  | cons c t =>
    cases b with
    | nil => exact absurd rfl hb
    | cons x u =>
      simp only [lexChunks, lexChunksFrom, truncNul_noNul _ na, truncNul_noNul _ nb, List.append_nil]

theorem safeSplit_sound (a b : Bytes) (h : safeSplit a b = true) : lexChunks [a, b] = lexWhole (a ++ b) := by
  simp only [safeSplit, Bool.and_eq_true, Bool.or_eq_true, Bool.not_eq_true', List.isEmpty_iff] at h
  obtain ⟨⟨na, nb⟩, h⟩ := h
  rcases h with hb | ⟨⟨ha, hnc⟩, hbol⟩
  · subst hb
    cases a with
    | nil => rfl
    | cons c t => simp [lexChunks, lexChunksFrom, lexWhole, truncNul_noNul _ na]
  · have hane : a ≠ [] := by intro h0; subst h0; simp at ha
    by_cases hbe : b = []
    · subst hbe
      cases a with
      | nil => rfl
      | cons c t => simp [lexChunks, lexChunksFrom, lexWhole, truncNul_noNul _ na]
    · rw [lexChunks_pair a b hane hbe na nb]
      unfold lexWhole
      rw [lex_append b a.length a (Nat.le_refl _) hane .initial true hnc]
      simp only [bolOk, Bool.or_eq_true, beq_iff_eq] at hbol
      rcases hbol with hnl | hpk
      · rw [hnl]
      · cases hE : endsWithNl a with
        | true => rfl
        | false => rw [lex_bol_irrelevant _ b hpk]


/-! ## the converse: a cut that does not matter is a safe split -/

def goodCode : Option Nat → Bool
  | none => true
  | some k => 256 ≤ k

theorem rule_codes_good (st : St) : (rulesOf st).all (fun r => goodCode r.code) = true := by
  cases st <;> decide

theorem pick_code_good (rules : List Rule) (h : rules.all (fun r => goodCode r.code) = true) (bol : Bool) (s : Bytes) :
    goodCode (pick rules bol s).1 = true := by
  induction rules with
  | nil => rfl
  | cons r rs ih =>
    simp only [List.all_cons, Bool.and_eq_true] at h
    simp only [pick]
    split
    · exact h.1
    · exact ih h.2

/-- With a non-NUL first byte a match is returned as exactly one token. -/
theorem emit_single (code : Option Nat) (c : UInt8) (t : Bytes) (hc : c ≠ 0) : ∃ T, emit code (c :: t) = [T] := by
  cases code with
  | some k => exact ⟨⟨k, c :: t⟩, rfl⟩
  | none =>
    have : (c == 0) = false := by simpa using hc
    exact ⟨⟨c.toNat, c :: t⟩, by simp [emit, this]⟩

theorem emit_inj (c1 c2 : Option Nat) (x : UInt8) (t1 t2 : Bytes) (hx : x ≠ 0) (g1 : goodCode c1 = true) (g2 : goodCode c2 = true)
    (h : emit c1 (x :: t1) = emit c2 (x :: t2)) : c1 = c2 ∧ t1 = t2 := by
  have hx0 : (x == 0) = false := by simpa using hx
  have hlt : x.toNat < 256 := x.toNat_lt
  cases c1 with
  | some k1 =>
    cases c2 with
    | some k2 =>
      simp only [emit, List.cons.injEq, Tok.mk.injEq, and_true] at h
      exact ⟨by rw [h.1], h.2.2⟩
    | none =>
      simp only [emit, hx0, Bool.false_eq_true, if_false, List.cons.injEq, Tok.mk.injEq, and_true] at h
      simp only [goodCode, decide_eq_true_eq] at g1
      omega
  | none =>
    cases c2 with
    | some k2 =>
      simp only [emit, hx0, Bool.false_eq_true, if_false, List.cons.injEq, Tok.mk.injEq, and_true] at h
      simp only [goodCode, decide_eq_true_eq] at g2
      omega
    | none =>
      simp only [emit, hx0, Bool.false_eq_true, if_false, List.cons.injEq, Tok.mk.injEq, and_true] at h
      exact ⟨rfl, h.2.2⟩

theorem take_cons_pos (n : Nat) (c : UInt8) (t : Bytes) (h : 0 < n) : (c :: t).take n = c :: t.take (n - 1) := by
  cases n with
  | zero => omega
  | succ k => simp

/-- Two rule choices of one start condition that are returned as the same token are the same choice. -/
theorem tok_inj (st : St) (bol1 bol2 : Bool) (c : UInt8) (s1 s2 : Bytes) (hc : c ≠ 0)
    (h : emit (pick (rulesOf st) bol1 (c :: s1)).1 ((c :: s1).take (pick (rulesOf st) bol1 (c :: s1)).2) =
         emit (pick (rulesOf st) bol2 (c :: s2)).1 ((c :: s2).take (pick (rulesOf st) bol2 (c :: s2)).2)) :
    pick (rulesOf st) bol1 (c :: s1) = pick (rulesOf st) bol2 (c :: s2) := by
  have p1 := pick_pos (rulesOf st) (rulesOf_hasAny st) bol1 c s1
  have p2 := pick_pos (rulesOf st) (rulesOf_hasAny st) bol2 c s2
  have l1 := pick_le (rulesOf st) bol1 (c :: s1)
  have l2 := pick_le (rulesOf st) bol2 (c :: s2)
  have g1 := pick_code_good (rulesOf st) (rule_codes_good st) bol1 (c :: s1)
  have g2 := pick_code_good (rulesOf st) (rule_codes_good st) bol2 (c :: s2)
  generalize pick (rulesOf st) bol1 (c :: s1) = m1 at *
  generalize pick (rulesOf st) bol2 (c :: s2) = m2 at *
  rw [take_cons_pos _ _ _ (by omega), take_cons_pos _ _ _ (by omega)] at h
  obtain ⟨hcode, htext⟩ := emit_inj _ _ c _ _ hc g1 g2 h
  have hlen := congrArg List.length htext
  simp only [List.length_take, List.length_cons] at hlen l1 l2
  have : m1.2 = m2.2 := by omega
  exact Prod.ext hcode this

theorem noNul_cons (c : UInt8) (t : Bytes) (h : noNul (c :: t) = true) : c ≠ 0 ∧ noNul t = true := by
  simp only [noNul, List.all_cons, Bool.and_eq_true] at h
  exact ⟨by simpa using h.1, by simpa [noNul] using h.2⟩

theorem noNul_drop (s : Bytes) (n : Nat) (h : noNul s = true) : noNul (s.drop n) = true := by
  simp only [noNul, List.all_eq_true] at h ⊢
  intro x hx
  exact h x (List.mem_of_mem_drop hx)

/-- When `noCross` fails, the whole-text scan of `r ++ b` cannot begin with the tokens of `r` alone. -/
theorem lex_append_conv (b : Bytes) : ∀ (k : Nat) (r : Bytes), r.length ≤ k → noNul r = true → ∀ (st : St) (bol : Bool) (X : List Tok),
    noCross b k st bol r = false → (lex st bol (r ++ b)).1 ≠ (lex st bol r).1 ++ X := by
  intro k
  induction k with
  | zero =>
    intro r hr _ st bol X hnc
    simp [noCross] at hnc
  | succ k ih =>
    intro r hr hnn st bol X hnc
    cases r with
    | nil => simp [noCross] at hnc
    | cons c t =>
      obtain ⟨hc0, hnt⟩ := noNul_cons c t hnn
      have h1 := pick_pos (rulesOf st) (rulesOf_hasAny st) bol c t
      have h1' := pick_pos (rulesOf st) (rulesOf_hasAny st) bol c (t ++ b)
      have h2 := pick_le (rulesOf st) bol (c :: t)
      intro heq
      simp only [List.cons_append] at heq
      rw [lex_cons st bol c (t ++ b), lex_cons st bol c t] at heq
      have hm0 : ¬ (pick (rulesOf st) bol (c :: t)).2 = 0 := by omega
      have hm0' : ¬ (pick (rulesOf st) bol (c :: (t ++ b))).2 = 0 := by omega
      simp only [hm0, hm0', if_false] at heq
      have ⟨T', hT'⟩ : ∃ T', emit (pick (rulesOf st) bol (c :: (t ++ b))).1
          ((c :: (t ++ b)).take (pick (rulesOf st) bol (c :: (t ++ b))).2) = [T'] := by
        rw [take_cons_pos _ c (t ++ b) (by omega)]; exact emit_single _ c _ hc0
      have ⟨T, hT⟩ : ∃ T, emit (pick (rulesOf st) bol (c :: t)).1 ((c :: t).take (pick (rulesOf st) bol (c :: t)).2) = [T] := by
        rw [take_cons_pos _ c t (by omega)]; exact emit_single _ c _ hc0
      have heq2 := heq
      rw [hT', hT] at heq2
      simp only [List.cons_append, List.nil_append, List.cons.injEq] at heq2
      obtain ⟨hTT, hrest⟩ := heq2
      -- the first tokens are equal, hence the rule choices are
      have hpick : pick (rulesOf st) bol (c :: (t ++ b)) = pick (rulesOf st) bol (c :: t) := by
        apply tok_inj st bol bol c (t ++ b) t hc0
        rw [hT', hT, hTT]
      simp only [noCross, List.cons_append, hpick, beq_self_eq_true, Bool.true_and, Bool.or_eq_false_iff] at hnc
      obtain ⟨_, hnc'⟩ := hnc
      rw [hpick] at hrest
      generalize hm : pick (rulesOf st) bol (c :: t) = m at h1 h2 hrest hnc'
      have e3 : (c :: (t ++ b)).drop m.2 = (c :: t).drop m.2 ++ b := by
        rw [← List.cons_append, List.drop_append_of_le_length h2]
      have e1 : (c :: (t ++ b)).take m.2 = (c :: t).take m.2 := by
        rw [← List.cons_append, List.take_append_of_le_length h2]
      rw [e3, e1] at hrest
      have hl : ((c :: t).drop m.2).length ≤ k := by
        simp only [List.length_drop, List.length_cons]
        simp only [List.length_cons] at hr
        omega
      exact ih _ hl (noNul_drop _ _ hnn) _ _ X hnc' hrest

/-- **The converse.** If cutting `a | b` does not change the token sequence, the cut is a safe split. -/
theorem safeSplit_complete (a b : Bytes) (ha : a ≠ []) (na : noNul a = true) (nb : noNul b = true)
    (h : lexChunks [a, b] = lexWhole (a ++ b)) : safeSplit a b = true := by
  by_cases hbe : b = []
  · subst hbe; simp [safeSplit, na, nb]
  · have hai : a.isEmpty = false := by cases a with | nil => exact absurd rfl ha | cons _ _ => rfl
    rw [lexChunks_pair a b ha hbe na nb] at h
    unfold lexWhole at h
    cases hnc : noCross b a.length .initial true a with
    | false => exact absurd h.symm (lex_append_conv b a.length a (Nat.le_refl _) na .initial true _ hnc)
    | true =>
      rw [lex_append b a.length a (Nat.le_refl _) ha .initial true hnc] at h
      have h' := List.append_cancel_left h
      simp only [safeSplit, na, nb, hai, hnc, Bool.true_and, Bool.not_false, Bool.or_eq_true, List.isEmpty_iff, bolOk, beq_iff_eq]
      right
      cases hE : endsWithNl a with
      | true => left; rfl
      | false =>
        right
        rw [hE] at h'
        cases b with
        | nil => exact absurd rfl hbe
        | cons x u =>
          obtain ⟨hx0, _⟩ := noNul_cons x u nb
          generalize (lex .initial true a).2 = stA at h' ⊢
          rw [lex_cons stA true x u, lex_cons stA false x u] at h'
          have p1 := pick_pos (rulesOf stA) (rulesOf_hasAny stA) true x u
          have p2 := pick_pos (rulesOf stA) (rulesOf_hasAny stA) false x u
          have q1 : ¬ (pick (rulesOf stA) true (x :: u)).2 = 0 := by omega
          have q2 : ¬ (pick (rulesOf stA) false (x :: u)).2 = 0 := by omega
          simp only [q1, q2, if_false] at h'
          apply tok_inj stA true false x u u hx0
          rw [take_cons_pos _ x u (by omega), take_cons_pos _ x u (by omega)] at h' ⊢
          obtain ⟨T1, hT1⟩ := emit_single (pick (rulesOf stA) true (x :: u)).1 x (u.take ((pick (rulesOf stA) true (x :: u)).2 - 1)) hx0
          obtain ⟨T2, hT2⟩ := emit_single (pick (rulesOf stA) false (x :: u)).1 x (u.take ((pick (rulesOf stA) false (x :: u)).2 - 1)) hx0
          rw [hT1, hT2] at h' ⊢
          simp only [List.cons_append, List.nil_append, List.cons.injEq] at h'
          rw [h'.1]

theorem safeSplit_iff (a b : Bytes) (ha : a ≠ []) (na : noNul a = true) (nb : noNul b = true) :
    lexChunks [a, b] = lexWhole (a ++ b) ↔ safeSplit a b = true :=
  ⟨safeSplit_complete a b ha na nb, safeSplit_sound a b⟩


/-! ## any number of cuts -/

theorem lexChunksFrom_safe : ∀ (frags : List Bytes) (st : St), safeCutsFrom st frags = true →
    lexChunksFrom st frags = (lex st true frags.flatten).1 := by
  intro frags
  induction frags with
  | nil => intro st _; rfl
  | cons a rest ih =>
    intro st h
    cases rest with
    | nil =>
      simp only [safeCutsFrom] at h
      cases a with
      | nil => rfl
      | cons c t => simp only [lexChunksFrom, truncNul_noNul _ h, List.flatten_cons, List.flatten_nil, List.append_nil]
    | cons b cs =>
      simp only [safeCutsFrom, Bool.and_eq_true, Bool.not_eq_true', List.isEmpty_eq_false_iff] at h
      obtain ⟨⟨⟨⟨na, hane⟩, hnc⟩, hbol⟩, hrec⟩ := h
      have ih' := ih _ hrec
      cases a with
      | nil => exact absurd rfl hane
      | cons c t =>
        simp only [lexChunksFrom, truncNul_noNul _ na, ih']
        rw [List.flatten_cons (l := c :: t)]
        generalize (b :: cs).flatten = R at hnc hbol
        rw [lex_append R (c :: t).length (c :: t) (Nat.le_refl _) hane st true hnc]
        simp only [bolOkFrom, Bool.or_eq_true, beq_iff_eq] at hbol
        rcases hbol with hnl | hpk
        · rw [hnl]
        · cases hE : endsWithNl (c :: t) with
          | true => rfl
          | false => rw [lex_bol_irrelevant _ _ hpk]

end BlocV.Lex
