/-
  C18, file: histories in which every switch of direction goes through a seek (`Disciplined`, Model/Mod/FileAbs.lean) never
  reach the undefined region of C11 7.21.5.3 p7 — the one-step lemma `step_disciplined`. The property theorem built on it is
  `file_refines_spec_repositioned` (Proofs/C18F.lean).
-/
import BlocV.Proofs.Lemmas.FileSeq

namespace BlocV.Proofs.FileDir
open BlocV.Mod BlocV.Mod.File

theorem writeH_last (w : World) (f : OFile) (d : Bytes) :
    ∀ f', (writeH w f d).1.h.file = some f' → w.h.file = some f → f'.last = f.last ∨ f'.last = .output := by
  intro f' h hf
  unfold writeH at h
  simp only [] at h
  split at h
  · rw [hf] at h; injection h with h; subst h; exact Or.inl rfl
  · simp only [Option.some.injEq] at h
    subst h
    simp only []
    split
    · exact Or.inl rfl
    · exact Or.inr rfl

theorem readH_last (w : World) (f : OFile) (str : Bool) (n : Int64) :
    ∀ f', (readH w f str n).1.h.file = some f' → w.h.file = some f →
      f'.last = f.last ∨ f'.last = .inputEof ∨ f'.last = .input := by
  intro f' h hf
  unfold readH at h
  split at h
  · simp only [Option.some.injEq] at h
    subst h
    simp only []
    split
    · exact Or.inl rfl
    · split
      · exact Or.inr (Or.inl rfl)
      · exact Or.inr (Or.inr rfl)
  · rw [hf] at h; injection h with h; subst h; exact Or.inl rfl

theorem readlnH_last (w : World) (f : OFile) :
    ∀ f', (readlnH w f).1.h.file = some f' → f'.last = f.last ∨ f'.last = .inputEof ∨ f'.last = .input := by
  intro f' h
  unfold readlnH at h
  cases hrd : f.rd with
  | false =>
    simp [hrd] at h
    subst h
    exact Or.inl rfl
  | true =>
    simp only [hrd, if_true] at h
    generalize readlnScan (List.drop f.pos ((w.fs.get f.path).getD [])) 0 [] 0 = t at h
    obtain ⟨line, k, e⟩ := t
    have hl : f'.last = if e = .eof then .inputEof else .input := by
      simp only [] at h
      repeat' split at h
      all_goals (simp at h; subst h; simp_all)
    rw [hl]
    by_cases he : e = .eof <;> simp [he]

theorem seekH_last (w : World) (f : OFile) (wh : Spec.File.Whence) (o : Int64) :
    ∀ f', (seekH w f wh o).1.h.file = some f' → w.h.file = some f → f'.last = f.last ∨ f'.last = .none := by
  intro f' h hf
  unfold seekH at h
  simp only [] at h
  split at h
  · rw [hf] at h; injection h with h; subst h; exact Or.inl rfl
  · simp only [Option.some.injEq] at h
    subst h
    exact Or.inr rfl

theorem seekSet_inRange_last (w : World) (f : OFile) (o : Int64) (hr : inRange w.fs.maxOff o = true) :
    ∀ f', (seekH w f .set o).1.h.file = some f' → f'.last = .none := by
  intro f' h
  unfold seekH at h
  simp only [inRange, Bool.and_eq_true, decide_eq_true_eq] at hr
  have hs : Spec.File.sseek w.fs.maxOff ⟨(w.fs.get f.path).getD [], f.pos, f.app⟩ .set o.toInt
      = some { (⟨(w.fs.get f.path).getD [], f.pos, f.app⟩ : Spec.File.SFile) with pos := (0 + o.toInt).toNat } := by
    unfold Spec.File.sseek
    simp only []
    rw [if_neg]
    intro hc
    rcases hc with hc | hc
    · omega
    · have : (o.toInt.toNat : Int) = o.toInt := Int.toNat_of_nonneg hr.1
      omega
  simp only [hs] at h
  simp only [Option.some.injEq] at h
  subst h
  rfl

theorem approx_keep {p : Pend} {l l' : LastIO} (ha : Approx p l) (h : l' = l) : Approx p l' := by
  subst h; exact ha

theorem approx_none (p : Pend) {l : LastIO} (h : l = .none) : Approx p l := by
  subst h; exact And.intro (fun h2 => nomatch h2) (fun h2 => nomatch h2)

theorem approx_eof (p : Pend) {l : LastIO} (h : l = .inputEof) : Approx p l := by
  subst h; exact And.intro (fun h2 => nomatch h2) (fun h2 => nomatch h2)

/-- ONE call of a disciplined history: no `undefinedSeq`, and `Pend` keeps describing the stream's own record -/
theorem step_disciplined (w : World) (f : OFile) (op : Op) (p : Pend) (hf : w.h.file = some f) (hop : StreamOp op)
    (ha : Approx p f.last) (hal : p.allows op = true) :
    (step w op).2 ≠ .undefinedSeq
    ∧ ∀ f', (step w op).1.h.file = some f' → Approx (p.next w.fs.maxOff op) f'.last := by
  -- the two facts the discipline gives
  have wr_ok : p ≠ .inp → ∀ d, badOutput f d = false := by
    intro hp d
    have : f.last ≠ .input := fun h => hp (ha.2 h)
    simp [badOutput, this]
  have rd_ok : p ≠ .out → badInput f = false := by
    intro hp
    have : f.last ≠ .output := fun h => hp (ha.1 h)
    simp [badInput, this]
  -- after a write: the record is what it was (not `input`) or `output`
  have after_write : p ≠ .inp → ∀ f' : OFile, (f'.last = f.last ∨ f'.last = .output) → Approx .out f'.last := by
    intro hp f' h
    rcases h with h | h
    · refine ⟨fun _ => rfl, fun h2 => ?_⟩
      rw [h] at h2; exact absurd (ha.2 h2) hp
    · refine ⟨fun _ => rfl, fun h2 => ?_⟩
      rw [h] at h2; exact nomatch h2
  have after_read : p ≠ .out → ∀ f' : OFile, (f'.last = f.last ∨ f'.last = .inputEof ∨ f'.last = .input) → Approx .inp f'.last := by
    intro hp f' h
    rcases h with h | h | h
    · refine ⟨fun h2 => ?_, fun _ => rfl⟩
      rw [h] at h2; exact absurd (ha.1 h2) hp
    · refine ⟨fun h2 => ?_, fun _ => rfl⟩
      rw [h] at h2; exact nomatch h2
    · refine ⟨fun h2 => ?_, fun _ => rfl⟩
      rw [h] at h2; exact nomatch h2
  have after_seek : ∀ f' : OFile, (f'.last = f.last ∨ f'.last = .none) → Approx p f'.last := by
    intro f' h
    rcases h with h | h
    · exact approx_keep ha h
    · exact approx_none p h
  cases op with
  | writeS s =>
    cases s with
    | none => simp [StreamOp] at hop
    | some d =>
      have hp : p ≠ .inp := by simpa [Pend.allows] using hal
      have hbo := wr_ok hp d
      cases hw : w.h.w with
      | false =>
        have e : step w (.writeS (some d)) = (w, .err) := by simp [step, hw]
        rw [e]
        refine ⟨by simp, fun f' h' => ?_⟩
        rw [hf] at h'; injection h' with h'; subst h'
        exact after_write hp _ (Or.inl rfl)
      | true =>
        have e : step w (.writeS (some d)) = ((writeH w f d).1, .int (writeH w f d).2) := by simp [step, hw, hf, hbo]
        rw [e]
        exact ⟨by simp, fun f' h' => after_write hp f' (writeH_last w f d f' h' hf)⟩
  | writeB s =>
    cases s with
    | none => simp [StreamOp] at hop
    | some d =>
      have hp : p ≠ .inp := by simpa [Pend.allows] using hal
      have hbo := wr_ok hp d
      cases hw : w.h.w with
      | false =>
        have e : step w (.writeB (some d)) = (w, .err) := by simp [step, hw]
        rw [e]
        refine ⟨by simp, fun f' h' => ?_⟩
        rw [hf] at h'; injection h' with h'; subst h'
        exact after_write hp _ (Or.inl rfl)
      | true =>
        have e : step w (.writeB (some d)) = ((writeH w f d).1, .int (writeH w f d).2) := by simp [step, hw, hf, hbo]
        rw [e]
        exact ⟨by simp, fun f' h' => after_write hp f' (writeH_last w f d f' h' hf)⟩
  | readS n =>
    cases n with
    | none => simp [StreamOp] at hop
    | some l =>
      have hp : p ≠ .out := by simpa [Pend.allows] using hal
      have hbi := rd_ok hp
      cases hr : w.h.r with
      | false =>
        have e : step w (.readS (some l)) = (w, .err) := by simp [step, hr]
        rw [e]
        refine ⟨by simp, fun f' h' => ?_⟩
        rw [hf] at h'; injection h' with h'; subst h'
        exact after_read hp _ (Or.inl rfl)
      | true =>
        have e : step w (.readS (some l)) = readH w f true l := by simp [step, hr, hf, hbi]
        rw [e]
        exact ⟨readH_no_undef w f true l, fun f' h' => after_read hp f' (readH_last w f true l f' h' hf)⟩
  | readB n =>
    cases n with
    | none => simp [StreamOp] at hop
    | some l =>
      have hp : p ≠ .out := by simpa [Pend.allows] using hal
      have hbi := rd_ok hp
      cases hr : w.h.r with
      | false =>
        have e : step w (.readB (some l)) = (w, .err) := by simp [step, hr]
        rw [e]
        refine ⟨by simp, fun f' h' => ?_⟩
        rw [hf] at h'; injection h' with h'; subst h'
        exact after_read hp _ (Or.inl rfl)
      | true =>
        have e : step w (.readB (some l)) = readH w f false l := by simp [step, hr, hf, hbi]
        rw [e]
        exact ⟨readH_no_undef w f false l, fun f' h' => after_read hp f' (readH_last w f false l f' h' hf)⟩
  | readln =>
    have hp : p ≠ .out := by simpa [Pend.allows] using hal
    have hbi := rd_ok hp
    cases hr : w.h.r with
    | false =>
      have e : step w .readln = (w, .err) := by simp [step, hr]
      rw [e]
      refine ⟨by simp, fun f' h' => ?_⟩
      rw [hf] at h'; injection h' with h'; subst h'
      exact after_read hp _ (Or.inl rfl)
    | true =>
      have e : step w .readln = readlnH w f := by simp [step, hr, hf, hbi]
      rw [e]
      exact ⟨readlnH_no_undef w f, fun f' h' => after_read hp f' (readlnH_last w f f' h')⟩
  | flush =>
    have e : step w .flush
        = ({ w with h := { w.h with file := some { f with last := if f.last = .output then .none else f.last } } }, .bool true) := by
      simp [step, hf]
    rw [e]
    refine ⟨by simp, fun f' h' => ?_⟩
    simp only [Option.some.injEq] at h'
    subst h'
    simp only [Pend.next]
    by_cases hl : f.last = .output
    · have : p = .out := ha.1 hl
      simp only [hl, this, if_true]
      exact approx_none _ rfl
    · simp only [hl, if_false]
      by_cases hpo : p = .out
      · simp only [hpo, if_true]
        refine ⟨fun h2 => absurd h2 hl, fun h2 => ?_⟩
        have := ha.2 h2; rw [hpo] at this; exact nomatch this
      · simp only [hpo, if_false]; exact ha
  | seekSet n =>
    cases n with
    | none => simp [StreamOp] at hop
    | some o =>
      have e : step w (.seekSet (some o)) = seekH w f .set o := by simp [step, hf]
      rw [e]
      refine ⟨seekH_no_undef w f .set o, fun f' h' => ?_⟩
      simp only [Pend.next]
      by_cases hr : inRange w.fs.maxOff o = true
      · have := seekSet_inRange_last w f o hr f' h'
        simp only [hr, if_true]
        exact approx_none _ this
      · simp only [hr, if_false]
        exact after_seek f' (seekH_last w f .set o f' h' hf)
  | seekCur n =>
    cases n with
    | none => simp [StreamOp] at hop
    | some o =>
      have e : step w (.seekCur (some o)) = seekH w f .cur o := by simp [step, hf]
      rw [e]
      exact ⟨seekH_no_undef w f .cur o, fun f' h' => after_seek f' (seekH_last w f .cur o f' h' hf)⟩
  | seekEnd n =>
    cases n with
    | none => simp [StreamOp] at hop
    | some o =>
      have e : step w (.seekEnd (some o)) = seekH w f .end_ o := by simp [step, hf]
      rw [e]
      exact ⟨seekH_no_undef w f .end_ o, fun f' h' => after_seek f' (seekH_last w f .end_ o f' h' hf)⟩
  | position =>
    have e : step w .position = (w, .int f.pos) := by simp [step, hf]
    rw [e]
    refine ⟨by simp, fun f' h' => ?_⟩
    rw [hf] at h'; injection h' with h'; subst h'
    exact ha
  | _ => simp [StreamOp] at hop

open BlocV.Spec.File (SStream SFile SOp SRes sstep srun sseek swrite sread readAt writeAt) in
theorem sseek_set (m : Nat) (f : SFile) (k : Nat) (hk : k ≤ m) : sseek m f .set (k : Int) = some { f with pos := k } := by
  unfold sseek
  simp only []
  rw [if_neg (by omega)]
  simp

open BlocV.Spec.File (SStream SFile SOp SRes sstep srun sseek swrite sread readAt writeAt) in
/-- the specification's own round trip on an update stream: position, write, position back, read -/
theorem srun_update_roundtrip (m : Nat) (s : SStream) (k : Nat) (d : Bytes) (hk : k ≤ m) (hd : d ≠ [])
    (h1 : s.canRead = true) (h2 : s.canWrite = true) (h3 : s.mayRead = true) (h4 : s.mayWrite = true) (ha : s.f.append = false) :
    (srun m s [.seek .set k, .write d, .seek .set k, .read d.length]).2 = [.errno 0, .count d.length, .errno 0, .data d] := by
  have hlen : ¬ ((d.length : Int) ≤ 0) := by
    have : 0 < d.length := List.length_pos_iff.mpr hd
    omega
  simp only [srun, sstep, sseek_set _ _ _ hk, h1, h2, h3, h4, Bool.not_true, Bool.false_eq_true, if_false, or_false, hlen, swrite, hd, ha,
    sread, Int.toNat_natCast, readAt_writeAt]

end BlocV.Proofs.FileDir
