/-
  Helper lemmas about the statement-level interpreter model (Model/Interp.lean), used by
  Proofs/C06.lean, C07.lean, C08.lean. (Helper lemmas only — property theorems are in Proofs/Cnn.lean.)

  Part 1: a small relational Hoare framework for `EvalM`: `Pres R x` = "whatever the outcome of `x`
  (value, BLOC error, hazard, unmodelled, out of fuel), the state after is `R`-related to the state
  before", for a reflexive-transitive `R`. Every built-in of Model/Builtins.lean and the `tab`/`tup`
  constructors of Model/Members.lean — which are generic in the monad and touch the state only by
  forcing their argument thunks — preserve every such `R` that their thunks preserve.
  Part 2: the relation `SameIters` (the stack of running `forall` loops is the same up to the private
  table copies) is preserved by all eight functions of the interpreter's mutual block.
-/
import BlocV.Model.Interp
namespace BlocV.Lemmas
open BlocV

/-! ## Part 0: computing with `EvalM` — rewrite rules for *applied* computations (so that `simp only`
never has to unfold the monad operations under a binder) -/

theorem pure_app {α} (a : α) (s : St) : (pure a : EvalM α) s = (.ok a, s) := rfl
theorem bind_app {α β} (x : EvalM α) (f : α → EvalM β) (s : St) :
    (x >>= f) s = (match x s with
      | (.ok a, s') => f a s'
      | (.err c a, s') => (.err c a, s')
      | (.haz h, s') => (.haz h, s')
      | (.unmodelled, s') => (.unmodelled, s')) := rfl
theorem getSt_app (s : St) : getSt s = (.ok s, s) := rfl
theorem modifySt_app (f : St → St) (s : St) : modifySt f s = (.ok (), f s) := rfl
theorem failE_app {α} (c : Nat) (a : Bytes) (s : St) : (failE c a : EvalM α) s = (.err c a, s) := rfl
theorem oof_app {α} (s : St) : (oof : EvalM α) s = (.err oofCode [], s) := rfl
theorem liftM_app {α} (r : Res α) (s : St) : (liftM r : EvalM α) s = (r, s) := rfl
theorem evalM_ite_app {α} (c : Prop) [Decidable c] (x y : EvalM α) (s : St) :
    (if c then x else y) s = if c then x s else y s := by split <;> rfl

/-- a literal evaluates to itself and leaves the state alone -/
theorem eval_lit (funcs : List Func) (depth fuel : Nat) (v : Val) (s : St) :
    eval funcs depth (fuel + 1) (.lit v) s = (.ok v, s) := by simp only [eval, pure_app]


/-- `callFunc` once the function is found, the depth is below the limit and the arguments are evaluated -/
theorem callFunc_unfold (funcs : List Func) (depth fuel : Nat) (name : String) (args : List Expr)
    (s s1 : St) (f : Func) (vals : List Val)
    (hf : funcs.find? (fun f => f.name == name && f.params.length == args.length) = some f)
    (hd : (depth == Gen.RECURSION_LIMIT) = false)
    (ha : evalArgs funcs depth fuel args s = (.ok vals, s1)) :
    callFunc funcs depth (fuel + 1) name args s =
      finishCall s1 (execBlock funcs (depth + 1) fuel f.body f.catches (calleeInit f vals s1)) := by
  simp [callFunc, hf, hd, bind, ha]

/-- `callFunc` when an argument fails: the error propagates from the state the failing argument left -/
theorem callFunc_arg_error (funcs : List Func) (depth fuel : Nat) (name : String) (args : List Expr)
    (s s1 : St) (f : Func) (c : Nat) (a : Bytes)
    (hf : funcs.find? (fun f => f.name == name && f.params.length == args.length) = some f)
    (hd : (depth == Gen.RECURSION_LIMIT) = false)
    (ha : evalArgs funcs depth fuel args s = (.err c a, s1)) :
    callFunc funcs depth (fuel + 1) name args s = (.err c a, s1) := by
  simp [callFunc, hf, hd, bind, ha]

theorem handlerExit_fst (o : LastErr) (r : Res Flow × St) : (handlerExit o r).1 = r.1 := by
  unfold handlerExit; split <;> rfl

theorem handlerExit_ok (o : LastErr) (fl : Flow) (s : St) : handlerExit o (.ok fl, s) = (.ok fl, { s with lastErr := o }) := rfl

theorem handlerExit_err (o : LastErr) (c : Nat) (a : Bytes) (s : St) : handlerExit o (.err c a, s) = (.err c a, s) := rfl

/-- the built-in `error` reads the context's record and leaves the state alone -/
theorem eval_error (funcs : List Func) (depth fuel : Nat) (s : St) :
    eval funcs depth (fuel + 1) .errorE s = (errorTuple s.lastErr, s) := by
  simp only [eval, bind_app, getSt_app, liftM_app]

theorem evalArgs_nil (funcs : List Func) (d k : Nat) (s : St) : evalArgs funcs d (k + 1) [] s = (.ok [], s) := by
  simp only [evalArgs, pure_app]

/-- the state in which a statement's own work starts: one unit of the work budget is consumed -/
def tick (s : St) : St := { s with budget := s.budget - 1 }

/-! ### small facts about the `forall` helpers of Model/Members.lean -/

theorem forallTrace_fuel (desc : Bool) (n : Nat) : ∀ (k : Nat) (x : Option Nat), (forallTrace desc n k x).length < k →
    ∀ m, forallTrace desc n (k + m) x = forallTrace desc n k x := by
  intro k
  induction k with
  | zero => intro x h; simp at h
  | succ k ih =>
    intro x h m
    cases x with
    | none => rw [show k + 1 + m = (k + m) + 1 by omega]; rfl
    | some i =>
      rw [show k + 1 + m = (k + m) + 1 by omega]
      simp only [forallTrace, List.length_cons] at h ⊢
      rw [ih _ (by omega)]

theorem find_none_of_any_false (l : List Iter) (n : String) (h : l.any (·.it == n) = false) :
    l.find? (·.it == n) = none := by
  induction l with
  | nil => rfl
  | cons x xs ih =>
    simp only [List.any_cons, Bool.or_eq_false_iff] at h
    simp [List.find?, h.1, ih h.2]

theorem listPut_eq_set {α} (l : List α) (n : Nat) (x : α) (h : n < l.length) : listPut l n x = l.set n x := by
  unfold listPut; rw [List.set_eq_take_append_cons_drop]; simp [h]

/-- `listPut` replaces exactly position `n`. -/
theorem getElem?_listPut {α} (l : List α) (n j : Nat) (x : α) (h : n < l.length) :
    (listPut l n x)[j]? = if j = n then some x else l[j]? := by
  rw [listPut_eq_set l n x h, List.getElem?_set]
  by_cases hj : n = j
  · subst hj; simp [h]
  · have : ¬ j = n := fun e => hj e.symm
    simp [hj, this]


/-! ## Part 1: relational invariants -/

structure StRel (R : St → St → Prop) : Prop where
  refl : ∀ s, R s s
  trans : ∀ {a b c}, R a b → R b c → R a c

structure Pres (R : St → St → Prop) {α} (x : EvalM α) : Prop where
  h : ∀ s, R s (x s).2

variable {R : St → St → Prop}

theorem Pres.pure (hR : StRel R) {α} (a : α) : Pres R (pure a : EvalM α) := ⟨fun s => hR.refl s⟩

theorem Pres.bind (hR : StRel R) {α β} {x : EvalM α} {f : α → EvalM β}
    (hx : Pres R x) (hf : ∀ a, Pres R (f a)) : Pres R (x >>= f) := by
  constructor
  intro s
  show R s ((match x s with
    | (.ok a, s') => f a s'
    | (.err c a, s') => (.err c a, s')
    | (.haz h, s') => (.haz h, s')
    | (.unmodelled, s') => (.unmodelled, s')) : Res β × St).2
  have h1 := hx.h s
  cases hxs : x s with
  | mk r s' =>
    rw [hxs] at h1
    cases r with
    | ok a => exact hR.trans h1 ((hf a).h s')
    | err c a => exact h1
    | haz h => exact h1
    | unmodelled => exact h1

theorem Pres.lift (hR : StRel R) {α} (r : Res α) : Pres R (liftM r : EvalM α) := ⟨fun s => hR.refl s⟩
theorem Pres.mlift (hR : StRel R) {α} (r : Res α) : Pres R (monadLift r : EvalM α) := ⟨fun s => hR.refl s⟩
theorem Pres.liftR (hR : StRel R) {α} (r : Res α) : Pres R (liftR r : EvalM α) := ⟨fun s => hR.refl s⟩
theorem Pres.argTypeErr (hR : StRel R) {α} : Pres R (argTypeErr : EvalM α) := ⟨fun s => hR.refl s⟩
theorem Pres.rerr (hR : StRel R) {α} (c : Nat) : Pres R (rerr c : EvalM α) := ⟨fun s => hR.refl s⟩

theorem Pres.getSt (hR : StRel R) : Pres R getSt := ⟨fun s => hR.refl s⟩
theorem Pres.failE (hR : StRel R) {α} (c : Nat) (a : Bytes) : Pres R (failE c a : EvalM α) := ⟨fun s => hR.refl s⟩
theorem Pres.oof (hR : StRel R) {α} : Pres R (oof : EvalM α) := ⟨fun s => hR.refl s⟩
theorem Pres.modifySt {f : St → St} (hf : ∀ s, R s (f s)) : Pres R (modifySt f) := ⟨hf⟩
theorem Pres.weaken {R' : St → St → Prop} (hsub : ∀ a b, R a b → R' a b) {α} {x : EvalM α} (hx : Pres R x) : Pres R' x :=
  ⟨fun s => hsub _ _ (hx.h s)⟩

/-- the argument thunks of a built-in call -/
def PArgs (R : St → St → Prop) (args : List (EvalM Val)) : Prop := ∀ t ∈ args, Pres R t

theorem PArgs.map {α} (f : α → EvalM Val) (l : List α) (h : ∀ a, Pres R (f a)) : PArgs R (l.map f) := by
  intro t ht
  simp only [List.mem_map] at ht
  obtain ⟨a, _, rfl⟩ := ht
  exact h a


theorem Pres.ite (c : Prop) [Decidable c] {α} {x y : EvalM α} (hx : Pres R x) (hy : Pres R y) : Pres R (if c then x else y) := by
  split <;> assumption

macro "pres_step" h:ident hR:ident : tactic => `(tactic| first
  | exact Pres.pure $hR _
  | exact Pres.lift $hR _
  | exact Pres.mlift $hR _
  | exact Pres.liftR $hR _
  | exact Pres.argTypeErr $hR
  | exact Pres.rerr $hR _
  | (apply $h <;> (simp; done))
  | apply Pres.bind $hR
  | intro _
  | split
  | dsimp only)


theorem tabFill_pres (hR : StRel R) (t1 : EvalM Val) (ht : Pres R t1) (ty : Ty) : ∀ k acc, Pres R (tabFill (m := EvalM) t1 ty k acc) := by
  intro k
  induction k with
  | zero => intro acc; exact Pres.pure hR _
  | succ k ih =>
    intro acc
    unfold tabFill
    apply Pres.bind hR ht
    intro a
    split
    · exact Pres.rerr hR _
    · exact ih _

theorem tupItems_pres (hR : StRel R) : ∀ (args : List (EvalM Val)), PArgs R args → ∀ acc, Pres R (tupItems (m := EvalM) args acc) := by
  intro args
  induction args with
  | nil => intro _ acc; exact Pres.pure hR _
  | cons t ts ih =>
    intro h acc
    unfold tupItems
    apply Pres.bind hR (h _ (by simp))
    intro v
    split
    · exact Pres.rerr hR _
    · split   -- C09: run-time refusal of a tuple / table item (4db32b5)
      · exact Pres.rerr hR _
      · exact ih (fun x hx => h x (by simp [hx])) _

theorem substrLike_pres (hR : StRel R) a b c d (args : List (EvalM Val)) (h : PArgs R args) :
    Pres R (substrLike (m := EvalM) a b c d args) := by
  unfold substrLike
  repeat (first | pres_step h hR)

theorem lrSubstr_pres (hR : StRel R) l (args : List (EvalM Val)) (h : PArgs R args) :
    Pres R (lrSubstr (m := EvalM) l args) := by
  unfold lrSubstr
  repeat (first | pres_step h hR)

theorem biStrpos_pres (hR : StRel R)  (args : List (EvalM Val)) (h : PArgs R args) :
    Pres R (biStrpos (m := EvalM)  args) := by
  unfold biStrpos
  repeat (first | pres_step h hR)

theorem biReplace_pres (hR : StRel R)  (args : List (EvalM Val)) (h : PArgs R args) :
    Pres R (biReplace (m := EvalM)  args) := by
  unfold biReplace
  repeat (first | pres_step h hR)

theorem strMap_pres (hR : StRel R) f (args : List (EvalM Val)) (h : PArgs R args) :
    Pres R (strMap (m := EvalM) f args) := by
  unfold strMap
  repeat (first | pres_step h hR)

theorem biStrlen_pres (hR : StRel R)  (args : List (EvalM Val)) (h : PArgs R args) :
    Pres R (biStrlen (m := EvalM)  args) := by
  unfold biStrlen
  repeat (first | pres_step h hR)

theorem biTokenize_pres (hR : StRel R)  (args : List (EvalM Val)) (h : PArgs R args) :
    Pres R (biTokenize (m := EvalM)  args) := by
  unfold biTokenize
  repeat (first | pres_step h hR)

theorem biHex_pres (hR : StRel R)  (args : List (EvalM Val)) (h : PArgs R args) :
    Pres R (biHex (m := EvalM)  args) := by
  unfold biHex
  repeat (first | pres_step h hR)

theorem biHash_pres (hR : StRel R)  (args : List (EvalM Val)) (h : PArgs R args) :
    Pres R (biHash (m := EvalM)  args) := by
  unfold biHash
  repeat (first | pres_step h hR)

theorem biChr_pres (hR : StRel R)  (args : List (EvalM Val)) (h : PArgs R args) :
    Pres R (biChr (m := EvalM)  args) := by
  unfold biChr
  repeat (first | pres_step h hR)

theorem biRaw_pres (hR : StRel R)  (args : List (EvalM Val)) (h : PArgs R args) :
    Pres R (biRaw (m := EvalM)  args) := by
  unfold biRaw
  repeat (first | pres_step h hR)

theorem biInt_pres (hR : StRel R)  (args : List (EvalM Val)) (h : PArgs R args) :
    Pres R (biInt (m := EvalM)  args) := by
  unfold biInt
  repeat (first | pres_step h hR)

theorem biB64_pres (hR : StRel R) e (args : List (EvalM Val)) (h : PArgs R args) :
    Pres R (biB64 (m := EvalM) e args) := by
  unfold biB64
  repeat (first | pres_step h hR)

theorem biStr_pres (hR : StRel R) f (args : List (EvalM Val)) (h : PArgs R args) :
    Pres R (biStr (m := EvalM) f args) := by
  unfold biStr
  repeat (first | pres_step h hR)

theorem biTab_pres (hR : StRel R) (args : List (EvalM Val)) (h : PArgs R args) :
    Pres R (biTab (m := EvalM) args) := by
  unfold biTab
  repeat (first | (pres_step h hR) | (exact tabFill_pres hR _ (h _ (by simp)) _ _ _))

theorem biTup_pres (hR : StRel R) (args : List (EvalM Val)) (h : PArgs R args) :
    Pres R (biTup (m := EvalM) args) := by
  unfold biTup
  repeat (first | (pres_step h hR) | (apply tupItems_pres hR; assumption))

-- BEGIN r10 (abs and pow are now modelled and dispatched by evalBuiltin)
theorem biAbs_pres (hR : StRel R)  (args : List (EvalM Val)) (h : PArgs R args) :
    Pres R (biAbs (m := EvalM)  args) := by
  unfold biAbs
  repeat (first | pres_step h hR)

theorem biPow_pres (hR : StRel R)  (args : List (EvalM Val)) (h : PArgs R args) :
    Pres R (biPow (m := EvalM)  args) := by
  unfold biPow
  repeat (first | pres_step h hR)
-- END r10

-- BEGIN C10 (second dispatch table `evalBuiltinX`: num, isnum, bool, isnull, typeof, sign, libm functions, round, max, min, mod, atan2, clamp, constants)
theorem biNum_pres (hR : StRel R) (args : List (EvalM Val)) (h : PArgs R args) :
    Pres R (biNum (m := EvalM) args) := by
  unfold biNum
  repeat (first | pres_step h hR)

theorem biIsnum_pres (hR : StRel R) (args : List (EvalM Val)) (h : PArgs R args) :
    Pres R (biIsnum (m := EvalM) args) := by
  unfold biIsnum
  repeat (first | pres_step h hR)

theorem biBool_pres (hR : StRel R) (args : List (EvalM Val)) (h : PArgs R args) :
    Pres R (biBool (m := EvalM) args) := by
  unfold biBool
  repeat (first | pres_step h hR)

theorem biIsnull_pres (hR : StRel R) (args : List (EvalM Val)) (h : PArgs R args) :
    Pres R (biIsnull (m := EvalM) args) := by
  unfold biIsnull
  repeat (first | pres_step h hR)

theorem biTypeof_pres (hR : StRel R) (args : List (EvalM Val)) (h : PArgs R args) :
    Pres R (biTypeof (m := EvalM) args) := by
  unfold biTypeof
  repeat (first | pres_step h hR)

theorem biSign_pres (hR : StRel R) (args : List (EvalM Val)) (h : PArgs R args) :
    Pres R (biSign (m := EvalM) args) := by
  unfold biSign
  repeat (first | pres_step h hR)

theorem mathMap_pres (hR : StRel R) fn (args : List (EvalM Val)) (h : PArgs R args) :
    Pres R (mathMap (m := EvalM) fn args) := by
  unfold mathMap
  repeat (first | pres_step h hR)

theorem biRound_pres (hR : StRel R) (args : List (EvalM Val)) (h : PArgs R args) :
    Pres R (biRound (m := EvalM) args) := by
  unfold biRound
  repeat (first | pres_step h hR)

theorem biMinMax_pres (hR : StRel R) b (args : List (EvalM Val)) (h : PArgs R args) :
    Pres R (biMinMax (m := EvalM) b args) := by
  unfold biMinMax
  repeat (first | pres_step h hR)

theorem biMod_pres (hR : StRel R) (args : List (EvalM Val)) (h : PArgs R args) :
    Pres R (biMod (m := EvalM) args) := by
  unfold biMod
  repeat (first | pres_step h hR)

theorem biAtan2_pres (hR : StRel R) (args : List (EvalM Val)) (h : PArgs R args) :
    Pres R (biAtan2 (m := EvalM) args) := by
  unfold biAtan2
  repeat (first | pres_step h hR)

theorem biClamp_pres (hR : StRel R) (args : List (EvalM Val)) (h : PArgs R args) :
    Pres R (biClamp (m := EvalM) args) := by
  unfold biClamp
  repeat (first | pres_step h hR)

theorem evalBuiltinX_pres (hR : StRel R) (name : String) (args : List (EvalM Val)) (h : PArgs R args)
    (r : EvalM Val) (hr : evalBuiltinX (m := EvalM) name args = some r) : Pres R r := by
  unfold evalBuiltinX at hr
  split at hr
  all_goals first
    | (cases hr; first
        | exact biNum_pres hR _ h | exact biIsnum_pres hR _ h | exact biBool_pres hR _ h | exact biIsnull_pres hR _ h
        | exact biTypeof_pres hR _ h | exact biSign_pres hR _ h | exact mathMap_pres hR _ _ h | exact biRound_pres hR _ h
        | exact biMinMax_pres hR _ _ h | exact biMod_pres hR _ h | exact biAtan2_pres hR _ h | exact biClamp_pres hR _ h
        | exact Pres.pure hR _)
    | cases hr
-- END C10

theorem itemAt_pres (hR : StRel R) (recv : EvalM Val) (h : Pres R recv) (n : Nat) : Pres R (itemAt (m := EvalM) recv n) := by
  unfold itemAt
  repeat (first | exact h | pres_step h hR)

theorem biSubstr_pres (hR : StRel R) (args : List (EvalM Val)) (h : PArgs R args) : Pres R (biSubstr (m := EvalM) args) :=
  substrLike_pres hR _ _ _ _ _ h
theorem biSubraw_pres (hR : StRel R) (args : List (EvalM Val)) (h : PArgs R args) : Pres R (biSubraw (m := EvalM) args) :=
  substrLike_pres hR _ _ _ _ _ h

theorem evalBuiltin_pres (hR : StRel R) (fmt : Num.F64 → Bytes) (name : String) (args : List (EvalM Val)) (h : PArgs R args)
    (r : EvalM Val) (hr : evalBuiltin (m := EvalM) fmt name args = some r) : Pres R r := by
  unfold evalBuiltin at hr
  split at hr
  · cases hr; exact biSubstr_pres hR _ h
  · cases hr; exact biSubraw_pres hR _ h
  · cases hr; exact lrSubstr_pres hR _ _ h
  · cases hr; exact lrSubstr_pres hR _ _ h
  · cases hr; exact biStrpos_pres hR _ h
  · cases hr; exact biReplace_pres hR _ h
  · cases hr; exact strMap_pres hR _ _ h
  · cases hr; exact strMap_pres hR _ _ h
  · cases hr; exact strMap_pres hR _ _ h
  · cases hr; exact strMap_pres hR _ _ h
  · cases hr; exact strMap_pres hR _ _ h
  · cases hr; exact biStrlen_pres hR _ h
  · cases hr; exact biTokenize_pres hR _ h
  · cases hr; exact biHex_pres hR _ h
  · cases hr; exact biHash_pres hR _ h
  · cases hr; exact biChr_pres hR _ h
  · cases hr; exact biRaw_pres hR _ h
  · cases hr; exact biInt_pres hR _ h
  · cases hr; exact biB64_pres hR _ _ h
  · cases hr; exact biB64_pres hR _ _ h
  · cases hr; exact biStr_pres hR _ _ h
  -- BEGIN r10
  · cases hr; exact biAbs_pres hR _ h
  · cases hr; exact biPow_pres hR _ h
  -- END r10
  -- BEGIN C10
  · exact evalBuiltinX_pres hR _ _ h r hr
  -- END C10

/-! ## Part 2: the stack of running `forall` loops -/

/-- What identifies a running `forall` on the control stack: everything but the private table copy. -/
def iterKey (b : Iter) : String × Option String × Nat × Ty × Bool := (b.it, b.src, b.idx, b.bak, b.locked)

/-- The stack of running `forall` loops is the same (names, traversed variables, positions, saved types,
lock flags, in the same order); only the private copies of traversed temporaries may differ. -/
def SameIters (s s' : St) : Prop := s'.iters.map iterKey = s.iters.map iterKey

theorem sameIters_rel : StRel SameIters := ⟨fun _ => rfl, fun h1 h2 => by unfold SameIters at *; rw [h2, h1]⟩

/-- Weaker, for the loop that owns the top entry: same depth, and the same entries below the top. -/
def SameBelow (s s' : St) : Prop :=
  s'.iters.length = s.iters.length ∧ s'.iters.tail.map iterKey = s.iters.tail.map iterKey

theorem sameBelow_rel : StRel SameBelow :=
  ⟨fun _ => ⟨rfl, rfl⟩, fun h1 h2 => ⟨h2.1.trans h1.1, h2.2.trans h1.2⟩⟩

theorem sameBelow_of_sameIters (a b : St) (h : SameIters a b) : SameBelow a b := by
  unfold SameIters at h
  constructor
  · have := congrArg List.length h; simpa using this
  · have := congrArg List.tail h; simpa [List.map_tail] using this

theorem pres_getSt_bind {R : St → St → Prop} {β} {f : St → EvalM β} (hf : ∀ s, R s (f s s).2) : Pres R (BlocV.getSt >>= f) := ⟨fun s => hf s⟩

theorem forallLoop_sameBelow (body : EvalM Flow) (hb : Pres SameIters body) (it : String) (desc : Bool) :
    ∀ k, Pres SameBelow (forallLoop body it desc k) := by
  have hR := sameBelow_rel
  intro k
  induction k with
  | zero => exact Pres.oof hR
  | succ k ih =>
    unfold forallLoop
    apply Pres.bind hR (hb.weaken sameBelow_of_sameIters)
    intro fl
    split
    · exact Pres.pure hR _
    · exact Pres.pure hR _
    all_goals
      refine pres_getSt_bind ?_
      intro s
      cases hs : s.iters with
      | nil => simp only []; exact hR.refl s
      | cons b rest =>
        simp only []
        split
        · exact hR.refl s
        · cases hn : forallNext desc b.idx (tableSize (s.iterTable b)) with
          | none => exact hR.refl s
          | some j =>
            show SameBelow s (forallLoop body it desc k { s with iters := { b with idx := j } :: rest }).2
            refine hR.trans ?_ (ih.h _)
            constructor <;> simp [hs]

macro "pres_core" hR:ident : tactic => `(tactic| first
  | exact Pres.pure $hR _
  | exact Pres.lift $hR _
  | exact Pres.mlift $hR _
  | exact Pres.getSt $hR
  | exact Pres.failE $hR _ _
  | exact Pres.oof $hR
  | apply Pres.bind $hR
  | intro _
  | split
  | dsimp only)

def AllPres (R : St → St → Prop) (funcs : List Func) (fuel : Nat) : Prop :=
  (∀ depth e, Pres R (eval funcs depth fuel e)) ∧
  (∀ depth name args, Pres R (callFunc funcs depth fuel name args)) ∧
  (∀ depth args, Pres R (evalArgs funcs depth fuel args)) ∧
  (∀ depth body catches, Pres R (execBlock funcs depth fuel body catches)) ∧
  (∀ depth l, Pres R (execList funcs depth fuel l)) ∧
  (∀ depth st, Pres R (exec funcs depth fuel st)) ∧
  (∀ depth es, Pres R (evalPrint funcs depth fuel es)) ∧
  (∀ depth rules, Pres R (execIf funcs depth fuel rules))

theorem eval_sameIters_step (funcs : List Func) (fuel : Nat) (ih : AllPres SameIters funcs fuel) (depth : Nat) (e : Expr) :
    Pres SameIters (eval funcs depth (fuel + 1) e) := by
  have hR := sameIters_rel
  obtain ⟨ihE, ihC, ihA, -, -, -, -, -⟩ := ih
  unfold eval
  split
  · exact Pres.pure hR _
  · -- var
    exact Pres.bind hR (Pres.getSt hR) (fun _ => Pres.lift hR _)
  · -- un
    exact Pres.bind hR (ihE _ _) (fun _ => Pres.lift hR _)
  · -- band
    repeat (first | pres_core hR | exact ihE _ _)
  · -- bior
    repeat (first | pres_core hR | exact ihE _ _)
  · -- bin
    repeat (first | pres_core hR | exact ihE _ _)
  · exact biTab_pres hR _ (PArgs.map _ _ (ihE _))
  · exact biTup_pres hR _ (PArgs.map _ _ (ihE _))
  · split
    · rename_i r hr
      exact evalBuiltin_pres hR _ _ _ (PArgs.map _ _ (ihE _)) r hr
    · exact Pres.lift hR _
  · exact ihC _ _ _
  · -- member
    repeat (first | pres_core hR | exact ihE _ _ | exact ihA _ _ | exact Pres.modifySt (fun _ => rfl))
  · -- error
    exact Pres.bind hR (Pres.getSt hR) (fun _ => Pres.lift hR _)
  · -- item
    exact itemAt_pres hR _ (ihE _ _) _

theorem finishCall_iters (caller : St) (r : Res Flow × St) : (finishCall caller r).2.iters = caller.iters := by
  unfold finishCall; cases r.1 <;> rfl

theorem callFunc_sameIters_step (funcs : List Func) (fuel : Nat) (ih : AllPres SameIters funcs fuel) (depth : Nat) (name : String) (args : List Expr) :
    Pres SameIters (callFunc funcs depth (fuel + 1) name args) := by
  have hR := sameIters_rel
  obtain ⟨-, -, ihA, -, -, -, -, -⟩ := ih
  unfold callFunc
  split
  · exact Pres.lift hR _
  · split
    · exact Pres.failE hR _ _
    · apply Pres.bind hR (ihA _ _)
      intro vals
      exact ⟨fun caller => by unfold SameIters; rw [finishCall_iters]⟩

theorem evalArgs_sameIters_step (funcs : List Func) (fuel : Nat) (ih : AllPres SameIters funcs fuel) (depth : Nat) (args : List Expr) :
    Pres SameIters (evalArgs funcs depth (fuel + 1) args) := by
  have hR := sameIters_rel
  obtain ⟨ihE, -, ihA, -, -, -, -, -⟩ := ih
  cases args with
  | nil => unfold evalArgs; exact Pres.pure hR _
  | cons a as =>
    unfold evalArgs
    repeat (first | pres_core hR | exact ihE _ _ | exact ihA _ _)

theorem execBlock_sameIters_step (funcs : List Func) (fuel : Nat) (ih : AllPres SameIters funcs fuel) (depth : Nat) (body : List Stmt) (catches : List (String × List Stmt)) :
    Pres SameIters (execBlock funcs depth (fuel + 1) body catches) := by
  have hR := sameIters_rel
  obtain ⟨-, -, -, -, ihL, -, -, -⟩ := ih
  unfold execBlock
  constructor
  intro s
  have h1 := (ihL depth body).h s
  split
  · rename_i c a s' heq
    rw [heq] at h1
    split
    · exact h1
    · split
      · rename_i handler hfind
        have h2 := (ihL depth handler).h { s' with lastErr := (c, a) }
        unfold handlerExit
        split
        · rename_i fl s2 heq2
          rw [heq2] at h2
          exact hR.trans h1 h2
        · exact hR.trans h1 h2
      · exact h1
  · exact h1

theorem execList_sameIters_step (funcs : List Func) (fuel : Nat) (ih : AllPres SameIters funcs fuel) (depth : Nat) (l : List Stmt) :
    Pres SameIters (execList funcs depth (fuel + 1) l) := by
  have hR := sameIters_rel
  obtain ⟨-, -, -, -, ihL, ihS, -, -⟩ := ih
  cases l with
  | nil => unfold execList; exact Pres.pure hR _
  | cons a as =>
    unfold execList
    repeat (first | pres_core hR | exact ihL _ _ | exact ihS _ _)

theorem evalPrint_sameIters_step (funcs : List Func) (fuel : Nat) (ih : AllPres SameIters funcs fuel) (depth : Nat) (l : List Expr) :
    Pres SameIters (evalPrint funcs depth (fuel + 1) l) := by
  have hR := sameIters_rel
  obtain ⟨ihE, -, -, -, -, -, ihP, -⟩ := ih
  cases l with
  | nil => unfold evalPrint; exact Pres.pure hR _
  | cons a as =>
    unfold evalPrint
    repeat (first | pres_core hR | exact ihE _ _ | exact ihP _ _ | exact Pres.modifySt (fun _ => rfl))

theorem execIf_sameIters_step (funcs : List Func) (fuel : Nat) (ih : AllPres SameIters funcs fuel) (depth : Nat) (l : List (Option Expr × List Stmt)) :
    Pres SameIters (execIf funcs depth (fuel + 1) l) := by
  have hR := sameIters_rel
  obtain ⟨ihE, -, -, -, ihL, -, -, ihI⟩ := ih
  cases l with
  | nil => unfold execIf; exact Pres.pure hR _
  | cons a as =>
    obtain ⟨c, b⟩ := a
    unfold execIf
    repeat (first | pres_core hR | exact ihE _ _ | exact ihL _ _ | exact ihI _ _)

theorem whileLoop_pres {R : St → St → Prop} (hR : StRel R) (cond : EvalM Val) (body : EvalM Flow)
    (hc : Pres R cond) (hb : Pres R body) : ∀ k, Pres R (whileLoop cond body k) := by
  intro k
  induction k with
  | zero => exact Pres.oof hR
  | succ k ih =>
    unfold whileLoop
    repeat (first | pres_core hR | assumption)

theorem forLoop_pres {R : St → St → Prop} (hR : StRel R) (hv : ∀ (s : St) vars, R s { s with vars := vars })
    (body : EvalM Flow) (v : String) (mn mx step : Int64) (hb : Pres R body) : ∀ k, Pres R (forLoop body v mn mx step k) := by
  intro k
  induction k with
  | zero => exact Pres.oof hR
  | succ k ih =>
    unfold forLoop
    repeat (first | pres_core hR | assumption | exact Pres.modifySt (fun _ => hv _ _))

theorem forallExit_sameIters (it : String) (b : Iter) (s1 : St) (body : EvalM Flow) (hb : Pres SameIters body) (desc : Bool) (k : Nat) :
    SameIters s1 (forallExit it (forallLoop body it desc k { s1 with iters := b :: s1.iters })).2 := by
  have h := (forallLoop_sameBelow body hb it desc k).h { s1 with iters := b :: s1.iters }
  generalize forallLoop body it desc k { s1 with iters := b :: s1.iters } = r at h
  obtain ⟨hlen, htail⟩ := h
  unfold forallExit
  cases hi : r.2.iters with
  | nil => rw [hi] at hlen; simp at hlen
  | cons b' rest =>
    simp only []
    rw [hi] at htail
    simpa [SameIters] using htail

theorem exec_sameIters_step (funcs : List Func) (fuel : Nat) (ih : AllPres SameIters funcs fuel) (depth : Nat) (st : Stmt) :
    Pres SameIters (exec funcs depth (fuel + 1) st) := by
  have hR := sameIters_rel
  obtain ⟨ihE, -, -, ihB, ihL, -, ihP, ihI⟩ := ih
  unfold exec
  constructor
  intro s0
  split
  · exact hR.refl _
  · refine hR.trans (b := { s0 with budget := s0.budget - 1 }) rfl ?_
    generalize ({ s0 with budget := s0.budget - 1 } : St) = s
    refine Pres.h (R := SameIters) ?_ s
    split
    · exact Pres.pure hR _
    · exact Pres.pure hR _
    · -- letS
      have hmap : ∀ (n : String) (tbl' : Val) (st : St), SameIters st { st with iters := st.iters.map fun x => if x.it == n then { x with priv := tbl' } else x } := by
        intro n tbl' st
        unfold SameIters
        simp only [List.map_map]
        apply List.map_congr_left
        intro x _
        simp only [Function.comp]
        split <;> rfl
      repeat (first | pres_core hR | exact ihE _ _ | exact Pres.modifySt (fun _ => rfl) | exact Pres.modifySt (hmap _ _))
    · repeat (first | pres_core hR | exact ihE _ _)
    · repeat (first | pres_core hR | exact ihP _ _ | exact Pres.modifySt (fun _ => rfl))
    · exact ihI _ _
    · exact whileLoop_pres hR _ _ (ihE _ _) (ihL _ _) _
    · -- forS
      repeat (first | pres_core hR | exact ihE _ _ | exact Pres.modifySt (fun _ => rfl) | exact forLoop_pres hR (fun _ _ => rfl) _ _ _ _ _ (ihL _ _) _)
    · -- forallS
      apply Pres.bind hR (ihE _ _); intro tv
      split
      · exact Pres.pure hR _
      split
      · exact Pres.lift hR _
      refine Pres.ite _ (Pres.pure hR _) ?_
      apply Pres.bind hR (Pres.getSt hR); intro s
      refine Pres.ite _ (Pres.failE hR _ _) ?_
      split
      · refine Pres.ite _ (Pres.lift hR _) ?_
        exact ⟨fun s1 => forallExit_sameIters _ _ s1 _ (ihL _ _) _ _⟩
      · rename_i src dir body h1 h2 recv hx
        cases src <;> first
          | exact absurd rfl (hx _)
          | exact ⟨fun s1 => forallExit_sameIters _ _ s1 _ (ihL _ _) _ _⟩
    · exact ihB _ _ _
    · repeat (first | pres_core hR)
    · exact Pres.pure hR _
    · repeat (first | pres_core hR | exact ihE _ _ | exact Pres.modifySt (fun _ => rfl))
    · exact Pres.pure hR _
    · exact Pres.pure hR _

/-- **The mutual induction**: every function of the interpreter's mutual block leaves the stack of
running `forall` loops as it found it, whatever the outcome. -/
theorem sameIters_all (funcs : List Func) : ∀ fuel, AllPres SameIters funcs fuel := by
  have hR := sameIters_rel
  intro fuel
  induction fuel with
  | zero =>
    refine ⟨?_, ?_, ?_, ?_, ?_, ?_, ?_, ?_⟩
    · intro d e; unfold eval; exact Pres.oof hR
    · intro d n a; unfold callFunc; exact Pres.oof hR
    · intro d a; unfold evalArgs; exact Pres.oof hR
    · intro d b c; unfold execBlock; exact Pres.oof hR
    · intro d l; unfold execList; exact Pres.oof hR
    · intro d s; unfold exec; exact Pres.oof hR
    · intro d l; unfold evalPrint; exact Pres.oof hR
    · intro d l; unfold execIf; exact Pres.oof hR
  | succ fuel ih =>
    exact ⟨eval_sameIters_step funcs fuel ih, callFunc_sameIters_step funcs fuel ih, evalArgs_sameIters_step funcs fuel ih,
      execBlock_sameIters_step funcs fuel ih, execList_sameIters_step funcs fuel ih, exec_sameIters_step funcs fuel ih,
      evalPrint_sameIters_step funcs fuel ih, execIf_sameIters_step funcs fuel ih⟩
/-! ## Part 3: frame relations — relations that look only at the printed output and at the `for`/`while` control entries

`Frame R`: `R` is reflexive-transitive, holds across every change of the OTHER fields (variables, saved return value, budget,
running `forall` loops, error record, function-context caches), across printing one more chunk, and across a call when it holds
across the callee's run (the callee starts with the caller's output and hands its output back; the caller keeps its own control
entries). Every function of the interpreter's mutual block preserves every such relation, whatever the outcome
(`frame_all`). Instances: `OutGrows` (output only grows) and `SameCtl` (control entries untouched). -/

structure Frame (R : St → St → Prop) : Prop where
  rel : StRel R
  upd : ∀ s s' : St, s'.out = s.out → s'.ctl = s.ctl → R s s'
  push : ∀ (s : St) (bs : Bytes), R s { s with out := bs :: s.out }
  call : ∀ (f : Func) (vals : List Val) (s1 : St) (r : Res Flow × St),
    R (calleeInit f vals s1) r.2 → R s1 (finishCall s1 r).2

section frame
variable {R : St → St → Prop}

macro "frame_core" hF:ident hR:ident : tactic => `(tactic| first
  | exact Pres.pure $hR _
  | exact Pres.lift $hR _
  | exact Pres.mlift $hR _
  | exact Pres.getSt $hR
  | exact Pres.failE $hR _ _
  | exact Pres.oof $hR
  | exact Pres.modifySt (fun _ => Frame.upd $hF _ _ rfl rfl)
  | exact Pres.modifySt (fun _ => Frame.push $hF _ _)
  | apply Pres.bind $hR
  | intro _
  | split
  | dsimp only)

theorem forallLoop_frame (hF : Frame R) (body : EvalM Flow) (hb : Pres R body) (it : String) (desc : Bool) :
    ∀ k, Pres R (forallLoop body it desc k) := by
  have hR := hF.rel
  intro k
  induction k with
  | zero => exact Pres.oof hR
  | succ k ih =>
    unfold forallLoop
    repeat (first | frame_core hF hR | assumption)

theorem forallExit_frame (hF : Frame R) (it : String) (r : Res Flow × St) : R r.2 (forallExit it r).2 := by
  unfold forallExit
  split
  · exact hF.upd _ _ rfl rfl
  · exact hF.rel.refl _

theorem eval_frame_step (hF : Frame R) (funcs : List Func) (fuel : Nat) (ih : AllPres R funcs fuel) (depth : Nat) (e : Expr) :
    Pres R (eval funcs depth (fuel + 1) e) := by
  have hR := hF.rel
  obtain ⟨ihE, ihC, ihA, -, -, -, -, -⟩ := ih
  unfold eval
  split
  · exact Pres.pure hR _
  · exact Pres.bind hR (Pres.getSt hR) (fun _ => Pres.lift hR _)
  · exact Pres.bind hR (ihE _ _) (fun _ => Pres.lift hR _)
  · repeat (first | frame_core hF hR | exact ihE _ _)
  · repeat (first | frame_core hF hR | exact ihE _ _)
  · repeat (first | frame_core hF hR | exact ihE _ _)
  · exact biTab_pres hR _ (PArgs.map _ _ (ihE _))
  · exact biTup_pres hR _ (PArgs.map _ _ (ihE _))
  · split
    · rename_i r hr
      exact evalBuiltin_pres hR _ _ _ (PArgs.map _ _ (ihE _)) r hr
    · exact Pres.lift hR _
  · exact ihC _ _ _
  · repeat (first | frame_core hF hR | exact ihE _ _ | exact ihA _ _)
  · exact Pres.bind hR (Pres.getSt hR) (fun _ => Pres.lift hR _)
  · exact itemAt_pres hR _ (ihE _ _) _

theorem callFunc_frame_step (hF : Frame R) (funcs : List Func) (fuel : Nat) (ih : AllPres R funcs fuel) (depth : Nat) (name : String) (args : List Expr) :
    Pres R (callFunc funcs depth (fuel + 1) name args) := by
  have hR := hF.rel
  obtain ⟨-, -, ihA, ihB, -, -, -, -⟩ := ih
  unfold callFunc
  split
  · exact Pres.lift hR _
  · rename_i f hfind
    split
    · exact Pres.failE hR _ _
    · apply Pres.bind hR (ihA _ _)
      intro vals
      exact ⟨fun caller => hF.call f vals caller _ ((ihB (depth + 1) f.body f.catches).h _)⟩

theorem evalArgs_frame_step (hF : Frame R) (funcs : List Func) (fuel : Nat) (ih : AllPres R funcs fuel) (depth : Nat) (args : List Expr) :
    Pres R (evalArgs funcs depth (fuel + 1) args) := by
  have hR := hF.rel
  obtain ⟨ihE, -, ihA, -, -, -, -, -⟩ := ih
  cases args with
  | nil => unfold evalArgs; exact Pres.pure hR _
  | cons a as =>
    unfold evalArgs
    repeat (first | frame_core hF hR | exact ihE _ _ | exact ihA _ _)

theorem execBlock_frame_step (hF : Frame R) (funcs : List Func) (fuel : Nat) (ih : AllPres R funcs fuel) (depth : Nat) (body : List Stmt) (catches : List (String × List Stmt)) :
    Pres R (execBlock funcs depth (fuel + 1) body catches) := by
  have hR := hF.rel
  obtain ⟨-, -, -, -, ihL, -, -, -⟩ := ih
  unfold execBlock
  constructor
  intro s
  have h1 := (ihL depth body).h s
  split
  · rename_i c a s' heq
    rw [heq] at h1
    split
    · exact h1
    · split
      · rename_i handler hfind
        have h2 := (ihL depth handler).h { s' with lastErr := (c, a) }
        have h3 : R s' { s' with lastErr := (c, a) } := hF.upd _ _ rfl rfl
        unfold handlerExit
        split
        · rename_i fl s2 heq2
          rw [heq2] at h2
          exact hR.trans h1 (hR.trans h3 (hR.trans h2 (hF.upd _ _ rfl rfl)))
        · exact hR.trans h1 (hR.trans h3 h2)
      · exact h1
  · exact h1

theorem execList_frame_step (hF : Frame R) (funcs : List Func) (fuel : Nat) (ih : AllPres R funcs fuel) (depth : Nat) (l : List Stmt) :
    Pres R (execList funcs depth (fuel + 1) l) := by
  have hR := hF.rel
  obtain ⟨-, -, -, -, ihL, ihS, -, -⟩ := ih
  cases l with
  | nil => unfold execList; exact Pres.pure hR _
  | cons a as =>
    unfold execList
    repeat (first | frame_core hF hR | exact ihL _ _ | exact ihS _ _)

theorem evalPrint_frame_step (hF : Frame R) (funcs : List Func) (fuel : Nat) (ih : AllPres R funcs fuel) (depth : Nat) (l : List Expr) :
    Pres R (evalPrint funcs depth (fuel + 1) l) := by
  have hR := hF.rel
  obtain ⟨ihE, -, -, -, -, -, ihP, -⟩ := ih
  cases l with
  | nil => unfold evalPrint; exact Pres.pure hR _
  | cons a as =>
    unfold evalPrint
    repeat (first | frame_core hF hR | exact ihE _ _ | exact ihP _ _)

theorem execIf_frame_step (hF : Frame R) (funcs : List Func) (fuel : Nat) (ih : AllPres R funcs fuel) (depth : Nat) (l : List (Option Expr × List Stmt)) :
    Pres R (execIf funcs depth (fuel + 1) l) := by
  have hR := hF.rel
  obtain ⟨ihE, -, -, -, ihL, -, -, ihI⟩ := ih
  cases l with
  | nil => unfold execIf; exact Pres.pure hR _
  | cons a as =>
    obtain ⟨c, b⟩ := a
    unfold execIf
    repeat (first | frame_core hF hR | exact ihE _ _ | exact ihL _ _ | exact ihI _ _)

theorem forall_run_frame (hF : Frame R) (it : String) (b : Iter) (s1 : St) (body : EvalM Flow) (hb : Pres R body) (desc : Bool) (k : Nat) :
    R s1 (forallExit it (forallLoop body it desc k { s1 with iters := b :: s1.iters })).2 :=
  hF.rel.trans (hF.upd s1 { s1 with iters := b :: s1.iters } rfl rfl)
    (hF.rel.trans ((forallLoop_frame hF body hb it desc k).h _) (forallExit_frame hF it _))

theorem exec_frame_step (hF : Frame R) (funcs : List Func) (fuel : Nat) (ih : AllPres R funcs fuel) (depth : Nat) (st : Stmt) :
    Pres R (exec funcs depth (fuel + 1) st) := by
  have hR := hF.rel
  obtain ⟨ihE, -, -, ihB, ihL, -, ihP, ihI⟩ := ih
  unfold exec
  constructor
  intro s0
  split
  · exact hR.refl _
  · refine hR.trans (b := { s0 with budget := s0.budget - 1 }) (hF.upd _ _ rfl rfl) ?_
    generalize ({ s0 with budget := s0.budget - 1 } : St) = s
    refine Pres.h (R := R) ?_ s
    split
    · exact Pres.pure hR _
    · exact Pres.pure hR _
    · -- letS
      repeat (first | frame_core hF hR | exact ihE _ _)
    · repeat (first | frame_core hF hR | exact ihE _ _)
    · repeat (first | frame_core hF hR | exact ihP _ _)
    · exact ihI _ _
    · exact whileLoop_pres hR _ _ (ihE _ _) (ihL _ _) _
    · -- forS
      repeat (first | frame_core hF hR | exact ihE _ _ | exact forLoop_pres hR (fun _ _ => hF.upd _ _ rfl rfl) _ _ _ _ _ (ihL _ _) _)
    · -- forallS
      apply Pres.bind hR (ihE _ _); intro tv
      split
      · exact Pres.pure hR _
      split
      · exact Pres.lift hR _
      refine Pres.ite _ (Pres.pure hR _) ?_
      apply Pres.bind hR (Pres.getSt hR); intro s
      refine Pres.ite _ (Pres.failE hR _ _) ?_
      split
      · refine Pres.ite _ (Pres.lift hR _) ?_
        exact ⟨fun s1 => forall_run_frame hF _ _ s1 _ (ihL _ _) _ _⟩
      · rename_i src dir body h1 h2 recv hx
        cases src <;> first
          | exact absurd rfl (hx _)
          | exact ⟨fun s1 => forall_run_frame hF _ _ s1 _ (ihL _ _) _ _⟩
    · exact ihB _ _ _
    · repeat (first | frame_core hF hR)
    · exact Pres.pure hR _
    · repeat (first | frame_core hF hR | exact ihE _ _)
    · exact Pres.pure hR _
    · exact Pres.pure hR _

/-- **The mutual induction for frame relations.** -/
theorem frame_all (hF : Frame R) (funcs : List Func) : ∀ fuel, AllPres R funcs fuel := by
  have hR := hF.rel
  intro fuel
  induction fuel with
  | zero =>
    refine ⟨?_, ?_, ?_, ?_, ?_, ?_, ?_, ?_⟩
    · intro d e; unfold eval; exact Pres.oof hR
    · intro d n a; unfold callFunc; exact Pres.oof hR
    · intro d a; unfold evalArgs; exact Pres.oof hR
    · intro d b c; unfold execBlock; exact Pres.oof hR
    · intro d l; unfold execList; exact Pres.oof hR
    · intro d s; unfold exec; exact Pres.oof hR
    · intro d l; unfold evalPrint; exact Pres.oof hR
    · intro d l; unfold execIf; exact Pres.oof hR
  | succ fuel ih =>
    exact ⟨eval_frame_step hF funcs fuel ih, callFunc_frame_step hF funcs fuel ih, evalArgs_frame_step hF funcs fuel ih,
      execBlock_frame_step hF funcs fuel ih, execList_frame_step hF funcs fuel ih, exec_frame_step hF funcs fuel ih,
      evalPrint_frame_step hF funcs fuel ih, execIf_frame_step hF funcs fuel ih⟩
end frame

/-- Everything printed before is still there, in the same order, below what was printed since (`out` holds the chunks most recent first). -/
def OutGrows (s s' : St) : Prop := ∃ l : List Bytes, s'.out = l ++ s.out

theorem outGrows_frame : Frame OutGrows where
  rel := ⟨fun _ => ⟨[], rfl⟩, fun ⟨l1, h1⟩ ⟨l2, h2⟩ => ⟨l2 ++ l1, by rw [h2, h1, List.append_assoc]⟩⟩
  upd := fun _ _ ho _ => ⟨[], by simpa using ho⟩
  push := fun _ bs => ⟨[bs], rfl⟩
  call := fun f vals s1 r ⟨l, h⟩ => ⟨l, by
    have e : (finishCall s1 r).2.out = r.2.out := by unfold finishCall; cases r.1 <;> rfl
    rw [e, h]; rfl⟩

/-- the `for`/`while` control entries a run could leave behind are untouched -/
def SameCtl (s s' : St) : Prop := s'.ctl = s.ctl

theorem sameCtl_frame : Frame SameCtl where
  rel := ⟨fun _ => rfl, fun h1 h2 => by unfold SameCtl at *; rw [h2, h1]⟩
  upd := fun _ _ _ hc => hc
  push := fun _ _ => rfl
  call := fun f vals s1 r _ => by unfold SameCtl finishCall; cases r.1 <;> rfl

/-- `St.output` of a later state extends that of an earlier one -/
theorem output_prefix_of_outGrows (s s' : St) (h : OutGrows s s') : ∃ t : Bytes, s'.output = s.output ++ t := by
  obtain ⟨l, hl⟩ := h
  refine ⟨l.reverse.flatten, ?_⟩
  unfold St.output
  rw [hl, List.reverse_append, List.flatten_append]
end BlocV.Lemmas
