/-
  Helper lemmas for C13 (Proofs/C13.lean holds the property theorems only).

  Contents: (1) what a pattern of tokenizer.lex can see: `matchLens_local` (a newline-free pattern
  sees nothing beyond a '\n'), `lineLocal` (every rule of the file is newline-free, or a one-byte
  class, or an alternative of such — checked on the rule lists by evaluation, `rulesOf_local`);
  (2) the rule choice `pick` is therefore unchanged when the text after the next '\n' is cut away
  (`pick_local`, `pick_nl`); (3) `lex_split`: scanning up to and including a '\n' and then scanning
  the rest as a NEW buffer equals scanning the whole; (4) the chunk theorem; (5) the line reader.
-/
import BlocV.Spec.Lex
namespace BlocV.Lex

/-! ### newline-free patterns -/

/-- No byte class of `r` contains '\n' and no literal of `r` contains it: `r` cannot match a text
containing a newline. -/
def nlFree : Re → Bool
  | .cls p => !p 10
  | .lit l => l.all (· != 10)
  | .seq a b => nlFree a && nlFree b
  | .alt a b => nlFree a && nlFree b
  | .opt a => nlFree a
  | .star p => !p 10
  | .plus p => !p 10

/-- Patterns whose matches never extend over a '\n' that is not the first byte: newline-free
patterns, one-byte classes (whatever the class), and alternatives of such. -/
def lineLocal : Re → Bool
  | .cls _ => true
  | .alt a b => (nlFree a && nlFree b) || (lineLocal a && lineLocal b)
  | r => nlFree r

theorem starLens_bound (p : UInt8 → Bool) : ∀ (s : Bytes) (n : Nat), n ∈ starLens p s → n ≤ s.length := by
  intro s
  induction s with
  | nil => intro n h; simp [starLens] at h; omega
  | cons c t ih =>
    intro n h
    simp only [starLens] at h
    split at h
    · simp only [List.mem_cons, List.mem_map] at h
      rcases h with rfl | ⟨m, hm, rfl⟩
      · omega
      · have := ih m hm; simp; omega
    · simp at h; omega

theorem starLens_local (p : UInt8 → Bool) (hp : p 10 = false) (q : Bytes) :
    ∀ a : Bytes, starLens p (a ++ 10 :: q) = starLens p a := by
  intro a
  induction a with
  | nil => simp [starLens, hp]
  | cons c t ih => simp [starLens, ih]

theorem isPre_local (q : Bytes) : ∀ (l a : Bytes), l.all (· != 10) = true →
    isPre l (a ++ 10 :: q) = isPre l a := by
  intro l
  induction l with
  | nil => intro a _; simp [isPre]
  | cons x l ih =>
    intro a h
    simp only [List.all_cons, Bool.and_eq_true] at h
    cases a with
    | nil =>
      have : (x == 10) = false := by simpa using h.1
      simp [isPre, this]
    | cons y a => simp [isPre, ih a h.2]

theorem matchLens_bound : ∀ (r : Re) (s : Bytes) (n : Nat), n ∈ matchLens r s → n ≤ s.length := by
  intro r
  induction r with
  | cls p =>
    intro s n h
    cases s with
    | nil => simp [matchLens] at h
    | cons c t =>
      simp only [matchLens] at h
      split at h <;> simp at h
      subst h; simp
  | lit l =>
    intro s n h
    simp only [matchLens] at h
    split at h
    · rename_i hp
      simp at h; subst h

      induction l generalizing s with
      | nil => simp
      | cons x l ih =>
        cases s with
        | nil => simp [isPre] at hp
        | cons y s =>
          simp only [isPre, Bool.and_eq_true] at hp
          have := ih s hp.2
          simp; omega
    · simp at h
  | seq a b iha ihb =>
    intro s n h
    simp only [matchLens, List.mem_flatMap, List.mem_map] at h
    obtain ⟨n1, h1, n2, h2, rfl⟩ := h
    have := iha s n1 h1
    have := ihb _ n2 h2
    simp at this; omega
  | alt a b iha ihb =>
    intro s n h
    simp only [matchLens, List.mem_append] at h
    rcases h with h | h
    · exact iha s n h
    · exact ihb s n h
  | opt a iha =>
    intro s n h
    simp only [matchLens, List.mem_cons] at h
    rcases h with rfl | h
    · omega
    · exact iha s n h
  | star p => intro s n h; exact starLens_bound p s n h
  | plus p =>
    intro s n h
    cases s with
    | nil => simp [matchLens] at h
    | cons c t =>
      simp only [matchLens] at h
      split at h
      · simp only [List.mem_map] at h
        obtain ⟨m, hm, rfl⟩ := h
        have := starLens_bound p t m hm
        simp; omega
      · simp at h

theorem flatMap_congr' {α β} (l : List α) (f g : α → List β) (h : ∀ x ∈ l, f x = g x) :
    l.flatMap f = l.flatMap g := by
  induction l with
  | nil => rfl
  | cons x l ih =>
    simp only [List.flatMap_cons]
    rw [h x (by simp), ih (fun y hy => h y (by simp [hy]))]

/-- A newline-free pattern sees nothing of what follows a '\n'. -/
theorem matchLens_local (q : Bytes) : ∀ (r : Re), nlFree r = true → ∀ a : Bytes,
    matchLens r (a ++ 10 :: q) = matchLens r a := by
  intro r
  induction r with
  | cls p =>
    intro h a
    have hp : p 10 = false := by simpa [nlFree] using h
    cases a with
    | nil => simp [matchLens, hp]
    | cons c t => simp [matchLens]
  | lit l =>
    intro h a
    simp only [nlFree] at h
    simp [matchLens, isPre_local q l a h]
  | seq x y ihx ihy =>
    intro h a
    simp only [nlFree, Bool.and_eq_true] at h
    simp only [matchLens, ihx h.1 a]
    apply flatMap_congr'
    intro n hn
    have hb := matchLens_bound x a n hn
    rw [List.drop_append_of_le_length hb, ihy h.2]
  | alt x y ihx ihy =>
    intro h a
    simp only [nlFree, Bool.and_eq_true] at h
    simp [matchLens, ihx h.1 a, ihy h.2 a]
  | opt x ihx =>
    intro h a
    simp only [nlFree] at h
    simp [matchLens, ihx h a]
  | star p =>
    intro h a
    have hp : p 10 = false := by simpa [nlFree] using h
    simp [matchLens, starLens_local p hp q a]
  | plus p =>
    intro h a
    have hp : p 10 = false := by simpa [nlFree] using h
    cases a with
    | nil => simp [matchLens, hp]
    | cons c t => simp [matchLens, starLens_local p hp q t]

/-- Before a '\n' that is not the first byte, a line-local pattern matches what it matches on the
text cut before that '\n'. -/
theorem matchLens_lineLocal (q : Bytes) : ∀ (r : Re), lineLocal r = true → ∀ a : Bytes, a ≠ [] →
    matchLens r (a ++ 10 :: q) = matchLens r a := by
  intro r
  induction r with
  | cls p =>
    intro _ a ha
    cases a with
    | nil => exact absurd rfl ha
    | cons c t => simp [matchLens]
  | alt x y ihx ihy =>
    intro h a ha
    simp only [lineLocal, Bool.or_eq_true, Bool.and_eq_true] at h
    rcases h with h | h
    · simp [matchLens, matchLens_local q x h.1 a, matchLens_local q y h.2 a]
    · simp [matchLens, ihx h.1 a ha, ihy h.2 a ha]
  | lit l => intro h a _; exact matchLens_local q _ h a
  | seq x y => intro h a _; exact matchLens_local q _ h a
  | opt x => intro h a _; exact matchLens_local q _ h a
  | star p => intro h a _; exact matchLens_local q _ h a
  | plus p => intro h a _; exact matchLens_local q _ h a

/-- At a '\n', a line-local pattern matches what it matches on the one-byte text "\n". -/
theorem matchLens_lineLocal_nl (q : Bytes) : ∀ (r : Re), lineLocal r = true →
    matchLens r (10 :: q) = matchLens r [10] := by
  have nf : ∀ r, nlFree r = true → matchLens r (10 :: q) = matchLens r [10] := by
    intro r h
    have h1 := matchLens_local q r h []
    have h2 := matchLens_local [] r h []
    simp only [List.nil_append] at h1 h2
    rw [h1, h2]
  intro r
  induction r with
  | cls p => intro _; simp [matchLens]
  | alt x y ihx ihy =>
    intro h
    simp only [lineLocal, Bool.or_eq_true, Bool.and_eq_true] at h
    rcases h with h | h
    · simp [matchLens, nf x h.1, nf y h.2]
    · simp [matchLens, ihx h.1, ihy h.2]
  | lit l => intro h; exact nf _ h
  | seq x y => intro h; exact nf _ h
  | opt x => intro h; exact nf _ h
  | star p => intro h; exact nf _ h
  | plus p => intro h; exact nf _ h

theorem maxL_le (l : List Nat) (k : Nat) (h : ∀ n ∈ l, n ≤ k) : maxL l ≤ k := by
  induction l with
  | nil => simp [maxL]
  | cons x l ih =>
    simp only [maxL]
    have := h x (by simp)
    have := ih (fun n hn => h n (by simp [hn]))
    omega

theorem longest_le (r : Re) (s : Bytes) : longest r s ≤ s.length :=
  maxL_le _ _ (matchLens_bound r s)

/-! ### the rule choice -/

def RulesLocal (rules : List Rule) : Prop := ∀ r ∈ rules, lineLocal r.re = true

/-- The list contains an un-anchored rule matching any single byte (flex's default rule, or
`<COMMENT>.|\n`, or `<LITERAL>.|\n|…`). -/
def HasAny (rules : List Rule) : Prop :=
  ∃ r ∈ rules, r.bol = false ∧ ∀ (c : UInt8) (t : Bytes), 1 ≤ longest r.re (c :: t)

theorem cand_le (r : Rule) (bol : Bool) (s : Bytes) : cand r bol s ≤ s.length := by
  unfold cand
  split
  · omega
  · exact longest_le _ _

theorem pick_le (rules : List Rule) (bol : Bool) (s : Bytes) : (pick rules bol s).2 ≤ s.length := by
  induction rules with
  | nil => simp [pick]
  | cons r rs ih =>
    simp only [pick]
    split
    · exact cand_le r bol s
    · exact ih

theorem pick_ge (rules : List Rule) (bol : Bool) (s : Bytes) :
    ∀ r ∈ rules, r.bol = false → longest r.re s ≤ (pick rules bol s).2 := by
  induction rules with
  | nil => intro r h; simp at h
  | cons r0 rs ih =>
    intro r hr hb
    simp only [pick]
    rcases List.mem_cons.mp hr with rfl | hr
    · have hc : cand r bol s = longest r.re s := by simp [cand, hb]
      split
      · simp [hc]
      · rename_i h
        rw [hc] at h
        omega
    · have := ih r hr hb
      split
      · rename_i h
        simp only
        omega
      · exact this

theorem pick_pos (rules : List Rule) (h : HasAny rules) (bol : Bool) (c : UInt8) (t : Bytes) :
    1 ≤ (pick rules bol (c :: t)).2 := by
  obtain ⟨r, hr, hb, hl⟩ := h
  have := pick_ge rules bol (c :: t) r hr hb
  have := hl c t
  omega

theorem pick_local (rules : List Rule) (h : RulesLocal rules) (bol : Bool) (a q : Bytes) (ha : a ≠ []) :
    pick rules bol (a ++ 10 :: q) = pick rules bol a := by
  induction rules with
  | nil => simp [pick]
  | cons r rs ih =>
    have hr : lineLocal r.re = true := h r (by simp)
    have ih' := ih (fun x hx => h x (by simp [hx]))
    have hc : cand r bol (a ++ 10 :: q) = cand r bol a := by
      simp only [cand, longest, matchLens_lineLocal q r.re hr a ha]
    simp only [pick, hc, ih']

theorem pick_nl (rules : List Rule) (h : RulesLocal rules) (bol : Bool) (q : Bytes) :
    pick rules bol (10 :: q) = pick rules bol [10] := by
  induction rules with
  | nil => simp [pick]
  | cons r rs ih =>
    have hr : lineLocal r.re = true := h r (by simp)
    have ih' := ih (fun x hx => h x (by simp [hx]))
    have hc : cand r bol (10 :: q) = cand r bol [10] := by
      simp only [cand, longest, matchLens_lineLocal_nl q r.re hr]
    simp only [pick, hc, ih']

/-- Every rule of tokenizer.lex, in each start condition, is line-local. -/
theorem rulesOf_local (st : St) : RulesLocal (rulesOf st) := by
  have h : ∀ st, (rulesOf st).all (fun r => lineLocal r.re) = true := by
    intro st; cases st <;> decide
  intro r hr
  exact List.all_eq_true.mp (h st) r hr

theorem longest_any (c : UInt8) (t : Bytes) : longest (.cls anyByte) (c :: t) = 1 := by
  simp [longest, matchLens, anyByte, maxL]

/-- Each start condition has a rule that accepts any single byte. -/
theorem rulesOf_hasAny (st : St) : HasAny (rulesOf st) := by
  cases st
  · refine ⟨{ code := none, re := .cls anyByte, src := ".|\\n" }, by simp [rulesOf, rulesInitial], rfl, ?_⟩
    intro c t; simp [longest, matchLens, anyByte, maxL]
  · refine ⟨{ code := some tCOMMENTSTR, re := .cls anyByte, src := "<COMMENT>.|\\n" }, by simp [rulesOf, rulesComment], rfl, ?_⟩
    intro c t; simp [longest, matchLens, anyByte, maxL]
  · refine ⟨rulesLiteral[1], by simp [rulesOf, rulesLiteral], rfl, ?_⟩
    intro c t
    simp only [rulesLiteral, List.getElem_cons_succ, List.getElem_cons_zero, longest, matchLens, anyByte, if_true]
    simp only [List.cons_append, List.nil_append, maxL]
    omega

/-! ### scanning a buffer -/

theorem lexAll_nil (fuel : Nat) (st : St) (bol : Bool) : lexAll fuel st bol [] = ([], st) := by
  cases fuel <;> rfl

/-- Enough fuel is enough: the result does not depend on it. -/
theorem lexAll_fuel : ∀ (f1 f2 : Nat) (st : St) (bol : Bool) (s : Bytes), s.length ≤ f1 → s.length ≤ f2 →
    lexAll f1 st bol s = lexAll f2 st bol s := by
  intro f1
  induction f1 with
  | zero =>
    intro f2 st bol s h1 _
    have : s = [] := List.eq_nil_of_length_eq_zero (by omega)
    subst this
    rw [lexAll_nil, lexAll_nil]
  | succ f1 ih =>
    intro f2 st bol s h1 h2
    cases s with
    | nil => rw [lexAll_nil, lexAll_nil]
    | cons c t =>
      cases f2 with
      | zero => simp at h2
      | succ f2 =>
        simp only [lexAll]
        split
        · rfl
        · rename_i hm
          have hd : ((c :: t).drop (pick (rulesOf st) bol (c :: t)).2).length ≤ t.length := by
            simp only [List.length_drop, List.length_cons]; omega
          simp only [List.length_cons] at h1 h2
          rw [ih f2 _ _ _ (by omega) (by omega)]

/-- One step of `lex` on a non-empty buffer. -/
theorem lex_cons (st : St) (bol : Bool) (c : UInt8) (t : Bytes) :
    lex st bol (c :: t) =
      if (pick (rulesOf st) bol (c :: t)).2 = 0 then ([], st) else
        (emit (pick (rulesOf st) bol (c :: t)).1 ((c :: t).take (pick (rulesOf st) bol (c :: t)).2) ++
          (lex (nextSt st (pick (rulesOf st) bol (c :: t)).1)
            (endsNl ((c :: t).take (pick (rulesOf st) bol (c :: t)).2))
            ((c :: t).drop (pick (rulesOf st) bol (c :: t)).2)).1,
         (lex (nextSt st (pick (rulesOf st) bol (c :: t)).1)
            (endsNl ((c :: t).take (pick (rulesOf st) bol (c :: t)).2))
            ((c :: t).drop (pick (rulesOf st) bol (c :: t)).2)).2) := by
  simp only [lex, List.length_cons, lexAll]
  split
  · rfl
  · rename_i hm
    have hd : ((c :: t).drop (pick (rulesOf st) bol (c :: t)).2).length ≤ t.length := by
      simp only [List.length_drop, List.length_cons]; omega
    rw [lexAll_fuel t.length _ _ _ _ hd (Nat.le_refl _)]

theorem lex_nil (st : St) (bol : Bool) : lex st bol [] = ([], st) := rfl

/-- The token at a '\n' is one byte long and the scanner is then at the beginning of a line. -/
theorem lex_nl (st : St) (bol : Bool) (q : Bytes) :
    lex st bol (10 :: q) =
      ((lex st bol [10]).1 ++ (lex (lex st bol [10]).2 true q).1, (lex (lex st bol [10]).2 true q).2) := by
  have hp := pick_nl (rulesOf st) (rulesOf_local st) bol q
  have h1 := pick_pos (rulesOf st) (rulesOf_hasAny st) bol 10 []
  have h2 := pick_le (rulesOf st) bol [10]
  have hn : (pick (rulesOf st) bol [10]).2 = 1 := by simp at h2; omega
  rw [lex_cons, lex_cons st bol 10 [], hp, hn]
  simp [lex_nil, endsNl]

/-- **Key lemma.** Scanning a buffer up to and including a '\n', then the rest as a new buffer
(beginning-of-line set, start condition carried over), is scanning the whole buffer. -/
theorem lex_split (q : Bytes) : ∀ (k : Nat) (a : Bytes), a.length ≤ k → ∀ (st : St) (bol : Bool),
    lex st bol (a ++ 10 :: q) =
      ((lex st bol (a ++ [10])).1 ++ (lex (lex st bol (a ++ [10])).2 true q).1,
       (lex (lex st bol (a ++ [10])).2 true q).2) := by
  intro k
  induction k with
  | zero =>
    intro a ha st bol
    have : a = [] := List.eq_nil_of_length_eq_zero (by omega)
    subst this
    exact lex_nl st bol q
  | succ k ih =>
    intro a ha st bol
    cases a with
    | nil => exact lex_nl st bol q
    | cons c t =>
      have hne : (c :: t) ≠ [] := by simp
      have hp1 := pick_local (rulesOf st) (rulesOf_local st) bol (c :: t) q hne
      have hp2 := pick_local (rulesOf st) (rulesOf_local st) bol (c :: t) [] hne
      have h1 := pick_pos (rulesOf st) (rulesOf_hasAny st) bol c t
      have h2 := pick_le (rulesOf st) bol (c :: t)
      simp only [List.cons_append] at hp1 hp2
      simp only [List.cons_append]
      rw [lex_cons st bol c (t ++ 10 :: q), lex_cons st bol c (t ++ [10]), hp1, hp2]
      generalize hm : pick (rulesOf st) bol (c :: t) = m at h1 h2
      have hm0 : ¬ m.2 = 0 := by omega
      simp only [hm0, if_false]
      have e1 : (c :: (t ++ 10 :: q)).take m.2 = (c :: t).take m.2 := by
        rw [← List.cons_append, List.take_append_of_le_length h2]
      have e2 : (c :: (t ++ [10])).take m.2 = (c :: t).take m.2 := by
        rw [← List.cons_append, List.take_append_of_le_length h2]
      have e3 : (c :: (t ++ 10 :: q)).drop m.2 = (c :: t).drop m.2 ++ 10 :: q := by
        rw [← List.cons_append, List.drop_append_of_le_length h2]
      have e4 : (c :: (t ++ [10])).drop m.2 = (c :: t).drop m.2 ++ [10] := by
        rw [← List.cons_append, List.drop_append_of_le_length h2]
      rw [e1, e2, e3, e4]
      have hl : ((c :: t).drop m.2).length ≤ k := by
        simp only [List.length_drop, List.length_cons]
        simp only [List.length_cons] at ha
        omega
      rw [ih _ hl]
      simp [List.append_assoc]

/-! ### chunks -/

theorem truncNul_noNul : ∀ (c : Bytes), noNul c = true → truncNul c = c := by
  intro c
  induction c with
  | nil => intro _; rfl
  | cons x t ih =>
    intro h
    simp only [noNul, List.all_cons, Bool.and_eq_true] at h
    have hx : (x == 0) = false := by simpa using h.1
    simp only [truncNul, hx]
    rw [ih (by simpa [noNul] using h.2)]
    simp

theorem endsWithNl_split (c : Bytes) (h : endsWithNl c = true) : ∃ a, c = a ++ [10] := by
  simp only [endsWithNl, beq_iff_eq] at h
  refine ⟨c.dropLast, ?_⟩
  have hne : c ≠ [] := by intro h0; subst h0; simp at h
  rw [List.getLast?_eq_some_getLast hne] at h
  have h2 := List.dropLast_concat_getLast hne
  simp only [Option.some.injEq] at h
  rw [h] at h2
  exact h2.symm

/-- The chunk theorem with the start condition made explicit. -/
theorem lexChunksFrom_aligned : ∀ (frags : List Bytes) (st : St), aligned frags = true →
    (∀ c ∈ frags, noNul c = true) → lexChunksFrom st frags = (lex st true frags.flatten).1 := by
  intro frags
  induction frags with
  | nil => intro st _ _; rfl
  | cons c cs ih =>
    intro st hal hnn
    have hc : truncNul c = c := truncNul_noNul c (hnn c (by simp))
    cases cs with
    | nil =>
      cases c with
      | nil => rfl
      | cons x t =>
        simp only [lexChunksFrom, hc, List.flatten_cons, List.flatten_nil, List.append_nil]
    | cons c2 cs =>
      simp only [aligned, Bool.and_eq_true] at hal
      obtain ⟨a, rfl⟩ := endsWithNl_split c hal.1
      have ih' := ih (lex st true (a ++ [10])).2 hal.2 (fun x hx => hnn x (by simp [hx]))
      have hs := lex_split (c2 :: cs).flatten a.length a (Nat.le_refl _) st true
      have hfl : ((a ++ [10]) :: c2 :: cs).flatten = a ++ 10 :: (c2 :: cs).flatten := by
        simp [List.flatten_cons]
      rw [hfl, hs]
      cases a with
      | nil =>
        simp only [List.nil_append] at hc ih' ⊢
        simp only [lexChunksFrom, hc, ih']
      | cons x t =>
        simp only [List.cons_append] at hc ih' ⊢
        simp only [lexChunksFrom, hc, ih']

/-! ### lines and the line reader -/

def NlFree (p : Bytes) : Prop := ∀ x ∈ p, x ≠ 10

theorem NlFree.reverse {p : Bytes} (h : NlFree p) : NlFree p.reverse :=
  fun x hx => h x (List.mem_reverse.mp hx)

theorem splitLines_nlfree_nl (t : Bytes) : ∀ p : Bytes, NlFree p →
    splitLines (p ++ 10 :: t) = (p ++ [10]) :: splitLines t := by
  intro p
  induction p with
  | nil => intro _; simp [splitLines]
  | cons x p ih =>
    intro h
    have hx : (x == 10) = false := by simpa using h x (by simp)
    have := ih (fun y hy => h y (by simp [hy]))
    simp only [List.cons_append, splitLines, hx, this]
    simp

theorem splitLines_nlfree : ∀ p : Bytes, NlFree p → p ≠ [] → splitLines p = [p] := by
  intro p
  induction p with
  | nil => intro _ h; exact absurd rfl h
  | cons x p ih =>
    intro h _
    have hx : (x == 10) = false := by simpa using h x (by simp)
    cases p with
    | nil => simp [splitLines, hx]
    | cons y p =>
      have := ih (fun z hz => h z (by simp [hz])) (by simp)
      rw [splitLines]
      simp only [hx, this]
      simp

theorem splitLines_first_long (d : UInt8) (t : Bytes) : ∀ p : Bytes, NlFree p →
    ∃ l ls, splitLines (p ++ d :: t) = l :: ls ∧ p.length + 1 ≤ l.length := by
  intro p
  induction p with
  | nil =>
    intro _
    simp only [List.nil_append, splitLines]
    split
    · exact ⟨_, _, rfl, by simp⟩
    · split
      · exact ⟨_, _, rfl, by simp⟩
      · exact ⟨_, _, rfl, by simp⟩
  | cons x p ih =>
    intro h
    have hx : (x == 10) = false := by simpa using h x (by simp)
    obtain ⟨l, ls, e, hl⟩ := ih (fun y hy => h y (by simp [hy]))
    simp only [List.cons_append, splitLines, hx, e]
    exact ⟨_, _, rfl, by simp; omega⟩

theorem lineSplitAux_flatten (max : Nat) : ∀ (s cur : Bytes),
    (lineSplitAux max cur s).flatten = cur.reverse ++ s := by
  intro s
  induction s with
  | nil => intro cur; simp only [lineSplitAux]; split <;> simp_all
  | cons c t ih =>
    intro cur
    simp only [lineSplitAux]
    split
    · simp [ih]
    · simp [ih]

theorem lineSplit_flatten (max : Nat) (s : Bytes) : (lineSplit max s).flatten = s := by
  simp [lineSplit, lineSplitAux_flatten]

/-- When every line fits, the reader delivers exactly the lines. -/
theorem lineSplitAux_fit (max : Nat) : ∀ (s cur : Bytes), NlFree cur → (max = 0 ∨ cur.length < max) →
    LinesFit max (cur.reverse ++ s) → lineSplitAux max cur s = splitLines (cur.reverse ++ s) := by
  intro s
  induction s with
  | nil =>
    intro cur hc _ _
    simp only [lineSplitAux, List.append_nil]
    split
    · rename_i h; simp at h; subst h; rfl
    · rename_i h
      have hne : cur.reverse ≠ [] := by simpa using h
      rw [splitLines_nlfree cur.reverse (hc.reverse) hne]
  | cons c t ih =>
    intro cur hc hm hfit
    have hrev : NlFree cur.reverse := hc.reverse
    simp only [lineSplitAux]
    by_cases h10 : c = 10
    · subst h10
      have e := splitLines_nlfree_nl t cur.reverse hrev
      simp only [beq_self_eq_true, Bool.true_or, if_true, List.reverse_cons]
      rw [e]
      have hfit' : LinesFit max ([].reverse ++ t) := by
        intro l hl
        apply hfit l
        rw [e]; simp at hl; simp [hl]
      rw [ih [] (by intro x hx; simp at hx) (by simp at hm ⊢; omega) hfit']
      simp
    · have hx : (c == 10) = false := by simpa using h10
      simp only [hx, Bool.false_or]
      have hnl' : NlFree (c :: cur) := by
        intro x hx; rcases List.mem_cons.mp hx with rfl | hx
        · exact h10
        · exact hc x hx
      have eapp : (c :: cur).reverse ++ t = cur.reverse ++ c :: t := by simp
      split
      · rename_i hlen
        have hlen' : (c :: cur).length = max := by simpa using hlen
        -- the line already holds `max` bytes: the text must end here
        cases t with
        | nil =>
          have hne : (c :: cur).reverse ≠ [] := by simp
          have := splitLines_nlfree (c :: cur).reverse hnl'.reverse hne
          simp only [lineSplitAux, List.isEmpty_nil, if_true]
          rw [← eapp, List.append_nil, this]
        | cons d t' =>
          exfalso
          obtain ⟨l, ls, e, hl⟩ := splitLines_first_long d t' (c :: cur).reverse
            hnl'.reverse
          have := hfit l (by rw [← eapp, e]; simp)
          simp at hl hlen'
          omega
      · rename_i hlen
        have hlen' : ¬ (c :: cur).length = max := by simpa using hlen
        rw [ih (c :: cur) hnl' (by simp at hlen' ⊢; omega) (by rw [eapp]; exact hfit), eapp]

theorem endsWithNl_cons (c : UInt8) (l : Bytes) (hl : l ≠ []) : endsWithNl (c :: l) = endsWithNl l := by
  cases l with
  | nil => exact absurd rfl hl
  | cons x l => simp [endsWithNl, List.getLast?_cons_cons]

theorem aligned_cons (c : Bytes) (cs : List Bytes) (h1 : endsWithNl c = true) (h2 : aligned cs = true) :
    aligned (c :: cs) = true := by
  cases cs with
  | nil => rfl
  | cons d ds => simp [aligned, h1, h2]

theorem splitLines_ne_nil : ∀ (s : Bytes), ∀ l ∈ splitLines s, l ≠ [] := by
  intro s
  induction s with
  | nil => intro l h; simp [splitLines] at h
  | cons c t ih =>
    intro l h
    simp only [splitLines] at h
    split at h
    · rcases List.mem_cons.mp h with rfl | h
      · simp
      · exact ih l h
    · split at h
      · simp at h; subst h; simp
      · rename_i l0 ls e
        rcases List.mem_cons.mp h with rfl | h
        · simp
        · exact ih l (by rw [e]; simp [h])

theorem splitLines_aligned : ∀ (s : Bytes), aligned (splitLines s) = true := by
  intro s
  induction s with
  | nil => rfl
  | cons c t ih =>
    simp only [splitLines]
    split
    · exact aligned_cons _ _ (by simp [endsWithNl]) ih
    · split
      · rfl
      · rename_i l ls e
        rw [e] at ih
        cases ls with
        | nil => rfl
        | cons l2 ls =>
          simp only [aligned, Bool.and_eq_true] at ih ⊢
          have hl : l ≠ [] := splitLines_ne_nil t l (by rw [e]; simp)
          rw [endsWithNl_cons c l hl]
          exact ih

/-- Shape of a reader chunk: newline-free bytes, then possibly one '\n'. -/
def LineChunk (c : Bytes) : Prop := ∃ p, NlFree p ∧ (c = p ++ [10] ∨ (c = p ∧ p ≠ []))

theorem lineSplitAux_chunks (max : Nat) : ∀ (s cur : Bytes), NlFree cur →
    ∀ c ∈ lineSplitAux max cur s, LineChunk c := by
  intro s
  induction s with
  | nil =>
    intro cur hc c h
    simp only [lineSplitAux] at h
    split at h
    · simp at h
    · rename_i hne
      simp at h; subst h
      exact ⟨cur.reverse, hc.reverse, Or.inr ⟨rfl, by simpa using hne⟩⟩
  | cons x t ih =>
    intro cur hc c h
    simp only [lineSplitAux] at h
    by_cases h10 : x = 10
    · subst h10
      simp only [beq_self_eq_true, Bool.true_or, if_true] at h
      rcases List.mem_cons.mp h with rfl | h
      · exact ⟨cur.reverse, hc.reverse, Or.inl (by simp)⟩
      · exact ih [] (by intro y hy; simp at hy) c h
    · have hx : (x == 10) = false := by simpa using h10
      have hnl' : NlFree (x :: cur) := by
        intro y hy; rcases List.mem_cons.mp hy with rfl | hy
        · exact h10
        · exact hc y hy
      simp only [hx, Bool.false_or] at h
      split at h
      · rcases List.mem_cons.mp h with rfl | h
        · exact ⟨(x :: cur).reverse, hnl'.reverse, Or.inr ⟨rfl, by simp⟩⟩
        · exact ih [] (by intro y hy; simp at hy) c h
      · exact ih (x :: cur) hnl' c h

theorem lineSplitAux_len (max : Nat) (hmax : 1 ≤ max) : ∀ (s cur : Bytes), cur.length < max →
    ∀ c ∈ lineSplitAux max cur s, c.length ≤ max := by
  intro s
  induction s with
  | nil =>
    intro cur hc c h
    simp only [lineSplitAux] at h
    split at h
    · simp at h
    · simp at h; subst h; simp; omega
  | cons x t ih =>
    intro cur hc c h
    simp only [lineSplitAux] at h
    split at h
    · rcases List.mem_cons.mp h with rfl | h
      · simp; omega
      · exact ih [] (by simp; omega) c h
    · rename_i hcond
      simp only [Bool.or_eq_true, beq_iff_eq, not_or] at hcond
      have : (x :: cur).length ≠ max := hcond.2
      exact ih (x :: cur) (by simp at this ⊢; omega) c h

/-- Line-shaped, line-aligned chunks are the lines of their concatenation. -/
theorem splitLines_flatten : ∀ (cs : List Bytes), (∀ c ∈ cs, LineChunk c) → aligned cs = true →
    splitLines cs.flatten = cs := by
  intro cs
  induction cs with
  | nil => intro _ _; rfl
  | cons c cs ih =>
    intro hch hal
    obtain ⟨p, hp, hc⟩ := hch c (by simp)
    cases cs with
    | nil =>
      rcases hc with rfl | ⟨rfl, hne⟩
      · have := splitLines_nlfree_nl [] p hp
        simp only [List.flatten_cons, List.flatten_nil, List.append_nil]
        rw [this]; rfl
      · simp only [List.flatten_cons, List.flatten_nil, List.append_nil]
        exact splitLines_nlfree c hp hne
    | cons d ds =>
      simp only [aligned, Bool.and_eq_true] at hal
      have ih' := ih (fun x hx => hch x (by simp [hx])) hal.2
      rcases hc with rfl | ⟨rfl, hne⟩
      · have : ((p ++ [10]) :: d :: ds).flatten = p ++ 10 :: (d :: ds).flatten := by simp
        rw [this, splitLines_nlfree_nl _ p hp, ih']
      · -- a newline-free chunk cannot end with '\n'
        exfalso
        obtain ⟨a, ha⟩ := endsWithNl_split c hal.1
        exact hp 10 (by rw [ha]; simp) rfl

/-! ### carriage returns -/

theorem stripCr_crlfToLf (t : Bytes) : stripCr (crlfToLf t) = stripCr t := by
  fun_induction crlfToLf t with
  | case1 => rfl
  | case2 c => rfl
  | case3 c d t h ih =>
    simp only [Bool.and_eq_true, beq_iff_eq] at h
    obtain ⟨rfl, rfl⟩ := h
    simp only [stripCr] at ih ⊢
    simp [ih]
  | case4 c d t h ih =>
    simp only [stripCr] at ih ⊢
    simp only [List.filter_cons, ih]

theorem stripCr_lfToCrlf (t : Bytes) : stripCr (lfToCrlf t) = stripCr t := by
  induction t with
  | nil => rfl
  | cons c t ih =>
    simp only [lfToCrlf]
    simp only [stripCr] at ih ⊢
    split
    · rename_i h
      have : c = 10 := by simpa using h
      subst this
      simp [ih]
    · simp only [List.filter_cons, ih]

/-- Without a lone CR, dropping every CR is turning CRLF line ends into LF line ends. -/
theorem stripCr_eq_crlfToLf (t : Bytes) (h : loneCr t = false) : stripCr t = crlfToLf t := by
  fun_induction crlfToLf t with
  | case1 => rfl
  | case2 c =>
    have : ¬ c = 13 := by simpa [loneCr] using h
    simp [stripCr, this]
  | case3 c d t hc ih =>
    simp only [Bool.and_eq_true, beq_iff_eq] at hc
    obtain ⟨rfl, rfl⟩ := hc
    simp only [loneCr] at h
    have h2 : loneCr (10 :: t) = false := by simpa using h
    have h3 : loneCr t = false := by
      cases t with
      | nil => rfl
      | cons e t => simpa [loneCr] using h2
    simp only [stripCr] at ih ⊢
    simp [ih h3]
  | case4 c d t hc ih =>
    simp only [loneCr, Bool.or_eq_false_iff, Bool.and_eq_false_iff] at h
    have hc13 : (c != 13) = true := by
      simp only [Bool.and_eq_true, beq_iff_eq, not_and] at hc
      rcases h.1 with h1 | h1
      · simpa using h1
      · have hd : d = 10 := by simpa using h1
        have : ¬ c = 13 := fun hh => hc hh hd
        simpa using this
    simp only [stripCr] at ih ⊢
    simp only [List.filter_cons, hc13, if_true, ih h.2]

theorem noNul_of_flatten (cs : List Bytes) (h : noNul cs.flatten = true) : ∀ c ∈ cs, noNul c = true := by
  intro c hc
  simp only [noNul, List.all_eq_true] at h ⊢
  intro x hx
  exact h x (List.mem_flatten.mpr ⟨c, hc, hx⟩)

theorem noNul_stripCr (t : Bytes) (h : noNul t = true) : noNul (stripCr t) = true := by
  simp only [noNul, stripCr, List.all_eq_true] at h ⊢
  intro x hx
  exact h x (List.mem_filter.mp hx).1

end BlocV.Lex
