/-
  Helper lemmas for the C15R3 part of Proofs/C15.lean: the catalog index of a generated operator text, the
  invariant "a rejected parse touches nothing" (`Untouched`), results of a sequence position by position
  (`runSeq_out`), and "what one call can do to a held stop condition" (`step_stop_held`). No property theorem here.
-/
import BlocV.Model.CApi
import BlocV.Proofs.Lemmas.CApi

namespace BlocV.C15
open BlocV BlocV.CApi


theorem filter_getElem?_countP {α} (p : α → Bool) : ∀ (l : List α) (i : Nat) (a : α),
    l[i]? = some a → p a = true → (l.filter p)[(l.take i).countP p]? = some a
  | [], i, a, h, _ => by simp at h
  | b :: l, 0, a, h, hp => by
    simp at h; subst h; simp [List.filter, hp]
  | b :: l, i + 1, a, h, hp => by
    simp at h
    have ih := filter_getElem?_countP p l i a h hp
    by_cases hb : p b = true
    · simp [List.filter, hb, List.countP_cons, ih]
    · simp [List.filter, hb, List.countP_cons, ih]

theorem opBad_expr_lookup (i : Nat) (oc : OpCase) (h : opCases[i]? = some oc) (hr : oc.rejected = true) :
    badExprs[opBadIndex handBadExprs.length i]? = some oc.badExpr := by
  unfold badExprs opBadIndex genBadExprs
  rw [List.getElem?_append_right (Nat.le_add_right _ _), Nat.add_sub_cancel_left, List.getElem?_map,
    filter_getElem?_countP OpCase.rejected opCases i oc h hr]
  rfl

theorem opBad_prog_lookup (i : Nat) (oc : OpCase) (h : opCases[i]? = some oc) (hr : oc.rejected = true) :
    badProgs[opBadIndex handBadProgs.length i]? = some oc.badProg := by
  unfold badProgs opBadIndex genBadProgs
  rw [List.getElem?_append_right (Nat.le_add_right _ _), Nat.add_sub_cancel_left, List.getElem?_map,
    filter_getElem?_countP OpCase.rejected opCases i oc h hr]
  rfl



/-- every variable the text reads is registered in `x` with the type the text was generated for -/
def _root_.BlocV.CApi.OpCase.symsOk (oc : OpCase) (x : Ctx) : Prop := ∀ p ∈ oc.vars, symTyOf x p.1 = some p.2

theorem needWalk_ok (x : Ctx) (code : Nat) : ∀ (l : List (String × Ty)), (∀ p ∈ l, symTyOf x p.1 = some p.2) →
    needWalk x code l = some code
  | [], _ => rfl
  | p :: ps, h => by
    have hp := h p (by simp)
    simp only [needWalk, hp, beq_self_eq_true, ↓reduceIte]
    exact needWalk_ok x code ps (fun q hq => h q (by simp [hq]))

theorem codeIn_of_symsOk (oc : OpCase) (x : Ctx) (h : oc.symsOk x) :
    oc.badExpr.codeIn x = some Gen.EXC_PARSE_TYPE_MISMATCH_S := by
  unfold BadText.codeIn
  apply needWalk_ok
  intro p hp
  apply h p
  show p ∈ oc.badExpr.needSyms
  split at hp
  · exact List.mem_of_mem_take hp
  · exact hp

theorem ctx_lt_of_getCtx {s : State} {c : Nat} {x : Ctx} (hx : getCtx s c = some x) : c < s.ctxs.length := by
  have hc := (getCtx_eq_some s c x).1 hx
  rcases Nat.lt_or_ge c s.ctxs.length with h | h
  · exact h
  · rw [List.getElem?_eq_none h] at hc; exact absurd hc.1 (by simp)



/-- a parse call on a text of the catalogs of rejected texts -/
def isBadParse : Op → Bool
  | .eparse _ _ (.bad _) => true
  | .xparse _ _ (.bad _) _ => true
  | _ => false

/-- Context `y'` is `y` except for its epoch, symbols appended behind the existing ones and symbol types restored
(`parsingEnd`): same liveness, generation, functions, returned value, stop condition; every variable keeps its value. -/
def CtxKept (y y' : Ctx) : Prop :=
  y'.live = y.live ∧ y'.gen = y.gen ∧ y'.funcs = y.funcs ∧ y'.returned = y.returned ∧ y'.stop = y.stop ∧
  (∀ (i : Nat) (v : Val), y.vals[i]? = some v → y'.vals[i]? = some v)

/-- Nothing the host owns changed and no handle was created: all five handle tables are the same, and every context
is kept in the sense of `CtxKept`. -/
def Untouched (s s' : State) : Prop :=
  s'.exprs = s.exprs ∧ s'.execs = s.execs ∧ s'.syms = s.syms ∧ s'.vals = s.vals ∧ s'.sinks = s.sinks ∧
  ∀ (d : Nat) (y : Ctx), s.ctxs[d]? = some y → ∃ y', s'.ctxs[d]? = some y' ∧ CtxKept y y'

theorem CtxKept.refl (y : Ctx) : CtxKept y y := ⟨rfl, rfl, rfl, rfl, rfl, fun _ _ h => h⟩

theorem Untouched.refl (s : State) : Untouched s s :=
  ⟨rfl, rfl, rfl, rfl, rfl, fun _ y h => ⟨y, h, CtxKept.refl y⟩⟩

theorem Untouched.trans {s s1 s2 : State} (h1 : Untouched s s1) (h2 : Untouched s1 s2) : Untouched s s2 := by
  obtain ⟨a1, a2, a3, a4, a5, a6⟩ := h1
  obtain ⟨b1, b2, b3, b4, b5, b6⟩ := h2
  refine ⟨b1.trans a1, b2.trans a2, b3.trans a3, b4.trans a4, b5.trans a5, ?_⟩
  intro d y hy
  obtain ⟨y1, hy1, k1⟩ := a6 d y hy
  obtain ⟨y2, hy2, k2⟩ := b6 d y1 hy1
  refine ⟨y2, hy2, k2.1.trans k1.1, k2.2.1.trans k1.2.1, k2.2.2.1.trans k1.2.2.1, k2.2.2.2.1.trans k1.2.2.2.1,
    k2.2.2.2.2.1.trans k1.2.2.2.2.1, fun i v h => k2.2.2.2.2.2 i v (k1.2.2.2.2.2 i v h)⟩

/-- replacing context `c` by a kept version of itself leaves the state untouched -/
theorem untouched_set (s s' : State) (c : Nat) (x x' : Ctx) (hx : s.ctxs[c]? = some x) (hk : CtxKept x x')
    (h1 : s'.exprs = s.exprs) (h2 : s'.execs = s.execs) (h3 : s'.syms = s.syms) (h4 : s'.vals = s.vals) (h5 : s'.sinks = s.sinks)
    (hc : s'.ctxs = s.ctxs.set c x') : Untouched s s' := by
  refine ⟨h1, h2, h3, h4, h5, ?_⟩
  intro d y hy
  rw [hc, List.getElem?_set]
  by_cases hd : c = d
  · subst hd
    have hlt : c < s.ctxs.length := by
      rcases Nat.lt_or_ge c s.ctxs.length with h | h
      · exact h
      · rw [List.getElem?_eq_none h] at hx; cases hx
    rw [hx] at hy; cases hy
    exact ⟨x', by simp [hlt], hk⟩
  · exact ⟨y, by simp [hd, hy], CtxKept.refl y⟩

theorem step_badParse_untouched (s : State) (o : Op) (h : isBadParse o = true) : Untouched s (step s o).1 := by
  cases o <;> simp only [isBadParse] at h <;> try cases h
  case eparse c e t =>
    cases t with
    | good _ => simp [isBadParse] at h
    | bad k =>
      simp only [step, opEparse]
      split
      · rename_i x hx hslot
        have hxc := (getCtx_eq_some s c x).1 hx
        split
        · rename_i bt hb
          split
          · exact untouched_set s _ c x { x with epoch := s.clock } hxc.1 (CtxKept.refl x) rfl rfl rfl rfl rfl rfl
          · exact untouched_set s _ c x { x with epoch := s.clock } hxc.1 (CtxKept.refl x) rfl rfl rfl rfl rfl rfl
        · exact Untouched.refl s
      · exact Untouched.refl s
  case xparse c xi t pos =>
    cases t with
    | good _ => simp [isBadParse] at h
    | bad k =>
      simp only [step, opXparse]
      split
      · rename_i x hx hslot
        have hxc := (getCtx_eq_some s c x).1 hx
        split
        · rename_i bt hb
          have hf := addSyms_fields bt.newSyms x
          refine untouched_set s _ c x { restoreBacked (addSyms x bt.newSyms) with epoch := s.clock } hxc.1 ?_ rfl rfl rfl rfl rfl rfl
          exact ⟨hf.1, hf.2.1, hf.2.2.1, hf.2.2.2.2.1, hf.2.2.2.1, hf.2.2.2.2.2.2⟩
        · exact Untouched.refl s
      · exact Untouched.refl s



/-- The i-th result of a sequence is the result of the i-th call in the state the calls before it produced: every
single-call contract holds at every position of every call sequence. -/
theorem runSeq_out : ∀ (ops : List Op) (s : State) (i : Nat) (o : Op), ops[i]? = some o →
    (runSeq s ops).2[i]? = some (step (runSeq s (ops.take i)).1 o).2
  | [], _, _, _, h => by simp at h
  | o' :: os, s, 0, o, h => by
    simp at h; subst h; simp [runSeq]
  | o' :: os, s, i + 1, o, h => by
    simp at h
    simp only [runSeq, List.take_succ_cons, List.getElem?_cons_succ]
    exact runSeq_out os (step s o').1 i o h

/-- calls that end a held stop condition of context c: `bloc_reset_stop`, `bloc_ctx_purge`, `bloc_free_context` -/
def releases (c : Nat) : Op → Bool
  | .rst c' => c' == c
  | .cpurge c' => c' == c
  | .cfree c' => c' == c
  | _ => false

theorem storeInto_stop {x x' : Ctx} {id : Nat} {b : Val} (h : storeInto x id b = .ok x') : x'.stop = x.stop ∧ x'.live = x.live := by
  unfold storeInto at h
  split at h
  · split at h
    · cases h; simp
    · split at h
      · cases h
      · cases h; simp
  · cases h; simp

theorem registerSym_stop (x : Ctx) (name : String) (ty : Ty) :
    (registerSym x name ty).1.stop = x.stop ∧ (registerSym x name ty).1.live = x.live := by
  unfold registerSym
  repeat' split
  all_goals simp

theorem restoreBacked_stop (x : Ctx) : (restoreBacked x).stop = x.stop ∧ (restoreBacked x).live = x.live := ⟨rfl, rfl⟩

theorem compileInto_stop (x : Ctx) (p : List Stmt) : (compileInto x p).stop = x.stop ∧ (compileInto x p).live = x.live :=
  ⟨(addSyms_fields _ _).2.2.2.1, (addSyms_fields _ _).1⟩

theorem step_ctxs_length (s s1 : State) (out : Out) (o : Op) (hr : step s o = (s1, out)) : s1.ctxs.length = s.ctxs.length := by
  cases o <;> simp only [step] at hr
  all_goals (
    simp only [opCnew, opCclone, opCfree, opCpurge, opCpwm, opReg, opStore, opAssign, opEparse, opEval, opXparse, opExec, opExec2, runIn,
      opDrop, opStop, opCreate, opFind, opLoad, opVfree, opVdump, opEfree, opEtype, opAcc, opItem, opXfree, opOut,
      killBoxItems, killCtxItems, killExprVals, Out.pre, Out.of] at hr
    (repeat' split at hr) <;> (simp only [Prod.mk.injEq] at hr; obtain ⟨rfl, _⟩ := hr) <;> simp)

theorem exprUsable_some {s : State} {e c : Nat} {x : Ctx} {h : ExprH} (hu : exprUsable s e c = some (x, h)) : getCtx s c = some x := by
  unfold exprUsable at hu
  split at hu
  · split at hu <;> simp_all
  · simp at hu

theorem held_set (s : State) (ctxs1 : List Ctx) (c c' : Nat) (x x1 y : Ctx) (h0 : s.ctxs[c]? = some x)
    (hl : x.live = true) (hs : x.stop = true) (hc : ctxs1 = s.ctxs.set c' y) (h1 : ctxs1[c]? = some x1)
    (hy : c' = c → y.live = true ∧ y.stop = true) : x1.live = true ∧ x1.stop = true := by
  rw [hc, List.getElem?_set] at h1
  split at h1
  · rename_i hcc
    split at h1
    · cases h1; exact hy hcc
    · cases h1
  · rw [h0] at h1; cases h1; exact ⟨hl, hs⟩

theorem getCtx_same {s : State} {c : Nat} {x x' : Ctx} (h0 : s.ctxs[c]? = some x) (hg : getCtx s c = some x') : x' = x := by
  have := ((getCtx_eq_some s c x').1 hg).1
  rw [h0] at this; cases this; rfl

theorem step_stop_held (s s1 : State) (out : Out) (o : Op) (c : Nat) (x x1 : Ctx) (hr : step s o = (s1, out))
    (h0 : s.ctxs[c]? = some x) (h1 : s1.ctxs[c]? = some x1) (hl : x.live = true) (hs : x.stop = true)
    (hrel : releases c o = false) : x1.live = true ∧ x1.stop = true := by
  cases o <;> simp only [step] at hr
  all_goals first
    | (simp only [opFind, opLoad, opCreate, opVfree, opVdump, opEfree, opEtype, opAcc, opItem,
        opXfree, opOut, killBoxItems, killExprVals, Out.pre, Out.of] at hr
       (repeat' split at hr) <;> (simp only [Prod.mk.injEq] at hr; obtain ⟨rfl, _⟩ := hr) <;> simp_all; done)
    | skip
  all_goals first
    | (simp only [opCnew, opCclone, opCpwm, opAssign, opEparse, opEval, opExec, opExec2, runIn,
        opDrop, opStop, opCreate, killBoxItems, killCtxItems, killExprVals, Out.pre, Out.of] at hr
       (repeat' split at hr) <;> (simp only [Prod.mk.injEq] at hr; obtain ⟨rfl, _⟩ := hr) <;> simp_all [releases, List.getElem?_set, getCtx_eq_some]
       <;> (repeat' split at h1) <;> simp_all <;> (try subst_vars) <;> simp_all; done)
    | skip
  case cfree c' =>
    have hne : c' ≠ c := by simpa [releases] using hrel
    simp only [opCfree, Out.pre] at hr
    split at hr <;> (simp only [Prod.mk.injEq] at hr; obtain ⟨rfl, _⟩ := hr)
    · exact held_set s _ c c' x x1 _ h0 hl hs (by simp; rfl) h1 (fun h => absurd h hne)
    · rw [h0] at h1; cases h1; exact ⟨hl, hs⟩
  case cpurge c' =>
    have hne : c' ≠ c := by simpa [releases] using hrel
    simp only [opCpurge, Out.pre] at hr
    split at hr <;> (simp only [Prod.mk.injEq] at hr; obtain ⟨rfl, _⟩ := hr)
    · exact held_set s _ c c' x x1 _ h0 hl hs (by simp; rfl) h1 (fun h => absurd h hne)
    · rw [h0] at h1; cases h1; exact ⟨hl, hs⟩
  case reg c' sh name major ndim =>
    simp only [opReg, Out.pre] at hr
    split at hr
    · rename_i x' hg
      split at hr
      · simp only [Prod.mk.injEq] at hr; obtain ⟨rfl, _⟩ := hr
        rw [h0] at h1; cases h1; exact ⟨hl, hs⟩
      · have hst := registerSym_stop x' name { major := major, minor := 0, level := ndim }
        split at hr <;> rename_i x'' _ heq <;> (simp only [Prod.mk.injEq] at hr; obtain ⟨rfl, _⟩ := hr) <;>
          (rw [heq] at hst
           refine held_set s _ c c' x x1 { x'' with epoch := s.clock } h0 hl hs (by simp [setErr]) h1 ?_
           intro hcc; subst hcc
           have := getCtx_same h0 hg; subst this
           exact ⟨by simpa using hst.2.trans hl, by simpa using hst.1.trans hs⟩)
    · simp only [Prod.mk.injEq] at hr; obtain ⟨rfl, _⟩ := hr
      rw [h0] at h1; cases h1; exact ⟨hl, hs⟩
  case store c' sh v f =>
    simp only [opStore, Out.pre, Out.of] at hr
    split at hr
    · rename_i x' id b hsl hv
      have hg := symLive_some hsl
      split at hr
      · rename_i x'' hst
        have hk := storeInto_stop hst
        simp only [Prod.mk.injEq] at hr; obtain ⟨rfl, _⟩ := hr
        refine held_set s _ c c' x x1 x'' h0 hl hs (by split <;> simp [killCtxItems, killBoxItems]) h1 ?_
        intro hcc; subst hcc
        have := getCtx_same h0 hg; subst this
        exact ⟨hk.2.trans hl, hk.1.trans hs⟩
      · simp only [Prod.mk.injEq] at hr; obtain ⟨rfl, _⟩ := hr
        rw [ctxs_setErr, h0] at h1; cases h1; exact ⟨hl, hs⟩
    · simp only [Prod.mk.injEq] at hr; obtain ⟨rfl, _⟩ := hr
      rw [h0] at h1; cases h1; exact ⟨hl, hs⟩
  case xparse c' xi t pos =>
    simp only [opXparse, Out.pre] at hr
    split at hr
    · rename_i x' hg hslot
      split at hr
      · rename_i prog
        simp only [Prod.mk.injEq] at hr; obtain ⟨rfl, _⟩ := hr
        have hst := compileInto_stop x' prog
        refine held_set s _ c c' x x1 { compileInto x' prog with epoch := s.clock } h0 hl hs (by simp) h1 ?_
        intro hcc; subst hcc
        have := getCtx_same h0 hg; subst this
        exact ⟨by simpa using hst.2.trans hl, by simpa using hst.1.trans hs⟩
      · split at hr
        · rename_i bt hb
          simp only [Prod.mk.injEq] at hr; obtain ⟨rfl, _⟩ := hr
          have hf := addSyms_fields bt.newSyms x'
          refine held_set s _ c c' x x1 { restoreBacked (addSyms x' bt.newSyms) with epoch := s.clock } h0 hl hs (by simp) h1 ?_
          intro hcc; subst hcc
          have := getCtx_same h0 hg; subst this
          exact ⟨by simpa [restoreBacked] using hf.1.trans hl, by simpa [restoreBacked] using hf.2.2.2.1.trans hs⟩
        · simp only [Prod.mk.injEq] at hr; obtain ⟨rfl, _⟩ := hr
          rw [h0] at h1; cases h1; exact ⟨hl, hs⟩
    · simp only [Prod.mk.injEq] at hr; obtain ⟨rfl, _⟩ := hr
      rw [h0] at h1; cases h1; exact ⟨hl, hs⟩
  case eval c' e w =>
    simp only [opEval, Out.pre] at hr
    split at hr
    · rename_i x' h hu
      have hg := exprUsable_some hu
      have key : ∀ (t : State), t.ctxs = s.ctxs.set c' { x' with epoch := s.clock } → t.ctxs[c]? = some x1 → x1.live = true ∧ x1.stop = true := by
        intro t ht h1'
        refine held_set s _ c c' x x1 { x' with epoch := s.clock } h0 hl hs ht h1' ?_
        intro hcc; subst hcc
        have := getCtx_same h0 hg; subst this
        exact ⟨hl, hs⟩
      split at hr
      · simp only [Prod.mk.injEq] at hr; obtain ⟨rfl, _⟩ := hr
        rw [h0] at h1; cases h1; exact ⟨hl, hs⟩
      · (repeat' split at hr) <;> (simp only [Prod.mk.injEq] at hr; obtain ⟨rfl, _⟩ := hr) <;> exact key _ (by simp) h1
    · simp only [Prod.mk.injEq] at hr; obtain ⟨rfl, _⟩ := hr
      rw [h0] at h1; cases h1; exact ⟨hl, hs⟩


/-! ### generations: what one call can do to the generation of a context slot -/


theorem storeInto_gen {x x' : Ctx} {id : Nat} {b : Val} (h : storeInto x id b = .ok x') : x'.gen = x.gen ∧ x'.live = x.live := by
  unfold storeInto at h
  split at h
  · split at h
    · cases h; simp
    · split at h
      · cases h
      · cases h; simp
  · cases h; simp

theorem registerSym_gen (x : Ctx) (name : String) (ty : Ty) :
    (registerSym x name ty).1.gen = x.gen ∧ (registerSym x name ty).1.live = x.live := by
  unfold registerSym
  repeat' split
  all_goals simp

theorem compileInto_gen (x : Ctx) (p : List Stmt) : (compileInto x p).gen = x.gen ∧ (compileInto x p).live = x.live :=
  ⟨(addSyms_fields _ _).2.1, (addSyms_fields _ _).1⟩

theorem writeBack_gen (x : Ctx) (vars : List (String × Val)) : (writeBack x vars).gen = x.gen ∧ (writeBack x vars).live = x.live :=
  ⟨(addSyms_fields _ _).2.1, (addSyms_fields _ _).1⟩

theorem gen_set (s : State) (ctxs1 : List Ctx) (c c' : Nat) (x x1 y : Ctx) (h0 : s.ctxs[c]? = some x)
    (hc : ctxs1 = s.ctxs.set c' y) (h1 : ctxs1[c]? = some x1)
    (hy : c' = c → y.gen = x.gen ∧ y.live = x.live) : x1.gen = x.gen ∧ x1.live = x.live := by
  rw [hc, List.getElem?_set] at h1
  split at h1
  · rename_i hcc
    split at h1
    · cases h1; exact hy hcc
    · cases h1
  · rw [h0] at h1; cases h1; exact ⟨rfl, rfl⟩

/-- `Executable::run` keeps generation and liveness of every context slot. -/
theorem runIn_gen (s : State) (c c' : Nat) (x x' x1 : Ctx) (prog : List Stmt) (h0 : s.ctxs[c]? = some x)
    (hg : getCtx s c' = some x') (h1 : (runIn s c' x' prog).1.ctxs[c]? = some x1) : x1.gen = x.gen ∧ x1.live = x.live := by
  generalize hE : execList x'.funcs 0 fuel prog { vars := ctxVars x', returned := x'.returned, out := [], budget := 300000 } = res at h1
  obtain ⟨r, st⟩ := res
  have wb := writeBack_gen x' st.vars
  have key : ∀ (t : State) (y : Ctx), t.ctxs = s.ctxs.set c' { y with epoch := s.clock } → y.gen = x'.gen → y.live = x'.live →
      t.ctxs[c]? = some x1 → x1.gen = x.gen ∧ x1.live = x.live := by
    intro t y ht hyg hyl h1'
    refine gen_set s _ c c' x x1 { y with epoch := s.clock } h0 ht h1' ?_
    intro hcc; subst hcc
    have := getCtx_same h0 hg; subst this
    exact ⟨hyg, hyl⟩
  simp only [runIn, hE] at h1
  split at h1
  · exact key _ x' (by simp) rfl rfl h1
  · cases r with
    | ok fl => exact key _ { writeBack x' st.vars with returned := st.returned, stop := fl == .ret } (by simp) wb.1 wb.2 h1
    | haz hz => exact key _ { writeBack x' st.vars with returned := st.returned } (by simp) wb.1 wb.2 h1
    | unmodelled => exact key _ { writeBack x' st.vars with returned := st.returned } (by simp) wb.1 wb.2 h1
    | err cd arg =>
      simp only at h1
      split at h1
      · exact key _ { writeBack x' st.vars with returned := st.returned } (by simp) wb.1 wb.2 h1
      · exact key _ { writeBack x' st.vars with returned := st.returned } (by simp) wb.1 wb.2 h1

/-- What one call can do to the generation of context slot `c`: it keeps generation and liveness, or installs the
clock value as the new generation and advances the clock (create, clone into, purge), or leaves the slot dead with
generation 0 (free). -/
theorem step_gen (s s1 : State) (out : Out) (o : Op) (c : Nat) (x x1 : Ctx) (hr : step s o = (s1, out))
    (h0 : s.ctxs[c]? = some x) (h1 : s1.ctxs[c]? = some x1) :
    (x1.gen = x.gen ∧ x1.live = x.live) ∨ (x1.gen = s.clock ∧ s1.clock = s.clock + 1) ∨ (x1.live = false ∧ x1.gen = 0) := by
  cases o <;> simp only [step] at hr
  all_goals first
    | (simp only [opFind, opLoad, opCreate, opVfree, opVdump, opEfree, opEtype, opAcc, opItem,
        opXfree, opOut, killBoxItems, killExprVals, Out.pre, Out.of] at hr
       (repeat' split at hr) <;> (simp only [Prod.mk.injEq] at hr; obtain ⟨rfl, _⟩ := hr) <;> simp_all; done)
    | skip
  all_goals first
    | (simp only [opCnew, opCclone, opCfree, opCpurge, opCpwm, opAssign, opEparse, opEval, opExec, opExec2, runIn,
        opDrop, opStop, opCreate, killBoxItems, killCtxItems, killExprVals, Out.pre, Out.of, purged] at hr
       (repeat' split at hr) <;> (simp only [Prod.mk.injEq] at hr; obtain ⟨rfl, _⟩ := hr) <;> simp_all [List.getElem?_set, getCtx_eq_some]
       <;> (repeat' split at h1) <;> simp_all <;> (try subst_vars) <;> simp_all; done)
    | skip
  case reg c' sh name major ndim =>
    simp only [opReg, Out.pre] at hr
    split at hr
    · rename_i x' hg
      split at hr
      · simp only [Prod.mk.injEq] at hr; obtain ⟨rfl, _⟩ := hr
        rw [h0] at h1; cases h1; exact .inl ⟨rfl, rfl⟩
      · have hst := registerSym_gen x' name { major := major, minor := 0, level := ndim }
        split at hr <;> rename_i x'' _ heq <;> (simp only [Prod.mk.injEq] at hr; obtain ⟨rfl, _⟩ := hr) <;>
          (rw [heq] at hst
           refine .inl (gen_set s _ c c' x x1 { x'' with epoch := s.clock } h0 (by simp [setErr]) h1 ?_)
           intro hcc; subst hcc
           have := getCtx_same h0 hg; subst this
           exact ⟨by simpa using hst.1, by simpa using hst.2⟩)
    · simp only [Prod.mk.injEq] at hr; obtain ⟨rfl, _⟩ := hr
      rw [h0] at h1; cases h1; exact .inl ⟨rfl, rfl⟩
  case store c' sh v f =>
    simp only [opStore, Out.pre, Out.of] at hr
    split at hr
    · rename_i x' id b hsl hv
      have hg := symLive_some hsl
      split at hr
      · rename_i x'' hst
        have hk := storeInto_gen hst
        simp only [Prod.mk.injEq] at hr; obtain ⟨rfl, _⟩ := hr
        refine .inl (gen_set s _ c c' x x1 x'' h0 (by split <;> simp [killCtxItems, killBoxItems]) h1 ?_)
        intro hcc; subst hcc
        have := getCtx_same h0 hg; subst this
        exact hk
      · simp only [Prod.mk.injEq] at hr; obtain ⟨rfl, _⟩ := hr
        rw [ctxs_setErr, h0] at h1; cases h1; exact .inl ⟨rfl, rfl⟩
    · simp only [Prod.mk.injEq] at hr; obtain ⟨rfl, _⟩ := hr
      rw [h0] at h1; cases h1; exact .inl ⟨rfl, rfl⟩
  case xparse c' xi t pos =>
    simp only [opXparse, Out.pre] at hr
    split at hr
    · rename_i x' hg hslot
      split at hr
      · rename_i prog
        simp only [Prod.mk.injEq] at hr; obtain ⟨rfl, _⟩ := hr
        have hst := compileInto_gen x' prog
        refine .inl (gen_set s _ c c' x x1 { compileInto x' prog with epoch := s.clock } h0 (by simp) h1 ?_)
        intro hcc; subst hcc
        have := getCtx_same h0 hg; subst this
        exact ⟨by simpa using hst.1, by simpa using hst.2⟩
      · split at hr
        · rename_i bt hb
          simp only [Prod.mk.injEq] at hr; obtain ⟨rfl, _⟩ := hr
          have hf := addSyms_fields bt.newSyms x'
          refine .inl (gen_set s _ c c' x x1 { restoreBacked (addSyms x' bt.newSyms) with epoch := s.clock } h0 (by simp) h1 ?_)
          intro hcc; subst hcc
          have := getCtx_same h0 hg; subst this
          exact ⟨by simpa [restoreBacked] using hf.2.1, by simpa [restoreBacked] using hf.1⟩
        · simp only [Prod.mk.injEq] at hr; obtain ⟨rfl, _⟩ := hr
          rw [h0] at h1; cases h1; exact .inl ⟨rfl, rfl⟩
    · simp only [Prod.mk.injEq] at hr; obtain ⟨rfl, _⟩ := hr
      rw [h0] at h1; cases h1; exact .inl ⟨rfl, rfl⟩
  case eval c' e w =>
    simp only [opEval, Out.pre] at hr
    split at hr
    · rename_i x' h hu
      have hg := exprUsable_some hu
      have key : ∀ (t : State), t.ctxs = s.ctxs.set c' { x' with epoch := s.clock } → t.ctxs[c]? = some x1 → x1.gen = x.gen ∧ x1.live = x.live := by
        intro t ht h1'
        refine gen_set s _ c c' x x1 { x' with epoch := s.clock } h0 ht h1' ?_
        intro hcc; subst hcc
        have := getCtx_same h0 hg; subst this
        exact ⟨rfl, rfl⟩
      split at hr
      · simp only [Prod.mk.injEq] at hr; obtain ⟨rfl, _⟩ := hr
        rw [h0] at h1; cases h1; exact .inl ⟨rfl, rfl⟩
      · (repeat' split at hr) <;> (simp only [Prod.mk.injEq] at hr; obtain ⟨rfl, _⟩ := hr) <;> exact .inl (key _ (by simp) h1)
    · simp only [Prod.mk.injEq] at hr; obtain ⟨rfl, _⟩ := hr
      rw [h0] at h1; cases h1; exact .inl ⟨rfl, rfl⟩
  case exec xi =>
    simp only [opExec, Out.pre] at hr
    split at hr
    · rename_i h hu
      split at hr
      · rename_i x' hg
        have : (runIn s h.ctx x' h.prog).1 = s1 := by rw [hr]
        subst this
        exact .inl (runIn_gen s c h.ctx x x' x1 h.prog h0 hg h1)
      · simp only [Prod.mk.injEq] at hr; obtain ⟨rfl, _⟩ := hr
        rw [h0] at h1; cases h1; exact .inl ⟨rfl, rfl⟩
    · simp only [Prod.mk.injEq] at hr; obtain ⟨rfl, _⟩ := hr
      rw [h0] at h1; cases h1; exact .inl ⟨rfl, rfl⟩
  case exec2 c' xi =>
    simp only [opExec2, Out.pre] at hr
    split at hr
    · rename_i x' h hg hu
      split at hr
      · have : (runIn s c' x' h.prog).1 = s1 := by rw [hr]
        subst this
        exact .inl (runIn_gen s c c' x x' x1 h.prog h0 hg h1)
      · simp only [Prod.mk.injEq] at hr; obtain ⟨rfl, _⟩ := hr
        rw [h0] at h1; cases h1; exact .inl ⟨rfl, rfl⟩
    · simp only [Prod.mk.injEq] at hr; obtain ⟨rfl, _⟩ := hr
      rw [h0] at h1; cases h1; exact .inl ⟨rfl, rfl⟩

/-- Every live state of context slot `c` has a generation ≥ G (and the clock has passed G). -/
def GenFloor (c G : Nat) (s : State) : Prop :=
  G ≤ s.clock ∧ ∀ (x : Ctx), s.ctxs[c]? = some x → x.live = true → G ≤ x.gen

theorem genFloor_step (c G : Nat) (s : State) (o : Op) (h : GenFloor c G s) : GenFloor c G (step s o).1 := by
  have hm := step_clock_mono s (step s o).1 (step s o).2 o rfl
  refine ⟨Nat.le_trans h.1 hm, ?_⟩
  intro x1 h1 hl1
  obtain ⟨x, h0⟩ := step_ctx_exists s _ _ o c x1 rfl h1
  rcases step_gen s _ _ o c x x1 rfl h0 h1 with ⟨hg, hl⟩ | ⟨hg, _⟩ | ⟨hd, _⟩
  · rw [hg]; exact h.2 x h0 (by rw [← hl]; exact hl1)
  · rw [hg]; exact h.1
  · rw [hd] at hl1; cases hl1

theorem genFloor_runSeq (c G : Nat) : ∀ (ops : List Op) (s : State), GenFloor c G s → GenFloor c G (runSeq s ops).1
  | [], _, h => h
  | o :: os, s, h => by
    simp only [runSeq]
    exact genFloor_runSeq c G os (step s o).1 (genFloor_step c G s o h)

theorem genFloor_after_purge (s : State) (c : Nat) (x : Ctx) (hx : getCtx s c = some x) :
    GenFloor c s.clock (step s (.cpurge c)).1 := by
  have hlt := ctx_lt_of_getCtx hx
  simp only [step, opCpurge, hx]
  refine ⟨by simp [dropSymsOf, bump], ?_⟩
  intro y hy _
  simp only [ctxs_dropSymsOf, ctxs_bump, List.getElem?_set_self hlt, Option.some.injEq] at hy
  subst hy
  simp [purged]

/-! ### isolation: calls that do not work in a context leave it alone -/


/-- Does the call name context `d` as the context it works IN: its context argument, the target of a clone, the context of
the executable it runs, the context of the variable a loaded pointer designates (assign)? Cloning FROM `d`, and every call
on values, expressions, executables and symbols of OTHER contexts, do not. -/
def targets (o : Op) (s : State) (d : Nat) : Bool :=
  match o with
  | .cnew c | .cfree c | .cpurge c | .cpwm c | .reg c _ _ _ _ | .eparse c _ _ | .eval c _ _ | .xparse c _ _ _
  | .exec2 c _ | .drop c _ | .brk c | .rst c | .store c _ _ _ => c == d
  | .cclone _ c _ => c == d
  | .exec xi => match s.execs[xi]? with
    | some (some h) => h.ctx == d
    | _ => false
  | .alit .. | .araw .. | .anull .. => hostWrite o s d
  | _ => false

theorem set_ne {l : List Ctx} {c d : Nat} {y : Ctx} (h : (c == d) = false) : (l.set c y)[d]? = l[d]? := by
  rw [List.getElem?_set]
  simp only [beq_eq_false_iff_ne, ne_eq] at h
  simp [h]

theorem execUsable_slot {s : State} {xi : Nat} {h : ExecH} (hu : execUsable s xi = some h) : s.execs[xi]? = some (some h) := by
  unfold execUsable at hu
  split at hu
  · rename_i h' heq
    split at hu
    · split at hu
      · cases hu; exact heq
      · cases hu
    · cases hu
  · cases hu

theorem runIn_other (s : State) (c d : Nat) (x : Ctx) (prog : List Stmt) (h : (c == d) = false) :
    (runIn s c x prog).1.ctxs[d]? = s.ctxs[d]? := by
  generalize hE : execList x.funcs 0 fuel prog { vars := ctxVars x, returned := x.returned, out := [], budget := 300000 } = res
  obtain ⟨r, st⟩ := res
  simp only [runIn, hE]
  split
  · simp [set_ne h]
  · cases r with
    | ok fl => simp [set_ne h]
    | haz hz => simp [set_ne h]
    | unmodelled => simp [set_ne h]
    | err cd arg =>
      simp only
      split <;> simp [set_ne h]

/-- A call that does not work in context `d` leaves slot `d` of the context table exactly as it is. -/
theorem step_untargeted (s : State) (o : Op) (d : Nat) (h : targets o s d = false) : (step s o).1.ctxs[d]? = s.ctxs[d]? := by
  cases o <;> simp only [step]
  all_goals first
    | (simp only [opFind, opLoad, opCreate, opVfree, opVdump, opEfree, opEtype, opAcc, opItem,
        opXfree, opOut, killBoxItems, killExprVals, Out.pre, Out.of]
       (repeat' split) <;> simp; done)
    | skip
  all_goals first
    | (simp only [targets] at h
       simp only [opCnew, opCclone, opCfree, opCpurge, opCpwm, opReg, opStore, opEparse, opEval, opXparse,
        opDrop, opStop, killBoxItems, killCtxItems, killExprVals, Out.pre, Out.of]
       (repeat' split) <;> simp [set_ne h, setErr]; done)
    | skip
  case exec xi =>
    simp only [opExec, Out.pre]
    split
    · rename_i hh hu
      have hs := execUsable_slot hu
      simp only [targets, hs] at h
      split
      · exact runIn_other s hh.ctx d _ hh.prog h
      · rfl
    · rfl
  case exec2 c xi =>
    simp only [targets] at h
    simp only [opExec2, Out.pre]
    split
    · split
      · exact runIn_other s c d _ _ h
      · rfl
    · rfl
  all_goals (
    simp only [targets, hostWrite] at h
    simp only [opAssign, killCtxItems, killBoxItems, Out.pre, Out.of]
    (repeat' split) <;> simp_all [set_ne])

/-- no call of the sequence works in context `d` (evaluated along the run, like `quiet`) -/
def untargeted (d : Nat) : State → List Op → Bool
  | _, [] => true
  | s, o :: os => !targets o s d && untargeted d (step s o).1 os


/-! ### generations of handles: every handle carries a clock value of the past -/

theorem execs_appendSink (s : State) (k : Nat) (b : Bytes) : (appendSink s k b).execs = s.execs := by
  unfold appendSink; split <;> rfl
theorem exprs_appendSink (s : State) (k : Nat) (b : Bytes) : (appendSink s k b).exprs = s.exprs := by
  unfold appendSink; split <;> rfl
theorem syms_appendSink (s : State) (k : Nat) (b : Bytes) : (appendSink s k b).syms = s.syms := by
  unfold appendSink; split <;> rfl

theorem runIn_tables (s : State) (c : Nat) (x : Ctx) (prog : List Stmt) :
    (runIn s c x prog).1.execs = s.execs ∧ (runIn s c x prog).1.exprs = s.exprs ∧ (runIn s c x prog).1.syms = s.syms := by
  generalize hE : execList x.funcs 0 fuel prog { vars := ctxVars x, returned := x.returned, out := [], budget := 300000 } = res
  obtain ⟨r, st⟩ := res
  simp only [runIn, hE]
  split
  · simp [bump, execs_appendSink, exprs_appendSink, syms_appendSink]
  · cases r with
    | ok fl => simp [bump, execs_appendSink, exprs_appendSink, syms_appendSink]
    | haz hz => simp [bump, execs_appendSink, exprs_appendSink, syms_appendSink]
    | unmodelled => simp [bump, execs_appendSink, exprs_appendSink, syms_appendSink]
    | err cd arg =>
      simp only
      split <;> simp [bump, setErr, execs_appendSink, exprs_appendSink, syms_appendSink]

/-- every executable handle after a call was there before, or was created by this call with the generation of a context -/
theorem step_execs (s : State) (o : Op) (xi : Nat) (h : ExecH) (h1 : (step s o).1.execs[xi]? = some (some h)) :
    s.execs[xi]? = some (some h) ∨ ∃ (c : Nat) (x : Ctx), s.ctxs[c]? = some x ∧ h.gen = x.gen := by
  cases o <;> simp only [step] at h1
  case exec x => 
    simp only [opExec, Out.pre] at h1
    (repeat' split at h1) <;> first | exact .inl h1 | (rw [(runIn_tables _ _ _ _).1] at h1; exact .inl h1)
  case exec2 c x =>
    simp only [opExec2, Out.pre] at h1
    (repeat' split at h1) <;> first | exact .inl h1 | (rw [(runIn_tables _ _ _ _).1] at h1; exact .inl h1)
  case xparse c x t p =>
    simp only [opXparse, Out.pre] at h1
    split at h1
    · rename_i y hg hslot
      split at h1
      · simp only [razErr, bump, List.getElem?_set] at h1
        split at h1
        · split at h1
          · simp only [Option.some.injEq] at h1
            subst h1
            exact .inr ⟨c, y, getCtx_some hg, rfl⟩
          · cases h1
        · exact .inl h1
      · split at h1
        · exact .inl (by simpa [setErr, bump] using h1)
        · exact .inl h1
    · exact .inl h1
  case xfree x =>
    simp only [opXfree, Out.pre, Out.of] at h1
    (repeat' split at h1) <;> first
      | exact .inl h1
      | (simp only [List.getElem?_set] at h1; (repeat' split at h1) <;> first | exact .inl h1 | cases h1)
  all_goals (
    simp only [opCnew, opCclone, opCfree, opCpurge, opCpwm, opReg, opStore, opAssign, opEparse, opEval,
      opDrop, opStop, opCreate, opFind, opLoad, opVfree, opVdump, opEfree, opEtype, opAcc, opItem, opOut,
      killBoxItems, killCtxItems, killExprVals, Out.pre, Out.of] at h1
    (repeat' split at h1) <;> first
      | exact .inl h1
      | exact .inl (by simpa [setErr, razErr, bump, setVal, setCtx, killWhere, dropSymsOf, staleCtxItems, List.getElem?_set, execs_appendSink, exprs_appendSink, syms_appendSink] using h1))

theorem step_exprs (s : State) (o : Op) (e : Nat) (h : ExprH) (h1 : (step s o).1.exprs[e]? = some (some h)) :
    s.exprs[e]? = some (some h) ∨ ∃ (c : Nat) (x : Ctx), s.ctxs[c]? = some x ∧ h.gen = x.gen := by
  cases o <;> simp only [step] at h1
  case exec x =>
    simp only [opExec, Out.pre] at h1
    (repeat' split at h1) <;> first | exact .inl h1 | (rw [(runIn_tables _ _ _ _).2.1] at h1; exact .inl h1)
  case exec2 c x =>
    simp only [opExec2, Out.pre] at h1
    (repeat' split at h1) <;> first | exact .inl h1 | (rw [(runIn_tables _ _ _ _).2.1] at h1; exact .inl h1)
  case eparse c e' t =>
    simp only [opEparse, Out.pre] at h1
    split at h1
    · rename_i y hg hslot
      split at h1
      · simp only [razErr, bump, List.getElem?_set] at h1
        split at h1
        · split at h1
          · simp only [Option.some.injEq] at h1
            subst h1
            exact .inr ⟨c, y, getCtx_some hg, rfl⟩
          · cases h1
        · exact .inl h1
      · (repeat' split at h1) <;> first | exact .inl h1 | exact .inl (by simpa [setErr, razErr, bump] using h1)
    · exact .inl h1
  case efree x =>
    simp only [opEfree, killExprVals, Out.pre, Out.of] at h1
    (repeat' split at h1) <;> first
      | exact .inl h1
      | (simp only [killWhere, List.getElem?_set] at h1; (repeat' split at h1) <;> first | exact .inl h1 | cases h1)
  all_goals (
    simp only [opCnew, opCclone, opCfree, opCpurge, opCpwm, opReg, opStore, opAssign, opXparse, opEval,
      opDrop, opStop, opCreate, opFind, opLoad, opVfree, opVdump, opXfree, opEtype, opAcc, opItem, opOut,
      killBoxItems, killCtxItems, killExprVals, Out.pre, Out.of] at h1
    (repeat' split at h1) <;> first
      | exact .inl h1
      | exact .inl (by simpa [setErr, razErr, bump, setVal, setCtx, killWhere, dropSymsOf, staleCtxItems, List.getElem?_set, execs_appendSink, exprs_appendSink, syms_appendSink] using h1))

theorem dropSyms_entry {s : State} {c sh : Nat} {h : SymH} (h1 : (dropSymsOf s c).syms[sh]? = some (some h)) :
    s.syms[sh]? = some (some h) := by
  unfold dropSymsOf at h1
  simp only [List.getElem?_map] at h1
  cases hl : s.syms[sh]? with
  | none => simp [hl] at h1
  | some v =>
    cases v with
    | none => simp [hl] at h1
    | some y =>
      simp only [hl, Option.map_some] at h1
      split at h1
      · cases h1
      · simp only [Option.some.injEq] at h1; rw [h1]

theorem step_syms (s : State) (o : Op) (sh : Nat) (h : SymH) (h1 : (step s o).1.syms[sh]? = some (some h)) :
    s.syms[sh]? = some (some h) ∨ ∃ (c : Nat) (x : Ctx), s.ctxs[c]? = some x ∧ h.gen = x.gen := by
  cases o <;> simp only [step] at h1
  case exec x =>
    simp only [opExec, Out.pre] at h1
    (repeat' split at h1) <;> first | exact .inl h1 | (rw [(runIn_tables _ _ _ _).2.2] at h1; exact .inl h1)
  case exec2 c x =>
    simp only [opExec2, Out.pre] at h1
    (repeat' split at h1) <;> first | exact .inl h1 | (rw [(runIn_tables _ _ _ _).2.2] at h1; exact .inl h1)
  case cfree c =>
    simp only [opCfree, Out.pre] at h1
    split at h1
    · exact .inl (dropSyms_entry (s := bump s c _) h1)
    · exact .inl h1
  case cpurge c =>
    simp only [opCpurge, Out.pre] at h1
    split at h1
    · exact .inl (dropSyms_entry (s := bump s c _) h1)
    · exact .inl h1
  case reg c sh' name major ndim =>
    simp only [opReg, Out.pre] at h1
    split at h1
    · rename_i y hg
      split at h1
      · exact .inl h1
      · split at h1
        · simp only [bump, List.getElem?_set] at h1
          split at h1
          · split at h1
            · simp only [Option.some.injEq] at h1
              subst h1
              exact .inr ⟨c, y, getCtx_some hg, rfl⟩
            · cases h1
          · exact .inl h1
        · simp only [setErr, bump, List.getElem?_set] at h1
          (repeat' split at h1) <;> first | exact .inl h1 | cases h1
    · exact .inl h1
  case find c sh' name =>
    simp only [opFind, Out.pre, Out.of] at h1
    split at h1
    · rename_i y hg
      split at h1
      · exact .inl h1
      · split at h1
        · simp only [List.getElem?_set] at h1
          split at h1
          · split at h1
            · simp only [Option.some.injEq] at h1
              subst h1
              exact .inr ⟨c, y, getCtx_some hg, rfl⟩
            · cases h1
          · exact .inl h1
        · simp only [List.getElem?_set] at h1
          (repeat' split at h1) <;> first | exact .inl h1 | cases h1
    · exact .inl h1
  all_goals (
    simp only [opCnew, opCclone, opCpwm, opStore, opAssign, opXparse, opEparse, opEval,
      opDrop, opStop, opCreate, opLoad, opVfree, opVdump, opXfree, opEfree, opEtype, opAcc, opItem, opOut,
      killBoxItems, killCtxItems, killExprVals, Out.pre, Out.of] at h1
    (repeat' split at h1) <;> first
      | exact .inl h1
      | exact .inl (by simpa [setErr, razErr, bump, setVal, setCtx, killWhere, staleCtxItems, List.getElem?_set, execs_appendSink, exprs_appendSink, syms_appendSink] using h1))


/-- Generations are clock values of the past: every context's generation and the generation every executable,
expression and symbol handle of the host carries are below the clock. -/
def HandleWF (s : State) : Prop :=
  (∀ (c : Nat) (x : Ctx), s.ctxs[c]? = some x → x.gen < s.clock) ∧
  (∀ (xi : Nat) (h : ExecH), s.execs[xi]? = some (some h) → h.gen < s.clock) ∧
  (∀ (e : Nat) (h : ExprH), s.exprs[e]? = some (some h) → h.gen < s.clock) ∧
  (∀ (sh : Nat) (h : SymH), s.syms[sh]? = some (some h) → h.gen < s.clock)

theorem handleWF_init : HandleWF State.init := by
  refine ⟨?_, ?_, ?_, ?_⟩
  · intro c x h
    simp only [State.init] at h
    have : x = ({} : Ctx) := by
      rw [List.getElem?_replicate] at h
      split at h <;> simp_all
    subst this
    decide
  · intro xi h hh
    simp only [State.init, List.getElem?_replicate] at hh
    split at hh <;> simp at hh
  · intro xi h hh
    simp only [State.init, List.getElem?_replicate] at hh
    split at hh <;> simp at hh
  · intro xi h hh
    simp only [State.init, List.getElem?_replicate] at hh
    split at hh <;> simp at hh

theorem handleWF_step' (s s1 : State) (out : Out) (o : Op) (hr : step s o = (s1, out)) (hw : HandleWF s) : HandleWF s1 := by
  have hm := step_clock_mono s s1 out o hr
  have e1 : s1 = (step s o).1 := by rw [hr]
  obtain ⟨w1, w2, w3, w4⟩ := hw
  have new : ∀ (g : Nat), (∃ (c : Nat) (x : Ctx), s.ctxs[c]? = some x ∧ g = x.gen) → g < s1.clock := by
    rintro g ⟨c, x, hx, rfl⟩
    exact Nat.lt_of_lt_of_le (w1 c x hx) hm
  refine ⟨?_, ?_, ?_, ?_⟩
  · intro c x1 h1
    obtain ⟨x, h0⟩ := step_ctx_exists s s1 out o c x1 hr h1
    have hx := w1 c x h0
    rcases step_gen s s1 out o c x x1 hr h0 h1 with ⟨hg, _⟩ | ⟨hg, hc⟩ | ⟨_, hg⟩ <;> omega
  · intro xi h hh
    rw [e1] at hh
    rcases step_execs s o xi h hh with h0 | hn
    · exact Nat.lt_of_lt_of_le (w2 xi h h0) hm
    · exact new _ hn
  · intro e h hh
    rw [e1] at hh
    rcases step_exprs s o e h hh with h0 | hn
    · exact Nat.lt_of_lt_of_le (w3 e h h0) hm
    · exact new _ hn
  · intro sh h hh
    rw [e1] at hh
    rcases step_syms s o sh h hh with h0 | hn
    · exact Nat.lt_of_lt_of_le (w4 sh h h0) hm
    · exact new _ hn

theorem handleWF_step (s : State) (o : Op) (hw : HandleWF s) : HandleWF (step s o).1 :=
  handleWF_step' s _ _ o rfl hw

theorem handleWF_runSeq : ∀ (ops : List Op) (s : State), HandleWF s → HandleWF (runSeq s ops).1
  | [], _, h => h
  | o :: os, s, h => by
    simp only [runSeq]
    exact handleWF_runSeq os (step s o).1 (handleWF_step s o h)


/-! ### C15R5 — the extended calls (`XOp`): isolation -/


/-- the context a moved source cell lives in (an element / item below a variable of that context) -/
def movedFrom (s : State) (v : Nat) : Option Nat :=
  match liveSlot s v with
  | some (.ref r) => if refIsVarCell r then none else (match r.root with | .slot a _ => some a | _ => none)
  | _ => none

/-- `targets` for the extended calls: `rstore` works in its target context and — when it MOVES an element out of a variable
of a context — in that context too. A store that COPIES a variable of context `a` does not work in `a`. -/
def targetsX (o : XOp) (s : State) (d : Nat) : Bool :=
  match o with
  | .base b => targets b s d
  | .rstore c _ v => c == d || movedFrom s v == some d

theorem ctxs_moveOut_ne (s : State) (r : VRef) (b : Val) (d : Nat)
    (h : ∀ a i, r.root = .slot a i → (a == d) = false) : (moveOut s r b).ctxs[d]? = s.ctxs[d]? := by
  unfold moveOut
  split
  · split <;> simp [killBoxItems]
  · rename_i a id hroot
    have := h a id hroot
    split
    · split
      · simp [killCtxItems, set_ne this]
      · rfl
    · rfl
  · rfl

theorem stepX_untargeted (s : State) (o : XOp) (d : Nat) (h : targetsX o s d = false) : (stepX s o).1.ctxs[d]? = s.ctxs[d]? := by
  cases o with
  | base b => exact step_untargeted s b d h
  | rstore c sh v =>
    simp only [targetsX, Bool.or_eq_false_iff] at h
    obtain ⟨hc, hm⟩ := h
    simp only [stepX, opRstore, Out.pre, Out.of]
    split
    · rename_i x id r hsl hlive
      split
      · rfl
      · split
        · rename_i b hb
          split
          · rfl
          · split
            · rename_i x' hst
              by_cases hvc : refIsVarCell r = true
              · simp [hvc, killCtxItems, set_ne hc]
              · simp only [hvc, Bool.false_eq_true, ↓reduceIte]
                rw [ctxs_moveOut_ne]
                · simp [killCtxItems, set_ne hc]
                · intro a i hroot
                  simp only [movedFrom, hlive, hvc, hroot] at hm
                  simpa using hm
            · simp [setErr]
        · rfl
    · rfl

def untargetedX (d : Nat) : State → List XOp → Bool
  | _, [] => true
  | s, o :: os => !targetsX o s d && untargetedX d (stepX s o).1 os


theorem storeInto_val {x x' : Ctx} {id : Nat} {b old : Val} {sy : Sym} (hs : x.syms[id]? = some sy) (hv : x.vals[id]? = some old)
    (h : storeInto x id b = .ok x') : x'.vals[id]? = some b := by
  have hlt : id < x.vals.length := by
    rcases Nat.lt_or_ge id x.vals.length with h | h
    · exact h
    · rw [List.getElem?_eq_none h] at hv; cases hv
  unfold storeInto at h
  rw [hs, hv] at h
  simp only at h
  split at h
  · cases h; simp [hlt]
  · split at h
    · cases h
    · cases h; simp [hlt]



end BlocV.C15
