/-
  Helper lemmas for `decode_illformed` (C18, utf8 half): the byte-at-a-time state machine of utf8helper.cpp on
  ARBITRARY bytes against the look-ahead decoder `Spec.Utf8.lenientGo`.

  `emit p bs` = the values the parser hands to `store.push_back` when it is run from state `p` over `bs`.
-/
import BlocV.Proofs.Lemmas.Utf8

set_option linter.unusedVariables false

namespace BlocV.Mod.Utf8
open BlocV.Spec.Utf8 (isScalar encode pack packBE decode1 lenientGo lenient isCont)

/-- the `Done` values of `p->run` over a byte sequence, starting in state `p` -/
def emit : PSt → List Nat → List Nat
  | _, [] => []
  | p, b :: bs =>
    match step p b with
    | (.done u, q) => u :: emit q bs
    | (.cont, q) => emit q bs
    | (.error, q) => emit q bs

/-- the state the parser is left in -/
def endState : PSt → List Nat → PSt
  | p, [] => p
  | p, b :: bs => endState (step p b).2 bs

theorem foldl_writeByte (bs : List UInt8) : ∀ (s : UStr),
    (bs.foldl writeByte s).store = s.store ++ emit s.parser (bs.map (·.toNat))
    ∧ (bs.foldl writeByte s).parser = endState s.parser (bs.map (·.toNat)) := by
  induction bs with
  | nil => intro s; simp [emit, endState]
  | cons b bs ih =>
    intro s
    simp only [List.foldl_cons, List.map_cons, emit, endState]
    have := ih (writeByte s b)
    rw [this.1, this.2]
    unfold writeByte
    rcases h : step s.parser b.toNat with ⟨e, q⟩
    cases e <;> simp

/-! ### the model side, state by state -/

theorem emit_restart (p : PSt) (b : Nat) (bs : List Nat) (h : step p b = p0 b) : emit p (b :: bs) = emit .p0 (b :: bs) := by
  simp only [emit]; rw [h]; rfl

theorem E_nul (bs : List Nat) : emit .p0 (0 :: bs) = emit .p0 bs := by
  simp [emit, step, p0]

theorem E_ascii (b : Nat) (bs : List Nat) (h0 : b ≠ 0) (h : b < 0x80) : emit .p0 (b :: bs) = b :: emit .p0 bs := by
  simp [emit, step, p0_ascii b h0 h]

theorem E_inv (b : Nat) (bs : List Nat) (h : (0x80 ≤ b ∧ b < 0xc2) ∨ 0xf5 ≤ b) : emit .p0 (b :: bs) = emit .p0 bs := by
  have : p0 b = (.error, .p0) := by
    unfold p0
    rcases h with h | h
    · rw [if_neg (by omega), if_pos (by omega)]
    · rw [if_neg (by omega), if_neg (by omega), if_neg (by omega), if_neg (by omega), if_neg (by omega)]
  simp [emit, step, this]

theorem E_lead2 (b : Nat) (bs : List Nat) (h : 0xc2 ≤ b ∧ b < 0xe0) : emit .p0 (b :: bs) = emit (.p1u2 b) bs := by
  simp [emit, step, p0_lead2 b h]

theorem E_lead3 (b : Nat) (bs : List Nat) (h : 0xe0 ≤ b ∧ b < 0xf0) : emit .p0 (b :: bs) = emit (.p1u3 b) bs := by
  simp [emit, step, p0_lead3 b h]

theorem E_lead4 (b : Nat) (bs : List Nat) (h : 0xf0 ≤ b ∧ b < 0xf5) : emit .p0 (b :: bs) = emit (.p1u4 b) bs := by
  simp [emit, step, p0_lead4 b h]

theorem E_p1u2 (b0 b : Nat) (bs : List Nat) :
    emit (.p1u2 b0) (b :: bs) = if 0x80 ≤ b ∧ b < 0xc0 then (b0 * 0x100 + b) :: emit .p0 bs else emit .p0 (b :: bs) := by
  by_cases h : 0x80 ≤ b ∧ b < 0xc0
  · rw [if_pos h]; simp only [emit, step]; rw [if_pos (by omega)]
  · rw [if_neg h]; exact emit_restart _ _ _ (by simp only [step]; rw [if_neg (by omega)])

theorem E_p1u3 (b0 b : Nat) (bs : List Nat) :
    emit (.p1u3 b0) (b :: bs) = if ok1u3 b0 b = true then emit (.p2u3 b0 b) bs else emit .p0 (b :: bs) := by
  by_cases h : ok1u3 b0 b = true
  · rw [if_pos h]; simp only [emit, step]; rw [if_pos h]
  · rw [if_neg h]; exact emit_restart _ _ _ (by simp only [step]; rw [if_neg h])

theorem E_p2u3 (b0 b1 b : Nat) (bs : List Nat) :
    emit (.p2u3 b0 b1) (b :: bs)
      = if 0x80 ≤ b ∧ b < 0xc0 then (b0 * 0x10000 + b1 * 0x100 + b) :: emit .p0 bs else emit .p0 (b :: bs) := by
  by_cases h : 0x80 ≤ b ∧ b < 0xc0
  · rw [if_pos h]; simp only [emit, step]; rw [if_pos (by omega)]
  · rw [if_neg h]; exact emit_restart _ _ _ (by simp only [step]; rw [if_neg (by omega)])

theorem E_p1u4 (b0 b : Nat) (bs : List Nat) :
    emit (.p1u4 b0) (b :: bs) = if ok1u4 b0 b = true then emit (.p2u4 b0 b) bs else emit .p0 (b :: bs) := by
  by_cases h : ok1u4 b0 b = true
  · rw [if_pos h]; simp only [emit, step]; rw [if_pos h]
  · rw [if_neg h]; exact emit_restart _ _ _ (by simp only [step]; rw [if_neg h])

theorem E_p2u4 (b0 b1 b : Nat) (bs : List Nat) :
    emit (.p2u4 b0 b1) (b :: bs) = if 0x80 ≤ b ∧ b < 0xc0 then emit (.p3u4 b0 b1 b) bs else emit .p0 (b :: bs) := by
  by_cases h : 0x80 ≤ b ∧ b < 0xc0
  · rw [if_pos h]; simp only [emit, step]; rw [if_pos (by omega)]
  · rw [if_neg h]; exact emit_restart _ _ _ (by simp only [step]; rw [if_neg (by omega)])

theorem E_p3u4 (b0 b1 b2 b : Nat) (bs : List Nat) :
    emit (.p3u4 b0 b1 b2) (b :: bs)
      = if 0x80 ≤ b ∧ b < 0xc0 then (b0 * 0x1000000 + b1 * 0x10000 + b2 * 0x100 + b) :: emit .p0 bs
        else emit .p0 (b :: bs) := by
  by_cases h : 0x80 ≤ b ∧ b < 0xc0
  · rw [if_pos h]; simp only [emit, step]; rw [if_pos (by omega)]
  · rw [if_neg h]; exact emit_restart _ _ _ (by simp only [step]; rw [if_neg (by omega)])

theorem emit_nil (p : PSt) : emit p [] = [] := by simp [emit]

/-! ### the spec side -/

theorem L_drop (b : Nat) (bs : List Nat) (h : decode1 (b :: bs) = none) : lenientGo 0 (b :: bs) = lenientGo 0 bs := by
  simp [lenientGo, h]

theorem L_take1 (b v : Nat) (bs : List Nat) (h : decode1 (b :: bs) = some (v, 1)) :
    lenientGo 0 (b :: bs) = v :: lenientGo 0 bs := by
  simp [lenientGo, h]

theorem L_take2 (b b1 v : Nat) (bs : List Nat) (h : decode1 (b :: b1 :: bs) = some (v, 2)) :
    lenientGo 0 (b :: b1 :: bs) = v :: lenientGo 0 bs := by
  simp [lenientGo, h]

theorem L_take3 (b b1 b2 v : Nat) (bs : List Nat) (h : decode1 (b :: b1 :: b2 :: bs) = some (v, 3)) :
    lenientGo 0 (b :: b1 :: b2 :: bs) = v :: lenientGo 0 bs := by
  simp [lenientGo, h]

theorem L_take4 (b b1 b2 b3 v : Nat) (bs : List Nat) (h : decode1 (b :: b1 :: b2 :: b3 :: bs) = some (v, 4)) :
    lenientGo 0 (b :: b1 :: b2 :: b3 :: bs) = v :: lenientGo 0 bs := by
  simp [lenientGo, h]

theorem D_ascii (b : Nat) (bs : List Nat) (h : b < 0x80) : decode1 (b :: bs) = some (b, 1) := by
  simp [decode1, h]

/-- a continuation byte cannot start a sequence -/
theorem D_cont (b : Nat) (bs : List Nat) (h : 0x80 ≤ b ∧ b < 0xc0) : decode1 (b :: bs) = none := by
  unfold decode1
  simp only []
  rw [if_neg (by omega), if_pos (by omega)]

/-- C0, C1 (over-long two-byte forms) -/
theorem D_c0c1 (b : Nat) (bs : List Nat) (h : 0xc0 ≤ b ∧ b < 0xc2) : decode1 (b :: bs) = none := by
  unfold decode1
  simp only []
  rw [if_neg (by omega), if_neg (by omega), if_pos (by omega)]
  cases bs with
  | nil => rfl
  | cons b1 r =>
    simp only []
    rw [if_neg]
    simp [isCont]; omega

/-- F5 … FF (above U+10FFFF, or not a lead byte at all) -/
theorem D_high (b : Nat) (bs : List Nat) (h : 0xf5 ≤ b) : decode1 (b :: bs) = none := by
  unfold decode1
  simp only []
  rw [if_neg (by omega), if_neg (by omega), if_neg (by omega), if_neg (by omega)]
  by_cases h8 : b < 0xf8
  · rw [if_pos h8]
    match bs with
    | [] => rfl
    | [_] => rfl
    | [_, _] => rfl
    | b1 :: b2 :: b3 :: r =>
      simp only []
      rw [if_neg]
      simp [isCont, isScalar]; omega
  · rw [if_neg h8]

theorem D_inv (b : Nat) (bs : List Nat) (h : (0x80 ≤ b ∧ b < 0xc2) ∨ 0xf5 ≤ b) : decode1 (b :: bs) = none := by
  rcases h with h | h
  · by_cases hc : b < 0xc0
    · exact D_cont b bs ⟨h.1, hc⟩
    · exact D_c0c1 b bs ⟨by omega, h.2⟩
  · exact D_high b bs h

theorem D2_nil (b0 : Nat) (h : 0xc2 ≤ b0 ∧ b0 < 0xe0) : decode1 [b0] = none := by
  unfold decode1
  simp only []
  rw [if_neg (by omega), if_neg (by omega), if_pos (by omega)]

theorem D2 (b0 b1 : Nat) (r : List Nat) (h : 0xc2 ≤ b0 ∧ b0 < 0xe0) :
    decode1 (b0 :: b1 :: r)
      = if 0x80 ≤ b1 ∧ b1 < 0xc0 then some ((b0 - 0xC0) * 0x40 + (b1 - 0x80), 2) else none := by
  unfold decode1
  simp only []
  rw [if_neg (by omega), if_neg (by omega), if_pos (by omega)]
  by_cases hc : 0x80 ≤ b1 ∧ b1 < 0xc0
  · rw [if_pos hc, if_pos]
    simp [isCont]; omega
  · rw [if_neg hc, if_neg]
    simp [isCont]; omega

theorem D3_short (b0 : Nat) (r : List Nat) (h : 0xe0 ≤ b0 ∧ b0 < 0xf0) (hr : r.length < 2) : decode1 (b0 :: r) = none := by
  unfold decode1
  simp only []
  rw [if_neg (by omega), if_neg (by omega), if_neg (by omega), if_pos (by omega)]
  match r, hr with
  | [], _ => rfl
  | [_], _ => rfl

theorem D3 (b0 b1 b2 : Nat) (r : List Nat) (h : 0xe0 ≤ b0 ∧ b0 < 0xf0) (h1 : b1 < 256) (h2 : b2 < 256) :
    decode1 (b0 :: b1 :: b2 :: r)
      = if ok1u3 b0 b1 = true ∧ (0x80 ≤ b2 ∧ b2 < 0xc0)
        then some ((b0 - 0xE0) * 0x1000 + (b1 - 0x80) * 0x40 + (b2 - 0x80), 3) else none := by
  unfold decode1
  simp only []
  rw [if_neg (by omega), if_neg (by omega), if_neg (by omega), if_pos (by omega)]
  by_cases hc : ok1u3 b0 b1 = true ∧ (0x80 ≤ b2 ∧ b2 < 0xc0)
  · rw [if_pos hc, if_pos]
    obtain ⟨hk, hc2⟩ := hc
    simp [ok1u3] at hk
    simp [isCont, isScalar]; omega
  · rw [if_neg hc, if_neg]
    intro hh
    apply hc
    simp [isCont, isScalar] at hh
    simp [ok1u3]; omega

theorem D4_short (b0 : Nat) (r : List Nat) (h : 0xf0 ≤ b0 ∧ b0 < 0xf5) (hr : r.length < 3) : decode1 (b0 :: r) = none := by
  unfold decode1
  simp only []
  rw [if_neg (by omega), if_neg (by omega), if_neg (by omega), if_neg (by omega), if_pos (by omega)]
  match r, hr with
  | [], _ => rfl
  | [_], _ => rfl
  | [_, _], _ => rfl

theorem D4 (b0 b1 b2 b3 : Nat) (r : List Nat) (h : 0xf0 ≤ b0 ∧ b0 < 0xf5) (h1 : b1 < 256) (h2 : b2 < 256) (h3 : b3 < 256) :
    decode1 (b0 :: b1 :: b2 :: b3 :: r)
      = if ok1u4 b0 b1 = true ∧ (0x80 ≤ b2 ∧ b2 < 0xc0) ∧ (0x80 ≤ b3 ∧ b3 < 0xc0)
        then some ((b0 - 0xF0) * 0x40000 + (b1 - 0x80) * 0x1000 + (b2 - 0x80) * 0x40 + (b3 - 0x80), 4) else none := by
  unfold decode1
  simp only []
  rw [if_neg (by omega), if_neg (by omega), if_neg (by omega), if_neg (by omega), if_pos (by omega)]
  by_cases hc : ok1u4 b0 b1 = true ∧ (0x80 ≤ b2 ∧ b2 < 0xc0) ∧ (0x80 ≤ b3 ∧ b3 < 0xc0)
  · rw [if_pos hc, if_pos]
    obtain ⟨hk, hc2, hc3⟩ := hc
    simp [ok1u4] at hk
    simp [isCont, isScalar]; omega
  · rw [if_neg hc, if_neg]
    intro hh
    apply hc
    simp [isCont, isScalar] at hh
    simp [ok1u4]; omega

/-! ### the value: the packed bytes are `pack` of the decoded scalar -/

theorem P2 (b0 b1 : Nat) (h : 0xc2 ≤ b0 ∧ b0 < 0xe0) (h1 : 0x80 ≤ b1 ∧ b1 < 0xc0) :
    pack ((b0 - 0xC0) * 0x40 + (b1 - 0x80)) = b0 * 0x100 + b1 ∧ (b0 - 0xC0) * 0x40 + (b1 - 0x80) ≠ 0 := by
  refine ⟨?_, by omega⟩
  rw [pack2 _ (by omega) (by omega)]; omega

theorem P3 (b0 b1 b2 : Nat) (h : 0xe0 ≤ b0 ∧ b0 < 0xf0) (hk : ok1u3 b0 b1 = true) (h2 : 0x80 ≤ b2 ∧ b2 < 0xc0) :
    pack ((b0 - 0xE0) * 0x1000 + (b1 - 0x80) * 0x40 + (b2 - 0x80)) = b0 * 0x10000 + b1 * 0x100 + b2
    ∧ (b0 - 0xE0) * 0x1000 + (b1 - 0x80) * 0x40 + (b2 - 0x80) ≠ 0 := by
  simp [ok1u3] at hk
  refine ⟨?_, by omega⟩
  rw [pack3 _ (by omega) (by omega)]; omega

theorem P4 (b0 b1 b2 b3 : Nat) (h : 0xf0 ≤ b0 ∧ b0 < 0xf5) (hk : ok1u4 b0 b1 = true) (h2 : 0x80 ≤ b2 ∧ b2 < 0xc0)
    (h3 : 0x80 ≤ b3 ∧ b3 < 0xc0) :
    pack ((b0 - 0xF0) * 0x40000 + (b1 - 0x80) * 0x1000 + (b2 - 0x80) * 0x40 + (b3 - 0x80))
      = b0 * 0x1000000 + b1 * 0x10000 + b2 * 0x100 + b3
    ∧ (b0 - 0xF0) * 0x40000 + (b1 - 0x80) * 0x1000 + (b2 - 0x80) * 0x40 + (b3 - 0x80) ≠ 0 := by
  simp [ok1u4] at hk
  refine ⟨?_, by omega⟩
  rw [pack4 _ (by omega) (by omega)]; omega

theorem ok1u3_cont (b0 b1 : Nat) (h : ok1u3 b0 b1 = true) : 0x80 ≤ b1 ∧ b1 < 0xc0 := by
  simp [ok1u3] at h; omega

theorem ok1u4_cont (b0 b1 : Nat) (h : ok1u4 b0 b1 = true) : 0x80 ≤ b1 ∧ b1 < 0xc0 := by
  simp [ok1u4] at h; omega

/-- what the client sees of a lenient decoding: NULs removed, each scalar in the module's packed form -/
def lenientPacked (bs : List Nat) : List Nat := ((lenientGo 0 bs).filter (· ≠ 0)).map pack

theorem LP_drop (b : Nat) (bs : List Nat) (h : decode1 (b :: bs) = none) : lenientPacked (b :: bs) = lenientPacked bs := by
  simp only [lenientPacked, L_drop b bs h]

theorem LP_nil : lenientPacked [] = [] := by simp [lenientPacked, lenientGo]

theorem LP_ascii (b : Nat) (bs : List Nat) (h0 : b ≠ 0) (h : b < 0x80) : lenientPacked (b :: bs) = b :: lenientPacked bs := by
  simp [lenientPacked, L_take1 b b bs (D_ascii b bs h), h0, pack1 b h]

theorem LP_nul (bs : List Nat) : lenientPacked (0 :: bs) = lenientPacked bs := by
  simp [lenientPacked, L_take1 0 0 bs (D_ascii 0 bs (by omega))]

theorem LP_take2 (b b1 v : Nat) (bs : List Nat) (h : decode1 (b :: b1 :: bs) = some (v, 2)) (hv : v ≠ 0) :
    lenientPacked (b :: b1 :: bs) = pack v :: lenientPacked bs := by
  simp [lenientPacked, L_take2 b b1 v bs h, hv]

theorem LP_take3 (b b1 b2 v : Nat) (bs : List Nat) (h : decode1 (b :: b1 :: b2 :: bs) = some (v, 3)) (hv : v ≠ 0) :
    lenientPacked (b :: b1 :: b2 :: bs) = pack v :: lenientPacked bs := by
  simp [lenientPacked, L_take3 b b1 b2 v bs h, hv]

theorem LP_take4 (b b1 b2 b3 v : Nat) (bs : List Nat) (h : decode1 (b :: b1 :: b2 :: b3 :: bs) = some (v, 4)) (hv : v ≠ 0) :
    lenientPacked (b :: b1 :: b2 :: b3 :: bs) = pack v :: lenientPacked bs := by
  simp [lenientPacked, L_take4 b b1 b2 b3 v bs h, hv]

/-- **The state machine from rest = the lenient decoder**, on every byte sequence (strong induction on the length:
    after an ill-formed prefix the machine re-reads the offending byte from `_p0`, the spec drops the bytes before it
    one at a time — they are a lead without its continuation and continuation bytes, none of which starts a sequence). -/
theorem emit_p0_eq : ∀ (n : Nat) (bs : List Nat), bs.length ≤ n → (∀ b ∈ bs, b < 256) → emit .p0 bs = lenientPacked bs := by
  intro n
  induction n with
  | zero =>
    intro bs hl _
    have : bs = [] := List.eq_nil_of_length_eq_zero (by omega)
    subst this; rw [emit_nil, LP_nil]
  | succ n ih =>
    intro bs hl hb
    cases bs with
    | nil => rw [emit_nil, LP_nil]
    | cons b0 r =>
      have h0 : b0 < 256 := hb b0 (by simp)
      have hr : ∀ b ∈ r, b < 256 := fun b h => hb b (by simp [h])
      have lr : r.length ≤ n := by simp at hl; omega
      have ihr := ih r lr hr
      by_cases c1 : b0 < 0x80
      · by_cases z : b0 = 0
        · subst z; rw [E_nul, LP_nul, ihr]
        · rw [E_ascii b0 r z c1, LP_ascii b0 r z c1, ihr]
      by_cases c2 : b0 < 0xc2 ∨ 0xf5 ≤ b0
      · have hi : (0x80 ≤ b0 ∧ b0 < 0xc2) ∨ 0xf5 ≤ b0 := by omega
        rw [E_inv b0 r hi, LP_drop b0 r (D_inv b0 r hi), ihr]
      by_cases c3 : b0 < 0xe0
      · have hl2 : 0xc2 ≤ b0 ∧ b0 < 0xe0 := by omega
        rw [E_lead2 b0 r hl2]
        match r, hr, lr, ihr with
        | [], _, _, _ => rw [emit_nil, LP_drop b0 [] (D2_nil b0 hl2), LP_nil]
        | b1 :: r1, hr, lr, ihr =>
          have lr1 : r1.length ≤ n := by simp at lr; omega
          have hr1 : ∀ b ∈ r1, b < 256 := fun b h => hr b (by simp [h])
          rw [E_p1u2]
          have d := D2 b0 b1 r1 hl2
          by_cases k : 0x80 ≤ b1 ∧ b1 < 0xc0
          · rw [if_pos k]
            rw [if_pos k] at d
            have p := P2 b0 b1 hl2 k
            rw [LP_take2 b0 b1 _ r1 d p.2, p.1, ih r1 lr1 hr1]
          · rw [if_neg k]
            rw [if_neg k] at d
            rw [LP_drop b0 _ d, ihr]
      by_cases c4 : b0 < 0xf0
      · have hl3 : 0xe0 ≤ b0 ∧ b0 < 0xf0 := by omega
        rw [E_lead3 b0 r hl3]
        match r, hr, lr, ihr with
        | [], _, _, _ => rw [emit_nil, LP_drop b0 [] (D3_short b0 [] hl3 (by simp)), LP_nil]
        | [b1], hr, lr, ihr =>
          rw [LP_drop b0 [b1] (D3_short b0 [b1] hl3 (by simp)), E_p1u3]
          by_cases k : ok1u3 b0 b1 = true
          · rw [if_pos k, emit_nil, LP_drop b1 [] (D_cont b1 [] (ok1u3_cont b0 b1 k)), LP_nil]
          · rw [if_neg k, ihr]
        | b1 :: b2 :: r2, hr, lr, ihr =>
          have h1 : b1 < 256 := hr b1 (by simp)
          have h2 : b2 < 256 := hr b2 (by simp)
          have hr2 : ∀ b ∈ r2, b < 256 := fun b h => hr b (by simp [h])
          have lr2 : r2.length ≤ n := by simp at lr; omega
          have lr1 : (b2 :: r2).length ≤ n := by simp at lr ⊢; omega
          have hr1 : ∀ b ∈ b2 :: r2, b < 256 := fun b h => hr b (List.mem_cons_of_mem _ h)
          have d := D3 b0 b1 b2 r2 hl3 h1 h2
          rw [E_p1u3]
          by_cases k : ok1u3 b0 b1 = true
          · rw [if_pos k, E_p2u3]
            by_cases k2 : 0x80 ≤ b2 ∧ b2 < 0xc0
            · rw [if_pos k2]
              rw [if_pos ⟨k, k2⟩] at d
              have p := P3 b0 b1 b2 hl3 k k2
              rw [LP_take3 b0 b1 b2 _ r2 d p.2, p.1, ih r2 lr2 hr2]
            · rw [if_neg k2]
              rw [if_neg (fun h => k2 h.2)] at d
              rw [LP_drop b0 _ d, LP_drop b1 _ (D_cont b1 _ (ok1u3_cont b0 b1 k)), ih _ lr1 hr1]
          · rw [if_neg k]
            rw [if_neg (fun h => k h.1)] at d
            rw [LP_drop b0 _ d, ihr]
      · have hl4 : 0xf0 ≤ b0 ∧ b0 < 0xf5 := by omega
        rw [E_lead4 b0 r hl4]
        match r, hr, lr, ihr with
        | [], _, _, _ => rw [emit_nil, LP_drop b0 [] (D4_short b0 [] hl4 (by simp)), LP_nil]
        | [b1], hr, lr, ihr =>
          rw [LP_drop b0 [b1] (D4_short b0 [b1] hl4 (by simp)), E_p1u4]
          by_cases k : ok1u4 b0 b1 = true
          · rw [if_pos k, emit_nil, LP_drop b1 [] (D_cont b1 [] (ok1u4_cont b0 b1 k)), LP_nil]
          · rw [if_neg k, ihr]
        | [b1, b2], hr, lr, ihr =>
          have lr1 : [b2].length ≤ n := by simp at lr ⊢; omega
          have hr1 : ∀ b ∈ [b2], b < 256 := fun b h => hr b (List.mem_cons_of_mem _ h)
          rw [LP_drop b0 [b1, b2] (D4_short b0 [b1, b2] hl4 (by simp)), E_p1u4]
          by_cases k : ok1u4 b0 b1 = true
          · rw [if_pos k, E_p2u4, LP_drop b1 _ (D_cont b1 _ (ok1u4_cont b0 b1 k))]
            by_cases k2 : 0x80 ≤ b2 ∧ b2 < 0xc0
            · rw [if_pos k2, emit_nil, LP_drop b2 [] (D_cont b2 [] k2), LP_nil]
            · rw [if_neg k2, ih _ lr1 hr1]
          · rw [if_neg k, ihr]
        | b1 :: b2 :: b3 :: r3, hr, lr, ihr =>
          have h1 : b1 < 256 := hr b1 (by simp)
          have h2 : b2 < 256 := hr b2 (by simp)
          have h3 : b3 < 256 := hr b3 (by simp)
          have hr3 : ∀ b ∈ r3, b < 256 := fun b h => hr b (by simp [h])
          have lr3 : r3.length ≤ n := by simp at lr; omega
          have lr2 : (b3 :: r3).length ≤ n := by simp at lr ⊢; omega
          have hr2 : ∀ b ∈ b3 :: r3, b < 256 := fun b h => hr b (List.mem_cons_of_mem _ (List.mem_cons_of_mem _ h))
          have lr1 : (b2 :: b3 :: r3).length ≤ n := by simp at lr ⊢; omega
          have hr1 : ∀ b ∈ b2 :: b3 :: r3, b < 256 := fun b h => hr b (List.mem_cons_of_mem _ h)
          have d := D4 b0 b1 b2 b3 r3 hl4 h1 h2 h3
          rw [E_p1u4]
          by_cases k : ok1u4 b0 b1 = true
          · rw [if_pos k, E_p2u4]
            by_cases k2 : 0x80 ≤ b2 ∧ b2 < 0xc0
            · rw [if_pos k2, E_p3u4]
              by_cases k3 : 0x80 ≤ b3 ∧ b3 < 0xc0
              · rw [if_pos k3]
                rw [if_pos ⟨k, k2, k3⟩] at d
                have p := P4 b0 b1 b2 b3 hl4 k k2 k3
                rw [LP_take4 b0 b1 b2 b3 _ r3 d p.2, p.1, ih r3 lr3 hr3]
              · rw [if_neg k3]
                rw [if_neg (fun h => k3 h.2.2)] at d
                rw [LP_drop b0 _ d, LP_drop b1 _ (D_cont b1 _ (ok1u4_cont b0 b1 k)), LP_drop b2 _ (D_cont b2 _ k2),
                  ih _ lr2 hr2]
            · rw [if_neg k2]
              rw [if_neg (fun h => k2 h.2.1)] at d
              rw [LP_drop b0 _ d, LP_drop b1 _ (D_cont b1 _ (ok1u4_cont b0 b1 k)), ih _ lr1 hr1]
          · rw [if_neg k]
            rw [if_neg (fun h => k h.1)] at d
            rw [LP_drop b0 _ d, ihr]

/-- the state machine over bytes of a `std::string` (every element < 256) -/
theorem emit_bytes (bs : List UInt8) : emit .p0 (bs.map (·.toNat)) = lenientPacked (bs.map (·.toNat)) :=
  emit_p0_eq _ _ (Nat.le_refl _) (by
    intro b hb
    simp only [List.mem_map] at hb
    obtain ⟨x, _, rfl⟩ := hb
    exact x.toNat_lt)

/-! ### the spec decoder inverts the spec encoder (on scalar values) -/

open BlocV.Spec.Utf8 (encodeAll) in
theorem lenient_encodeAll (cps : List Nat) (h : ∀ c ∈ cps, isScalar c = true) :
    lenientGo 0 ((encodeAll cps).map (·.toNat)) = cps := by
  induction cps with
  | nil => simp [encodeAll, lenientGo]
  | cons c cs ih =>
    have hc := h c (by simp)
    have ih' := ih (fun x hx => h x (by simp [hx]))
    have e0 : encodeAll (c :: cs) = encode c ++ encodeAll cs := by simp [encodeAll]
    rw [e0, List.map_append]
    generalize (encodeAll cs).map (·.toNat) = R at ih' ⊢
    rcases scalar_cases c hc with h1 | ⟨h1, h2⟩ | ⟨h1, h2, h3⟩ | ⟨h1, h2⟩
    · have e : encode c = [Spec.Utf8.byte c] := by simp [encode, h1]
      rw [e]; simp only [List.map_cons, List.map_nil, List.cons_append, List.nil_append, byte_toNat c (by omega)]
      rw [L_take1 c c R (D_ascii c R h1), ih']
    · have e : encode c = [Spec.Utf8.byte (0xC0 + c / 0x40), Spec.Utf8.byte (0x80 + c % 0x40)] := by
        simp [encode, show ¬ c < 0x80 by omega, h2]
      rw [e]
      simp only [List.map_cons, List.map_nil, List.cons_append, List.nil_append,
        byte_toNat (0xC0 + c / 0x40) (by omega), byte_toNat (0x80 + c % 0x40) (by omega)]
      have d := D2 (0xC0 + c / 0x40) (0x80 + c % 0x40) R (by omega)
      rw [if_pos (by omega)] at d
      have hv : (0xC0 + c / 0x40 - 0xC0) * 0x40 + (0x80 + c % 0x40 - 0x80) = c := by omega
      rw [hv] at d
      rw [L_take2 _ _ c R d, ih']
    · have e : encode c = [Spec.Utf8.byte (0xE0 + c / 0x1000), Spec.Utf8.byte (0x80 + c / 0x40 % 0x40),
          Spec.Utf8.byte (0x80 + c % 0x40)] := by
        simp [encode, show ¬ c < 0x80 by omega, show ¬ c < 0x800 by omega, h2]
      rw [e]
      simp only [List.map_cons, List.map_nil, List.cons_append, List.nil_append,
        byte_toNat (0xE0 + c / 0x1000) (by omega), byte_toNat (0x80 + c / 0x40 % 0x40) (by omega),
        byte_toNat (0x80 + c % 0x40) (by omega)]
      have d := D3 (0xE0 + c / 0x1000) (0x80 + c / 0x40 % 0x40) (0x80 + c % 0x40) R (by omega) (by omega) (by omega)
      have hk : ok1u3 (0xE0 + c / 0x1000) (0x80 + c / 0x40 % 0x40) = true := by simp [ok1u3]; omega
      rw [if_pos ⟨hk, by omega⟩] at d
      have hv : (0xE0 + c / 0x1000 - 0xE0) * 0x1000 + (0x80 + c / 0x40 % 0x40 - 0x80) * 0x40 + (0x80 + c % 0x40 - 0x80) = c := by
        omega
      rw [hv] at d
      rw [L_take3 _ _ _ c R d, ih']
    · have e : encode c = [Spec.Utf8.byte (0xF0 + c / 0x40000), Spec.Utf8.byte (0x80 + c / 0x1000 % 0x40),
          Spec.Utf8.byte (0x80 + c / 0x40 % 0x40), Spec.Utf8.byte (0x80 + c % 0x40)] := by
        simp [encode, show ¬ c < 0x80 by omega, show ¬ c < 0x800 by omega, show ¬ c < 0x10000 by omega]
      rw [e]
      simp only [List.map_cons, List.map_nil, List.cons_append, List.nil_append,
        byte_toNat (0xF0 + c / 0x40000) (by omega), byte_toNat (0x80 + c / 0x1000 % 0x40) (by omega),
        byte_toNat (0x80 + c / 0x40 % 0x40) (by omega), byte_toNat (0x80 + c % 0x40) (by omega)]
      have d := D4 (0xF0 + c / 0x40000) (0x80 + c / 0x1000 % 0x40) (0x80 + c / 0x40 % 0x40) (0x80 + c % 0x40) R
        (by omega) (by omega) (by omega) (by omega)
      have hk : ok1u4 (0xF0 + c / 0x40000) (0x80 + c / 0x1000 % 0x40) = true := by simp [ok1u4]; omega
      rw [if_pos ⟨hk, by omega, by omega⟩] at d
      have hv : (0xF0 + c / 0x40000 - 0xF0) * 0x40000 + (0x80 + c / 0x1000 % 0x40 - 0x80) * 0x1000
          + (0x80 + c / 0x40 % 0x40 - 0x80) * 0x40 + (0x80 + c % 0x40 - 0x80) = c := by omega
      rw [hv] at d
      rw [L_take4 _ _ _ _ c R d, ih']

end BlocV.Mod.Utf8
