/-
  Helper lemmas for C01 (whole programs): from `Parser::parse`'s acceptance of a whole program (`lockProgram`, Model/Interp.lean) and
  the well-formedness of its literals (`litProgram`) to the hypotheses of the mutual induction `nh_all` — the function table
  `collectFuncs prog` satisfies `FuncsOk`, the top-level statement list satisfies `lockL []` / `litL`, the typed nulls the parser
  registers keep the state well-formed.
  (Helper lemmas only — the property theorems are in BlocV/Proofs/C01.lean.)
-/
import BlocV.Proofs.Lemmas.NoHazardExec
namespace BlocV.NHI
open BlocV BlocV.Lemmas
variable {sub : Bool}

/-! ## whole programs: `runProgram` -/

/-- the literals of a whole program, function bodies included -/
def litProgram (sub : Bool) (prog : List Stmt) : Bool :=
  prog.all fun st => match st with
    | .funcS _ _ _ body catches => litL sub body && litCatches sub catches
    | st => litS sub st

theorem mem_addFunc (fs : List Func) (f g : Func) (h : g ∈ addFunc fs f) : g = f ∨ g ∈ fs := by
  unfold addFunc at h
  split at h
  · simp only [List.mem_map] at h
    obtain ⟨x, hx, e⟩ := h
    split at e
    · exact .inl e.symm
    · exact .inr (e ▸ hx)
  · simp only [List.mem_append, List.mem_singleton] at h
    rcases h with h | h
    · exact .inr h
    · exact .inl h

theorem funcsOk_foldl (prog : List Stmt) (hl : lockProgram prog = true) (hv : litProgram sub prog = true) :
    ∀ fs, FuncsOk sub fs → FuncsOk sub (prog.foldl (fun fs st => match st with
      | .funcS n ps rt b c =>
        let f0 : Func := { name := n, params := ps, ret := rt, body := b, catches := c }
        let fs0 := addFunc fs f0
        let tab0 : SymTab := ps.map fun (pn, pt) => (pn, pt, pt)
        let tab := declCatches fs0 1000 (declList fs0 1000 tab0 b) c
        addFunc fs { f0 with decls := tab.first }
      | _ => fs) fs) := by
  induction prog with
  | nil => intro fs h; exact h
  | cons st rest ih =>
    intro fs hfs
    simp only [lockProgram, List.all_cons, Bool.and_eq_true] at hl
    simp only [litProgram, List.all_cons, Bool.and_eq_true] at hv
    simp only [List.foldl_cons]
    refine ih hl.2 hv.2 _ ?_
    split
    · rename_i n ps rt b c
      intro g hg
      rcases mem_addFunc _ _ _ hg with rfl | hg
      · have h1 := hl.1; have h2 := hv.1
        simp only [Bool.and_eq_true] at h1 h2
        exact ⟨h1.1, h1.2, h2.1, h2.2⟩
      · exact hfs g hg
    · exact hfs

theorem funcsOk_collect (prog : List Stmt) (hl : lockProgram prog = true) (hv : litProgram sub prog = true) : FuncsOk sub (collectFuncs prog) :=
  funcsOk_foldl prog hl hv [] (fun _ h => by cases h)

theorem lockL_of_program : ∀ (prog : List Stmt), lockProgram prog = true → lockL [] prog = true
  | [], _ => by simp [lockL]
  | st :: rest, h => by
    simp only [lockProgram, List.all_cons, Bool.and_eq_true] at h
    have hr := lockL_of_program rest h.2
    have h1 : lockS [] st = true := by
      have := h.1
      cases st <;> first | exact this | simp [lockS]
    simp [lockL, h1, hr]

theorem litL_of_program : ∀ (prog : List Stmt), litProgram sub prog = true → litL sub prog = true
  | [], _ => by simp [litL]
  | st :: rest, h => by
    simp only [litProgram, List.all_cons, Bool.and_eq_true] at h
    have hr := litL_of_program rest h.2
    have h1 : litS sub st = true := by
      have := h.1
      cases st <;> first | exact this | simp [litS]
    simp [litL, h1, hr]

theorem okVal_declVars (ds : List (String × Ty)) : ∀ (vs : List (String × Val)), (∀ p ∈ vs, okVal p.2 = true) →
    ∀ p ∈ ds.foldl (fun vs (x : String × Ty) => if vs.any (·.1 == x.1) then vs else vs ++ [(x.1, Val.null x.2)]) vs, okVal p.2 = true := by
  induction ds with
  | nil => intro vs h p hp; exact h p hp
  | cons d rest ih =>
    intro vs h p hp
    simp only [List.foldl_cons] at hp
    refine ih _ (fun q hq => ?_) p hp
    split at hq
    · exact h q hq
    · simp only [List.mem_append, List.mem_singleton] at hq
      rcases hq with hq | rfl
      · exact h q hq
      · exact okVal_null _
end BlocV.NHI

