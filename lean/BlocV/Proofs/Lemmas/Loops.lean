/-
  Helper lemmas about the `for` specification of Spec/Loops.lean: closed forms of `upFrom` /
  `downFrom`, their lengths, independence of the fuel. (Helper lemmas only.)
-/
import BlocV.Spec.Loops
namespace BlocV.Lemmas
open BlocV

/-- number of values `cur, cur+step, … ≤ max` -/
def upCount (cur max step : Int) : Nat := if cur > max then 0 else ((max - cur) / step).toNat + 1
def downCount (cur min step : Int) : Nat := if cur < min then 0 else ((cur - min) / step).toNat + 1

theorem upCount_step (cur max step : Int) (hs : 0 < step) (h : ¬ cur > max) :
    upCount cur max step = upCount (cur + step) max step + 1 := by
  unfold upCount
  simp only [h, if_false]
  by_cases h2 : cur + step > max
  · simp only [h2, if_true]
    have : (max - cur) / step = 0 := Int.ediv_eq_zero_of_lt (by omega) (by omega)
    simp [this]
  · simp only [h2, if_false]
    have e : max - cur = (max - (cur + step)) + 1 * step := by omega
    have h3 : 0 ≤ (max - (cur + step)) / step := Int.ediv_nonneg (by omega) (by omega)
    rw [e, Int.add_mul_ediv_right _ _ (by omega : step ≠ 0)]
    omega

theorem upFrom_eq_map (max step : Int) (hs : 0 < step) : ∀ (k : Nat) (cur : Int),
    Spec.upFrom k cur max step = (List.range (min k (upCount cur max step))).map (fun (i : Nat) => cur + (i : Int) * step) := by
  intro k
  induction k with
  | zero => intro cur; simp [Spec.upFrom]
  | succ k ih =>
    intro cur
    unfold Spec.upFrom
    by_cases h : cur > max
    · simp [h, upCount]
    · simp only [h, if_false]
      rw [upCount_step cur max step hs h, Nat.add_min_add_right, List.range_succ_eq_map, ih]
      simp only [List.map_cons, List.map_map]
      congr 1
      · simp
      · apply List.map_congr_left
        intro i _
        simp only [Function.comp, Nat.succ_eq_add_one, Int.natCast_add, Int.add_mul]
        omega

theorem downCount_step (cur mn step : Int) (hs : 0 < step) (h : ¬ cur < mn) :
    downCount cur mn step = downCount (cur - step) mn step + 1 := by
  unfold downCount
  simp only [h, if_false]
  by_cases h2 : cur - step < mn
  · simp only [h2, if_true]
    have : (cur - mn) / step = 0 := Int.ediv_eq_zero_of_lt (by omega) (by omega)
    simp [this]
  · simp only [h2, if_false]
    have e : cur - mn = (cur - step - mn) + 1 * step := by omega
    have h3 : 0 ≤ (cur - step - mn) / step := Int.ediv_nonneg (by omega) (by omega)
    rw [e, Int.add_mul_ediv_right _ _ (by omega : step ≠ 0)]
    omega

theorem downFrom_eq_map (mn step : Int) (hs : 0 < step) : ∀ (k : Nat) (cur : Int),
    Spec.downFrom k cur mn step = (List.range (min k (downCount cur mn step))).map (fun (i : Nat) => cur - (i : Int) * step) := by
  intro k
  induction k with
  | zero => intro cur; simp [Spec.downFrom]
  | succ k ih =>
    intro cur
    unfold Spec.downFrom
    by_cases h : cur < mn
    · simp [h, downCount]
    · simp only [h, if_false]
      rw [downCount_step cur mn step hs h, Nat.add_min_add_right, List.range_succ_eq_map, ih]
      simp only [List.map_cons, List.map_map]
      congr 1
      · simp
      · apply List.map_congr_left
        intro i _
        simp only [Function.comp, Nat.succ_eq_add_one, Int.natCast_add, Int.add_mul]
        omega

theorem upCount_le (cur max step : Int) (hs : 0 < step) (h : cur ≤ max) : upCount cur max step ≤ (max - cur).toNat + 1 := by
  unfold upCount
  have h1 : ¬ cur > max := by omega
  simp only [h1, if_false]
  have := Int.ediv_le_self (b := step) (a := max - cur) (by omega)
  have h3 : 0 ≤ (max - cur) / step := Int.ediv_nonneg (by omega) (by omega)
  omega

theorem downCount_le (cur mn step : Int) (hs : 0 < step) (h : mn ≤ cur) : downCount cur mn step ≤ (cur - mn).toNat + 1 := by
  unfold downCount
  have h1 : ¬ cur < mn := by omega
  simp only [h1, if_false]
  have := Int.ediv_le_self (b := step) (a := cur - mn) (by omega)
  have h3 : 0 ≤ (cur - mn) / step := Int.ediv_nonneg (by omega) (by omega)
  omega

/-- with enough fuel the list does not depend on the fuel -/
theorem upFrom_fuel (max step : Int) (hs : 0 < step) (k k' : Nat) (cur : Int)
    (h : upCount cur max step ≤ k) (h' : upCount cur max step ≤ k') :
    Spec.upFrom k cur max step = Spec.upFrom k' cur max step := by
  rw [upFrom_eq_map max step hs, upFrom_eq_map max step hs, Nat.min_eq_right h, Nat.min_eq_right h']

theorem downFrom_fuel (mn step : Int) (hs : 0 < step) (k k' : Nat) (cur : Int)
    (h : downCount cur mn step ≤ k) (h' : downCount cur mn step ≤ k') :
    Spec.downFrom k cur mn step = Spec.downFrom k' cur mn step := by
  rw [downFrom_eq_map mn step hs, downFrom_eq_map mn step hs, Nat.min_eq_right h, Nat.min_eq_right h']

theorem upFrom_length (max step : Int) (hs : 0 < step) (k : Nat) (cur : Int) :
    (Spec.upFrom k cur max step).length = min k (upCount cur max step) := by
  rw [upFrom_eq_map max step hs]; simp

theorem downFrom_length (mn step : Int) (hs : 0 < step) (k : Nat) (cur : Int) :
    (Spec.downFrom k cur mn step).length = min k (downCount cur mn step) := by
  rw [downFrom_eq_map mn step hs]; simp
end BlocV.Lemmas
