/-
  Lemmas for Proofs/C18F.lean: the 4096-byte chunk loop of `read` is `take`, `fwrite` as a walk over the file is
  the closed form of the POSIX specification, `run` distributes over `++`.
-/
import BlocV.Model.Mod.File

namespace BlocV.Mod.File
open BlocV.Spec.File (readAt writeAt padTo)

/-! ### the chunk loop -/

theorem take_add' (l : List α) (a b : Nat) : l.take (a + b) = l.take a ++ (l.drop a).take b := by
  rw [List.take_add]

/-- The loop of `Read_S` / `Read_B` delivers exactly `take n` of what follows the position, for EVERY request `n`
    (below, equal to, above 4096, multiple of 4096 or not), and advances the position by that much. -/
theorem readLoop_eq (c : Bytes) : ∀ (fuel pos : Nat) (n : Int) (acc : Bytes), n.toNat ≤ fuel * 4096 →
    readLoop true c fuel pos n acc = (acc ++ (c.drop pos).take n.toNat, pos + ((c.drop pos).take n.toNat).length) := by
  intro fuel
  induction fuel with
  | zero =>
    intro pos n acc h
    have : n.toNat = 0 := by omega
    simp [readLoop, this]
  | succ fuel ih =>
    intro pos n acc h
    unfold readLoop
    by_cases hn : n > 0
    · simp only [hn, if_true]
      by_cases hbig : n > 4096
      · simp only [hbig, if_true, freadAt]
        by_cases hlt : ((c.drop pos).take 4096).length < 4096
        · simp only [hlt, if_true]
          have hlen : (c.drop pos).length < 4096 := by
            rw [List.length_take] at hlt; omega
          have h1 : (c.drop pos).take 4096 = c.drop pos := List.take_of_length_le (by omega)
          have h2 : (c.drop pos).take n.toNat = c.drop pos := List.take_of_length_le (by omega)
          rw [h1, h2]
        · simp only [hlt, if_false]
          have hlen : ((c.drop pos).take 4096).length = 4096 := by
            have := List.length_take_le 4096 (c.drop pos); omega
          rw [ih (pos + ((c.drop pos).take 4096).length) (n - ((c.drop pos).take 4096).length)
                (acc ++ (c.drop pos).take 4096) (by rw [hlen]; omega)]
          rw [hlen]
          have hn' : n.toNat = 4096 + (n - (4096 : Nat)).toNat := by omega
          have hd : c.drop (pos + 4096) = (c.drop pos).drop 4096 := by rw [List.drop_drop]
          rw [hn', take_add', hd]
          simp only [List.append_assoc, List.length_append, hlen, Nat.add_assoc]
      · simp only [hbig, if_false, if_true, freadAt]
        have hle : n.toNat ≤ 4096 := by omega
        by_cases hlt : ((c.drop pos).take n.toNat).length < 4096
        · rw [if_pos hlt]
        · rw [if_neg hlt]
          have hlen : ((c.drop pos).take n.toNat).length = 4096 := by
            have := List.length_take_le n.toNat (c.drop pos); omega
          have hn4 : n.toNat = 4096 := by
            have := List.length_take_le n.toNat (c.drop pos); omega
          rw [ih _ _ _ (by rw [hlen]; omega)]
          have hz : (n - ((c.drop pos).take n.toNat).length).toNat = 0 := by rw [hlen]; omega
          rw [hz]
          simp
    · have : n.toNat = 0 := by omega
      simp [hn, this]

/-- a stream that cannot be read delivers nothing -/
theorem readLoop_noread (c : Bytes) (fuel pos : Nat) (n : Int) : (readLoop false c fuel pos n []).1 = [] := by
  cases fuel with
  | zero => simp [readLoop]
  | succ f =>
    unfold readLoop
    by_cases hn : n > 0 <;> simp [hn, freadAt]

theorem readFuel_ok (n : Int) : n.toNat ≤ readFuel n * 4096 := by
  unfold readFuel; omega

/-! ### writing -/

/-- `fwrite` as a walk over the file = the closed form of the specification -/
theorem fwriteBytes_eq_writeAt : ∀ (c : Bytes) (pos : Nat) (d : Bytes), fwriteBytes c pos d = writeAt c pos d := by
  intro c pos d
  induction c, pos, d using fwriteBytes.induct with
  | case1 c pos => simp [fwriteBytes, writeAt]
  | case2 d hd =>
    have : d ≠ [] := by intro h; exact hd (h ▸ rfl) |> False.elim
    simp [fwriteBytes, writeAt, padTo, this]
  | case3 pos d hd ih =>
    have hne : d ≠ [] := by intro h; subst h; simp at hd
    rw [fwriteBytes, ih]
    · simp [writeAt, padTo, hne, List.replicate_succ]
    · exact hd
  | case4 x c b d ih =>
    rw [fwriteBytes, ih]
    by_cases hd : d = []
    · subst hd; simp [writeAt, padTo]
    · simp [writeAt, padTo, hd, Nat.add_comm]
  | case5 x c pos d hd ih =>
    have hne : d ≠ [] := by intro h; subst h; simp at hd
    rw [fwriteBytes, ih]
    · simp [writeAt, padTo, hne, Nat.add_assoc, Nat.add_comm 1, Nat.succ_sub_succ]
      rw [← Nat.add_assoc, List.drop_succ_cons]
    · exact hd

/-- appending at the end of the file -/
theorem writeAt_end (c d : Bytes) : writeAt c c.length d = c ++ d := by
  by_cases hd : d = []
  · simp [writeAt, hd]
  · simp [writeAt, padTo, hd]

/-- reading back what `writeAt` stored -/
theorem readAt_writeAt (c : Bytes) (pos : Nat) (d : Bytes) : readAt (writeAt c pos d) pos d.length = d := by
  by_cases hd : d = []
  · simp [readAt, hd]
  · have hl : ((padTo c pos).take pos).length = pos := by
      simp [padTo, List.length_take]; omega
    simp only [writeAt, hd, if_false, readAt, List.append_assoc]
    rw [List.drop_append_of_le_length (by omega), List.drop_of_length_le (by omega)]
    simp

/-! ### sequences -/

theorem run_append (w : World) (a b : List Op) :
    run w (a ++ b) = ((run (run w a).1 b).1, (run w a).2 ++ (run (run w a).1 b).2) := by
  induction a generalizing w with
  | nil => simp [run]
  | cons op ops ih => simp [run, ih]

theorem run_cons (w : World) (op : Op) (ops : List Op) :
    run w (op :: ops) = ((run (step w op).1 ops).1, (step w op).2 :: (run (step w op).1 ops).2) := by
  simp [run]

end BlocV.Mod.File
