/-
  Lemmas for the sequence-level refinement `file_refines_spec` (Proofs/C18F.lean): every stream call of the model on
  an open handle is one `Spec.File.sstep` on the abstraction.
-/
import BlocV.Proofs.Lemmas.FileMod
import BlocV.Model.Mod.FileAbs

set_option linter.unusedVariables false

namespace BlocV.Mod.File
open BlocV.Spec.File (readAt writeAt uptoLF sline LINE_CAP SStream SOp SRes sstep srun SFile)

/-- a stream that cannot be read delivers nothing and does not move -/
theorem readLoop_noread' (c : Bytes) (fuel pos : Nat) (n : Int) : readLoop false c fuel pos n [] = ([], pos) := by
  cases fuel with
  | zero => simp [readLoop]
  | succ f =>
    unfold readLoop
    by_cases hn : n > 0 <;> simp [hn, freadAt]

/-- `Handle::readln` = "up to and including the first LF, at most 4096 bytes", for EVERY unread part -/
theorem readlnScan_eq : ∀ (rest : Bytes) (r : Nat) (acc : Bytes) (k : Nat), r ≤ 4096 →
    (readlnScan rest r acc k).1 = acc ++ uptoLF (rest.take (4096 - r)) ∧
    (readlnScan rest r acc k).2.1 = k + (uptoLF (rest.take (4096 - r))).length := by
  intro rest
  induction rest with
  | nil => intro r acc k _; simp [readlnScan, uptoLF]
  | cons b rest ih =>
    intro r acc k hr
    by_cases hfull : r ≥ 4096
    · have : 4096 - r = 0 := by omega
      simp [readlnScan, hfull, this, uptoLF]
    · obtain ⟨m, hm⟩ : ∃ m, 4096 - r = m + 1 := ⟨4096 - r - 1, by omega⟩
      have hm' : 4096 - (r + 1) = m := by omega
      by_cases hb : b = LF
      · have hb10 : b = 10 := hb
        simp [readlnScan, hfull, hb, hm, uptoLF, LF]
      · have hb10 : ¬ b = 10 := hb
        have := ih (r + 1) (acc ++ [b]) (k + 1) (by omega)
        rw [hm'] at this
        simp only [readlnScan, hfull, if_false, hb, hm, List.take_succ_cons, uptoLF, hb10]
        rw [this.1, this.2]
        simp [Nat.add_assoc, Nat.add_comm 1]

theorem uptoLF_ne_nil (l : Bytes) (h : l ≠ []) : uptoLF l ≠ [] := by
  cases l with
  | nil => exact absurd rfl h
  | cons b r => unfold uptoLF; split <;> simp

theorem sline_length_pos (rest : Bytes) (h : rest ≠ []) : 0 < (sline rest).length := by
  apply List.length_pos_iff.mpr
  apply uptoLF_ne_nil
  cases rest with
  | nil => exact absurd rfl h
  | cons b r => simp [LINE_CAP]

theorem uptoLF_length_le (l : Bytes) : (uptoLF l).length ≤ l.length := by
  induction l with
  | nil => simp [uptoLF]
  | cons b r ih => unfold uptoLF; split <;> simp <;> omega

/-- a line is at most 4096 bytes long and ends at its first LF -/
theorem sline_length_le (rest : Bytes) : (sline rest).length ≤ 4096 := by
  have := uptoLF_length_le (rest.take LINE_CAP)
  have h2 := List.length_take_le LINE_CAP rest
  unfold sline
  simp only [LINE_CAP] at *
  omega

theorem uptoLF_prefix (l : Bytes) : ∃ t, l = uptoLF l ++ t := by
  induction l with
  | nil => exact ⟨[], rfl⟩
  | cons b r ih =>
    unfold uptoLF
    split
    · exact ⟨r, rfl⟩
    · obtain ⟨t, ht⟩ := ih
      exact ⟨t, by simp; exact ht⟩

/-- a line is a prefix of the unread part -/
theorem sline_prefix (rest : Bytes) : rest = sline rest ++ rest.drop (sline rest).length := by
  obtain ⟨t, ht⟩ := uptoLF_prefix (rest.take LINE_CAP)
  have h1 : rest = (sline rest ++ t) ++ rest.drop LINE_CAP := by
    unfold sline; rw [← ht, List.take_append_drop]
  generalize hS : sline rest = S at h1 ⊢
  have h3 : rest.drop S.length = t ++ rest.drop LINE_CAP := by
    have := congrArg (List.drop S.length) h1
    rw [List.append_assoc, List.drop_left] at this
    exact this
  rw [h3, ← List.append_assoc]; exact h1

theorem uptoLF_of_no_LF (l : Bytes) (h : ∀ b ∈ l, b ≠ 10) : uptoLF l = l := by
  induction l with
  | nil => rfl
  | cons b r ih =>
    have hb : b ≠ 10 := h b (by simp)
    simp only [uptoLF, hb, if_false]
    rw [ih (fun x hx => h x (by simp [hx]))]

/-- a line of 4096 or more bytes without LF comes in pieces of exactly 4096 bytes -/
theorem sline_full (rest : Bytes) (h : ∀ b ∈ rest.take 4096, b ≠ 10) : sline rest = rest.take 4096 := by
  unfold sline LINE_CAP; exact uptoLF_of_no_LF _ h

theorem uptoLF_line (l r : Bytes) (h : ∀ b ∈ l, b ≠ 10) : uptoLF (l ++ 10 :: r) = l ++ [10] := by
  induction l with
  | nil => simp [uptoLF]
  | cons b t ih =>
    have hb : b ≠ 10 := h b (by simp)
    simp only [List.cons_append, uptoLF, hb, if_false]
    rw [ih (fun x hx => h x (by simp [hx]))]

/-- a line shorter than the buffer ends with its LF -/
theorem sline_line (l r : Bytes) (h : ∀ b ∈ l, b ≠ 10) (hl : l.length < 4096) : sline (l ++ 10 :: r) = l ++ [10] := by
  unfold sline LINE_CAP
  have e : (l ++ 10 :: r).take 4096 = l ++ 10 :: r.take (4096 - l.length - 1) := by
    rw [List.take_append, List.take_of_length_le (by omega)]
    congr 1
    obtain ⟨m, hm⟩ : ∃ m, 4096 - l.length = m + 1 := ⟨4096 - l.length - 1, by omega⟩
    rw [hm, List.take_succ_cons]
    congr 2
  rw [e]; exact uptoLF_line l _ h

/-! ### one stream call of the model = one step of the specification -/

/-- the world after a transfer that moved the stream to `pos'` and left the direction flag `l` -/
def moved (w : World) (f : OFile) (pos' : Nat) (l : LastIO) : World :=
  { w with h := { w.h with file := some { f with pos := pos', last := l } } }

theorem moved_self (w : World) (f : OFile) (hf : w.h.file = some f) : moved w f f.pos f.last = w := by
  obtain ⟨fs, h⟩ := w
  obtain ⟨file, p, m, r, wr⟩ := h
  simp only at hf
  subst hf
  rfl

/-- what `read(var, n)` delivers -/
def readD (w : World) (f : OFile) (n : Int64) : Bytes :=
  if n.toInt > 0 ∧ f.rd = true then readAt ((w.fs.get f.path).getD []) f.pos n.toInt.toNat else []

theorem readH_shape (w : World) (f : OFile) (str : Bool) (n : Int64) (hf : w.h.file = some f) :
    ∃ l, readH w f str n = (moved w f (f.pos + (readD w f n).length) l, .rd (readD w f n).length (readD w f n)) := by
  unfold readH readD
  by_cases hn : n.toInt > 0
  · cases hrd : f.rd with
    | true =>
      have hloop := readLoop_eq ((w.fs.get f.path).getD []) (readFuel n.toInt) f.pos n.toInt [] (readFuel_ok _)
      refine ⟨if (readAt ((w.fs.get f.path).getD []) f.pos n.toInt.toNat).length < n.toInt.toNat then .inputEof else .input, ?_⟩
      simp [hn, hloop, moved, readAt, hrd]
    | false =>
      have hloop := readLoop_noread' ((w.fs.get f.path).getD []) (readFuel n.toInt) f.pos n.toInt
      refine ⟨f.last, ?_⟩
      simp [hn, hloop, moved, hrd]
  · refine ⟨f.last, ?_⟩
    simp [hn, moved_self w f hf]

theorem readH_refines (w : World) (f : OFile) (str : Bool) (n : Int64) (hf : w.h.file = some f) (hr : w.h.r = true) :
    ∃ f', (readH w f str n).1.h.file = some f' ∧ (readH w f str n).1.fs = w.fs
      ∧ absS (readH w f str n).1 f' = (sstep w.fs.maxOff (absS w f) (.read n.toInt)).1
      ∧ (readH w f str n).2 = resOf (sstep w.fs.maxOff (absS w f) (.read n.toInt)).2 := by
  obtain ⟨l, e⟩ := readH_shape w f str n hf
  rw [e]
  refine ⟨_, rfl, rfl, ?_, ?_⟩
  · unfold readD
    by_cases hn : n.toInt > 0
    · have hn' : ¬ n.toInt ≤ 0 := by omega
      cases hrd : f.rd <;> simp [moved, absS, absF, sstep, hr, hrd, hn, hn', Spec.File.sread, readAt]
    · have hn' : n.toInt ≤ 0 := by omega
      simp [moved, absS, absF, sstep, hr, hn, hn']
  · unfold readD
    by_cases hn : n.toInt > 0
    · have hn' : ¬ n.toInt ≤ 0 := by omega
      cases hrd : f.rd <;> simp [absS, absF, sstep, hr, hrd, hn, hn', Spec.File.sread, readAt, resOf]
    · have hn' : n.toInt ≤ 0 := by omega
      simp [absS, sstep, hr, hn, hn', resOf]

/-- what `readln(var)` delivers (`none`: FALSE, nothing stored) -/
def lineD (w : World) (f : OFile) : Option Bytes :=
  if f.rd = true ∧ ((w.fs.get f.path).getD []).drop f.pos ≠ [] then some (sline (((w.fs.get f.path).getD []).drop f.pos)) else none

theorem readlnH_shape (w : World) (f : OFile) :
    ∃ l, readlnH w f = (moved w f (f.pos + ((lineD w f).getD []).length) l,
                        match lineD w f with | some x => .ln true (some x) | none => .ln false none) := by
  unfold readlnH lineD
  cases hrd : f.rd with
  | false =>
    refine ⟨f.last, ?_⟩
    simp [moved, hrd]
  | true =>
    cases hrest : ((w.fs.get f.path).getD []).drop f.pos with
    | nil =>
      refine ⟨.inputEof, ?_⟩
      simp [readlnScan, moved, hrd, hrest]
    | cons b rest =>
      have hsc := readlnScan_eq (b :: rest) 0 [] 0 (by omega)
      have hne : (b :: rest) ≠ [] := by simp
      have hpos := sline_length_pos (b :: rest) hne
      rcases hq : readlnScan (b :: rest) 0 [] 0 with ⟨line, k, e⟩
      rw [hq] at hsc
      simp only [List.nil_append, Nat.zero_add, Nat.sub_zero] at hsc
      have hl : line = sline (b :: rest) := hsc.1
      have hk : k = (sline (b :: rest)).length := hsc.2
      subst hl; subst hk
      refine ⟨if e = .eof then .inputEof else .input, ?_⟩
      simp [hpos, moved, hrd, hrest, hq]

theorem readlnH_refines (w : World) (f : OFile) (hf : w.h.file = some f) (hr : w.h.r = true) :
    ∃ f', (readlnH w f).1.h.file = some f' ∧ (readlnH w f).1.fs = w.fs
      ∧ absS (readlnH w f).1 f' = (sstep w.fs.maxOff (absS w f) .readLine).1
      ∧ (readlnH w f).2 = resOf (sstep w.fs.maxOff (absS w f) .readLine).2 := by
  obtain ⟨l, e⟩ := readlnH_shape w f
  rw [e]
  refine ⟨_, rfl, rfl, ?_, ?_⟩
  · unfold lineD
    cases hrd : f.rd with
    | false => simp [moved, absS, absF, sstep, hr, hrd]
    | true =>
      by_cases hrest : ((w.fs.get f.path).getD []).drop f.pos = []
      · simp [moved, absS, absF, sstep, hr, hrd, hrest]
      · simp [moved, absS, absF, sstep, hr, hrd, hrest]
  · unfold lineD
    cases hrd : f.rd with
    | false => simp [absS, absF, sstep, hr, hrd, resOf]
    | true =>
      by_cases hrest : ((w.fs.get f.path).getD []).drop f.pos = []
      · simp [absS, absF, sstep, hr, hrd, hrest, resOf]
      · simp [absS, absF, sstep, hr, hrd, hrest, resOf]

theorem writeH_refines (w : World) (f : OFile) (d : Bytes) (hf : w.h.file = some f) (hd : d.length < 4294967296) :
    ∃ f', (writeH w f d).1.h.file = some f' ∧ (writeH w f d).1.fs.maxOff = w.fs.maxOff
      ∧ (writeH w f d).1.h.r = w.h.r ∧ (writeH w f d).1.h.w = w.h.w
      ∧ (w.h.w = true → absS (writeH w f d).1 f' = (sstep w.fs.maxOff (absS w f) (.write d)).1
          ∧ Res.int (writeH w f d).2 = resOf (sstep w.fs.maxOff (absS w f) (.write d)).2) := by
  have hl : writeLen d = d.length := by unfold writeLen; omega
  cases hwr : f.wr with
  | false =>
    refine ⟨f, by simp [writeH, hwr, hf], by simp [writeH, hwr], by simp [writeH, hwr], by simp [writeH, hwr], ?_⟩
    intro hw
    simp [writeH, hwr, absS, sstep, hw, resOf]
  | true =>
    by_cases hd0 : d = []
    · subst hd0
      refine ⟨f, by simp [writeH, hf], by simp [writeH], by simp [writeH], by simp [writeH], ?_⟩
      intro hw
      simp [writeH, absS, sstep, hw, hwr, resOf, Spec.File.swrite]
    · have hne : d.isEmpty = false := by cases d <;> simp_all
      refine ⟨{ f with pos := (if f.app then ((w.fs.get f.path).getD []).length else f.pos) + d.length, last := .output },
        by simp [writeH, hwr, hl, hne, hd0], by simp [writeH, hwr, hl, hne, FS.put], by simp [writeH, hwr, hl, hne],
        by simp [writeH, hwr, hl, hne], ?_⟩
      intro hw
      cases ha : f.app <;>
        simp [writeH, hwr, hl, hne, absS, absF, sstep, hw, resOf, Spec.File.swrite, hd0, FS.put, fwriteBytes_eq_writeAt, ha]

theorem seekH_refines (w : World) (f : OFile) (wh : Spec.File.Whence) (off : Int64) (hf : w.h.file = some f) :
    ∃ f', (seekH w f wh off).1.h.file = some f' ∧ (seekH w f wh off).1.fs = w.fs
      ∧ (seekH w f wh off).1.h.r = w.h.r ∧ (seekH w f wh off).1.h.w = w.h.w
      ∧ absS (seekH w f wh off).1 f' = (sstep w.fs.maxOff (absS w f) (.seek wh off.toInt)).1
      ∧ (seekH w f wh off).2 = resOf (sstep w.fs.maxOff (absS w f) (.seek wh off.toInt)).2 := by
  unfold seekH
  simp only [absS, absF, sstep]
  cases h : Spec.File.sseek w.fs.maxOff ⟨(w.fs.get f.path).getD [], f.pos, f.app⟩ wh off.toInt with
  | none => exact ⟨f, hf, rfl, rfl, rfl, by simp [resOf, EINVAL]⟩
  | some s =>
    refine ⟨_, rfl, rfl, rfl, rfl, ?_⟩
    have hs : s.content = (w.fs.get f.path).getD [] ∧ s.append = f.app := by
      cases wh <;> simp only [Spec.File.sseek] at h <;> split at h <;>
        first
        | (injection h with h; subst h; exact ⟨rfl, rfl⟩)
        | cases h
    obtain ⟨sc, sp, sa⟩ := s
    simp only at hs
    obtain ⟨h1, h2⟩ := hs
    subst h1; subst h2
    simp [resOf]

/-- one stream call of the module = one step of the specification on the abstraction (outside the recorded region
    `C18.file_update_without_reposition`: the call does not answer `undefinedSeq`) -/
theorem step_refines (w : World) (f : OFile) (hf : w.h.file = some f) (op : Op) (hop : StreamOp op)
    (hu : (step w op).2 ≠ .undefinedSeq) :
    ∃ f', (step w op).1.h.file = some f' ∧ (step w op).1.fs.maxOff = w.fs.maxOff
      ∧ absS (step w op).1 f' = (sstep w.fs.maxOff (absS w f) (toS op)).1
      ∧ (step w op).2 = resOf (sstep w.fs.maxOff (absS w f) (toS op)).2 := by
  cases op with
  | readS n =>
    cases n with
    | none => exact absurd hop (by simp [StreamOp])
    | some n =>
      cases hr : w.h.r with
      | false => exact ⟨f, by simp [step, hr, hf], by simp [step, hr], by simp [step, hr, absS, sstep, toS], by simp [step, hr, absS, sstep, toS, resOf]⟩
      | true =>
        simp only [step, hr, hf, Bool.not_true, Bool.false_eq_true, if_false] at hu ⊢
        split at hu
        · exact absurd rfl hu
        · rename_i hb
          rw [if_neg hb]
          obtain ⟨f', h1, h2, h5, h6⟩ := readH_refines w f true n hf hr
          exact ⟨f', h1, by rw [h2], h5, h6⟩
  | readB n =>
    cases n with
    | none => exact absurd hop (by simp [StreamOp])
    | some n =>
      cases hr : w.h.r with
      | false => exact ⟨f, by simp [step, hr, hf], by simp [step, hr], by simp [step, hr, absS, sstep, toS], by simp [step, hr, absS, sstep, toS, resOf]⟩
      | true =>
        simp only [step, hr, hf, Bool.not_true, Bool.false_eq_true, if_false] at hu ⊢
        split at hu
        · exact absurd rfl hu
        · rename_i hb
          rw [if_neg hb]
          obtain ⟨f', h1, h2, h5, h6⟩ := readH_refines w f false n hf hr
          exact ⟨f', h1, by rw [h2], h5, h6⟩
  | readln =>
    cases hr : w.h.r with
    | false => exact ⟨f, by simp [step, hr, hf], by simp [step, hr], by simp [step, hr, absS, sstep, toS], by simp [step, hr, absS, sstep, toS, resOf]⟩
    | true =>
      simp only [step, hr, hf, Bool.not_true, Bool.false_eq_true, if_false] at hu ⊢
      split at hu
      · exact absurd rfl hu
      · rename_i hb
        rw [if_neg hb]
        obtain ⟨f', h1, h2, h5, h6⟩ := readlnH_refines w f hf hr
        exact ⟨f', h1, by rw [h2], h5, h6⟩
  | writeS d =>
    cases d with
    | none => exact absurd hop (by simp [StreamOp])
    | some d =>
      have hd : d.length < 4294967296 := hop
      cases hw : w.h.w with
      | false => exact ⟨f, by simp [step, hw, hf], by simp [step, hw], by simp [step, hw, absS, sstep, toS], by simp [step, hw, absS, sstep, toS, resOf]⟩
      | true =>
        simp only [step, hw, hf, Bool.not_true, Bool.false_eq_true, if_false] at hu ⊢
        split at hu
        · exact absurd rfl hu
        · rename_i hb
          rw [if_neg hb]
          obtain ⟨f', h1, h2, h3, h4, h5⟩ := writeH_refines w f d hf hd
          exact ⟨f', h1, h2, (h5 hw).1, (h5 hw).2⟩
  | writeB d =>
    cases d with
    | none => exact absurd hop (by simp [StreamOp])
    | some d =>
      have hd : d.length < 4294967296 := hop
      cases hw : w.h.w with
      | false => exact ⟨f, by simp [step, hw, hf], by simp [step, hw], by simp [step, hw, absS, sstep, toS], by simp [step, hw, absS, sstep, toS, resOf]⟩
      | true =>
        simp only [step, hw, hf, Bool.not_true, Bool.false_eq_true, if_false] at hu ⊢
        split at hu
        · exact absurd rfl hu
        · rename_i hb
          rw [if_neg hb]
          obtain ⟨f', h1, h2, h3, h4, h5⟩ := writeH_refines w f d hf hd
          exact ⟨f', h1, h2, (h5 hw).1, (h5 hw).2⟩
  | seekSet n =>
    cases n with
    | none => exact absurd hop (by simp [StreamOp])
    | some o =>
      obtain ⟨f', h1, h2, _, _, h5, h6⟩ := seekH_refines w f .set o hf
      exact ⟨f', by simpa [step, hf] using h1, by simp [step, hf, h2], by simpa [step, hf, toS] using h5, by simpa [step, hf, toS] using h6⟩
  | seekCur n =>
    cases n with
    | none => exact absurd hop (by simp [StreamOp])
    | some o =>
      obtain ⟨f', h1, h2, _, _, h5, h6⟩ := seekH_refines w f .cur o hf
      exact ⟨f', by simpa [step, hf] using h1, by simp [step, hf, h2], by simpa [step, hf, toS] using h5, by simpa [step, hf, toS] using h6⟩
  | seekEnd n =>
    cases n with
    | none => exact absurd hop (by simp [StreamOp])
    | some o =>
      obtain ⟨f', h1, h2, _, _, h5, h6⟩ := seekH_refines w f .end_ o hf
      exact ⟨f', by simpa [step, hf] using h1, by simp [step, hf, h2], by simpa [step, hf, toS] using h5, by simpa [step, hf, toS] using h6⟩
  | position => exact ⟨f, by simp [step, hf], by simp [step, hf], by simp [step, hf, absS, sstep, toS], by simp [step, hf, absS, absF, sstep, toS, resOf]⟩
  | flush =>
    exact ⟨{ f with last := if f.last = .output then .none else f.last }, by simp [step, hf], by simp [step, hf],
      by simp [step, hf, absS, absF, sstep, toS], by simp [step, hf, sstep, toS, resOf]⟩
  | ctor0 => exact absurd hop (by simp [StreamOp])
  | ctor p m => exact absurd hop (by simp [StreamOp])
  | «open» p m => exact absurd hop (by simp [StreamOp])
  | close => exact absurd hop (by simp [StreamOp])
  | isOpen => exact absurd hop (by simp [StreamOp])
  | mode => exact absurd hop (by simp [StreamOp])
  | filename => exact absurd hop (by simp [StreamOp])
  | fdirname => exact absurd hop (by simp [StreamOp])
  | fbasename => exact absurd hop (by simp [StreamOp])
  | fstat => exact absurd hop (by simp [StreamOp])
  | stat p => exact absurd hop (by simp [StreamOp])
  | dir p => exact absurd hop (by simp [StreamOp])
  | separator => exact absurd hop (by simp [StreamOp])
  | dirname p => exact absurd hop (by simp [StreamOp])
  | basename p => exact absurd hop (by simp [StreamOp])


/-! ### streams that are not open for update never reach the undefined region -/

theorem readH_no_undef (w : World) (f : OFile) (str : Bool) (n : Int64) : (readH w f str n).2 ≠ .undefinedSeq := by
  unfold readH; split <;> simp

theorem seekH_no_undef (w : World) (f : OFile) (wh : Spec.File.Whence) (o : Int64) : (seekH w f wh o).2 ≠ .undefinedSeq := by
  unfold seekH; simp only []; split <;> simp

theorem readlnH_no_undef (w : World) (f : OFile) : (readlnH w f).2 ≠ .undefinedSeq := by
  unfold readlnH; simp only []
  repeat' split
  all_goals simp

/-- a stream that is not open for update (read-only or write-only: every mode without `+`) never reaches the region
    `C18.file_update_without_reposition`, whatever is called with whatever argument — PROVIDED the module's own `_r` flag is
    not set on a stream that cannot read (`h2`; the mode strings `"wr"`, `"w\0r"`, `"ar"` violate it: there `read()` calls
    `fread` on a write-only stream with output pending) -/
theorem step_oneway (w : World) (f : OFile) (hf : w.h.file = some f) (h1 : (f.wr && f.rd) = false)
    (h2 : f.rd = false → w.h.r = false) (op : Op) :
    (step w op).2 ≠ .undefinedSeq := by
  have hbi : ∀ f0, w.h.file = some f0 → w.h.r = true → badInput f0 = false := by
    intro f0 h0 hr; rw [hf] at h0; injection h0 with h0; subst h0
    cases hrd : f.rd with
    | false => rw [h2 hrd] at hr; exact absurd hr (by simp)
    | true => rw [hrd] at h1; simp at h1; simp [badInput, h1]
  have hbo : ∀ f0 d, w.h.file = some f0 → badOutput f0 d = false := by
    intro f0 d h0; rw [hf] at h0; injection h0 with h0; subst h0; simp [badOutput, h1]
  cases op with
  | readS n =>
    simp only [step]
    split
    · simp
    · rename_i hnr
      have hr : w.h.r = true := by simpa using hnr
      split
      · rename_i f0 l h0
        rw [hbi f0 h0 hr]
        simpa using readH_no_undef _ _ _ _
      · simp
  | readB n =>
    simp only [step]
    split
    · simp
    · rename_i hnr
      have hr : w.h.r = true := by simpa using hnr
      split
      · rename_i f0 l h0
        rw [hbi f0 h0 hr]
        simpa using readH_no_undef _ _ _ _
      · simp
  | writeB d =>
    simp only [step]
    split
    · simp
    · split
      · rename_i f0 d0 h0
        rw [hbo f0 d0 h0]
        simp
      · simp
  | writeS d =>
    simp only [step]
    split
    · simp
    · split
      · rename_i f0 d0 h0
        rw [hbo f0 d0 h0]
        simp
      · simp
  | readln =>
    simp only [step]
    split
    · simp
    · rename_i hnr
      have hr : w.h.r = true := by simpa using hnr
      split
      · rename_i f0 h0
        rw [hbi f0 h0 hr]
        simpa using readlnH_no_undef _ _
      · simp
  | seekSet n => simp only [step]; split <;> first | exact seekH_no_undef _ _ _ _ | simp
  | seekCur n => simp only [step]; split <;> first | exact seekH_no_undef _ _ _ _ | simp
  | seekEnd n => simp only [step]; split <;> first | exact seekH_no_undef _ _ _ _ | simp
  | ctor p m =>
    simp only [step]
    split
    · split
      · simp
      · split <;> simp
    · simp
  | «open» p m =>
    simp only [step]
    split
    · split <;> simp
    · simp
  | ctor0 => simp only [step]; split <;> simp
  | close => simp [step]
  | flush => simp only [step]; split <;> simp
  | position => simp only [step]; split <;> simp
  | isOpen => simp [step]
  | mode => simp [step]
  | filename => simp only [step]; split <;> simp
  | fdirname => simp only [step]; split <;> simp
  | fbasename => simp only [step]; split <;> simp
  | fstat => simp only [step]; split <;> simp
  | stat p => simp only [step]; split <;> simp
  | dir p => simp only [step]; split <;> simp
  | separator => simp [step]
  | dirname p => simp only [step]; split <;> simp
  | basename p => simp only [step]; split <;> simp

theorem sstep_flags (m : Nat) (s : SStream) (op : SOp) :
    (sstep m s op).1.canRead = s.canRead ∧ (sstep m s op).1.canWrite = s.canWrite := by
  cases op <;> simp only [sstep] <;> (repeat' split) <;> simp

theorem sstep_may (m : Nat) (s : SStream) (op : SOp) :
    (sstep m s op).1.mayRead = s.mayRead ∧ (sstep m s op).1.mayWrite = s.mayWrite := by
  cases op <;> simp only [sstep] <;> (repeat' split) <;> simp


end BlocV.Mod.File
