/-
  Helper lemmas for C01 (whole programs): what an expression node calls besides its sub-expressions, run in the interpreter's
  monad — `substr` / `subraw` (whose signed index arithmetic is the one hazard the model keeps: on a length ≥ 2^63), the
  constructors `tab` / `tup`, the accessor `@N`, and the dispatch of EVERY modelled built-in (`evalBuiltin_nh`).
  (Helper lemmas only — the property theorems are in BlocV/Proofs/C01.lean.)
-/
import BlocV.Proofs.Lemmas.NoHazardInterp
namespace BlocV.NHI
open BlocV
variable {bad : Hazard → Bool} {I : St → Prop}

/-! ### substr / subraw: the only hazard left is the signed index arithmetic on a length that does not fit `int64_t` -/

theorem sadd_nb (hb : bad .signedOverflow = false) (a b : Int64) : nb bad (sadd a b) := by
  unfold sadd
  dsimp only
  split
  · exact nb_triv (fun _ e => by cases e)
  · intro x e; cases e; exact hb
theorem ssub_nb (hb : bad .signedOverflow = false) (a b : Int64) : nb bad (ssub a b) := by
  unfold ssub
  dsimp only
  split
  · exact nb_triv (fun _ e => by cases e)
  · intro x e; cases e; exact hb

theorem substrRange_nb (hb : bad .signedOverflow = false) (c a0 b : Int64) : nb bad (substrRange c a0 b) := by
  unfold substrRange
  dsimp only
  have tail : ∀ a : Int64, NHR bad (fun _ => True) (if a < 0 then (pure (a, 0) : Res (Int64 × Int64)) else do
        let d ← ssub c a
        pure (a, imax (imin b d) 0)) := by
    intro a
    split
    · exact NHR.ok trivial
    · exact NHR.bind (P := fun _ => True) ⟨ssub_nb hb _ _, fun _ _ => trivial⟩ (fun _ _ => NHR.ok trivial)
  split
  · exact (NHR.bind (P := fun _ => True) ⟨sadd_nb hb _ _, fun _ _ => trivial⟩ (fun a _ => tail a)).1
  · exact (tail a0).1

set_option maxHeartbeats 1000000 in
theorem substrLike_nh (hb : bad .signedOverflow = false) (major : Major) (nullTy : Ty) (get : Val → Res Bytes) (mk : Bytes → Val)
    (hmk : ∀ b, okVal (mk b) = true)
    (hget : ∀ v, okVal v = true → v.isNull = false → (get v).isHazard = false)
    (args : List (EvalM Val)) (h : NArgs bad I args) : NH bad I okV (substrLike (m := EvalM) major nullTy get mk args) := by
  unfold substrLike
  repeat' (first
    | exact substrRange_nb hb _ _ _
    | exact hmk _
    | (with_reducible refine nb_of_nh ?_) <;> exact hget _ ‹_› (by nn_tac)
    | nhm_step h)

/-! ### `tab` / `tup` / `@N` -/

theorem tabHeader_level (a1 : Val) (t : Ty) (d : List Ty) (h : tabHeader a1 = .ok (t, d)) : t.level ≠ 0 := by
  unfold tabHeader at h
  split at h
  · cases h
  · split at h
    · cases h
    · rename_i hl
      have hl' : a1.type.level < 254 := by simp [Gen.TYPE_LEVEL_MAX] at hl; omega
      split at h
      · cases h; simp [makeTupleTy_level]
      · rename_i t0 d0 es
        simp only [Val.type] at hl'
        split at h
        · cases h; simp [makeTupleTy_level]; omega
        · cases h; simp [levelUp8]; omega
      · cases h; simp [levelUp8]; omega

theorem tabFill_nh (t1 : EvalM Val) (ht : NH bad I okV t1) (ty : Ty) : ∀ k acc, okVals acc = true →
    NH bad I (fun l => okVals l = true) (tabFill (m := EvalM) t1 ty k acc) := by
  intro k
  induction k with
  | zero => intro acc ha; exact NH.pure ha
  | succ k ih =>
    intro acc ha
    unfold tabFill
    refine NH.bind ht (fun a hv => ?_)
    split
    · exact NH.rerr _
    · exact ih _ (by rw [okVals_append]; simp [ha]; exact hv)

set_option maxHeartbeats 1000000 in
theorem biTab_nh (args : List (EvalM Val)) (h : NArgs bad I args) : NH bad I okV (biTab (m := EvalM) args) := by
  unfold biTab
  split
  · exact NH.pure (okVal_null _)
  · rename_i t0 t1
    refine NH.bind (NArgs.get h _ (by simp)) (fun a0 h0 => ?_)
    split
    · refine NH.bind (NArgs.get h _ (by simp)) (fun a1 h1 => ?_)
      split
      · exact NH.rerr _
      · exact NH.pure (okVal_null _)
    · rename_i hn
      refine NH.bind_liftR (nb_of_nh (asInt_no_hazard (tabOk_of_okVal h0) (nn_of_not hn))) (fun n _ => ?_)
      split
      · exact NH.rerr _
      split
      · exact NH.liftR NHR.unm
      refine NH.bind (NArgs.get h _ (by simp)) (fun a1 h1 => ?_)
      have hth : (tabHeader a1).isHazard = false := by
        unfold tabHeader; repeat' split
        all_goals rfl
      refine NH.bind_liftR (nb_of_nh hth) (fun p hp => ?_)
      obtain ⟨t, decl⟩ := p
      have hl := tabHeader_level a1 t decl hp
      dsimp only
      split
      · exact NH.pure (by simp [okV, okVal_tab, hl])
      · refine NH.bind (tabFill_nh t1 (NArgs.get h _ (by simp)) _ _ _ (by simp; exact h1)) (fun es hes => ?_)
        exact NH.pure (by simp [okV, okVal_tab, hl]; exact hes)
  · exact NH.argTypeErr

theorem tupItems_nh : ∀ (args : List (EvalM Val)), NArgs bad I args → ∀ acc, okVals acc = true →
    NH bad I (fun l => okVals l = true) (tupItems (m := EvalM) args acc) := by
  intro args
  induction args with
  | nil => intro _ acc ha; exact NH.pure ha
  | cons t ts ih =>
    intro h acc ha
    unfold tupItems
    refine NH.bind (NArgs.get h _ (by simp)) (fun v hv => ?_)
    split
    · exact NH.rerr _
    · split
      · exact NH.rerr _
      · exact ih (fun x hx => h x (by simp [hx])) _ (by rw [okVals_append]; simp [ha]; exact hv)

theorem biTup_nh (args : List (EvalM Val)) (h : NArgs bad I args) : NH bad I okV (biTup (m := EvalM) args) := by
  unfold biTup
  split
  · exact NH.pure (okVal_null _)
  · refine NH.bind (tupItems_nh _ h [] rfl) (fun items hi => ?_)
    exact NH.pure (by simp [okV, okVal_tup]; exact hi)

theorem itemAtV_nhr (v : Val) (i : Nat) (hv : okVal v = true) : NHR bad okV (itemAtV v i) := by
  unfold itemAtV
  split
  · exact NHR.err
  · split
    · rename_i decl items
      simp only [okVal_tup, Bool.and_eq_true, beq_iff_eq] at hv
      split
      · rename_i hlt
        split
        · exact NHR.ok (okVals_getElem? _ _ _ hv.2 ‹_›)
        · rename_i hnone
          rw [List.getElem?_eq_none_iff] at hnone
          omega
      · exact NHR.err
    · exact NHR.err

theorem itemAt_nh (recv : EvalM Val) (h : NH bad I okV recv) (n : Nat) : NH bad I okV (itemAt (m := EvalM) recv n) := by
  unfold itemAt
  have h1 : (itemNo n).isHazard = false := by unfold itemNo; split <;> rfl
  refine NH.bind_liftR (nb_of_nh h1) (fun no _ => ?_)
  refine NH.bind h (fun v hv => ?_)
  exact NH.liftR (itemAtV_nhr v _ hv)

/-! ### dispatch -/

theorem evalBuiltinX_nh (name : String) (args : List (EvalM Val)) (h : NArgs bad I args)
    (r : EvalM Val) (hr : evalBuiltinX (m := EvalM) name args = some r) : NH bad I okV r := by
  unfold evalBuiltinX at hr
  split at hr
  all_goals first
    | (cases hr; first
        | exact biNum_nh _ h | exact biIsnum_nh _ h | exact biBool_nh _ h | exact biIsnull_nh _ h
        | exact biTypeof_nh _ h | exact biSign_nh _ h | exact mathMap_nh _ _ h | exact biRound_nh _ h
        | exact biMinMax_nh _ _ h | exact biMod_nh _ h | exact biAtan2_nh _ h | exact biClamp_nh _ h
        | exact NH.pure (okVal_num _))
    | cases hr

/-- every modelled built-in, run in the interpreter's monad; `substr` / `subraw` need `bad .signedOverflow = false` (their index
arithmetic overflows on a string of 2^63 bytes or more) or are excluded by name -/
theorem evalBuiltin_nh (hb : bad .signedOverflow = false ∨ (name ≠ "substr" ∧ name ≠ "subraw")) (fmt : Num.F64 → Bytes)
    (args : List (EvalM Val)) (h : NArgs bad I args)
    (r : EvalM Val) (hr : evalBuiltin (m := EvalM) fmt name args = some r) : NH bad I okV r := by
  unfold evalBuiltin at hr
  split at hr
  · cases hr
    rcases hb with hb | hb
    · exact substrLike_nh hb _ _ _ _ okVal_str (fun v hv hn => asStr_no_hazard (tabOk_of_okVal hv) hn) _ h
    · exact absurd rfl hb.1
  · cases hr
    rcases hb with hb | hb
    · exact substrLike_nh hb _ _ _ _ okVal_raw (fun v hv hn => asRaw_no_hazard (tabOk_of_okVal hv) hn) _ h
    · exact absurd rfl hb.2
  all_goals first
    | (cases hr; first
        | exact lrSubstr_nh _ _ h | exact biStrpos_nh _ h | exact biReplace_nh _ h | exact strMap_nh _ _ h
        | exact biStrlen_nh _ h | exact biTokenize_nh _ h | exact biHex_nh _ h | exact biHash_nh _ h
        | exact biChr_nh _ h | exact biRaw_nh _ h | exact biInt_nh _ h | exact biB64_nh _ _ h
        | exact biStr_nh _ _ h | exact biAbs_nh _ h | exact biPow_nh _ h)
    | exact evalBuiltinX_nh _ _ h r hr
end BlocV.NHI
