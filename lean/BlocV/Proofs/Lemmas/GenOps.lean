/-
  Helper lemmas for Proofs/C02G.lean (task GENOPS): for every operator family of Model/Ops.lean, the exact set of
  (level, major) operand cells on which the model's `value()` transcription answers EXC_RT_INV_EXPRESSION, written as a
  boolean cell function (`arithCell`, `addCell`, `bitCell`, `boolCell`, `unCell`, `eqCell`).  Proofs/C02G.lean proves
  these cell functions equal to the case labels extracted from the C++ (`Gen.Op.*_pairs`).
  (Helper lemmas only — the property theorems are in BlocV/Proofs/C02G.lean.)
-/
import BlocV.Model.GenEval
import BlocV.Proofs.Lemmas.OpsCases
namespace BlocV.GenOps
open Num Gen

/-- no EXC_RT_INV_EXPRESSION among the errors of `r` -/
abbrev NotInv {α} (r : Res α) : Prop := Res.errP (· ≠ EXC_RT_INV_EXPRESSION) r

theorem ne_inv_of {α} {r : Res α} (h : NotInv r) : r ≠ inv := by
  intro e; exact h EXC_RT_INV_EXPRESSION [] e rfl

theorem asInt_notInv (a : Val) : NotInv a.asInt := by
  unfold Val.asInt; split
  · exact errP_err (by decide)
  · split <;> first | exact errP_ok | exact errP_haz
theorem asNum_notInv (a : Val) : NotInv a.asNum := by
  unfold Val.asNum; split
  · exact errP_err (by decide)
  · split <;> first | exact errP_ok | exact errP_haz
theorem asStr_notInv (a : Val) : NotInv a.asStr := by
  unfold Val.asStr; split
  · exact errP_err (by decide)
  · split <;> first | exact errP_ok | exact errP_haz

def arithCell (imagOk : Bool) : Major → Major → Bool
  | .none, .none | .none, .int | .none, .num | .int, .none | .num, .none
  | .int, .int | .int, .num | .num, .int | .num, .num => true
  | .none, .imag | .imag, .none | .imag, .int | .imag, .num | .imag, .imag | .int, .imag | .num, .imag => imagOk
  | _, _ => false

theorem arith_notInv (nn : Ty) (ii : Int64 → Int64 → Res Int64) (ff : F64 → F64 → Res F64) (imagOk : Bool) (a1 a2 : Val)
    (hii : ∀ x y, NotInv (ii x y)) (hff : ∀ x y, NotInv (ff x y))
    (hc : arithCell imagOk a1.type.major a2.type.major = true) (h1 : a1.type.level = 0) (h2 : a2.type.level = 0) :
    NotInv (arith nn ii ff imagOk a1 a2) := by
  unfold arith
  simp only [h1, h2, bne_self_eq_false, Bool.or_self, Bool.false_eq_true, ↓reduceIte]
  split
  all_goals first
    | exact errP_ok
    | (split <;> first | exact errP_ok | exact errP_unm | (exfalso; simp_all [arithCell]; done))
    | (split
       · exact errP_ok
       · refine errP_bind _ _ ?_ (fun x _ => errP_bind _ _ ?_ (fun y _ => errP_bind _ _ ?_ (fun r _ => errP_pure)))
         all_goals first
           | exact asInt_notInv _ | exact asNum_notInv _ | exact hii _ _ | exact hff _ _)
    | (exfalso; generalize a1.type.major = m1 at *; generalize a2.type.major = m2 at *
       cases m1 <;> cases m2 <;> simp_all [arithCell])

theorem arith_inv (nn : Ty) (ii : Int64 → Int64 → Res Int64) (ff : F64 → F64 → Res F64) (imagOk : Bool) (a1 a2 : Val)
    (h : ¬(a1.type.level = 0 ∧ a2.type.level = 0 ∧ arithCell imagOk a1.type.major a2.type.major = true)) :
    arith nn ii ff imagOk a1 a2 = inv := by
  unfold arith
  by_cases h1 : a1.type.level = 0 <;> by_cases h2 : a2.type.level = 0 <;> simp [h1, h2] at h ⊢
  generalize a1.type.major = m1 at *; generalize a2.type.major = m2 at *
  cases m1 <;> cases m2 <;> cases imagOk <;> simp_all [arithCell]

/-! ### `+` -/

def addCell : Major → Major → Bool
  | .none, .str | .str, .none | .str, .str => true
  | m1, m2 => arithCell true m1 m2

theorem opAdd_notInv (a1 a2 : Val) (hc : addCell a1.type.major a2.type.major = true)
    (h1 : a1.type.level = 0) (h2 : a2.type.level = 0) : NotInv (opAdd a1 a2) := by
  unfold opAdd
  simp only [h1, h2, bne_self_eq_false, Bool.or_self, Bool.false_eq_true, ↓reduceIte]
  split
  · exact errP_ok
  · exact errP_ok
  · split <;> exact errP_ok
  · refine arith_notInv _ _ _ _ _ _ (fun _ _ => errP_ok) (fun _ _ => errP_ok) ?_ h1 h2
    generalize a1.type.major = m1 at *; generalize a2.type.major = m2 at *
    cases m1 <;> cases m2 <;> simp_all [addCell]

theorem opAdd_inv (a1 a2 : Val)
    (h : ¬(a1.type.level = 0 ∧ a2.type.level = 0 ∧ addCell a1.type.major a2.type.major = true)) : opAdd a1 a2 = inv := by
  unfold opAdd
  by_cases h1 : a1.type.level = 0 <;> by_cases h2 : a2.type.level = 0 <;> simp [h1, h2] at h ⊢
  split
  · simp_all [addCell]
  · simp_all [addCell]
  · simp_all [addCell]
  · apply arith_inv
    intro hh
    generalize a1.type.major = m1 at *; generalize a2.type.major = m2 at *
    cases m1 <;> cases m2 <;> simp_all [addCell, arithCell]

/-! ### bitwise, `xor` on booleans -/

def bitCell : Major → Major → Bool
  | .none, .none | .none, .int | .int, .none | .int, .int => true
  | _, _ => false

theorem bitwise_notInv (ii : Int64 → Int64 → Int64) (a1 a2 : Val) (hc : bitCell a1.type.major a2.type.major = true)
    (h1 : a1.type.level = 0) (h2 : a2.type.level = 0) : NotInv (bitwise ii a1 a2) := by
  unfold bitwise
  simp only [h1, h2, bne_self_eq_false, Bool.or_self, Bool.false_eq_true, ↓reduceIte]
  split
  · exact errP_ok
  · exact errP_ok
  · exact errP_ok
  · split
    · exact errP_ok
    · exact errP_bind _ _ (asInt_notInv _) (fun x _ => errP_bind _ _ (asInt_notInv _) (fun y _ => errP_pure))
  · exfalso
    generalize a1.type.major = m1 at *; generalize a2.type.major = m2 at *
    cases m1 <;> cases m2 <;> simp_all [bitCell]

theorem bitwise_inv (ii : Int64 → Int64 → Int64) (a1 a2 : Val)
    (h : ¬(a1.type.level = 0 ∧ a2.type.level = 0 ∧ bitCell a1.type.major a2.type.major = true)) : bitwise ii a1 a2 = inv := by
  unfold bitwise
  by_cases h1 : a1.type.level = 0 <;> by_cases h2 : a2.type.level = 0 <;> simp [h1, h2] at h ⊢
  generalize a1.type.major = m1 at *; generalize a2.type.major = m2 at *
  cases m1 <;> cases m2 <;> simp_all [bitCell]

def boolCell : Major → Major → Bool
  | .none, .none | .none, .bool | .bool, .none | .bool, .bool => true
  | _, _ => false

theorem opBxor_notInv (a1 a2 : Val) (hc : boolCell a1.type.major a2.type.major = true)
    (h1 : a1.type.level = 0) (h2 : a2.type.level = 0) : NotInv (opBxor a1 a2) := by
  unfold opBxor
  simp only [h1, h2, bne_self_eq_false, Bool.or_self, Bool.false_eq_true, ↓reduceIte]
  split
  · exact errP_ok
  · exact errP_ok
  · exact errP_ok
  · split <;> exact errP_ok
  · exfalso
    generalize a1.type.major = m1 at *; generalize a2.type.major = m2 at *
    cases m1 <;> cases m2 <;> simp_all [boolCell]

theorem opBxor_inv (a1 a2 : Val)
    (h : ¬(a1.type.level = 0 ∧ a2.type.level = 0 ∧ boolCell a1.type.major a2.type.major = true)) : opBxor a1 a2 = inv := by
  unfold opBxor
  by_cases h1 : a1.type.level = 0 <;> by_cases h2 : a2.type.level = 0 <;> simp [h1, h2] at h ⊢
  generalize a1.type.major = m1 at *; generalize a2.type.major = m2 at *
  cases m1 <;> cases m2 <;> simp_all [boolCell]

/-! ### unary -/

def unCell : UnOp → Major → Bool
  | .neg, .none | .neg, .int | .neg, .num | .neg, .imag => true
  | .pos, .none | .pos, .int | .pos, .num | .pos, .imag => true
  | .not, .none | .not, .int => true
  | .bnot, .none | .bnot, .bool => true
  | _, _ => false

theorem evalUn_notInv (op : UnOp) (a : Val) (hc : unCell op a.type.major = true) (h1 : a.type.level = 0) :
    NotInv (evalUn op a) := by
  cases op <;>
  · unfold evalUn
    simp only [h1, bne_self_eq_false, Bool.false_eq_true, ↓reduceIte]
    split
    all_goals first
      | exact errP_ok
      | exact errP_unm
      | (split <;> exact errP_ok)
      | (exfalso; generalize a.type.major = m1 at *; cases m1 <;> simp_all [unCell])

theorem evalUn_inv (op : UnOp) (a : Val) (h : ¬(a.type.level = 0 ∧ unCell op a.type.major = true)) : evalUn op a = inv := by
  unfold evalUn
  by_cases h1 : a.type.level = 0 <;> simp [h1] at h ⊢
  generalize a.type.major = m1 at *
  cases op <;> cases m1 <;> simp_all [unCell]

/-! ### `and`, `or`: the second operand is looked at only when the first does not decide -/

theorem opBand_notInv (a1 a2 : Val)
    (h : a1 = .bool false ∨ (a1.type.level = 0 ∧ a2.type.level = 0 ∧ boolCell a1.type.major a2.type.major = true)) :
    NotInv (opBand a1 (fun _ => .ok a2)) := by
  rcases h with h | ⟨h1, h2, hc⟩
  · subst h; exact errP_ok
  · unfold opBand
    simp only [h1, h2, bne_self_eq_false, Bool.false_eq_true, ↓reduceIte, Res.bind_ok]
    split
    · split
      · exact errP_pure
      · split <;> exact errP_pure
      · exfalso; generalize a1.type.major = m1 at *; generalize a2.type.major = m2 at *
        cases m1 <;> cases m2 <;> simp_all [boolCell]
    · split
      · exact errP_ok
      · split
        · exact errP_pure
        · split <;> first | exact errP_pure | (split <;> exact errP_pure)
        · exfalso; generalize a1.type.major = m1 at *; generalize a2.type.major = m2 at *
          cases m1 <;> cases m2 <;> simp_all [boolCell]
    · exfalso; generalize a1.type.major = m1 at *; generalize a2.type.major = m2 at *
      cases m1 <;> cases m2 <;> simp_all [boolCell]

theorem opBand_inv (a1 a2 : Val)
    (h : ¬(a1 = .bool false ∨ (a1.type.level = 0 ∧ a2.type.level = 0 ∧ boolCell a1.type.major a2.type.major = true))) :
    opBand a1 (fun _ => .ok a2) = inv := by
  simp only [not_or] at h
  obtain ⟨hs, hc⟩ := h
  unfold opBand
  by_cases h1 : a1.type.level = 0
  · simp only [h1, bne_self_eq_false, Bool.false_eq_true, ↓reduceIte, Res.bind_ok]
    by_cases h2 : a2.type.level = 0
    · simp only [h1, h2, true_and, Bool.not_eq_true] at hc
      simp only [h2, bne_self_eq_false, Bool.false_eq_true, ↓reduceIte]
      repeat' split
      all_goals first | rfl | (exfalso; simp_all [boolCell]; done)
    · have : (a2.type.level != 0) = true := by simp [h2]
      simp only [this, ↓reduceIte]
      repeat' split
      all_goals first | rfl | (exfalso; simp_all [boolCell]; done)
  · simp [h1]

theorem opBior_notInv (a1 a2 : Val)
    (h : a1 = .bool true ∨ (a1.type.level = 0 ∧ a2.type.level = 0 ∧ boolCell a1.type.major a2.type.major = true)) :
    NotInv (opBior a1 (fun _ => .ok a2)) := by
  rcases h with h | ⟨h1, h2, hc⟩
  · subst h; exact errP_ok
  · unfold opBior
    simp only [h1, h2, bne_self_eq_false, Bool.false_eq_true, ↓reduceIte, Res.bind_ok]
    split
    · split
      · exact errP_pure
      · split <;> exact errP_pure
      · exfalso; generalize a1.type.major = m1 at *; generalize a2.type.major = m2 at *
        cases m1 <;> cases m2 <;> simp_all [boolCell]
    · split
      · exact errP_ok
      · split
        · exact errP_pure
        · split <;> first | exact errP_pure | (split <;> exact errP_pure)
        · exfalso; generalize a1.type.major = m1 at *; generalize a2.type.major = m2 at *
          cases m1 <;> cases m2 <;> simp_all [boolCell]
    · exfalso; generalize a1.type.major = m1 at *; generalize a2.type.major = m2 at *
      cases m1 <;> cases m2 <;> simp_all [boolCell]

theorem opBior_inv (a1 a2 : Val)
    (h : ¬(a1 = .bool true ∨ (a1.type.level = 0 ∧ a2.type.level = 0 ∧ boolCell a1.type.major a2.type.major = true))) :
    opBior a1 (fun _ => .ok a2) = inv := by
  simp only [not_or] at h
  obtain ⟨hs, hc⟩ := h
  unfold opBior
  by_cases h1 : a1.type.level = 0
  · simp only [h1, bne_self_eq_false, Bool.false_eq_true, ↓reduceIte, Res.bind_ok]
    by_cases h2 : a2.type.level = 0
    · simp only [h1, h2, true_and, Bool.not_eq_true] at hc
      simp only [h2, bne_self_eq_false, Bool.false_eq_true, ↓reduceIte]
      repeat' split
      all_goals first | rfl | (exfalso; simp_all [boolCell]; done)
    · have : (a2.type.level != 0) = true := by simp [h2]
      simp only [this, ↓reduceIte]
      repeat' split
      all_goals first | rfl | (exfalso; simp_all [boolCell]; done)
  · simp [h1]

/-! ### `==`, `!=`: never an error; outside the extracted (t1, t2) tests the answer is the constant the chain ends with -/

def eqCell : Major → Major → Bool
  | .bool, .bool | .int, .int | .int, .num | .num, .int | .num, .num | .str, .str | .raw, .raw | .obj, .obj | .tup, .tup => true
  | _, _ => false

theorem eqCore_const (same : Bool) (a1 a2 : Val) (hn1 : a1.isNull = false) (hn2 : a2.isNull = false)
    (h1 : a1.type.level = 0) (h2 : a2.type.level = 0) (hi1 : a1.type.major ≠ .imag) (hi2 : a2.type.major ≠ .imag)
    (hc : eqCell a1.type.major a2.type.major = false) :
    eqCore same a1 a2 = .ok false ∧ neCore same a1 a2 = .ok true := by
  unfold eqCore neCore
  simp only [h1, h2, Nat.lt_irrefl, ↓reduceIte]
  cases a1 <;> cases a2 <;>
    simp_all [Val.type, Val.isNull, eqCell, Ty.bool, Ty.int, Ty.num, Ty.str, Ty.raw, Ty.imag, makeTupleTy_major]


/-! ### all binary operators: the cell function of the model, and `evalBin` in terms of it -/

/-- The operand cells in which `evalBin op` does not answer EXC_RT_INV_EXPRESSION (switch-form operators), resp. in which
`==`/`!=` compare payloads (the rest of the operators: unused). -/
def handCell : BinOp → Major → Major → Bool
  | .add => addCell
  | .sub | .mul | .div | .exp => arithCell true
  | .mod => arithCell false
  | .and | .ior | .xor | .pop | .pus => bitCell
  | .band | .bior | .bxor => boolCell
  | .eq | .ne => eqCell
  | _ => fun _ _ => false

theorem idiv_notInv (x y : Int64) : NotInv (idiv x y) := by
  unfold idiv; repeat' split
  all_goals first | exact errP_ok | exact errP_err (by decide)
theorem imod_notInv (x y : Int64) : NotInv (imod x y) := by
  unfold imod; repeat' split
  all_goals first | exact errP_ok | exact errP_err (by decide)
theorem ipow_notInv (x y : Int64) : NotInv (ipow x y) := by
  unfold ipow; repeat' split
  all_goals first | exact errP_ok | exact errP_err (by decide)
theorem fdivChecked_notInv (x y : F64) : NotInv (fdivChecked x y) := by
  unfold fdivChecked; split <;> first | exact errP_ok | exact errP_err (by decide)
theorem fmodChecked_notInv (x y : F64) : NotInv (fmodChecked x y) := by
  unfold fmodChecked; split <;> first | exact errP_ok | exact errP_err (by decide)

/-- The eager switch-form operators. -/
def eagerSwitch : BinOp → Bool
  | .add | .sub | .mul | .div | .exp | .mod | .and | .ior | .xor | .pop | .pus | .bxor => true
  | _ => false

theorem evalBin_notInv (op : BinOp) (hop : eagerSwitch op = true) (a b : Val) (same : Bool)
    (h1 : a.type.level = 0) (h2 : b.type.level = 0) (hc : handCell op a.type.major b.type.major = true) :
    NotInv (evalBin op a b same) := by
  cases op <;> simp only [eagerSwitch, Bool.false_eq_true] at hop <;> simp only [handCell] at hc <;> unfold evalBin <;> simp only []
  · exact opAdd_notInv a b hc h1 h2
  · exact arith_notInv _ _ _ _ _ _ (fun _ _ => errP_ok) (fun _ _ => errP_ok) hc h1 h2
  · exact arith_notInv _ _ _ _ _ _ (fun _ _ => errP_ok) (fun _ _ => errP_ok) hc h1 h2
  · exact arith_notInv _ _ _ _ _ _ idiv_notInv fdivChecked_notInv hc h1 h2
  · exact arith_notInv _ _ _ _ _ _ ipow_notInv (fun _ _ => errP_ok) hc h1 h2
  · exact arith_notInv _ _ _ _ _ _ imod_notInv fmodChecked_notInv hc h1 h2
  · exact bitwise_notInv _ a b hc h1 h2
  · exact bitwise_notInv _ a b hc h1 h2
  · exact bitwise_notInv _ a b hc h1 h2
  · exact bitwise_notInv _ a b hc h1 h2
  · exact bitwise_notInv _ a b hc h1 h2
  · exact opBxor_notInv a b hc h1 h2

theorem evalBin_inv (op : BinOp) (hop : eagerSwitch op = true) (a b : Val) (same : Bool)
    (h : ¬(a.type.level = 0 ∧ b.type.level = 0 ∧ handCell op a.type.major b.type.major = true)) :
    evalBin op a b same = inv := by
  cases op <;> simp only [eagerSwitch, Bool.false_eq_true] at hop <;> simp only [handCell] at h <;> unfold evalBin <;> simp only []
  · exact opAdd_inv a b h
  · exact arith_inv _ _ _ _ _ _ h
  · exact arith_inv _ _ _ _ _ _ h
  · exact arith_inv _ _ _ _ _ _ h
  · exact arith_inv _ _ _ _ _ _ h
  · exact arith_inv _ _ _ _ _ _ h
  · exact bitwise_inv _ a b h
  · exact bitwise_inv _ a b h
  · exact bitwise_inv _ a b h
  · exact bitwise_inv _ a b h
  · exact bitwise_inv _ a b h
  · exact opBxor_inv a b h

/-! ### `< <= > >=`: one switch on the first operand, the second read through a typed accessor -/

def ordRow : Major → Bool
  | .int | .num | .str => true
  | _ => false

def ordCell : Major → Major → Bool
  | .int, .int | .int, .num | .num, .int | .num, .num | .str, .str => true
  | _, _ => false

/-- a typed accessor of `bloc::Value` threw (value.h: EXC_RT_NOT_INTEGER / NOT_NUMERIC / NOT_LITERAL) -/
def IsAccErr (r : Res Val) : Prop :=
  ∃ c, r = .err c [] ∧ (c = Gen.EXC_RT_NOT_INTEGER ∨ c = Gen.EXC_RT_NOT_NUMERIC ∨ c = Gen.EXC_RT_NOT_LITERAL)

theorem isAccErr_ok (v : Val) : ¬IsAccErr (.ok v) := by rintro ⟨c, h, _⟩; cases h
theorem isAccErr_int : IsAccErr (.err Gen.EXC_RT_NOT_INTEGER) := ⟨_, rfl, Or.inl rfl⟩
theorem isAccErr_num : IsAccErr (.err Gen.EXC_RT_NOT_NUMERIC) := ⟨_, rfl, Or.inr (Or.inl rfl)⟩
theorem isAccErr_str : IsAccErr (.err Gen.EXC_RT_NOT_LITERAL) := ⟨_, rfl, Or.inr (Or.inr rfl)⟩

theorem asInt_cases {a : Val} (hw : a.tabOk = true) (hn : a.isNull = false) :
    (a.type.major = .int ∧ a.type.level = 0 ∧ ∃ i, a.asInt = .ok i) ∨
    (¬(a.type.major = .int ∧ a.type.level = 0) ∧ a.asInt = .err Gen.EXC_RT_NOT_INTEGER) := by
  by_cases h : a.type.major = .int ∧ a.type.level = 0
  · obtain ⟨i, rfl⟩ := eq_int_of hw h.2 h.1 hn
    exact Or.inl ⟨h.1, h.2, i, rfl⟩
  · refine Or.inr ⟨h, ?_⟩
    unfold Val.asInt
    have : (a.type.major != .int || a.type.level != 0) = true := by
      by_cases h1 : a.type.major = .int
      · have : a.type.level ≠ 0 := fun h0 => h ⟨h1, h0⟩
        simp [this]
      · simp [h1]
    simp [this]

theorem asNum_cases {a : Val} (hw : a.tabOk = true) (hn : a.isNull = false) :
    (a.type.major = .num ∧ a.type.level = 0 ∧ ∃ i, a.asNum = .ok i) ∨
    (¬(a.type.major = .num ∧ a.type.level = 0) ∧ a.asNum = .err Gen.EXC_RT_NOT_NUMERIC) := by
  by_cases h : a.type.major = .num ∧ a.type.level = 0
  · obtain ⟨i, rfl⟩ := eq_num_of hw h.2 h.1 hn
    exact Or.inl ⟨h.1, h.2, i, rfl⟩
  · refine Or.inr ⟨h, ?_⟩
    unfold Val.asNum
    have : (a.type.major != .num || a.type.level != 0) = true := by
      by_cases h1 : a.type.major = .num
      · have : a.type.level ≠ 0 := fun h0 => h ⟨h1, h0⟩
        simp [this]
      · simp [h1]
    simp [this]

theorem asStr_cases {a : Val} (hw : a.tabOk = true) (hn : a.isNull = false) :
    (a.type.major = .str ∧ a.type.level = 0 ∧ ∃ i, a.asStr = .ok i) ∨
    (¬(a.type.major = .str ∧ a.type.level = 0) ∧ a.asStr = .err Gen.EXC_RT_NOT_LITERAL) := by
  by_cases h : a.type.major = .str ∧ a.type.level = 0
  · obtain ⟨i, rfl⟩ := eq_str_of hw h.2 h.1 hn
    exact Or.inl ⟨h.1, h.2, i, rfl⟩
  · refine Or.inr ⟨h, ?_⟩
    unfold Val.asStr
    have : (a.type.major != .str || a.type.level != 0) = true := by
      by_cases h1 : a.type.major = .str
      · have : a.type.level ≠ 0 := fun h0 => h ⟨h1, h0⟩
        simp [this]
      · simp [h1]
    simp [this]


theorem ordered_accErr_iff (ci : Int64 → Int64 → Bool) (cf : F64 → F64 → Bool) (cs : Ordering → Bool) (a b : Val)
    (hw1 : a.tabOk = true) (hw2 : b.tabOk = true) (hn1 : a.isNull = false) (hn2 : b.isNull = false) :
    IsAccErr (ordered ci cf cs a b) ↔
      (ordRow a.type.major = true ∧ ¬(a.type.level = 0 ∧ b.type.level = 0 ∧ ordCell a.type.major b.type.major = true)) := by
  unfold ordered
  simp only [hn1, hn2, Bool.or_self, Bool.false_eq_true, ↓reduceIte]
  unfold ordCore
  split
  · rename_i hm
    simp only [hm, ordRow, true_and]
    rcases asInt_cases hw1 hn1 with ⟨_, hl, i, ha⟩ | ⟨hne, he⟩
    · by_cases hb : b.type.major = .num
      · rcases asNum_cases hw2 hn2 with ⟨_, hl2, d, hd⟩ | ⟨hne2, he2⟩
        · simp [hb, ha, hd, boolRes, isAccErr_ok, hl, hl2, ordCell]
        · have hl2 : b.type.level ≠ 0 := fun h0 => hne2 ⟨hb, h0⟩
          simp [hb, ha, he2, boolRes, isAccErr_num, hl2]
      · rcases asInt_cases hw2 hn2 with ⟨hb2, hl2, d, hd⟩ | ⟨hne2, he2⟩
        · simp [hb, hb2, ha, hd, boolRes, isAccErr_ok, hl, hl2, ordCell]
        · have : ¬(b.type.level = 0 ∧ ordCell .int b.type.major = true) := by
            rintro ⟨h0, hc⟩
            generalize b.type.major = m2 at *
            cases m2 <;> simp_all [ordCell]
          simp [hb, ha, he2, boolRes, isAccErr_int, hl]
          simpa using this
    · have hl : a.type.level ≠ 0 := fun h0 => hne ⟨hm, h0⟩
      simp only [he, Res.bind_err, hl, false_and, not_false_eq_true, iff_true]
      split <;> exact isAccErr_int
  · rename_i hm
    simp only [hm, ordRow, true_and]
    rcases asNum_cases hw1 hn1 with ⟨_, hl, i, ha⟩ | ⟨hne, he⟩
    · by_cases hb : b.type.major = .int
      · rcases asInt_cases hw2 hn2 with ⟨_, hl2, d, hd⟩ | ⟨hne2, he2⟩
        · simp [hb, ha, hd, boolRes, isAccErr_ok, hl, hl2, ordCell]
        · have hl2 : b.type.level ≠ 0 := fun h0 => hne2 ⟨hb, h0⟩
          simp [hb, ha, he2, boolRes, isAccErr_int, hl2]
      · rcases asNum_cases hw2 hn2 with ⟨hb2, hl2, d, hd⟩ | ⟨hne2, he2⟩
        · simp [hb2, ha, hd, boolRes, isAccErr_ok, hl, hl2, ordCell]
        · have : ¬(b.type.level = 0 ∧ ordCell .num b.type.major = true) := by
            rintro ⟨h0, hc⟩
            generalize b.type.major = m2 at *
            cases m2 <;> simp_all [ordCell]
          simp [hb, ha, he2, boolRes, isAccErr_num, hl]
          simpa using this
    · have hl : a.type.level ≠ 0 := fun h0 => hne ⟨hm, h0⟩
      simp only [he, Res.bind_err, hl, false_and, not_false_eq_true, iff_true]
      split <;> exact isAccErr_num
  · rename_i hm
    simp only [hm, ordRow, true_and]
    rcases asStr_cases hw1 hn1 with ⟨_, hl, i, ha⟩ | ⟨hne, he⟩
    · rcases asStr_cases hw2 hn2 with ⟨hb2, hl2, d, hd⟩ | ⟨hne2, he2⟩
      · simp [hb2, ha, hd, boolRes, isAccErr_ok, hl, hl2, ordCell]
      · have : ¬(b.type.level = 0 ∧ ordCell .str b.type.major = true) := by
          rintro ⟨h0, hc⟩
          generalize b.type.major = m2 at *
          cases m2 <;> simp_all [ordCell]
        simp [ha, he2, boolRes, isAccErr_str, hl]
        simpa using this
    · have hl : a.type.level ≠ 0 := fun h0 => hne ⟨hm, h0⟩
      simp only [he, Res.bind_err, hl, false_and, not_false_eq_true, iff_true]
      exact isAccErr_str
  · rename_i h1 h2 h3
    have : ordRow a.type.major = false := by
      generalize a.type.major = m1 at *
      cases m1 <;> simp_all [ordRow]
    simp [this, boolRes, isAccErr_ok]

/-! ### member methods: the receiver test -/

open GenEval in
theorem recvOk_eq (m : Member) (exp : Ty) :
    recvOk m exp = (if m = .count then (level0Seq exp || exp.major == .tup) else level0Seq exp) := by
  rcases exp with ⟨mj, mn, lv⟩
  cases m <;> cases mj <;>
    (simp only [recvOk, recvOf, level0Seq, Memb.concat_recv, Memb.at_recv, Memb.put_recv, Memb.count_recv,
      Memb.delete_recv, Memb.insert_recv, reduceCtorEq, ↓reduceIte]
     cases (lv != 0) <;> rfl)

end BlocV.GenOps
