/-
  Helper lemmas for C01 (whole TEXTS): what the elaborator (Model/Elab.lean) emits — every literal of an elaborated program is a
  scalar or a typed null, hence `litL true` (`elabBlock_lit`, by mutual structural induction over `elabExpr` / `elabArgs` and
  `elabStmt` / `elabNext` / `elabBlock` / `elabRules` / `elabCatches`, every constructor of `PExpr` / `PStmt`).
  (Helper lemmas only — the property theorems are in BlocV/Proofs/C01.lean.)
-/
import BlocV.Proofs.Lemmas.NoHazardProgram
import BlocV.Model.Stepwise
namespace BlocV.NHI
open BlocV BlocV.Parse BlocV.Elab
variable {sub : Bool}

/-! ## what the elaborator emits -/

theorem em_bind_ok {α β} {x : EM α} {f : α → EM β} {b : β} (h : (x >>= f) = .ok b) : ∃ a, x = .ok a ∧ f a = .ok b := by
  cases x with
  | error e => cases h
  | ok a => exact ⟨a, rfl, h⟩

theorem elabKw_lit (k : Bytes) (e : Expr) (h : elabKw k = .ok e) : litE true e = true := by
  unfold elabKw at h
  repeat' (split at h)
  all_goals first
    | (cases h; simp [litE]; done)
    | cases h

theorem elabCall_lit (name : String) (args : List Expr) (e : Expr) (ha : litEs true args = true) (h : elabCall name args = .ok e) :
    litE true e = true := by
  unfold elabCall at h
  split at h
  · cases h; simp [litE]
  · split at h
    · cases h; simp [litE, ha]
    · cases h

mutual
  theorem elabExpr_lit : ∀ (p : PExpr) (e : Expr), elabExpr p = .ok e → litE true e = true
    | .int _, e, h => by cases h; simp [litE]
    | .num _, e, h => by cases h; simp [litE]
    | .str _, e, h => by cases h; simp [litE]
    | .var _, e, h => by cases h; simp [litE]
    | .kw k, e, h => elabKw_lit k e h
    | .call n args, e, h => by
      simp only [elabExpr] at h
      obtain ⟨xs, hx, h⟩ := em_bind_ok h
      exact elabCall_lit _ _ _ (elabArgs_lit args xs hx) h
    | .fcall n args, e, h => by
      simp only [elabExpr] at h
      obtain ⟨xs, hx, h⟩ := em_bind_ok h
      cases h; simp [litE, elabArgs_lit args xs hx]
    | .member r n args, e, h => by
      simp only [elabExpr] at h
      obtain ⟨x, hx, h⟩ := em_bind_ok h
      obtain ⟨xs, hxs, h⟩ := em_bind_ok h
      split at h
      · cases h; simp [litE, elabExpr_lit r x hx, elabArgs_lit args xs hxs]
      · cases h
    | .setm _ _ _, e, h => by simp [elabExpr, unsup] at h
    | .item r no, e, h => by
      simp only [elabExpr] at h
      obtain ⟨x, hx, h⟩ := em_bind_ok h
      cases h; simp [litE, elabExpr_lit r x hx]
    | .un op _ a, e, h => by
      simp only [elabExpr] at h
      obtain ⟨x, hx, h⟩ := em_bind_ok h
      cases h; simp [litE, elabExpr_lit a x hx]
    | .bin op _ a b, e, h => by
      simp only [elabExpr] at h
      obtain ⟨o, _, h⟩ := em_bind_ok h
      obtain ⟨x, hx, h⟩ := em_bind_ok h
      obtain ⟨y, hy, h⟩ := em_bind_ok h
      cases h; simp [litE, elabExpr_lit a x hx, elabExpr_lit b y hy]
  theorem elabArgs_lit : ∀ (ps : List PExpr) (es : List Expr), elabArgs ps = .ok es → litEs true es = true
    | [], es, h => by cases h; simp [litEs]
    | a :: as, es, h => by
      simp only [elabArgs] at h
      obtain ⟨x, hx, h⟩ := em_bind_ok h
      obtain ⟨xs, hxs, h⟩ := em_bind_ok h
      cases h; simp [litEs, elabExpr_lit a x hx, elabArgs_lit as xs hxs]
end

theorem elabOpt_lit (o : Option PExpr) (r : Option Expr) (h : elabOpt o = .ok r) :
    (match r with | some x => litE true x | none => true) = true := by
  cases o with
  | none => cases h; rfl
  | some e =>
    simp only [elabOpt] at h
    obtain ⟨x, hx, h⟩ := em_bind_ok h
    cases h; exact elabExpr_lit e x hx

theorem litL_append (a b : List Stmt) : litL true (a ++ b) = (litL true a && litL true b) := by
  induction a with
  | nil => simp [litL]
  | cons x xs ih => simp [litL, ih, Bool.and_assoc]

theorem litRules_append (a b : List (Option Expr × List Stmt)) : litRules true (a ++ b) = (litRules true a && litRules true b) := by
  induction a with
  | nil => simp [litRules]
  | cons x xs ih => obtain ⟨c, body⟩ := x; simp [litRules, ih, Bool.and_assoc]

mutual
  theorem elabStmt_lit : ∀ (p : PStmt) (l : List Stmt), elabStmt p = .ok l → litL true l = true
    | .nop, l, h => by cases h; simp [litL, litS]
    | .brk, l, h => by cases h; simp [litL, litS]
    | .cont, l, h => by cases h; simp [litL, litS]
    | .trace _, l, h => by simp [elabStmt, unsup] at h
    | .ret e, l, h => by
      simp only [elabStmt] at h
      obtain ⟨x, hx, h⟩ := em_bind_ok h
      cases h
      have := elabOpt_lit e x hx
      cases x <;> simp_all [litL, litS]
    | .letS n e nx, l, h => by
      simp only [elabStmt] at h
      obtain ⟨x, hx, h⟩ := em_bind_ok h
      obtain ⟨r, hr, h⟩ := em_bind_ok h
      cases h; simp [litL, litS, elabExpr_lit e x hx, elabNext_lit nx r hr]
    | .letn _ _ _, l, h => by simp [elabStmt, unsup] at h
    | .print args, l, h => by
      simp only [elabStmt] at h
      obtain ⟨xs, hx, h⟩ := em_bind_ok h
      cases h; simp [litL, litS, elabArgs_lit args xs hx]
    | .put _, l, h => by simp [elabStmt, unsup] at h
    | .doS e, l, h => by
      simp only [elabStmt] at h
      obtain ⟨x, hx, h⟩ := em_bind_ok h
      cases h; simp [litL, litS, elabExpr_lit e x hx]
    | .raise _, l, h => by cases h; simp [litL, litS]
    | .ifS rules els, l, h => by
      rw [elabStmt] at h
      obtain ⟨rs, hrs, h⟩ := em_bind_ok h
      have h1 := elabRules_lit rules rs hrs
      cases els with
      | none => cases h; simp [litL, litS, h1]
      | some b =>
        simp only [] at h
        obtain ⟨eb, heb, h⟩ := em_bind_ok h
        cases h
        simp [litL, litS, litRules_append, litRules, h1, elabBlock_lit b eb heb]
    | .whileS c body, l, h => by
      simp only [elabStmt] at h
      obtain ⟨x, hx, h⟩ := em_bind_ok h
      obtain ⟨b, hb, h⟩ := em_bind_ok h
      cases h; simp [litL, litS, elabExpr_lit c x hx, elabBlock_lit body b hb]
    | .forS v b e step dir body, l, h => by
      simp only [elabStmt] at h
      obtain ⟨x, hx, h⟩ := em_bind_ok h
      obtain ⟨y, hy, h⟩ := em_bind_ok h
      obtain ⟨s, hs, h⟩ := em_bind_ok h
      obtain ⟨bd, hbd, h⟩ := em_bind_ok h
      have hst := elabOpt_lit step s hs
      have h1 := elabExpr_lit b x hx
      have h2 := elabExpr_lit e y hy
      have h3 := elabBlock_lit body bd hbd
      cases h
      cases s <;> simp_all [litL, litS]
    | .forall v e dir body, l, h => by
      simp only [elabStmt] at h
      obtain ⟨x, hx, h⟩ := em_bind_ok h
      obtain ⟨bd, hbd, h⟩ := em_bind_ok h
      cases h; simp [litL, litS, elabExpr_lit e x hx, elabBlock_lit body bd hbd]
    | .begin body catches, l, h => by
      simp only [elabStmt] at h
      obtain ⟨b, hb, h⟩ := em_bind_ok h
      obtain ⟨cs, hcs, h⟩ := em_bind_ok h
      cases h; simp [litL, litS, elabBlock_lit body b hb, elabCatches_lit catches cs hcs]
    | .func n params rt body catches, l, h => by
      simp only [elabStmt] at h
      obtain ⟨ps, _, h⟩ := em_bind_ok h
      obtain ⟨r, _, h⟩ := em_bind_ok h
      obtain ⟨b, hb, h⟩ := em_bind_ok h
      obtain ⟨cs, hcs, h⟩ := em_bind_ok h
      cases h; simp [litL, litS, elabBlock_lit body b hb, elabCatches_lit catches cs hcs]
  theorem elabNext_lit : ∀ (p : Option PStmt) (l : List Stmt), elabNext p = .ok l → litL true l = true
    | none, l, h => by cases h; simp [litL]
    | some s, l, h => by simp only [elabNext] at h; exact elabStmt_lit s l h
  theorem elabBlock_lit : ∀ (ps : List PStmt) (l : List Stmt), elabBlock ps = .ok l → litL true l = true
    | [], l, h => by cases h; simp [litL]
    | s :: ss, l, h => by
      simp only [elabBlock] at h
      obtain ⟨x, hx, h⟩ := em_bind_ok h
      obtain ⟨xs, hxs, h⟩ := em_bind_ok h
      cases h; simp [litL_append, elabStmt_lit s x hx, elabBlock_lit ss xs hxs]
  theorem elabRules_lit : ∀ (rs : List (PExpr × List PStmt)) (l : List (Option Expr × List Stmt)), elabRules rs = .ok l → litRules true l = true
    | [], l, h => by cases h; simp [litRules]
    | (c, b) :: rs, l, h => by
      simp only [elabRules] at h
      obtain ⟨x, hx, h⟩ := em_bind_ok h
      obtain ⟨y, hy, h⟩ := em_bind_ok h
      obtain ⟨r, hr, h⟩ := em_bind_ok h
      cases h; simp [litRules, elabExpr_lit c x hx, elabBlock_lit b y hy, elabRules_lit rs r hr]
  theorem elabCatches_lit : ∀ (cs : List (Bytes × List PStmt)) (l : List (String × List Stmt)), elabCatches cs = .ok l → litCatches true l = true
    | [], l, h => by cases h; simp [litCatches]
    | (n, b) :: cs, l, h => by
      simp only [elabCatches] at h
      obtain ⟨y, hy, h⟩ := em_bind_ok h
      obtain ⟨r, hr, h⟩ := em_bind_ok h
      cases h; simp [litCatches, elabBlock_lit b y hy, elabCatches_lit cs r hr]
end

theorem litProgram_of_litL : ∀ (prog : List Stmt), litL sub prog = true → litProgram sub prog = true
  | [], _ => by simp [litProgram]
  | st :: rest, h => by
    simp only [litL, Bool.and_eq_true] at h
    have hr := litProgram_of_litL rest h.2
    simp only [litProgram, List.all_cons, Bool.and_eq_true] at hr ⊢
    refine ⟨?_, hr⟩
    have h1 := h.1
    cases st <;> first | exact h1 | (simp only [litS] at h1; exact h1)

/-! ## whole programs and whole texts, for any choice of the hazards that count -/

variable {bad : Hazard → Bool}

/-- `runProgram`: `Parser::parse`'s function table and symbol slots, then `Executable::run` -/
theorem run_nb (hb : bad .signedOverflow = false ∨ sub = false) (fuel : Nat) (prog : List Stmt) (init : St)
    (hl : lockProgram prog = true) (hv : litProgram sub prog = true) (hs : WfSt init) (hi : init.iters = []) :
    (∀ h, (runProgram fuel prog init).outcome = .haz h → bad h = false) ∧ WfSt (runProgram fuel prog init).st := by
  have key : ∀ s0 : St, Inv [] s0 →
      (∀ h, (match execList (collectFuncs prog) 0 fuel prog s0 with
          | (.ok _, s) => ({ outcome := .ok s.returned, st := s } : RunResult)
          | (.err c a, s) => { outcome := .err c a, st := s }
          | (.haz h, s) => { outcome := .haz h, st := s }
          | (.unmodelled, s) => { outcome := .unmodelled, st := s }).outcome = .haz h → bad h = false) ∧
      WfSt (match execList (collectFuncs prog) 0 fuel prog s0 with
          | (.ok _, s) => ({ outcome := .ok s.returned, st := s } : RunResult)
          | (.err c a, s) => { outcome := .err c a, st := s }
          | (.haz h, s) => { outcome := .haz h, st := s }
          | (.unmodelled, s) => { outcome := .unmodelled, st := s }).st := by
    intro s0 hs0
    have h := (nh_all (bad := bad) (sub := sub) hb (collectFuncs prog) (funcsOk_collect prog hl hv) fuel).2.2.2.2.1 [] 0 prog
      (lockL_of_program prog hl) (litL_of_program prog hv) s0 hs0
    revert h
    generalize execList (collectFuncs prog) 0 fuel prog s0 = r
    intro h
    obtain ⟨r1, s'⟩ := r
    cases r1 with
    | haz x =>
      refine ⟨fun y e => ?_, h.2.1.1⟩
      simp only [Res.haz.injEq] at e
      subst e
      exact h.1 x rfl
    | ok _ => exact ⟨fun y e => (by cases e), h.2.1.1⟩
    | err _ _ => exact ⟨fun y e => (by cases e), h.2.1.1⟩
    | unmodelled => exact ⟨fun y e => (by cases e), h.2.1.1⟩
  unfold runProgram
  dsimp only
  refine key _ ⟨⟨?_, hs.ret, hs.priv, ?_, hs.nodup⟩, ?_⟩
  · exact okVal_declVars _ _ hs.vars
  · intro b hb; rw [hi] at hb; cases hb
  · intro b hb; rw [hi] at hb; cases hb

/-- `Stepwise.runBatch` from the initial state: a hazard can only come out of `runProgram`, which is reached only by a program the
lock test accepted -/
theorem runBatch_nb (hb : bad .signedOverflow = false ∨ sub = false) (fuel : Nat) (prog : List Stmt) (hv : litProgram sub prog = true)
    (h : Hazard) (hh : (Stepwise.runBatch fuel prog).outcome = .ran (.haz h)) : bad h = false := by
  unfold Stepwise.runBatch at hh
  dsimp only at hh
  split at hh
  · cases hh
  · split at hh
    · cases hh
    · split at hh
      · cases hh
      · rename_i hlock
        have hl : lockProgram prog = true := by simpa using hlock
        simp only [Stepwise.Outcome.ran.injEq] at hh
        exact (run_nb hb fuel prog {} hl hv wfSt_init rfl).1 h hh

/-- `Stepwise.runText`: the whole pipeline on the bytes of a source text -/
theorem runText_nb (hb : bad .signedOverflow = false ∨ sub = false) (fuel : Nat) (src : Bytes)
    (hv : ∀ prog, frontEnd src = .ok (.ok prog) → litProgram sub prog = true)
    (r : Stepwise.Result) (hr : Stepwise.runText fuel src = .ran r) (h : Hazard) (hh : r.outcome = .ran (.haz h)) : bad h = false := by
  unfold Stepwise.runText at hr
  split at hr
  · cases hr
  · cases hr
  · rename_i prog hfe
    simp only [Stepwise.TextResult.ran.injEq] at hr
    subst hr
    exact runBatch_nb hb fuel prog (hv prog hfe) h hh

/-- what the front end hands to the compile pass has well-formed literals, whatever the text -/
theorem frontEnd_lit (src : Bytes) (prog : List Stmt) (h : frontEnd src = .ok (.ok prog)) : litProgram true prog = true := by
  unfold frontEnd at h
  split at h
  · cases h
  · rename_i p _
    simp only [Except.ok.injEq] at h
    exact litProgram_of_litL prog (elabBlock_lit p prog h)
end BlocV.NHI
