/-
  Helper lemmas for C05 (`eval_refines`, `assign_copies`): the temporary-pool discipline of
  Model/Store.lean. A result location is *good* (`LocOK w σ`) when it is an existing variable slot, an
  existing constant cell, or a live temporary: a pool slot `j` with `w ≤ j < σ.wm` that exists and does
  not carry the LVALUE flag. A store `σ'` *extends* `σ` above `w` (`Ext w σ σ'`) when variables and
  constants are identical, the watermark and the pool only grew, and every pool slot below `w` is
  untouched. Allocation, LVAL1, LVAL2 and `place` extend the store above any `w ≤ σ.wm` and return a good
  location holding the written value.
  (Helper lemmas only — the property theorems are in BlocV/Proofs/C05.lean.)
-/
import BlocV.Model.Store

namespace BlocV.Lemmas
open BlocV

theorem ok_pair {α β : Type} {p : α × β} {a : α} {b : β} (h : Res.ok p = Res.ok (a, b)) : a = p.1 ∧ b = p.2 := by
  have := Res.ok.inj h; rw [this]; exact ⟨rfl, rfl⟩

theorem default_cell_val : (default : Cell).val = .null Ty.none := rfl
theorem default_cell_lv : (default : Cell).lv = false := rfl

/-- A good result location relative to the base watermark `w`. -/
def LocOK (w : Nat) (σ : Store) : Loc → Prop
  | .var i => i < σ.vars.length
  | .cst i => i < σ.csts.length
  | .tmp j => w ≤ j ∧ j < σ.wm ∧ j < σ.pool.length ∧ (σ.pool.getD j default).lv = false

/-- `σ'` differs from `σ` only in temporaries at or above `w`. -/
structure Ext (w : Nat) (σ σ' : Store) : Prop where
  vars : σ'.vars = σ.vars
  csts : σ'.csts = σ.csts
  wm : σ.wm ≤ σ'.wm
  len : σ.pool.length ≤ σ'.pool.length
  low : ∀ j, j < w → σ'.pool.getD j default = σ.pool.getD j default

theorem Ext.refl (w : Nat) (σ : Store) : Ext w σ σ := ⟨rfl, rfl, Nat.le_refl _, Nat.le_refl _, fun _ _ => rfl⟩

theorem Ext.trans {w : Nat} {a b c : Store} (h1 : Ext w a b) (h2 : Ext w b c) : Ext w a c :=
  ⟨h2.vars.trans h1.vars, h2.csts.trans h1.csts, Nat.le_trans h1.wm h2.wm, Nat.le_trans h1.len h2.len,
   fun j hj => (h2.low j hj).trans (h1.low j hj)⟩

theorem Ext.mono {w w' : Nat} {a b : Store} (h : Ext w a b) (hw : w' ≤ w) : Ext w' a b :=
  ⟨h.vars, h.csts, h.wm, h.len, fun j hj => h.low j (Nat.lt_of_lt_of_le hj hw)⟩

theorem Ext.flagInv {w : Nat} {a b : Store} (h : Ext w a b) (hi : FlagInv a) : FlagInv b := by
  unfold FlagInv at *; rw [h.vars, h.csts]; exact hi

theorem LocOK.mono {w w' : Nat} {σ : Store} {ℓ : Loc} (h : LocOK w σ ℓ) (hw : w' ≤ w) : LocOK w' σ ℓ := by
  cases ℓ with
  | var i => exact h
  | cst i => exact h
  | tmp j => exact ⟨Nat.le_trans hw h.1, h.2⟩

/-- A good location survives, with its content, any extension above the current watermark. -/
theorem LocOK.ext {w : Nat} {σ σ' : Store} {ℓ : Loc} (h : LocOK w σ ℓ) (hx : Ext σ.wm σ σ') :
    LocOK w σ' ℓ ∧ σ'.get ℓ = σ.get ℓ := by
  cases ℓ with
  | var i => exact ⟨by show i < σ'.vars.length; rw [hx.vars]; exact h, by simp [Store.get, hx.vars]⟩
  | cst i => exact ⟨by show i < σ'.csts.length; rw [hx.csts]; exact h, by simp [Store.get, hx.csts]⟩
  | tmp j =>
    obtain ⟨h1, h2, h3, h4⟩ := h
    have hl := hx.low j h2
    refine ⟨⟨h1, Nat.lt_of_lt_of_le h2 hx.wm, Nat.lt_of_lt_of_le h3 hx.len, ?_⟩, ?_⟩
    · rw [hl]; exact h4
    · exact hl

theorem flag_var {σ : Store} (h : FlagInv σ) {i : Nat} (hi : i < σ.vars.length) : (σ.get (.var i)).lv = true := by
  have := h.1 _ (List.getElem_mem hi)
  simpa [Store.get, List.getD, hi] using this

theorem flag_cst {σ : Store} (h : FlagInv σ) {i : Nat} (hi : i < σ.csts.length) : (σ.get (.cst i)).lv = true := by
  have := h.2 _ (List.getElem_mem hi)
  simpa [Store.get, List.getD, hi] using this

/-- Value-level view of a variable slot / constant cell (also out of range: both sides are the untyped null). -/
theorem var_val (σ : Store) (i : Nat) : (σ.vars.map (·.val)).getD i (.null Ty.none) = (σ.get (.var i)).val := by
  simp only [Store.get, List.getD, List.getElem?_map]
  cases σ.vars[i]? <;> rfl

theorem cst_val (σ : Store) (i : Nat) : (σ.csts.map (·.val)).getD i (.null Ty.none) = (σ.get (.cst i)).val := by
  simp only [Store.get, List.getD, List.getElem?_map]
  cases σ.csts[i]? <;> rfl

/-- Overwriting a live temporary. -/
theorem set_tmp_ok (w : Nat) (σ : Store) (j : Nat) (v : Val) (h : LocOK w σ (.tmp j)) :
    Ext w σ (σ.set (.tmp j) { val := v, lv := false }) ∧
    LocOK w (σ.set (.tmp j) { val := v, lv := false }) (.tmp j) ∧
    ((σ.set (.tmp j) { val := v, lv := false }).get (.tmp j)).val = v := by
  obtain ⟨h1, h2, h3, _⟩ := h
  refine ⟨⟨rfl, rfl, Nat.le_refl _, by simp [Store.set], ?_⟩, ⟨h1, h2, by simpa [Store.set] using h3, ?_⟩, ?_⟩
  · intro k hk
    have : j ≠ k := by omega
    simp [Store.set, List.getD, this]
  · simp [Store.set, List.getD, h3]
  · simp [Store.set, Store.get, List.getD, h3]

/-- The pool after `Pool::keep` at watermark `wm`. -/
def allocPool (pool : List Cell) (wm : Nat) (c : Cell) : List Cell :=
  if wm < pool.length then pool.set wm c else pool ++ List.replicate (wm - pool.length) default ++ [c]

theorem allocPool_spec (pool : List Cell) (wm : Nat) (c : Cell) :
    wm < (allocPool pool wm c).length ∧ pool.length ≤ (allocPool pool wm c).length ∧
    (allocPool pool wm c).getD wm default = c ∧
    ∀ k, k < wm → (allocPool pool wm c).getD k default = pool.getD k default := by
  unfold allocPool
  by_cases hlt : wm < pool.length
  · rw [if_pos hlt]
    refine ⟨by simpa using hlt, by simp, by simp [List.getD, hlt], ?_⟩
    intro k hk
    have : wm ≠ k := by omega
    simp [List.getD, this]
  · rw [if_neg hlt]
    have hl2 : (pool ++ List.replicate (wm - pool.length) (default : Cell)).length = wm := by
      rw [List.length_append, List.length_replicate]; omega
    have hlen : (pool ++ List.replicate (wm - pool.length) (default : Cell) ++ [c]).length = wm + 1 := by
      rw [List.length_append, hl2]; rfl
    have hget : (pool ++ List.replicate (wm - pool.length) (default : Cell) ++ [c])[wm]? = some c := by
      rw [List.getElem?_append_right (by rw [hl2]; exact Nat.le_refl _), hl2, Nat.sub_self]; rfl
    refine ⟨by rw [hlen]; omega, by rw [hlen]; omega, by simp only [List.getD, hget]; rfl, ?_⟩
    intro k hk
    simp only [List.getD]
    rw [List.getElem?_append_left (by rw [hl2]; exact hk)]
    by_cases hkl : k < pool.length
    · rw [List.getElem?_append_left hkl]
    · rw [List.getElem?_append_right (by omega), List.getElem?_eq_none (l := pool) (by omega),
        List.getElem?_replicate]
      split <;> rfl

theorem alloc_eq (σ : Store) (v : Val) :
    alloc σ v = (.tmp σ.wm, { σ with pool := allocPool σ.pool σ.wm { val := v, lv := false }, wm := σ.wm + 1 }) := rfl

/-- `Context::allocate`: a fresh live temporary at the watermark. -/
theorem alloc_ok (w : Nat) (σ : Store) (v : Val) (hw : w ≤ σ.wm) :
    Ext w σ (alloc σ v).2 ∧ (alloc σ v).1 = .tmp σ.wm ∧ LocOK w (alloc σ v).2 (.tmp σ.wm) ∧
    ((alloc σ v).2.get (.tmp σ.wm)).val = v := by
  rw [alloc_eq]
  obtain ⟨h1, h2, h3, h4⟩ := allocPool_spec σ.pool σ.wm { val := v, lv := false }
  refine ⟨⟨rfl, rfl, Nat.le_succ _, h2, fun k hk => h4 k (by omega)⟩, rfl, ⟨hw, Nat.lt_succ_self _, h1, ?_⟩, ?_⟩
  · show ((allocPool σ.pool σ.wm { val := v, lv := false }).getD σ.wm default).lv = false
    rw [h3]
  · show ((allocPool σ.pool σ.wm { val := v, lv := false }).getD σ.wm default).val = v
    rw [h3]

/-- `LVAL1`. -/
theorem lval1_ok (w : Nat) (σ : Store) (v : Val) (a : Loc) (hinv : FlagInv σ) (hw : w ≤ σ.wm)
    (ha : LocOK w σ a) :
    Ext w σ (lval1 σ v a).2 ∧ LocOK w (lval1 σ v a).2 (lval1 σ v a).1 ∧
    ((lval1 σ v a).2.get (lval1 σ v a).1).val = v ∧ ∃ j, (lval1 σ v a).1 = .tmp j := by
  unfold lval1
  cases a with
  | var i =>
    have := flag_var hinv ha
    simp only [this, Bool.not_true, Bool.false_eq_true, if_false]
    obtain ⟨h1, h2, h3, h4⟩ := alloc_ok w σ v hw
    rw [h2]; exact ⟨h1, h3, h4, _, rfl⟩
  | cst i =>
    have := flag_cst hinv ha
    simp only [this, Bool.not_true, Bool.false_eq_true, if_false]
    obtain ⟨h1, h2, h3, h4⟩ := alloc_ok w σ v hw
    rw [h2]; exact ⟨h1, h3, h4, _, rfl⟩
  | tmp j =>
    have hl : (σ.get (.tmp j)).lv = false := ha.2.2.2
    simp only [hl, Bool.not_false, if_true]
    obtain ⟨h1, h2, h3⟩ := set_tmp_ok w σ j v ha
    exact ⟨h1, h2, h3, _, rfl⟩

/-- `LVAL2`. -/
theorem lval2_ok (w : Nat) (σ : Store) (v : Val) (a b : Loc) (hinv : FlagInv σ) (hw : w ≤ σ.wm)
    (ha : LocOK w σ a) (hb : LocOK w σ b) :
    Ext w σ (lval2 σ v a b).2 ∧ LocOK w (lval2 σ v a b).2 (lval2 σ v a b).1 ∧
    ((lval2 σ v a b).2.get (lval2 σ v a b).1).val = v ∧ ∃ j, (lval2 σ v a b).1 = .tmp j := by
  cases a with
  | tmp j =>
    have hl : (σ.get (.tmp j)).lv = false := ha.2.2.2
    unfold lval2
    simp only [hl, Bool.not_false, if_true]
    obtain ⟨h1, h2, h3⟩ := set_tmp_ok w σ j v ha
    exact ⟨h1, h2, h3, _, rfl⟩
  | var i =>
    have hl := flag_var hinv ha
    have : lval2 σ v (.var i) b = lval1 σ v b := by
      unfold lval2 lval1; simp only [hl, Bool.not_true, Bool.false_eq_true, if_false]
    rw [this]; exact lval1_ok w σ v b hinv hw hb
  | cst i =>
    have hl := flag_cst hinv ha
    have : lval2 σ v (.cst i) b = lval1 σ v b := by
      unfold lval2 lval1; simp only [hl, Bool.not_true, Bool.false_eq_true, if_false]
    rw [this]; exact lval1_ok w σ v b hinv hw hb

/-- `place`: the returned operand itself (nothing written), or a live temporary holding the value. -/
theorem place_ok (w : Nat) (σ : Store) (p : Place) (v : Val) (a b : Loc) (hinv : FlagInv σ) (hw : w ≤ σ.wm)
    (ha : LocOK w σ a) (hb : LocOK w σ b) :
    Ext w σ (place σ p v a b).2 ∧ LocOK w (place σ p v a b).2 (place σ p v a b).1 ∧
    (match p with
     | .ret1 => place σ p v a b = (a, σ)
     | .ret2 => place σ p v a b = (b, σ)
     | _ => ((place σ p v a b).2.get (place σ p v a b).1).val = v ∧ ∃ j, (place σ p v a b).1 = .tmp j) := by
  cases p with
  | ret1 => exact ⟨Ext.refl _ _, ha, rfl⟩
  | ret2 => exact ⟨Ext.refl _ _, hb, rfl⟩
  | l1 => obtain ⟨h1, h2, h3⟩ := lval1_ok w σ v a hinv hw ha; exact ⟨h1, h2, h3⟩
  | l2 => obtain ⟨h1, h2, h3⟩ := lval2_ok w σ v a b hinv hw ha hb; exact ⟨h1, h2, h3⟩

/-! ### Placement is consistent with the value-level operators: an operator that *returns an operand
reference* (`ret1`/`ret2`) has, at value level, that operand's value as its result. -/

theorem unPlace_ret (op : UnOp) (a1 v : Val) (hp : unPlace op a1 = .ret1 ∨ unPlace op a1 = .ret2)
    (he : evalUn op a1 = .ok v) : v = a1 := by
  unfold evalUn at he
  split at he
  · simp [inv] at he
  · cases op <;> cases a1 <;> simp [unPlace] at hp <;> (split at he <;> simp_all [inv, Val.type])

theorem binPlace_ret1 (op : BinOp) (a1 a2 v : Val) (same : Bool) (hp : binPlace op a1 a2 = .ret1)
    (he : evalBin op a1 a2 same = .ok v) : v = a1 := by
  cases op <;> simp only [binPlace] at hp
  all_goals first | (exact absurd hp (by decide)) | skip
  · -- add
    split at hp
    · rename_i hl
      simp only [Bool.and_eq_true, beq_iff_eq] at hl
      split at hp
      · cases hp
      · rename_i h1 h2
        simp only [evalBin, opAdd, hl.1, hl.2, h1, h2] at he
        simp at he
        exact he.symm
      · split at hp <;> cases hp
      · cases hp
    · cases hp
  · split at hp <;> cases hp
  · split at hp <;> cases hp
  · -- bxor
    split at hp
    · cases hp
    · rename_i hnb
      split at hp
      · rename_i hl
        simp only [Bool.and_eq_true, beq_iff_eq] at hl
        obtain ⟨⟨⟨l1, l2⟩, m1⟩, m2⟩ := hl
        split at hp
        · cases hp
        · rename_i hn2
          simp only [evalBin, opBxor, l1, l2, m1, m2] at he
          simp at he
          split at he
          · exact (hnb _ _ rfl rfl).elim
          · simp [Val.isNull] at hn2
          · exact (Res.ok.inj he).symm
      · cases hp

theorem binPlace_ret2 (op : BinOp) (a1 a2 v : Val) (same : Bool) (hp : binPlace op a1 a2 = .ret2)
    (he : evalBin op a1 a2 same = .ok v) : v = a2 := by
  cases op <;> simp only [binPlace] at hp
  all_goals first | (exact absurd hp (by decide)) | skip
  · -- add
    split at hp
    · rename_i hl
      simp only [Bool.and_eq_true, beq_iff_eq] at hl
      split at hp
      · rename_i h1 h2
        simp only [evalBin, opAdd, hl.1, hl.2, h1, h2] at he
        simp at he
        exact he.symm
      · cases hp
      · rename_i h1 h2
        split at hp
        · rename_i hn
          simp only [evalBin, opAdd, hl.1, hl.2, h1, h2] at he
          simp at he
          split at he
          · simp [Val.isNull] at hn
          · simp [Val.isNull] at hn
          · exact (Res.ok.inj he).symm
        · cases hp
      · cases hp
    · cases hp
  · split at hp <;> cases hp
  · split at hp <;> cases hp
  · -- bxor
    split at hp
    · cases hp
    · rename_i hnb
      split at hp
      · rename_i hl
        simp only [Bool.and_eq_true, beq_iff_eq] at hl
        obtain ⟨⟨⟨l1, l2⟩, m1⟩, m2⟩ := hl
        split at hp
        · rename_i hn2
          simp only [evalBin, opBxor, l1, l2, m1, m2] at he
          simp at he
          split at he
          · exact (hnb _ _ rfl rfl).elim
          · exact (Res.ok.inj he).symm
          · rename_i hx _
            cases a2 <;> simp [Val.isNull] at hn2
            exact (hx _ rfl).elim
        · cases hp
      · cases hp

/-! ### Cell identity of a result -/

/-- Which *named* cell a result location is: a variable slot or a constant cell; `none` for a temporary. -/
def cellId : Loc → Option Loc
  | .var i => some (.var i)
  | .cst i => some (.cst i)
  | .tmp _ => none

/-- Identity of the result of a node from its placement and the identities of its operands. -/
def placeId (p : Place) (i1 i2 : Option Loc) : Option Loc :=
  match p with
  | .ret1 => i1
  | .ret2 => i2
  | _ => none

/-- Do two results denote the same named cell? (Two temporaries never coincide.) -/
def sameCell : Option Loc → Option Loc → Bool
  | some a, some b => a == b
  | _, _ => false

/-- The left operand's location was produced below the watermark at which the right operand was
evaluated: as locations they are equal exactly when they are the same named cell. -/
theorem sameCell_eq {w1 : Nat} {σ1 σ2 : Store} {ℓ1 ℓ2 : Loc} (h1 : LocOK w1 σ1 ℓ1) (h2 : LocOK σ1.wm σ2 ℓ2) :
    sameCell (cellId ℓ1) (cellId ℓ2) = (ℓ1 == ℓ2) := by
  cases ℓ1 <;> cases ℓ2 <;> simp [sameCell, cellId]
  have := h1.2.1; have := h2.1; omega

/-- What `place` leaves observable: the value `v` (given that a returned operand holds `v`) and the identity. -/
theorem place_abs (w : Nat) (σ : Store) (p : Place) (v : Val) (a b : Loc) (hinv : FlagInv σ) (hw : w ≤ σ.wm)
    (ha : LocOK w σ a) (hb : LocOK w σ b)
    (h1 : p = .ret1 → v = (σ.get a).val) (h2 : p = .ret2 → v = (σ.get b).val) :
    (((place σ p v a b).2.get (place σ p v a b).1).val, cellId (place σ p v a b).1)
      = (v, placeId p (cellId a) (cellId b)) := by
  obtain ⟨_, _, pv⟩ := place_ok w σ p v a b hinv hw ha hb
  cases p with
  | ret1 => simp only at pv; rw [pv, h1 rfl]; rfl
  | ret2 => simp only at pv; rw [pv, h2 rfl]; rfl
  | l1 => simp only at pv; obtain ⟨pv1, j, pj⟩ := pv; rw [pv1, pj]; rfl
  | l2 => simp only at pv; obtain ⟨pv1, j, pj⟩ := pv; rw [pv1, pj]; rfl

end BlocV.Lemmas
