/-
  C12 helper: the fuel measures are bounded by the number of tokens (`ssizeB p ≤ 3 * (toksBlock p).length`), so the fuel
  `Parse.parseFuel` that `parseText` hands to the parser covers the bound of `C12.program_roundtrip`.
-/
import BlocV.Proofs.Lemmas.ParseBlock

namespace BlocV.C12L
open BlocV BlocV.Parse BlocV.Unparse BlocV.Roundtrip

theorem tparen_length (b : Bool) (l : List Tok) : (tparen b l).length = l.length + (if b then 2 else 0) := by
  cases b <;> simp [tparen]

mutual
  theorem esize_le : ∀ (e : PExpr), esize e ≤ 2 * (toksExpr e).length ∧ 1 ≤ (toksExpr e).length
    | .int v => by simp only [esize, toksExpr, intTok]; split <;> simp
    | .num _ | .str _ | .var _ | .kw _ => by simp [esize, toksExpr]
    | .call n args => by
      have h := esizeArgs_le args
      simp only [esize, toksExpr, List.length_cons, List.length_append, List.length_nil]; omega
    | .fcall n args => by
      have h := esizeArgs_le args
      simp only [esize, toksExpr, List.length_cons, List.length_append, List.length_nil]; omega
    | .member e n args => by
      have h := esizeArgs_le args
      have he := esize_le e
      simp only [esize, toksExpr, List.length_cons, List.length_append, List.length_nil]; omega
    | .setm e no a => by
      have he := esize_le e
      have ha := esize_le a
      simp only [esize, toksExpr, List.length_cons, List.length_append, List.length_nil]; omega
    | .item e no => by
      have he := esize_le e
      simp only [esize, toksExpr, List.length_cons, List.length_append, List.length_nil]; omega
    | .un op enc x => by
      have hx := esize_le x
      simp only [esize, toksExpr, tparen_length, List.length_cons]
      cases enc <;> cases (!enclosed x) <;> simp <;> omega
    | .bin op enc a b => by
      have ha := esize_le a
      have hb := esize_le b
      simp only [esize, toksExpr, tparen_length, List.length_cons, List.length_append]
      cases enc <;> simp <;> omega
  theorem esizeArgs_le : ∀ (as : List PExpr),
      esizeArgs as ≤ 2 * (joinToks (ch 44) (toksArgs as)).length + 1 ∧ esizeArgs as ≤ 3 * (toksArgs as).flatten.length
    | [] => by simp [esizeArgs, toksArgs, joinToks]
    | [a] => by
      have ha := esize_le a
      simp only [esizeArgs, toksArgs, joinToks, List.flatten_cons, List.flatten_nil, List.append_nil]; omega
    | a :: b :: r => by
      have ha := esize_le a
      have h := esizeArgs_le (b :: r)
      simp only [toksArgs] at h
      simp only [esizeArgs, toksArgs, joinToks, List.flatten_cons, List.length_append, List.length_cons] at h ⊢; omega
end

theorem params_le : ∀ (ps : List (Bytes × Bytes)), ps.length ≤ (joinToks (ch 44) (ps.map paramToks)).length
  | [] => by simp
  | [p] => by simp only [List.map, joinToks, paramToks, List.length_cons, List.length_nil]; split <;> simp
  | p :: q :: r => by
    have h := params_le (q :: r)
    have hp : 1 ≤ (paramToks p).length := by simp only [paramToks]; split <;> simp
    simp only [List.map, joinToks, List.length_cons, List.length_append] at h ⊢
    omega

theorem osize_le (st : Option PExpr) :
    osize st ≤ 3 * (match st with | some s => kw "step" :: toksExpr s | none => ([] : List Tok)).length := by
  cases st with
  | none => simp [osize]
  | some s => have := esize_le s; simp only [osize, List.length_cons]; omega

mutual
  theorem ssize_le : ∀ (s : PStmt), ssize s ≤ 3 * (toksStmt s).length
    | .nop | .brk | .cont | .ret none | .raise _ => by simp [ssize, toksStmt]
    | .trace e | .ret (some e) | .doS e => by
      have := esize_le e; simp only [ssize, toksStmt, List.length_cons]; omega
    | .letS n e none => by
      have := esize_le e; simp only [ssize, ssizeNext, toksStmt, toksNext, List.length_cons, List.length_append, List.length_nil]; omega
    | .letS n e (some s) => by
      have := esize_le e
      have hs := ssize_le s
      simp only [ssize, ssizeNext, toksStmt, toksNext, List.length_cons, List.length_append]; omega
    | .letn n ty none => by simp [ssize, ssizeNext, toksStmt, toksNext]
    | .letn n ty (some s) => by
      have hs := ssize_le s
      simp only [ssize, ssizeNext, toksStmt, toksNext, List.length_cons]; omega
    | .print args | .put args => by
      have := esizeArgs_le args; simp only [ssize, toksStmt, List.length_cons]; omega
    | .ifS rules none => by
      have := ssizeRules_le true rules
      simp only [ssize, ssizeElse, toksStmt, List.length_cons, List.length_append, List.length_nil]; omega
    | .ifS rules (some b) => by
      have := ssizeRules_le true rules
      have hb := ssizeB_le b
      simp only [ssize, ssizeElse, toksStmt, List.length_cons, List.length_append, List.length_nil]; omega
    | .whileS c body => by
      have := esize_le c
      have hb := ssizeB_le body
      simp only [ssize, toksStmt, List.length_cons, List.length_append, List.length_nil]; omega
    | .forS v b e none dir body => by
      have h1 := esize_le b
      have h2 := esize_le e
      have hb := ssizeB_le body
      simp only [ssize, osize, toksStmt, List.length_cons, List.length_append, List.length_nil]; omega
    | .forS v b e (some st) dir body => by
      have h1 := esize_le b
      have h2 := esize_le e
      have h3 := esize_le st
      have hb := ssizeB_le body
      simp only [ssize, osize, toksStmt, List.length_cons, List.length_append, List.length_nil]; omega
    | .forall v e dir body => by
      have h2 := esize_le e
      have hb := ssizeB_le body
      simp only [ssize, toksStmt, List.length_cons, List.length_append, List.length_nil]; omega
    | .begin body catches => by
      have hb := ssizeB_le body
      have hc := ssizeCatches_le catches
      simp only [ssize, toksStmt, List.length_cons, List.length_append, List.length_nil]; omega
    | .func n params rt body catches => by
      have hb := ssizeB_le body
      have hc := ssizeCatches_le catches
      have hp := params_le params
      simp only [ssize, toksStmt, List.length_cons, List.length_append, List.length_nil]
      split
      · rename_i he
        have : params.length = 0 := by cases params <;> simp_all
        simp; omega
      · simp only [List.length_cons, List.length_append, List.length_nil]; omega
  theorem ssizeCatches_le : ∀ (cs : List (Bytes × List PStmt)), ssizeCatches cs ≤ 3 * (toksCatches cs).length
    | [] => by simp [ssizeCatches, toksCatches]
    | (n, b) :: cs => by
      have hb := ssizeB_le b
      have hc := ssizeCatches_le cs
      simp only [ssizeCatches, toksCatches, List.length_cons, List.length_append]; omega
  theorem ssizeRules_le : ∀ (first : Bool) (rs : List (PExpr × List PStmt)), ssizeRules rs ≤ 3 * (toksRules first rs).length
    | _, [] => by simp [ssizeRules, toksRules]
    | first, (c, b) :: rs => by
      have h1 := esize_le c
      have hb := ssizeB_le b
      have hr := ssizeRules_le false rs
      simp only [ssizeRules, toksRules, List.length_cons, List.length_append]; omega
  theorem ssizeB_le : ∀ (ss : List PStmt), ssizeB ss ≤ 3 * (toksBlock ss).length
    | [] => by simp [ssizeB, toksBlock]
    | s :: ss => by
      have h1 := ssize_le s
      have h2 := ssizeB_le ss
      simp only [ssizeB, toksBlock, List.length_cons, List.length_append]; omega
end

/-- the fuel `parseText` gives the parser covers the bound of `program_rt` -/
theorem parseFuel_ok (p : List PStmt) : 16 * ssizeB p + 31 ≤ parseFuel (toksProgram p) := by
  have := ssizeB_le p
  simp only [parseFuel, toksProgram]; omega

end BlocV.C12L
