/-
  Helper lemmas for C10: decimal integer text. `natDigits`/`intToString` (std::to_string) against
  `stoll` (std::stoll) and the hexadecimal-prefix test `looksHex` of builtin_int.cpp.
  (Helper lemmas only — the property theorems are in BlocV/Proofs/C10.lean.)
-/
import BlocV.Model.Builtins
namespace BlocV.Lemmas
open BlocV

theorem digit_toNat (d : Nat) (h : d < 10) : (UInt8.ofNat (48 + d)).toNat = 48 + d := by
  rw [UInt8.toNat_ofNat']; omega

theorem isDigitC_iff (c : UInt8) : isDigitC c = true ↔ 48 ≤ c.toNat ∧ c.toNat ≤ 57 := by
  simp only [isDigitC, Bool.and_eq_true, decide_eq_true_eq, UInt8.le_iff_toNat_le]
  rfl

theorem digit_isDigit (d : Nat) (h : d < 10) : isDigitC (UInt8.ofNat (48 + d)) = true := by
  rw [isDigitC_iff, digit_toNat d h]; omega

def digVal (l : Bytes) : Nat := l.foldl (fun a c => a * 10 + (c.toNat - 48)) 0

theorem digVal_snoc (l : Bytes) (c : UInt8) : digVal (l ++ [c]) = digVal l * 10 + (c.toNat - 48) := by
  simp [digVal, List.foldl_append]

/-- `natDigits` with enough fuel renders `n` as a non-empty list of decimal digit characters whose
value is `n`. -/
theorem natDigits_spec : ∀ (fuel n : Nat), 0 < fuel → n < 10 ^ fuel →
    natDigits fuel n ≠ [] ∧ (∀ c ∈ natDigits fuel n, isDigitC c = true) ∧ digVal (natDigits fuel n) = n := by
  intro fuel
  induction fuel with
  | zero => intro n h0; omega
  | succ f ih =>
    intro n _ h
    unfold natDigits
    split
    · rename_i hn
      refine ⟨by simp, ?_, ?_⟩
      · intro c hc; rw [List.mem_singleton.mp hc]; exact digit_isDigit n hn
      · show (0 * 10 + ((UInt8.ofNat (48 + n)).toNat - 48)) = n
        rw [digit_toNat n hn]; omega
    · rename_i hn
      have hlt : n / 10 < 10 ^ f := by
        rw [Nat.pow_succ] at h; omega
      have hf : 0 < f := by
        rcases Nat.eq_zero_or_pos f with h0 | h0
        · subst h0; simp at hlt; omega
        · exact h0
      obtain ⟨i1, i2, i3⟩ := ih (n / 10) hf hlt
      have hd : n % 10 < 10 := Nat.mod_lt _ (by decide)
      refine ⟨by simp, ?_, ?_⟩
      · intro c hc
        rw [List.mem_append] at hc
        rcases hc with hc | hc
        · exact i2 c hc
        · rw [List.mem_singleton.mp hc]; exact digit_isDigit _ hd
      · rw [digVal_snoc, i3, digit_toNat _ hd]; omega



theorem isDigit_not_space (c : UInt8) (h : isDigitC c = true) : isSpaceC c = false := by
  rw [isDigitC_iff] at h
  simp only [isSpaceC, Bool.or_eq_false_iff, Bool.and_eq_false_iff, beq_eq_false_iff_ne, decide_eq_false_iff_not,
    UInt8.le_iff_toNat_le, ne_eq, ← UInt8.toNat_inj]
  refine ⟨?_, ?_⟩
  · show ¬ c.toNat = 32; omega
  · right; show ¬ c.toNat ≤ 13; omega

theorem takeWhile_all_append (p : UInt8 → Bool) : ∀ (ds rest : Bytes), (∀ c ∈ ds, p c = true) →
    (∀ c, rest.head? = some c → p c = false) → (ds ++ rest).takeWhile p = ds := by
  intro ds
  induction ds with
  | nil =>
    intro rest _ hr
    cases rest with
    | nil => rfl
    | cons c r => simp [hr c rfl]
  | cons d ds ih =>
    intro rest hd hr
    simp only [List.cons_append, List.takeWhile, hd d (List.mem_cons_self ..)]
    rw [ih rest (fun c hc => hd c (List.mem_cons_of_mem _ hc)) hr]

/-- `std::stoll` on an optional '-' followed by a non-empty run of digits and a non-digit rest. -/
theorem stoll_digits (neg : Bool) (ds rest : Bytes) (hne : ds ≠ []) (hd : ∀ c ∈ ds, isDigitC c = true)
    (hr : ∀ c, rest.head? = some c → isDigitC c = false) :
    stoll ((if neg then [45] else []) ++ ds ++ rest) =
      (let z : Int := if neg then -(digVal ds : Int) else digVal ds
       if z < -2 ^ 63 ∨ z ≥ 2 ^ 63 then .range else .val z) := by
  obtain ⟨d, ds', rfl⟩ := List.exists_cons_of_ne_nil hne
  have hdd := hd d (List.mem_cons_self ..)
  have hds := isDigit_not_space d hdd
  have hdr := (isDigitC_iff d).mp hdd
  have h45 : d ≠ 45 := by intro e; subst e; simp at hdr
  have h43 : d ≠ 43 := by intro e; subst e; simp at hdr
  have htw := takeWhile_all_append isDigitC (d :: ds') rest hd hr
  cases neg with
  | true =>
    have e1 : ([45] ++ (d :: ds') ++ rest).dropWhile isSpaceC = 45 :: ((d :: ds') ++ rest) := by
      simp [isSpaceC]
    simp only [stoll, if_true, e1, htw]
    simp [digVal]
  | false =>
    have e1 : ([] ++ (d :: ds') ++ rest).dropWhile isSpaceC = (d :: ds') ++ rest := by
      simp [hds]
    rw [List.nil_append, List.cons_append] at e1
    rw [List.cons_append] at htw
    simp only [stoll, Bool.false_eq_true, if_false, List.nil_append, List.cons_append, e1]
    split
    · rename_i h; simp at h; exact absurd h.1 h45
    · rename_i h; simp at h; exact absurd h.1 h43
    · simp [htw, digVal]


theorem looksHex_digits (neg : Bool) (ds : Bytes) (hne : ds ≠ []) (hd : ∀ c ∈ ds, isDigitC c = true) :
    looksHex ((if neg then [45] else []) ++ ds) = false := by
  obtain ⟨d, ds', rfl⟩ := List.exists_cons_of_ne_nil hne
  have hdd := hd d (List.mem_cons_self ..)
  have hds := isDigit_not_space d hdd
  have hdr := (isDigitC_iff d).mp hdd
  have h45 : (d == 45) = false := by
    apply beq_eq_false_iff_ne.mpr; intro e; subst e; simp at hdr
  have h43 : (d == 43) = false := by
    apply beq_eq_false_iff_ne.mpr; intro e; subst e; simp at hdr
  have e1 : ((if neg then [45] else []) ++ d :: ds').dropWhile (fun c => isSpaceC c || c == 43 || c == 45) = d :: ds' := by
    have s45 : isSpaceC 45 = false := by decide
    cases neg <;> simp [hds, h45, h43, s45]
  unfold looksHex
  rw [e1]
  split
  · rename_i x r h
    simp at h
    have hx := (isDigitC_iff x).mp (hd x (by rw [h.2]; simp))
    have a : (x == 120) = false := by
      apply beq_eq_false_iff_ne.mpr; intro e; subst e; simp at hx
    have b : (x == 88) = false := by
      apply beq_eq_false_iff_ne.mpr; intro e; subst e; simp at hx
    simp [a, b]
  · rfl

theorem natAbs_lt_pow20 (i : Int64) : i.toInt.natAbs < 10 ^ 20 := by
  have := Int64.le_toInt i
  have := Int64.toInt_lt i
  omega

theorem intToString_eq (i : Int64) :
    intToString i = (if decide (i.toInt < 0) then [45] else []) ++ natDigits 20 i.toInt.natAbs := by
  unfold intToString
  by_cases h : i.toInt < 0 <;> simp [h]

/-- **Decimal round trip** at the level of the scanners: `std::stoll(std::to_string(i)) = i`. -/
theorem stoll_intToString (i : Int64) : stoll (intToString i) = .val i.toInt := by
  obtain ⟨h1, h2, h3⟩ := natDigits_spec 20 i.toInt.natAbs (by decide) (natAbs_lt_pow20 i)
  have h := stoll_digits (decide (i.toInt < 0)) _ [] h1 h2 (by simp)
  rw [List.append_nil] at h
  rw [intToString_eq, h, h3]
  have := Int64.le_toInt i
  have := Int64.toInt_lt i
  by_cases hn : i.toInt < 0
  · simp only [hn, decide_true, if_true]
    rw [if_neg (by omega)]
    congr 1; omega
  · simp only [hn, decide_false, Bool.false_eq_true, if_false]
    rw [if_neg (by omega)]
    congr 1; omega

theorem looksHex_intToString (i : Int64) : looksHex (intToString i) = false := by
  obtain ⟨h1, h2, _⟩ := natDigits_spec 20 i.toInt.natAbs (by decide) (natAbs_lt_pow20 i)
  rw [intToString_eq]
  exact looksHex_digits _ _ h1 h2

end BlocV.Lemmas
