/-
  Helper lemmas for C01 / C02: the built-in functions of Model/Builtins.lean run in the `Res` monad
  (arguments = already suspended computations, as the interpreter supplies them).
  (Helper lemmas only — the property theorems are in BlocV/Proofs/C01.lean and C02.lean.)
-/
import BlocV.Proofs.Lemmas.OpsCases
import BlocV.Model.Builtins
import BlocV.Proofs.Lemmas.NoHazard

namespace BlocV
open Num

@[simp] theorem liftR_res {α} (r : Res α) : (liftR r : Res α) = r := rfl
@[simp] theorem liftM_res {α} (r : Res α) : (liftM r : Res α) = r := rfl
@[simp] theorem argTypeErr_res {α} : (argTypeErr : Res α) = .err Gen.EXC_RT_FUNC_ARG_TYPE_S := rfl
@[simp] theorem rerr_res {α} (c : Nat) : (rerr c : Res α) = .err c := rfl

/-- Arguments as the interpreter supplies them: computations that do not themselves reach a hazard and whose values
are well-formed. -/
def ArgOk (t : Res Val) : Prop := t.isHazard = false ∧ ∀ v, t = .ok v → v.tabOk = true
def ArgsOk (args : List (Res Val)) : Prop := ∀ t ∈ args, ArgOk t

theorem ArgsOk.head {t : Res Val} {ts : List (Res Val)} (h : ArgsOk (t :: ts)) : ArgOk t := h t (List.mem_cons_self ..)
theorem ArgsOk.tail {t : Res Val} {ts : List (Res Val)} (h : ArgsOk (t :: ts)) : ArgsOk ts :=
  fun x hx => h x (List.mem_cons_of_mem _ hx)

theorem isHazard_bind_arg {β} (t : Res Val) (f : Val → Res β) (ht : ArgOk t)
    (hf : ∀ v, v.tabOk = true → (f v).isHazard = false) : (t >>= f).isHazard = false :=
  isHazard_bind _ _ ht.1 (fun v hv => hf v (ht.2 v hv))

theorem asInt_nh {a : Val} (hw : a.tabOk = true) (hn : ¬ a.isNull = true) : a.asInt.isHazard = false :=
  asInt_no_hazard hw (by simpa using hn)
theorem asNum_nh {a : Val} (hw : a.tabOk = true) (hn : ¬ a.isNull = true) : a.asNum.isHazard = false :=
  asNum_no_hazard hw (by simpa using hn)
theorem asStr_nh {a : Val} (hw : a.tabOk = true) (hn : ¬ a.isNull = true) : a.asStr.isHazard = false :=
  asStr_no_hazard hw (by simpa using hn)
theorem asRaw_nh {a : Val} (hw : a.tabOk = true) (hn : ¬ a.isNull = true) : a.asRaw.isHazard = false :=
  asRaw_no_hazard hw (by simpa using hn)
theorem asBool_nh {a : Val} (hw : a.tabOk = true) (hn : ¬ a.isNull = true) : a.asBool.isHazard = false :=
  asBool_no_hazard hw (by simpa using hn)

theorem asInt_nh' {a : Val} (hw : a.tabOk = true) (hn : (!a.isNull) = true) : a.asInt.isHazard = false :=
  asInt_no_hazard hw (by simpa using hn)
theorem asNum_nh' {a : Val} (hw : a.tabOk = true) (hn : (!a.isNull) = true) : a.asNum.isHazard = false :=
  asNum_no_hazard hw (by simpa using hn)
theorem asStr_nh' {a : Val} (hw : a.tabOk = true) (hn : (!a.isNull) = true) : a.asStr.isHazard = false :=
  asStr_no_hazard hw (by simpa using hn)
theorem asBool_nh' {a : Val} (hw : a.tabOk = true) (hn : (!a.isNull) = true) : a.asBool.isHazard = false :=
  asBool_no_hazard hw (by simpa using hn)

theorem asStr_nhL {a b : Val} (hw : a.tabOk = true) (hn : ¬(a.isNull || b.isNull) = true) : a.asStr.isHazard = false :=
  asStr_no_hazard hw (by simp only [Bool.or_eq_true, not_or, Bool.not_eq_true] at hn; exact hn.1)
theorem asStr_nhR {a b : Val} (hw : a.tabOk = true) (hn : ¬(b.isNull || a.isNull) = true) : a.asStr.isHazard = false :=
  asStr_no_hazard hw (by simp only [Bool.or_eq_true, not_or, Bool.not_eq_true] at hn; exact hn.2)

theorem castToInt_no_hazard (d : F64) : (castToInt d).isHazard = false := by
  unfold castToInt; repeat' split
  all_goals rfl


theorem truncInt_none {b : F64} (h : truncInt b = none) : expo b = 2047 := by
  unfold truncInt at h
  split at h
  · rename_i he; simpa using he
  · simp at h

/-- `int(decimal)`: the range test lets no infinity or NaN through to the cast. -/
theorem intOfDecimal_no_hazard (b : F64) : (intOfDecimal b).isHazard = false := by
  unfold intOfDecimal
  simp only []
  split
  · rfl
  · rename_i hr
    split
    · rfl
    · rename_i hn
      exfalso
      have he := truncInt_none hn
      have h1086 : expo (0xc3e0000000000000 : UInt64) = 1086 := by decide
      simp only [Bool.not_eq_true, Bool.not_eq_false, Bool.and_eq_true, Bool.or_eq_true, Bool.not_eq_eq_eq_not,
        Bool.not_true, decide_eq_true_eq, beq_iff_eq, he] at hr
      obtain ⟨⟨_, h2⟩, ⟨_, h3⟩⟩ := hr
      rcases h3 with h3 | h3
      · rcases h2 with (h2 | h2) | h2
        · simp [h3] at h2
        · omega
        · rw [h2] at he; rw [h1086] at he; omega
      · omega

@[simp] theorem isHazard_ok {α} (a : α) : (Res.ok a).isHazard = false := rfl
@[simp] theorem isHazard_pure {α} (a : α) : (pure a : Res α).isHazard = false := rfl
@[simp] theorem isHazard_err {α} (c : Nat) (x : Bytes) : (Res.err c x : Res α).isHazard = false := rfl
@[simp] theorem isHazard_unm {α} : (Res.unmodelled : Res α).isHazard = false := rfl
@[simp] theorem isHazard_argTypeErr {α} : (argTypeErr : Res α).isHazard = false := rfl
@[simp] theorem isHazard_rerr {α} (c : Nat) : (rerr c : Res α).isHazard = false := rfl

theorem readPos_no_hazard {a : Val} (hw : a.tabOk = true) : (readPos a).isHazard = false := by
  unfold readPos
  split
  · rfl
  · split
    · rfl
    · rename_i hn; exact isHazard_bind _ _ (asInt_nh hw hn) (fun _ _ => rfl)
  · split
    · rfl
    · rename_i hn
      exact isHazard_bind _ _ (asNum_nh hw hn) (fun _ _ => isHazard_bind _ _ (castToInt_no_hazard _) (fun _ _ => rfl))
  · rfl

/-- one step of the hazard analysis of a built-in body (reducible unification only: the goals are large) -/
macro "haz_step" : tactic => `(tactic| first
  | with_reducible exact isHazard_ok _ | with_reducible exact isHazard_pure _ | with_reducible exact isHazard_err _ _
  | with_reducible exact isHazard_unm | with_reducible exact isHazard_argTypeErr | with_reducible exact isHazard_rerr _
  | with_reducible exact asInt_nh ‹_› ‹_› | with_reducible exact asNum_nh ‹_› ‹_› | with_reducible exact asStr_nh ‹_› ‹_›
  | with_reducible exact asRaw_nh ‹_› ‹_› | with_reducible exact asBool_nh ‹_› ‹_›
  | with_reducible exact asInt_nh' ‹_› ‹_› | with_reducible exact asNum_nh' ‹_› ‹_› | with_reducible exact asStr_nh' ‹_› ‹_›
  | with_reducible exact asBool_nh' ‹_› ‹_› | with_reducible exact asStr_nhL ‹_› ‹_› | with_reducible exact asStr_nhR ‹_› ‹_›
  | with_reducible exact readPos_no_hazard ‹_› | with_reducible exact castToInt_no_hazard _ | with_reducible exact intOfDecimal_no_hazard _
  | with_reducible (refine isHazard_bind_arg _ _ ‹ArgOk _› (fun _ _ => ?_))
  | with_reducible (refine isHazard_bind_arg _ _ (ArgsOk.head ‹_›) (fun _ _ => ?_))
  | split
  | with_reducible (refine isHazard_bind _ _ ?_ (fun _ _ => ?_)))

theorem strMap_no_hazard (f : Bytes → Bytes) (args : List (Res Val)) (h : ArgsOk args) : (strMap (m := Res) f args).isHazard = false := by
  unfold strMap
  split
  · have h0 := h.head
    simp only [liftM_res, liftR_res, argTypeErr_res, rerr_res, Res.bind_err, Res.bind_unm]
    repeat' haz_step
  · rfl

theorem biStrlen_no_hazard (args : List (Res Val)) (h : ArgsOk args) : (biStrlen (m := Res) args).isHazard = false := by
  unfold biStrlen
  split
  · have h0 := h.head
    simp only [liftM_res, liftR_res, argTypeErr_res, rerr_res, Res.bind_err, Res.bind_unm]
    repeat' haz_step
  · rfl

theorem biChr_no_hazard (args : List (Res Val)) (h : ArgsOk args) : (biChr (m := Res) args).isHazard = false := by
  unfold biChr
  split
  · have h0 := h.head
    simp only [liftM_res, liftR_res, argTypeErr_res, rerr_res, Res.bind_err, Res.bind_unm]
    repeat' haz_step
  · rfl

theorem biStr_no_hazard (fmt : F64 → Bytes) (args : List (Res Val)) (h : ArgsOk args) : (biStr (m := Res) fmt args).isHazard = false := by
  unfold biStr
  split
  · rfl
  · have h0 := h.head
    simp only [liftM_res, liftR_res, argTypeErr_res, rerr_res, Res.bind_err, Res.bind_unm]
    repeat' haz_step

theorem biB64_no_hazard (enc : Bool) (args : List (Res Val)) (h : ArgsOk args) : (biB64 (m := Res) enc args).isHazard = false := by
  unfold biB64
  split
  · have h0 := h.head
    simp only [liftM_res, liftR_res, argTypeErr_res, rerr_res, Res.bind_err, Res.bind_unm]
    repeat' haz_step
  · rfl


theorem biInt_no_hazard (args : List (Res Val)) (h : ArgsOk args) : (biInt (m := Res) args).isHazard = false := by
  unfold biInt
  split
  · rfl
  · have h0 := h.head
    simp only [liftM_res, liftR_res, argTypeErr_res, rerr_res, Res.bind_err, Res.bind_unm]
    repeat' haz_step

theorem biHash_no_hazard (args : List (Res Val)) (h : ArgsOk args) : (biHash (m := Res) args).isHazard = false := by
  unfold biHash
  split
  · have h0 := h.head
    have hr := h.tail
    simp only [liftM_res, liftR_res, argTypeErr_res, rerr_res, Res.bind_err, Res.bind_unm]
    repeat' haz_step
  · rfl

theorem biRaw_no_hazard (args : List (Res Val)) (h : ArgsOk args) : (biRaw (m := Res) args).isHazard = false := by
  unfold biRaw
  split
  · rfl
  · have h0 := h.head
    have hr := h.tail
    simp only [liftM_res, liftR_res, argTypeErr_res, rerr_res, Res.bind_err, Res.bind_unm]
    repeat' haz_step

theorem biTokenize_no_hazard (args : List (Res Val)) (h : ArgsOk args) : (biTokenize (m := Res) args).isHazard = false := by
  unfold biTokenize
  split
  · have h0 := h.head
    have h1 := h.tail.head
    have hr := h.tail.tail
    simp only [liftM_res, liftR_res, argTypeErr_res, rerr_res, Res.bind_err, Res.bind_unm]
    repeat' haz_step
  · rfl

theorem biReplace_no_hazard (args : List (Res Val)) (h : ArgsOk args) : (biReplace (m := Res) args).isHazard = false := by
  unfold biReplace
  split
  · have h0 := h.head
    have h1 := h.tail.head
    have h2 := h.tail.tail.head
    simp only [liftM_res, liftR_res, argTypeErr_res, rerr_res, Res.bind_err, Res.bind_unm]
    repeat' haz_step
  · rfl

theorem biStrpos_no_hazard (args : List (Res Val)) (h : ArgsOk args) : (biStrpos (m := Res) args).isHazard = false := by
  unfold biStrpos
  split
  · have h0 := h.head
    have h1 := h.tail.head
    have hr := h.tail.tail
    simp only [liftM_res, liftR_res, argTypeErr_res, rerr_res, Res.bind_err, Res.bind_unm]
    repeat' haz_step
  · rfl

theorem lrSubstr_no_hazard (left : Bool) (args : List (Res Val)) (h : ArgsOk args) : (lrSubstr (m := Res) left args).isHazard = false := by
  unfold lrSubstr
  split
  · have h0 := h.head
    have h1 := h.tail.head
    simp only [liftM_res, liftR_res, argTypeErr_res, rerr_res, Res.bind_err, Res.bind_unm]
    repeat' haz_step
  · rfl

/-! #### substr / subraw / hex / abs / pow (after the repairs e2c4824, cbe22cc, fde74fa, eec6e8e) -/

/-- The length of a string / byte-array value fits `int64_t` — what every `std::string::size()` /
`std::vector::size()` satisfies; `substr`/`subraw` store it into an `int64_t` and do signed arithmetic on it. -/
def Val.lenOk : Val → Bool
  | .str s => decide (s.length < 2 ^ 63)
  | .raw s => decide (s.length < 2 ^ 63)
  | _ => true

def ArgsLen (args : List (Res Val)) : Prop := ∀ t ∈ args, ∀ v, t = .ok v → v.lenOk = true

/-- The signed index arithmetic of `substr`/`subraw` (`a + c`, `c - a`) cannot overflow for a length
`c ≥ 0`, whatever the position and the count — INT64_MIN included (guard `a < 0 ? 0 : …`). -/
theorem substrRange_no_hazard (c a0 b : Int64) (hc : 0 ≤ c.toInt) : (substrRange c a0 b).isHazard = false := by
  obtain ⟨a, b', h, _⟩ := Lemmas.substrRange_spec c a0 b hc
  rw [h]; rfl

theorem substrRange_nh_str {v : Val} {s : Bytes} (hl : v.lenOk = true) (hg : v.asStr = .ok s) (a0 b : Int64) :
    (substrRange (lenI s) a0 b).isHazard = false := by
  have := Lemmas.asStr_ok v s hg
  subst this
  have hlen : s.length < 2 ^ 63 := by simpa [Val.lenOk] using hl
  exact substrRange_no_hazard _ _ _ (by rw [Lemmas.lenI_toInt s hlen]; omega)

theorem substrRange_nh_raw {v : Val} {s : Bytes} (hl : v.lenOk = true) (hg : v.asRaw = .ok s) (a0 b : Int64) :
    (substrRange (lenI s) a0 b).isHazard = false := by
  have := Lemmas.asRaw_ok v s hg
  subst this
  have hlen : s.length < 2 ^ 63 := by simpa [Val.lenOk] using hl
  exact substrRange_no_hazard _ _ _ (by rw [Lemmas.lenI_toInt s hlen]; omega)

theorem biSubstr_no_hazard (args : List (Res Val)) (h : ArgsOk args) (hl : ArgsLen args) :
    (biSubstr (m := Res) args).isHazard = false := by
  unfold biSubstr substrLike
  split
  · rename_i t0 t1 rest
    have h0 := h.head
    have h1 := h.tail.head
    have hr := h.tail.tail
    simp only [liftM_res, liftR_res, argTypeErr_res]
    refine isHazard_bind _ _ h0.1 (fun val hv => ?_)
    have w0 := h0.2 val hv
    have l0 : val.lenOk = true := hl t0 (List.mem_cons_self ..) val hv
    repeat' (first | (with_reducible exact substrRange_nh_str ‹_› ‹_› _ _) | haz_step)
  · rfl

theorem biSubraw_no_hazard (args : List (Res Val)) (h : ArgsOk args) (hl : ArgsLen args) :
    (biSubraw (m := Res) args).isHazard = false := by
  unfold biSubraw substrLike
  split
  · rename_i t0 t1 rest
    have h0 := h.head
    have h1 := h.tail.head
    have hr := h.tail.tail
    simp only [liftM_res, liftR_res, argTypeErr_res]
    refine isHazard_bind _ _ h0.1 (fun val hv => ?_)
    have w0 := h0.2 val hv
    have l0 : val.lenOk = true := hl t0 (List.mem_cons_self ..) val hv
    repeat' (first | (with_reducible exact substrRange_nh_raw ‹_› ‹_› _ _) | haz_step)
  · rfl

/-- `hex`: the pad count is clamped to 16 before the digit loop, so `n += 1` never overflows. -/
theorem biHex_no_hazard (args : List (Res Val)) (h : ArgsOk args) : (biHex (m := Res) args).isHazard = false := by
  unfold biHex
  split
  · have h0 := h.head
    have hr := h.tail
    simp only [liftM_res, liftR_res, argTypeErr_res]
    repeat' (first | (with_reducible exact Lemmas.hexStr_nh _ _) | haz_step)
  · rfl

/-- `abs`: the integer cell is computed in `uint64_t` (wraps at INT64_MIN), no signed negation. -/
theorem biAbs_no_hazard (args : List (Res Val)) (h : ArgsOk args) : (biAbs (m := Res) args).isHazard = false := by
  unfold biAbs
  split
  · have h0 := h.head
    simp only [liftM_res, liftR_res, argTypeErr_res]
    repeat' haz_step
  · rfl

theorem asInt_nhL {a b : Val} (hw : a.tabOk = true) (hn : ¬(a.isNull || b.isNull) = true) : a.asInt.isHazard = false :=
  asInt_no_hazard hw (by simp only [Bool.or_eq_true, not_or, Bool.not_eq_true] at hn; exact hn.1)
theorem asInt_nhR {a b : Val} (hw : a.tabOk = true) (hn : ¬(b.isNull || a.isNull) = true) : a.asInt.isHazard = false :=
  asInt_no_hazard hw (by simp only [Bool.or_eq_true, not_or, Bool.not_eq_true] at hn; exact hn.2)
theorem asNum_nhL {a b : Val} (hw : a.tabOk = true) (hn : ¬(a.isNull || b.isNull) = true) : a.asNum.isHazard = false :=
  asNum_no_hazard hw (by simp only [Bool.or_eq_true, not_or, Bool.not_eq_true] at hn; exact hn.1)
theorem asNum_nhR {a b : Val} (hw : a.tabOk = true) (hn : ¬(b.isNull || a.isNull) = true) : a.asNum.isHazard = false :=
  asNum_no_hazard hw (by simp only [Bool.or_eq_true, not_or, Bool.not_eq_true] at hn; exact hn.2)

/-- `pow`: integer × integer is `Num.ipow` (exact, modulo 2^64), no double → integer conversion. -/
theorem biPow_no_hazard (args : List (Res Val)) (h : ArgsOk args) : (biPow (m := Res) args).isHazard = false := by
  unfold biPow
  split
  · have h0 := h.head
    have h1 := h.tail.head
    simp only [liftM_res, liftR_res, argTypeErr_res]
    repeat' (first
      | (with_reducible exact ipow_no_hazard _ _)
      | (with_reducible exact asInt_nhL ‹_› ‹_›) | (with_reducible exact asInt_nhR ‹_› ‹_›)
      | (with_reducible exact asNum_nhL ‹_› ‹_›) | (with_reducible exact asNum_nhR ‹_› ‹_›)
      | haz_step)
  · rfl

/-! #### second dispatch table (round C10): num, isnum, bool, isnull, typeof, sign, libm functions, round, max/min, mod, atan2, clamp -/

theorem numOfString_no_hazard (s : Bytes) : (numOfString s).isHazard = false := by
  unfold numOfString; split <;> rfl

theorem biNum_no_hazard (args : List (Res Val)) (h : ArgsOk args) : (biNum (m := Res) args).isHazard = false := by
  unfold biNum
  split
  · rfl
  · have h0 := h.head
    try simp only [liftM_res, liftR_res, argTypeErr_res, rerr_res, Res.bind_err, Res.bind_unm]
    repeat' (first | (with_reducible exact numOfString_no_hazard _) | haz_step)

theorem nonnull_of_or {a : Val} {b : Bool} (h : ¬(a.isNull || b) = true) : a.isNull = false := by
  simp only [Bool.or_eq_true, not_or, Bool.not_eq_true] at h
  exact h.1

theorem biIsnum_no_hazard (args : List (Res Val)) (h : ArgsOk args) : (biIsnum (m := Res) args).isHazard = false := by
  unfold biIsnum
  split
  · have h0 := h.head
    try simp only [liftM_res, liftR_res, argTypeErr_res, rerr_res, Res.bind_err, Res.bind_unm]
    repeat' (first
      | (with_reducible exact asStr_no_hazard ‹_› (nonnull_of_or ‹_›))
      | (with_reducible exact asRaw_no_hazard ‹_› (nonnull_of_or ‹_›))
      | haz_step)
  · rfl

theorem biBool_no_hazard (args : List (Res Val)) (h : ArgsOk args) : (biBool (m := Res) args).isHazard = false := by
  unfold biBool
  split
  · rfl
  · have h0 := h.head
    try simp only [liftM_res, liftR_res, argTypeErr_res, rerr_res, Res.bind_err, Res.bind_unm]
    repeat' haz_step

theorem biIsnull_no_hazard (args : List (Res Val)) (h : ArgsOk args) : (biIsnull (m := Res) args).isHazard = false := by
  unfold biIsnull
  split
  · have h0 := h.head
    try simp only [liftM_res, liftR_res, argTypeErr_res, rerr_res, Res.bind_err, Res.bind_unm]
    repeat' haz_step
  · rfl

theorem biTypeof_no_hazard (args : List (Res Val)) (h : ArgsOk args) : (biTypeof (m := Res) args).isHazard = false := by
  unfold biTypeof
  split
  · have h0 := h.head
    try simp only [liftM_res, liftR_res, argTypeErr_res, rerr_res, Res.bind_err, Res.bind_unm]
    repeat' haz_step
  · rfl

theorem biSign_no_hazard (args : List (Res Val)) (h : ArgsOk args) : (biSign (m := Res) args).isHazard = false := by
  unfold biSign
  split
  · have h0 := h.head
    try simp only [liftM_res, liftR_res, argTypeErr_res, rerr_res, Res.bind_err, Res.bind_unm]
    repeat' haz_step
  · rfl

theorem mathMap_no_hazard (fn : Float → Float) (args : List (Res Val)) (h : ArgsOk args) : (mathMap (m := Res) fn args).isHazard = false := by
  unfold mathMap
  split
  · have h0 := h.head
    try simp only [liftM_res, liftR_res, argTypeErr_res, rerr_res, Res.bind_err, Res.bind_unm]
    repeat' haz_step
  · rfl

theorem numPair_nonnull {a0 a1 : Val} (h : ¬(isNumMajor a0 && isNumMajor a1 && (a0.isNull || a1.isNull)) = true)
    (h0 : isNumMajor a0 = true) (h1 : isNumMajor a1 = true) : a0.isNull = false ∧ a1.isNull = false := by
  simp only [h0, h1, Bool.true_and, Bool.or_eq_true, not_or, Bool.not_eq_true] at h
  exact h

/-- The typed accessors of max / min / mod / atan2 are reached only for two non-null numbers: the
combined null test of the prologue covers every cell that dereferences. -/
theorem numPair_no_hazard (ty : Ty) {a0 a1 : Val} (w0 : a0.tabOk = true) (w1 : a1.tabOk = true) :
    (numPair ty a0 a1).isHazard = false := by
  unfold numPair
  split
  · rfl
  · split
    · rfl
    · rename_i hn
      split
      · rfl
      · rename_i hm0
        have i0 : isNumMajor a0 = true := by simp [isNumMajor, hm0]
        split
        · rfl
        · rename_i hm1
          have nn := numPair_nonnull hn i0 (by simp [isNumMajor, hm1])
          exact isHazard_bind _ _ (asInt_no_hazard w0 nn.1) (fun _ _ => isHazard_bind _ _ (asInt_no_hazard w1 nn.2) (fun _ _ => rfl))
        · rename_i hm1
          have nn := numPair_nonnull hn i0 (by simp [isNumMajor, hm1])
          exact isHazard_bind _ _ (asInt_no_hazard w0 nn.1) (fun _ _ => isHazard_bind _ _ (asNum_no_hazard w1 nn.2) (fun _ _ => rfl))
        · rfl
      · rename_i hm0
        have i0 : isNumMajor a0 = true := by simp [isNumMajor, hm0]
        split
        · rfl
        · rename_i hm1
          have nn := numPair_nonnull hn i0 (by simp [isNumMajor, hm1])
          exact isHazard_bind _ _ (asNum_no_hazard w0 nn.1) (fun _ _ => isHazard_bind _ _ (asInt_no_hazard w1 nn.2) (fun _ _ => rfl))
        · rename_i hm1
          have nn := numPair_nonnull hn i0 (by simp [isNumMajor, hm1])
          exact isHazard_bind _ _ (asNum_no_hazard w0 nn.1) (fun _ _ => isHazard_bind _ _ (asNum_no_hazard w1 nn.2) (fun _ _ => rfl))
        · rfl
      · rfl

theorem biMinMax_no_hazard (b : Bool) (args : List (Res Val)) (h : ArgsOk args) : (biMinMax (m := Res) b args).isHazard = false := by
  unfold biMinMax
  split
  · have h0 := h.head
    have h1 := h.tail.head
    try simp only [liftM_res, liftR_res, argTypeErr_res, rerr_res, Res.bind_err, Res.bind_unm]
    refine isHazard_bind_arg _ _ h0 (fun a0 w0 => ?_)
    refine isHazard_bind_arg _ _ h1 (fun a1 w1 => ?_)
    refine isHazard_bind _ _ (numPair_no_hazard _ w0 w1) (fun p _ => ?_)
    cases p <;> repeat' (first | (with_reducible exact imod_no_hazard _ _) | haz_step)
  · rfl

theorem biMod_no_hazard (args : List (Res Val)) (h : ArgsOk args) : (biMod (m := Res) args).isHazard = false := by
  unfold biMod
  split
  · have h0 := h.head
    have h1 := h.tail.head
    try simp only [liftM_res, liftR_res, argTypeErr_res, rerr_res, Res.bind_err, Res.bind_unm]
    refine isHazard_bind_arg _ _ h0 (fun a0 w0 => ?_)
    refine isHazard_bind_arg _ _ h1 (fun a1 w1 => ?_)
    refine isHazard_bind _ _ (numPair_no_hazard _ w0 w1) (fun p _ => ?_)
    cases p <;> repeat' (first | (with_reducible exact imod_no_hazard _ _) | haz_step)
  · rfl

theorem biAtan2_no_hazard (args : List (Res Val)) (h : ArgsOk args) : (biAtan2 (m := Res) args).isHazard = false := by
  unfold biAtan2
  split
  · have h0 := h.head
    have h1 := h.tail.head
    try simp only [liftM_res, liftR_res, argTypeErr_res, rerr_res, Res.bind_err, Res.bind_unm]
    refine isHazard_bind_arg _ _ h0 (fun a0 w0 => ?_)
    refine isHazard_bind_arg _ _ h1 (fun a1 w1 => ?_)
    refine isHazard_bind _ _ (numPair_no_hazard _ w0 w1) (fun p _ => ?_)
    cases p <;> repeat' (first | (with_reducible exact imod_no_hazard _ _) | haz_step)
  · rfl

theorem clamp_nonnull {a0 a1 a2 : Val} (h : ¬(a0.isNull || a1.isNull || a2.isNull) = true) :
    a0.isNull = false ∧ a1.isNull = false ∧ a2.isNull = false := by
  simp only [Bool.or_eq_true, not_or, Bool.not_eq_true] at h
  exact ⟨h.1.1, h.1.2, h.2⟩

theorem biClamp_no_hazard (args : List (Res Val)) (h : ArgsOk args) : (biClamp (m := Res) args).isHazard = false := by
  unfold biClamp
  split
  · have h0 := h.head
    have h1 := h.tail.head
    have h2 := h.tail.tail.head
    try simp only [liftM_res, liftR_res, argTypeErr_res, rerr_res, Res.bind_err, Res.bind_unm]
    refine isHazard_bind_arg _ _ h0 (fun a0 w0 => ?_)
    refine isHazard_bind_arg _ _ h1 (fun a1 w1 => ?_)
    refine isHazard_bind_arg _ _ h2 (fun a2 w2 => ?_)
    split
    · rfl
    · split
      · rfl
      · rename_i hn
        have nn := clamp_nonnull hn
        exact isHazard_bind _ _ (asInt_no_hazard w0 nn.1) (fun _ _ => isHazard_bind _ _ (asInt_no_hazard w1 nn.2.1)
          (fun _ _ => isHazard_bind _ _ (asInt_no_hazard w2 nn.2.2) (fun _ _ => rfl)))
    · split
      · rfl
      · rename_i hn
        have nn := clamp_nonnull hn
        exact isHazard_bind _ _ (asNum_no_hazard w0 nn.1) (fun _ _ => isHazard_bind _ _ (asNum_no_hazard w1 nn.2.1)
          (fun _ _ => isHazard_bind _ _ (asNum_no_hazard w2 nn.2.2) (fun _ _ => rfl)))
    · rfl
  · rfl

theorem biRound_no_hazard (args : List (Res Val)) (h : ArgsOk args) : (biRound (m := Res) args).isHazard = false := by
  unfold biRound
  split
  · have h0 := h.head
    try simp only [liftM_res, liftR_res, argTypeErr_res, rerr_res, Res.bind_err, Res.bind_unm]
    repeat' haz_step
  · have h0 := h.head
    have h1 := h.tail.head
    try simp only [liftM_res, liftR_res, argTypeErr_res, rerr_res, Res.bind_err, Res.bind_unm]
    repeat' haz_step
  · rfl

/-- The second dispatch table: every built-in it models, every argument list. -/
theorem evalBuiltinX_no_hazard_of (name : String) (args : List (Res Val)) (r : Res Val)
    (h : ArgsOk args) (hr : evalBuiltinX (m := Res) name args = some r) : r.isHazard = false := by
  unfold evalBuiltinX at hr
  split at hr
  all_goals first
    | (cases hr; first
        | exact biNum_no_hazard args h | exact biIsnum_no_hazard args h | exact biBool_no_hazard args h
        | exact biIsnull_no_hazard args h | exact biTypeof_no_hazard args h | exact biSign_no_hazard args h
        | exact mathMap_no_hazard _ args h | exact biRound_no_hazard args h | exact biMinMax_no_hazard _ args h
        | exact biMod_no_hazard args h | exact biAtan2_no_hazard args h | exact biClamp_no_hazard args h
        | rfl)
    | cases hr

/-- Dispatch: EVERY modelled built-in. (`substr`, `subraw`, `hex` were excluded here while their signed index
arithmetic was unguarded — former findings C01.bi.substr.overflow / subraw.overflow / hex.overflow; `abs` and `pow`
were not modelled — former findings C01.bi.abs.overflow / C01.bi.pow.floatcast.) The length hypothesis is only
needed by `substr` and `subraw`. -/
theorem evalBuiltin_no_hazard_of (fmt : F64 → Bytes) (name : String) (args : List (Res Val)) (r : Res Val)
    (h : ArgsOk args) (hl : name = "substr" ∨ name = "subraw" → ArgsLen args)
    (hr : evalBuiltin (m := Res) fmt name args = some r) : r.isHazard = false := by
  unfold evalBuiltin at hr
  split at hr
  all_goals first
    | (cases hr; first
        | exact biSubstr_no_hazard args h (hl (.inl rfl)) | exact biSubraw_no_hazard args h (hl (.inr rfl))
        | exact lrSubstr_no_hazard _ args h | exact biStrpos_no_hazard args h | exact biReplace_no_hazard args h
        | exact strMap_no_hazard _ args h | exact biStrlen_no_hazard args h | exact biTokenize_no_hazard args h
        | exact biHex_no_hazard args h | exact biAbs_no_hazard args h | exact biPow_no_hazard args h
        | exact biHash_no_hazard args h | exact biChr_no_hazard args h | exact biRaw_no_hazard args h
        | exact biInt_no_hazard args h | exact biB64_no_hazard _ args h | exact biStr_no_hazard fmt args h)
    | exact evalBuiltinX_no_hazard_of name args r h hr
    | cases hr


/-! ### result types -/

/-- Argument values as a call with level-0 arguments supplies them. -/
def ArgTy (t : Res Val) : Prop := ∀ v, t = .ok v → v.wf = true ∧ v.type.level = 0
def ArgsTy (args : List (Res Val)) : Prop := ∀ t ∈ args, ArgTy t
theorem ArgsTy.head {t : Res Val} {ts : List (Res Val)} (h : ArgsTy (t :: ts)) : ArgTy t := h t (List.mem_cons_self ..)
theorem ArgsTy.tail {t : Res Val} {ts : List (Res Val)} (h : ArgsTy (t :: ts)) : ArgsTy ts :=
  fun x hx => h x (List.mem_cons_of_mem _ hx)

theorem okP_bind_arg {β} {P : β → Prop} (t : Res Val) (f : Val → Res β) (ht : ArgTy t)
    (hf : ∀ v, v.wf = true ∧ v.type.level = 0 → Res.okP P (f v)) : Res.okP P (t >>= f) :=
  okP_bind _ _ (fun v hv => hf v (ht v hv))

theorem ty_of_major {v : Val} {m : Major} (hw : v.wf = true ∧ v.type.level = 0) (hm : v.type.major = m)
    (hm' : m ≠ .obj ∧ m ≠ .tup) : v.type = { major := m } := by
  obtain ⟨hw, hl⟩ := hw
  unfold Val.wf Ty.minorOk at hw
  simp only [Bool.and_eq_true, Bool.or_eq_true, beq_iff_eq] at hw
  cases hv : v.type with
  | mk ma mi le =>
    rw [hv] at hw hl hm
    simp only at hw hl hm
    subst hm hl
    rcases hw.2 with (h | h) | h
    · exact absurd h hm'.1
    · exact absurd h hm'.2
    · subst h; rfl

theorem ty_of_major' {v : Val} {m : Major} (hw : v.wf = true ∧ v.type.level = 0) (hm : ¬(v.type.major != m) = true)
    (hm' : m ≠ .obj ∧ m ≠ .tup) : v.type = { major := m } :=
  ty_of_major hw (by simpa using hm) hm'

macro "ty_leaf" : tactic => `(tactic| first
  | rfl
  | exact ty_of_major ‹_› ‹_› ⟨by decide, by decide⟩
  | exact ty_of_major' ‹_› ‹_› ⟨by decide, by decide⟩)

macro "ty_step" : tactic => `(tactic| first
  | with_reducible exact okP_err | with_reducible exact okP_unm
  | (with_reducible refine okP_ok ?_) <;> ty_leaf
  | (with_reducible refine okP_pure ?_) <;> ty_leaf
  | with_reducible (refine okP_bind_arg _ _ ‹ArgTy _› (fun _ _ => ?_))
  | with_reducible (refine okP_bind_arg _ _ (ArgsTy.head ‹_›) (fun _ _ => ?_))
  | split
  | with_reducible (refine okP_bind _ _ (fun _ _ => ?_)))

theorem strMap_type (f : Bytes → Bytes) (args : List (Res Val)) (h : ArgsTy args) :
    Res.okP (fun v => v.type = Ty.str) (strMap (m := Res) f args) := by
  unfold strMap
  split
  · have h0 := h.head
    simp only [liftM_res, liftR_res, argTypeErr_res, rerr_res, Res.bind_err, Res.bind_unm]
    repeat' ty_step
  · exact okP_err

theorem biStrlen_type (args : List (Res Val)) (h : ArgsTy args) :
    Res.okP (fun v => v.type = Ty.int) (biStrlen (m := Res) args) := by
  unfold biStrlen
  split
  · have h0 := h.head
    simp only [liftM_res, liftR_res, argTypeErr_res, rerr_res, Res.bind_err, Res.bind_unm]
    repeat' ty_step
  · exact okP_err

theorem biChr_type (args : List (Res Val)) (h : ArgsTy args) :
    Res.okP (fun v => v.type = Ty.str) (biChr (m := Res) args) := by
  unfold biChr
  split
  · have h0 := h.head
    simp only [liftM_res, liftR_res, argTypeErr_res, rerr_res, Res.bind_err, Res.bind_unm]
    repeat' ty_step
  · exact okP_err

theorem biStr_type (fmt : F64 → Bytes) (args : List (Res Val)) (h : ArgsTy args) :
    Res.okP (fun v => v.type = Ty.str) (biStr (m := Res) fmt args) := by
  unfold biStr
  split
  · exact okP_ok rfl
  · have h0 := h.head
    simp only [liftM_res, liftR_res, argTypeErr_res, rerr_res, Res.bind_err, Res.bind_unm]
    repeat' ty_step

theorem biInt_type (args : List (Res Val)) (h : ArgsTy args) :
    Res.okP (fun v => v.type = Ty.int) (biInt (m := Res) args) := by
  unfold biInt
  split
  · exact okP_ok rfl
  · have h0 := h.head
    simp only [liftM_res, liftR_res, argTypeErr_res, rerr_res, Res.bind_err, Res.bind_unm]
    repeat' ty_step

theorem biHash_type (args : List (Res Val)) (h : ArgsTy args) :
    Res.okP (fun v => v.type = Ty.int) (biHash (m := Res) args) := by
  unfold biHash
  split
  · have h0 := h.head
    have hr := h.tail
    simp only [liftM_res, liftR_res, argTypeErr_res, rerr_res, Res.bind_err, Res.bind_unm]
    repeat' ty_step
  · exact okP_err

theorem biStrpos_type (args : List (Res Val)) (h : ArgsTy args) :
    Res.okP (fun v => v.type = Ty.int) (biStrpos (m := Res) args) := by
  unfold biStrpos
  split
  · have h0 := h.head
    have h1 := h.tail.head
    have hr := h.tail.tail
    simp only [liftM_res, liftR_res, argTypeErr_res, rerr_res, Res.bind_err, Res.bind_unm]
    repeat' ty_step
  · exact okP_err

theorem biReplace_type (args : List (Res Val)) (h : ArgsTy args) :
    Res.okP (fun v => v.type = Ty.str) (biReplace (m := Res) args) := by
  unfold biReplace
  split
  · have h0 := h.head
    have h1 := h.tail.head
    have h2 := h.tail.tail.head
    simp only [liftM_res, liftR_res, argTypeErr_res, rerr_res, Res.bind_err, Res.bind_unm]
    repeat' ty_step
  · exact okP_err

theorem biRaw_type (args : List (Res Val)) (h : ArgsTy args) :
    Res.okP (fun v => v.type = Ty.raw) (biRaw (m := Res) args) := by
  unfold biRaw
  split
  · exact okP_ok rfl
  · have h0 := h.head
    have hr := h.tail
    simp only [liftM_res, liftR_res, argTypeErr_res, rerr_res, Res.bind_err, Res.bind_unm]
    repeat' ty_step

theorem lrSubstr_type (left : Bool) (args : List (Res Val)) (h : ArgsTy args) :
    Res.okP (fun v => v.type = Ty.str) (lrSubstr (m := Res) left args) := by
  unfold lrSubstr
  split
  · have h0 := h.head
    have h1 := h.tail.head
    simp only [liftM_res, liftR_res, argTypeErr_res, rerr_res, Res.bind_err, Res.bind_unm]
    repeat' ty_step
  · exact okP_err

theorem b64enc_type (args : List (Res Val)) (h : ArgsTy args) :
    Res.okP (fun v => v.type = Ty.str) (biB64 (m := Res) true args) := by
  unfold biB64
  split
  · have h0 := h.head
    simp only [liftM_res, liftR_res, argTypeErr_res, rerr_res, Res.bind_err, Res.bind_unm, ↓reduceIte]
    repeat' ty_step
  · exact okP_err

/-- Static result type of a built-in whose header gives a constant type (generated table `Gen.builtinTypes`,
extracted from the `type()` method of blocc/builtin/builtin_*.h). -/
def builtinStaticTy (name : String) : Option Ty :=
  match Gen.builtinTypes.find? (·.1 == name) with
  | some (_, .const m) => some { major := m }
  | _ => none

end BlocV
