/-
  Helper lemmas for Proofs/C17.lean: the program level (Model/ObjProg.lean) refines the store level (Model/Plugin.lean,
  part S) — whatever an instruction, a block, a loop or a call does to the store is a sequence of store-level operations.
-/
import BlocV.Model.Plugin
import BlocV.Model.ObjProg
import BlocV.Proofs.Lemmas.Method

set_option linter.unusedSimpArgs false
set_option linter.unusedVariables false

namespace BlocV.Proofs.Refine
open BlocV.Plugin BlocV.Plugin.H BlocV.Plugin.S BlocV.ObjProg BlocV.Proofs.Method

/-- `b` is what some sequence of store-level operations makes of `a` -/
def Reach (a b : SState) : Prop := ∃ ops, srun a ops = .ok b

theorem Reach.refl (a : SState) : Reach a a := ⟨[], rfl⟩

theorem Reach.trans {a b c : SState} (h1 : Reach a b) (h2 : Reach b c) : Reach a c := by
  obtain ⟨o1, e1⟩ := h1
  obtain ⟨o2, e2⟩ := h2
  exact ⟨o1 ++ o2, srun_append e1 e2⟩

theorem sop_reach {st st' : St} {op : SOp} (h : sop st op = .ok st') : Reach st.s st'.s := by
  unfold sop at h
  split at h
  · cases h
  · rename_i s' hs
    injection h with h; subst h
    exact ⟨[op], by simp [srun, hs]⟩

theorem foldlM_reach {α β : Type} (g : α → SState) (f : α → β → Except HErr α)
    (hf : ∀ a x a', f a x = .ok a' → Reach (g a) (g a')) :
    ∀ (l : List β) (a a' : α), l.foldlM f a = .ok a' → Reach (g a) (g a') := by
  intro l
  induction l with
  | nil => intro a a' h; simp only [List.foldlM_nil, pure, Except.pure] at h; injection h with h; subst h; exact Reach.refl _
  | cons x rest ih =>
    intro a a' h
    simp only [List.foldlM_cons, bind, Except.bind] at h
    split at h
    · cases h
    · rename_i a1 h1
      exact (hf a x a1 h1).trans (ih a1 a' h)

theorem foldlM_reach' {α β : Type} (g : α → SState) {f : α → β → Except HErr α} {l : List β} {a a' : α}
    (h : l.foldlM f a = .ok a') (hf : ∀ a x a', f a x = .ok a' → Reach (g a) (g a')) : Reach (g a) (g a') :=
  foldlM_reach g f hf l a a' h

theorem clearV_reach {st st' : St} {v : V} (h : clearV st v = .ok st') : Reach st.s st'.s := by
  unfold clearV at h
  exact foldlM_reach (·.s) _ (fun a x a' h => sop_reach h) _ _ _ h

theorem cloneV_reach {st st' : St} {v v' : V} {k : Nat} (h : cloneV st v k = .ok (st', v')) : Reach st.s st'.s := by
  unfold cloneV at h
  split at h
  · injection h with h; injection h with h1 h2; subst h1; exact Reach.refl _
  · split at h
    · rename_i st1 h1; injection h with h; injection h with h2 h3; subst h2; exact sop_reach h1
    · cases h
  · split at h
    · rename_i st1 hs1 hf
      injection h with h; injection h with h2 h3; subst h2
      refine foldlM_reach (fun (a : St × List (Option Nat)) => a.1.s) _ ?_ _ _ _ hf
      intro a x a' hx
      split at hx
      · injection hx with hx; subst hx; exact Reach.refl _
      · split at hx
        · rename_i st2 h2; injection hx with hx; subst hx; exact sop_reach h2
        · cases hx
    · cases h

theorem storeVar_reach {st st' : St} {fr fr' : Frame} {x : String} {v : V} (h : storeVar st fr x v = .ok (st', fr')) :
    Reach st.s st'.s := by
  unfold storeVar at h
  split at h
  · rename_i st1 h1; injection h with h; injection h with h2 h3; subst h2; exact clearV_reach h1
  · cases h

theorem resetSlots_reach {st st' : St} {c : Nat} (h : resetSlots st c = .ok st') : Reach st.s st'.s := by
  unfold resetSlots at h
  split at h
  · rename_i st1 h1
    injection h with h; subst h
    exact foldlM_reach (·.s) _ (fun a x a' h => clearV_reach h) _ _ _ h1
  · cases h

theorem clearFrame_reach {st st' : St} {fr : Frame} (h : clearFrame st fr = .ok st') : Reach st.s st'.s := by
  unfold clearFrame at h
  exact foldlM_reach (·.s) _ (fun a x a' h => clearV_reach h) _ _ _ h

theorem saveReturned_reach {st st' : St} {old r : Option V} {v : V} (h : saveReturned st old v = .ok (st', r)) :
    Reach st.s st'.s := by
  unfold saveReturned at h
  split at h
  · split at h
    · rename_i st1 h1; injection h with h; injection h with h2 h3; subst h2; exact clearV_reach h1
    · cases h
  · injection h with h; injection h with h2 h3; subst h2; exact Reach.refl _

theorem dropReturned_reach {st st' : St} {old r : Option V} (h : dropReturned st old = .ok (st', r)) :
    Reach st.s st'.s := by
  unfold dropReturned at h
  split at h
  · split at h
    · rename_i st1 h1; injection h with h; injection h with h2 h3; subst h2; exact clearV_reach h1
    · cases h
  · injection h with h; injection h with h2 h3; subst h2; exact Reach.refl _

@[simp] theorem setCache_s (st : St) (r : Nat) (f : String) (l : List Nat) : (setCache st r f l).s = st.s := by
  unfold setCache; split <;> rfl

theorem of_exec {funcs : List Func} {root fuel : Nat}
    (ih : ∀ ins st fr, Reach st.s (exec funcs root fuel ins st fr).1.s) {ins : Instr} {st : St} {fr : Frame} {r : Step}
    (h : exec funcs root fuel ins st fr = r) : Reach st.s r.1.s := h ▸ ih ins st fr

theorem of_execList {funcs : List Func} {root fuel : Nat}
    (ih : ∀ is st fr, Reach st.s (execList funcs root fuel is st fr).1.s) {is : List Instr} {st : St} {fr : Frame} {r : Step}
    (h : execList funcs root fuel is st fr = r) : Reach st.s r.1.s := h ▸ ih is st fr

theorem of_execLoop {funcs : List Func} {root fuel : Nat}
    (ih : ∀ n body st fr, Reach st.s (execLoop funcs root fuel n body st fr).1.s) {n : Nat} {body : List Instr} {st : St}
    {fr : Frame} {r : Step} (h : execLoop funcs root fuel n body st fr = r) : Reach st.s r.1.s := h ▸ ih n body st fr

theorem of_doCall {funcs : List Func} {root fuel : Nat}
    (ih : ∀ x f args thr st fr, Reach st.s (doCall funcs root fuel x f args thr st fr).1.s) {x f : String}
    {args : List String} {thr : Option String} {st : St} {fr : Frame} {r : Step}
    (h : doCall funcs root fuel x f args thr st fr = r) : Reach st.s r.1.s := h ▸ ih x f args thr st fr

/-- from every hypothesis that says "this helper succeeded" derive the corresponding `Reach` fact -/
macro "reach_facts" : tactic => `(tactic| (
  repeat (first
    | (have := sop_reach ‹sop _ _ = .ok _›; clear ‹sop _ _ = .ok _›)
    | (have := storeVar_reach ‹storeVar _ _ _ _ = .ok _›; clear ‹storeVar _ _ _ _ = .ok _›)
    | (have := cloneV_reach ‹cloneV _ _ _ = .ok _›; clear ‹cloneV _ _ _ = .ok _›)
    | (have := clearV_reach ‹clearV _ _ = .ok _›; clear ‹clearV _ _ = .ok _›)
    | (have := resetSlots_reach ‹resetSlots _ _ = .ok _›; clear ‹resetSlots _ _ = .ok _›)
    | (have := clearFrame_reach ‹clearFrame _ _ = .ok _›; clear ‹clearFrame _ _ = .ok _›)
    | (have := of_exec ‹∀ ins st fr, Reach st.s (exec _ _ _ ins st fr).1.s› ‹exec _ _ _ _ _ _ = _›; clear ‹exec _ _ _ _ _ _ = _›)
    | (have := of_execList ‹∀ is st fr, Reach st.s (execList _ _ _ is st fr).1.s› ‹execList _ _ _ _ _ _ = _›; clear ‹execList _ _ _ _ _ _ = _›)
    | (have := of_execLoop ‹∀ n body st fr, Reach st.s (execLoop _ _ _ n body st fr).1.s› ‹execLoop _ _ _ _ _ _ _ = _›; clear ‹execLoop _ _ _ _ _ _ _ = _›)
    | (have := of_doCall ‹∀ x f args thr st fr, Reach st.s (doCall _ _ _ x f args thr st fr).1.s› ‹doCall _ _ _ _ _ _ _ _ _ = _›; clear ‹doCall _ _ _ _ _ _ _ _ _ = _›))))

macro "reach_chain0" : tactic => `(tactic| (first
    | exact Reach.refl _
    | assumption
    | exact (‹∀ ins st fr, Reach st.s (exec _ _ _ ins st fr).1.s›) _ _ _
    | exact (‹∀ is st fr, Reach st.s (execList _ _ _ is st fr).1.s›) _ _ _
    | exact (‹∀ n body st fr, Reach st.s (execLoop _ _ _ n body st fr).1.s›) _ _ _ _
    | exact (‹∀ x f args thr st fr, Reach st.s (doCall _ _ _ x f args thr st fr).1.s›) _ _ _ _ _ _))

macro "reach_chain1" : tactic => `(tactic| (first
    | exact Reach.refl _
    | assumption
    | exact (‹∀ ins st fr, Reach st.s (exec _ _ _ ins st fr).1.s›) _ _ _
    | exact (‹∀ is st fr, Reach st.s (execList _ _ _ is st fr).1.s›) _ _ _
    | exact (‹∀ n body st fr, Reach st.s (execLoop _ _ _ n body st fr).1.s›) _ _ _ _
    | exact (‹∀ x f args thr st fr, Reach st.s (doCall _ _ _ x f args thr st fr).1.s›) _ _ _ _ _ _
    | (apply Reach.trans; assumption; reach_chain0)))

macro "reach_chain2" : tactic => `(tactic| (first
    | exact Reach.refl _
    | assumption
    | exact (‹∀ ins st fr, Reach st.s (exec _ _ _ ins st fr).1.s›) _ _ _
    | exact (‹∀ is st fr, Reach st.s (execList _ _ _ is st fr).1.s›) _ _ _
    | exact (‹∀ n body st fr, Reach st.s (execLoop _ _ _ n body st fr).1.s›) _ _ _ _
    | exact (‹∀ x f args thr st fr, Reach st.s (doCall _ _ _ x f args thr st fr).1.s›) _ _ _ _ _ _
    | (apply Reach.trans; assumption; reach_chain1)))

macro "reach_chain3" : tactic => `(tactic| (first
    | exact Reach.refl _
    | assumption
    | exact (‹∀ ins st fr, Reach st.s (exec _ _ _ ins st fr).1.s›) _ _ _
    | exact (‹∀ is st fr, Reach st.s (execList _ _ _ is st fr).1.s›) _ _ _
    | exact (‹∀ n body st fr, Reach st.s (execLoop _ _ _ n body st fr).1.s›) _ _ _ _
    | exact (‹∀ x f args thr st fr, Reach st.s (doCall _ _ _ x f args thr st fr).1.s›) _ _ _ _ _ _
    | (apply Reach.trans; assumption; reach_chain2)))

macro "reach_chain4" : tactic => `(tactic| (first
    | exact Reach.refl _
    | assumption
    | exact (‹∀ ins st fr, Reach st.s (exec _ _ _ ins st fr).1.s›) _ _ _
    | exact (‹∀ is st fr, Reach st.s (execList _ _ _ is st fr).1.s›) _ _ _
    | exact (‹∀ n body st fr, Reach st.s (execLoop _ _ _ n body st fr).1.s›) _ _ _ _
    | exact (‹∀ x f args thr st fr, Reach st.s (doCall _ _ _ x f args thr st fr).1.s›) _ _ _ _ _ _
    | (apply Reach.trans; assumption; reach_chain3)))

macro "reach_chain5" : tactic => `(tactic| (first
    | exact Reach.refl _
    | assumption
    | exact (‹∀ ins st fr, Reach st.s (exec _ _ _ ins st fr).1.s›) _ _ _
    | exact (‹∀ is st fr, Reach st.s (execList _ _ _ is st fr).1.s›) _ _ _
    | exact (‹∀ n body st fr, Reach st.s (execLoop _ _ _ n body st fr).1.s›) _ _ _ _
    | exact (‹∀ x f args thr st fr, Reach st.s (doCall _ _ _ x f args thr st fr).1.s›) _ _ _ _ _ _
    | (apply Reach.trans; assumption; reach_chain4)))

macro "reach_chain6" : tactic => `(tactic| (first
    | exact Reach.refl _
    | assumption
    | exact (‹∀ ins st fr, Reach st.s (exec _ _ _ ins st fr).1.s›) _ _ _
    | exact (‹∀ is st fr, Reach st.s (execList _ _ _ is st fr).1.s›) _ _ _
    | exact (‹∀ n body st fr, Reach st.s (execLoop _ _ _ n body st fr).1.s›) _ _ _ _
    | exact (‹∀ x f args thr st fr, Reach st.s (doCall _ _ _ x f args thr st fr).1.s›) _ _ _ _ _ _
    | (apply Reach.trans; assumption; reach_chain5)))

macro "reach_chain7" : tactic => `(tactic| (first
    | exact Reach.refl _
    | assumption
    | exact (‹∀ ins st fr, Reach st.s (exec _ _ _ ins st fr).1.s›) _ _ _
    | exact (‹∀ is st fr, Reach st.s (execList _ _ _ is st fr).1.s›) _ _ _
    | exact (‹∀ n body st fr, Reach st.s (execLoop _ _ _ n body st fr).1.s›) _ _ _ _
    | exact (‹∀ x f args thr st fr, Reach st.s (doCall _ _ _ x f args thr st fr).1.s›) _ _ _ _ _ _
    | (apply Reach.trans; assumption; reach_chain6)))

macro "reach_chain8" : tactic => `(tactic| (first
    | exact Reach.refl _
    | assumption
    | exact (‹∀ ins st fr, Reach st.s (exec _ _ _ ins st fr).1.s›) _ _ _
    | exact (‹∀ is st fr, Reach st.s (execList _ _ _ is st fr).1.s›) _ _ _
    | exact (‹∀ n body st fr, Reach st.s (execLoop _ _ _ n body st fr).1.s›) _ _ _ _
    | exact (‹∀ x f args thr st fr, Reach st.s (doCall _ _ _ x f args thr st fr).1.s›) _ _ _ _ _ _
    | (apply Reach.trans; assumption; reach_chain7)))

macro "reach_close" : tactic => `(tactic| (
  reach_facts
  try simp only [failHaz, setCache_s] at *
  reach_chain8))

/-- one round of an inline fold of `exec` / `doCall` -/
macro "fold_step" : tactic => `(tactic| (
  intro a x a' hx
  repeat' split at hx
  all_goals (first | reach_close | (injection hx with hx; subst hx; reach_close) | (injection hx))))

macro "fold_facts" : tactic => `(tactic| (
  repeat (first
    | (have := foldlM_reach' (fun (a : St × _) => a.1.s) ‹List.foldlM _ _ _ = Except.ok _› (by fold_step); clear ‹List.foldlM _ _ _ = Except.ok _›)
    | (have := foldlM_reach' (fun (a : St) => a.s) ‹List.foldlM _ _ _ = Except.ok _› (by fold_step); clear ‹List.foldlM _ _ _ = Except.ok _›))))

/-- the statement about one fuel level -/
def RefinesAt (funcs : List Func) (root fuel : Nat) : Prop :=
  (∀ ins st fr, Reach st.s (exec funcs root fuel ins st fr).1.s) ∧
  (∀ is st fr, Reach st.s (execList funcs root fuel is st fr).1.s) ∧
  (∀ n body st fr, Reach st.s (execLoop funcs root fuel n body st fr).1.s) ∧
  (∀ x f args thr st fr, Reach st.s (doCall funcs root fuel x f args thr st fr).1.s)

theorem exec_refines_zero (funcs : List Func) (root : Nat) : RefinesAt funcs root 0 := by
  refine ⟨?_, ?_, ?_, ?_⟩
  · intro ins st fr; simp only [exec]; exact Reach.refl _
  · intro is st fr; simp only [execList]; exact Reach.refl _
  · intro n body st fr; simp only [execLoop]; exact Reach.refl _
  · intro x f args thr st fr; simp only [doCall]; exact Reach.refl _

section Succ
variable {funcs : List Func} {root fuel : Nat}
  (ih1 : ∀ ins st fr, Reach st.s (exec funcs root fuel ins st fr).1.s)
  (ih2 : ∀ is st fr, Reach st.s (execList funcs root fuel is st fr).1.s)
  (ih3 : ∀ n body st fr, Reach st.s (execLoop funcs root fuel n body st fr).1.s)
  (ih4 : ∀ x f args thr st fr, Reach st.s (doCall funcs root fuel x f args thr st fr).1.s)
include ih1 ih2 ih3 ih4

set_option linter.unusedSectionVars false

theorem ex_new (x : String) (k : Int) (st : St) (fr : Frame) :
    Reach st.s (exec funcs root (fuel + 1) (.new x k) st fr).1.s := by
  simp only [exec]
  (repeat' split) <;> (try fold_facts) <;> reach_close

theorem ex_cp (x y : String) (st : St) (fr : Frame) :
    Reach st.s (exec funcs root (fuel + 1) (.cp x y) st fr).1.s := by
  simp only [exec]
  (repeat' split) <;> (try fold_facts) <;> reach_close

theorem ex_nul (x : String) (st : St) (fr : Frame) :
    Reach st.s (exec funcs root (fuel + 1) (.nul x) st fr).1.s := by
  simp only [exec]
  (repeat' split) <;> (try fold_facts) <;> reach_close

theorem ex_self (x y : String) (st : St) (fr : Frame) :
    Reach st.s (exec funcs root (fuel + 1) (.self x y) st fr).1.s := by
  simp only [exec]
  (repeat' split) <;> (try fold_facts) <;> reach_close

theorem ex_spawn (x y : String) (k : Int) (st : St) (fr : Frame) :
    Reach st.s (exec funcs root (fuel + 1) (.spawn x y k) st fr).1.s := by
  simp only [exec]
  (repeat' split) <;> (try fold_facts) <;> reach_close

theorem ex_id (y : String) (st : St) (fr : Frame) :
    Reach st.s (exec funcs root (fuel + 1) (.id y) st fr).1.s := by
  simp only [exec]
  (repeat' split) <;> (try fold_facts) <;> reach_close

theorem ex_peer (y z : String) (st : St) (fr : Frame) :
    Reach st.s (exec funcs root (fuel + 1) (.peer y z) st fr).1.s := by
  simp only [exec]
  (repeat' split) <;> (try fold_facts) <;> reach_close

theorem ex_tnew (t : String) (n : Nat) (x : String) (st : St) (fr : Frame) :
    Reach st.s (exec funcs root (fuel + 1) (.tnew t n x) st fr).1.s := by
  simp only [exec]
  (repeat' split) <;> (try fold_facts) <;> reach_close

theorem ex_tput (t : String) (i : Nat) (x : String) (st : St) (fr : Frame) :
    Reach st.s (exec funcs root (fuel + 1) (.tput t i x) st fr).1.s := by
  simp only [exec]
  (repeat' split) <;> (try fold_facts) <;> reach_close

theorem ex_tat (x t : String) (i : Nat) (st : St) (fr : Frame) :
    Reach st.s (exec funcs root (fuel + 1) (.tat x t i) st fr).1.s := by
  simp only [exec]
  (repeat' split) <;> (try fold_facts) <;> reach_close

theorem ex_tmp (k : Int) (st : St) (fr : Frame) :
    Reach st.s (exec funcs root (fuel + 1) (.tmp k) st fr).1.s := by
  simp only [exec]
  (repeat' split) <;> (try fold_facts) <;> reach_close

theorem ex_call (x f : String) (args : List String) (st : St) (fr : Frame) :
    Reach st.s (exec funcs root (fuel + 1) (.call x f args) st fr).1.s := by
  simp only [exec]
  (repeat' split) <;> (try fold_facts) <;> reach_close

theorem ex_callThrow (f : String) (args : List String) (y : String) (st : St) (fr : Frame) :
    Reach st.s (exec funcs root (fuel + 1) (.callThrow f args y) st fr).1.s := by
  simp only [exec]
  (repeat' split) <;> (try fold_facts) <;> reach_close

theorem ex_ret (x : String) (st : St) (fr : Frame) :
    Reach st.s (exec funcs root (fuel + 1) (.ret x) st fr).1.s := by
  simp only [exec]
  (repeat' split) <;> (try fold_facts) <;> reach_close

theorem ex_stop  (st : St) (fr : Frame) :
    Reach st.s (exec funcs root (fuel + 1) (.stop) st fr).1.s := by
  simp only [exec]
  (repeat' split) <;> (try fold_facts) <;> reach_close

theorem ex_try_ (body handler : List Instr) (st : St) (fr : Frame) :
    Reach st.s (exec funcs root (fuel + 1) (.try_ body handler) st fr).1.s := by
  simp only [exec]
  (repeat' split) <;> (try fold_facts) <;> reach_close

theorem ex_loop (n : Nat) (body : List Instr) (st : St) (fr : Frame) :
    Reach st.s (exec funcs root (fuel + 1) (.loop n body) st fr).1.s := by
  simp only [exec]
  (repeat' split) <;> (try fold_facts) <;> reach_close

theorem ex_tdel (t : String) (i : Nat) (st : St) (fr : Frame) :
    Reach st.s (exec funcs root (fuel + 1) (.tdel t i) st fr).1.s := by
  simp only [exec]
  (repeat' split) <;> (try fold_facts) <;> reach_close

theorem ex_tins (t : String) (i : Nat) (x : String) (st : St) (fr : Frame) :
    Reach st.s (exec funcs root (fuel + 1) (.tins t i x) st fr).1.s := by
  simp only [exec]
  (repeat' split) <;> (try fold_facts) <;> reach_close

theorem ex_tcat (t x : String) (st : St) (fr : Frame) :
    Reach st.s (exec funcs root (fuel + 1) (.tcat t x) st fr).1.s := by
  simp only [exec]
  (repeat' split) <;> (try fold_facts) <;> reach_close

theorem ex_fall (t : String) (st : St) (fr : Frame) :
    Reach st.s (exec funcs root (fuel + 1) (.fall t) st fr).1.s := by
  simp only [exec]
  (repeat' split) <;> (try fold_facts) <;> reach_close

theorem ex_mthrow (k : Int) (st : St) (fr : Frame) :
    Reach st.s (exec funcs root (fuel + 1) (.mthrow k) st fr).1.s := by
  simp only [exec]
  (repeat' split) <;> (try fold_facts) <;> reach_close

theorem ex_newf (x : String) (b : Bool) (st : St) (fr : Frame) :
    Reach st.s (exec funcs root (fuel + 1) (.newf x b) st fr).1.s := by
  simp only [exec]
  (repeat' split) <;> (try fold_facts) <;> reach_close

theorem fn_list (is : List Instr) (st : St) (fr : Frame) : Reach st.s (execList funcs root (fuel + 1) is st fr).1.s := by
  cases is <;> simp only [execList] <;> (repeat' split) <;> reach_close

theorem fn_loop (n : Nat) (body : List Instr) (st : St) (fr : Frame) :
    Reach st.s (execLoop funcs root (fuel + 1) n body st fr).1.s := by
  cases n <;> simp only [execLoop] <;> (repeat' split) <;> reach_close

theorem fn_call (x f : String) (args : List String) (thr : Option String) (st : St) (fr : Frame) :
    Reach st.s (doCall funcs root (fuel + 1) x f args thr st fr).1.s := by
  simp only [doCall]
  split
  · reach_close
  · split
    · reach_close
    · rename_i r st1 c hr
      have h1 : Reach st.s st1.s := by
        (repeat' split at hr) <;>
          (first
            | (injection hr with hr; injection hr with ha hb; subst ha; reach_close)
            | (injection hr))
      clear hr
      split
      · reach_close
      · rename_i bnd st2 vars hb
        have h2 : Reach st1.s st2.s := by fold_facts; reach_close
        clear hb
        split
        · reach_close
        · generalize hE : execList funcs root fuel _ _ _ = E
          have h3 := of_execList ih2 hE
          clear hE
          (repeat' split) <;> (try fold_facts) <;> reach_close

end Succ

theorem exec_refines_succ (funcs : List Func) (root fuel : Nat) (ih : RefinesAt funcs root fuel) :
    RefinesAt funcs root (fuel + 1) := by
  obtain ⟨ih1, ih2, ih3, ih4⟩ := ih
  refine ⟨?_, fn_list ih1 ih2 ih3 ih4, fn_loop ih1 ih2 ih3 ih4, fn_call ih1 ih2 ih3 ih4⟩
  intro ins st fr
  cases ins with
  | new x k => exact ex_new ih1 ih2 ih3 ih4 x k st fr
  | cp x y => exact ex_cp ih1 ih2 ih3 ih4 x y st fr
  | nul x => exact ex_nul ih1 ih2 ih3 ih4 x st fr
  | self x y => exact ex_self ih1 ih2 ih3 ih4 x y st fr
  | spawn x y k => exact ex_spawn ih1 ih2 ih3 ih4 x y k st fr
  | id y => exact ex_id ih1 ih2 ih3 ih4 y st fr
  | peer y z => exact ex_peer ih1 ih2 ih3 ih4 y z st fr
  | tnew t n x => exact ex_tnew ih1 ih2 ih3 ih4 t n x st fr
  | tput t i x => exact ex_tput ih1 ih2 ih3 ih4 t i x st fr
  | tat x t i => exact ex_tat ih1 ih2 ih3 ih4 x t i st fr
  | tmp k => exact ex_tmp ih1 ih2 ih3 ih4 k st fr
  | call x f args => exact ex_call ih1 ih2 ih3 ih4 x f args st fr
  | callThrow f args y => exact ex_callThrow ih1 ih2 ih3 ih4 f args y st fr
  | ret x => exact ex_ret ih1 ih2 ih3 ih4 x st fr
  | stop  => exact ex_stop ih1 ih2 ih3 ih4  st fr
  | try_ body handler => exact ex_try_ ih1 ih2 ih3 ih4 body handler st fr
  | loop n body => exact ex_loop ih1 ih2 ih3 ih4 n body st fr
  | tdel t i => exact ex_tdel ih1 ih2 ih3 ih4 t i st fr
  | tins t i x => exact ex_tins ih1 ih2 ih3 ih4 t i x st fr
  | tcat t x => exact ex_tcat ih1 ih2 ih3 ih4 t x st fr
  | fall t => exact ex_fall ih1 ih2 ih3 ih4 t st fr
  | mthrow k => exact ex_mthrow ih1 ih2 ih3 ih4 k st fr
  | newf x b => exact ex_newf ih1 ih2 ih3 ih4 x b st fr

theorem exec_refines (funcs : List Func) (root : Nat) : ∀ fuel, RefinesAt funcs root fuel := by
  intro fuel
  induction fuel with
  | zero => exact exec_refines_zero funcs root
  | succ n ih => exact exec_refines_succ funcs root n ih

end BlocV.Proofs.Refine
