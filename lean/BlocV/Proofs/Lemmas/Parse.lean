/-
  Helper lemmas for C12 (parser / unparse round trip).
-/
import BlocV.Spec.Roundtrip

namespace BlocV.C12L
open BlocV BlocV.Parse BlocV.Unparse BlocV.Roundtrip

/-! ## String literals -/

/-- A byte that `readableLiteral` writes as itself. -/
def plain (c : UInt8) : Prop :=
  c ≠ 0 ∧ c ≠ 7 ∧ c ≠ 8 ∧ c ≠ 12 ∧ c ≠ 10 ∧ c ≠ 13 ∧ c ≠ 9 ∧ c ≠ 92 ∧ c ≠ 34

/-- `plGo` with a pending plain byte (or none) over the escaped text of `s` followed by the closing quote. -/
theorem plGo_escAll (s : Bytes) (hs : ∀ c ∈ s, c ≠ 0) :
    ∀ pc : UInt8, (pc = 0 ∨ plain pc) →
      plGo true pc (escAll s ++ [34]) = (if pc = 0 then [] else [pc]) ++ s := by
  induction s with
  | nil =>
    intro pc hpc
    rcases hpc with rfl | ⟨h0, _, _, _, _, _, _, h92, h34⟩
    · simp [escAll, plGo]
    · simp [escAll, plGo, h0, h92, h34]
  | cons c t ih =>
    intro pc hpc
    have hc0 : c ≠ 0 := hs c (by simp)
    have ht : ∀ x ∈ t, x ≠ 0 := fun x hx => hs x (by simp [hx])
    have hpc92 : (pc == 92) = false := by
      rcases hpc with rfl | ⟨_, _, _, _, _, _, _, h92, _⟩
      · decide
      · simpa using h92
    have hpc34 : (pc == 34) = false := by
      rcases hpc with rfl | ⟨_, _, _, _, _, _, _, _, h34⟩
      · decide
      · simpa using h34
    -- the effect of a pending byte in front of a two-byte escape or a plain byte
    have step : ∀ (x : UInt8) (rest : Bytes),
        plGo true pc (x :: rest) = (if pc = 0 then [] else [pc]) ++ plGo true x rest := by
      intro x rest
      by_cases hp : pc = 0
      · subst hp; simp [plGo]
      · simp [plGo, hpc92, hpc34, hp]
    by_cases h7 : c = 7
    · subst h7; simp [escAll, escByte, step, plGo, ih ht 0 (Or.inl rfl)]
    by_cases h8 : c = 8
    · subst h8; simp [escAll, escByte, step, plGo, ih ht 0 (Or.inl rfl)]
    by_cases h12 : c = 12
    · subst h12; simp [escAll, escByte, step, plGo, ih ht 0 (Or.inl rfl)]
    by_cases h10 : c = 10
    · subst h10; simp [escAll, escByte, step, plGo, ih ht 0 (Or.inl rfl)]
    by_cases h13 : c = 13
    · subst h13; simp [escAll, escByte, step, plGo, ih ht 0 (Or.inl rfl)]
    by_cases h9 : c = 9
    · subst h9; simp [escAll, escByte, step, plGo, ih ht 0 (Or.inl rfl)]
    by_cases h92 : c = 92
    · subst h92; simp [escAll, escByte, step, plGo, ih ht 0 (Or.inl rfl)]
    by_cases h34 : c = 34
    · subst h34; simp [escAll, escByte, step, plGo, ih ht 0 (Or.inl rfl)]
    · have hpl : plain c := ⟨hc0, h7, h8, h12, h10, h13, h9, h92, h34⟩
      have hesc : escByte c = [c] := by simp [escByte, h7, h8, h12, h10, h13, h9, h92, h34]
      simp [escAll, hesc, step, ih ht c (Or.inr hpl), hc0]

/-- `plGo` never outputs a NUL byte: the parser cannot build a string constant containing one. -/
theorem plGo_no_nul : ∀ (text : Bytes) (bs : Bool) (pc : UInt8), ∀ c ∈ plGo bs pc text, c ≠ 0 := by
  intro text
  induction text with
  | nil => intro bs pc c h; simp [plGo] at h
  | cons x t ih =>
    intro bs pc c h
    cases bs with
    | false => simp only [plGo] at h; exact ih _ _ c h
    | true =>
      simp only [plGo] at h
      repeat' split at h
      all_goals
        first
          | exact ih _ _ c h
          | (simp only [List.mem_cons] at h
             rcases h with rfl | h
             · first | decide | (rename_i hne; simpa using hne) | skip
             · exact ih _ _ c h)

/-! ## Integer literals -/

theorem digitVal_ofNat : ∀ k, k < 10 → digitVal (UInt8.ofNat (48 + k)) = some k := by decide

theorem natOfDigits_snoc (base : Nat) (l : Bytes) (c : UInt8) :
    natOfDigits base (l ++ [c]) = natOfDigits base l * base + (digitVal c).getD 0 := by
  simp [natOfDigits, List.foldl_append]

/-- reading the decimal digits `std::to_string` writes gives the number back -/
theorem natOfDigits_natDigits : ∀ fuel n, n < 10 ^ fuel → natOfDigits 10 (natDigits fuel n) = n := by
  intro fuel
  induction fuel with
  | zero => intro n h; simp at h; subst h; simp [natDigits, natOfDigits]
  | succ k ih =>
    intro n h
    unfold natDigits
    split
    · rename_i h10
      show List.foldl (fun n c => n * 10 + (digitVal c).getD 0) 0 [UInt8.ofNat (48 + n)] = n
      simp only [List.foldl]
      rw [digitVal_ofNat n h10]
      simp
    · rename_i h10
      rw [natOfDigits_snoc, ih (n / 10) (by rw [Nat.pow_succ] at h; omega), digitVal_ofNat (n % 10) (Nat.mod_lt _ (by decide))]
      simp; omega

theorem int64_nonneg_toInt (v : Int64) (h : v ≥ 0) : 0 ≤ v.toInt := by
  have := Int64.le_iff_toInt_le.mp h
  simpa using this

theorem int64_ofNat_natAbs (v : Int64) (h : v ≥ 0) : Int64.ofNat v.toInt.natAbs = v := by
  have h0 := int64_nonneg_toInt v h
  have e : (v.toInt.natAbs : Int) = v.toInt := Int.natAbs_of_nonneg h0
  rw [← Int64.ofInt_eq_ofNat, e, Int64.ofInt_toInt]

theorem int64_natAbs_lt (v : Int64) (h : v ≥ 0) : v.toInt.natAbs < 2 ^ 63 := by
  have h0 := int64_nonneg_toInt v h
  have h1 := Int64.toInt_lt v
  omega

/-- a non-negative integer constant reads back from the text unparse writes for it -/
theorem parseDec_intToString (v : Int64) (h : v ≥ 0) : parseDec (intToString v) = some v := by
  have h0 := int64_nonneg_toInt v h
  have hlt := int64_natAbs_lt v h
  have hz : ¬ v.toInt < 0 := by omega
  simp only [parseDec, parseInteger, intToString, hz, if_false]
  rw [natOfDigits_natDigits 20 _ (by omega)]
  have : v.toInt.natAbs < 2 ^ 64 := by omega
  simp [this, int64_ofNat_natAbs v h]

/-! ## One-step unfoldings of the expression parser -/

def isLoop (L : Nat) : Prop := L = 4 ∨ L = 5 ∨ L = 6 ∨ L = 7 ∨ L = 9

theorem pLevel_one (f : Nat) (ts : List Tok) : pLevel (f + 1) 1 ts = pElem f ts := by
  rw [pLevel.eq_def]; simp

theorem pLevel_loop_ok {f L : Nat} {ts ts1 : List Tok} {a : PExpr} (h : isLoop L)
    (hx : pLevel f (L - 1) ts = .ok (a, ts1)) : pLevel (f + 1) L ts = pLoop f L a ts1 := by
  rw [pLevel.eq_def]
  rcases h with rfl | rfl | rfl | rfl | rfl <;> simp [hx, bind, Except.bind]

theorem pLevel_two_none {f : Nat} {ts ts2 : List Tok} {a : PExpr} {t : Tok}
    (hx : pLevel f 1 ts = .ok (a, t :: ts2)) (hn : opAt 2 t = none) : pLevel (f + 1) 2 ts = .ok (a, t :: ts2) := by
  rw [pLevel.eq_def]; simp [hx, hn, bind, Except.bind, pure, Except.pure]

theorem pLevel_two_some {f : Nat} {ts ts2 ts3 : List Tok} {a b : PExpr} {t : Tok} {op : POp}
    (hx : pLevel f 1 ts = .ok (a, t :: ts2)) (hs : opAt 2 t = some op) (hy : pLevel f 2 ts2 = .ok (b, ts3)) :
    pLevel (f + 1) 2 ts = .ok (.bin op false a b, ts3) := by
  rw [pLevel.eq_def]; simp [hx, hs, hy, bind, Except.bind, pure, Except.pure]

theorem pLevel_eight_none {f : Nat} {ts ts2 : List Tok} {a : PExpr} {t : Tok}
    (hx : pLevel f 7 ts = .ok (a, t :: ts2)) (hn : opAt 8 t = none) : pLevel (f + 1) 8 ts = .ok (a, t :: ts2) := by
  rw [pLevel.eq_def]; simp [hx, hn, bind, Except.bind, pure, Except.pure]

theorem pLevel_eight_some {f : Nat} {ts ts2 ts3 : List Tok} {a b : PExpr} {t : Tok} {op : POp}
    (hx : pLevel f 7 ts = .ok (a, t :: ts2)) (hs : opAt 8 t = some op) (hy : pLevel f 7 ts2 = .ok (b, ts3)) :
    pLevel (f + 1) 8 ts = .ok (.bin op false a b, ts3) := by
  rw [pLevel.eq_def]; simp [hx, hs, hy, bind, Except.bind, pure, Except.pure]

theorem pLevel_three_un {f : Nat} {ts1 ts2 : List Tok} {x : PExpr} {t : Tok} {u : PUn}
    (hu : unAt t = some u) (hx : pLevel f 2 ts1 = .ok (x, ts2)) : pLevel (f + 1) 3 (t :: ts1) = .ok (.un u false x, ts2) := by
  rw [pLevel.eq_def]; simp [hu, hx, bind, Except.bind, pure, Except.pure]

theorem pLevel_three_none {f : Nat} {ts1 : List Tok} {t : Tok}
    (hu : unAt t = none) : pLevel (f + 1) 3 (t :: ts1) = pLevel f 2 (t :: ts1) := by
  rw [pLevel.eq_def]; simp [hu]

theorem pLoop_none {f L : Nat} {acc : PExpr} {t : Tok} {ts : List Tok} (hn : opAt L t = none) :
    pLoop (f + 1) L acc (t :: ts) = .ok (acc, t :: ts) := by
  rw [pLoop.eq_def]; simp [hn, pure, Except.pure]

theorem pLoop_some {f L : Nat} {acc b : PExpr} {t : Tok} {ts1 ts2 : List Tok} {op : POp} (hs : opAt L t = some op)
    (hy : pLevel f (L - 1) ts1 = .ok (b, ts2)) :
    pLoop (f + 1) L acc (t :: ts1) = pLoop f L (.bin op false acc b) ts2 := by
  rw [pLoop.eq_def]; simp [hs, hy, bind, Except.bind]

theorem pMember_stop {f : Nat} {e : PExpr} {t : Tok} {ts : List Tok} (hd : t.code ≠ cDOT) (ha : t.code ≠ cAT) :
    pMember (f + 1) e (t :: ts) = .ok (e, t :: ts) := by
  rw [pMember.eq_def]; simp [hd, ha, pure, Except.pure]

theorem pElem_int {f : Nat} {txt : Bytes} {v : Int64} {ts : List Tok} (h : parseDec txt = some v) :
    pElem (f + 1) (⟨cINT, txt⟩ :: ts) = .ok (.int v, ts) := by
  rw [pElem.eq_def]; simp [h, pure, Except.pure]

theorem pElem_num {f : Nat} {c : Nat} {txt : Bytes} {d : UInt64} {ts : List Tok} (hc : c = cDBL ∨ c = cFLT)
    (h : parseNumeric txt = some d) : pElem (f + 1) (⟨c, txt⟩ :: ts) = .ok (.num d, ts) := by
  rw [pElem.eq_def]
  rcases hc with rfl | rfl <;> simp [h, pure, Except.pure, cDBL, cFLT, cINT, cHEX, Gen.TOKEN_DOUBLE, Gen.TOKEN_FLOAT, Gen.TOKEN_INTEGER, Gen.TOKEN_HEXANUM]

theorem pElem_str {f : Nat} {txt : Bytes} {ts : List Tok} :
    pElem (f + 1) (⟨cSTR, txt⟩ :: ts) = pMember f (.str (parseLiteral txt)) ts := by
  rw [pElem.eq_def]; simp [cSTR, cDBL, cFLT, cINT, cHEX, Gen.TOKEN_DOUBLE, Gen.TOKEN_FLOAT, Gen.TOKEN_INTEGER, Gen.TOKEN_HEXANUM, Gen.TOKEN_LITERALSTR]

theorem pElem_var {f : Nat} {n : Bytes} {t2 : Tok} {ts2 : List Tok} (hb : isBuiltinKw n = false) (hp : t2.code ≠ cLP) :
    pElem (f + 1) (⟨cKW, n⟩ :: t2 :: ts2) = pMember f (.var (upper n)) (t2 :: ts2) := by
  rw [pElem.eq_def]; simp [hb, hp, cKW, cSTR, cDBL, cFLT, cINT, cHEX, Gen.TOKEN_DOUBLE, Gen.TOKEN_FLOAT, Gen.TOKEN_INTEGER, Gen.TOKEN_HEXANUM, Gen.TOKEN_LITERALSTR, Gen.TOKEN_KEYWORD]

theorem pElem_kw {f : Nat} {k k' : Bytes} {ts : List Tok} (hb : isBuiltinKw k = true) (hc : constKw k = some k') :
    pElem (f + 1) (⟨cKW, k⟩ :: ts) = pMember f (.kw k') ts := by
  rw [pElem.eq_def]; simp [hb, hc, cKW, cSTR, cDBL, cFLT, cINT, cHEX, Gen.TOKEN_DOUBLE, Gen.TOKEN_FLOAT, Gen.TOKEN_INTEGER, Gen.TOKEN_HEXANUM, Gen.TOKEN_LITERALSTR, Gen.TOKEN_KEYWORD]

theorem pElem_paren {f : Nat} {e : PExpr} {ts1 ts3 : List Tok}
    (h : pLevel f 9 ts1 = .ok (e, ch 41 :: ts3)) : pElem (f + 1) (ch 40 :: ts1) = pMember f (setEnc e) ts3 := by
  rw [pElem.eq_def]; simp [h, ch, bind, Except.bind, cLP, cRP, cKW, cSTR, cDBL, cFLT, cINT, cHEX, Gen.TOKEN_DOUBLE, Gen.TOKEN_FLOAT, Gen.TOKEN_INTEGER, Gen.TOKEN_HEXANUM, Gen.TOKEN_LITERALSTR, Gen.TOKEN_KEYWORD]

/-! ### calls, argument lists, members (one-step unfoldings) -/

theorem pElem_call0 {f : Nat} {n : Bytes} {ts : List Tok} (hb : isBuiltinKw n = true) (hc : constKw n = none)
    (ha : arityOk n 0 = true) : pElem (f + 1) (⟨cKW, n⟩ :: ch 40 :: ch 41 :: ts) = pMember f (.call n []) ts := by
  rw [pElem.eq_def]; simp [hb, hc, ha, ch, cLP, cRP, cKW, cSTR, cDBL, cFLT, cINT, cHEX, Gen.TOKEN_DOUBLE, Gen.TOKEN_FLOAT, Gen.TOKEN_INTEGER, Gen.TOKEN_HEXANUM, Gen.TOKEN_LITERALSTR, Gen.TOKEN_KEYWORD]

theorem pElem_callN {f : Nat} {n : Bytes} {t3 : Tok} {ts3 ts4 : List Tok} {args : List PExpr} (hb : isBuiltinKw n = true)
    (hc : constKw n = none) (h3 : t3.code ≠ cRP) (hargs : pArgs f (t3 :: ts3) = .ok (args, ts4))
    (ha : arityOk n args.length = true) :
    pElem (f + 1) (⟨cKW, n⟩ :: ch 40 :: t3 :: ts3) = pMember f (.call n args) ts4 := by
  have h3' : ¬ t3.code = 41 := h3
  rw [pElem.eq_def]; simp [hb, hc, ha, h3', hargs, bind, Except.bind, ch, cLP, cRP, cKW, cSTR, cDBL, cFLT, cINT, cHEX, Gen.TOKEN_DOUBLE, Gen.TOKEN_FLOAT, Gen.TOKEN_INTEGER, Gen.TOKEN_HEXANUM, Gen.TOKEN_LITERALSTR, Gen.TOKEN_KEYWORD]

theorem pElem_fcall0 {f : Nat} {n : Bytes} {ts : List Tok} (hb : isBuiltinKw n = false) :
    pElem (f + 1) (⟨cKW, n⟩ :: ch 40 :: ch 41 :: ts) = pMember f (.fcall (upper n) []) ts := by
  rw [pElem.eq_def]; simp [hb, ch, cLP, cRP, cKW, cSTR, cDBL, cFLT, cINT, cHEX, Gen.TOKEN_DOUBLE, Gen.TOKEN_FLOAT, Gen.TOKEN_INTEGER, Gen.TOKEN_HEXANUM, Gen.TOKEN_LITERALSTR, Gen.TOKEN_KEYWORD]

theorem pElem_fcallN {f : Nat} {n : Bytes} {t3 : Tok} {ts3 ts4 : List Tok} {args : List PExpr} (hb : isBuiltinKw n = false)
    (h3 : t3.code ≠ cRP) (hargs : pArgs f (t3 :: ts3) = .ok (args, ts4)) :
    pElem (f + 1) (⟨cKW, n⟩ :: ch 40 :: t3 :: ts3) = pMember f (.fcall (upper n) args) ts4 := by
  have h3' : ¬ t3.code = 41 := h3
  rw [pElem.eq_def]; simp [hb, h3', hargs, bind, Except.bind, ch, cLP, cRP, cKW, cSTR, cDBL, cFLT, cINT, cHEX, Gen.TOKEN_DOUBLE, Gen.TOKEN_FLOAT, Gen.TOKEN_INTEGER, Gen.TOKEN_HEXANUM, Gen.TOKEN_LITERALSTR, Gen.TOKEN_KEYWORD]

theorem pArgs_last {f : Nat} {ts ts2 : List Tok} {e : PExpr} (h : pLevel f 9 ts = .ok (e, ch 41 :: ts2)) :
    pArgs (f + 1) ts = .ok ([e], ts2) := by
  rw [pArgs.eq_def]; simp [h, bind, Except.bind, pure, Except.pure, ch, cCOMMA, cRP]

theorem pArgs_more {f : Nat} {ts ts2 ts3 : List Tok} {e : PExpr} {es : List PExpr} (h : pLevel f 9 ts = .ok (e, ch 44 :: ts2))
    (h2 : pArgs f ts2 = .ok (es, ts3)) : pArgs (f + 1) ts = .ok (e :: es, ts3) := by
  rw [pArgs.eq_def]; simp [h, h2, bind, Except.bind, pure, Except.pure, ch, cCOMMA, cRP]

theorem digitVal_ofNat' : ∀ k, k < 10 → digitVal (UInt8.ofNat (48 + k)) = some k := by decide

/-- reading the digits `std::to_string(unsigned)` writes gives the number back (`Fmt.natStr`) -/
theorem natOfDigits_digitsOf : ∀ fuel n, n < 10 ^ fuel → natOfDigits 10 (Fmt.digitsOf fuel n) = n := by
  intro fuel
  induction fuel with
  | zero => intro n h; simp at h; subst h; simp [Fmt.digitsOf, natOfDigits]
  | succ k ih =>
    intro n h
    unfold Fmt.digitsOf
    split
    · rename_i h10
      show List.foldl (fun n c => n * 10 + (digitVal c).getD 0) 0 [UInt8.ofNat (48 + n)] = n
      simp only [List.foldl]
      rw [digitVal_ofNat' n h10]
      simp
    · rename_i h10
      have e : ∀ (l : Bytes) (c : UInt8), natOfDigits 10 (l ++ [c]) = natOfDigits 10 l * 10 + (digitVal c).getD 0 := by
        intro l c; simp [natOfDigits, List.foldl_append]
      rw [e, ih (n / 10) (by rw [Nat.pow_succ] at h; omega), digitVal_ofNat' (n % 10) (Nat.mod_lt _ (by decide))]
      simp; omega

theorem natOfDigits_natText (no : Nat) (h : no < 2 ^ 32) : natOfDigits 10 (natText no) = no :=
  natOfDigits_digitsOf 400 no (Nat.lt_trans h (by decide))

theorem pMember_item {f : Nat} {e : PExpr} {no : Nat} {ts : List Tok} (h : no < 2 ^ 32) :
    pMember (f + 1) e (ch 64 :: ⟨cINT, natText no⟩ :: ts) = pMember f (.item e no) ts := by
  have h64 : ¬ (2 ^ 32 ≤ no) := by omega
  rw [pMember.eq_def]
  simp [natOfDigits_natText no h, Nat.mod_eq_of_lt h, h64, ch, cDOT, cAT, cINT]

theorem pMember_setm {f : Nat} {e x : PExpr} {no : Nat} {ts3 ts5 : List Tok} (h : no < 2 ^ 32)
    (hx : pLevel f 9 ts3 = .ok (x, ch 41 :: ts5)) :
    pMember (f + 1) e (ch 46 :: kw "set" :: ch 64 :: ⟨cINT, natText no⟩ :: ch 40 :: ts3) = pMember f (.setm e no x) ts5 := by
  have h64 : ¬ (2 ^ 32 ≤ no) := by omega
  rw [pMember.eq_def]
  simp [natOfDigits_natText no h, Nat.mod_eq_of_lt h, h64, hx, kw, ch, cDOT, cAT, cINT, cLP, cRP, bind, Except.bind]

/-- what `wf` says about a member name: it is not `set`, and the table gives the arity -/
theorem member_facts {n : Bytes} {k : Nat} (h : memberArity.any (fun m => bytesOf m.1 == n && m.2 == k) = true) :
    (n == bytesOf "set") = false ∧ ∃ s, memberArity.find? (fun m => bytesOf m.1 == n) = some (s, k) := by
  simp only [memberArity, List.any_cons, List.any_nil, Bool.or_false, Bool.or_eq_true, Bool.and_eq_true, beq_iff_eq] at h
  rcases h with ⟨h1, h2⟩ | ⟨h1, h2⟩ | ⟨h1, h2⟩ | ⟨h1, h2⟩ | ⟨h1, h2⟩ | ⟨h1, h2⟩ <;> subst h1 <;> subst h2 <;>
    first
      | exact ⟨by decide, "concat", by decide⟩ | exact ⟨by decide, "at", by decide⟩ | exact ⟨by decide, "put", by decide⟩
      | exact ⟨by decide, "count", by decide⟩ | exact ⟨by decide, "delete", by decide⟩ | exact ⟨by decide, "insert", by decide⟩

theorem pMember_call0 {f : Nat} {e : PExpr} {n : Bytes} {ts : List Tok}
    (hm : memberArity.any (fun m => bytesOf m.1 == n && m.2 == 0) = true) :
    pMember (f + 1) e (ch 46 :: ⟨cKW, n⟩ :: ch 40 :: ch 41 :: ts) = pMember f (.member e n []) ts := by
  obtain ⟨hs, s, hf⟩ := member_facts hm
  rw [pMember.eq_def]
  simp [hs, hf, ch, cDOT, cAT, cLP, cRP]

theorem pMember_callN {f : Nat} {e : PExpr} {n : Bytes} {t3 : Tok} {ts3 ts5 : List Tok} {args : List PExpr}
    (hm : memberArity.any (fun m => bytesOf m.1 == n && m.2 == args.length) = true) (h3 : t3.code ≠ cRP)
    (hargs : pArgs f (t3 :: ts3) = .ok (args, ts5)) :
    pMember (f + 1) e (ch 46 :: ⟨cKW, n⟩ :: ch 40 :: t3 :: ts3) = pMember f (.member e n args) ts5 := by
  obtain ⟨hs, s, hf⟩ := member_facts hm
  have h3' : ¬ t3.code = 41 := h3
  rw [pMember.eq_def]
  simp [hs, hf, h3', hargs, bind, Except.bind, ch, cDOT, cAT, cLP, cRP]


/-! ## Facts about operator tokens -/

/-- The token does not continue an expression parsed at level `L`. -/
def Stops (L : Nat) (t : Tok) : Prop :=
  (2 ≤ L → opAt 2 t = none) ∧ (4 ≤ L → opAt 4 t = none) ∧ (5 ≤ L → opAt 5 t = none) ∧ (6 ≤ L → opAt 6 t = none) ∧
  (7 ≤ L → opAt 7 t = none) ∧ (8 ≤ L → opAt 8 t = none) ∧ (9 ≤ L → opAt 9 t = none) ∧ t.code ≠ cDOT ∧ t.code ≠ cAT

instance (L : Nat) (t : Tok) : Decidable (Stops L t) := by unfold Stops; infer_instance

theorem Stops.mono {L L' : Nat} {t : Tok} (h : Stops L t) (hl : L' ≤ L) : Stops L' t := by
  obtain ⟨h2, h4, h5, h6, h7, h8, h9, hd, ha⟩ := h
  exact ⟨fun x => h2 (by omega), fun x => h4 (by omega), fun x => h5 (by omega), fun x => h6 (by omega),
    fun x => h7 (by omega), fun x => h8 (by omega), fun x => h9 (by omega), hd, ha⟩

theorem Stops.at {L k : Nat} {t : Tok} (h : Stops L t) (hk : k ≤ L) (hk' : k = 2 ∨ k = 4 ∨ k = 5 ∨ k = 6 ∨ k = 7 ∨ k = 8 ∨ k = 9) :
    opAt k t = none := by
  obtain ⟨h2, h4, h5, h6, h7, h8, h9, _, _⟩ := h
  rcases hk' with rfl | rfl | rfl | rfl | rfl | rfl | rfl
  · exact h2 hk
  · exact h4 hk
  · exact h5 hk
  · exact h6 hk
  · exact h7 hk
  · exact h8 hk
  · exact h9 hk

theorem opAt_opTok (op : POp) : opAt (lvlOf op) (opTok op) = some op := by
  cases op <;> decide

theorem unAt_unTok (u : PUn) : unAt (unTok u) = some u := by
  cases u <;> decide

theorem opTok_stops (op : POp) : Stops (lvlOf op - 1) (opTok op) := by
  cases op <;> decide

theorem opTok_not_lp (op : POp) : (opTok op).code ≠ cLP := by
  cases op <;> decide

theorem rp_stops : Stops 9 (ch 41) := by decide
theorem rp_not_lp : (ch 41).code ≠ cLP := by decide
theorem lp_not_un : unAt (ch 40) = none := by decide

theorem lvlOf_cases (op : POp) : lvlOf op = 2 ∨ lvlOf op = 8 ∨ isLoop (lvlOf op) := by
  cases op <;> simp [lvlOf, isLoop]


/-! ## Facts about trees -/

mutual
  /-- size used as recursion measure and fuel bound; an enclosed operator is one larger than the same
  operator without parentheses -/
  def esize : PExpr → Nat
    | .un _ enc x => esize x + 2 + (if enc then 1 else 0)
    | .bin _ enc a b => esize a + esize b + 2 + (if enc then 1 else 0)
    | .call _ args => esizeArgs args + 2
    | .fcall _ args => esizeArgs args + 2
    | .member e _ args => esize e + esizeArgs args + 2
    | .setm e _ a => esize e + esize a + 2
    | .item e _ => esize e + 2
    | .int _ | .num _ | .str _ | .var _ | .kw _ => 1
  def esizeArgs : List PExpr → Nat
    | [] => 0
    | a :: as => esize a + 1 + esizeArgs as
end

theorem wf_setEnc (x : PExpr) : wf (setEnc x) = wf x := by
  cases x <;> simp [setEnc, wf]

theorem core_setEnc (x : PExpr) : core (setEnc x) = core x := by
  cases x <;> simp [setEnc, core]

theorem esize_setEnc (x : PExpr) : esize (setEnc x) ≤ esize x + 1 := by
  cases x <;> simp [setEnc, esize] <;> split <;> omega

theorem lvlE_setEnc (x : PExpr) : lvlE (setEnc x) = 1 := by
  cases x <;> simp [setEnc, lvlE]

theorem toks_setEnc (x : PExpr) : toksExpr (setEnc x) = tparen (!enclosed x) (toksExpr x) := by
  cases x with
  | un op enc y => cases enc <;> simp [setEnc, toksExpr, enclosed, tparen]
  | bin op enc a b => cases enc <;> simp [setEnc, toksExpr, enclosed, tparen]
  | _ => simp [setEnc, enclosed, tparen]

theorem norm_setEnc (x : PExpr) : norm (setEnc x) = setEnc (norm x) := by
  cases x <;> simp [setEnc, norm]

theorem endsVar_setEnc (x : PExpr) (h : endsVar (setEnc x) = true) : enclosed x = true ∧ endsVar x = true := by
  cases x <;> simp_all [setEnc, endsVar, enclosed]

theorem lvlE_pos (e : PExpr) : 1 ≤ lvlE e := by
  cases e with
  | un op enc x => cases enc <;> simp [lvlE]
  | bin op enc a b => cases enc <;> simp [lvlE] ; cases op <;> simp [lvlOf]
  | _ => simp [lvlE]


/-! ## Names and keywords -/

theorem nameOk_upper {n : Bytes} (h : nameOk n = true) : upper n = n := by
  simp [nameOk] at h; exact h.1.1

theorem nameOk_notBuiltin {n : Bytes} (h : nameOk n = true) : isBuiltinKw n = false := by
  simp [nameOk, reserved] at h; exact h.1.2.2

theorem nameOk_not_not {n : Bytes} (h : nameOk n = true) : n ≠ bytesOf "not" := by
  intro heq; subst heq; revert h; decide

theorem kwTok_unAt {n : Bytes} (h : n ≠ bytesOf "not") : unAt ⟨cKW, n⟩ = none := by
  simp [unAt, h, cKW, Gen.TOKEN_KEYWORD]

theorem constKw_facts {k : Bytes} (h : isConstKw k = true) :
    isBuiltinKw k = true ∧ constKw k = some k ∧ k ≠ bytesOf "not" := by
  simp only [isConstKw, List.contains_cons, List.contains_nil, Bool.or_false, Bool.or_eq_true, beq_iff_eq] at h
  rcases h with rfl | rfl | rfl | rfl | rfl | rfl | rfl | rfl <;> decide

theorem numTok_code (d : UInt64) : (numTok d).code = cDBL ∨ (numTok d).code = cFLT := by
  unfold numTok; simp only; split <;> simp

theorem arityOk_not_not {n : Bytes} {k : Nat} (h : arityOk n k = true) : n ≠ bytesOf "not" := by
  intro heq; subst heq
  have hf : builtinArity.find? (fun e => bytesOf e.1 == bytesOf "not") = none := by decide
  simp [arityOk, hf] at h

/-- The first token of the text of a well-formed expression: never `)`, and not a prefix operator when the
node is produced below `primary` (all node kinds). -/
theorem head_tok : ∀ (a : PExpr), wf a = true →
    ∃ t ts, toksExpr a = t :: ts ∧ (t.code ≠ cRP ∧ t.code ≠ cSEMI) ∧ (lvlE a ≤ 2 → unAt t = none)
  | .int v, hwf => by
    have hv : ¬ v < 0 := by simp [wf] at hwf; exact Int64.not_lt.mpr hwf
    exact ⟨⟨cINT, intToString v⟩, [], by simp [toksExpr, intTok, hv], ⟨by show cINT ≠ cRP; decide, by show cINT ≠ cSEMI; decide⟩,
      fun _ => by simp [unAt, cINT, cKW, Gen.TOKEN_INTEGER, Gen.TOKEN_KEYWORD]⟩
  | .num d, _ => by
    refine ⟨numTok d, [], by simp [toksExpr], ?_, fun _ => ?_⟩
    · constructor <;> rcases numTok_code d with h | h <;> rw [h] <;> decide
    · rcases numTok_code d with h | h <;> simp [unAt, h, cDBL, cFLT, cKW, Gen.TOKEN_DOUBLE, Gen.TOKEN_FLOAT, Gen.TOKEN_KEYWORD]
  | .str s, _ => ⟨⟨cSTR, readableLiteral s⟩, [], by simp [toksExpr], ⟨by show cSTR ≠ cRP; decide, by show cSTR ≠ cSEMI; decide⟩,
      fun _ => by simp [unAt, cSTR, cKW, Gen.TOKEN_LITERALSTR, Gen.TOKEN_KEYWORD]⟩
  | .var n, hwf => ⟨⟨cKW, n⟩, [], by simp [toksExpr], ⟨by show cKW ≠ cRP; decide, by show cKW ≠ cSEMI; decide⟩,
      fun _ => kwTok_unAt (nameOk_not_not (by simpa [wf] using hwf))⟩
  | .kw k, hwf => ⟨⟨cKW, k⟩, [], by simp [toksExpr], ⟨by show cKW ≠ cRP; decide, by show cKW ≠ cSEMI; decide⟩,
      fun _ => kwTok_unAt (constKw_facts (by simpa [wf] using hwf)).2.2⟩
  | .call n args, hwf => by
    simp only [wf, Bool.and_eq_true] at hwf
    exact ⟨⟨cKW, n⟩, _, by simp only [toksExpr]; rfl, ⟨by show cKW ≠ cRP; decide, by show cKW ≠ cSEMI; decide⟩, fun _ => kwTok_unAt (arityOk_not_not hwf.1.2)⟩
  | .fcall n args, hwf => by
    simp only [wf, Bool.and_eq_true] at hwf
    exact ⟨⟨cKW, n⟩, _, by simp only [toksExpr]; rfl, ⟨by show cKW ≠ cRP; decide, by show cKW ≠ cSEMI; decide⟩, fun _ => kwTok_unAt (nameOk_not_not hwf.1)⟩
  | .member e n args, hwf => by
    simp only [wf, Bool.and_eq_true] at hwf
    have hl1 : lvlE e = 1 := by simpa using hwf.1.1.2
    obtain ⟨t, ts, h1, h2, h3⟩ := head_tok e hwf.1.1.1.2
    exact ⟨t, _, by simp only [toksExpr, h1, List.cons_append]; rfl, h2, fun _ => h3 (by omega)⟩
  | .setm e no a, hwf => by
    simp only [wf, Bool.and_eq_true] at hwf
    have hl1 : lvlE e = 1 := by simpa using hwf.1.1.2
    obtain ⟨t, ts, h1, h2, h3⟩ := head_tok e hwf.1.1.1.2
    exact ⟨t, _, by simp only [toksExpr, h1, List.cons_append]; rfl, h2, fun _ => h3 (by omega)⟩
  | .item e no, hwf => by
    simp only [wf, Bool.and_eq_true] at hwf
    have hl1 : lvlE e = 1 := by simpa using hwf.1.2
    obtain ⟨t, ts, h1, h2, h3⟩ := head_tok e hwf.1.1.2
    exact ⟨t, _, by simp only [toksExpr, h1, List.cons_append]; rfl, h2, fun _ => h3 (by omega)⟩
  | .un op enc x, _ => by
    cases enc with
    | false =>
      refine ⟨unTok op, _, by simp only [toksExpr, tparen]; rfl, by cases op <;> decide, fun hl => ?_⟩
      simp [lvlE] at hl
    | true => exact ⟨ch 40, _, by simp only [toksExpr, tparen, if_true]; rfl, by decide, fun _ => lp_not_un⟩
  | .bin op enc a b, hwf => by
    cases enc with
    | true => exact ⟨ch 40, _, by simp only [toksExpr, tparen, if_true]; rfl, by decide, fun _ => lp_not_un⟩
    | false =>
      have hwa : wf a = true := by simp only [wf, Bool.and_eq_true] at hwf; exact hwf.1.1
      obtain ⟨t, ts, h1, h2, h3⟩ := head_tok a hwa
      refine ⟨t, ts ++ opTok op :: toksExpr b, by simp [toksExpr, tparen, h1], h2, fun hl => h3 ?_⟩
      have hop : lvlOf op = 2 := by
        simp [lvlE] at hl
        rcases lvlOf_cases op with h | h | h
        · exact h
        · omega
        · unfold isLoop at h; omega
      simp [wf, hop] at hwf
      omega

theorem head_not_un (a : PExpr) (hwf : wf a = true) (hl : lvlE a ≤ 2) : ∃ t ts, toksExpr a = t :: ts ∧ unAt t = none := by
  obtain ⟨t, ts, h1, _, h3⟩ := head_tok a hwf
  exact ⟨t, ts, h1, h3 hl⟩


/-! ## The round trip of the operator core -/

def PStm (e : PExpr) (L : Nat) : Prop :=
  ∀ (t : Tok) (ts : List Tok), Stops L t → (endsVar e = true → t.code ≠ cLP) →
    ∀ f, 16 * esize e + L + 4 ≤ f → pLevel f L (toksExpr e ++ t :: ts) = .ok (norm e, t :: ts)

def RStm (e : PExpr) (L : Nat) : Prop :=
  ∀ (t : Tok) (ts : List Tok) (res : PR (PExpr × List Tok)) (n : Nat), 1 ≤ n → Stops (L - 1) t →
    (endsVar e = true → t.code ≠ cLP) → (∀ f, n ≤ f → pLoop f L (norm e) (t :: ts) = res) →
    ∀ f, n + 16 * esize e + L + 3 ≤ f → pLevel f L (toksExpr e ++ t :: ts) = res

theorem notLoop {L : Nat} (h : L = 1 ∨ L = 2 ∨ L = 3 ∨ L = 8) (e : PExpr) : isLoop L → RStm e L := by
  intro hl; unfold isLoop at hl; omega

theorem desc_loop {e : PExpr} {L : Nat} (hloop : isLoop L) (ih : PStm e (L - 1)) : PStm e L ∧ RStm e L := by
  have hL4 : 4 ≤ L := by unfold isLoop at hloop; omega
  have hk : L = 2 ∨ L = 4 ∨ L = 5 ∨ L = 6 ∨ L = 7 ∨ L = 8 ∨ L = 9 := by unfold isLoop at hloop; omega
  constructor
  · intro t ts hst hv f hf
    obtain ⟨f', rfl⟩ : ∃ f', f = f' + 1 := ⟨f - 1, by omega⟩
    have hx := ih t ts (hst.mono (by omega)) hv f' (by omega)
    rw [pLevel_loop_ok hloop hx]
    obtain ⟨f'', rfl⟩ : ∃ f'', f' = f'' + 1 := ⟨f' - 1, by omega⟩
    exact pLoop_none (hst.at (Nat.le_refl _) hk)
  · intro t ts res n hn hst hv hkk f hf
    obtain ⟨f', rfl⟩ : ∃ f', f = f' + 1 := ⟨f - 1, by omega⟩
    have hx := ih t ts hst hv f' (by omega)
    rw [pLevel_loop_ok hloop hx]
    exact hkk f' (by omega)

theorem desc_two {e : PExpr} (ih : PStm e 1) : PStm e 2 := by
  intro t ts hst hv f hf
  obtain ⟨f', rfl⟩ : ∃ f', f = f' + 1 := ⟨f - 1, by omega⟩
  exact pLevel_two_none (ih t ts (hst.mono (by omega)) hv f' (by omega)) (hst.at (Nat.le_refl _) (by simp))

theorem desc_eight {e : PExpr} (ih : PStm e 7) : PStm e 8 := by
  intro t ts hst hv f hf
  obtain ⟨f', rfl⟩ : ∃ f', f = f' + 1 := ⟨f - 1, by omega⟩
  exact pLevel_eight_none (ih t ts (hst.mono (by omega)) hv f' (by omega)) (hst.at (Nat.le_refl _) (by simp))

theorem desc_three {e : PExpr} (hwf : wf e = true) (hl : lvlE e ≤ 2) (ih : PStm e 2) : PStm e 3 := by
  intro t ts hst hv f hf
  obtain ⟨f', rfl⟩ : ∃ f', f = f' + 1 := ⟨f - 1, by omega⟩
  have hx := ih t ts (hst.mono (by omega)) hv f' (by omega)
  obtain ⟨t0, ts0, h0, hu⟩ := head_not_un e hwf hl
  rw [h0] at hx ⊢
  simp only [List.cons_append] at hx ⊢
  rw [pLevel_three_none hu]; exact hx

theorem parseLiteral_readable (s : Bytes) (hs : ∀ c ∈ s, c ≠ 0) : parseLiteral (readableLiteral s) = s := by
  have := plGo_escAll s hs 0 (Or.inl rfl)
  simp [parseLiteral, readableLiteral, plGo] at this ⊢
  exact this

theorem numTok_eq (d : UInt64) : ∃ c, (c = cDBL ∨ c = cFLT) ∧ numTok d = ⟨c, numText d⟩ := by
  unfold numTok; simp only; split
  · exact ⟨cFLT, Or.inr rfl, rfl⟩
  · exact ⟨cDBL, Or.inl rfl, rfl⟩

/-- an atom at level 1: `pElem` result followed by `pMember` that stops -/
theorem atom_level1 {e : PExpr} (hn : norm e = e) (hs : esize e = 1)
    (h : ∀ (t : Tok) (ts : List Tok), Stops 1 t → (endsVar e = true → t.code ≠ cLP) → ∀ f, 3 ≤ f →
      pElem f (toksExpr e ++ t :: ts) = .ok (e, t :: ts)) : PStm e 1 := by
  intro t ts hst hv f hf
  obtain ⟨f', rfl⟩ : ∃ f', f = f' + 1 := ⟨f - 1, by omega⟩
  rw [pLevel_one, hn]
  exact h t ts hst hv f' (by omega)


theorem enc_level1 {inner e : PExpr} (hq : PStm inner 9) (htoks : toksExpr e = ch 40 :: (toksExpr inner ++ [ch 41]))
    (hnorm : norm e = setEnc (norm inner)) (hsz : esize e = esize inner + 1) : PStm e 1 := by
  intro t ts hst hv f hf
  obtain ⟨f', rfl⟩ : ∃ f', f = f' + 1 := ⟨f - 1, by omega⟩
  obtain ⟨f'', rfl⟩ : ∃ f'', f' = f'' + 1 := ⟨f' - 1, by omega⟩
  obtain ⟨f3, rfl⟩ : ∃ f3, f'' = f3 + 1 := ⟨f'' - 1, by omega⟩
  rw [pLevel_one, htoks]
  have h9 := hq (ch 41) (t :: ts) rp_stops (fun _ => rp_not_lp) (f3 + 1) (by omega)
  have e1 : (ch 40 :: (toksExpr inner ++ [ch 41])) ++ t :: ts = ch 40 :: (toksExpr inner ++ ch 41 :: t :: ts) := by simp
  rw [e1, pElem_paren h9, hnorm]
  exact pMember_stop hst.2.2.2.2.2.2.2.1 hst.2.2.2.2.2.2.2.2

/-- Continuation form at `element()`: parsing the tokens of an element that is not a number is parsing whatever
`member()` makes of `norm e` and the rest (member chains `e.m(..)@N.set@M(x)` are left-nested). -/
def MStm (e : PExpr) : Prop :=
  ∀ (t : Tok) (ts : List Tok) (res : PR (PExpr × List Tok)) (n : Nat), 1 ≤ n →
    (endsVar e = true → t.code ≠ cLP) → (∀ f, n ≤ f → pMember f (norm e) (t :: ts) = res) →
    ∀ f, n + 16 * esize e + 2 ≤ f → pElem f (toksExpr e ++ t :: ts) = res

/-- argument lists: `a1 , a2 , … )` -/
def AStm (args : List PExpr) : Prop :=
  ∀ (rest : List Tok) (f : Nat), 16 * esizeArgs args + 14 ≤ f →
    pArgs f (joinToks (ch 44) (toksArgs args) ++ ch 41 :: rest) = .ok (normArgs args, rest)

theorem pstm_of_mstm {e : PExpr} (hm : MStm e) : PStm e 1 := by
  intro t ts hst hv f hf
  obtain ⟨f', rfl⟩ : ∃ f', f = f' + 1 := ⟨f - 1, by omega⟩
  rw [pLevel_one]
  refine hm t ts _ 1 (Nat.le_refl _) hv ?_ f' (by omega)
  intro g hg
  obtain ⟨g', rfl⟩ : ∃ g', g = g' + 1 := ⟨g - 1, by omega⟩
  exact pMember_stop hst.2.2.2.2.2.2.2.1 hst.2.2.2.2.2.2.2.2

theorem enc_mstm {inner e : PExpr} (hq : PStm inner 9) (htoks : toksExpr e = ch 40 :: (toksExpr inner ++ [ch 41]))
    (hnorm : norm e = setEnc (norm inner)) (hsz : esize e = esize inner + 1) : MStm e := by
  intro t ts res n hn _ hcont f hf
  obtain ⟨f', rfl⟩ : ∃ f', f = f' + 1 := ⟨f - 1, by omega⟩
  rw [htoks]
  have h9 := hq (ch 41) (t :: ts) rp_stops (fun _ => rp_not_lp) f' (by omega)
  have e1 : (ch 40 :: (toksExpr inner ++ [ch 41])) ++ t :: ts = ch 40 :: (toksExpr inner ++ ch 41 :: t :: ts) := by simp
  rw [e1, pElem_paren h9, ← hnorm]
  exact hcont f' (by omega)

theorem lvlE_le9 (e : PExpr) : lvlE e ≤ 9 := by
  cases e with
  | un op enc x => cases enc <;> simp [lvlE]
  | bin op enc a b => cases enc <;> simp [lvlE] <;> cases op <;> simp [lvlOf]
  | _ => simp [lvlE]

theorem normArgs_length : ∀ (args : List PExpr), (normArgs args).length = args.length
  | [] => by simp [normArgs]
  | a :: as => by simp [normArgs, normArgs_length as]

theorem joinToks_head (a : PExpr) (as : List PExpr) (hwf : wf a = true) :
    ∃ t ts, joinToks (ch 44) (toksArgs (a :: as)) = t :: ts ∧ t.code ≠ cRP := by
  obtain ⟨t, ts, h1, h2, _⟩ := head_tok a hwf
  cases as with
  | nil => exact ⟨t, ts, by simp [toksArgs, joinToks, h1], h2.1⟩
  | cons b bs => exact ⟨t, _, by simp only [toksArgs, joinToks, h1, List.cons_append]; rfl, h2.1⟩

mutual
theorem full_rt (e : PExpr) (L : Nat) (hwf : wf e = true) (hl : lvlE e ≤ L) (h9 : L ≤ 9) :
    PStm e L ∧ (isLoop L → RStm e L) ∧ (L = 1 → isNumLit e = false → MStm e) := by
  have hpos := lvlE_pos e
  by_cases hlt : lvlE e < L
  · -- the node comes from a deeper level: descend one level
    have ih : PStm e (L - 1) := (full_rt e (L - 1) hwf (by omega) (by omega)).1
    have hk : L = 2 ∨ L = 3 ∨ L = 4 ∨ L = 5 ∨ L = 6 ∨ L = 7 ∨ L = 8 ∨ L = 9 := by omega
    rcases hk with rfl | rfl | rfl | rfl | rfl | rfl | rfl | rfl
    · exact ⟨desc_two ih, notLoop (by simp) e, fun h => by omega⟩
    · exact ⟨desc_three hwf (by omega) ih, notLoop (by simp) e, fun h => by omega⟩
    · have h := desc_loop (e := e) (L := 4) (by simp [isLoop]) ih
      exact ⟨h.1, fun _ => h.2, fun h => by omega⟩
    · have h := desc_loop (e := e) (L := 5) (by simp [isLoop]) ih
      exact ⟨h.1, fun _ => h.2, fun h => by omega⟩
    · have h := desc_loop (e := e) (L := 6) (by simp [isLoop]) ih
      exact ⟨h.1, fun _ => h.2, fun h => by omega⟩
    · have h := desc_loop (e := e) (L := 7) (by simp [isLoop]) ih
      exact ⟨h.1, fun _ => h.2, fun h => by omega⟩
    · exact ⟨desc_eight ih, notLoop (by simp) e, fun h => by omega⟩
    · have h := desc_loop (e := e) (L := 9) (by simp [isLoop]) ih
      exact ⟨h.1, fun _ => h.2, fun h => by omega⟩
  · have hL : lvlE e = L := by omega
    match e, hwf, hl, hlt, hL with
    | .int v, hwf, _, _, hL =>
      have hv0 : v ≥ 0 := by simpa [wf] using hwf
      have hvn : ¬ v < 0 := Int64.not_lt.mpr hv0
      have h1 : L = 1 := by simp [lvlE] at hL; omega
      subst h1
      refine ⟨atom_level1 (by simp [norm]) (by simp [esize]) ?_, notLoop (by simp) _, fun _ h => by simp [isNumLit] at h⟩
      intro t ts _ _ f hf
      obtain ⟨f', rfl⟩ : ∃ f', f = f' + 1 := ⟨f - 1, by omega⟩
      simp only [toksExpr, intTok, hvn, if_false, List.cons_append, List.nil_append]
      exact pElem_int (parseDec_intToString v hv0)
    | .num d, hwf, _, _, hL =>
      have hd : parseNumeric (numText d) = some d := by simpa [wf, numOk] using hwf
      have h1 : L = 1 := by simp [lvlE] at hL; omega
      subst h1
      refine ⟨atom_level1 (by simp [norm]) (by simp [esize]) ?_, notLoop (by simp) _, fun _ h => by simp [isNumLit] at h⟩
      intro t ts _ _ f hf
      obtain ⟨f', rfl⟩ : ∃ f', f = f' + 1 := ⟨f - 1, by omega⟩
      obtain ⟨c, hc, heq⟩ := numTok_eq d
      simp only [toksExpr, heq, List.cons_append, List.nil_append]
      exact pElem_num hc hd
    | .str s, hwf, _, _, hL =>
      have hs : ∀ c ∈ s, c ≠ 0 := by simpa [wf] using hwf
      have h1 : L = 1 := by simp [lvlE] at hL; omega
      subst h1
      have hm : MStm (.str s) := by
        intro t ts res n hn _ hk f hf
        obtain ⟨f', rfl⟩ : ∃ f', f = f' + 1 := ⟨f - 1, by omega⟩
        simp only [toksExpr, List.cons_append, List.nil_append]
        rw [pElem_str, parseLiteral_readable s hs]
        exact hk f' (by omega)
      exact ⟨pstm_of_mstm hm, notLoop (by simp) _, fun _ _ => hm⟩
    | .var n, hwf, _, _, hL =>
      have hn : nameOk n = true := by simpa [wf] using hwf
      have h1 : L = 1 := by simp [lvlE] at hL; omega
      subst h1
      have hm : MStm (.var n) := by
        intro t ts res k hk hv hcont f hf
        obtain ⟨f', rfl⟩ : ∃ f', f = f' + 1 := ⟨f - 1, by omega⟩
        simp only [toksExpr, List.cons_append, List.nil_append]
        rw [pElem_var (nameOk_notBuiltin hn) (hv (by simp [endsVar])), nameOk_upper hn]
        exact hcont f' (by omega)
      exact ⟨pstm_of_mstm hm, notLoop (by simp) _, fun _ _ => hm⟩
    | .kw k, hwf, _, _, hL =>
      have hk := constKw_facts (k := k) (by simpa [wf] using hwf)
      have h1 : L = 1 := by simp [lvlE] at hL; omega
      subst h1
      have hm : MStm (.kw k) := by
        intro t ts res n hn _ hcont f hf
        obtain ⟨f', rfl⟩ : ∃ f', f = f' + 1 := ⟨f - 1, by omega⟩
        simp only [toksExpr, List.cons_append, List.nil_append]
        rw [pElem_kw hk.1 hk.2.1]
        exact hcont f' (by omega)
      exact ⟨pstm_of_mstm hm, notLoop (by simp) _, fun _ _ => hm⟩
    | .un u true x, hwf, _, _, hL =>
      have h1 : L = 1 := by simp [lvlE] at hL; omega
      subst h1
      have hq := (full_rt (.un u false x) 9 (by simpa [wf] using hwf) (by simp [lvlE]) (by omega)).1
      have hm := enc_mstm hq (e := .un u true x) (by simp [toksExpr, tparen]) (by simp [norm, setEnc]) (by simp [esize])
      exact ⟨pstm_of_mstm hm, notLoop (by simp) _, fun _ _ => hm⟩
    | .bin op true a b, hwf, _, _, hL =>
      have h1 : L = 1 := by simp [lvlE] at hL; omega
      subst h1
      have hq := (full_rt (.bin op false a b) 9 (by simpa [wf] using hwf)
        (by simp [lvlE]; cases op <;> simp [lvlOf]) (by omega)).1
      have hm := enc_mstm hq (e := .bin op true a b) (by simp [toksExpr, tparen]) (by simp [norm, setEnc]) (by simp [esize])
      exact ⟨pstm_of_mstm hm, notLoop (by simp) _, fun _ _ => hm⟩
    | .call n args, hwf, _, _, hL =>
      have h1 : L = 1 := by simp [lvlE] at hL; omega
      subst h1
      simp only [wf, Bool.and_eq_true] at hwf
      obtain ⟨⟨⟨hb, hc⟩, ha⟩, hwa⟩ := hwf
      have hc' : constKw n = none := by simpa using hc
      have hargs : args ≠ [] → AStm args := fun hne => args_rt args hwa hne
      have hm : MStm (.call n args) := by
        intro t ts res k hk _ hcont f hf
        obtain ⟨f', rfl⟩ : ∃ f', f = f' + 1 := ⟨f - 1, by omega⟩
        have hcont' := hcont f' (by omega)
        simp only [norm] at hcont'
        cases args with
        | nil =>
          simp only [toksExpr, toksArgs, joinToks, List.cons_append, List.nil_append]
          rw [pElem_call0 hb hc' ha]; exact hcont'
        | cons a as =>
          obtain ⟨t3, ts3, h3, hrp⟩ := joinToks_head a as (by simp only [wfArgs, Bool.and_eq_true] at hwa; exact hwa.1)
          have hA := hargs (by simp) (t :: ts) f' (by simp only [esize] at hf; omega)
          have e1 : toksExpr (.call n (a :: as)) ++ t :: ts =
              ⟨cKW, n⟩ :: ch 40 :: (joinToks (ch 44) (toksArgs (a :: as)) ++ ch 41 :: t :: ts) := by simp [toksExpr]
          rw [e1]
          rw [h3] at hA ⊢
          simp only [List.cons_append] at hA ⊢
          rw [pElem_callN hb hc' hrp hA (by rw [normArgs_length]; exact ha)]; exact hcont'
      exact ⟨pstm_of_mstm hm, notLoop (by simp) _, fun _ _ => hm⟩
    | .fcall n args, hwf, _, _, hL =>
      have h1 : L = 1 := by simp [lvlE] at hL; omega
      subst h1
      simp only [wf, Bool.and_eq_true] at hwf
      obtain ⟨hn, hwa⟩ := hwf
      have hargs : args ≠ [] → AStm args := fun hne => args_rt args hwa hne
      have hm : MStm (.fcall n args) := by
        intro t ts res k hk _ hcont f hf
        obtain ⟨f', rfl⟩ : ∃ f', f = f' + 1 := ⟨f - 1, by omega⟩
        have hcont' := hcont f' (by omega)
        simp only [norm] at hcont'
        cases args with
        | nil =>
          simp only [toksExpr, toksArgs, joinToks, List.cons_append, List.nil_append]
          rw [pElem_fcall0 (nameOk_notBuiltin hn), nameOk_upper hn]; exact hcont'
        | cons a as =>
          obtain ⟨t3, ts3, h3, hrp⟩ := joinToks_head a as (by simp only [wfArgs, Bool.and_eq_true] at hwa; exact hwa.1)
          have hA := hargs (by simp) (t :: ts) f' (by simp only [esize] at hf; omega)
          have e1 : toksExpr (.fcall n (a :: as)) ++ t :: ts =
              ⟨cKW, n⟩ :: ch 40 :: (joinToks (ch 44) (toksArgs (a :: as)) ++ ch 41 :: t :: ts) := by simp [toksExpr]
          rw [e1]
          rw [h3] at hA ⊢
          simp only [List.cons_append] at hA ⊢
          rw [pElem_fcallN (nameOk_notBuiltin hn) hrp hA, nameOk_upper hn]; exact hcont'
      exact ⟨pstm_of_mstm hm, notLoop (by simp) _, fun _ _ => hm⟩
    | .member e n args, hwf, _, _, hL =>
      have h1 : L = 1 := by simp [lvlE] at hL; omega
      subst h1
      simp only [wf, Bool.and_eq_true] at hwf
      obtain ⟨⟨⟨⟨hmem, hwe⟩, hle⟩, hnl⟩, hwa⟩ := hwf
      have hle1 : lvlE e = 1 := by simpa using hle
      have me : MStm e := (full_rt e 1 hwe (by omega) (by omega)).2.2 rfl (by simpa using hnl)
      have hargs : args ≠ [] → AStm args := fun hne => args_rt args hwa hne
      have hm : MStm (.member e n args) := by
        intro t ts res k hk _ hcont f hf
        have e1 : toksExpr (.member e n args) ++ t :: ts =
            toksExpr e ++ ch 46 :: ⟨cKW, n⟩ :: ch 40 :: (joinToks (ch 44) (toksArgs args) ++ ch 41 :: t :: ts) := by
          simp [toksExpr]
        rw [e1]
        refine me (ch 46) _ res (k + 16 * esizeArgs args + 15) (by omega) (fun _ => by decide) ?_ f
          (by simp only [esize] at hf; omega)
        intro g hg
        obtain ⟨g', rfl⟩ : ∃ g', g = g' + 1 := ⟨g - 1, by omega⟩
        have hcont' := hcont g' (by omega)
        simp only [norm] at hcont'
        cases args with
        | nil =>
          simp only [toksArgs, joinToks, List.nil_append]
          rw [pMember_call0 (by simpa using hmem)]; exact hcont'
        | cons a as =>
          obtain ⟨t3, ts3, h3, hrp⟩ := joinToks_head a as (by simp only [wfArgs, Bool.and_eq_true] at hwa; exact hwa.1)
          have hA := hargs (by simp) (t :: ts) g' (by omega)
          rw [h3] at hA ⊢
          simp only [List.cons_append] at hA ⊢
          rw [pMember_callN (by rw [normArgs_length]; exact hmem) hrp hA]; exact hcont'
      exact ⟨pstm_of_mstm hm, notLoop (by simp) _, fun _ _ => hm⟩
    | .setm e no a, hwf, _, _, hL =>
      have h1 : L = 1 := by simp [lvlE] at hL; omega
      subst h1
      simp only [wf, Bool.and_eq_true] at hwf
      obtain ⟨⟨⟨⟨hno, hwe⟩, hle⟩, hnl⟩, hwa⟩ := hwf
      have hno' : no < 2 ^ 32 := by simpa using hno
      have hle1 : lvlE e = 1 := by simpa using hle
      have me : MStm e := (full_rt e 1 hwe (by omega) (by omega)).2.2 rfl (by simpa using hnl)
      have pa := (full_rt a 9 hwa (lvlE_le9 a) (by omega)).1
      have hm : MStm (.setm e no a) := by
        intro t ts res k hk _ hcont f hf
        have e1 : toksExpr (.setm e no a) ++ t :: ts =
            toksExpr e ++ ch 46 :: kw "set" :: ch 64 :: ⟨cINT, natText no⟩ :: ch 40 :: (toksExpr a ++ ch 41 :: t :: ts) := by
          simp [toksExpr]
        rw [e1]
        refine me (ch 46) _ res (k + 16 * esize a + 14) (by omega) (fun _ => by decide) ?_ f
          (by simp only [esize] at hf; omega)
        intro g hg
        obtain ⟨g', rfl⟩ : ∃ g', g = g' + 1 := ⟨g - 1, by omega⟩
        have hcont' := hcont g' (by omega)
        simp only [norm] at hcont'
        have hx := pa (ch 41) (t :: ts) rp_stops (fun _ => rp_not_lp) g' (by omega)
        rw [pMember_setm hno' hx]; exact hcont'
      exact ⟨pstm_of_mstm hm, notLoop (by simp) _, fun _ _ => hm⟩
    | .item e no, hwf, _, _, hL =>
      have h1 : L = 1 := by simp [lvlE] at hL; omega
      subst h1
      simp only [wf, Bool.and_eq_true] at hwf
      obtain ⟨⟨⟨hno, hwe⟩, hle⟩, hnl⟩ := hwf
      have hno' : no < 2 ^ 32 := by simpa using hno
      have hle1 : lvlE e = 1 := by simpa using hle
      have me : MStm e := (full_rt e 1 hwe (by omega) (by omega)).2.2 rfl (by simpa using hnl)
      have hm : MStm (.item e no) := by
        intro t ts res k hk _ hcont f hf
        have e1 : toksExpr (.item e no) ++ t :: ts = toksExpr e ++ ch 64 :: ⟨cINT, natText no⟩ :: t :: ts := by
          simp [toksExpr]
        rw [e1]
        refine me (ch 64) _ res (k + 1) (by omega) (fun _ => by decide) ?_ f (by simp only [esize] at hf; omega)
        intro g hg
        obtain ⟨g', rfl⟩ : ∃ g', g = g' + 1 := ⟨g - 1, by omega⟩
        have hcont' := hcont g' (by omega)
        simp only [norm] at hcont'
        rw [pMember_item hno']; exact hcont'
      exact ⟨pstm_of_mstm hm, notLoop (by simp) _, fun _ _ => hm⟩
    | .un u false x, hwf, _, _, hL =>
      have h3 : L = 3 := by simp [lvlE] at hL; omega
      subst h3
      have hwx : wf x = true ∧ lvlE x ≤ 2 := by simpa [wf] using hwf
      have hq := (full_rt (setEnc x) 2 (by rw [wf_setEnc]; exact hwx.1)
        (by rw [lvlE_setEnc]; omega) (by omega)).1
      refine ⟨?_, notLoop (by simp) _, fun h => by omega⟩
      intro t ts hst hv f hf
      obtain ⟨f', rfl⟩ : ∃ f', f = f' + 1 := ⟨f - 1, by omega⟩
      have hv' : endsVar (setEnc x) = true → t.code ≠ cLP := by
        intro h; have := endsVar_setEnc x h
        exact hv (by simp [endsVar, this.1, this.2])
      have hsz := esize_setEnc x
      have hx := hq t ts (hst.mono (by omega)) hv' f' (by simp [esize] at hf; omega)
      have e1 : toksExpr (.un u false x) ++ t :: ts = unTok u :: (toksExpr (setEnc x) ++ t :: ts) := by
        simp [toksExpr, tparen, toks_setEnc]
      rw [e1, pLevel_three_un (unAt_unTok u) hx]
      simp [norm, norm_setEnc]
    | .bin op false a b, hwf, _, _, hL =>
      have hLop : lvlOf op = L := by simpa [lvlE] using hL
      have etoks : ∀ (t : Tok) (ts : List Tok),
          toksExpr (.bin op false a b) ++ t :: ts = toksExpr a ++ opTok op :: (toksExpr b ++ t :: ts) := by
        intro t ts; simp [toksExpr, tparen]
      have enorm : norm (.bin op false a b) = .bin op false (norm a) (norm b) := by simp [norm]
      have esz : esize (.bin op false a b) = esize a + esize b + 2 := by simp [esize]
      rcases lvlOf_cases op with h2 | h8 | hloop
      · -- factor: element ** factor
        have hw : (wf a = true ∧ wf b = true) ∧ lvlE a ≤ 1 ∧ lvlE b ≤ 2 := by simpa [wf, h2] using hwf
        have hL2 : L = 2 := by omega
        subst hL2
        have pa := (full_rt a 1 hw.1.1 hw.2.1 (by omega)).1
        have pb := (full_rt b 2 hw.1.2 hw.2.2 (by omega)).1
        refine ⟨?_, notLoop (by simp) _, fun h => by omega⟩
        intro t ts hst hv f hf
        obtain ⟨f', rfl⟩ : ∃ f', f = f' + 1 := ⟨f - 1, by omega⟩
        have hs1 : Stops 1 (opTok op) := by have := opTok_stops op; rw [h2] at this; exact this
        have hx := pa (opTok op) (toksExpr b ++ t :: ts) hs1 (fun _ => opTok_not_lp op) f' (by omega)
        have hy := pb t ts hst (fun h => hv (by simpa [endsVar] using h)) f' (by omega)
        have hop := opAt_opTok op; rw [h2] at hop
        rw [etoks, pLevel_two_some hx hop hy, enorm]
      · -- relation: bitlogic relop bitlogic
        have hw : (wf a = true ∧ wf b = true) ∧ lvlE a ≤ 7 ∧ lvlE b ≤ 7 := by simpa [wf, h8] using hwf
        have hL8 : L = 8 := by omega
        subst hL8
        have pa := (full_rt a 7 hw.1.1 hw.2.1 (by omega)).1
        have pb := (full_rt b 7 hw.1.2 hw.2.2 (by omega)).1
        refine ⟨?_, notLoop (by simp) _, fun h => by omega⟩
        intro t ts hst hv f hf
        obtain ⟨f', rfl⟩ : ∃ f', f = f' + 1 := ⟨f - 1, by omega⟩
        have hs7 : Stops 7 (opTok op) := by have := opTok_stops op; rw [h8] at this; exact this
        have hx := pa (opTok op) (toksExpr b ++ t :: ts) hs7 (fun _ => opTok_not_lp op) f' (by omega)
        have hy := pb t ts (hst.mono (by omega)) (fun h => hv (by simpa [endsVar] using h)) f' (by omega)
        have hop := opAt_opTok op; rw [h8] at hop
        rw [etoks, pLevel_eight_some hx hop hy, enorm]
      · -- a left-associative level
        rw [hLop] at hloop
        have hne2 : ¬ (lvlOf op = 2) := by unfold isLoop at hloop; omega
        have hne8 : ¬ (lvlOf op = 8) := by unfold isLoop at hloop; omega
        have hw : (wf a = true ∧ wf b = true) ∧ lvlE a ≤ lvlOf op ∧ lvlE b ≤ lvlOf op - 1 := by
          simpa [wf, hne2, hne8] using hwf
        rw [hLop] at hw
        have hL4 : 4 ≤ L := by unfold isLoop at hloop; omega
        have ra := (full_rt a L hw.1.1 hw.2.1 h9).2.1 hloop
        have pb := (full_rt b (L - 1) hw.1.2 hw.2.2 (by omega)).1
        have hsop : Stops (L - 1) (opTok op) := by have := opTok_stops op; rw [hLop] at this; exact this
        have hop : opAt L (opTok op) = some op := by have := opAt_opTok op; rw [hLop] at this; exact this
        have hR : RStm (.bin op false a b) L := by
          intro t ts res n hn hst hv hk f hf
          rw [etoks]
          refine ra (opTok op) (toksExpr b ++ t :: ts) res (n + 16 * esize b + L + 4) (by omega) hsop
            (fun _ => opTok_not_lp op) ?_ f (by omega)
          intro g hg
          obtain ⟨g', rfl⟩ : ∃ g', g = g' + 1 := ⟨g - 1, by omega⟩
          have hy := pb t ts hst (fun h => hv (by simpa [endsVar] using h)) g' (by omega)
          rw [pLoop_some hop hy]
          rw [enorm] at hk
          exact hk g' (by omega)
        refine ⟨?_, fun _ => hR, fun h => by unfold isLoop at hloop; omega⟩
        intro t ts hst hv f hf
        refine hR t ts _ 1 (Nat.le_refl _) (hst.mono (by omega)) hv ?_ f (by omega)
        intro g hg
        obtain ⟨g', rfl⟩ : ∃ g', g = g' + 1 := ⟨g - 1, by omega⟩
        have hkk : L = 2 ∨ L = 4 ∨ L = 5 ∨ L = 6 ∨ L = 7 ∨ L = 8 ∨ L = 9 := by unfold isLoop at hloop; omega
        exact pLoop_none (hst.at (Nat.le_refl _) hkk)
termination_by (esize e, L)
decreasing_by
  all_goals simp_wf
  all_goals first
    | (apply Prod.Lex.right; omega)
    | (apply Prod.Lex.left; simp only [esize]; exact Nat.lt_of_le_of_lt (esize_setEnc _) (by simp))
    | (apply Prod.Lex.left; simp only [esize]; omega)
    | (apply Prod.Lex.left; simp [esize] <;> omega)

theorem args_rt (args : List PExpr) (hwf : wfArgs args = true) (hne : args ≠ []) : AStm args := by
  match args, hwf, hne with
  | [a], hwf, _ =>
    have hwa : wf a = true := by simp only [wfArgs, Bool.and_eq_true] at hwf; exact hwf.1
    have pa := (full_rt a 9 hwa (lvlE_le9 a) (by omega)).1
    intro rest f hf
    obtain ⟨f', rfl⟩ : ∃ f', f = f' + 1 := ⟨f - 1, by omega⟩
    simp only [toksArgs, joinToks, normArgs]
    exact pArgs_last (pa (ch 41) rest rp_stops (fun _ => rp_not_lp) f' (by simp only [esizeArgs] at hf; omega))
  | a :: b :: as, hwf, _ =>
    have hw : wf a = true ∧ wfArgs (b :: as) = true := by simp only [wfArgs, Bool.and_eq_true] at hwf ⊢; exact hwf
    have pa := (full_rt a 9 hw.1 (lvlE_le9 a) (by omega)).1
    have ih := args_rt (b :: as) hw.2 (by simp)
    intro rest f hf
    obtain ⟨f', rfl⟩ : ∃ f', f = f' + 1 := ⟨f - 1, by omega⟩
    have e1 : joinToks (ch 44) (toksArgs (a :: b :: as)) ++ ch 41 :: rest =
        toksExpr a ++ ch 44 :: (joinToks (ch 44) (toksArgs (b :: as)) ++ ch 41 :: rest) := by
      simp [toksArgs, joinToks]
    rw [e1]
    have hx := pa (ch 44) (joinToks (ch 44) (toksArgs (b :: as)) ++ ch 41 :: rest) (by decide) (fun _ => by decide) f'
      (by simp only [esizeArgs] at hf ⊢; omega)
    have hy := ih rest f' (by simp only [esizeArgs] at hf ⊢; omega)
    rw [pArgs_more hx hy]
    simp [normArgs]
termination_by (esizeArgs args, 0)
decreasing_by
  all_goals simp_wf
  all_goals first
    | (apply Prod.Lex.left; simp only [esizeArgs]; omega)
    | (apply Prod.Lex.left; simp [esizeArgs])
end

/-- the operator core as a special case (kept for its users) -/
theorem core_rt (e : PExpr) (L : Nat) (hwf : wf e = true) (_hcore : core e = true) (hl : lvlE e ≤ L) (h9 : L ≤ 9) :
    PStm e L ∧ (isLoop L → RStm e L) :=
  ⟨(full_rt e L hwf hl h9).1, (full_rt e L hwf hl h9).2.1⟩


/-! ## `norm` changes neither the text, nor the tokens, nor the translation -/

theorem setEnc_idem (e : PExpr) : setEnc (setEnc e) = setEnc e := by
  cases e <;> rfl

theorem enclosed_setEnc (x : PExpr) : enclosed (setEnc x) = true := by
  cases x <;> simp [setEnc, enclosed]

theorem unparse_setEnc (x : PExpr) : unparseExpr (setEnc x) = paren (!enclosed x) (unparseExpr x) := by
  cases x with
  | un op enc y => cases enc <;> simp [setEnc, unparseExpr, enclosed, paren]
  | bin op enc a b => cases enc <;> simp [setEnc, unparseExpr, enclosed, paren]
  | _ => simp [setEnc, enclosed, paren]

theorem toExpr_setEnc (x : PExpr) : toExpr (setEnc x) = toExpr x := by
  cases x <;> simp [setEnc, toExpr]

theorem enclosed_norm (x : PExpr) : enclosed (norm x) = enclosed x := by
  cases x <;> simp [norm, enclosed]

mutual
  theorem unparse_norm : ∀ e : PExpr, unparseExpr (norm e) = unparseExpr e
    | .int _ | .num _ | .str _ | .var _ | .kw _ => by simp [norm]
    | .call n args => by simp [norm, unparseExpr, unparseArgs_norm args]
    | .fcall n args => by simp [norm, unparseExpr, unparseArgs_norm args]
    | .member e n args => by simp [norm, unparseExpr, unparse_norm e, unparseArgs_norm args]
    | .setm e no a => by simp [norm, unparseExpr, unparse_norm e, unparse_norm a]
    | .item e no => by simp [norm, unparseExpr, unparse_norm e]
    | .un op enc x => by
      simp [norm, unparseExpr, enclosed_setEnc, unparse_setEnc, unparse_norm x, enclosed_norm, paren]
    | .bin op enc a b => by simp [norm, unparseExpr, unparse_norm a, unparse_norm b]
  theorem unparseArgs_norm : ∀ as : List PExpr, unparseArgs (normArgs as) = unparseArgs as
    | [] => by simp [normArgs, unparseArgs]
    | a :: as => by simp [normArgs, unparseArgs, unparse_norm a, unparseArgs_norm as]
end

mutual
  theorem toks_norm : ∀ e : PExpr, toksExpr (norm e) = toksExpr e
    | .int _ | .num _ | .str _ | .var _ | .kw _ => by simp [norm]
    | .call n args => by simp [norm, toksExpr, toksArgs_norm args]
    | .fcall n args => by simp [norm, toksExpr, toksArgs_norm args]
    | .member e n args => by simp [norm, toksExpr, toks_norm e, toksArgs_norm args]
    | .setm e no a => by simp [norm, toksExpr, toks_norm e, toks_norm a]
    | .item e no => by simp [norm, toksExpr, toks_norm e]
    | .un op enc x => by
      simp [norm, toksExpr, enclosed_setEnc, toks_setEnc, toks_norm x, enclosed_norm, tparen]
    | .bin op enc a b => by simp [norm, toksExpr, toks_norm a, toks_norm b]
  theorem toksArgs_norm : ∀ as : List PExpr, toksArgs (normArgs as) = toksArgs as
    | [] => by simp [normArgs, toksArgs]
    | a :: as => by simp [normArgs, toksArgs, toks_norm a, toksArgs_norm as]
end

mutual
  theorem toExpr_norm : ∀ e : PExpr, toExpr (norm e) = toExpr e
    | .int _ | .num _ | .str _ | .var _ | .kw _ => by simp [norm]
    | .call n args => by simp [norm, toExpr, toExprs_norm args]
    | .fcall n args => by simp [norm, toExpr, toExprs_norm args]
    | .member e n args => by simp [norm, toExpr]
    | .setm e no a => by simp [norm, toExpr]
    | .item e no => by simp [norm, toExpr]
    | .un op enc x => by simp [norm, toExpr, toExpr_setEnc, toExpr_norm x]
    | .bin op enc a b => by simp [norm, toExpr, toExpr_norm a, toExpr_norm b]
  theorem toExprs_norm : ∀ as : List PExpr, toExprs (normArgs as) = toExprs as
    | [] => by simp [normArgs, toExprs]
    | a :: as => by simp [normArgs, toExprs, toExpr_norm a, toExprs_norm as]
end

mutual
  theorem norm_idem : ∀ e : PExpr, norm (norm e) = norm e
    | .int _ | .num _ | .str _ | .var _ | .kw _ => by simp [norm]
    | .call n args => by simp [norm, normArgs_idem args]
    | .fcall n args => by simp [norm, normArgs_idem args]
    | .member e n args => by simp [norm, norm_idem e, normArgs_idem args]
    | .setm e no a => by simp [norm, norm_idem e, norm_idem a]
    | .item e no => by simp [norm, norm_idem e]
    | .un op enc x => by simp [norm, norm_setEnc, norm_idem x, setEnc_idem]
    | .bin op enc a b => by simp [norm, norm_idem a, norm_idem b]
  theorem normArgs_idem : ∀ as : List PExpr, normArgs (normArgs as) = normArgs as
    | [] => by simp [normArgs]
    | a :: as => by simp [normArgs, norm_idem a, normArgs_idem as]
end

/-! ## DO statements (DOStatement::unparse writes its keyword since fix 1a89173) -/

/-- The keyword `DOStatement::unparse` writes is the word the statement parser dispatches on: a changed
`Statement::KEYWORDS` table breaks this lemma (and with it the DO round trip). -/
theorem doKeyword_eq : doKeyword = bytesOf "do" := by decide

theorem unparseStmt_do (lvl : Nat) (e : PExpr) : unparseStmt lvl (.doS e) = bytesOf "do " ++ unparseExpr e := by
  have h : bytesOf "do" ++ [32] = bytesOf "do " := by decide
  simp [unparseStmt, doKeyword_eq, ← h]

/-- The statement parser with the keyword `do` in front: the expression, then the separator
(`ParseStatement::parse` → `DOStatement::parse` → `beyond_statement`). -/
theorem pStmt_do (f : Nat) (nested : Bool) (ts : List Tok) :
    pStmt (f + 1) nested (kw "do" :: ts) =
      (do let (e, ts2) ← pExpr f ts
          let r ← beyond ts2
          pure (some (.doS e), r)) := by
  rw [pStmt.eq_def]
  have hk : isStmtKw (kw "do").text = true := by decide
  have h1 : ((kw "do").code == cSEMI) = false := by decide
  have h2 : ((kw "do").code != cKW) = false := by decide
  have n1 : isKw (kw "do") "nop" = false := by decide
  have n2 : isKw (kw "do") "break" = false := by decide
  have n3 : isKw (kw "do") "continue" = false := by decide
  have n4 : isKw (kw "do") "trace" = false := by decide
  have n5 : isKw (kw "do") "return" = false := by decide
  have n6 : isKw (kw "do") "let" = false := by decide
  have n7 : isKw (kw "do") "print" = false := by decide
  have n8 : isKw (kw "do") "put" = false := by decide
  have n9 : isKw (kw "do") "do" = true := by decide
  simp only [h1, h2, hk, n1, n2, n3, n4, n5, n6, n7, n8, n9, if_true, if_false, Bool.false_eq_true]


end BlocV.C12L
