/-
  Helper lemmas for C03 `int_of_decimal_spec`: the model's bit-field accessors on `UInt64` patterns
  (Model/Num.lean `sign`, `expo`, `mant`, `truncInt`) equal the arithmetic fields of Spec/Float.lean,
  and power-of-two arithmetic with the denominator 2^1074 (never evaluated: handled by `Nat.pow_add`).
  (Helper lemmas only — the property theorems are in BlocV/Proofs/C03.lean.)
-/
import BlocV.Model.Num
import BlocV.Spec.Float

namespace BlocV.Lemmas
open BlocV BlocV.Spec

theorem expo_eq (b : UInt64) : Num.expo b = F64.expField b.toNat := by
  unfold Num.expo F64.expField
  rw [UInt64.toNat_and, UInt64.toNat_shiftRight]
  show b.toNat >>> (52 % 64) &&& (2 ^ 11 - 1) = _
  rw [Nat.and_two_pow_sub_one_eq_mod, Nat.shiftRight_eq_div_pow]

theorem mant_eq (b : UInt64) : Num.mant b = F64.fracField b.toNat := by
  unfold Num.mant F64.fracField
  rw [UInt64.toNat_and]
  show b.toNat &&& (2 ^ 52 - 1) = _
  rw [Nat.and_two_pow_sub_one_eq_mod]

theorem sign_eq (b : UInt64) : Num.sign b = decide (F64.signField b.toNat = 1) := by
  unfold Num.sign F64.signField
  have h : (b >>> 63).toNat = b.toNat / 2 ^ 63 := by
    rw [UInt64.toNat_shiftRight]
    show b.toNat >>> (63 % 64) = _
    rw [Nat.shiftRight_eq_div_pow]
  have hlt := b.toNat_lt
  by_cases hc : b.toNat / 2 ^ 63 % 2 = 1
  · have : b >>> 63 = 1 := by
      apply UInt64.toNat_inj.mp; rw [h]; show _ = 1; omega
    simp [this, hc]
  · have : ¬ (b >>> 63 = 1) := by
      intro e; apply hc; rw [← h, e]; rfl
    simp [this, hc]

/-- The three fields determine the pattern. -/
theorem pattern_fields (n : Nat) (h : n < 2 ^ 64) :
    n = F64.signField n * 2 ^ 63 + F64.expField n * 2 ^ 52 + F64.fracField n := by
  unfold F64.signField F64.expField F64.fracField; omega

theorem frac_lt (n : Nat) : F64.fracField n < 2 ^ 52 := by unfold F64.fracField; omega
theorem exp_lt (n : Nat) : F64.expField n < 2048 := by unfold F64.expField; omega

/-- `(m · 2^(E−1)) / 2^1074`, the magnitude of the truncation, as the model computes it. -/
theorem mag_div (m E : Nat) (hE : 1 ≤ E) :
    m * 2 ^ (E - 1) / 2 ^ 1074 =
      (if ((E : Int) - 1075) ≥ 0 then m * 2 ^ ((E : Int) - 1075).toNat else m / 2 ^ (-((E : Int) - 1075)).toNat) := by
  have hP : 0 < 2 ^ 1074 := Nat.two_pow_pos 1074
  by_cases h : 1075 ≤ E
  · have h1 : ((E : Int) - 1075) ≥ 0 := by omega
    have h2 : ((E : Int) - 1075).toNat = E - 1075 := by omega
    rw [if_pos h1, h2]
    have : 2 ^ (E - 1) = 2 ^ (E - 1075) * 2 ^ 1074 := by
      rw [← Nat.pow_add]; congr 1; omega
    rw [this, ← Nat.mul_assoc, Nat.mul_div_cancel _ hP]
  · have h1 : ¬ ((E : Int) - 1075) ≥ 0 := by omega
    have h2 : (-((E : Int) - 1075)).toNat = 1075 - E := by omega
    rw [if_neg h1, h2]
    have : 2 ^ 1074 = 2 ^ (1075 - E) * 2 ^ (E - 1) := by
      rw [← Nat.pow_add]; congr 1; omega
    rw [this, Nat.mul_div_mul_right _ _ (Nat.two_pow_pos _)]

theorem unit_eq_cast : F64.unit = ((2 ^ 1074 : Nat) : Int) := by
  unfold F64.unit; rw [Int.natCast_pow]; rfl

theorem unit_pos : 0 < F64.unit := by
  rw [unit_eq_cast]; exact Int.natCast_pos.mpr (Nat.two_pow_pos 1074)

/-- Magnitude of `scaled`. -/
def smag (n : Nat) : Nat := F64.significand n * 2 ^ F64.scaleExp n

theorem scaled_eq (n : Nat) : F64.scaled n = if F64.signField n = 1 then -((smag n : Nat) : Int) else (smag n : Nat) := rfl

theorem trunc_eq (n : Nat) :
    F64.trunc n = if F64.signField n = 1 then -((smag n / 2 ^ 1074 : Nat) : Int) else ((smag n / 2 ^ 1074 : Nat) : Int) := by
  unfold F64.trunc
  rw [scaled_eq, unit_eq_cast]
  split
  · rw [Int.neg_tdiv, ← Int.ofNat_tdiv]
  · rw [← Int.ofNat_tdiv]

/-- The model's exact truncation is the spec's, for every finite pattern. -/
theorem truncInt_eq (b : UInt64) (h : Num.expo b ≠ 2047) :
    Num.truncInt b = some (F64.trunc b.toNat) := by
  unfold Num.truncInt
  have h' : (Num.expo b == 2047) = false := by simpa using h
  rw [h']
  simp only [Bool.false_eq_true, if_false]
  congr 1
  rw [trunc_eq, sign_eq]
  have hm : smag b.toNat / 2 ^ 1074 =
      (if ((if Num.expo b == 0 then 1 else (Num.expo b : Int)) - 1075) ≥ 0
        then (if Num.expo b == 0 then Num.mant b else Num.mant b + 2 ^ 52) *
              2 ^ ((if Num.expo b == 0 then 1 else (Num.expo b : Int)) - 1075).toNat
        else (if Num.expo b == 0 then Num.mant b else Num.mant b + 2 ^ 52) /
              2 ^ (-((if Num.expo b == 0 then 1 else (Num.expo b : Int)) - 1075)).toNat) := by
    unfold smag F64.significand F64.scaleExp
    rw [← expo_eq, ← mant_eq]
    by_cases h0 : Num.expo b = 0
    · simp only [h0, if_true, beq_self_eq_true]
      simp
    · have hb : (Num.expo b == 0) = false := by simpa using h0
      simp only [h0, hb, if_false, Bool.false_eq_true]
      have := mag_div (Num.mant b + 2 ^ 52) (Num.expo b) (by omega)
      rw [Nat.add_comm (2 ^ 52)]
      exact this
  rw [hm]
  by_cases hs : F64.signField b.toNat = 1 <;> simp [hs]


/-! ### Range analysis by exponent field -/

/-- `2^63 · 2^1074` as a natural number; `(2:Int)^63 * unit` is its cast. -/
def rangeBound : Nat := 2 ^ 63 * 2 ^ 1074

theorem rangeBound_cast : (2 : Int) ^ 63 * F64.unit = (rangeBound : Int) := by
  unfold rangeBound; rw [unit_eq_cast, Int.natCast_mul, Int.natCast_pow]; rfl

theorem significand_lt (n : Nat) : F64.significand n < 2 ^ 53 := by
  unfold F64.significand; have := frac_lt n; split <;> omega

theorem smag_lt (n : Nat) (he : F64.expField n < 1086) : smag n < rangeBound := by
  unfold smag rangeBound
  have h1 : F64.scaleExp n ≤ 1084 := by unfold F64.scaleExp; split <;> omega
  have h2 : 2 ^ F64.scaleExp n ≤ 2 ^ 1084 := Nat.pow_le_pow_right (by omega) h1
  have h3 : (2 : Nat) ^ 63 * 2 ^ 1074 = 2 ^ 53 * 2 ^ 1084 := by
    rw [← Nat.pow_add, ← Nat.pow_add]
  rw [h3]
  exact Nat.mul_lt_mul_of_lt_of_le (significand_lt n) h2 (Nat.two_pow_pos _)

theorem smag_ge (n : Nat) (he : 1086 ≤ F64.expField n) : rangeBound ≤ smag n := by
  unfold smag rangeBound
  have h0 : F64.expField n ≠ 0 := by omega
  have h1 : 1085 ≤ F64.scaleExp n := by unfold F64.scaleExp; rw [if_neg h0]; omega
  have h2 : 2 ^ 1085 ≤ 2 ^ F64.scaleExp n := Nat.pow_le_pow_right (by omega) h1
  have h3 : (2 : Nat) ^ 63 * 2 ^ 1074 = 2 ^ 52 * 2 ^ 1085 := by
    rw [← Nat.pow_add, ← Nat.pow_add]
  have h4 : 2 ^ 52 ≤ F64.significand n := by unfold F64.significand; rw [if_neg h0]; omega
  rw [h3]
  exact Nat.mul_le_mul h4 h2

theorem smag_eq (n : Nat) (he : F64.expField n = 1086) (hf : F64.fracField n = 0) : smag n = rangeBound := by
  unfold smag rangeBound F64.significand F64.scaleExp
  rw [he, hf]
  simp only [show (1086 : Nat) ≠ 0 by omega, if_false, Nat.add_zero]
  rw [← Nat.pow_add, ← Nat.pow_add]

theorem smag_gt (n : Nat) (he : 1086 ≤ F64.expField n) (hne : ¬ (F64.expField n = 1086 ∧ F64.fracField n = 0)) :
    rangeBound < smag n := by
  have h0 : F64.expField n ≠ 0 := by omega
  have h3 : (2 : Nat) ^ 63 * 2 ^ 1074 = 2 ^ 52 * 2 ^ 1085 := by
    rw [← Nat.pow_add, ← Nat.pow_add]
  unfold smag rangeBound F64.significand F64.scaleExp
  rw [if_neg h0, if_neg h0, h3]
  by_cases h6 : F64.expField n = 1086
  · have hf : 0 < F64.fracField n := by omega
    rw [h6]
    exact Nat.mul_lt_mul_of_lt_of_le (by omega) (Nat.le_refl _) (Nat.two_pow_pos _)
  · have h1 : 1085 < F64.expField n - 1 := by omega
    have h2 : 2 ^ 1085 < 2 ^ (F64.expField n - 1) := Nat.pow_lt_pow_right (by omega) h1
    exact Nat.mul_lt_mul_of_le_of_lt (by omega) h2 (by omega)

/-- For a finite double, "the value lies in [−2^63, 2^63)" by fields: exponent below 1023+63, or exactly −2^63. -/
theorem inIntRange_iff (n : Nat) :
    F64.inIntRange n ↔
      (F64.expField n < 1086 ∨ (F64.signField n = 1 ∧ F64.expField n = 1086 ∧ F64.fracField n = 0)) := by
  unfold F64.inIntRange
  have hneg : -(2 : Int) ^ 63 * F64.unit = -(rangeBound : Int) := by
    rw [Int.neg_mul, rangeBound_cast]
  rw [hneg, rangeBound_cast, scaled_eq]
  clear hneg
  have hpos : 0 < rangeBound := Nat.mul_pos (Nat.two_pow_pos 63) (Nat.two_pow_pos 1074)
  by_cases he : F64.expField n < 1086
  · have := smag_lt n he
    constructor
    · intro _; exact Or.inl he
    · intro _; split <;> omega
  · have hge := smag_ge n (by omega)
    by_cases hx : F64.expField n = 1086 ∧ F64.fracField n = 0
    · have := smag_eq n hx.1 hx.2
      by_cases hs : F64.signField n = 1
      · rw [if_pos hs]
        constructor
        · intro _; exact Or.inr ⟨hs, hx.1, hx.2⟩
        · intro _; rw [this]; generalize rangeBound = r at hpos ⊢; omega
      · rw [if_neg hs]
        constructor
        · intro _; omega
        · intro h; rcases h with h | h
          · exact absurd h he
          · exact absurd h.1 hs
    · have := smag_gt n (by omega) hx
      constructor
      · intro h; split at h <;> omega
      · intro h; rcases h with h | h
        · exact absurd h he
        · exact absurd h.2 hx

/-- In range ⇒ the truncation fits an `Int64`. -/
theorem trunc_bounds (n : Nat) (h : F64.inIntRange n) : -2 ^ 63 ≤ F64.trunc n ∧ F64.trunc n < 2 ^ 63 := by
  have hr := h
  unfold F64.inIntRange at hr
  have hneg : -(2 : Int) ^ 63 * F64.unit = -(rangeBound : Int) := by
    rw [Int.neg_mul, rangeBound_cast]
  rw [hneg, rangeBound_cast, scaled_eq] at hr
  rw [trunc_eq]
  have hP : 0 < 2 ^ 1074 := Nat.two_pow_pos 1074
  by_cases hs : F64.signField n = 1
  · simp only [hs, if_true] at hr ⊢
    have h1 : smag n ≤ rangeBound := by omega
    have h2 : smag n / 2 ^ 1074 ≤ 2 ^ 63 := by
      have : smag n / 2 ^ 1074 ≤ rangeBound / 2 ^ 1074 := Nat.div_le_div_right h1
      unfold rangeBound at this
      rwa [Nat.mul_div_cancel _ hP] at this
    omega
  · simp only [hs, if_false] at hr ⊢
    have h1 : smag n < rangeBound := by omega
    have h2 : smag n / 2 ^ 1074 < 2 ^ 63 := by
      rw [Nat.div_lt_iff_lt_mul hP]; exact h1
    omega

/-- Above the range every double is an integer: a multiple of the unit. -/
theorem smag_div_mul (n : Nat) (he : 1086 ≤ F64.expField n) : smag n / 2 ^ 1074 * 2 ^ 1074 = smag n := by
  have h0 : F64.expField n ≠ 0 := by omega
  have hS : F64.scaleExp n = (F64.scaleExp n - 1074) + 1074 := by
    unfold F64.scaleExp; rw [if_neg h0]; omega
  unfold smag
  rw [hS, Nat.pow_add, ← Nat.mul_assoc, Nat.mul_div_cancel _ (Nat.two_pow_pos 1074)]

/-- Out of range ⇒ also the truncation is out of range (doubles beyond 2^53 have no fraction), so "the
value lies in the integer range" and "the truncated value lies in the integer range" agree on doubles. -/
theorem trunc_out (n : Nat) (h : ¬ F64.inIntRange n) : ¬ (-2 ^ 63 ≤ F64.trunc n ∧ F64.trunc n < 2 ^ 63) := by
  rw [inIntRange_iff] at h
  have he : 1086 ≤ F64.expField n := by omega
  have hdm := smag_div_mul n he
  have hge := smag_ge n he
  rw [trunc_eq]
  by_cases hs : F64.signField n = 1
  · rw [if_pos hs]
    have hx : ¬ (F64.expField n = 1086 ∧ F64.fracField n = 0) := fun x => h (Or.inr ⟨hs, x⟩)
    have hgt := smag_gt n he hx
    have : 2 ^ 63 < smag n / 2 ^ 1074 := by
      apply Nat.lt_of_mul_lt_mul_right (a := 2 ^ 1074)
      rw [hdm]; exact hgt
    omega
  · rw [if_neg hs]
    have : 2 ^ 63 ≤ smag n / 2 ^ 1074 := by
      apply Nat.le_of_mul_le_mul_right (c := 2 ^ 1074) _ (Nat.two_pow_pos 1074)
      rw [hdm]; exact hge
    omega

/-- The value-range formulation (Spec/Float.lean `intOf`) and the truncation-range formulation
(Spec/Arith.lean `intOfDecimal`) of `int(d)` are the same function of the bit pattern. -/
theorem intOf_eq_trunc_form (n : Nat) : F64.intOf n = Spec.intOfDecimal (F64.truncOpt n) := by
  unfold F64.intOf F64.truncOpt Spec.intOfDecimal
  by_cases hf : F64.isFinite n
  · by_cases hr : F64.inIntRange n
    · have := trunc_bounds n hr
      simp only [hf, hr, and_self, if_true, this]
    · have := trunc_out n hr
      simp only [hf, hr, and_false, if_false, if_true, this]
  · simp [hf]

/-- The one negative pattern with exponent field 1086 that is in range: −2^63. -/
theorem eq_minTwo63_iff (b : UInt64) :
    (b == 0xc3e0000000000000) =
      decide (F64.signField b.toNat = 1 ∧ F64.expField b.toNat = 1086 ∧ F64.fracField b.toNat = 0) := by
  have hlt := b.toNat_lt
  have hiff : b = 0xc3e0000000000000 ↔
      (F64.signField b.toNat = 1 ∧ F64.expField b.toNat = 1086 ∧ F64.fracField b.toNat = 0) := by
    rw [← UInt64.toNat_inj]
    show b.toNat = 14114281232179134464 ↔ _
    unfold F64.signField F64.expField F64.fracField
    omega
  by_cases h : b = 0xc3e0000000000000
  · have := hiff.mp h
    simp only [this, and_self, decide_true]; subst h; rfl
  · have h' : ¬ (F64.signField b.toNat = 1 ∧ F64.expField b.toNat = 1086 ∧ F64.fracField b.toNat = 0) :=
      fun x => h (hiff.mpr x)
    rw [decide_eq_false h']
    simpa using h

end BlocV.Lemmas
