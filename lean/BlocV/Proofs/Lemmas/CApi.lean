/-
  Helper lemmas for Proofs/C15.lean: projections of the state-update helpers of Model/CApi.lean, and the
  case analysis "what one call can do to one context slot" (`step_ctx`). No property theorem here.
-/
import BlocV.Model.CApi

namespace BlocV.C15
open BlocV BlocV.CApi


@[simp] theorem err_setErr (s : State) (c : Nat) : (setErr s c).err = { code := c, msg := true } := rfl
@[simp] theorem err_razErr (s : State) : (razErr s).err = {} := rfl
@[simp] theorem err_bump (s : State) (c : Nat) (x : Ctx) : (bump s c x).err = s.err := rfl
@[simp] theorem err_setCtx (s : State) (c : Nat) (x : Ctx) : (setCtx s c x).err = s.err := rfl
@[simp] theorem err_killWhere (s : State) (p : VRef → Bool) : (killWhere s p).err = s.err := rfl
@[simp] theorem err_setVal (s : State) (v : Nat) (x : VSlot) : (setVal s v x).err = s.err := rfl
@[simp] theorem err_dropSymsOf (s : State) (c : Nat) : (dropSymsOf s c).err = s.err := rfl
@[simp] theorem err_staleCtxItems (s : State) (c : Nat) : (staleCtxItems s c).err = s.err := rfl
@[simp] theorem err_appendSink (s : State) (k : Nat) (b : Bytes) : (appendSink s k b).err = s.err := by
  unfold appendSink; split <;> rfl



def hostWrite (o : Op) (s : State) (c : Nat) : Bool :=
  match o with
  | .store c' _ _ _ => c' == c
  | .alit v _ | .araw v _ | .anull v => match liveSlot s v with
      | some (.ref r) => (match r.root with | .slot c' _ => c' == c | _ => false)
      | _ => false
  | _ => false

@[simp] theorem ctxs_setErr (s : State) (c : Nat) : (setErr s c).ctxs = s.ctxs := rfl
@[simp] theorem ctxs_razErr (s : State) : (razErr s).ctxs = s.ctxs := rfl
@[simp] theorem ctxs_bump (s : State) (c : Nat) (x : Ctx) : (bump s c x).ctxs = s.ctxs.set c { x with epoch := s.clock } := rfl
@[simp] theorem clock_bump (s : State) (c : Nat) (x : Ctx) : (bump s c x).clock = s.clock + 1 := rfl
@[simp] theorem ctxs_setCtx (s : State) (c : Nat) (x : Ctx) : (setCtx s c x).ctxs = s.ctxs.set c x := rfl
@[simp] theorem ctxs_killWhere (s : State) (p : VRef → Bool) : (killWhere s p).ctxs = s.ctxs := rfl
@[simp] theorem ctxs_setVal (s : State) (v : Nat) (x : VSlot) : (setVal s v x).ctxs = s.ctxs := rfl
@[simp] theorem ctxs_dropSymsOf (s : State) (c : Nat) : (dropSymsOf s c).ctxs = s.ctxs := rfl
@[simp] theorem ctxs_staleCtxItems (s : State) (c : Nat) : (staleCtxItems s c).ctxs = s.ctxs := rfl
@[simp] theorem ctxs_appendSink (s : State) (k : Nat) (b : Bytes) : (appendSink s k b).ctxs = s.ctxs := by
  unfold appendSink; split <;> rfl
@[simp] theorem clock_setErr (s : State) (c : Nat) : (setErr s c).clock = s.clock := rfl
@[simp] theorem clock_razErr (s : State) : (razErr s).clock = s.clock := rfl
@[simp] theorem clock_setCtx (s : State) (c : Nat) (x : Ctx) : (setCtx s c x).clock = s.clock := rfl
@[simp] theorem clock_killWhere (s : State) (p : VRef → Bool) : (killWhere s p).clock = s.clock := rfl
@[simp] theorem clock_setVal (s : State) (v : Nat) (x : VSlot) : (setVal s v x).clock = s.clock := rfl
@[simp] theorem clock_dropSymsOf (s : State) (c : Nat) : (dropSymsOf s c).clock = s.clock := rfl
@[simp] theorem clock_staleCtxItems (s : State) (c : Nat) : (staleCtxItems s c).clock = s.clock := rfl
@[simp] theorem clock_appendSink (s : State) (k : Nat) (b : Bytes) : (appendSink s k b).clock = s.clock := by
  unfold appendSink; split <;> rfl

theorem getCtx_some {s : State} {c : Nat} {x : Ctx} (h : getCtx s c = some x) : s.ctxs[c]? = some x := by
  unfold getCtx at h
  split at h
  · split at h <;> simp_all
  · simp at h

theorem getCtx_eq_some (s : State) (c : Nat) (x : Ctx) : getCtx s c = some x ↔ (s.ctxs[c]? = some x ∧ x.live = true) := by
  unfold getCtx
  split
  · rename_i y hy
    by_cases hl : y.live = true
    · simp [hl, hy]
      intro h; subst h; exact hl
    · simp [hl, hy]
      intro h; subst h; simpa using hl
  · rename_i hy
    simp [hy]

theorem symLive_some {s : State} {sh c : Nat} {x : Ctx} {id : Nat} (h : symLive s sh c = some (x, id)) : getCtx s c = some x := by
  unfold symLive at h
  split at h
  · split at h <;> simp_all
  · simp at h

theorem storeInto_keeps {x x' : Ctx} {id : Nat} {b : Val} (h : storeInto x id b = .ok x') : x'.epoch = x.epoch ∧ x'.live = x.live := by
  unfold storeInto at h
  split at h
  · split at h
    · cases h; simp
    · split at h
      · cases h
      · cases h; simp
  · cases h; simp

/-- What one call can do to context slot `c`. -/
def CtxStep (s : State) (o : Op) (c : Nat) (x x1 : Ctx) (s1 : State) : Prop :=
  (x1.epoch = s.clock ∧ s1.clock = s.clock + 1) ∨
  (x1.epoch = x.epoch ∧ x1.live = x.live ∧ s.clock ≤ s1.clock ∧ (hostWrite o s c = false → x1.vals = x.vals))

theorem step_ctx (s s1 : State) (out : Out) (o : Op) (c : Nat) (x x1 : Ctx) (hr : step s o = (s1, out))
    (h0 : s.ctxs[c]? = some x) (h1 : s1.ctxs[c]? = some x1) : CtxStep s o c x x1 s1 := by
  unfold CtxStep
  cases o <;> simp only [step] at hr
  all_goals first
    | (simp only [opFind, opLoad, opCreate, opVfree, opVdump, opEfree, opEtype, opAcc, opItem,
        opXfree, opOut, killBoxItems, killExprVals, Out.pre, Out.of] at hr
       (repeat' split at hr) <;> (simp only [Prod.mk.injEq] at hr; obtain ⟨rfl, _⟩ := hr) <;> simp_all [hostWrite]; done)
    | skip
  all_goals first
    | (simp only [opCnew, opCclone, opCfree, opCpurge, opCpwm, opReg, opStore, opAssign, opEparse, opEval, opXparse, opExec, opExec2, runIn,
        opDrop, opStop, opCreate, killBoxItems, killCtxItems, killExprVals, Out.pre, Out.of] at hr
       (repeat' split at hr) <;> (simp only [Prod.mk.injEq] at hr; obtain ⟨rfl, _⟩ := hr) <;> simp_all [hostWrite, List.getElem?_set, getCtx_eq_some]
       <;> (repeat' split at h1) <;> simp_all <;> (try subst_vars) <;> simp_all <;> (try omega); done)
    | skip
  case store =>
    simp only [opStore, killBoxItems, killCtxItems, Out.pre, Out.of] at hr
    split at hr
    · rename_i xx id b hsl hv
      have hg := symLive_some hsl
      split at hr
      · rename_i x' hst
        have hk := storeInto_keeps hst
        simp only [Prod.mk.injEq] at hr; obtain ⟨rfl, _⟩ := hr
        rw [getCtx_eq_some] at hg
        simp only [ctxs_setCtx, ctxs_killWhere, ctxs_setVal, ctxs_staleCtxItems, clock_setCtx, clock_killWhere, clock_setVal, clock_staleCtxItems, hostWrite] at h1 ⊢
        right
        split at h1 <;> (
          simp only [ctxs_setCtx, ctxs_killWhere, ctxs_setVal, ctxs_staleCtxItems] at h1
          rw [List.getElem?_set] at h1
          split at h1
          · subst_vars
            split at h1
            · cases h1; simp_all
            · simp at h1
          · simp_all)
      · simp only [Prod.mk.injEq] at hr; obtain ⟨rfl, _⟩ := hr
        simp_all [hostWrite]
    · simp only [Prod.mk.injEq] at hr; obtain ⟨rfl, _⟩ := hr
      simp_all [hostWrite]

theorem step_clock_mono (s s1 : State) (out : Out) (o : Op) (hr : step s o = (s1, out)) : s.clock ≤ s1.clock := by
  cases o <;> simp only [step] at hr
  all_goals (
    simp only [opCnew, opCclone, opCfree, opCpurge, opCpwm, opReg, opStore, opAssign, opEparse, opEval, opXparse, opExec, opExec2, runIn,
      opDrop, opStop, opCreate, opFind, opLoad, opVfree, opVdump, opEfree, opEtype, opAcc, opItem, opXfree, opOut,
      killBoxItems, killCtxItems, killExprVals, Out.pre, Out.of] at hr
    (repeat' split at hr) <;> (simp only [Prod.mk.injEq] at hr; obtain ⟨rfl, _⟩ := hr) <;> simp)

/-- Contexts are never added or removed from the table: a slot that is filled after a call was filled before. -/
theorem step_ctx_exists (s s1 : State) (out : Out) (o : Op) (c : Nat) (x1 : Ctx) (hr : step s o = (s1, out))
    (h1 : s1.ctxs[c]? = some x1) : ∃ x, s.ctxs[c]? = some x := by
  have hlen : s1.ctxs.length = s.ctxs.length := by
    cases o <;> simp only [step] at hr
    all_goals (
      simp only [opCnew, opCclone, opCfree, opCpurge, opCpwm, opReg, opStore, opAssign, opEparse, opEval, opXparse, opExec, opExec2, runIn,
        opDrop, opStop, opCreate, opFind, opLoad, opVfree, opVdump, opEfree, opEtype, opAcc, opItem, opXfree, opOut,
        killBoxItems, killCtxItems, killExprVals, Out.pre, Out.of] at hr
      (repeat' split at hr) <;> (simp only [Prod.mk.injEq] at hr; obtain ⟨rfl, _⟩ := hr) <;> simp)
  have hc : c < s1.ctxs.length := by
    rcases Nat.lt_or_ge c s1.ctxs.length with h | h
    · exact h
    · rw [List.getElem?_eq_none h] at h1; cases h1
  rw [hlen] at hc
  exact ⟨s.ctxs[c], by simp [hc]⟩


theorem lookup_ctxVars : ∀ (syms : List Sym) (vals : List Val) (name : String) (id : Nat) (v : Val),
    syms.findIdx? (·.name == name) = some id → vals[id]? = some v →
    lookupVar ((syms.map (·.name)).zip vals) name = v
  | [], _, _, _, _, h, _ => by simp at h
  | _ :: _, [], _, _, _, _, hv => by simp at hv
  | sy :: rest, w :: ws, name, id, v, h, hv => by
    rw [List.findIdx?_cons] at h
    by_cases hn : (sy.name == name) = true
    · simp [hn] at h; subst h; simp at hv; subst hv
      simp [lookupVar, List.find?, hn]
    · simp [hn] at h
      obtain ⟨id', hid, rfl⟩ := h
      simp at hv
      have ih := lookup_ctxVars rest ws name id' v hid hv
      simp only [lookupVar] at ih ⊢
      simp only [List.map_cons, List.zip_cons_cons, List.find?, hn]
      exact ih

theorem names_set (syms : List Sym) (id : Nat) (sy : Sym) (t : Ty) (h : syms[id]? = some sy) (name : String) :
    (syms.set id { sy with ty := t }).findIdx? (·.name == name) = syms.findIdx? (·.name == name) := by
  induction syms generalizing id with
  | nil => simp
  | cons a rest ih =>
    cases id with
    | zero => simp at h; subst h; simp [List.findIdx?_cons]
    | succ k => simp at h; simp [List.findIdx?_cons, ih k h]

theorem eval_var (funcs : List Func) (depth fuel : Nat) (n : String) (st : St) (hit : st.iters = []) :
    eval funcs depth (fuel + 1) (.var n) st = (.ok (lookupVar st.vars n), st) := by
  simp [eval, bind, getSt, readVar, hit, liftM, monadLift, MonadLift.monadLift]

theorem addSyms_fields (news : List (String × Ty)) : ∀ (x : Ctx),
    (addSyms x news).live = x.live ∧ (addSyms x news).gen = x.gen ∧ (addSyms x news).funcs = x.funcs ∧
    (addSyms x news).stop = x.stop ∧ (addSyms x news).returned = x.returned ∧ (addSyms x news).epoch = x.epoch ∧
    (∀ (i : Nat) (v : Val), x.vals[i]? = some v → (addSyms x news).vals[i]? = some v) := by
  induction news with
  | nil => intro x; simp [addSyms]
  | cons p rest ih =>
    intro x
    simp only [addSyms, List.foldl_cons]
    split
    · exact ih x
    · have := ih { x with syms := x.syms ++ [{ name := p.1, ty := p.2, safety := isSafetyName p.1 }], vals := x.vals ++ [Val.null p.2] }
      simp only [addSyms] at this
      refine ⟨this.1, this.2.1, this.2.2.1, this.2.2.2.1, this.2.2.2.2.1, this.2.2.2.2.2.1, ?_⟩
      intro i v hv
      apply this.2.2.2.2.2.2
      rw [List.getElem?_append_left]
      · exact hv
      · rcases Nat.lt_or_ge i x.vals.length with h | h
        · exact h
        · rw [List.getElem?_eq_none h] at hv; cases hv


end BlocV.C15
