/-
  Helper lemmas: the lock invariant of `forall` (Model/Interp.lean `lockS`/`lockL`/`lockE`). Code the parser accepts while the table
  variable `t` is locked never changes the number of elements of `t` — a third mutual induction over the eight functions of the
  interpreter (after `sameIters_all` and `frame_all`), this one with a syntactic side condition. Used by Proofs/C06.lean.
-/
import BlocV.Proofs.Lemmas.Interp
import BlocV.Proofs.Lemmas.Vars
namespace BlocV.Lemmas
open BlocV

/-- the table held by variable `t` has as many elements as before -/
def KeepLen (t : String) (s s' : St) : Prop := tableSize (lookupVar s'.vars t) = tableSize (lookupVar s.vars t)

theorem keepLen_rel (t : String) : StRel (KeepLen t) :=
  ⟨fun _ => rfl, fun h1 h2 => by unfold KeepLen at *; rw [h2, h1]⟩

theorem keepLen_vars (t : String) (s s' : St) (h : s'.vars = s.vars) : KeepLen t s s' := by
  unfold KeepLen; rw [h]

theorem keepLen_set_ne (t n : String) (v : Val) (s : St) (h : n ≠ t) : KeepLen t s { s with vars := setVar s.vars n v } := by
  unfold KeepLen
  show tableSize (lookupVar (setVar s.vars n v) t) = _
  rw [lookup_setVar_ne _ _ _ _ h]

theorem keepLen_set_same (t n : String) (v : Val) (s : St) (h : tableSize v = tableSize (lookupVar s.vars n)) :
    KeepLen t s { s with vars := setVar s.vars n v } := by
  by_cases hn : n = t
  · subst hn
    unfold KeepLen
    show tableSize (lookupVar (setVar s.vars n v) n) = _
    rw [lookup_setVar, h]
  · exact keepLen_set_ne t n v s hn

theorem forallStep_size (tbl : Val) (i : Nat) (v tbl' : Val) (h : forallStep tbl i v = .ok tbl') : tableSize tbl' = tableSize tbl := by
  unfold forallStep at h
  split at h
  · rename_i t d es
    split at h
    · rename_i old hold
      split at h
      · simp [tyMismatch] at h
      · simp at h
        subst h
        have hlt : i < es.length := by
          rcases Nat.lt_or_ge i es.length with h1 | h1
          · exact h1
          · rw [List.getElem?_eq_none h1] at hold; cases hold
        simp [tableSize, listPut_eq_set es i v hlt]
    · cases h
  · cases h

theorem mAt_keeps (recv a0 r rv' : Val) (h : mAt recv a0 = .ok (r, rv')) : rv' = recv := by
  unfold mAt at h
  repeat (first | (split at h) | (simp [idxErr] at h; try exact h.2.symm))

theorem mCount_keeps (recv r rv' : Val) (h : mCount recv = .ok (r, rv')) : rv' = recv := by
  unfold mCount at h
  split at h <;> simp at h <;> exact h.2.symm

theorem memberCall_keeps (m : Member) (recv : Val) (args : List Val) (r rv' : Val)
    (hm : memberMutates m = false) (h : memberCall m recv args false = .ok (r, rv')) : rv' = recv := by
  unfold memberCall at h
  split at h
  · exact mAt_keeps _ _ _ _ h
  · simp [memberMutates] at hm
  · simp [memberMutates] at hm
  · simp [memberMutates] at hm
  · simp [memberMutates] at hm
  · exact mCount_keeps _ _ _ h
  · cases h

theorem contains_ne (L : List String) (n t : String) (ht : t ∈ L) (h : (!L.contains n) = true) : n ≠ t := by
  intro e; subst e
  simp at h
  exact h ht

theorem lockEs_mem (L : List String) : ∀ (args : List Expr), lockEs L args = true → ∀ a ∈ args, lockE L a = true
  | [], _, a, ha => by cases ha
  | x :: xs, h, a, ha => by
    have h' : lockE L x = true ∧ lockEs L xs = true := by simpa [lockEs] using h
    rcases List.mem_cons.mp ha with rfl | hm
    · exact h'.1
    · exact lockEs_mem L xs h'.2 a hm

theorem lockCatches_find (L : List String) (p : String × List Stmt → Bool) : ∀ (cs : List (String × List Stmt)) (n : String) (h : List Stmt),
    lockCatches L cs = true → cs.find? p = some (n, h) → lockL L h = true
  | [], _, _, _, hf => by cases hf
  | (m, b) :: rest, n, h, hl, hf => by
    have hl' : lockL L b = true ∧ lockCatches L rest = true := by simpa [lockCatches] using hl
    rw [List.find?_cons] at hf
    split at hf
    · cases hf; exact hl'.1
    · exact lockCatches_find L p rest n h hl'.2 hf

theorem PArgs.map_mem {R : St → St → Prop} {α} (f : α → EvalM Val) (l : List α) (h : ∀ a ∈ l, Pres R (f a)) : PArgs R (l.map f) := by
  intro t ht
  simp only [List.mem_map] at ht
  obtain ⟨a, ha, rfl⟩ := ht
  exact h a ha

theorem any_it_of_sameIters (s s' : St) (n : String) (h : SameIters s s') :
    s.iters.any (·.it == n) = s'.iters.any (·.it == n) := by
  unfold SameIters at h
  have h2 : s'.iters.map (·.it) = s.iters.map (·.it) := by
    have := congrArg (List.map (fun k : String × Option String × Nat × Ty × Bool => k.1)) h
    simpa [List.map_map, iterKey, Function.comp_def] using this
  have e1 : ∀ l : List Iter, l.any (·.it == n) = (l.map (·.it)).any (· == n) := by
    intro l; rw [List.any_map]; rfl
  rw [e1, e1, h2]

/-- a receiver the parser accepted under the lock and that designates a LOCKED variable is that variable itself (a chain of in-place
members on it would have been refused at its innermost call) -/
theorem rootVar_locked (L : List String) (n : String) (hn : n ∈ L) : ∀ (recv : Expr), lockE L recv = true → rootVar recv = some n → recv = .var n
  | .var m, _, h2 => by simp only [rootVar, Option.some.injEq] at h2; rw [h2]
  | .member m r args, h1, h2 => by
    simp only [rootVar] at h2
    split at h2
    · rename_i hm
      simp only [lockE, Bool.and_eq_true] at h1
      have hr := rootVar_locked L n hn r h1.1.2 h2
      subst hr
      have hc : L.contains n = true := by simpa using hn
      have := h1.1.1
      simp [hm] at this
      exact absurd hn this
    · cases h2
  | .lit _, _, h2 => by simp [rootVar] at h2
  | .un _ _, _, h2 => by simp [rootVar] at h2
  | .bin _ _ _, _, h2 => by simp [rootVar] at h2
  | .call _ _, _, h2 => by simp [rootVar] at h2
  | .fcall _ _, _, h2 => by simp [rootVar] at h2
  | .errorE, _, h2 => by simp [rootVar] at h2
  | .item _ _, _, h2 => by simp [rootVar] at h2

def AllLock (t : String) (funcs : List Func) (fuel : Nat) : Prop :=
  (∀ L depth e, t ∈ L → lockE L e = true → Pres (KeepLen t) (eval funcs depth fuel e)) ∧
  (∀ L depth name args, t ∈ L → lockEs L args = true → Pres (KeepLen t) (callFunc funcs depth fuel name args)) ∧
  (∀ L depth args, t ∈ L → lockEs L args = true → Pres (KeepLen t) (evalArgs funcs depth fuel args)) ∧
  (∀ L depth body catches, t ∈ L → lockL L body = true → lockCatches L catches = true → Pres (KeepLen t) (execBlock funcs depth fuel body catches)) ∧
  (∀ L depth l, t ∈ L → lockL L l = true → Pres (KeepLen t) (execList funcs depth fuel l)) ∧
  (∀ L depth st, t ∈ L → lockS L st = true → Pres (KeepLen t) (exec funcs depth fuel st)) ∧
  (∀ L depth es, t ∈ L → lockEs L es = true → Pres (KeepLen t) (evalPrint funcs depth fuel es)) ∧
  (∀ L depth rules, t ∈ L → lockRules L rules = true → Pres (KeepLen t) (execIf funcs depth fuel rules))

theorem eval_lock_step (t : String) (funcs : List Func) (fuel : Nat) (ih : AllLock t funcs fuel) (L : List String) (depth : Nat) (e : Expr)
    (ht : t ∈ L) (he : lockE L e = true) : Pres (KeepLen t) (eval funcs depth (fuel + 1) e) := by
  have hR := keepLen_rel t
  obtain ⟨ihE, ihC, ihA, -, -, -, -, -⟩ := ih
  unfold eval
  split
  · exact Pres.pure hR _
  · exact Pres.bind hR (Pres.getSt hR) (fun _ => Pres.lift hR _)
  · have ha := he; simp only [lockE] at ha
    exact Pres.bind hR (ihE L _ _ ht ha) (fun _ => Pres.lift hR _)
  · have hab := he; simp only [lockE, Bool.and_eq_true] at hab
    repeat (first | pres_core hR | exact ihE L _ _ ht hab.1 | exact ihE L _ _ ht hab.2)
  · have hab := he; simp only [lockE, Bool.and_eq_true] at hab
    repeat (first | pres_core hR | exact ihE L _ _ ht hab.1 | exact ihE L _ _ ht hab.2)
  · have hab := he; simp only [lockE, Bool.and_eq_true] at hab
    repeat (first | pres_core hR | exact ihE L _ _ ht hab.1 | exact ihE L _ _ ht hab.2)
  · have ha := he; simp only [lockE] at ha
    exact biTab_pres hR _ (PArgs.map_mem _ _ (fun a ha' => ihE L _ a ht (lockEs_mem L _ ha a ha')))
  · have ha := he; simp only [lockE] at ha
    exact biTup_pres hR _ (PArgs.map_mem _ _ (fun a ha' => ihE L _ a ht (lockEs_mem L _ ha a ha')))
  · have ha := he; simp only [lockE] at ha
    split
    · rename_i r hr
      exact evalBuiltin_pres hR _ _ _ (PArgs.map_mem _ _ (fun a ha' => ihE L _ a ht (lockEs_mem L _ ha a ha'))) r hr
    · exact Pres.lift hR _
  · have ha := he; simp only [lockE] at ha
    exact ihC L _ _ _ ht ha
  · -- member
    rename_i e0 m recv args
    have h3 := he; simp only [lockE, Bool.and_eq_true] at h3
    obtain ⟨⟨hmut, hrecv⟩, hargs⟩ := h3
    constructor; intro s
    simp only [bind_app]
    have h1 := (ihE L depth recv ht hrecv).h s
    have i1 := ((sameIters_all funcs fuel).1 depth recv).h s
    cases hr : eval funcs depth fuel recv s with
    | mk r1 s1 =>
      rw [hr] at h1 i1
      cases r1 with
      | ok rv =>
        simp only []
        have h2 := (ihA L depth args ht hargs).h s1
        have i2 := ((sameIters_all funcs fuel).2.2.1 depth args).h s1
        cases ha : evalArgs funcs depth fuel args s1 with
        | mk r2 s2 =>
          rw [ha] at h2 i2
          have h12 := hR.trans h1 h2
          have i12 := sameIters_rel.trans i1 i2
          cases r2 with
          | ok avs =>
            simp only [liftM_app]
            cases hm : memberCall m rv avs false with
            | ok p =>
              obtain ⟨r, rv'⟩ := p
              simp only []
              cases hroot : rootVar recv with
              | none => exact h12
              | some n =>
                simp only [bind_app, getSt_app]
                split
                · exact h12
                · rename_i hany
                  show KeepLen t s ({ s2 with vars := setVar s2.vars n rv' } : St)
                  refine hR.trans h12 ?_
                  by_cases hn : n = t
                  · subst hn
                    have hrv := rootVar_locked L n ht recv hrecv hroot
                    subst hrv
                    have hc : L.contains n = true := by simpa using ht
                    have hnm : memberMutates m = false := by
                      simp only [hc, Bool.and_true, Bool.not_eq_true'] at hmut; exact hmut
                    have hk := memberCall_keeps m rv avs r rv' hnm hm
                    subst hk
                    apply keepLen_set_same
                    have hany2 : s2.iters.any (·.it == n) = false := by simpa using hany
                    have hany0 : s.iters.any (·.it == n) = false := by
                      rw [← hany2]
                      exact any_it_of_sameIters s s2 n i12
                    cases fuel with
                    | zero => simp [eval, oof, failE] at hr
                    | succ k =>
                      simp only [eval, bind_app, getSt_app, liftM_app] at hr
                      unfold readVar at hr
                      rw [find_none_of_any_false _ _ hany0] at hr
                      simp only [Prod.mk.injEq] at hr
                      obtain ⟨hv, hs⟩ := hr
                      cases hv
                      exact h12.symm
                  · exact keepLen_set_ne t n rv' s2 hn
            | _ => exact h12
          | _ => exact h12
      | _ => exact h1
  · exact Pres.bind hR (Pres.getSt hR) (fun _ => Pres.lift hR _)
  · have ha := he; simp only [lockE] at ha
    exact itemAt_pres hR _ (ihE L _ _ ht ha) _

theorem forallLoop_pres' {R : St → St → Prop} (hR : StRel R) (hi : ∀ (s : St) (its : List Iter), R s { s with iters := its })
    (body : EvalM Flow) (hb : Pres R body) (it : String) (desc : Bool) : ∀ k, Pres R (forallLoop body it desc k) := by
  intro k
  induction k with
  | zero => exact Pres.oof hR
  | succ k ih =>
    unfold forallLoop
    repeat (first | pres_core hR | assumption | exact Pres.modifySt (fun _ => hi _ _))

theorem forLoop_pres' {R : St → St → Prop} (hR : StRel R) (v : String) (hv : ∀ (s : St) (x : Val), R s { s with vars := setVar s.vars v x })
    (body : EvalM Flow) (mn mx step : Int64) (hb : Pres R body) : ∀ k, Pres R (forLoop body v mn mx step k) := by
  intro k
  induction k with
  | zero => exact Pres.oof hR
  | succ k ih =>
    unfold forLoop
    repeat (first | pres_core hR | assumption | exact Pres.modifySt (fun _ => hv _ _))

theorem callFunc_lock_step (t : String) (funcs : List Func) (fuel : Nat) (ih : AllLock t funcs fuel) (L : List String) (depth : Nat)
    (name : String) (args : List Expr) (ht : t ∈ L) (ha : lockEs L args = true) : Pres (KeepLen t) (callFunc funcs depth (fuel + 1) name args) := by
  have hR := keepLen_rel t
  obtain ⟨-, -, ihA, -, -, -, -, -⟩ := ih
  unfold callFunc
  split
  · exact Pres.lift hR _
  · rename_i f hfind
    split
    · exact Pres.failE hR _ _
    · apply Pres.bind hR (ihA L _ _ ht ha)
      intro vals
      refine ⟨fun caller => keepLen_vars _ _ _ ?_⟩
      unfold finishCall
      split <;> rfl

theorem evalArgs_lock_step (t : String) (funcs : List Func) (fuel : Nat) (ih : AllLock t funcs fuel) (L : List String) (depth : Nat)
    (args : List Expr) (ht : t ∈ L) (ha : lockEs L args = true) : Pres (KeepLen t) (evalArgs funcs depth (fuel + 1) args) := by
  have hR := keepLen_rel t
  obtain ⟨ihE, -, ihA, -, -, -, -, -⟩ := ih
  cases args with
  | nil => unfold evalArgs; exact Pres.pure hR _
  | cons a as =>
    have h : lockE L a = true ∧ lockEs L as = true := by simpa [lockEs] using ha
    unfold evalArgs
    repeat (first | pres_core hR | exact ihE L _ _ ht h.1 | exact ihA L _ _ ht h.2)

theorem execBlock_lock_step (t : String) (funcs : List Func) (fuel : Nat) (ih : AllLock t funcs fuel) (L : List String) (depth : Nat)
    (body : List Stmt) (catches : List (String × List Stmt)) (ht : t ∈ L) (hb : lockL L body = true) (hc : lockCatches L catches = true) :
    Pres (KeepLen t) (execBlock funcs depth (fuel + 1) body catches) := by
  have hR := keepLen_rel t
  obtain ⟨-, -, -, -, ihL, -, -, -⟩ := ih
  unfold execBlock
  constructor
  intro s
  have h1 := (ihL L depth body ht hb).h s
  split
  · rename_i c a s' heq
    rw [heq] at h1
    split
    · exact h1
    · split
      · rename_i handler hfind
        have hh := lockCatches_find L _ catches _ handler hc hfind
        have h2 := (ihL L depth handler ht hh).h { s' with lastErr := (c, a) }
        have h3 : KeepLen t s' { s' with lastErr := (c, a) } := keepLen_vars _ _ _ rfl
        unfold handlerExit
        split
        · rename_i fl s2 heq2
          rw [heq2] at h2
          exact hR.trans h1 (hR.trans h3 (hR.trans h2 (keepLen_vars _ _ _ rfl)))
        · exact hR.trans h1 (hR.trans h3 h2)
      · exact h1
  · exact h1

theorem execList_lock_step (t : String) (funcs : List Func) (fuel : Nat) (ih : AllLock t funcs fuel) (L : List String) (depth : Nat)
    (l : List Stmt) (ht : t ∈ L) (hl : lockL L l = true) : Pres (KeepLen t) (execList funcs depth (fuel + 1) l) := by
  have hR := keepLen_rel t
  obtain ⟨-, -, -, -, ihL, ihS, -, -⟩ := ih
  cases l with
  | nil => unfold execList; exact Pres.pure hR _
  | cons a as =>
    have h : lockS L a = true ∧ lockL L as = true := by simpa [lockL] using hl
    unfold execList
    repeat (first | pres_core hR | exact ihL L _ _ ht h.2 | exact ihS L _ _ ht h.1)

theorem evalPrint_lock_step (t : String) (funcs : List Func) (fuel : Nat) (ih : AllLock t funcs fuel) (L : List String) (depth : Nat)
    (l : List Expr) (ht : t ∈ L) (hl : lockEs L l = true) : Pres (KeepLen t) (evalPrint funcs depth (fuel + 1) l) := by
  have hR := keepLen_rel t
  obtain ⟨ihE, -, -, -, -, -, ihP, -⟩ := ih
  cases l with
  | nil => unfold evalPrint; exact Pres.pure hR _
  | cons a as =>
    have h : lockE L a = true ∧ lockEs L as = true := by simpa [lockEs] using hl
    unfold evalPrint
    repeat (first | pres_core hR | exact ihE L _ _ ht h.1 | exact ihP L _ _ ht h.2 | exact Pres.modifySt (fun _ => keepLen_vars _ _ _ rfl))

theorem execIf_lock_step (t : String) (funcs : List Func) (fuel : Nat) (ih : AllLock t funcs fuel) (L : List String) (depth : Nat)
    (l : List (Option Expr × List Stmt)) (ht : t ∈ L) (hl : lockRules L l = true) : Pres (KeepLen t) (execIf funcs depth (fuel + 1) l) := by
  have hR := keepLen_rel t
  obtain ⟨ihE, -, -, -, ihL, -, -, ihI⟩ := ih
  cases l with
  | nil => unfold execIf; exact Pres.pure hR _
  | cons a as =>
    obtain ⟨c, b⟩ := a
    cases c with
    | none =>
      have h : lockL L b = true ∧ lockRules L as = true := by simpa [lockRules] using hl
      unfold execIf
      exact ihL L _ _ ht h.1
    | some x =>
      have h : (lockE L x = true ∧ lockL L b = true) ∧ lockRules L as = true := by simpa [lockRules] using hl
      unfold execIf
      repeat (first | pres_core hR | exact ihE L _ _ ht h.1.1 | exact ihL L _ _ ht h.1.2 | exact ihI L _ _ ht h.2)

theorem mem_forall_lock (L : List String) (t it : String) (src : Expr) (ht : t ∈ L) :
    t ∈ (match src with
      | .var t' => if L.contains t' then it :: t' :: L else t' :: L
      | _ => L) := by
  split
  · split <;> simp [ht]
  · exact ht

theorem forall_run_keep (t it : String) (hit : it ≠ t) (b : Iter) (s1 : St) (body : EvalM Flow) (hb : Pres (KeepLen t) body) (desc : Bool) (k : Nat) :
    KeepLen t s1 (forallExit it (forallLoop body it desc k { s1 with iters := b :: s1.iters })).2 := by
  have hR := keepLen_rel t
  refine hR.trans (keepLen_vars t s1 { s1 with iters := b :: s1.iters } rfl) ?_
  refine hR.trans ((forallLoop_pres' hR (fun _ _ => keepLen_vars _ _ _ rfl) body hb it desc k).h _) ?_
  unfold forallExit
  split
  · unfold KeepLen
    simp only []
    rw [lookup_setVar_ne _ _ _ _ hit]
  · exact hR.refl _

theorem exec_lock_step (t : String) (funcs : List Func) (fuel : Nat) (ih : AllLock t funcs fuel) (L : List String) (depth : Nat)
    (st : Stmt) (ht : t ∈ L) (hs : lockS L st = true) : Pres (KeepLen t) (exec funcs depth (fuel + 1) st) := by
  have hR := keepLen_rel t
  obtain ⟨ihE, -, -, ihB, ihL, -, ihP, ihI⟩ := ih
  unfold exec
  constructor
  intro s0
  split
  · exact hR.refl _
  · refine hR.trans (b := { s0 with budget := s0.budget - 1 }) (keepLen_vars _ _ _ rfl) ?_
    generalize ({ s0 with budget := s0.budget - 1 } : St) = s
    refine Pres.h (R := KeepLen t) ?_ s
    split
    · exact Pres.pure hR _
    · exact Pres.pure hR _
    · -- letS
      rename_i n e
      have h := hs; simp only [lockS, Bool.and_eq_true] at h
      have hn : n ≠ t := contains_ne L n t ht h.1
      refine pres_getSt_bind ?_
      intro s1
      cases hf : s1.iters.find? (·.it == n) with
      | none =>
        simp only []
        refine Pres.h (R := KeepLen t) ?_ s1
        repeat (first | pres_core hR | exact ihE L _ _ ht h.2 | exact Pres.modifySt (fun _ => keepLen_set_ne t n _ _ hn))
      | some b0 =>
        simp only []
        refine Pres.h (R := KeepLen t) ?_ s1
        refine Pres.ite _ (Pres.lift hR _) ?_
        apply Pres.bind hR (ihE L _ _ ht h.2); intro v
        refine pres_getSt_bind ?_
        intro s2
        cases hf2 : s2.iters.find? (·.it == n) with
        | none => exact hR.refl _
        | some b =>
          simp only [bind_app, liftM_app]
          cases hst : forallStep (s2.iterTable b) b.idx v with
          | ok tbl' =>
            simp only []
            cases hsrc : b.src with
            | some t' =>
              show KeepLen t s2 ({ s2 with vars := setVar s2.vars t' tbl' } : St)
              apply keepLen_set_same
              rw [forallStep_size _ _ _ _ hst]
              unfold St.iterTable; rw [hsrc]
            | none => exact keepLen_vars _ _ _ rfl
          | err c a => exact hR.refl _
          | haz x => exact hR.refl _
          | unmodelled => exact hR.refl _
    · have h := hs; simp only [lockS] at h
      repeat (first | pres_core hR | exact ihE L _ _ ht h)
    · have h := hs; simp only [lockS] at h
      repeat (first | pres_core hR | exact ihP L _ _ ht h | exact Pres.modifySt (fun _ => keepLen_vars _ _ _ rfl))
    · have h := hs; simp only [lockS] at h
      exact ihI L _ _ ht h
    · have h := hs; simp only [lockS, Bool.and_eq_true] at h
      exact whileLoop_pres hR _ _ (ihE L _ _ ht h.1) (ihL L _ _ ht h.2) _
    · -- forS
      rename_i v b e step dir body
      have h := hs; simp only [lockS, Bool.and_eq_true] at h
      obtain ⟨⟨⟨⟨hv, hb⟩, he⟩, hstep⟩, hbody⟩ := h
      have hvt : v ≠ t := contains_ne L v t ht hv
      have hset : ∀ (s : St) (x : Val), KeepLen t s { s with vars := setVar s.vars v x } := fun s x => keepLen_set_ne t v x s hvt
      cases step with
      | none =>
        repeat (first | pres_core hR | exact ihE L _ _ ht hb | exact ihE L _ _ ht he | exact Pres.modifySt (fun _ => hset _ _) | exact forLoop_pres' hR v hset _ _ _ _ (ihL L _ _ ht hbody) _)
      | some se =>
        have hse : lockE L se = true := by simpa using hstep
        repeat (first | pres_core hR | exact ihE L _ _ ht hb | exact ihE L _ _ ht he | exact ihE L _ _ ht hse | exact Pres.modifySt (fun _ => hset _ _) | exact forLoop_pres' hR v hset _ _ _ _ (ihL L _ _ ht hbody) _)
    · -- forallS
      rename_i it src dir body
      have h := hs; simp only [lockS, Bool.and_eq_true] at h
      obtain ⟨⟨hit, hsrc⟩, hbody⟩ := h
      have hitt : it ≠ t := contains_ne L it t ht hit
      have hbp := ihL _ depth body (mem_forall_lock L t it src ht) hbody
      apply Pres.bind hR (ihE L _ _ ht hsrc); intro tv
      split
      · exact Pres.pure hR _
      split
      · exact Pres.lift hR _
      refine Pres.ite _ (Pres.pure hR _) ?_
      apply Pres.bind hR (Pres.getSt hR); intro s
      refine Pres.ite _ (Pres.failE hR _ _) ?_
      split
      · refine Pres.ite _ (Pres.lift hR _) ?_
        exact ⟨fun s1 => forall_run_keep t it hitt _ s1 _ hbp _ _⟩
      · rename_i hx
        cases src <;> first
          | exact absurd rfl (hx _)
          | exact ⟨fun s1 => forall_run_keep t it hitt _ s1 _ hbp _ _⟩
    · have h := hs; simp only [lockS, Bool.and_eq_true] at h
      exact ihB L _ _ _ ht h.1 h.2
    · repeat (first | pres_core hR)
    · exact Pres.pure hR _
    · have h := hs; simp only [lockS] at h
      repeat (first | pres_core hR | exact ihE L _ _ ht h | exact Pres.modifySt (fun _ => keepLen_vars _ _ _ rfl))
    · exact Pres.pure hR _
    · exact Pres.pure hR _

/-- **The lock invariant**: code the parser accepts while table `t` is locked (`lockS`/`lockL`/`lockE` with `t ∈ L`) never changes the
number of elements of `t`, whatever it does and however it ends. -/
theorem lock_all (t : String) (funcs : List Func) : ∀ fuel, AllLock t funcs fuel := by
  have hR := keepLen_rel t
  intro fuel
  induction fuel with
  | zero =>
    refine ⟨?_, ?_, ?_, ?_, ?_, ?_, ?_, ?_⟩
    · intro L d e _ _; unfold eval; exact Pres.oof hR
    · intro L d n a _ _; unfold callFunc; exact Pres.oof hR
    · intro L d a _ _; unfold evalArgs; exact Pres.oof hR
    · intro L d b c _ _ _; unfold execBlock; exact Pres.oof hR
    · intro L d l _ _; unfold execList; exact Pres.oof hR
    · intro L d s _ _; unfold exec; exact Pres.oof hR
    · intro L d l _ _; unfold evalPrint; exact Pres.oof hR
    · intro L d l _ _; unfold execIf; exact Pres.oof hR
  | succ fuel ih =>
    exact ⟨eval_lock_step t funcs fuel ih, callFunc_lock_step t funcs fuel ih, evalArgs_lock_step t funcs fuel ih,
      execBlock_lock_step t funcs fuel ih, execList_lock_step t funcs fuel ih, exec_lock_step t funcs fuel ih,
      evalPrint_lock_step t funcs fuel ih, execIf_lock_step t funcs fuel ih⟩
end BlocV.Lemmas
