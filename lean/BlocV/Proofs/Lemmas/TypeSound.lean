/-
  Helpers for `C02.expr_type_sound_partial`: the expression fragment, the store invariant, the run-time trace of the recorded
  gap region, unfolding lemmas of `eval` on the fragment, and "evaluation on the fragment leaves the state alone and yields
  well-formed values".
-/
import BlocV.Proofs.Lemmas.OpsCases
import BlocV.Proofs.Lemmas.Interp

namespace BlocV.C02T
open BlocV BlocV.Lemmas

/-- The fragment: literals, variables, the 4 unary and all 20 binary operators (the lazy `and` / `or` included). -/
def opFrag : Expr → Bool
  | .lit _ => true
  | .var _ => true
  | .un _ a => opFrag a
  | .bin _ a b => opFrag a && opFrag b
  | _ => false

/-- every constant of the expression satisfies the representation invariant of `bloc::Value` -/
def litsWf : Expr → Bool
  | .lit v => v.wf
  | .un _ a => litsWf a
  | .bin _ a b => litsWf a && litsWf b
  | _ => true

/-- The store agrees with the symbol table the parser used: no `forall` running in this context (its iterator is a
pointer, not a variable), every variable holds a well-formed value, and a symbol with a defined type holds a value (or null)
of exactly that type. -/
structure StoreOk (tab : List (String × Ty)) (s : St) : Prop where
  noIter : s.iters = []
  wf : ∀ n, (lookupVar s.vars n).wf = true
  typed : ∀ n t, (tab.find? (·.1 == n)).map (·.2) = some t → t.defined = true → (lookupVar s.vars n).type = t

/-- `op_band.cpp`: the right operand is evaluated unless the left one is `false` (or of a wrong type) -/
def forcedBand (v1 : Val) : Bool :=
  match v1 with
  | .bool false => false
  | _ => v1.type.level == 0 && (v1.type.major == .none || v1.type.major == .bool)

def forcedBior (v1 : Val) : Bool :=
  match v1 with
  | .bool true => false
  | _ => v1.type.level == 0 && (v1.type.major == .none || v1.type.major == .bool)

def okVal (r : Res Val × St) : Option Val :=
  match r.1 with
  | .ok v => some v
  | _ => none

/-- Does the evaluation of `e` in `s` pass through the recorded gap region (`binTypeGap`, Proofs/C02.lean: `- * / ** %` on
operands whose run-time majors the static rule did not foresee) at some operator node it actually evaluates? The static types
are the ones `typeOfExpr` gives at the same depth. -/
def gapHit (funcs : List Func) (tab : List (String × Ty)) (depth : Nat) : Nat → Nat → Expr → St → Bool
  | fuel + 1, tf + 1, .un _ a, s => gapHit funcs tab depth fuel tf a s
  | fuel + 1, tf + 1, .bin op a b, s =>
    gapHit funcs tab depth fuel tf a s ||
    (match okVal (eval funcs depth fuel a s) with
     | none => false
     | some va =>
       if (op == .band && !forcedBand va) || (op == .bior && !forcedBior va) then false else
       gapHit funcs tab depth fuel tf b s ||
       (match okVal (eval funcs depth fuel b s) with
        | none => false
        | some vb =>
          binTypeGapM op (typeOfExpr funcs tab tf a).major (typeOfExpr funcs tab tf b).major va.type.major vb.type.major))
  | _, _, _, _ => false

/-! ## sequencing of applied computations -/

def andThen {α β} (r : Res α × St) (k : α → St → Res β × St) : Res β × St :=
  match r with
  | (.ok a, s') => k a s'
  | (.err c a, s') => (.err c a, s')
  | (.haz h, s') => (.haz h, s')
  | (.unmodelled, s') => (.unmodelled, s')

theorem bind_andThen {α β} (x : EvalM α) (f : α → EvalM β) (s : St) : (x >>= f) s = andThen (x s) (fun a s' => f a s') := rfl

theorem andThen_ok {α β} {r : Res α × St} {k : α → St → Res β × St} {v : β} {s' : St}
    (h : andThen r k = (.ok v, s')) : ∃ a s1, r = (.ok a, s1) ∧ k a s1 = (.ok v, s') := by
  obtain ⟨r1, s1⟩ := r
  cases r1 with
  | ok a => exact ⟨a, s1, rfl, h⟩
  | err c x => simp [andThen] at h
  | haz hz => simp [andThen] at h
  | unmodelled => simp [andThen] at h

/-! ## `eval` on the fragment -/

variable (funcs : List Func) (depth : Nat)

theorem eval_zero (e : Expr) (s : St) : eval funcs depth 0 e s = (.err oofCode [], s) := by
  simp only [eval]; rfl

theorem eval_var (fuel : Nat) (n : String) (s : St) : eval funcs depth (fuel + 1) (.var n) s = (readVar s n, s) := by
  simp only [eval, bind_app, getSt_app, liftM_app]

theorem eval_un (fuel : Nat) (op : UnOp) (a : Expr) (s : St) :
    eval funcs depth (fuel + 1) (.un op a) s = andThen (eval funcs depth fuel a s) (fun v s1 => (evalUn op v, s1)) := by
  simp only [eval, bind_andThen, liftM_app]

def sameVar : Expr → Expr → Bool
  | .var x, .var y => x == y
  | _, _ => false

theorem eval_bin (fuel : Nat) (op : BinOp) (h1 : op ≠ .band) (h2 : op ≠ .bior) (a b : Expr) (s : St) :
    eval funcs depth (fuel + 1) (.bin op a b) s =
      andThen (eval funcs depth fuel a s) (fun v1 s1 =>
        andThen (eval funcs depth fuel b s1) (fun v2 s2 => (evalBin op v1 v2 (sameVar a b), s2))) := by
  rw [eval.eq_def]
  cases op <;> first | contradiction | (simp only [bind_andThen, liftM_app]; rfl)

theorem eval_band (fuel : Nat) (a b : Expr) (s : St) :
    eval funcs depth (fuel + 1) (.bin .band a b) s =
      andThen (eval funcs depth fuel a s) (fun v1 s1 =>
        if forcedBand v1 then andThen (eval funcs depth fuel b s1) (fun v2 s2 => (evalBin .band v1 v2, s2))
        else (evalBin .band v1 (.null Ty.none), s1)) := by
  simp only [eval, bind_andThen, liftM_app]
  congr 1
  funext v1 s1
  rw [evalM_ite_app]
  rfl

theorem eval_bior (fuel : Nat) (a b : Expr) (s : St) :
    eval funcs depth (fuel + 1) (.bin .bior a b) s =
      andThen (eval funcs depth fuel a s) (fun v1 s1 =>
        if forcedBior v1 then andThen (eval funcs depth fuel b s1) (fun v2 s2 => (evalBin .bior v1 v2, s2))
        else (evalBin .bior v1 (.null Ty.none), s1)) := by
  simp only [eval, bind_andThen, liftM_app]
  congr 1
  funext v1 s1
  rw [evalM_ite_app]
  rfl

theorem null_none_wf : (Val.null Ty.none).wf = true := rfl

/-- On the fragment an evaluation that yields a value leaves the state exactly as it was, and the value is well formed. -/
theorem eval_frag_pure (tab : List (String × Ty)) : ∀ (fuel : Nat) (e : Expr) (s s' : St) (v : Val),
    opFrag e = true → litsWf e = true → StoreOk tab s → eval funcs depth fuel e s = (.ok v, s') → s' = s ∧ v.wf = true
  | 0, e, s, s', v, _, _, _, h => by rw [eval_zero] at h; cases h
  | fuel + 1, e, s, s', v, hfr, hl, hs, h => by
    have ih := eval_frag_pure tab fuel
    cases e
    case lit v0 =>
      rw [eval_lit] at h; cases h
      exact ⟨rfl, by simpa [litsWf] using hl⟩
    case var n =>
      rw [eval_var] at h
      have hr : readVar s n = .ok (lookupVar s.vars n) := by simp [readVar, hs.noIter]
      rw [hr] at h; cases h
      exact ⟨rfl, hs.wf n⟩
    case un op a =>
      rw [eval_un] at h
      obtain ⟨va, s1, ha, hk⟩ := andThen_ok h
      simp only [opFrag] at hfr
      simp only [litsWf] at hl
      obtain ⟨rfl, hwa⟩ := ih a s s1 va hfr hl hs ha
      simp only [Prod.mk.injEq] at hk
      obtain ⟨hv, rfl⟩ := hk
      refine ⟨rfl, ?_⟩
      rcases evalUn_prov op va v hv with rfl | hf
      · exact hwa
      · exact fresh_wf hf
    case bin op a b =>
      simp only [opFrag, Bool.and_eq_true] at hfr
      simp only [litsWf, Bool.and_eq_true] at hl
      by_cases hb : op = .band
      · subst hb
        rw [eval_band] at h
        obtain ⟨va, s1, ha, hk⟩ := andThen_ok h
        obtain ⟨rfl, hwa⟩ := ih a s s1 va hfr.1 hl.1 hs ha
        split at hk
        · obtain ⟨vb, s2, hb, hk2⟩ := andThen_ok hk
          obtain ⟨rfl, hwb⟩ := ih b s1 s2 vb hfr.2 hl.2 hs hb
          simp only [Prod.mk.injEq] at hk2
          obtain ⟨hv, rfl⟩ := hk2
          exact ⟨rfl, (evalBin_prov .band va vb false v hv).wf hwa hwb⟩
        · simp only [Prod.mk.injEq] at hk
          obtain ⟨hv, rfl⟩ := hk
          exact ⟨rfl, (evalBin_prov .band va _ false v hv).wf hwa null_none_wf⟩
      · by_cases ho : op = .bior
        · subst ho
          rw [eval_bior] at h
          obtain ⟨va, s1, ha, hk⟩ := andThen_ok h
          obtain ⟨rfl, hwa⟩ := ih a s s1 va hfr.1 hl.1 hs ha
          split at hk
          · obtain ⟨vb, s2, hb, hk2⟩ := andThen_ok hk
            obtain ⟨rfl, hwb⟩ := ih b s1 s2 vb hfr.2 hl.2 hs hb
            simp only [Prod.mk.injEq] at hk2
            obtain ⟨hv, rfl⟩ := hk2
            exact ⟨rfl, (evalBin_prov .bior va vb false v hv).wf hwa hwb⟩
          · simp only [Prod.mk.injEq] at hk
            obtain ⟨hv, rfl⟩ := hk
            exact ⟨rfl, (evalBin_prov .bior va _ false v hv).wf hwa null_none_wf⟩
        · rw [eval_bin funcs depth fuel op hb ho] at h
          obtain ⟨va, s1, ha, hk⟩ := andThen_ok h
          obtain ⟨rfl, hwa⟩ := ih a s s1 va hfr.1 hl.1 hs ha
          obtain ⟨vb, s2, hb', hk2⟩ := andThen_ok hk
          obtain ⟨rfl, hwb⟩ := ih b s1 s2 vb hfr.2 hl.2 hs hb'
          simp only [Prod.mk.injEq] at hk2
          obtain ⟨hv, rfl⟩ := hk2
          exact ⟨rfl, (evalBin_prov op va vb _ v hv).wf hwa hwb⟩
    all_goals simp [opFrag] at hfr

end BlocV.C02T
