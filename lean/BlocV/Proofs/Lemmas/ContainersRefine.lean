/-
  Helper lemmas for the refinement theorems of Proofs/C09.lean (Model = Spec on tables, strings, bytes, tuples),
  monotonicity of the uniformity predicate in the set of declarations in play.
-/
import BlocV.Proofs.Lemmas.Containers
import BlocV.Proofs.Lemmas.Float
import BlocV.Proofs.Lemmas.Int64

namespace BlocV.C09
open BlocV BlocV.Spec

/-! ### monotonicity of `uniformP` in `P` -/

mutual
  theorem uniformP_mono (P Q : List Ty → Bool) (h : ∀ d, P d = true → Q d = true) :
      ∀ v, uniformP P v = true → uniformP Q v = true
    | .tab t d es, hu => by
      rw [uniformP_tab] at hu ⊢
      simp only [Bool.and_eq_true, Bool.or_eq_true] at hu ⊢
      refine ⟨⟨hu.1.1, ?_⟩, uniformAll_mono P Q h _ es hu.2⟩
      rcases hu.1.2 with h1 | h1
      · exact Or.inl h1
      · exact Or.inr (h d h1)
    | .tup d items, hu => by
      rw [uniformP_tup] at hu ⊢
      simp only [Bool.and_eq_true] at hu ⊢
      exact ⟨⟨hu.1.1, h d hu.1.2⟩, hu.2⟩
    | .null _, _ => by simp
    | .bool _, _ => by simp
    | .int _, _ => by simp
    | .num _, _ => by simp
    | .imag _ _, _ => by simp
    | .str _, _ => by simp
    | .raw _, _ => by simp
    | .obj _ _, _ => by simp
  theorem uniformAll_mono (P Q : List Ty → Bool) (h : ∀ d, P d = true → Q d = true) :
      ∀ e vs, uniformAll P e vs = true → uniformAll Q e vs = true
    | _, [], _ => by simp
    | e, v :: vs, hu => by
      rw [uniformAll_cons] at hu ⊢
      simp only [Bool.and_eq_true] at hu ⊢
      exact ⟨⟨hu.1.1, uniformP_mono P Q h v hu.1.2⟩, uniformAll_mono P Q h e vs hu.2⟩
end

theorem uniformIn_uniform (P : List Ty → Bool) (v : Val) (h : UniformIn P v) : Uniform v :=
  uniformP_mono P (fun _ => true) (fun _ _ => rfl) v h

/-! ### decimal → integer: the model's bit-pattern test is the Spec's range test on the truncated value -/

open BlocV.Lemmas in
theorem intOfDecimal_trunc (b : UInt64) :
    Num.intOfDecimal b =
      (match Num.truncInt b with
       | some z => if -2 ^ 63 ≤ z ∧ z < 2 ^ 63 then .ok (Int64.ofInt z) else .err Gen.EXC_RT_OUT_OF_RANGE
       | none => .err Gen.EXC_RT_OUT_OF_RANGE) := by
  unfold Num.intOfDecimal
  by_cases hfin : Num.expo b = 2047
  · have e1 : decide (Num.expo b < 1086) = false := by simp [hfin]
    have e2 : (b == 0xc3e0000000000000) = false := by
      rw [eq_minTwo63_iff, ← expo_eq, hfin]; simp
    have e3 : Num.truncInt b = none := by unfold Num.truncInt; simp [hfin]
    simp only [e1, e2, e3]
    cases Num.sign b <;> cases Num.isNaN b <;> rfl
  · have hn : Num.isNaN b = false := by simp [Num.isNaN, hfin]
    have hc : ((!Num.sign b || decide (Num.expo b < 1086) || b == 0xc3e0000000000000) &&
          (Num.sign b || decide (Num.expo b < 1086))) = decide (Spec.F64.inIntRange b.toNat) := by
      rw [eq_minTwo63_iff, Bool.decide_and, ← sign_eq, range_bool, sign_eq, ← Bool.decide_and, ← Bool.decide_or,
        expo_eq]
      exact (decide_eq_decide.mpr (inIntRange_iff b.toNat)).symm
    simp only [hn, Bool.not_false, Bool.true_and, hc, truncInt_eq b hfin]
    by_cases hr : Spec.F64.inIntRange b.toNat
    · have hb := trunc_bounds b.toNat hr
      simp only [hr, decide_true, Bool.not_true, Bool.false_eq_true, if_false]
      rw [if_pos hb]
    · have hb := trunc_out b.toNat hr
      simp only [hr, decide_false, Bool.not_false, if_true]
      rw [if_neg hb]

/-! ### exact types and implementation types -/

theorem etyOf_major (a : Val) : (etyOf a).major = a.type.major := by
  cases a <;> simp only [etyOf, Val.type] <;> (unfold mkETy; split <;> simp_all [makeTupleTy_major])

theorem etyOf_level (a : Val) : (etyOf a).level = a.type.level := by
  cases a <;> simp only [etyOf, Val.type] <;> (unfold mkETy; split <;> simp_all [makeTupleTy_level])

theorem elemETy_major (t : Ty) (d : List Ty) : (elemETy t d).major = t.major := by
  unfold elemETy mkETy; split <;> simp_all

theorem elemETy_level (t : Ty) (d : List Ty) : (elemETy t d).level = t.level - 1 := by
  unfold elemETy mkETy; split <;> simp_all

theorem makeTupleTy_levelDown (d : List Ty) (L : Nat) : (makeTupleTy d L).levelDown = makeTupleTy d (L - 1) := by
  unfold makeTupleTy; split <;> rfl

theorem Ty.ext' (a b : Ty) (h1 : a.major = b.major) (h2 : a.minor = b.minor) (h3 : a.level = b.level) : a = b := by
  cases a; cases b; simp_all

/-- converse of `ety_of_type_eq`: a uniform value with canonical minor that has the Spec's element type has the
implementation's element type, and is not a null tuple -/
theorem type_of_ety_eq (P) (t d) (hh : headerOk t d = true) (hct : canonTy t = true)
    (a : Val) (ha : uniformP P a = true) (hca : canonTy a.type = true)
    (he : etyOf a = elemETy t d) : a.type = t.levelDown ∧ (a.type.major = .tup → a.isNull = false) := by
  have hh' := (headerOk_iff t d).1 hh
  obtain ⟨hl1, hl2, hnone, hc⟩ := hh'
  simp only [canonTy, beq_iff_eq] at hct hca
  rcases hc with ⟨htm, hd, hte⟩ | ⟨hnt, hd⟩
  · -- table of tuples
    have hE : elemETy t d = ⟨.tup, 0, d, t.level - 1⟩ := by unfold elemETy; exact mkETy_tup t d _ htm hd
    rw [hE] at he
    cases a with
    | tup ad items =>
      rw [uniformP_tup] at ha
      simp at ha
      have had : ad ≠ [] := ha.1.1.1
      have : etyOf (.tup ad items) = mkETy (makeTupleTy ad 0) ad 0 := rfl
      rw [this, mkETy_tup _ ad 0 (makeTupleTy_major ad 0) had] at he
      injection he with _ _ h3 h4
      subst h3
      refine ⟨?_, fun _ => rfl⟩
      show makeTupleTy ad 0 = t.levelDown
      calc makeTupleTy ad 0 = makeTupleTy ad (t.level - 1) := by rw [← h4]
        _ = t.levelDown := by rw [← makeTupleTy_levelDown, ← hte]
    | tab at_ ad es =>
      have hha := (tab_parts P at_ ad es ha).1
      have hha' := (headerOk_iff at_ ad).1 hha
      have : etyOf (.tab at_ ad es) = mkETy at_ ad at_.level := rfl
      rw [this] at he
      rcases hha'.2.2.2 with ⟨h1, h2, h3⟩ | ⟨h1, h2⟩
      · rw [mkETy_tup at_ ad _ h1 h2] at he
        injection he with _ _ h5 h6
        subst h5
        refine ⟨?_, fun _ => rfl⟩
        show at_ = t.levelDown
        calc at_ = makeTupleTy ad at_.level := h3
          _ = makeTupleTy ad (t.level - 1) := by rw [h6]
          _ = t.levelDown := by rw [← makeTupleTy_levelDown, ← hte]
      · rw [mkETy_nontup at_ ad _ h1] at he
        injection he with h5
        exact absurd h5 h1
    | null ty =>
      have : etyOf (.null ty) = mkETy ty [] ty.level := rfl
      rw [this, mkETy_nil] at he
      injection he with _ _ h5
      exact absurd h5.symm hd
    | bool b => exact absurd (congrArg ETy.decl he).symm (by simpa [etyOf, mkETy_nil] using hd)
    | int b => exact absurd (congrArg ETy.decl he).symm (by simpa [etyOf, mkETy_nil] using hd)
    | num b => exact absurd (congrArg ETy.decl he).symm (by simpa [etyOf, mkETy_nil] using hd)
    | imag b c => exact absurd (congrArg ETy.decl he).symm (by simpa [etyOf, mkETy_nil] using hd)
    | str b => exact absurd (congrArg ETy.decl he).symm (by simpa [etyOf, mkETy_nil] using hd)
    | raw b => exact absurd (congrArg ETy.decl he).symm (by simpa [etyOf, mkETy_nil] using hd)
    | obj b c => exact absurd (congrArg ETy.decl he).symm (by simpa [etyOf, mkETy_nil] using hd)
  · obtain ⟨h1, h2, h3⟩ := type_of_ety P a t d hnt he ha
    refine ⟨?_, ?_⟩
    · apply Ty.ext'
      · simpa [Ty.levelDown] using h1
      · rw [hca, h2, ← hct]; rfl
      · simpa [Ty.levelDown] using h3
    · intro hc; rw [h1] at hc; exact absurd hc hnt

/-! ### unfolding `classify` and `fit` -/

theorem classify_tab (k t at_ ad vs nullTy) (hl : at_.level > 0) :
    classify k t (.tab at_ ad vs) nullTy =
      if k != .put && at_ == t then .ok (.many vs)
      else if at_ == t.levelDown then .ok (.one (.tab at_ ad vs)) else .ok .mismatch := by
  unfold classify
  simp only [Val.type, hl, ↓reduceIte]

theorem classify_nulltab (k t ty nullTy) (hl : ty.level > 0) :
    classify k t (.null ty) nullTy = .ok (if k == .put then .mismatch else .nothing) := by
  unfold classify
  simp only [Val.type, hl, ↓reduceIte]

theorem classify_same (k t a nullTy) (hl : a.type.level = 0) (hm : a.type.major = t.major) (hnt : t.major ≠ .tup) :
    classify k t a nullTy = if a.type == t.levelDown then .ok (.one a) else .ok .mismatch := by
  unfold classify
  have h0 : ¬ a.type.level > 0 := by omega
  have h1 : (a.type.major == t.major) = true := by simpa using hm
  have h2 : (a.type.major == Major.tup) = false := by rw [hm]; simpa using hnt
  simp only [h0, ↓reduceIte, h1, h2, Bool.false_eq_true]

theorem classify_sametup (k t a nullTy) (hl : a.type.level = 0) (hm : a.type.major = t.major) (ht : t.major = .tup) :
    classify k t a nullTy =
      if a.isNull then .ok (if k == .put then .mismatch else .nothing)
      else if a.type == t.levelDown then .ok (.one a) else .ok .mismatch := by
  unfold classify
  have h0 : ¬ a.type.level > 0 := by omega
  have h1 : (a.type.major == t.major) = true := by simpa using hm
  have h2 : (a.type.major == Major.tup) = true := by rw [hm]; simpa using ht
  simp only [h0, ↓reduceIte, h1, h2]

theorem classify_mix (k t a nullTy) (hl : a.type.level = 0) (hm : a.type.major ≠ t.major) :
    classify k t a nullTy = mixElem t a nullTy := by
  unfold classify
  have h0 : ¬ a.type.level > 0 := by omega
  have h1 : (a.type.major == t.major) = false := by simpa using hm
  simp only [h0, ↓reduceIte, h1, Bool.false_eq_true]

theorem fit_exact (e : ETy) (a : Val) (h : etyOf a = e) : fit e a = .exact a := by
  unfold fit; simp [h]

theorem levelDown_ne (t : Ty) (h : 1 ≤ t.level) : t.levelDown ≠ t := by
  intro e
  have := congrArg Ty.level e
  simp [Ty.levelDown] at this
  omega

/-- what the Spec's `fit` says about the model's classification of an element argument (which is not a table of the
receiver's own type: that is the splice case of insert / concat) -/
def SlotRel (k : Kind) (ign : Bool) (f : Fit) (r : Res Slot) : Prop :=
  match f with
  | .exact v => r = .ok (if ign then (if k == .put then .mismatch else .nothing) else .one v)
  | .conv v => ign = false ∧ r = .ok (.one v)
  | .bad => ign = false ∧ ∃ c x, r = .err c x
  | .no => r = .ok .mismatch ∨ (ign = true ∧ r = .ok (if k == .put then .mismatch else .nothing))

theorem fit_ne (e : ETy) (a : Val) (h : etyOf a ≠ e) (hu : isUntypedNull a = false)
    (hno : ∀ d, a = .num d → ¬(e.level = 0 ∧ e.major = .int)) (hni : ∀ i, a = .int i → ¬(e.level = 0 ∧ e.major = .num))
    (hnull : ∀ ty, a = .null ty → ¬(e.level = 0 ∧ e.major = .int ∧ ty.major = .num ∧ ty.level = 0) ∧
       ¬(e.level = 0 ∧ e.major = .num ∧ ty.major = .int ∧ ty.level = 0)) : fit e a = .no := by
  unfold fit
  have h' : (etyOf a == e) = false := by simpa using h
  simp only [h', Bool.false_eq_true, ↓reduceIte, hu]
  cases a with
  | num x =>
    have := hno x rfl
    by_cases h1 : e.level = 0 <;> by_cases h2 : e.major = .int <;> simp_all
  | int x =>
    have := hni x rfl
    by_cases h1 : e.level = 0 <;> by_cases h2 : e.major = .num <;> simp_all
  | null ty =>
    have := hnull ty rfl
    by_cases h1 : e.level = 0 <;> by_cases h2 : e.major = .int <;> by_cases h3 : e.major = .num <;>
      by_cases h4 : ty.level = 0 <;> by_cases h5 : ty.major = .num <;> by_cases h6 : ty.major = .int <;>
      simp_all
  | _ => split <;> (try rfl) <;> split <;> rfl

theorem mixElem_mismatch (t : Ty) (a : Val) (nullTy : Ty) (hnn : a.type.major ≠ .none)
    (hin : ¬(t.major = .int ∧ a.type.major = .num)) (hni : ¬(t.major = .num ∧ a.type.major = .int)) :
    mixElem t a nullTy = .ok .mismatch := by
  unfold mixElem
  cases htm : t.major <;> simp_all

theorem tab_level_pos (P at_ ad vs) (ha : uniformP P (.tab at_ ad vs) = true) : at_.level > 0 := by
  have := (headerOk_iff at_ ad).1 (tab_parts P at_ ad vs ha).1
  omega

theorem tyOfETy_elem_nontup (t : Ty) (d : List Ty) (hnt : t.major ≠ .tup) :
    tyOfETy (elemETy t d) = { major := t.major, minor := normMinor t, level := t.level - 1 } := by
  unfold elemETy; rw [mkETy_nontup t d _ hnt]; rfl

/-- **the model's classification of an element argument is the Spec's `fit`** (outside the level-mixing region, with
declarations hashing injectively, canonical minors) -/
theorem classify_fit (P) (hinj : Inj P) (k : Kind) (t : Ty) (d : List Ty) (a : Val) (nullTy : Ty)
    (hh : headerOk t d = true) (hp : t.major = .tup → P d = true) (hct : canonTy t = true)
    (ha : uniformP P a = true) (hca : canonTy a.type = true) (hl : KF.levelBug t a = false)
    (hn : t.major ≠ .tup → nullTy = tyOfETy (elemETy t d))
    (hsame : ∀ ad vs, a = .tab t ad vs → k = .put) :
    SlotRel k (ignoredNull a) (fit (elemETy t d) a) (classify k t a nullTy) := by
  have hh' := (headerOk_iff t d).1 hh
  obtain ⟨hl1, hl2, hnone, hc⟩ := hh'
  have hB1 := type_of_ety_eq P t d hh hct a ha hca
  have hB2 := ety_of_type_eq P hinj t d hh hp a ha
  by_cases hlev : a.type.level > 0
  · cases a with
    | tab at_ ad vs =>
      have hign : ignoredNull (.tab at_ ad vs) = false := rfl
      rw [hign, classify_tab k t at_ ad vs nullTy hlev]
      have hs : (k != .put && at_ == t) = false := by
        by_cases e : at_ = t
        · subst e; rw [hsame ad vs rfl]; rfl
        · simp [e]
      rw [hs]
      by_cases heq : at_ = t.levelDown
      · have hety := hB2 (fun _ => rfl) heq
        rw [fit_exact _ _ hety]
        simp [SlotRel, heq]
      · have hety : etyOf (.tab at_ ad vs) ≠ elemETy t d := fun e => heq (hB1 e).1
        rw [fit_ne _ _ hety rfl (fun _ h => by simp at h) (fun _ h => by simp at h) (fun _ h => by simp at h)]
        simp [SlotRel, heq]
    | null ty =>
      have hlev' : ty.level > 0 := hlev
      have hign : ignoredNull (.null ty) = true := by simp [ignoredNull, hlev']
      rw [hign, classify_nulltab k t ty nullTy hlev']
      by_cases hety : etyOf (.null ty) = elemETy t d
      · rw [fit_exact _ _ hety]; simp [SlotRel]
      · have hu : isUntypedNull (.null ty) = false := by
          simp only [isUntypedNull, Bool.and_eq_false_iff, beq_eq_false_iff_ne]; right; omega
        rw [fit_ne _ _ hety hu (fun _ h => by simp at h) (fun _ h => by simp at h) (fun ty' h => by
          simp at h; subst h; exact ⟨fun h => by omega, fun h => by omega⟩)]
        simp [SlotRel]
    | tup ad items => simp [Val.type, makeTupleTy_level] at hlev
    | _ => simp [Val.type, Ty.bool, Ty.int, Ty.num, Ty.imag, Ty.str, Ty.raw] at hlev
  · have hlev0 : a.type.level = 0 := by omega
    have hnotab : ∀ at_ ad vs, a ≠ .tab at_ ad vs := by
      intro at_ ad vs e; subst e
      have := tab_level_pos P at_ ad vs ha
      exact hlev this
    by_cases hm : a.type.major = t.major
    · by_cases htup : t.major = .tup
      · rw [classify_sametup k t a nullTy hlev0 hm htup]
        cases a with
        | null ty =>
          have hign : ignoredNull (.null ty) = true := by
            have : ty.major = .tup := by rw [← htup]; exact hm
            simp [ignoredNull, this]
          have hety : etyOf (.null ty) ≠ elemETy t d := by
            intro e; have := (hB1 e).2 (by rw [← htup]; exact hm); simp [Val.isNull] at this
          have hu : isUntypedNull (.null ty) = false := by
            have : ty.major = .tup := by rw [← htup]; exact hm
            simp [isUntypedNull, this]
          rw [hign, fit_ne _ _ hety hu (fun _ h => by simp at h) (fun _ h => by simp at h) (fun ty' h => by
            simp at h; subst h
            rw [elemETy_major, htup]; simp)]
          simp [SlotRel, Val.isNull]
        | tup ad items =>
          have hign : ignoredNull (.tup ad items) = false := rfl
          rw [hign]
          by_cases heq : (Val.tup ad items).type = t.levelDown
          · have hety := hB2 (fun _ => rfl) heq
            rw [fit_exact _ _ hety]
            simp [SlotRel, heq, Val.isNull]
          · have hety : etyOf (.tup ad items) ≠ elemETy t d := fun e => heq (hB1 e).1
            rw [fit_ne _ _ hety rfl (fun _ h => by simp at h) (fun _ h => by simp at h) (fun _ h => by simp at h)]
            simp [SlotRel, heq, Val.isNull]
        | tab at_ ad vs => exact absurd rfl (hnotab at_ ad vs)
        | _ => rw [htup] at hm; simp [Val.type, Ty.bool, Ty.int, Ty.num, Ty.imag, Ty.str, Ty.raw] at hm
      · rw [classify_same k t a nullTy hlev0 hm htup]
        have hign : ignoredNull a = false := by
          cases a with
          | null ty =>
            have h1 : ty.major ≠ .tup := by intro e; apply htup; rw [← hm]; exact e
            have h2 : ty.level = 0 := hlev0
            simp [ignoredNull, h1, h2]
          | _ => rfl
        rw [hign]
        by_cases heq : a.type = t.levelDown
        · have hety := hB2 (fun h => by rw [hm] at h; exact absurd h htup) heq
          rw [fit_exact _ _ hety]
          simp [SlotRel, heq]
        · have hety : etyOf a ≠ elemETy t d := fun e => heq (hB1 e).1
          have hu : isUntypedNull a = false := by
            cases a with
            | null ty =>
              have : ty.major ≠ .none := by intro e; apply hnone; rw [← hm]; exact e
              simp [isUntypedNull, this]
            | _ => rfl
          have hfit : fit (elemETy t d) a = .no := by
            unfold fit
            have h' : (etyOf a == elemETy t d) = false := by simpa using hety
            simp only [h', Bool.false_eq_true, ↓reduceIte, hu, elemETy_major, elemETy_level]
            cases a with
            | null ty =>
              have hm' : ty.major = t.major := hm
              by_cases h2 : t.major = .int <;> by_cases h3 : t.major = .num <;> simp_all
            | num x =>
              have hm' : Major.num = t.major := hm
              simp [← hm']
            | int x =>
              have hm' : Major.int = t.major := hm
              simp [← hm']
            | _ => split <;> (try rfl) <;> split <;> rfl
          rw [hfit]
          simp [SlotRel, heq]
    · rw [classify_mix k t a nullTy hlev0 hm]
      have hety : etyOf a ≠ elemETy t d := by
        intro e; apply hm; rw [← etyOf_major, e, elemETy_major]
      by_cases hnn : a.type.major = .none
      · cases a with
        | null ty =>
          have h1 : ty.major = .none := hnn
          have h2 : ty.level = 0 := hlev0
          have hign : ignoredNull (.null ty) = false := by simp [ignoredNull, h1, h2]
          have hfit : fit (elemETy t d) (.null ty) =
              if t.major == .tup then .no else .exact (.null (tyOfETy (elemETy t d))) := by
            unfold fit
            have h' : (etyOf (.null ty) == elemETy t d) = false := by simpa using hety
            simp [h', isUntypedNull, h1, h2, elemETy_major]
          rw [hign, hfit]
          by_cases htup : t.major = .tup
          · simp [htup, SlotRel, mixElem]
          · have hnull := hn htup
            rw [tyOfETy_elem_nontup t d htup] at hnull ⊢
            have hlb : t.major = .int ∨ t.major = .num → t.level - 1 = 0 := by
              intro h
              unfold KF.levelBug at hl
              rcases h with h | h <;> simp [h, Val.type, h1, h2] at hl <;> omega
            simp only [htup, beq_iff_eq, ↓reduceIte, SlotRel, Bool.false_eq_true]
            unfold mixElem
            cases htm : t.major with
            | int =>
              have := hlb (Or.inl htm)
              simp [Val.type, h1, normMinor, htm, this, Ty.int]
            | num =>
              have := hlb (Or.inr htm)
              simp [Val.type, h1, normMinor, htm, this, Ty.num]
            | tup => exact absurd htm htup
            | _ => simp [Val.type, h1, hnull, htm]
        | tup ad items => simp [Val.type, makeTupleTy_major] at hnn
        | tab at_ ad vs => exact absurd rfl (hnotab at_ ad vs)
        | _ => simp [Val.type, Ty.bool, Ty.int, Ty.num, Ty.imag, Ty.str, Ty.raw] at hnn
      · have hu : isUntypedNull a = false := by
          cases a with
          | null ty => have : ty.major ≠ .none := hnn; simp [isUntypedNull, this]
          | _ => rfl
        have hlb : (t.major = .int ∧ a.type.major = .num) ∨ (t.major = .num ∧ a.type.major = .int) → t.level - 1 = 0 := by
          intro h
          unfold KF.levelBug at hl
          rcases h with ⟨h, h'⟩ | ⟨h, h'⟩ <;> simp [h, h', hlev0] at hl <;> omega
        by_cases hin : t.major = .int ∧ a.type.major = .num
        · have hl0 := hlb (Or.inl hin)
          cases a with
          | num x =>
            have hign : ignoredNull (.num x) = false := rfl
            have hfit : fit (elemETy t d) (.num x) =
                (match Num.truncInt x with
                 | some z => if -2 ^ 63 ≤ z ∧ z < 2 ^ 63 then .conv (.int (Int64.ofInt z)) else .bad
                 | none => .bad) := by
              unfold fit
              have h' : (etyOf (.num x) == elemETy t d) = false := by simpa using hety
              simp [h', isUntypedNull, elemETy_major, elemETy_level, hl0, hin.1]
              try rfl
            have hmx : mixElem t (.num x) nullTy =
                (match Num.intOfDecimal x with
                 | .ok i => .ok (.one (.int i))
                 | .err c y => .err c y
                 | .haz h => .haz h
                 | .unmodelled => .unmodelled) := by
              unfold mixElem
              simp [hin.1, Val.type, Ty.num, Val.isNull, Val.asNum]
              try rfl
            rw [hign, hfit, hmx, intOfDecimal_trunc]
            cases Num.truncInt x with
            | none => simp [SlotRel]
            | some z =>
              by_cases hr : -2 ^ 63 ≤ z ∧ z < 2 ^ 63
              · simp only [hr, and_self, ↓reduceIte, SlotRel]
              · simp only [hr, ↓reduceIte, SlotRel]; exact ⟨trivial, _, _, rfl⟩
          | null ty =>
            have h1 : ty.major = .num := hin.2
            have h2 : ty.level = 0 := hlev0
            have hign : ignoredNull (.null ty) = false := by simp [ignoredNull, h1, h2]
            have hfit : fit (elemETy t d) (.null ty) = .conv (.null Ty.int) := by
              unfold fit
              have h' : (etyOf (.null ty) == elemETy t d) = false := by simpa using hety
              simp [h', isUntypedNull, elemETy_major, elemETy_level, hl0, hin.1, h1, h2]
            rw [hign, hfit]
            unfold mixElem
            simp [hin.1, Val.type, h1, Val.isNull, SlotRel]
          | tup ad items => have := hin.2; simp [Val.type, makeTupleTy_major] at this
          | tab at_ ad vs => exact absurd rfl (hnotab at_ ad vs)
          | _ => have := hin.2; simp [Val.type, Ty.bool, Ty.int, Ty.num, Ty.imag, Ty.str, Ty.raw] at this
        · by_cases hni : t.major = .num ∧ a.type.major = .int
          · have hl0 := hlb (Or.inr hni)
            cases a with
            | int x =>
              have hign : ignoredNull (.int x) = false := rfl
              have hfit : fit (elemETy t d) (.int x) = .conv (.num (Num.bits x.toFloat)) := by
                unfold fit
                have h' : (etyOf (.int x) == elemETy t d) = false := by simpa using hety
                simp [h', isUntypedNull, elemETy_major, elemETy_level, hl0, hni.1]
              rw [hign, hfit]
              unfold mixElem
              simp only [hni.1, Val.type, Ty.int, Val.isNull, Val.asInt, SlotRel, beq_self_eq_true, ↓reduceIte,
                bne_self_eq_false, Bool.false_eq_true, Bool.or_self, and_self]
            | null ty =>
              have h1 : ty.major = .int := hni.2
              have h2 : ty.level = 0 := hlev0
              have hign : ignoredNull (.null ty) = false := by simp [ignoredNull, h1, h2]
              have hfit : fit (elemETy t d) (.null ty) = .conv (.null Ty.num) := by
                unfold fit
                have h' : (etyOf (.null ty) == elemETy t d) = false := by simpa using hety
                simp [h', isUntypedNull, elemETy_major, elemETy_level, hl0, hni.1, h1, h2]
              rw [hign, hfit]
              unfold mixElem
              simp [hni.1, Val.type, h1, Val.isNull, SlotRel]
            | tup ad items => have := hni.2; simp [Val.type, makeTupleTy_major] at this
            | tab at_ ad vs => exact absurd rfl (hnotab at_ ad vs)
            | _ => have := hni.2; simp [Val.type, Ty.bool, Ty.int, Ty.num, Ty.imag, Ty.str, Ty.raw] at this
          · have hmx : mixElem t a nullTy = .ok .mismatch := mixElem_mismatch t a nullTy hnn hin hni
            have hfit : fit (elemETy t d) a = .no := by
              apply fit_ne _ _ hety hu
              · intro x e; subst e
                rw [elemETy_major]
                intro h; exact hin ⟨h.2, rfl⟩
              · intro x e; subst e
                rw [elemETy_major]
                intro h; exact hni ⟨h.2, rfl⟩
              · intro ty e; subst e
                rw [elemETy_major]
                exact ⟨fun h => hin ⟨h.2.1, h.2.2.1⟩, fun h => hni ⟨h.2.1, h.2.2.1⟩⟩
            rw [hmx, hfit]
            exact Or.inl rfl

/-! ### the methods on a table receiver at an in-range integer position -/

theorem pos_ok (p : Val) (n i : Nat) (h : Spec.pos p n = .ok i) :
    ∃ pi, p = .int pi ∧ 0 ≤ pi.toInt ∧ pi.toInt < (n : Int) ∧ i = pi.toInt.toNat := by
  cases p with
  | int pi =>
    simp only [Spec.pos] at h
    split at h
    · rename_i hr
      simp at h
      exact ⟨pi, rfl, hr.1, hr.2, h.symm⟩
    · simp at h
  | _ => simp [Spec.pos] at h

theorem mPut_tab_ok (t d es) (pi : Int64) (x : Val) (c : Bool) (old : Val)
    (h0 : 0 ≤ pi.toInt) (h1 : pi.toInt < (es.length : Int)) (hold : es[pi.toInt.toNat]? = some old) :
    mPut (.tab t d es) (.int pi) x c =
      (match classify .put t x old.type with
        | .ok (.one v) => .ok (Val.tab t d (listPut es pi.toInt.toNat v), Val.tab t d (listPut es pi.toInt.toNat v))
        | .ok _ => tyMismatch
        | .err c x => .err c x
        | .haz h => .haz h
        | .unmodelled => .unmodelled) := by
  have hp : inRange pi es.length = true := by simp [inRange, h0, h1]
  unfold mPut
  simp only [Val.isNull, Bool.or_self, Bool.false_eq_true, ↓reduceIte]
  have e : (Val.int pi).asInt = .ok pi := rfl
  rw [e]
  simp only [hp, Bool.not_true, Bool.false_eq_true, ↓reduceIte, idxOf, hold]
  rfl

theorem mInsert_tab_ok (t d es) (pi : Int64) (x : Val) (c : Bool)
    (h0 : 0 ≤ pi.toInt) (h1 : pi.toInt < ((es.length + 1 : Nat) : Int)) :
    mInsert (.tab t d es) (.int pi) x c =
      (match classify .insert t x t.levelDown with
        | .ok (.one v) => .ok (Val.tab t d (listIns es pi.toInt.toNat [v]), Val.tab t d (listIns es pi.toInt.toNat [v]))
        | .ok (.many vs) => .ok (Val.tab t d (listIns es pi.toInt.toNat vs.reverse), Val.tab t d (listIns es pi.toInt.toNat vs.reverse))
        | .ok .nothing => .ok (Val.tab t d es, Val.tab t d es)
        | .ok .mismatch => tyMismatch
        | .err c x => .err c x
        | .haz h => .haz h
        | .unmodelled => .unmodelled) := by
  have hp : inRangeIns pi es.length = true := by
    simp only [inRangeIns, decide_eq_true_eq]; push_cast at h1; omega
  unfold mInsert
  simp only [Val.isNull, Bool.or_self, Bool.false_eq_true, ↓reduceIte]
  have e : (Val.int pi).asInt = .ok pi := rfl
  rw [e]
  simp only [hp, Bool.not_true, Bool.false_eq_true, ↓reduceIte, idxOf]
  rfl

theorem mConcat_tab (t d es) (x : Val) (c : Bool) (hl : t.level > 0) :
    mConcat (.tab t d es) x c =
      (match classify .concat t x t.levelDown with
        | .ok (.one v) => .ok (Val.tab t d (es ++ [v]), Val.tab t d (es ++ [v]))
        | .ok (.many vs) => .ok (Val.tab t d (es ++ vs), Val.tab t d (es ++ vs))
        | .ok .nothing => .ok (Val.tab t d es, Val.tab t d es)
        | .ok .mismatch => tyMismatch
        | .err c x => .err c x
        | .haz h => .haz h
        | .unmodelled => .unmodelled) := by
  unfold mConcat
  have : (Val.tab t d es).type.level > 0 := hl
  simp only [this, ↓reduceIte]
  rfl

/-- a table argument has the receiver's exact type iff it has the receiver's implementation type -/
theorem etyOf_tab_same (P) (hinj : Inj P) (t d es at_ ad vs)
    (hx : uniformP P (.tab t d es) = true) (ha : uniformP P (.tab at_ ad vs) = true)
    (hct : canonTy t = true) (hca : canonTy at_ = true) :
    etyOf (.tab at_ ad vs) = etyOf (.tab t d es) ↔ at_ = t := by
  obtain ⟨hh, hp, _⟩ := tab_parts P t d es hx
  obtain ⟨hha, hpa, _⟩ := tab_parts P at_ ad vs ha
  have e1 : etyOf (.tab at_ ad vs) = mkETy at_ ad at_.level := rfl
  have e2 : etyOf (.tab t d es) = mkETy t d t.level := rfl
  rw [e1, e2]
  constructor
  · intro he
    have h1 := (headerOk_iff t d).1 hh
    have h2 := (headerOk_iff at_ ad).1 hha
    simp only [canonTy, beq_iff_eq] at hct hca
    rcases h1.2.2.2 with ⟨a1, a2, a3⟩ | ⟨a1, a2⟩
    · rw [mkETy_tup t d _ a1 a2] at he
      rcases h2.2.2.2 with ⟨b1, b2, b3⟩ | ⟨b1, b2⟩
      · rw [mkETy_tup at_ ad _ b1 b2] at he
        injection he with _ _ h5 h6
        calc at_ = makeTupleTy ad at_.level := b3
          _ = makeTupleTy d t.level := by rw [h5, h6]
          _ = t := a3.symm
      · rw [mkETy_nontup at_ ad _ b1] at he
        injection he with h5
        exact absurd h5 b1
    · rw [mkETy_nontup t d _ a1] at he
      rcases h2.2.2.2 with ⟨b1, b2, b3⟩ | ⟨b1, b2⟩
      · rw [mkETy_tup at_ ad _ b1 b2] at he
        injection he with h5
        exact absurd h5.symm a1
      · rw [mkETy_nontup at_ ad _ b1] at he
        injection he with h5 h6 _ h8
        exact Ty.ext' _ _ h5 (by rw [hca, h6, ← hct]) h8
  · intro e
    subst e
    exact mkETy_congr P hinj at_ d at_ ad _ hh hha hp hpa rfl rfl

theorem fit_tab (e : ETy) (at_ ad vs) : fit e (.tab at_ ad vs) = .exact (.tab at_ ad vs) ∨ fit e (.tab at_ ad vs) = .no := by
  unfold fit
  by_cases h : etyOf (.tab at_ ad vs) = e
  · left; simp [h]
  · right
    have h' : (etyOf (.tab at_ ad vs) == e) = false := by simpa using h
    simp only [h', Bool.false_eq_true, ↓reduceIte, isUntypedNull]
    split <;> (try rfl) <;> split <;> rfl

/-- `addOf` when the argument is not a table of the receiver's own type -/
theorem addOf_nonsplice (recv : Val) (t : Ty) (d : List Ty) (x : Val)
    (h : ∀ at_ ad vs, x = .tab at_ ad vs → etyOf x ≠ etyOf recv) :
    addOf recv t d x =
      if ignoredNull x then .nothing else
      match fit (elemETy t d) x with
      | .exact v => .elems [v] true
      | .conv v => .elems [v] false
      | .bad => .reject .any
      | .no => .reject .type := by
  unfold addOf
  split
  · rfl
  · cases x with
    | tab at_ ad vs =>
      have := h at_ ad vs rfl
      have h' : (etyOf (.tab at_ ad vs) == etyOf recv) = false := by simpa using this
      simp only [h', Bool.false_eq_true, ↓reduceIte]
      rcases fit_tab (elemETy t d) at_ ad vs with e | e <;> rw [e]
    | _ => rfl

/-- what the Spec's `addOf` (insert / concat) says about the model's classification -/
def AddRel (a : Add) (r : Res Slot) : Prop :=
  match a with
  | .elems vs true => r = .ok (.many vs) ∨ ∃ v, vs = [v] ∧ r = .ok (.one v)
  | .elems vs false => ∃ v, vs = [v] ∧ r = .ok (.one v)
  | .nothing => r = .ok .nothing ∨ r = .ok .mismatch
  | .reject e => (e = .type ∨ e = .any) ∧ (r = .ok .mismatch ∨ ∃ c x, r = .err c x)

theorem levelDown_tyOfETy (t : Ty) (d : List Ty) (hct : canonTy t = true) (hnt : t.major ≠ .tup) :
    t.levelDown = tyOfETy (elemETy t d) := by
  rw [tyOfETy_elem_nontup t d hnt]
  simp only [canonTy, beq_iff_eq] at hct
  exact Ty.ext' _ _ rfl (by simp [Ty.levelDown, hct]) rfl

theorem classify_addOf (P) (hinj : Inj P) (k : Kind) (hk : k ≠ .put) (t : Ty) (d : List Ty) (es : List Val) (x : Val)
    (hx : uniformP P (.tab t d es) = true) (hct : canonTy t = true)
    (ha : uniformP P x = true) (hca : canonTy x.type = true) (hl : KF.levelBug t x = false) :
    AddRel (addOf (.tab t d es) t d x) (classify k t x t.levelDown) := by
  obtain ⟨hh, hpd, hes⟩ := tab_parts P t d es hx
  by_cases hsp : ∃ ad vs, x = .tab t ad vs
  · obtain ⟨ad, vs, rfl⟩ := hsp
    have hety := (etyOf_tab_same P hinj t d es t ad vs hx ha hct hct).2 rfl
    have hlev := tab_level_pos P t ad vs ha
    have ha1 : addOf (.tab t d es) t d (.tab t ad vs) = .elems vs true := by
      unfold addOf
      simp [ignoredNull, hety]
    have hk' : (k != .put) = true := by simpa using hk
    rw [ha1, classify_tab k t t ad vs _ hlev]
    simp [AddRel, hk']
  · have hne : ∀ at_ ad vs, x = .tab at_ ad vs → etyOf x ≠ etyOf (.tab t d es) := by
      intro at_ ad vs e he
      subst e
      have := (etyOf_tab_same P hinj t d es at_ ad vs hx ha hct hca).1 he
      subst this
      exact hsp ⟨ad, vs, rfl⟩
    rw [addOf_nonsplice _ _ _ _ hne]
    have rel := classify_fit P hinj k t d x t.levelDown hh hpd hct ha hca hl
      (levelDown_tyOfETy t d hct) (fun ad vs e => absurd ⟨ad, vs, e⟩ hsp)
    have hk' : (k == .put) = false := by simpa using hk
    cases hig : ignoredNull x with
    | true =>
      rw [hig] at rel
      simp only [↓reduceIte, AddRel]
      cases hf : fit (elemETy t d) x with
      | exact v => rw [hf] at rel; simp only [SlotRel, hk'] at rel; left; simpa using rel
      | conv v => rw [hf] at rel; simp [SlotRel] at rel
      | bad => rw [hf] at rel; simp [SlotRel] at rel
      | no =>
        rw [hf] at rel; simp only [SlotRel, hk'] at rel
        rcases rel with h | ⟨_, h⟩
        · right; exact h
        · left; simpa using h
    | false =>
      rw [hig] at rel
      simp only [Bool.false_eq_true, ↓reduceIte]
      cases hf : fit (elemETy t d) x with
      | exact v => rw [hf] at rel; simp only [SlotRel] at rel; simp only [AddRel]; right; exact ⟨v, rfl, by simpa using rel⟩
      | conv v => rw [hf] at rel; simp only [SlotRel] at rel; simp only [AddRel]; exact ⟨v, rfl, rel.2⟩
      | bad => rw [hf] at rel; simp only [SlotRel] at rel; simp only [AddRel]; exact ⟨Or.inr trivial, Or.inr rel.2⟩
      | no =>
        rw [hf] at rel; simp only [SlotRel] at rel; simp only [AddRel]
        rcases rel with h | ⟨h, _⟩
        · exact ⟨Or.inl trivial, Or.inl h⟩
        · simp at h

/-! ### the Spec's outcomes keep the header and the canonical minors -/

theorem canonTy_tyOfETy_elem (t : Ty) (d : List Ty) (hnt : t.major ≠ .tup) : canonTy (tyOfETy (elemETy t d)) = true := by
  rw [tyOfETy_elem_nontup t d hnt]
  simp only [canonTy, normMinor, beq_iff_eq]
  by_cases h : t.major = .obj <;> simp [h, hnt]

theorem fit_canon (t : Ty) (d : List Ty) (x v : Val) (hx : canonTy x.type = true)
    (h : fit (elemETy t d) x = .exact v ∨ fit (elemETy t d) x = .conv v) : canonTy v.type = true := by
  unfold fit at h
  split at h
  · rcases h with h | h
    · injection h with h; rw [← h]; exact hx
    · simp at h
  · split at h
    · split at h
      · simp at h
      · rename_i hnt
        rcases h with h | h
        · injection h with h; rw [← h]
          apply canonTy_tyOfETy_elem
          simpa [elemETy_major] using hnt
        · simp at h
    · split at h
      · split at h
        · split at h
          · split at h
            · rcases h with h | h
              · simp at h
              · injection h with h; rw [← h]; rfl
            · simp at h
          · simp at h
        · split at h
          · rcases h with h | h
            · simp at h
            · injection h with h; rw [← h]; rfl
          · simp at h
        · simp at h
      · split at h
        · split at h
          · rcases h with h | h
            · simp at h
            · injection h with h; rw [← h]; rfl
          · split at h
            · rcases h with h | h
              · simp at h
              · injection h with h; rw [← h]; rfl
            · simp at h
          · simp at h
        · simp at h

/-- the receiver named by a Spec outcome is a table with the same header whose elements have canonical minors -/
def OutShape (t : Ty) (d : List Ty) : SOut → Prop
  | .ok _ y => ∃ es', y = .tab t d es' ∧ ∀ e ∈ es', canonTy e.type = true
  | .either _ y => ∃ es', y = .tab t d es' ∧ ∀ e ∈ es', canonTy e.type = true
  | .reject _ => True

theorem tabPut_shape (t d es p x) (hes : ∀ e ∈ es, canonTy e.type = true) (hx : canonTy x.type = true) :
    OutShape t d (Spec.tabPut t d es p x) := by
  unfold Spec.tabPut
  split
  · trivial
  · split
    · rename_i v hf
      have hv := fit_canon t d x v hx (Or.inl hf)
      have : ∀ e ∈ es.set ‹Nat› v, canonTy e.type = true := by
        intro e he
        rcases List.mem_or_eq_of_mem_set he with h | h
        · exact hes e h
        · rw [h]; exact hv
      split <;> exact ⟨_, rfl, this⟩
    · rename_i v hf
      have hv := fit_canon t d x v hx (Or.inr hf)
      refine ⟨_, rfl, ?_⟩
      intro e he
      rcases List.mem_or_eq_of_mem_set he with h | h
      · exact hes e h
      · rw [h]; exact hv
    · trivial
    · trivial

theorem addOf_canon (recv t d x vs sure) (hx : canon x = true) (h : addOf recv t d x = .elems vs sure) :
    ∀ e ∈ vs, canonTy e.type = true := by
  have hx1 : canonTy x.type = true := by simp only [canon, Bool.and_eq_true] at hx; exact hx.1
  unfold addOf at h
  split at h
  · simp at h
  · split at h
    · rename_i at_ ad xs
      split at h
      · injection h with h1 h2
        subst h1
        simp only [canon, Bool.and_eq_true, List.all_eq_true] at hx
        exact hx.2
      · split at h
        · rename_i v hf
          injection h with h1 h2
          rw [← h1]
          intro e he
          simp at he; rw [he]
          exact fit_canon t d _ v hx1 (Or.inl hf)
        · simp at h
    · split at h
      · rename_i v hf
        injection h with h1 h2
        rw [← h1]
        intro e he
        simp at he; rw [he]
        exact fit_canon t d _ v hx1 (Or.inl hf)
      · rename_i v hf
        injection h with h1 h2
        rw [← h1]
        intro e he
        simp at he; rw [he]
        exact fit_canon t d _ v hx1 (Or.inr hf)
      · simp at h
      · simp at h

theorem tabInsert_shape (t d es p x) (hes : ∀ e ∈ es, canonTy e.type = true) (hx : canon x = true) :
    OutShape t d (Spec.tabInsert (.tab t d es) t d es p x) := by
  unfold Spec.tabInsert
  split
  · trivial
  · split
    · exact ⟨es, rfl, hes⟩
    · trivial
    · rename_i vs sure hadd
      have hvs := addOf_canon _ t d x vs sure hx hadd
      have : ∀ e ∈ List.take ‹Nat› es ++ vs.reverse ++ List.drop ‹Nat› es, canonTy e.type = true := by
        intro e he
        simp only [List.mem_append, List.mem_reverse] at he
        rcases he with (h | h) | h
        · exact hes e (List.mem_of_mem_take h)
        · exact hvs e h
        · exact hes e (List.mem_of_mem_drop h)
      split <;> exact ⟨_, rfl, this⟩

theorem tabConcat_shape (t d es x) (hes : ∀ e ∈ es, canonTy e.type = true) (hx : canon x = true) :
    OutShape t d (Spec.tabConcat (.tab t d es) t d es x) := by
  unfold Spec.tabConcat
  split
  · exact ⟨es, rfl, hes⟩
  · trivial
  · rename_i vs sure hadd
    have hvs := addOf_canon _ t d x vs sure hx hadd
    have : ∀ e ∈ es ++ vs, canonTy e.type = true := by
      intro e he
      simp only [List.mem_append] at he
      rcases he with h | h
      · exact hes e h
      · exact hvs e h
    split <;> exact ⟨_, rfl, this⟩

theorem tabDelete_shape (t d es p) (hes : ∀ e ∈ es, canonTy e.type = true) :
    OutShape t d (Spec.tabDelete t d es p) := by
  unfold Spec.tabDelete
  split
  · trivial
  · exact ⟨_, rfl, fun e he => hes e (List.mem_of_mem_eraseIdx he)⟩

theorem tabAt_shape (t d es p) (hes : ∀ e ∈ es, canonTy e.type = true) :
    OutShape t d (Spec.tabAt (.tab t d es) es p) := by
  unfold Spec.tabAt
  split
  · split
    · exact ⟨es, rfl, hes⟩
    · trivial
  · trivial

/-! ### strings and bytes: character codes, arguments of insert / concat -/

theorem charArg_int (c : Int64) :
    charArg (.int c) = if 0 ≤ c.toInt ∧ c.toInt ≤ 255 then .ok (UInt8.ofNat c.toInt.toNat) else .err Gen.EXC_RT_OUT_OF_RANGE := by
  have h0 : (c < 0) ↔ c.toInt < 0 := Int64.lt_iff_toInt_lt
  have h1 : (c > 255) ↔ c.toInt > 255 := by
    show (255 : Int64) < c ↔ _
    rw [Int64.lt_iff_toInt_lt]; rfl
  unfold charArg
  have e : (Val.int c).asInt = .ok c := rfl
  rw [e]
  by_cases hc : 0 ≤ c.toInt ∧ c.toInt ≤ 255
  · have a : ¬ (c < 0) := by rw [h0]; omega
    have b : ¬ (c > 255) := by rw [h1]; omega
    simp [hc, a, b, byteOfInt]
  · have : (c < 0) ∨ (c > 255) := by rw [h0, h1]; omega
    rcases this with a | b
    · simp [hc, a]
    · simp [hc, b]

/-- shape of a uniform non-null value by its implementation type -/
theorem shape_of_type (P) (x : Val) (hx : uniformP P x = true) (hn : x.isNull = false) :
    (x.type = Ty.int → ∃ i, x = .int i) ∧ (x.type.major = .int → x.type.level = 0 → ∃ i, x = .int i) ∧
    (x.type.major = .str → x.type.level = 0 → ∃ b, x = .str b) ∧
    (x.type.major = .raw → x.type.level = 0 → ∃ b, x = .raw b) := by
  cases x with
  | null ty => simp [Val.isNull] at hn
  | tab at_ ad vs =>
    have := tab_level_pos P at_ ad vs hx
    refine ⟨?_, ?_, ?_, ?_⟩ <;> intro h <;> (try intro h') <;> simp_all [Val.type, Ty.int] <;> omega
  | tup ad items => simp [Val.type, makeTupleTy_major, Ty.int, makeTupleTy]; split <;> simp
  | int i => exact ⟨fun _ => ⟨i, rfl⟩, fun _ _ => ⟨i, rfl⟩, by simp [Val.type, Ty.int], by simp [Val.type, Ty.int]⟩
  | str b => exact ⟨by simp [Val.type, Ty.int, Ty.str], by simp [Val.type, Ty.str], fun _ _ => ⟨b, rfl⟩, by simp [Val.type, Ty.str]⟩
  | raw b => exact ⟨by simp [Val.type, Ty.int, Ty.raw], by simp [Val.type, Ty.raw], by simp [Val.type, Ty.raw], fun _ _ => ⟨b, rfl⟩⟩
  | bool b => simp [Val.type, Ty.bool, Ty.int]
  | num b => simp [Val.type, Ty.num, Ty.int]
  | imag a b => simp [Val.type, Ty.imag, Ty.int]
  | obj a b => simp [Val.type, Ty.int]

/-- the model's reading of a character-code argument is the Spec's `code` -/
theorem charArg_code (P) (x : Val) (hx : uniformP P x = true) (hn : x.isNull = false) :
    match Spec.code x with
    | .ok c => charArg x = .ok c
    | .error .range => charArg x = .err Gen.EXC_RT_OUT_OF_RANGE
    | .error _ => ∃ c a, charArg x = .err c a := by
  rcases asInt_of_pos P x 0 hx with ⟨i, rfl, _, _, _⟩ | ⟨h, _⟩ | ⟨_, hi, _⟩
  · rw [charArg_int]
    simp only [Spec.code]
    by_cases hc : 0 ≤ i.toInt ∧ i.toInt ≤ 255
    · simp only [hc, and_self, ↓reduceIte]
    · simp only [hc, ↓reduceIte]
  · rw [h] at hn; simp at hn
  · have : charArg x = .err Gen.EXC_RT_NOT_INTEGER := by unfold charArg; rw [hi]
    rw [this]
    cases x with
    | int i => simp [Val.asInt, Val.type, Ty.int] at hi
    | null ty => simp [Val.isNull] at hn
    | _ => exact ⟨_, _, rfl⟩

/-! ### tuples: `set@` classifies its argument like `put` on a one-dimensional table of the item type -/

def slotOpt : Res Slot → Res (Option Val)
  | .ok (.one v) => .ok (some v)
  | .ok _ => .ok none
  | .err c a => .err c a
  | .haz h => .haz h
  | .unmodelled => .unmodelled

theorem mixItem_eq_mixElem (dt : Ty) (a : Val) (oldTy : Ty) (hnt : dt.major ≠ .tup) :
    mixItem dt a oldTy = slotOpt (mixElem dt.levelUp a oldTy) := by
  unfold mixItem mixElem
  have e : dt.levelUp.major = dt.major := rfl
  rw [e]
  cases hm : dt.major with
  | tup => exact absurd hm hnt
  | int =>
    simp only
    split
    · split
      · rfl
      · cases a.asNum with
        | ok x => simp only; cases Num.intOfDecimal x <;> rfl
        | _ => rfl
    · split <;> rfl
  | num =>
    simp only
    split
    · split
      · rfl
      · cases a.asInt <;> rfl
    · split <;> rfl
  | _ => simp only; split <;> rfl

theorem setSlot_eq_classify (dt : Ty) (a : Val) (oldTy : Ty) (hl : a.type.level = 0) (hs : scalarTy dt = true) :
    (if dt == a.type then (.ok (some a) : Res (Option Val)) else mixItem dt a oldTy) =
      slotOpt (classify .put dt.levelUp a oldTy) := by
  have hs' := hs
  simp only [scalarTy, Bool.and_eq_true, Bool.or_eq_true, beq_iff_eq] at hs'
  have hnt : dt.major ≠ .tup := by
    rcases hs'.2 with ⟨_, h⟩ | h
    · rcases h with ((((h | h) | h) | h) | h) | h <;> rw [h] <;> simp
    · rw [h]; simp
  have hnn : dt.major ≠ .none := by
    rcases hs'.2 with ⟨_, h⟩ | h
    · rcases h with ((((h | h) | h) | h) | h) | h <;> rw [h] <;> simp
    · rw [h]; simp
  have hdown : dt.levelUp.levelDown = dt := by cases dt; simp [Ty.levelUp, Ty.levelDown]
  by_cases hm : a.type.major = dt.major
  · rw [classify_same .put dt.levelUp a oldTy hl hm hnt, hdown]
    by_cases he : dt = a.type
    · have : (a.type == dt) = true := by simp [he]
      simp [he, slotOpt]
    · have h1 : (dt == a.type) = false := by simpa using he
      have h2 : (a.type == dt) = false := by simpa using (fun h => he h.symm)
      simp only [h1, h2, Bool.false_eq_true, ↓reduceIte, slotOpt]
      unfold mixItem
      cases hd : dt.major <;> simp_all
  · have h1 : (dt == a.type) = false := by
      apply beq_eq_false_iff_ne.mpr; intro e; apply hm; rw [← e]
    rw [classify_mix .put dt.levelUp a oldTy hl hm]
    simp only [h1, Bool.false_eq_true, ↓reduceIte]
    exact mixItem_eq_mixElem dt a oldTy hnt

theorem fit_ign_lvl0 (e : ETy) (a : Val) (hi : ignoredNull a = true) (hl : a.type.level = 0) (he : e.major ≠ .tup) :
    fit e a = .no := by
  cases a with
  | null ty =>
    have hl' : ty.level = 0 := hl
    have hm : ty.major = .tup := by simpa [ignoredNull, hl'] using hi
    apply fit_ne
    · intro h; apply he; rw [← h, etyOf_major]; exact hm
    · simp [isUntypedNull, hm]
    · intro _ h; simp at h
    · intro _ h; simp at h
    · intro ty' h; simp at h; subst h; simp [hm]
  | _ => simp [ignoredNull] at hi

/-! ### tab(n, x) in the `Res` monad (the element expression is a constant) -/

theorem levelUp8_eq (t : Ty) (h : t.level < 255) : levelUp8 t = t.levelUp := by
  unfold levelUp8 Ty.levelUp
  have : (t.level + 1) % 256 = t.level + 1 := by omega
  rw [this]


theorem tabFill_const (a : Val) (ty : Ty) (h : a.type = ty) : ∀ (k : Nat) (acc : List Val),
    tabFill (m := Res) (.ok a) ty k acc = .ok (acc ++ List.replicate k a) := by
  intro k
  induction k with
  | zero => intro acc; simp [tabFill, pure]
  | succ k ih =>
    intro acc
    have hne : (a.type != ty) = false := by simp [h]
    simp only [tabFill, bind, hne, Bool.false_eq_true, ↓reduceIte]
    rw [ih]
    simp [List.replicate_succ]

theorem uniformAll_replicate (P e) (v : Val) (k : Nat) (hv : etyOf v = e) (hu : uniformP P v = true) :
    uniformAll P e (List.replicate k v) = true := by
  induction k with
  | zero => simp
  | succ k ih => rw [List.replicate_succ, uniformAll_cons]; simp [hv, hu, ih]

/-- `tab(n, x)` for a count in range once the header is known -/
theorem biTab_res (n : Int64) (x : Val) (t : Ty) (decl : List Ty)
    (h0 : 0 ≤ n.toInt) (h1 : n.toInt ≤ 1048576) (hh : tabHeader x = .ok (t, decl)) (hty' : x.type = t.levelDown)
    (hl1 : 1 ≤ t.level) (hl2 : t.level ≤ 255) :
    biTab (m := Res) [.ok (.int n), .ok x] = .ok (.tab t decl (List.replicate n.toInt.toNat x)) := by
  have hty : x.type = levelDown8 t := by
    rw [hty']; unfold levelDown8 Ty.levelDown
    have : (t.level + 255) % 256 = t.level - 1 := by omega
    rw [this]
  have a : ¬ (n < 0) := by rw [Int64.lt_iff_toInt_lt]; show ¬ n.toInt < 0; omega
  have b : ¬ (n > 1048576) := by
    show ¬ ((1048576 : Int64) < n)
    rw [Int64.lt_iff_toInt_lt]; show ¬ (1048576 : Int) < n.toInt; omega
  have e : (Val.int n).asInt = .ok n := rfl
  unfold biTab
  simp only [bind, Val.isNull, Bool.false_eq_true, ↓reduceIte, liftR, liftM, monadLift, MonadLift.monadLift, e, a, b, hh, pure]
  by_cases hz : n = 0
  · subst hz; rfl
  · have hz' : (n == 0) = false := by simpa using hz
    simp only [hz', Bool.false_eq_true, ↓reduceIte]
    rw [tabFill_const x _ hty]
    have hpos : 0 < n.toInt := by
      rcases Int.lt_or_eq_of_le h0 with h | h
      · exact h
      · exfalso; apply hz; apply Int64.toInt_inj.mp; rw [← h]; rfl
    have : idxOf n - 1 + 1 = n.toInt.toNat := by unfold idxOf; omega
    simp only [bind]
    rw [← this, List.replicate_succ]
    rfl

theorem biTab_neg (n : Int64) (x : Val) (h : n.toInt < 0) :
    biTab (m := Res) [.ok (.int n), .ok x] = .err Gen.EXC_RT_INDEX_RANGE_S := by
  have a : n < 0 := by rw [Int64.lt_iff_toInt_lt]; exact h
  have e : (Val.int n).asInt = .ok n := rfl
  unfold biTab
  simp only [bind, Val.isNull, Bool.false_eq_true, ↓reduceIte, liftR, liftM, monadLift, MonadLift.monadLift, e, a, rerr]

theorem biTab_header_err (n : Int64) (x : Val) (c : Nat) (arg : Bytes)
    (h0 : 0 ≤ n.toInt) (h1 : n.toInt ≤ 1048576) (hh : tabHeader x = .err c arg) :
    biTab (m := Res) [.ok (.int n), .ok x] = .err c arg := by
  have a : ¬ (n < 0) := by rw [Int64.lt_iff_toInt_lt]; show ¬ n.toInt < 0; omega
  have b : ¬ (n > 1048576) := by
    show ¬ ((1048576 : Int64) < n)
    rw [Int64.lt_iff_toInt_lt]; show ¬ (1048576 : Int) < n.toInt; omega
  have e : (Val.int n).asInt = .ok n := rfl
  unfold biTab
  simp only [bind, Val.isNull, Bool.false_eq_true, ↓reduceIte, liftR, liftM, monadLift, MonadLift.monadLift, e, a, b, hh]

theorem tab_uniform_build (P) (t : Ty) (decl : List Ty) (x : Val) (k : Nat)
    (hh : headerOk t decl = true) (hp : t.major = .tup → P decl = true)
    (he : etyOf x = elemETy t decl) (hx : uniformP P x = true) :
    uniformP P (.tab t decl (List.replicate k x)) = true := by
  rw [uniformP_tab]
  simp only [Bool.and_eq_true, Bool.or_eq_true]
  refine ⟨⟨hh, ?_⟩, uniformAll_replicate P _ x k he hx⟩
  by_cases h : t.major = .tup
  · right; exact hp h
  · left; simpa using h

end BlocV.C09
