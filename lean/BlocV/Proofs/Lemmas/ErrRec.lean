/-
  Helper lemmas: the context's error record (`St.lastErr`) is changed by nothing but `docatch`. Code without exception clauses —
  however it ends, whatever functions (with whatever clauses of their own) it calls — leaves the record as it found it: a fourth
  mutual induction over the eight functions of the interpreter, with a syntactic side condition on the statements only
  (expressions cannot contain statements; a callee runs in its own context and `finishCall` keeps the caller's record).
  Used by Proofs/C07.lean.
-/
import BlocV.Proofs.Lemmas.Interp
import BlocV.Proofs.Lemmas.Lock

namespace BlocV.Lemmas
open BlocV

mutual
  /-- the statement contains no `exception` clause (a `begin … end` without clauses is allowed), at any depth -/
  def noClauseS : Stmt → Bool
    | .ifS rules => noClauseRules rules
    | .whileS _ body => noClauseL body
    | .forS _ _ _ _ _ body => noClauseL body
    | .forallS _ _ _ body => noClauseL body
    | .beginS body catches => catches.isEmpty && noClauseL body
    | _ => true
  def noClauseL : List Stmt → Bool
    | [] => true
    | s :: rest => noClauseS s && noClauseL rest
  def noClauseRules : List (Option Expr × List Stmt) → Bool
    | [] => true
    | (_, body) :: rest => noClauseL body && noClauseRules rest
end

/-- the error record is what it was -/
def KeepErr (s s' : St) : Prop := s'.lastErr = s.lastErr

theorem keepErr_rel : StRel KeepErr := ⟨fun _ => rfl, fun h1 h2 => by unfold KeepErr at *; rw [h2, h1]⟩

def AllErr (funcs : List Func) (fuel : Nat) : Prop :=
  (∀ depth e, Pres KeepErr (eval funcs depth fuel e)) ∧
  (∀ depth name args, Pres KeepErr (callFunc funcs depth fuel name args)) ∧
  (∀ depth args, Pres KeepErr (evalArgs funcs depth fuel args)) ∧
  (∀ depth body, noClauseL body = true → Pres KeepErr (execBlock funcs depth fuel body [])) ∧
  (∀ depth l, noClauseL l = true → Pres KeepErr (execList funcs depth fuel l)) ∧
  (∀ depth st, noClauseS st = true → Pres KeepErr (exec funcs depth fuel st)) ∧
  (∀ depth es, Pres KeepErr (evalPrint funcs depth fuel es)) ∧
  (∀ depth rules, noClauseRules rules = true → Pres KeepErr (execIf funcs depth fuel rules))

theorem eval_err_step (funcs : List Func) (fuel : Nat) (ih : AllErr funcs fuel) (depth : Nat) (e : Expr) :
    Pres KeepErr (eval funcs depth (fuel + 1) e) := by
  have hR := keepErr_rel
  obtain ⟨ihE, ihC, ihA, -, -, -, -, -⟩ := ih
  unfold eval
  split
  · exact Pres.pure hR _
  · exact Pres.bind hR (Pres.getSt hR) (fun _ => Pres.lift hR _)
  · exact Pres.bind hR (ihE _ _) (fun _ => Pres.lift hR _)
  · repeat (first | pres_core hR | exact ihE _ _)
  · repeat (first | pres_core hR | exact ihE _ _)
  · repeat (first | pres_core hR | exact ihE _ _)
  · exact biTab_pres hR _ (PArgs.map _ _ (ihE _))
  · exact biTup_pres hR _ (PArgs.map _ _ (ihE _))
  · split
    · rename_i r hr
      exact evalBuiltin_pres hR _ _ _ (PArgs.map _ _ (ihE _)) r hr
    · exact Pres.lift hR _
  · exact ihC _ _ _
  · repeat (first | pres_core hR | exact ihE _ _ | exact ihA _ _ | exact Pres.modifySt (fun _ => rfl))
  · exact Pres.bind hR (Pres.getSt hR) (fun _ => Pres.lift hR _)
  · exact itemAt_pres hR _ (ihE _ _) _

theorem callFunc_err_step (funcs : List Func) (fuel : Nat) (ih : AllErr funcs fuel) (depth : Nat) (name : String) (args : List Expr) :
    Pres KeepErr (callFunc funcs depth (fuel + 1) name args) := by
  have hR := keepErr_rel
  obtain ⟨-, -, ihA, -, -, -, -, -⟩ := ih
  unfold callFunc
  split
  · exact Pres.lift hR _
  · split
    · exact Pres.failE hR _ _
    · apply Pres.bind hR (ihA _ _)
      intro vals
      exact ⟨fun caller => by unfold KeepErr finishCall; split <;> rfl⟩

theorem evalArgs_err_step (funcs : List Func) (fuel : Nat) (ih : AllErr funcs fuel) (depth : Nat) (args : List Expr) :
    Pres KeepErr (evalArgs funcs depth (fuel + 1) args) := by
  have hR := keepErr_rel
  obtain ⟨ihE, -, ihA, -, -, -, -, -⟩ := ih
  cases args with
  | nil => unfold evalArgs; exact Pres.pure hR _
  | cons a as =>
    unfold evalArgs
    repeat (first | pres_core hR | exact ihE _ _ | exact ihA _ _)

theorem execBlock_err_step (funcs : List Func) (fuel : Nat) (ih : AllErr funcs fuel) (depth : Nat) (body : List Stmt)
    (hb : noClauseL body = true) : Pres KeepErr (execBlock funcs depth (fuel + 1) body []) := by
  obtain ⟨-, -, -, -, ihL, -, -, -⟩ := ih
  unfold execBlock
  constructor
  intro s
  have h1 := (ihL depth body hb).h s
  split
  · rename_i c a s' heq
    rw [heq] at h1
    split
    · exact h1
    · simp only [List.find?_nil]
      exact h1
  · exact h1

theorem execList_err_step (funcs : List Func) (fuel : Nat) (ih : AllErr funcs fuel) (depth : Nat) (l : List Stmt)
    (hl : noClauseL l = true) : Pres KeepErr (execList funcs depth (fuel + 1) l) := by
  have hR := keepErr_rel
  obtain ⟨-, -, -, -, ihL, ihS, -, -⟩ := ih
  cases l with
  | nil => unfold execList; exact Pres.pure hR _
  | cons a as =>
    have h : noClauseS a = true ∧ noClauseL as = true := by simpa [noClauseL] using hl
    unfold execList
    repeat (first | pres_core hR | exact ihL _ _ h.2 | exact ihS _ _ h.1)

theorem evalPrint_err_step (funcs : List Func) (fuel : Nat) (ih : AllErr funcs fuel) (depth : Nat) (l : List Expr) :
    Pres KeepErr (evalPrint funcs depth (fuel + 1) l) := by
  have hR := keepErr_rel
  obtain ⟨ihE, -, -, -, -, -, ihP, -⟩ := ih
  cases l with
  | nil => unfold evalPrint; exact Pres.pure hR _
  | cons a as =>
    unfold evalPrint
    repeat (first | pres_core hR | exact ihE _ _ | exact ihP _ _ | exact Pres.modifySt (fun _ => rfl))

theorem execIf_err_step (funcs : List Func) (fuel : Nat) (ih : AllErr funcs fuel) (depth : Nat) (l : List (Option Expr × List Stmt))
    (hl : noClauseRules l = true) : Pres KeepErr (execIf funcs depth (fuel + 1) l) := by
  have hR := keepErr_rel
  obtain ⟨ihE, -, -, -, ihL, -, -, ihI⟩ := ih
  cases l with
  | nil => unfold execIf; exact Pres.pure hR _
  | cons a as =>
    obtain ⟨c, b⟩ := a
    have h : noClauseL b = true ∧ noClauseRules as = true := by simpa [noClauseRules] using hl
    unfold execIf
    repeat (first | pres_core hR | exact ihE _ _ | exact ihL _ _ h.1 | exact ihI _ _ h.2)

theorem forall_run_err (it : String) (b : Iter) (s1 : St) (body : EvalM Flow) (hb : Pres KeepErr body) (desc : Bool) (k : Nat) :
    KeepErr s1 (forallExit it (forallLoop body it desc k { s1 with iters := b :: s1.iters })).2 := by
  have hR := keepErr_rel
  refine hR.trans (b := { s1 with iters := b :: s1.iters }) rfl ?_
  refine hR.trans ((forallLoop_pres' hR (fun _ _ => rfl) body hb it desc k).h _) ?_
  unfold forallExit
  split
  · rfl
  · rfl

theorem exec_err_step (funcs : List Func) (fuel : Nat) (ih : AllErr funcs fuel) (depth : Nat) (st : Stmt)
    (hs : noClauseS st = true) : Pres KeepErr (exec funcs depth (fuel + 1) st) := by
  have hR := keepErr_rel
  obtain ⟨ihE, -, -, ihB, ihL, -, ihP, ihI⟩ := ih
  unfold exec
  constructor
  intro s0
  split
  · exact hR.refl _
  · refine hR.trans (b := { s0 with budget := s0.budget - 1 }) rfl ?_
    generalize ({ s0 with budget := s0.budget - 1 } : St) = s
    refine Pres.h (R := KeepErr) ?_ s
    split
    · exact Pres.pure hR _
    · exact Pres.pure hR _
    · -- letS
      repeat (first | pres_core hR | exact ihE _ _ | exact Pres.modifySt (fun _ => rfl))
    · repeat (first | pres_core hR | exact ihE _ _)
    · repeat (first | pres_core hR | exact ihP _ _ | exact Pres.modifySt (fun _ => rfl))
    · have h := hs; simp only [noClauseS] at h
      exact ihI _ _ h
    · have h := hs; simp only [noClauseS] at h
      exact whileLoop_pres hR _ _ (ihE _ _) (ihL _ _ h) _
    · -- forS
      have h := hs; simp only [noClauseS] at h
      repeat (first | pres_core hR | exact ihE _ _ | exact Pres.modifySt (fun _ => rfl) | exact forLoop_pres hR (fun _ _ => rfl) _ _ _ _ _ (ihL _ _ h) _)
    · -- forallS
      rename_i it src dir body
      have h := hs; simp only [noClauseS] at h
      apply Pres.bind hR (ihE _ _); intro tv
      split
      · exact Pres.pure hR _
      split
      · exact Pres.lift hR _
      refine Pres.ite _ (Pres.pure hR _) ?_
      apply Pres.bind hR (Pres.getSt hR); intro s
      refine Pres.ite _ (Pres.failE hR _ _) ?_
      split
      · refine Pres.ite _ (Pres.lift hR _) ?_
        exact ⟨fun s1 => forall_run_err _ _ s1 _ (ihL _ _ h) _ _⟩
      · rename_i hx
        cases src <;> first
          | exact absurd rfl (hx _)
          | exact ⟨fun s1 => forall_run_err _ _ s1 _ (ihL _ _ h) _ _⟩
    · -- beginS
      rename_i body catches
      have h := hs; simp only [noClauseS, Bool.and_eq_true, List.isEmpty_iff] at h
      obtain ⟨hc, hb⟩ := h
      subst hc
      exact ihB _ _ hb
    · repeat (first | pres_core hR)
    · exact Pres.pure hR _
    · repeat (first | pres_core hR | exact ihE _ _ | exact Pres.modifySt (fun _ => rfl))
    · exact Pres.pure hR _
    · exact Pres.pure hR _

/-- **The mutual induction for the error record**: expressions (calls included) never change the caller's record; statements
without exception clauses neither — whatever the outcome. -/
theorem err_all (funcs : List Func) : ∀ fuel, AllErr funcs fuel := by
  have hR := keepErr_rel
  intro fuel
  induction fuel with
  | zero =>
    refine ⟨?_, ?_, ?_, ?_, ?_, ?_, ?_, ?_⟩
    · intro d e; unfold eval; exact Pres.oof hR
    · intro d n a; unfold callFunc; exact Pres.oof hR
    · intro d a; unfold evalArgs; exact Pres.oof hR
    · intro d b _; unfold execBlock; exact Pres.oof hR
    · intro d l _; unfold execList; exact Pres.oof hR
    · intro d s _; unfold exec; exact Pres.oof hR
    · intro d l; unfold evalPrint; exact Pres.oof hR
    · intro d l _; unfold execIf; exact Pres.oof hR
  | succ fuel ih =>
    exact ⟨eval_err_step funcs fuel ih, callFunc_err_step funcs fuel ih, evalArgs_err_step funcs fuel ih,
      execBlock_err_step funcs fuel ih, execList_err_step funcs fuel ih, exec_err_step funcs fuel ih,
      evalPrint_err_step funcs fuel ih, execIf_err_step funcs fuel ih⟩

/-! ## ending without error ⇒ record unchanged (outcome-sensitive: `OkKeeps`), for code whose clause-carrying blocks have clause-free bodies -/

mutual
  /-- every block that HAS exception clauses has a body WITHOUT any; what its clauses contain does not matter (when a clause ends the
  record is set back whatever the clause did); blocks without clauses, loops and conditionals are searched -/
  def flatS : Stmt → Bool
    | .ifS rules => flatRules rules
    | .whileS _ body => flatL body
    | .forS _ _ _ _ _ body => flatL body
    | .forallS _ _ _ body => flatL body
    | .beginS body catches => if catches.isEmpty then flatL body else noClauseL body
    | _ => true
  def flatL : List Stmt → Bool
    | [] => true
    | s :: rest => flatS s && flatL rest
  def flatRules : List (Option Expr × List Stmt) → Bool
    | [] => true
    | (_, body) :: rest => flatL body && flatRules rest
end

/-- when the computation ends without error the error record is what it was -/
structure OkKeeps {α} (x : EvalM α) : Prop where
  h : ∀ s a s', x s = (.ok a, s') → s'.lastErr = s.lastErr

theorem OkKeeps.of_pres {α} {x : EvalM α} (h : Pres KeepErr x) : OkKeeps x := by
  constructor
  intro s a s' hx
  have := h.h s
  rw [hx] at this
  exact this

theorem OkKeeps.pure {α} (a : α) : OkKeeps (pure a : EvalM α) := OkKeeps.of_pres (Pres.pure keepErr_rel a)

theorem OkKeeps.bind {α β} {x : EvalM α} {f : α → EvalM β} (hx : OkKeeps x) (hf : ∀ a, OkKeeps (f a)) : OkKeeps (x >>= f) := by
  constructor
  intro s b s'' h
  rw [bind_app] at h
  cases hxs : x s with
  | mk r s' =>
    rw [hxs] at h
    cases r with
    | ok a => exact ((hf a).h s' b s'' h).trans (hx.h s a s' hxs)
    | err c a => simp at h
    | haz x => simp at h
    | unmodelled => simp at h

theorem OkKeeps.ite (c : Prop) [Decidable c] {α} {x y : EvalM α} (hx : OkKeeps x) (hy : OkKeeps y) : OkKeeps (if c then x else y) := by
  split <;> assumption

macro "ok_core" : tactic => `(tactic| first
  | exact OkKeeps.pure _
  | exact OkKeeps.of_pres (Pres.lift keepErr_rel _)
  | exact OkKeeps.of_pres (Pres.mlift keepErr_rel _)
  | exact OkKeeps.of_pres (Pres.getSt keepErr_rel)
  | exact OkKeeps.of_pres (Pres.failE keepErr_rel _ _)
  | exact OkKeeps.of_pres (Pres.oof keepErr_rel)
  | exact OkKeeps.of_pres (Pres.modifySt (fun _ => rfl))
  | apply OkKeeps.bind
  | intro _
  | split
  | dsimp only)

theorem whileLoop_ok (cond : EvalM Val) (body : EvalM Flow) (hc : OkKeeps cond) (hb : OkKeeps body) : ∀ k, OkKeeps (whileLoop cond body k) := by
  intro k
  induction k with
  | zero => exact OkKeeps.of_pres (Pres.oof keepErr_rel)
  | succ k ih =>
    unfold whileLoop
    repeat (first | ok_core | assumption)

theorem forLoop_ok (body : EvalM Flow) (v : String) (mn mx step : Int64) (hb : OkKeeps body) : ∀ k, OkKeeps (forLoop body v mn mx step k) := by
  intro k
  induction k with
  | zero => exact OkKeeps.of_pres (Pres.oof keepErr_rel)
  | succ k ih =>
    unfold forLoop
    repeat (first | ok_core | assumption)

theorem forallLoop_ok (body : EvalM Flow) (hb : OkKeeps body) (it : String) (desc : Bool) : ∀ k, OkKeeps (forallLoop body it desc k) := by
  intro k
  induction k with
  | zero => exact OkKeeps.of_pres (Pres.oof keepErr_rel)
  | succ k ih =>
    unfold forallLoop
    repeat (first | ok_core | assumption)

theorem forall_run_ok (it : String) (b : Iter) (body : EvalM Flow) (hb : OkKeeps body) (desc : Bool) (k : Nat) :
    OkKeeps (fun s1 => forallExit it (forallLoop body it desc k { s1 with iters := b :: s1.iters })) := by
  constructor
  intro s1 a s' h
  cases hr : forallLoop body it desc k { s1 with iters := b :: s1.iters } with
  | mk r s2 =>
    rw [hr] at h
    unfold forallExit at h
    have key : ∀ (fl : Flow), r = .ok fl → s2.lastErr = s1.lastErr := fun fl e => by
      subst e; exact (forallLoop_ok body hb it desc k).h { s1 with iters := b :: s1.iters } fl s2 hr
    split at h
    · simp only [Prod.mk.injEq] at h
      obtain ⟨h1, h2⟩ := h
      subst h2
      exact key a h1
    · simp only [Prod.mk.injEq] at h
      obtain ⟨h1, h2⟩ := h
      subst h2
      exact key a h1

def AllOk (funcs : List Func) (fuel : Nat) : Prop :=
  (∀ depth body catches, OkKeeps (execBlock funcs depth fuel body catches)) ∧
  (∀ depth l, OkKeeps (execList funcs depth fuel l)) ∧
  (∀ depth st, OkKeeps (exec funcs depth fuel st)) ∧
  (∀ depth rules, OkKeeps (execIf funcs depth fuel rules))

/-- A block: the body ended without error (induction), or a clause ended without error — then the record is set back to what it was
on ENTRY of the block (`handlerExit s.lastErr`, repo 8256736), whatever body and clause did to it in between. -/
theorem execBlock_ok_step (funcs : List Func) (fuel : Nat) (ih : AllOk funcs fuel) (depth : Nat) (body : List Stmt)
    (catches : List (String × List Stmt)) : OkKeeps (execBlock funcs depth (fuel + 1) body catches) := by
  obtain ⟨-, ihL, -, -⟩ := ih
  constructor
  intro s a sf h
  unfold execBlock at h
  cases hbody : execList funcs depth fuel body s with
  | mk r s' =>
    rw [hbody] at h
    cases r with
    | ok fl =>
      simp only [] at h
      cases h
      exact (ihL depth body).h s _ _ hbody
    | err c x =>
      simp only [] at h
      split at h
      · cases h
      · split at h
        · unfold handlerExit at h
          split at h
          · cases h
            rfl
          · rename_i hno
            exact (hno a sf h).elim
        · cases h
    | haz x => simp at h
    | unmodelled => simp at h

theorem execList_ok_step (funcs : List Func) (fuel : Nat) (ih : AllOk funcs fuel) (depth : Nat) (l : List Stmt) :
    OkKeeps (execList funcs depth (fuel + 1) l) := by
  obtain ⟨-, ihL, ihS, -⟩ := ih
  cases l with
  | nil => unfold execList; exact OkKeeps.pure _
  | cons a as =>
    unfold execList
    repeat (first | ok_core | exact ihL _ _ | exact ihS _ _)

theorem execIf_ok_step (funcs : List Func) (fuel : Nat) (ih : AllOk funcs fuel) (depth : Nat) (l : List (Option Expr × List Stmt)) :
    OkKeeps (execIf funcs depth (fuel + 1) l) := by
  obtain ⟨-, ihL, -, ihI⟩ := ih
  have hE : ∀ d e, OkKeeps (eval funcs d fuel e) := fun d e => OkKeeps.of_pres ((err_all funcs fuel).1 d e)
  cases l with
  | nil => unfold execIf; exact OkKeeps.pure _
  | cons a as =>
    obtain ⟨c, b⟩ := a
    unfold execIf
    repeat (first | ok_core | exact hE _ _ | exact ihL _ _ | exact ihI _ _)

theorem exec_ok_step (funcs : List Func) (fuel : Nat) (ih : AllOk funcs fuel) (depth : Nat) (st : Stmt) :
    OkKeeps (exec funcs depth (fuel + 1) st) := by
  obtain ⟨ihB, ihL, -, ihI⟩ := ih
  have hE : ∀ d e, OkKeeps (eval funcs d fuel e) := fun d e => OkKeeps.of_pres ((err_all funcs fuel).1 d e)
  have hP : ∀ d es, OkKeeps (evalPrint funcs d fuel es) := fun d es => OkKeeps.of_pres ((err_all funcs fuel).2.2.2.2.2.2.1 d es)
  unfold exec
  constructor
  intro s0 a sf h
  split at h
  · simp [oof, failE] at h
  · have key : ∀ (x : EvalM Flow), OkKeeps x → x { s0 with budget := s0.budget - 1 } = (.ok a, sf) → sf.lastErr = s0.lastErr :=
      fun x hx hxe => hx.h { s0 with budget := s0.budget - 1 } a sf hxe
    refine key _ ?_ h
    split
    · exact OkKeeps.pure _
    · exact OkKeeps.pure _
    · repeat (first | ok_core | exact hE _ _)
    · repeat (first | ok_core | exact hE _ _)
    · repeat (first | ok_core | exact hP _ _)
    · exact ihI _ _
    · exact whileLoop_ok _ _ (hE _ _) (ihL _ _) _
    · repeat (first | ok_core | exact hE _ _ | exact forLoop_ok _ _ _ _ _ (ihL _ _) _)
    · rename_i it src dir body
      apply OkKeeps.bind (hE _ _); intro tv
      split
      · exact OkKeeps.pure _
      split
      · exact OkKeeps.of_pres (Pres.lift keepErr_rel _)
      refine OkKeeps.ite _ (OkKeeps.pure _) ?_
      apply OkKeeps.bind (OkKeeps.of_pres (Pres.getSt keepErr_rel)); intro s
      refine OkKeeps.ite _ (OkKeeps.of_pres (Pres.failE keepErr_rel _ _)) ?_
      split
      · refine OkKeeps.ite _ (OkKeeps.of_pres (Pres.lift keepErr_rel _)) ?_
        exact forall_run_ok _ _ _ (ihL _ _) _ _
      · rename_i hx
        cases src <;> first
          | exact absurd rfl (hx _)
          | exact forall_run_ok _ _ _ (ihL _ _) _ _
    · exact ihB _ _ _
    · repeat (first | ok_core)
    · exact OkKeeps.pure _
    · repeat (first | ok_core | exact hE _ _)
    · exact OkKeeps.pure _
    · exact OkKeeps.pure _

/-- **Ending without error ⇒ record unchanged**, for ALL code (fifth mutual induction, outcome-sensitive). Before repo 8256736 this
needed the proviso that every block with exception clauses has a clause-free body (`flatL`): a clause that failed left its record
behind and the catching block restored THAT. -/
theorem ok_all (funcs : List Func) : ∀ fuel, AllOk funcs fuel := by
  intro fuel
  induction fuel with
  | zero =>
    refine ⟨?_, ?_, ?_, ?_⟩
    · intro d b c; unfold execBlock; exact OkKeeps.of_pres (Pres.oof keepErr_rel)
    · intro d l; unfold execList; exact OkKeeps.of_pres (Pres.oof keepErr_rel)
    · intro d s; unfold exec; exact OkKeeps.of_pres (Pres.oof keepErr_rel)
    · intro d l; unfold execIf; exact OkKeeps.of_pres (Pres.oof keepErr_rel)
  | succ fuel ih =>
    exact ⟨execBlock_ok_step funcs fuel ih, execList_ok_step funcs fuel ih, exec_ok_step funcs fuel ih, execIf_ok_step funcs fuel ih⟩
end BlocV.Lemmas
