/-
  Helper lemmas for C01 / C02: case analysis of the operators of Model/Ops.lean.
  (Helper lemmas only — the property theorems are in BlocV/Proofs/C01.lean and C02.lean.)

  Contents
    * `Val.tabOk`, `Ty.minorOk`, `Val.wf` : the representation invariants of `Val` that `bloc::Value` has by
      construction (a table value carries a table type; only object and tuple types carry a minor);
    * classification of a non-null level-0 value by its major type (`eq_int_of` …);
    * `Res` plumbing (`isHazard` through bind / `boolRes`);
    * per operator family: no hazard, well-formedness of the result, run-time type of the result
      (`arith_*`, `bitwise_*`, `ordered_*`, `opAdd_*`, `opBand_*`, `opBior_*`, `opBxor_*`, `evalUn_*`).
-/
import BlocV.Model.Typing
import BlocV.Model.Store

namespace BlocV

/-! ### representation invariants -/

/-- A table value carries a table type (`Val.tab t …` has `t.level ≥ 1`, as the comment of
Model/Basic.lean says): in the C++ a `Value` whose payload is a `Collection` always has the
collection's type, whose level is ≥ 1. `Val` does not enforce it; the typed accessors
(`Val.asInt` …) of an ill-formed "table of level 0" would fall through to their null branch. -/
def Val.tabOk : Val → Bool
  | .tab t _ _ => decide (1 ≤ t.level)
  | _ => true

/-- Only object types (module id) and tuple types (structure hash) carry a minor. -/
def Ty.minorOk (t : Ty) : Bool := t.major == .obj || t.major == .tup || t.minor == 0

/-- Top-level well-formedness of a value: what every `bloc::Value` satisfies by construction. -/
def Val.wf (v : Val) : Bool := v.tabOk && v.type.minorOk

/-- "Defined", i.e. not opaque: `Type::NO_TYPE` is the opaque type of parse_expression.cpp /
`typeChecking` (`ty.major == .none` accepts everything). -/
def Ty.defined (t : Ty) : Bool := t.major != .none

theorem Val.tabOk_of_wf {v : Val} (h : v.wf = true) : v.tabOk = true := by
  unfold Val.wf at h; simp at h; exact h.1

@[simp] theorem Val.tabOk_null (t : Ty) : (Val.null t).tabOk = true := rfl
@[simp] theorem Val.tabOk_bool (b : Bool) : (Val.bool b).tabOk = true := rfl
@[simp] theorem Val.tabOk_int (b : Int64) : (Val.int b).tabOk = true := rfl
@[simp] theorem Val.tabOk_num (b : UInt64) : (Val.num b).tabOk = true := rfl
@[simp] theorem Val.tabOk_str (b : Bytes) : (Val.str b).tabOk = true := rfl
@[simp] theorem Val.tabOk_raw (b : Bytes) : (Val.raw b).tabOk = true := rfl

theorem makeTupleTy_major (d : List Ty) (l : Nat) : (makeTupleTy d l).major = .tup := by
  unfold makeTupleTy; split <;> rfl

theorem makeTupleTy_level (d : List Ty) (l : Nat) : (makeTupleTy d l).level = l := by
  unfold makeTupleTy; split <;> rfl

/-! ### classification of non-null level-0 values -/

theorem eq_int_of {a : Val} (hw : a.tabOk = true) (hl : a.type.level = 0) (hm : a.type.major = .int)
    (hn : a.isNull = false) : ∃ i, a = .int i := by
  cases a with
  | int i => exact ⟨i, rfl⟩
  | tup d it => simp [Val.type, makeTupleTy_major] at hm
  | tab t d e => simp [Val.tabOk, Val.type] at hw hl; omega
  | _ => simp_all [Val.type, Val.isNull, Ty.bool, Ty.num, Ty.imag, Ty.str, Ty.raw]

theorem eq_num_of {a : Val} (hw : a.tabOk = true) (hl : a.type.level = 0) (hm : a.type.major = .num)
    (hn : a.isNull = false) : ∃ i, a = .num i := by
  cases a with
  | num i => exact ⟨i, rfl⟩
  | tup d it => simp [Val.type, makeTupleTy_major] at hm
  | tab t d e => simp [Val.tabOk, Val.type] at hw hl; omega
  | _ => simp_all [Val.type, Val.isNull, Ty.bool, Ty.int, Ty.imag, Ty.str, Ty.raw]

theorem eq_bool_of {a : Val} (hw : a.tabOk = true) (hl : a.type.level = 0) (hm : a.type.major = .bool)
    (hn : a.isNull = false) : ∃ i, a = .bool i := by
  cases a with
  | bool i => exact ⟨i, rfl⟩
  | tup d it => simp [Val.type, makeTupleTy_major] at hm
  | tab t d e => simp [Val.tabOk, Val.type] at hw hl; omega
  | _ => simp_all [Val.type, Val.isNull, Ty.num, Ty.int, Ty.imag, Ty.str, Ty.raw]

theorem eq_str_of {a : Val} (hw : a.tabOk = true) (hl : a.type.level = 0) (hm : a.type.major = .str)
    (hn : a.isNull = false) : ∃ i, a = .str i := by
  cases a with
  | str i => exact ⟨i, rfl⟩
  | tup d it => simp [Val.type, makeTupleTy_major] at hm
  | tab t d e => simp [Val.tabOk, Val.type] at hw hl; omega
  | _ => simp_all [Val.type, Val.isNull, Ty.num, Ty.int, Ty.imag, Ty.bool, Ty.raw]

theorem eq_raw_of {a : Val} (hw : a.tabOk = true) (hl : a.type.level = 0) (hm : a.type.major = .raw)
    (hn : a.isNull = false) : ∃ i, a = .raw i := by
  cases a with
  | raw i => exact ⟨i, rfl⟩
  | tup d it => simp [Val.type, makeTupleTy_major] at hm
  | tab t d e => simp [Val.tabOk, Val.type] at hw hl; omega
  | _ => simp_all [Val.type, Val.isNull, Ty.num, Ty.int, Ty.imag, Ty.bool, Ty.str]

/-! ### the typed accessors -/

/-- A typed accessor reaches its null-pointer branch only on a typed null of its own type or on an
ill-formed table value. -/
theorem asInt_no_hazard {a : Val} (hw : a.tabOk = true) (hn : a.isNull = false) : a.asInt.isHazard = false := by
  unfold Val.asInt
  split
  · rfl
  · rename_i h
    simp at h
    obtain ⟨i, rfl⟩ := eq_int_of hw h.2 h.1 hn
    rfl

theorem asNum_no_hazard {a : Val} (hw : a.tabOk = true) (hn : a.isNull = false) : a.asNum.isHazard = false := by
  unfold Val.asNum
  split
  · rfl
  · rename_i h
    simp at h
    obtain ⟨i, rfl⟩ := eq_num_of hw h.2 h.1 hn
    rfl

theorem asBool_no_hazard {a : Val} (hw : a.tabOk = true) (hn : a.isNull = false) : a.asBool.isHazard = false := by
  unfold Val.asBool
  split
  · rfl
  · rename_i h
    simp at h
    obtain ⟨i, rfl⟩ := eq_bool_of hw h.2 h.1 hn
    rfl

theorem asStr_no_hazard {a : Val} (hw : a.tabOk = true) (hn : a.isNull = false) : a.asStr.isHazard = false := by
  unfold Val.asStr
  split
  · rfl
  · rename_i h
    simp at h
    obtain ⟨i, rfl⟩ := eq_str_of hw h.2 h.1 hn
    rfl

theorem asRaw_no_hazard {a : Val} (hw : a.tabOk = true) (hn : a.isNull = false) : a.asRaw.isHazard = false := by
  unfold Val.asRaw
  split
  · rfl
  · rename_i h
    simp at h
    obtain ⟨i, rfl⟩ := eq_raw_of hw h.2 h.1 hn
    rfl

/-! ### `Res` plumbing -/

@[simp] theorem Res.bind_ok {α β} (a : α) (f : α → Res β) : (Res.ok a >>= f) = f a := rfl
@[simp] theorem Res.bind_err {α β} (c : Nat) (x : Bytes) (f : α → Res β) : (Res.err c x >>= f) = .err c x := rfl
@[simp] theorem Res.bind_haz {α β} (h : Hazard) (f : α → Res β) : (Res.haz h >>= f) = .haz h := rfl
@[simp] theorem Res.bind_unm {α β} (f : α → Res β) : (Res.unmodelled >>= f) = .unmodelled := rfl
@[simp] theorem Res.pure_eq {α} (a : α) : (pure a : Res α) = .ok a := rfl

theorem isHazard_bind {α β} (r : Res α) (f : α → Res β) (hr : r.isHazard = false)
    (hf : ∀ a, r = .ok a → (f a).isHazard = false) : (r >>= f).isHazard = false := by
  cases r with
  | ok a => exact hf a rfl
  | err c x => rfl
  | haz h => simp [Res.isHazard] at hr
  | unmodelled => rfl

theorem boolRes_isHazard (r : Res Bool) : (boolRes r).isHazard = r.isHazard := by cases r <;> rfl

/-- `okP P r`: if `r` is a value, the value satisfies `P`. -/
def Res.okP {α} (P : α → Prop) (r : Res α) : Prop := ∀ v, r = .ok v → P v

theorem okP_ok {α} {P : α → Prop} {a : α} (h : P a) : Res.okP P (.ok a) := by
  intro v hv; cases hv; exact h
theorem okP_pure {α} {P : α → Prop} {a : α} (h : P a) : Res.okP P (pure a) := okP_ok h
theorem okP_err {α} {P : α → Prop} {c : Nat} {x : Bytes} : Res.okP P (.err c x) := by intro v hv; cases hv
theorem okP_inv {α} {P : α → Prop} : Res.okP P (inv : Res α) := okP_err
theorem okP_haz {α} {P : α → Prop} {h : Hazard} : Res.okP P (.haz h) := by intro v hv; cases hv
theorem okP_unm {α} {P : α → Prop} : Res.okP P (.unmodelled : Res α) := by intro v hv; cases hv
theorem okP_bind {α β} {P : β → Prop} (r : Res α) (f : α → Res β) (h : ∀ a, r = .ok a → Res.okP P (f a)) :
    Res.okP P (r >>= f) := by
  cases r with
  | ok a => exact h a rfl
  | err c x => exact okP_err
  | haz h => exact okP_haz
  | unmodelled => exact okP_unm
theorem okP_mono {α} {P Q : α → Prop} {r : Res α} (h : Res.okP P r) (hpq : ∀ v, P v → Q v) : Res.okP Q r :=
  fun v hv => hpq v (h v hv)
theorem okP_boolRes {P : Val → Prop} (r : Res Bool) (h : ∀ b, P (.bool b)) : Res.okP P (boolRes r) := by
  cases r with
  | ok b => exact okP_ok (h b)
  | err c x => exact okP_err
  | haz h => exact okP_haz
  | unmodelled => exact okP_unm

/-- `errP E r`: if `r` is a BLOC runtime error, its code satisfies `E`. -/
def Res.errP {α} (E : Nat → Prop) (r : Res α) : Prop := ∀ c x, r = .err c x → E c

theorem errP_ok {α} {E : Nat → Prop} {a : α} : Res.errP E (.ok a) := by intro c x h; cases h
theorem errP_pure {α} {E : Nat → Prop} {a : α} : Res.errP E (pure a) := errP_ok
theorem errP_haz {α} {E : Nat → Prop} {h : Hazard} : Res.errP E (.haz h : Res α) := by intro c x h; cases h
theorem errP_unm {α} {E : Nat → Prop} : Res.errP E (.unmodelled : Res α) := by intro c x h; cases h
theorem errP_err {α} {E : Nat → Prop} {c : Nat} {x : Bytes} (h : E c) : Res.errP E (.err c x : Res α) := by
  intro c' x' h'; cases h'; exact h
theorem errP_bind {α β} {E : Nat → Prop} (r : Res α) (f : α → Res β) (hr : Res.errP E r)
    (h : ∀ a, r = .ok a → Res.errP E (f a)) : Res.errP E (r >>= f) := by
  cases r with
  | ok a => exact h a rfl
  | err c x => exact errP_err (hr c x rfl)
  | haz h => exact errP_haz
  | unmodelled => exact errP_unm
theorem errP_boolRes {E : Nat → Prop} (r : Res Bool) (h : Res.errP E r) : Res.errP E (boolRes r) := by
  cases r with
  | ok b => exact errP_ok
  | err c x => exact errP_err (h c x rfl)
  | haz h => exact errP_haz
  | unmodelled => exact errP_unm

/-- On a non-null level-0 value of the accessor's own type the accessor returns the payload. -/
theorem asInt_errP {E : Nat → Prop} {a : Val} (hw : a.tabOk = true) (hl : a.type.level = 0) (hm : a.type.major = .int)
    (hn : a.isNull = false) : Res.errP E a.asInt := by
  obtain ⟨i, rfl⟩ := eq_int_of hw hl hm hn; exact errP_ok
theorem asNum_errP {E : Nat → Prop} {a : Val} (hw : a.tabOk = true) (hl : a.type.level = 0) (hm : a.type.major = .num)
    (hn : a.isNull = false) : Res.errP E a.asNum := by
  obtain ⟨i, rfl⟩ := eq_num_of hw hl hm hn; exact errP_ok
theorem asStr_errP {E : Nat → Prop} {a : Val} (hw : a.tabOk = true) (hl : a.type.level = 0) (hm : a.type.major = .str)
    (hn : a.isNull = false) : Res.errP E a.asStr := by
  obtain ⟨i, rfl⟩ := eq_str_of hw hl hm hn; exact errP_ok

/-! ### provenance of results

Every value an operator returns is one of its operands, a null of the second operand's type, or a
fresh scalar / scalar-typed null. Well-formedness of results follows from this alone. -/

/-- A freshly built scalar or a null of a plain scalar type (minor 0, level 0). -/
def Val.fresh : Val → Bool
  | .null t => t.minor == 0 && t.level == 0
  | .bool _ | .int _ | .num _ | .str _ | .raw _ => true
  | _ => false

def Prov (a1 a2 v : Val) : Prop := v = a1 ∨ v = a2 ∨ v = .null a2.type ∨ v.fresh = true

theorem fresh_wf {v : Val} (h : v.fresh = true) : v.wf = true := by
  cases v <;> simp_all [Val.fresh, Val.wf, Val.tabOk, Ty.minorOk, Val.type, Ty.bool, Ty.int, Ty.num, Ty.str, Ty.raw]

theorem Prov.tabOk {a1 a2 v : Val} (h : Prov a1 a2 v) (h1 : a1.tabOk = true) (h2 : a2.tabOk = true) : v.tabOk = true := by
  rcases h with rfl | rfl | rfl | h
  · exact h1
  · exact h2
  · rfl
  · exact Val.tabOk_of_wf (fresh_wf h)

theorem Prov.wf {a1 a2 v : Val} (h : Prov a1 a2 v) (h1 : a1.wf = true) (h2 : a2.wf = true) : v.wf = true := by
  rcases h with rfl | rfl | rfl | h
  · exact h1
  · exact h2
  · unfold Val.wf at h2 ⊢; simp at h2 ⊢; exact h2.2
  · exact fresh_wf h

theorem Prov.fresh {a1 a2 v : Val} (h : v.fresh = true) : Prov a1 a2 v := Or.inr (Or.inr (Or.inr h))

open Num

/-! ### arithmetic family -/

theorem arith_no_hazard (nn : Ty) (ii : Int64 → Int64 → Res Int64) (ff : F64 → F64 → Res F64) (imagOk : Bool)
    (a1 a2 : Val) (hii : ∀ x y, (ii x y).isHazard = false) (hff : ∀ x y, (ff x y).isHazard = false)
    (h1 : a1.tabOk = true) (h2 : a2.tabOk = true) : (arith nn ii ff imagOk a1 a2).isHazard = false := by
  unfold arith
  simp only []
  split
  · rfl
  · split
    all_goals first
      | rfl
      | (split <;> rfl)
      | (split
         · rfl
         · rename_i hn
           simp only [Bool.or_eq_true, not_or, Bool.not_eq_true] at hn
           refine isHazard_bind _ _ ?_ (fun x _ => isHazard_bind _ _ ?_ (fun y _ => isHazard_bind _ _ ?_ (fun r _ => rfl)))
           all_goals first
             | exact asInt_no_hazard h1 hn.1 | exact asNum_no_hazard h1 hn.1
             | exact asInt_no_hazard h2 hn.2 | exact asNum_no_hazard h2 hn.2
             | exact hii _ _ | exact hff _ _)

/-- Major type of a value returned by `arith` as a function of the operands' majors. -/
def arithMajor (nn m1 m2 : Major) : Major :=
  match m1, m2 with
  | .none, .none => nn
  | .none, m => m
  | .int, .none | .int, .int => .int
  | _, _ => .num

theorem arith_ok_kind (nn : Ty) (ii : Int64 → Int64 → Res Int64) (ff : F64 → F64 → Res F64) (imagOk : Bool)
    (a1 a2 : Val) (hnn : nn.level = 0) :
    Res.okP (fun v => v.type.level = 0 ∧ v.type.major = arithMajor nn.major a1.type.major a2.type.major)
      (arith nn ii ff imagOk a1 a2) := by
  unfold arith
  simp only []
  split
  · exact okP_inv
  · rename_i hl
    simp only [bne_iff_ne, ne_eq, Bool.or_eq_true, not_or, Decidable.not_not] at hl
    split
    all_goals try simp only [*]
    all_goals first
      | exact okP_inv
      | exact okP_ok ⟨by first | exact hnn | exact hl.2 | rfl, by first | rfl | assumption⟩
      | (split <;> first | exact okP_inv | exact okP_unm | exact okP_ok ⟨hl.2, by assumption⟩)
      | (split
         · exact okP_ok ⟨rfl, rfl⟩
         · refine okP_bind _ _ (fun x _ => okP_bind _ _ (fun y _ => okP_bind _ _ (fun r _ => okP_pure ⟨rfl, rfl⟩))))

theorem arith_prov (nn : Ty) (ii : Int64 → Int64 → Res Int64) (ff : F64 → F64 → Res F64) (imagOk : Bool)
    (a1 a2 : Val) (hnn : nn.minor = 0 ∧ nn.level = 0) :
    Res.okP (Prov a1 a2) (arith nn ii ff imagOk a1 a2) := by
  unfold arith
  simp only []
  split
  · exact okP_inv
  · split
    all_goals first
      | exact okP_inv
      | exact okP_ok (Prov.fresh rfl)
      | exact okP_ok (Or.inr (Or.inr (Or.inl rfl)))
      | (refine okP_ok (Prov.fresh ?_); simp [Val.fresh, hnn]; done)
      | (split <;> first | exact okP_inv | exact okP_unm | exact okP_ok (Or.inr (Or.inr (Or.inl rfl))))
      | (split
         · exact okP_ok (Prov.fresh rfl)
         · refine okP_bind _ _ (fun x _ => okP_bind _ _ (fun y _ => okP_bind _ _ (fun r _ => okP_pure (Prov.fresh rfl)))))

/-- In the cells the parser lets through (level 0; untyped null, integer, decimal, and — where the
operator has them — complex operands) the only runtime error of an arithmetic operator is the one
its scalar function raises. -/
theorem arith_errP (E : Nat → Prop) (nn : Ty) (ii : Int64 → Int64 → Res Int64) (ff : F64 → F64 → Res F64) (imagOk : Bool)
    (a1 a2 : Val) (hii : ∀ x y, Res.errP E (ii x y)) (hff : ∀ x y, Res.errP E (ff x y))
    (h1 : a1.tabOk = true) (h2 : a2.tabOk = true) (hl1 : a1.type.level = 0) (hl2 : a2.type.level = 0)
    (hm1 : a1.type.major = .none ∨ a1.type.major = .int ∨ a1.type.major = .num ∨ (imagOk = true ∧ a1.type.major = .imag))
    (hm2 : a2.type.major = .none ∨ a2.type.major = .int ∨ a2.type.major = .num ∨ (imagOk = true ∧ a2.type.major = .imag)) :
    Res.errP E (arith nn ii ff imagOk a1 a2) := by
  unfold arith
  simp only [hl1, hl2]
  simp only [bne_self_eq_false, Bool.or_self, Bool.false_eq_true, ↓reduceIte]
  split
  all_goals first
    | exact errP_ok
    | (split <;> first | exact errP_ok | exact errP_unm | (exfalso; simp_all; done))
    | (split
       · exact errP_ok
       · rename_i hn
         simp only [Bool.or_eq_true, not_or, Bool.not_eq_true] at hn
         refine errP_bind _ _ ?_ (fun x _ => errP_bind _ _ ?_ (fun y _ => errP_bind _ _ ?_ (fun r _ => errP_pure)))
         all_goals first
           | exact asInt_errP h1 hl1 ‹_› hn.1 | exact asNum_errP h1 hl1 ‹_› hn.1
           | exact asInt_errP h2 hl2 ‹_› hn.2 | exact asNum_errP h2 hl2 ‹_› hn.2
           | exact hii _ _ | exact hff _ _)
    | (exfalso; rename_i hx; rcases hm1 with h | h | h | ⟨_, h⟩ <;> rcases hm2 with h' | h' | h' | ⟨_, h'⟩ <;>
        simp_all)

/-! ### `+` -/

theorem opAdd_no_hazard (a1 a2 : Val) (h1 : a1.tabOk = true) (h2 : a2.tabOk = true) : (opAdd a1 a2).isHazard = false := by
  unfold opAdd
  simp only []
  split
  · rfl
  · split
    · rfl
    · rfl
    · split <;> rfl
    · exact arith_no_hazard _ _ _ _ _ _ (fun _ _ => rfl) (fun _ _ => rfl) h1 h2

def addMajor (m1 m2 : Major) : Major :=
  match m1, m2 with
  | .none, .str | .str, .none | .str, .str => .str
  | _, _ => arithMajor .num m1 m2

theorem opAdd_ok_kind (a1 a2 : Val) :
    Res.okP (fun v => v.type.level = 0 ∧ v.type.major = addMajor a1.type.major a2.type.major) (opAdd a1 a2) := by
  unfold opAdd
  simp only []
  split
  · exact okP_inv
  · rename_i hl
    simp only [bne_iff_ne, ne_eq, Bool.or_eq_true, not_or, Decidable.not_not] at hl
    split
    · rename_i e1 e2; rw [e1, e2]; exact okP_ok ⟨hl.2, e2⟩
    · rename_i e1 e2; rw [e1, e2]; exact okP_ok ⟨hl.1, e1⟩
    · rename_i e1 e2; rw [e1, e2]
      split
      · exact okP_ok ⟨rfl, rfl⟩
      · exact okP_ok ⟨rfl, rfl⟩
      · exact okP_ok ⟨hl.2, e2⟩
    · rename_i n1 n2 n3
      have key : addMajor a1.type.major a2.type.major = arithMajor .num a1.type.major a2.type.major := by
        generalize a1.type.major = m1 at *
        generalize a2.type.major = m2 at *
        cases m1 <;> cases m2 <;> simp_all [addMajor]
      rw [key]
      exact arith_ok_kind Ty.num _ _ _ a1 a2 rfl



theorem opAdd_prov (a1 a2 : Val) : Res.okP (Prov a1 a2) (opAdd a1 a2) := by
  unfold opAdd
  simp only []
  split
  · exact okP_inv
  · split
    · exact okP_ok (Or.inr (Or.inl rfl))
    · exact okP_ok (Or.inl rfl)
    · split
      · exact okP_ok (Prov.fresh rfl)
      · exact okP_ok (Prov.fresh rfl)
      · exact okP_ok (Or.inr (Or.inl rfl))
    · exact arith_prov Ty.num _ _ _ a1 a2 ⟨rfl, rfl⟩

def numish (m : Major) : Bool := m == .none || m == .int || m == .num || m == .imag

/-- The (major, major) cells in which `op_add.cpp` has a case. -/
def addCell (m1 m2 : Major) : Bool :=
  match m1, m2 with
  | .none, .str | .str, .none | .str, .str => true
  | _, _ => numish m1 && numish m2

theorem opAdd_errP (E : Nat → Prop) (a1 a2 : Val) (h1 : a1.tabOk = true) (h2 : a2.tabOk = true)
    (hl1 : a1.type.level = 0) (hl2 : a2.type.level = 0) (hc : addCell a1.type.major a2.type.major = true) :
    Res.errP E (opAdd a1 a2) := by
  unfold opAdd
  simp only [hl1, hl2]
  simp only [bne_self_eq_false, Bool.or_self, Bool.false_eq_true, ↓reduceIte]
  split
  · exact errP_ok
  · exact errP_ok
  · split <;> exact errP_ok
  · rename_i n1 n2 n3
    have key : numish a1.type.major = true ∧ numish a2.type.major = true := by
      generalize a1.type.major = m1 at *
      generalize a2.type.major = m2 at *
      cases m1 <;> cases m2 <;> simp_all [addCell, numish]
    refine arith_errP E _ _ _ true a1 a2 (fun _ _ => errP_ok) (fun _ _ => errP_ok) h1 h2 hl1 hl2 ?_ ?_
    · have := key.1; generalize a1.type.major = m1 at *; cases m1 <;> simp_all [numish]
    · have := key.2; generalize a2.type.major = m2 at *; cases m2 <;> simp_all [numish]

/-! ### bitwise and shifts -/

theorem bitwise_no_hazard (ii : Int64 → Int64 → Int64) (a1 a2 : Val) (h1 : a1.tabOk = true) (h2 : a2.tabOk = true) :
    (bitwise ii a1 a2).isHazard = false := by
  unfold bitwise
  simp only []
  split
  · rfl
  · split
    all_goals first
      | rfl
      | (split
         · rfl
         · rename_i hn
           simp only [Bool.or_eq_true, not_or, Bool.not_eq_true] at hn
           exact isHazard_bind _ _ (asInt_no_hazard h1 hn.1) (fun x _ => isHazard_bind _ _ (asInt_no_hazard h2 hn.2) (fun y _ => rfl)))

theorem bitwise_ok (ii : Int64 → Int64 → Int64) (a1 a2 : Val) :
    Res.okP (fun v => v.type = Ty.int ∧ v.fresh = true) (bitwise ii a1 a2) := by
  unfold bitwise
  simp only []
  split
  · exact okP_inv
  · split
    all_goals first
      | exact okP_inv
      | exact okP_ok ⟨rfl, rfl⟩
      | (split
         · exact okP_ok ⟨rfl, rfl⟩
         · exact okP_bind _ _ (fun x _ => okP_bind _ _ (fun y _ => okP_pure ⟨rfl, rfl⟩)))

theorem bitwise_errP (E : Nat → Prop) (ii : Int64 → Int64 → Int64) (a1 a2 : Val) (h1 : a1.tabOk = true) (h2 : a2.tabOk = true)
    (hl1 : a1.type.level = 0) (hl2 : a2.type.level = 0)
    (hm1 : a1.type.major = .none ∨ a1.type.major = .int) (hm2 : a2.type.major = .none ∨ a2.type.major = .int) :
    Res.errP E (bitwise ii a1 a2) := by
  unfold bitwise
  simp only [hl1, hl2]
  simp only [bne_self_eq_false, Bool.or_self, Bool.false_eq_true, ↓reduceIte]
  split
  all_goals first
    | exact errP_ok
    | (split
       · exact errP_ok
       · rename_i hn
         simp only [Bool.or_eq_true, not_or, Bool.not_eq_true] at hn
         exact errP_bind _ _ (asInt_errP h1 hl1 ‹_› hn.1) (fun x _ => errP_bind _ _ (asInt_errP h2 hl2 ‹_› hn.2) (fun y _ => errP_pure)))
    | (exfalso; rcases hm1 with h | h <;> rcases hm2 with h' | h' <;> simp_all)

/-! ### `==` `!=` : no accessor, no error at all -/

theorem eqCore_total (same : Bool) (a1 a2 : Val) : (∃ b, eqCore same a1 a2 = .ok b) ∨ eqCore same a1 a2 = .unmodelled := by
  unfold eqCore
  simp only []
  split
  · exact Or.inl ⟨_, rfl⟩
  · split
    · exact Or.inl ⟨_, rfl⟩
    · split <;> first | exact Or.inl ⟨_, rfl⟩ | exact Or.inr rfl

theorem neCore_total (same : Bool) (a1 a2 : Val) : (∃ b, neCore same a1 a2 = .ok b) ∨ neCore same a1 a2 = .unmodelled := by
  unfold neCore
  simp only []
  split
  · exact Or.inl ⟨_, rfl⟩
  · split
    · exact Or.inl ⟨_, rfl⟩
    · split <;> first | exact Or.inl ⟨_, rfl⟩ | exact Or.inr rfl

theorem opEq_total (same : Bool) (a1 a2 : Val) :
    (∃ v, opEq same a1 a2 = .ok v ∧ v.type = Ty.bool ∧ v.fresh = true) ∨ opEq same a1 a2 = .unmodelled := by
  unfold opEq
  split
  · exact Or.inl ⟨_, rfl, rfl, rfl⟩
  · rcases eqCore_total same a1 a2 with ⟨b, h⟩ | h <;> rw [h]
    · exact Or.inl ⟨_, rfl, rfl, rfl⟩
    · exact Or.inr rfl

theorem opNe_total (same : Bool) (a1 a2 : Val) :
    (∃ v, opNe same a1 a2 = .ok v ∧ v.type = Ty.bool ∧ v.fresh = true) ∨ opNe same a1 a2 = .unmodelled := by
  unfold opNe
  split
  · exact Or.inl ⟨_, rfl, rfl, rfl⟩
  · rcases neCore_total same a1 a2 with ⟨b, h⟩ | h <;> rw [h]
    · exact Or.inl ⟨_, rfl, rfl, rfl⟩
    · exact Or.inr rfl

/-! ### `<` `<=` `>` `>=` -/

theorem ordered_no_hazard (ci : Int64 → Int64 → Bool) (cf : F64 → F64 → Bool) (cs : Ordering → Bool) (a1 a2 : Val)
    (h1 : a1.tabOk = true) (h2 : a2.tabOk = true) : (ordered ci cf cs a1 a2).isHazard = false := by
  unfold ordered
  split
  · rfl
  · rename_i hn
    simp only [Bool.or_eq_true, not_or, Bool.not_eq_true] at hn
    rw [boolRes_isHazard]
    unfold ordCore
    split
    · split
      · exact isHazard_bind _ _ (asInt_no_hazard h1 hn.1) (fun x _ => isHazard_bind _ _ (asNum_no_hazard h2 hn.2) (fun y _ => rfl))
      · exact isHazard_bind _ _ (asInt_no_hazard h1 hn.1) (fun x _ => isHazard_bind _ _ (asInt_no_hazard h2 hn.2) (fun y _ => rfl))
    · split
      · exact isHazard_bind _ _ (asNum_no_hazard h1 hn.1) (fun x _ => isHazard_bind _ _ (asInt_no_hazard h2 hn.2) (fun y _ => rfl))
      · exact isHazard_bind _ _ (asNum_no_hazard h1 hn.1) (fun x _ => isHazard_bind _ _ (asNum_no_hazard h2 hn.2) (fun y _ => rfl))
    · exact isHazard_bind _ _ (asStr_no_hazard h1 hn.1) (fun x _ => isHazard_bind _ _ (asStr_no_hazard h2 hn.2) (fun y _ => rfl))
    · rfl

theorem ordered_ok (ci : Int64 → Int64 → Bool) (cf : F64 → F64 → Bool) (cs : Ordering → Bool) (a1 a2 : Val) :
    Res.okP (fun v => v.type = Ty.bool ∧ v.fresh = true) (ordered ci cf cs a1 a2) := by
  unfold ordered
  split
  · exact okP_ok ⟨rfl, rfl⟩
  · exact okP_boolRes _ (fun b => ⟨rfl, rfl⟩)

/-- The cells in which an ordering comparison of two non-null level-0 operands raises no type error:
number with number, string with string, or a first operand that is neither (the C++ returns false). -/
def ordCell (m1 m2 : Major) : Bool :=
  match m1 with
  | .int | .num => m2 == .int || m2 == .num
  | .str => m2 == .str
  | _ => true

theorem ordered_errP (E : Nat → Prop) (ci : Int64 → Int64 → Bool) (cf : F64 → F64 → Bool) (cs : Ordering → Bool) (a1 a2 : Val)
    (h1 : a1.tabOk = true) (h2 : a2.tabOk = true) (hl1 : a1.type.level = 0) (hl2 : a2.type.level = 0)
    (hc : a1.isNull = false → a2.isNull = false → ordCell a1.type.major a2.type.major = true) :
    Res.errP E (ordered ci cf cs a1 a2) := by
  unfold ordered
  split
  · exact errP_ok
  · rename_i hn
    simp only [Bool.or_eq_true, not_or, Bool.not_eq_true] at hn
    have hc := hc hn.1 hn.2
    apply errP_boolRes
    unfold ordCore
    split
    · rename_i e1
      rw [e1] at hc
      simp only [ordCell, Bool.or_eq_true, beq_iff_eq] at hc
      split
      · rename_i e2; simp only [beq_iff_eq] at e2
        exact errP_bind _ _ (asInt_errP h1 hl1 e1 hn.1) (fun x _ => errP_bind _ _ (asNum_errP h2 hl2 e2 hn.2) (fun y _ => errP_pure))
      · rename_i e2; simp only [beq_iff_eq] at e2
        have e2' : a2.type.major = .int := by rcases hc with h | h; exact h; exact absurd h e2
        exact errP_bind _ _ (asInt_errP h1 hl1 e1 hn.1) (fun x _ => errP_bind _ _ (asInt_errP h2 hl2 e2' hn.2) (fun y _ => errP_pure))
    · rename_i e1
      rw [e1] at hc
      simp only [ordCell, Bool.or_eq_true, beq_iff_eq] at hc
      split
      · rename_i e2; simp only [beq_iff_eq] at e2
        exact errP_bind _ _ (asNum_errP h1 hl1 e1 hn.1) (fun x _ => errP_bind _ _ (asInt_errP h2 hl2 e2 hn.2) (fun y _ => errP_pure))
      · rename_i e2; simp only [beq_iff_eq] at e2
        have e2' : a2.type.major = .num := by rcases hc with h | h; exact absurd h e2; exact h
        exact errP_bind _ _ (asNum_errP h1 hl1 e1 hn.1) (fun x _ => errP_bind _ _ (asNum_errP h2 hl2 e2' hn.2) (fun y _ => errP_pure))
    · rename_i e1
      rw [e1] at hc
      simp only [ordCell, beq_iff_eq] at hc
      exact errP_bind _ _ (asStr_errP h1 hl1 e1 hn.1) (fun x _ => errP_bind _ _ (asStr_errP h2 hl2 hc hn.2) (fun y _ => errP_pure))
    · exact errP_ok


/-! ### `and` `or` `xor` — stated for an arbitrary (lazy) second operand -/

theorem opBand_no_hazard (a1 : Val) (a2 : Unit → Res Val) (h : (a2 ()).isHazard = false) : (opBand a1 a2).isHazard = false := by
  unfold opBand
  split
  · rfl
  · split
    · refine isHazard_bind _ _ h (fun v2 _ => ?_)
      repeat' split
      all_goals rfl
    · split
      · rfl
      · refine isHazard_bind _ _ h (fun v2 _ => ?_)
        repeat' split
        all_goals rfl
    · rfl

theorem opBior_no_hazard (a1 : Val) (a2 : Unit → Res Val) (h : (a2 ()).isHazard = false) : (opBior a1 a2).isHazard = false := by
  unfold opBior
  split
  · rfl
  · split
    · refine isHazard_bind _ _ h (fun v2 _ => ?_)
      repeat' split
      all_goals rfl
    · split
      · rfl
      · refine isHazard_bind _ _ h (fun v2 _ => ?_)
        repeat' split
        all_goals rfl
    · rfl

theorem opBand_ok (a1 : Val) (a2 : Unit → Res Val) : Res.okP (fun v => v.type = Ty.bool ∧ v.fresh = true) (opBand a1 a2) := by
  unfold opBand
  split
  · exact okP_inv
  · split
    · refine okP_bind _ _ (fun v2 _ => ?_)
      repeat' split
      all_goals first | exact okP_inv | exact okP_pure ⟨rfl, rfl⟩
    · split
      · exact okP_ok ⟨rfl, rfl⟩
      · refine okP_bind _ _ (fun v2 _ => ?_)
        repeat' split
        all_goals first | exact okP_inv | exact okP_pure ⟨rfl, rfl⟩
    · exact okP_inv

theorem opBior_ok (a1 : Val) (a2 : Unit → Res Val) : Res.okP (fun v => v.type = Ty.bool ∧ v.fresh = true) (opBior a1 a2) := by
  unfold opBior
  split
  · exact okP_inv
  · split
    · refine okP_bind _ _ (fun v2 _ => ?_)
      repeat' split
      all_goals first | exact okP_inv | exact okP_pure ⟨rfl, rfl⟩
    · split
      · exact okP_ok ⟨rfl, rfl⟩
      · refine okP_bind _ _ (fun v2 _ => ?_)
        repeat' split
        all_goals first | exact okP_inv | exact okP_pure ⟨rfl, rfl⟩
    · exact okP_inv

/-- With boolean or untyped level-0 operands (what `assertType(…, BOOLEAN)` lets through) `and`/`or`
raise nothing of their own: an error can only come from evaluating the second operand. -/
theorem opBand_errP (E : Nat → Prop) (a1 : Val) (a2 : Unit → Res Val) (hl1 : a1.type.level = 0)
    (hm1 : a1.type.major = .none ∨ a1.type.major = .bool)
    (h2 : Res.errP E (a2 ())) (h2t : Res.okP (fun v => v.type.level = 0 ∧ (v.type.major = .none ∨ v.type.major = .bool)) (a2 ())) :
    Res.errP E (opBand a1 a2) := by
  unfold opBand
  simp only [hl1, bne_self_eq_false, Bool.false_eq_true, ↓reduceIte]
  split
  · refine errP_bind _ _ h2 (fun v2 hv => ?_)
    have := h2t v2 hv
    simp only [this.1, bne_self_eq_false, Bool.false_eq_true, ↓reduceIte]
    repeat' split
    all_goals first | exact errP_pure | (exfalso; rcases this.2 with h | h <;> simp_all)
  · split
    · exact errP_ok
    · refine errP_bind _ _ h2 (fun v2 hv => ?_)
      have := h2t v2 hv
      simp only [this.1, bne_self_eq_false, Bool.false_eq_true, ↓reduceIte]
      repeat' split
      all_goals first | exact errP_pure | (exfalso; rcases this.2 with h | h <;> simp_all)
  · exfalso; rcases hm1 with h | h <;> simp_all

theorem opBior_errP (E : Nat → Prop) (a1 : Val) (a2 : Unit → Res Val) (hl1 : a1.type.level = 0)
    (hm1 : a1.type.major = .none ∨ a1.type.major = .bool)
    (h2 : Res.errP E (a2 ())) (h2t : Res.okP (fun v => v.type.level = 0 ∧ (v.type.major = .none ∨ v.type.major = .bool)) (a2 ())) :
    Res.errP E (opBior a1 a2) := by
  unfold opBior
  simp only [hl1, bne_self_eq_false, Bool.false_eq_true, ↓reduceIte]
  split
  · refine errP_bind _ _ h2 (fun v2 hv => ?_)
    have := h2t v2 hv
    simp only [this.1, bne_self_eq_false, Bool.false_eq_true, ↓reduceIte]
    repeat' split
    all_goals first | exact errP_pure | (exfalso; rcases this.2 with h | h <;> simp_all)
  · split
    · exact errP_ok
    · refine errP_bind _ _ h2 (fun v2 hv => ?_)
      have := h2t v2 hv
      simp only [this.1, bne_self_eq_false, Bool.false_eq_true, ↓reduceIte]
      repeat' split
      all_goals first | exact errP_pure | (exfalso; rcases this.2 with h | h <;> simp_all)
  · exfalso; rcases hm1 with h | h <;> simp_all

theorem opBxor_no_hazard (a1 a2 : Val) : (opBxor a1 a2).isHazard = false := by
  unfold opBxor
  simp only []
  repeat' split
  all_goals rfl

theorem opBxor_ok_kind (a1 a2 : Val) :
    Res.okP (fun v => v.type.level = 0 ∧ v.type.major = .bool) (opBxor a1 a2) := by
  unfold opBxor
  simp only []
  split
  · exact okP_inv
  · rename_i hl
    simp only [bne_iff_ne, ne_eq, Bool.or_eq_true, not_or, Decidable.not_not] at hl
    split
    · exact okP_ok ⟨rfl, rfl⟩
    · exact okP_ok ⟨rfl, rfl⟩
    · exact okP_ok ⟨rfl, rfl⟩
    · rename_i e1 e2
      split
      · exact okP_ok ⟨rfl, rfl⟩
      · exact okP_ok ⟨hl.2, e2⟩
      · exact okP_ok ⟨hl.1, e1⟩
    · exact okP_inv

theorem opBxor_prov (a1 a2 : Val) : Res.okP (Prov a1 a2) (opBxor a1 a2) := by
  unfold opBxor
  simp only []
  split
  · exact okP_inv
  · split
    · exact okP_ok (Prov.fresh rfl)
    · exact okP_ok (Prov.fresh rfl)
    · exact okP_ok (Prov.fresh rfl)
    · split
      · exact okP_ok (Prov.fresh rfl)
      · exact okP_ok (Or.inr (Or.inl rfl))
      · exact okP_ok (Or.inl rfl)
    · exact okP_inv

theorem opBxor_errP (E : Nat → Prop) (a1 a2 : Val) (hl1 : a1.type.level = 0) (hl2 : a2.type.level = 0)
    (hm1 : a1.type.major = .none ∨ a1.type.major = .bool) (hm2 : a2.type.major = .none ∨ a2.type.major = .bool) :
    Res.errP E (opBxor a1 a2) := by
  unfold opBxor
  simp only [hl1, hl2]
  simp only [bne_self_eq_false, Bool.or_self, Bool.false_eq_true, ↓reduceIte]
  split
  · exact errP_ok
  · exact errP_ok
  · exact errP_ok
  · split <;> exact errP_ok
  · exfalso; rcases hm1 with h | h <;> rcases hm2 with h' | h' <;> simp_all

/-! ### unary operators -/

theorem evalUn_no_hazard_all (op : UnOp) (a1 : Val) : (evalUn op a1).isHazard = false := by
  unfold evalUn
  repeat' split
  all_goals rfl

theorem evalUn_prov (op : UnOp) (a1 : Val) : Res.okP (fun v => v = a1 ∨ v.fresh = true) (evalUn op a1) := by
  unfold evalUn
  split
  · exact okP_inv
  · repeat' split
    all_goals first | exact okP_inv | exact okP_unm | exact okP_ok (Or.inl rfl) | exact okP_ok (Or.inr rfl)

/-- `-x` and `+x` return a value of exactly the operand's type, for every operand. -/
theorem evalUn_negpos_type (op : UnOp) (hop : op = .neg ∨ op = .pos) (a1 : Val) :
    Res.okP (fun v => v.type = a1.type) (evalUn op a1) := by
  unfold evalUn
  split
  · exact okP_inv
  · rcases hop with rfl | rfl
    all_goals
      repeat' split
      all_goals first | exact okP_inv | exact okP_unm | exact okP_ok rfl | simp_all

theorem evalUn_ok_kind (op : UnOp) (a1 : Val) :
    Res.okP (fun v => v.type.level = 0 ∧ v.type.major = (typeUn op a1.type).major) (evalUn op a1) := by
  unfold evalUn
  split
  · exact okP_inv
  · rename_i hl
    simp only [bne_iff_ne, ne_eq, Decidable.not_not] at hl
    cases op
    all_goals
      simp only [typeUn]
      repeat' split
      all_goals first
        | exact okP_inv | exact okP_unm | exact okP_ok ⟨hl, rfl⟩ | exact okP_ok ⟨rfl, rfl⟩
        | (exact okP_ok ⟨hl, by assumption⟩) | (exact okP_ok ⟨rfl, by simp_all [Val.type]⟩) | simp_all

/-- The cells in which a unary operator's `value()` has a case. -/
def unCell (op : UnOp) (m : Major) : Bool :=
  match op with
  | .neg | .pos => m == .none || m == .int || m == .num || m == .imag
  | .not => m == .none || m == .int
  | .bnot => m == .none || m == .bool

theorem evalUn_errP (E : Nat → Prop) (op : UnOp) (a1 : Val) (hl : a1.type.level = 0) (hc : unCell op a1.type.major = true) :
    Res.errP E (evalUn op a1) := by
  unfold evalUn
  simp only [hl, bne_self_eq_false, Bool.false_eq_true, ↓reduceIte]
  cases op
  all_goals
    repeat' split
    all_goals first | exact errP_ok | exact errP_unm | (exfalso; simp_all [unCell]; done)

end BlocV

namespace BlocV
open Num

/-! ### scalar functions -/

theorem idiv_no_hazard (a b : Int64) : (idiv a b).isHazard = false := by
  unfold idiv; repeat' split
  all_goals rfl
theorem imod_no_hazard (a b : Int64) : (imod a b).isHazard = false := by
  unfold imod; repeat' split
  all_goals rfl
theorem ipow_no_hazard (a b : Int64) : (ipow a b).isHazard = false := by
  unfold ipow; repeat' split
  all_goals rfl
theorem fdivChecked_no_hazard (a b : F64) : (fdivChecked a b).isHazard = false := by
  unfold fdivChecked; split <;> rfl
theorem fmodChecked_no_hazard (a b : F64) : (fmodChecked a b).isHazard = false := by
  unfold fmodChecked; split <;> rfl

def isDbz (c : Nat) : Prop := c = Gen.EXC_RT_DIVIDE_BY_ZERO

theorem idiv_errP (a b : Int64) : Res.errP isDbz (idiv a b) := by
  unfold idiv; repeat' split
  all_goals first | exact errP_ok | exact errP_err rfl
theorem imod_errP (a b : Int64) : Res.errP isDbz (imod a b) := by
  unfold imod; repeat' split
  all_goals first | exact errP_ok | exact errP_err rfl
theorem ipow_errP (a b : Int64) : Res.errP isDbz (ipow a b) := by
  unfold ipow; repeat' split
  all_goals first | exact errP_ok | exact errP_err rfl
theorem fdivChecked_errP (a b : F64) : Res.errP isDbz (fdivChecked a b) := by
  unfold fdivChecked; split
  all_goals first | exact errP_ok | exact errP_err rfl
theorem fmodChecked_errP (a b : F64) : Res.errP isDbz (fmodChecked a b) := by
  unfold fmodChecked; split
  all_goals first | exact errP_ok | exact errP_err rfl

/-! ### all binary operators: provenance of the result -/

theorem evalBin_prov (op : BinOp) (a b : Val) (same : Bool) : Res.okP (Prov a b) (evalBin op a b same) := by
  cases op
  case add => exact opAdd_prov a b
  case sub => exact arith_prov Ty.num (fun x y => .ok (isub x y)) (fun x y => .ok (fsub x y)) true a b ⟨rfl, rfl⟩
  case mul => exact arith_prov Ty.num (fun x y => .ok (imul x y)) (fun x y => .ok (fmul x y)) true a b ⟨rfl, rfl⟩
  case div => exact arith_prov Ty.num idiv fdivChecked true a b ⟨rfl, rfl⟩
  case exp => exact arith_prov Ty.num ipow (fun x y => .ok (fpow x y)) true a b ⟨rfl, rfl⟩
  case mod => exact arith_prov Ty.none imod fmodChecked false a b ⟨rfl, rfl⟩
  case and => exact okP_mono (bitwise_ok _ a b) (fun v h => Prov.fresh h.2)
  case ior => exact okP_mono (bitwise_ok _ a b) (fun v h => Prov.fresh h.2)
  case xor => exact okP_mono (bitwise_ok _ a b) (fun v h => Prov.fresh h.2)
  case pop => exact okP_mono (bitwise_ok _ a b) (fun v h => Prov.fresh h.2)
  case pus => exact okP_mono (bitwise_ok _ a b) (fun v h => Prov.fresh h.2)
  case eq =>
    intro v hv
    rcases opEq_total same a b with ⟨w, h, _, hf⟩ | h <;> simp only [evalBin, h] at hv
    · cases hv; exact Prov.fresh hf
    · cases hv
  case ne =>
    intro v hv
    rcases opNe_total same a b with ⟨w, h, _, hf⟩ | h <;> simp only [evalBin, h] at hv
    · cases hv; exact Prov.fresh hf
    · cases hv
  case lt => exact okP_mono (ordered_ok _ _ _ a b) (fun v h => Prov.fresh h.2)
  case le => exact okP_mono (ordered_ok _ _ _ a b) (fun v h => Prov.fresh h.2)
  case gt => exact okP_mono (ordered_ok _ _ _ a b) (fun v h => Prov.fresh h.2)
  case ge => exact okP_mono (ordered_ok _ _ _ a b) (fun v h => Prov.fresh h.2)
  case band => exact okP_mono (opBand_ok a (fun _ => .ok b)) (fun v h => Prov.fresh h.2)
  case bior => exact okP_mono (opBior_ok a (fun _ => .ok b)) (fun v h => Prov.fresh h.2)
  case bxor => exact opBxor_prov a b

theorem getD_tabOk (l : List Val) (i : Nat) (h : ∀ v ∈ l, v.tabOk = true) : (l.getD i (.null Ty.none)).tabOk = true := by
  rw [List.getD_eq_getElem?_getD]
  cases hi : l[i]? with
  | none => rfl
  | some v => exact h v (List.mem_of_getElem? hi)

end BlocV

namespace BlocV
open Num

/-- The (major, major) cells in which the arithmetic operators have a case. -/
def arithCell (imagOk : Bool) (m1 m2 : Major) : Bool :=
  match m1, m2 with
  | .none, .imag => imagOk
  | _, _ => (m1 == .none || m1 == .int || m1 == .num) && (m2 == .none || m2 == .int || m2 == .num)

/-- The cells in which `+` returns a value. -/
def addOkCell (m1 m2 : Major) : Bool :=
  match m1, m2 with
  | .none, .str | .str, .none | .str, .str => true
  | _, _ => arithCell true m1 m2

theorem arith_ok_cell (nn : Ty) (ii : Int64 → Int64 → Res Int64) (ff : F64 → F64 → Res F64) (imagOk : Bool)
    (a1 a2 : Val) :
    Res.okP (fun _ => arithCell imagOk a1.type.major a2.type.major = true) (arith nn ii ff imagOk a1 a2) := by
  unfold arith
  simp only []
  split
  · exact okP_inv
  · split
    all_goals try simp only [*]
    all_goals first
      | exact okP_inv
      | exact okP_ok (by simp [arithCell])
      | (split <;> first | exact okP_inv | exact okP_unm | exact okP_ok (by simp_all [arithCell]))
      | (split
         · exact okP_ok (by simp [arithCell])
         · refine okP_bind _ _ (fun x _ => okP_bind _ _ (fun y _ => okP_bind _ _ (fun r _ => okP_pure (by simp [arithCell])))))

theorem opAdd_ok_cell (a1 a2 : Val) :
    Res.okP (fun _ => addOkCell a1.type.major a2.type.major = true) (opAdd a1 a2) := by
  unfold opAdd
  simp only []
  split
  · exact okP_inv
  · split
    · rename_i e1 e2; rw [e1, e2]; exact okP_ok rfl
    · rename_i e1 e2; rw [e1, e2]; exact okP_ok rfl
    · rename_i e1 e2; rw [e1, e2]; split <;> exact okP_ok rfl
    · rename_i n1 n2 n3
      refine okP_mono (arith_ok_cell Ty.num _ _ true a1 a2) (fun v h => ?_)
      generalize a1.type.major = m1 at *
      generalize a2.type.major = m2 at *
      cases m1 <;> cases m2 <;> simp_all [addOkCell, arithCell]

/-- Major type of the value a binary operator returns, as a function of the operands' majors (meaningful in the
cells where the operator returns a value at all). -/
def binMajor (op : BinOp) (m1 m2 : Major) : Major :=
  match op with
  | .add => addMajor m1 m2
  | .sub | .mul | .div | .exp => arithMajor .num m1 m2
  | .mod => arithMajor .none m1 m2
  | .and | .ior | .xor | .pop | .pus => .int
  | _ => .bool

/-- The cells in which a binary operator can return a value (level 0 is implied for all but `==`, `!=` and the
orderings, which accept any operands). -/
def binCell (op : BinOp) (m1 m2 : Major) : Bool :=
  match op with
  | .add => addOkCell m1 m2
  | .sub | .mul | .div | .exp => arithCell true m1 m2
  | .mod => arithCell false m1 m2
  | _ => true

/-- **Run-time type of every operator result**, for ALL operand values: level 0, and the major given by `binMajor`;
the operands were in a cell of `binCell`. -/
theorem evalBin_ok_kind (op : BinOp) (a b : Val) (same : Bool) :
    Res.okP (fun v => v.type.level = 0 ∧ v.type.major = binMajor op a.type.major b.type.major ∧
      binCell op a.type.major b.type.major = true) (evalBin op a b same) := by
  have ar : ∀ (nn : Ty) ii ff imagOk, nn.level = 0 →
      Res.okP (fun v => v.type.level = 0 ∧ v.type.major = arithMajor nn.major a.type.major b.type.major ∧
        arithCell imagOk a.type.major b.type.major = true) (arith nn ii ff imagOk a b) := by
    intro nn ii ff imagOk hnn v hv
    exact ⟨(arith_ok_kind nn ii ff imagOk a b hnn v hv).1, (arith_ok_kind nn ii ff imagOk a b hnn v hv).2,
      arith_ok_cell nn ii ff imagOk a b v hv⟩
  have tb : ∀ r : Res Val, Res.okP (fun v => v.type = Ty.bool ∧ v.fresh = true) r →
      Res.okP (fun v => v.type.level = 0 ∧ v.type.major = .bool ∧ true = true) r := by
    intro r h v hv; rw [(h v hv).1]; exact ⟨rfl, rfl, rfl⟩
  have ti : ∀ r : Res Val, Res.okP (fun v => v.type = Ty.int ∧ v.fresh = true) r →
      Res.okP (fun v => v.type.level = 0 ∧ v.type.major = .int ∧ true = true) r := by
    intro r h v hv; rw [(h v hv).1]; exact ⟨rfl, rfl, rfl⟩
  cases op
  case add =>
    intro v hv
    exact ⟨(opAdd_ok_kind a b v hv).1, (opAdd_ok_kind a b v hv).2, opAdd_ok_cell a b v hv⟩
  case sub => exact ar Ty.num (fun x y => .ok (isub x y)) (fun x y => .ok (fsub x y)) true rfl
  case mul => exact ar Ty.num (fun x y => .ok (imul x y)) (fun x y => .ok (fmul x y)) true rfl
  case div => exact ar Ty.num idiv fdivChecked true rfl
  case exp => exact ar Ty.num ipow (fun x y => .ok (fpow x y)) true rfl
  case mod => exact ar Ty.none imod fmodChecked false rfl
  case and => exact ti _ (bitwise_ok _ a b)
  case ior => exact ti _ (bitwise_ok _ a b)
  case xor => exact ti _ (bitwise_ok _ a b)
  case pop => exact ti _ (bitwise_ok _ a b)
  case pus => exact ti _ (bitwise_ok _ a b)
  case eq =>
    intro v hv
    rcases opEq_total same a b with ⟨w, h, ht, _⟩ | h <;> simp only [evalBin, h] at hv
    · cases hv; rw [ht]; exact ⟨rfl, rfl, rfl⟩
    · cases hv
  case ne =>
    intro v hv
    rcases opNe_total same a b with ⟨w, h, ht, _⟩ | h <;> simp only [evalBin, h] at hv
    · cases hv; rw [ht]; exact ⟨rfl, rfl, rfl⟩
    · cases hv
  case lt => exact tb _ (ordered_ok _ _ _ a b)
  case le => exact tb _ (ordered_ok _ _ _ a b)
  case gt => exact tb _ (ordered_ok _ _ _ a b)
  case ge => exact tb _ (ordered_ok _ _ _ a b)
  case band => exact tb _ (opBand_ok a (fun _ => .ok b))
  case bior => exact tb _ (opBior_ok a (fun _ => .ok b))
  case bxor =>
    intro v hv
    exact ⟨(opBxor_ok_kind a b v hv).1, (opBxor_ok_kind a b v hv).2, rfl⟩


end BlocV

/-! ### static type rule against run-time major: the whole finite table, decided once -/

namespace BlocV

def allMajors : List Major := [.none, .bool, .int, .num, .str, .obj, .raw, .tup, .ptr, .imag]
theorem mem_allMajors (m : Major) : m ∈ allMajors := by cases m <;> simp [allMajors]
def allBinOps : List BinOp :=
  [.add, .sub, .mul, .div, .exp, .mod, .and, .ior, .xor, .pop, .pus, .eq, .ne, .lt, .le, .gt, .ge, .band, .bior, .bxor]
theorem mem_allBinOps (op : BinOp) : op ∈ allBinOps := by cases op <;> simp [allBinOps]

/-- `typeBin` looks at the majors only. -/
theorem typeBin_majors (op : BinOp) (s1 s2 : Ty) : typeBin op s1 s2 = typeBin op { major := s1.major } { major := s2.major } := by
  cases op <;> rfl

/-- A static operand type as the parser may know it: the operand's exact type, or opaque. -/
def staticOf (opq : Bool) (m : Major) : Ty := { major := if opq then .none else m }

def binTypeGapM (op : BinOp) (s1 s2 m1 m2 : Major) : Bool :=
  match op with
  | .sub | .mul | .div | .exp | .mod =>
    let r := binMajor op m1 m2
    (r == .int && !(s1 == .int && s2 == .int)) || r == .none || (r == .imag && !(s1 == .imag || s2 == .imag))
  | _ => false



theorem typeTable :
    (allBinOps.all fun op => allMajors.all fun m1 => allMajors.all fun m2 => [true, false].all fun o1 => [true, false].all fun o2 =>
      let s1 := staticOf o1 m1
      let s2 := staticOf o2 m2
      !(binCell op m1 m2) || !(typeBin op s1 s2).defined ||
        (if binTypeGapM op s1.major s2.major m1 m2 then (typeBin op s1 s2).major != binMajor op m1 m2
         else (typeBin op s1 s2).major == binMajor op m1 m2)) = true := by
  decide +kernel

theorem typeTable_spec (op : BinOp) (m1 m2 : Major) (o1 o2 : Bool)
    (hc : binCell op m1 m2 = true) (hd : (typeBin op (staticOf o1 m1) (staticOf o2 m2)).defined = true) :
    if binTypeGapM op (staticOf o1 m1).major (staticOf o2 m2).major m1 m2 = true
    then (typeBin op (staticOf o1 m1) (staticOf o2 m2)).major ≠ binMajor op m1 m2
    else (typeBin op (staticOf o1 m1) (staticOf o2 m2)).major = binMajor op m1 m2 := by
  have h := typeTable
  simp only [List.all_eq_true] at h
  have := h op (mem_allBinOps op) m1 (mem_allMajors m1) m2 (mem_allMajors m2) o1 (by cases o1 <;> simp) o2 (by cases o2 <;> simp)
  simp only [hc, hd, Bool.not_true, Bool.false_or] at this
  split
  · rename_i hg; simp only [hg, ↓reduceIte, bne_iff_ne, ne_eq] at this; exact this
  · rename_i hg; simp only [Bool.not_eq_true] at hg; simp [hg] at this; exact this

theorem static_major_cases (s : Ty) (m : Major) (h : s.major = m ∨ s.major = .none) :
    ∃ o, s.major = (staticOf o m).major := by
  rcases h with h | h
  · exact ⟨false, by simp [staticOf, h]⟩
  · exact ⟨true, by simp [staticOf, h]⟩

theorem typeBin_static (op : BinOp) (s1 s2 : Ty) (o1 o2 : Bool) (m1 m2 : Major)
    (h1 : s1.major = (staticOf o1 m1).major) (h2 : s2.major = (staticOf o2 m2).major) :
    typeBin op s1 s2 = typeBin op (staticOf o1 m1) (staticOf o2 m2) := by
  rw [typeBin_majors op s1 s2, typeBin_majors op (staticOf o1 m1), h1, h2]

/-- The static result type of an operator is a plain scalar type. -/
theorem typeBin_plain (op : BinOp) (s1 s2 : Ty) :
    (typeBin op s1 s2).minor = 0 ∧ (typeBin op s1 s2).level = 0 ∧ (typeBin op s1 s2).major ≠ .obj ∧ (typeBin op s1 s2).major ≠ .tup := by
  cases op <;> simp only [typeBin] <;> repeat' split
  all_goals simp [Ty.str, Ty.imag, Ty.int, Ty.num, Ty.none, Ty.bool]


end BlocV

/-! ### what static acceptance says about the operand types -/

namespace BlocV
open Num

/-- "A compound type cannot be opaque" (EXC_RT_COMPOUND_OPAQUE): there is no table of the opaque type. -/
def Ty.noOpaqueTable (t : Ty) : Bool := t.major != .none || t.level == 0

theorem nonnull_major_ne_none {a : Val} (hw : a.tabOk = true) (hp : a.type.noOpaqueTable = true) (hn : a.isNull = false) :
    a.type.major ≠ .none := by
  cases a with
  | null t => simp [Val.isNull] at hn
  | tup d it => simp [Val.type, makeTupleTy_major]
  | tab t d e =>
    simp only [Val.tabOk, decide_eq_true_eq, Val.type, Ty.noOpaqueTable, Bool.or_eq_true, bne_iff_ne, ne_eq, beq_iff_eq] at hw hp ⊢
    rcases hp with h | h
    · exact h
    · omega
  | _ => simp [Val.type, Ty.bool, Ty.int, Ty.num, Ty.imag, Ty.str, Ty.raw]

theorem typeChecking_num {t : Ty} (h : typeChecking t Ty.num = true) (hp : t.noOpaqueTable = true) :
    t.level = 0 ∧ (t.major = .none ∨ t.major = .int ∨ t.major = .num ∨ t.major = .imag) := by
  obtain ⟨m, mi, l⟩ := t
  simp only [typeChecking, Ty.num, Ty.noOpaqueTable] at h hp ⊢
  cases m <;> simp_all

theorem typeChecking_bool {t : Ty} (h : typeChecking t Ty.bool = true) (hp : t.noOpaqueTable = true) :
    t.level = 0 ∧ (t.major = .none ∨ t.major = .bool) := by
  obtain ⟨m, mi, l⟩ := t
  simp only [typeChecking, Ty.bool, Ty.noOpaqueTable] at h hp ⊢
  cases m <;> simp_all

theorem typeUniform_int {t : Ty} (h : typeUniform t Ty.int = true) (hp : t.noOpaqueTable = true) :
    t.level = 0 ∧ (t.major = .none ∨ t.major = .int) := by
  obtain ⟨m, mi, l⟩ := t
  simp only [typeUniform, Ty.int, Ty.noOpaqueTable] at h hp ⊢
  cases m <;> simp_all



/-- Boolean unfolding of the ordering clause of `C02.acceptGap`. -/
theorem ordGap_false {t1 t2 : Ty} (h : (!(t1.level == 0 && t2.level == 0 && (t2.major == .none || ordCell t1.major t2.major))) = false) :
    t1.level = 0 ∧ t2.level = 0 ∧ (t2.major = .none ∨ ordCell t1.major t2.major = true) := by
  have h' : t1.level = 0 ∧ t2.level = 0 ∧ (¬t2.major = Major.none → ordCell t1.major t2.major = true) := by
    simpa [and_assoc] using h
  refine ⟨h'.1, h'.2.1, ?_⟩
  by_cases hm : t2.major = .none
  · exact Or.inl hm
  · exact Or.inr (h'.2.2 hm)


end BlocV
