/-
  Helper lemmas for C12, statement / program level:
    * `norm` on statements changes neither the saved text (`unparseBlock_norm`), nor its tokens (`toksBlock_norm`),
      nor the interpreter program (`toBlock_norm`) — ALL statement kinds, every indentation level;
    * one-step unfoldings of `pStmt` at each keyword of a flat statement, print lists (`pItems`), and the
      round trip of flat statements / flat programs.
-/
import BlocV.Proofs.Lemmas.Parse

namespace BlocV.C12L
open BlocV BlocV.Parse BlocV.Unparse BlocV.Roundtrip

/-! ## `normS` changes neither text, nor tokens, nor translation (all statement kinds) -/

def isFunc : PStmt → Bool
  | .func .. => true
  | _ => false

theorem unparseBlock_cons (lvl : Nat) (s : PStmt) (ss : List PStmt) :
    unparseBlock lvl (s :: ss) = (if isFunc s then [] else indent lvl) ++ unparseStmt lvl s ++ [59, 10] ++ unparseBlock lvl ss := by
  cases s <;> simp [unparseBlock, isFunc]

theorem isFunc_normS (s : PStmt) : isFunc (normS s) = isFunc s := by
  cases s with
  | ret e => cases e <;> simp [normS, isFunc]
  | _ => simp [normS, isFunc]

mutual
  theorem unparseStmt_norm : ∀ (lvl : Nat) (s : PStmt), unparseStmt lvl (normS s) = unparseStmt lvl s
    | _, .nop | _, .brk | _, .cont | _, .raise _ | _, .ret none => by simp [normS]
    | _, .trace e | _, .ret (some e) | _, .doS e => by simp [normS, unparseStmt, unparse_norm]
    | lvl, .letS n e nx => by simp [normS, unparseStmt, unparse_norm, unparseNext_norm lvl nx]
    | lvl, .letn n ty nx => by simp [normS, unparseStmt, unparseNext_norm lvl nx]
    | _, .print args | _, .put args => by simp [normS, unparseStmt, unparseArgs_norm]
    | lvl, .ifS rules none => by simp [normS, unparseStmt, unparseRules_norm lvl true rules]
    | lvl, .ifS rules (some b) => by simp [normS, unparseStmt, unparseRules_norm lvl true rules, unparseBlock_norm (lvl + 1) b]
    | lvl, .whileS c body => by simp [normS, unparseStmt, unparse_norm, unparseBlock_norm (lvl + 1) body]
    | lvl, .forS v b e none dir body => by simp [normS, unparseStmt, unparse_norm, unparseBlock_norm (lvl + 1) body]
    | lvl, .forS v b e (some st) dir body => by simp [normS, unparseStmt, unparse_norm, unparseBlock_norm (lvl + 1) body]
    | lvl, .forall v e dir body => by simp [normS, unparseStmt, unparse_norm, unparseBlock_norm (lvl + 1) body]
    | lvl, .begin body [] => by simp [normS, normCatches, unparseStmt, unparseCatches, unparseBlock_norm (lvl + 1) body]
    | lvl, .begin body (c :: cs) => by
      have h := unparseCatches_norm lvl (c :: cs)
      obtain ⟨n, b⟩ := c
      simp only [normCatches] at h
      simp [normS, normCatches, unparseStmt, h, unparseBlock_norm (lvl + 1) body]
    | _, .func n params rt body [] => by simp [normS, normCatches, unparseStmt, unparseCatches, unparseBlock_norm 1 body]
    | _, .func n params rt body (c :: cs) => by
      have h := unparseCatches_norm 0 (c :: cs)
      obtain ⟨n, b⟩ := c
      simp only [normCatches] at h
      simp [normS, normCatches, unparseStmt, h, unparseBlock_norm 1 body]
  theorem unparseNext_norm : ∀ (lvl : Nat) (nx : Option PStmt), unparseNext lvl (normNext nx) = unparseNext lvl nx
    | _, none => by simp [normNext]
    | lvl, some s => by simp [normNext, unparseNext, unparseStmt_norm lvl s]
  theorem unparseCatches_norm : ∀ (lvl : Nat) (cs : List (Bytes × List PStmt)),
      unparseCatches lvl (normCatches cs) = unparseCatches lvl cs
    | _, [] => by simp [normCatches]
    | lvl, (n, b) :: cs => by simp [normCatches, unparseCatches, unparseBlock_norm (lvl + 1) b, unparseCatches_norm lvl cs]
  theorem unparseRules_norm : ∀ (lvl : Nat) (first : Bool) (rs : List (PExpr × List PStmt)),
      unparseRules lvl first (normRules rs) = unparseRules lvl first rs
    | _, _, [] => by simp [normRules]
    | lvl, first, (c, b) :: rs => by
      simp [normRules, unparseRules, unparse_norm, unparseBlock_norm (lvl + 1) b, unparseRules_norm lvl false rs]
  theorem unparseBlock_norm : ∀ (lvl : Nat) (ss : List PStmt), unparseBlock lvl (normB ss) = unparseBlock lvl ss
    | _, [] => by simp [normB]
    | lvl, s :: ss => by
      have h1 := unparseStmt_norm lvl s
      have h2 := unparseBlock_norm lvl ss
      rw [normB, unparseBlock_cons, unparseBlock_cons, isFunc_normS, h1, h2]
end

theorem toksArgs_norm' (as : List PExpr) : toksArgs (normArgs as) = toksArgs as := toksArgs_norm as

mutual
  theorem toksStmt_norm : ∀ (s : PStmt), toksStmt (normS s) = toksStmt s
    | .nop | .brk | .cont | .raise _ | .ret none => by simp [normS]
    | .trace e | .ret (some e) | .doS e => by simp [normS, toksStmt, toks_norm]
    | .letS n e nx => by simp [normS, toksStmt, toks_norm, toksNext_norm nx]
    | .letn n ty nx => by simp [normS, toksStmt, toksNext_norm nx]
    | .print args | .put args => by simp [normS, toksStmt, toksArgs_norm]
    | .ifS rules none => by simp [normS, toksStmt, toksRules_norm true rules]
    | .ifS rules (some b) => by simp [normS, toksStmt, toksRules_norm true rules, toksBlock_norm b]
    | .whileS c body => by simp [normS, toksStmt, toks_norm, toksBlock_norm body]
    | .forS v b e none dir body => by simp [normS, toksStmt, toks_norm, toksBlock_norm body]
    | .forS v b e (some st) dir body => by simp [normS, toksStmt, toks_norm, toksBlock_norm body]
    | .forall v e dir body => by simp [normS, toksStmt, toks_norm, toksBlock_norm body]
    | .begin body [] => by simp [normS, normCatches, toksStmt, toksCatches, toksBlock_norm body]
    | .begin body (c :: cs) => by
      have h := toksCatches_norm (c :: cs)
      obtain ⟨n, b⟩ := c
      simp only [normCatches] at h
      simp [normS, normCatches, toksStmt, h, toksBlock_norm body]
    | .func n params rt body [] => by simp [normS, normCatches, toksStmt, toksCatches, toksBlock_norm body]
    | .func n params rt body (c :: cs) => by
      have h := toksCatches_norm (c :: cs)
      obtain ⟨n, b⟩ := c
      simp only [normCatches] at h
      simp [normS, normCatches, toksStmt, h, toksBlock_norm body]
  theorem toksNext_norm : ∀ (nx : Option PStmt), toksNext (normNext nx) = toksNext nx
    | none => by simp [normNext]
    | some s => by simp [normNext, toksNext, toksStmt_norm s]
  theorem toksCatches_norm : ∀ (cs : List (Bytes × List PStmt)), toksCatches (normCatches cs) = toksCatches cs
    | [] => by simp [normCatches]
    | (n, b) :: cs => by simp [normCatches, toksCatches, toksBlock_norm b, toksCatches_norm cs]
  theorem toksRules_norm : ∀ (first : Bool) (rs : List (PExpr × List PStmt)), toksRules first (normRules rs) = toksRules first rs
    | _, [] => by simp [normRules]
    | first, (c, b) :: rs => by simp [normRules, toksRules, toks_norm, toksBlock_norm b, toksRules_norm false rs]
  theorem toksBlock_norm : ∀ (ss : List PStmt), toksBlock (normB ss) = toksBlock ss
    | [] => by simp [normB]
    | s :: ss => by simp [normB, toksBlock, toksStmt_norm s, toksBlock_norm ss]
end

mutual
  theorem toStmts_norm : ∀ (s : PStmt), toStmts (normS s) = toStmts s
    | .nop | .brk | .cont | .raise _ | .ret none | .trace _ | .letn .. | .put _ | .forall .. => by simp [normS, toStmts]
    | .ret (some e) | .doS e => by simp [normS, toStmts, optExpr, toExpr_norm]
    | .letS n e nx => by simp [normS, toStmts, toExpr_norm, toNext_norm nx]
    | .print args => by simp [normS, toStmts, toExprs_norm]
    | .ifS rules none => by simp [normS, toStmts, toElse, toRules_norm rules]
    | .ifS rules (some b) => by simp [normS, toStmts, toElse, toRules_norm rules, toBlock_norm b]
    | .whileS c body => by simp [normS, toStmts, toExpr_norm, toBlock_norm body]
    | .forS v b e none dir body => by simp [normS, toStmts, optExpr, toExpr_norm, toBlock_norm body]
    | .forS v b e (some st) dir body => by simp [normS, toStmts, optExpr, toExpr_norm, toBlock_norm body]
    | .begin body catches => by simp [normS, toStmts, toBlock_norm body, toCatches_norm catches]
    | .func n params rt body catches => by simp [normS, toStmts, toBlock_norm body, toCatches_norm catches]
  theorem toNext_norm : ∀ (nx : Option PStmt), toNext (normNext nx) = toNext nx
    | none => by simp [normNext]
    | some s => by simp [normNext, toNext, toStmts_norm s]
  theorem toCatches_norm : ∀ (cs : List (Bytes × List PStmt)), toCatches (normCatches cs) = toCatches cs
    | [] => by simp [normCatches]
    | (n, b) :: cs => by simp [normCatches, toCatches, toBlock_norm b, toCatches_norm cs]
  theorem toRules_norm : ∀ (rs : List (PExpr × List PStmt)), toRules (normRules rs) = toRules rs
    | [] => by simp [normRules]
    | (c, b) :: rs => by simp [normRules, toRules, toExpr_norm, toBlock_norm b, toRules_norm rs]
  theorem toBlock_norm : ∀ (ss : List PStmt), toBlock (normB ss) = toBlock ss
    | [] => by simp [normB]
    | s :: ss => by simp [normB, toBlock, toStmts_norm s, toBlock_norm ss]
end

/-! ## Flat statements: one-step unfoldings of `ParseStatement::parse` -/

theorem pStmt_nop (f : Nat) (nested : Bool) (ts : List Tok) :
    pStmt (f + 1) nested (kw "nop" :: ts) =
      (do let r ← beyond ts; pure (some .nop, r)) := by
  rw [pStmt.eq_def]
  have hk : isStmtKw (kw "nop").text = true := by decide
  have h1 : ((kw "nop").code == cSEMI) = false := by decide
  have h2 : ((kw "nop").code != cKW) = false := by decide
  have n0 : isKw (kw "nop") "nop" = true := by decide
  simp only [h1, h2, hk, n0, if_true, if_false, Bool.false_eq_true]

theorem pStmt_break (f : Nat) (nested : Bool) (ts : List Tok) :
    pStmt (f + 1) nested (kw "break" :: ts) =
      (do let r ← beyond ts; pure (some .brk, r)) := by
  rw [pStmt.eq_def]
  have hk : isStmtKw (kw "break").text = true := by decide
  have h1 : ((kw "break").code == cSEMI) = false := by decide
  have h2 : ((kw "break").code != cKW) = false := by decide
  have n0 : isKw (kw "break") "nop" = false := by decide
  have n1 : isKw (kw "break") "break" = true := by decide
  simp only [h1, h2, hk, n0, n1, if_true, if_false, Bool.false_eq_true]

theorem pStmt_continue (f : Nat) (nested : Bool) (ts : List Tok) :
    pStmt (f + 1) nested (kw "continue" :: ts) =
      (do let r ← beyond ts; pure (some .cont, r)) := by
  rw [pStmt.eq_def]
  have hk : isStmtKw (kw "continue").text = true := by decide
  have h1 : ((kw "continue").code == cSEMI) = false := by decide
  have h2 : ((kw "continue").code != cKW) = false := by decide
  have n0 : isKw (kw "continue") "nop" = false := by decide
  have n1 : isKw (kw "continue") "break" = false := by decide
  have n2 : isKw (kw "continue") "continue" = true := by decide
  simp only [h1, h2, hk, n0, n1, n2, if_true, if_false, Bool.false_eq_true]

theorem pStmt_trace (f : Nat) (nested : Bool) (ts : List Tok) :
    pStmt (f + 1) nested (kw "trace" :: ts) =
      (do let (e, ts2) ← pExpr f ts; let r ← beyond ts2; pure (some (.trace e), r)) := by
  rw [pStmt.eq_def]
  have hk : isStmtKw (kw "trace").text = true := by decide
  have h1 : ((kw "trace").code == cSEMI) = false := by decide
  have h2 : ((kw "trace").code != cKW) = false := by decide
  have n0 : isKw (kw "trace") "nop" = false := by decide
  have n1 : isKw (kw "trace") "break" = false := by decide
  have n2 : isKw (kw "trace") "continue" = false := by decide
  have n3 : isKw (kw "trace") "trace" = true := by decide
  simp only [h1, h2, hk, n0, n1, n2, n3, if_true, if_false, Bool.false_eq_true]

theorem pStmt_print (f : Nat) (nested : Bool) (ts : List Tok) :
    pStmt (f + 1) nested (kw "print" :: ts) =
      (do let (args, ts2) ← pItems f ts; let r ← beyond ts2; pure (some (.print args), r)) := by
  rw [pStmt.eq_def]
  have hk : isStmtKw (kw "print").text = true := by decide
  have h1 : ((kw "print").code == cSEMI) = false := by decide
  have h2 : ((kw "print").code != cKW) = false := by decide
  have n0 : isKw (kw "print") "nop" = false := by decide
  have n1 : isKw (kw "print") "break" = false := by decide
  have n2 : isKw (kw "print") "continue" = false := by decide
  have n3 : isKw (kw "print") "trace" = false := by decide
  have n4 : isKw (kw "print") "return" = false := by decide
  have n5 : isKw (kw "print") "let" = false := by decide
  have n6 : isKw (kw "print") "print" = true := by decide
  simp only [h1, h2, hk, n0, n1, n2, n3, n4, n5, n6, if_true, if_false, Bool.false_eq_true]

theorem pStmt_put (f : Nat) (nested : Bool) (ts : List Tok) :
    pStmt (f + 1) nested (kw "put" :: ts) =
      (do let (args, ts2) ← pItems f ts; let r ← beyond ts2; pure (some (.put args), r)) := by
  rw [pStmt.eq_def]
  have hk : isStmtKw (kw "put").text = true := by decide
  have h1 : ((kw "put").code == cSEMI) = false := by decide
  have h2 : ((kw "put").code != cKW) = false := by decide
  have n0 : isKw (kw "put") "nop" = false := by decide
  have n1 : isKw (kw "put") "break" = false := by decide
  have n2 : isKw (kw "put") "continue" = false := by decide
  have n3 : isKw (kw "put") "trace" = false := by decide
  have n4 : isKw (kw "put") "return" = false := by decide
  have n5 : isKw (kw "put") "let" = false := by decide
  have n6 : isKw (kw "put") "print" = false := by decide
  have n7 : isKw (kw "put") "put" = true := by decide
  simp only [h1, h2, hk, n0, n1, n2, n3, n4, n5, n6, n7, if_true, if_false, Bool.false_eq_true]

theorem pStmt_raise (f : Nat) (nested : Bool) (ts : List Tok) :
    pStmt (f + 1) nested (kw "raise" :: ts) =
      (do let (n, ts2) ← popName Gen.EXC_PARSE_UNEXPECTED_LEX_S ts; let r ← beyond ts2; pure (some (.raise n), r)) := by
  rw [pStmt.eq_def]
  have hk : isStmtKw (kw "raise").text = true := by decide
  have h1 : ((kw "raise").code == cSEMI) = false := by decide
  have h2 : ((kw "raise").code != cKW) = false := by decide
  have n0 : isKw (kw "raise") "nop" = false := by decide
  have n1 : isKw (kw "raise") "break" = false := by decide
  have n2 : isKw (kw "raise") "continue" = false := by decide
  have n3 : isKw (kw "raise") "trace" = false := by decide
  have n4 : isKw (kw "raise") "return" = false := by decide
  have n5 : isKw (kw "raise") "let" = false := by decide
  have n6 : isKw (kw "raise") "print" = false := by decide
  have n7 : isKw (kw "raise") "put" = false := by decide
  have n8 : isKw (kw "raise") "do" = false := by decide
  have n9 : isKw (kw "raise") "raise" = true := by decide
  simp only [h1, h2, hk, n0, n1, n2, n3, n4, n5, n6, n7, n8, n9, if_true, if_false, Bool.false_eq_true]

theorem pStmt_return (f : Nat) (nested : Bool) (ts : List Tok) :
    pStmt (f + 1) nested (kw "return" :: ts) =
      (match ts with
       | [] => .error eEOF
       | t2 :: _ =>
         if t2.code == cSEMI then do let r ← beyond ts; pure (some (.ret none), r)
         else do
           let (e, ts2) ← pExpr f ts
           let r ← beyond ts2
           pure (some (.ret (some e)), r)) := by
  rw [pStmt.eq_def]
  have hk : isStmtKw (kw "return").text = true := by decide
  have h1 : ((kw "return").code == cSEMI) = false := by decide
  have h2 : ((kw "return").code != cKW) = false := by decide
  have n0 : isKw (kw "return") "nop" = false := by decide
  have n1 : isKw (kw "return") "break" = false := by decide
  have n2 : isKw (kw "return") "continue" = false := by decide
  have n3 : isKw (kw "return") "trace" = false := by decide
  have n4 : isKw (kw "return") "return" = true := by decide
  simp only [h1, h2, hk, n0, n1, n2, n3, n4, if_true, if_false, Bool.false_eq_true]
  cases ts <;> rfl


theorem beyond_semi (rest : List Tok) : beyond (ch 59 :: rest) = .ok rest := by
  simp [beyond, ch, cRP, cSEMI, pure, Except.pure]

theorem stops9_Stops {t : Tok} (h : stops9 t = true) : Stops 9 t := by
  simp only [stops9, Bool.and_eq_true, Option.isNone_iff_eq_none, bne_iff_ne, ne_eq] at h
  obtain ⟨⟨⟨⟨⟨⟨⟨⟨h2, h4⟩, h5⟩, h6⟩, h7⟩, h8⟩, h9⟩, hd⟩, ha⟩ := h
  exact ⟨fun _ => h2, fun _ => h4, fun _ => h5, fun _ => h6, fun _ => h7, fun _ => h8, fun _ => h9, hd, ha⟩

theorem semi_stops' : Stops 9 (ch 59) := by decide
theorem comma_stops' : Stops 9 (ch 44) := by decide

/-- the expression round trip (all node kinds) in the form the statement lemmas use -/
theorem expr_rt (e : PExpr) (hwf : wf e = true) (t : Tok) (ts : List Tok) (hstop : Stops 9 t)
    (hvar : endsVar e = true → t.code ≠ cLP) (f : Nat) (hf : 16 * esize e + 13 ≤ f) :
    pExpr f (toksExpr e ++ t :: ts) = .ok (norm e, t :: ts) :=
  (full_rt e 9 hwf (lvlE_le9 e) (Nat.le_refl _)).1 t ts hstop hvar f hf

/-! ## print / put lists -/

theorem pItems_nil (f : Nat) (rest : List Tok) : pItems (f + 1) (ch 59 :: rest) = .ok ([], ch 59 :: rest) := by
  rw [pItems.eq_def]; simp [ch, cSEMI, pure, Except.pure]

theorem pItems_cons {f : Nat} {t : Tok} {ts ts1 ts2 : List Tok} {e : PExpr} {es : List PExpr} (ht : t.code ≠ cSEMI)
    (he : pExpr f (t :: ts) = .ok (e, ts1)) (hs : pItems f ts1 = .ok (es, ts2)) :
    pItems (f + 1) (t :: ts) = .ok (e :: es, ts2) := by
  have ht' : ¬ t.code = 59 := ht
  rw [pItems.eq_def]; simp [ht', he, hs, cSEMI, bind, Except.bind, pure, Except.pure]

/-- **Print lists.** Items written one after the other (no separator token) read back as the same items, provided
each item is well formed and consecutive items are separable (`itemsSep`: the next item does not start with a token
that continues the previous one — a sign, or `(` after a bare name). -/
theorem items_rt : ∀ (args : List PExpr), wfArgs args = true → itemsSep args = true → ∀ (rest : List Tok) (f : Nat),
    16 * esizeArgs args + 15 ≤ f →
    pItems f ((toksArgs args).flatten ++ ch 59 :: rest) = .ok (normArgs args, ch 59 :: rest)
  | [], _, _, rest, f, hf => by
    obtain ⟨f', rfl⟩ : ∃ f', f = f' + 1 := ⟨f - 1, by omega⟩
    simpa [toksArgs, normArgs] using pItems_nil f' rest
  | [a], hwf, _, rest, f, hf => by
    obtain ⟨f', rfl⟩ : ∃ f', f = f' + 1 := ⟨f - 1, by omega⟩
    obtain ⟨f'', rfl⟩ : ∃ f'', f' = f'' + 1 := ⟨f' - 1, by omega⟩
    have hwa : wf a = true := by simp only [wfArgs, Bool.and_eq_true] at hwf; exact hwf.1
    obtain ⟨t, ts, h1, h2, _⟩ := head_tok a hwa
    have he := expr_rt a hwa (ch 59) rest semi_stops' (fun _ => by decide) (f'' + 1) (by simp only [esizeArgs] at hf; omega)
    have e1 : (toksArgs [a]).flatten ++ ch 59 :: rest = toksExpr a ++ ch 59 :: rest := by simp [toksArgs]
    rw [e1]
    rw [h1] at he ⊢
    simp only [List.cons_append] at he ⊢
    rw [pItems_cons h2.2 he (pItems_nil f'' rest)]
    simp [normArgs]
  | a :: b :: as, hwf, hsep, rest, f, hf => by
    obtain ⟨f', rfl⟩ : ∃ f', f = f' + 1 := ⟨f - 1, by omega⟩
    have hw : wf a = true ∧ wfArgs (b :: as) = true := by simp only [wfArgs, Bool.and_eq_true] at hwf ⊢; exact hwf
    have hwb : wf b = true := by have := hw.2; simp only [wfArgs, Bool.and_eq_true] at this; exact this.1
    have hs : sepOk a b = true ∧ itemsSep (b :: as) = true := by simp only [itemsSep, Bool.and_eq_true] at hsep; exact hsep
    obtain ⟨t, ts, h1, h2, _⟩ := head_tok a hw.1
    obtain ⟨tb, tsb, hb1, _, _⟩ := head_tok b hwb
    have hsb : stops9 tb = true ∧ (endsVar a = true → tb.code ≠ cLP) := by
      have := hs.1
      simp only [sepOk, hb1, Bool.and_eq_true, Bool.or_eq_true, Bool.not_eq_true', bne_iff_ne, ne_eq] at this
      refine ⟨this.1, fun hv => ?_⟩
      rcases this.2 with h | h
      · rw [hv] at h; exact absurd h (by simp)
      · exact h
    have ih := items_rt (b :: as) hw.2 hs.2 rest f' (by simp only [esizeArgs] at hf ⊢; omega)
    have e1 : (toksArgs (a :: b :: as)).flatten ++ ch 59 :: rest =
        toksExpr a ++ ((toksArgs (b :: as)).flatten ++ ch 59 :: rest) := by simp [toksArgs]
    have e2 : (toksArgs (b :: as)).flatten ++ ch 59 :: rest = tb :: (tsb ++ ((toksArgs as).flatten ++ ch 59 :: rest)) := by
      simp [toksArgs, hb1]
    rw [e1]
    have he := expr_rt a hw.1 tb (tsb ++ ((toksArgs as).flatten ++ ch 59 :: rest)) (stops9_Stops hsb.1) hsb.2 f'
      (by simp only [esizeArgs] at hf; omega)
    rw [← e2] at he
    rw [h1] at he ⊢
    simp only [List.cons_append] at he ⊢
    rw [pItems_cons h2.2 he ih]
    simp [normArgs]

/-! ## Flat statements and flat programs -/

theorem nameOk_notStmt' {n : Bytes} (h : nameOk n = true) : isStmtKw n = false := by
  simp [nameOk, reserved] at h; exact h.1.2.1

theorem nameOk_notReserved' {n : Bytes} (h : nameOk n = true) : reserved n = false := by
  simp [nameOk] at h; simp [h.1.2]

/-- fuel measure of a flat statement -/
def fsize : PStmt → Nat
  | .trace e => esize e
  | .ret (some e) => esize e
  | .doS e => esize e
  | .letS _ e none => esize e + 1
  | .letS _ e (some s) => esize e + 1 + fsize s
  | .letn _ _ none => 1
  | .letn _ _ (some s) => 1 + fsize s
  | .print args => esizeArgs args + 1
  | .put args => esizeArgs args + 1
  | _ => 0

theorem pStmt_name_let {f : Nat} {nested : Bool} {n : Bytes} {ts : List Tok} (hn : nameOk n = true) :
    pStmt (f + 1) nested (⟨cKW, n⟩ :: ch 61 :: ts) = pLet f nested (⟨cKW, n⟩ :: ch 61 :: ts) := by
  rw [pStmt.eq_def]
  simp [nameOk_notStmt' hn, cKW, cSEMI, Gen.TOKEN_KEYWORD, ch, cEQ]

theorem pStmt_name_letn {f : Nat} {nested : Bool} {n : Bytes} {ts : List Tok} (hn : nameOk n = true) :
    pStmt (f + 1) nested (⟨cKW, n⟩ :: ch 58 :: ts) = pLetn f nested (⟨cKW, n⟩ :: ch 58 :: ts) := by
  rw [pStmt.eq_def]
  simp [nameOk_notStmt' hn, cKW, cSEMI, Gen.TOKEN_KEYWORD, ch, cEQ, cCOLON, Gen.TOKEN_ASSIGN]

theorem pLet_semi {f : Nat} {nested : Bool} {n : Bytes} {ts rest : List Tok} {e : PExpr} (hn : nameOk n = true)
    (he : pExpr f ts = .ok (e, ch 59 :: rest)) :
    pLet (f + 1) nested (⟨cKW, n⟩ :: ch 61 :: ts) = .ok (some (.letS n e none), rest) := by
  rw [pLet.eq_def]
  simp [popName, nameOk_notReserved' hn, nameOk_upper hn, cKW, Gen.TOKEN_KEYWORD, cEQ, ch, he, beyond, cCOMMA, cRP, cSEMI,
    bind, Except.bind, pure, Except.pure]

theorem pLet_chain {f : Nat} {nested : Bool} {n : Bytes} {ts ts' r : List Tok} {e : PExpr} {nx : Option PStmt}
    (hn : nameOk n = true) (he : pExpr f ts = .ok (e, ch 44 :: ts')) (hnext : pStmt f nested ts' = .ok (nx, r)) :
    pLet (f + 1) nested (⟨cKW, n⟩ :: ch 61 :: ts) = .ok (some (.letS n e nx), r) := by
  rw [pLet.eq_def]
  simp [popName, nameOk_notReserved' hn, nameOk_upper hn, cKW, Gen.TOKEN_KEYWORD, cEQ, ch, he, hnext, cCOMMA,
    bind, Except.bind, pure, Except.pure]

theorem pLetn_semi {f : Nat} {nested : Bool} {n ty : Bytes} {rest : List Tok} (hn : nameOk n = true)
    (hty : typeKws.contains ty = true) :
    pLetn (f + 1) nested (⟨cKW, n⟩ :: ch 58 :: ⟨cKW, ty⟩ :: ch 59 :: rest) = .ok (some (.letn n ty none), rest) := by
  have hty' : ty ∈ typeKws := by simpa using hty
  rw [pLetn.eq_def]
  simp [popName, popType, hty', nameOk_notReserved' hn, nameOk_upper hn, cKW, Gen.TOKEN_KEYWORD, cCOLON, ch, beyond, cCOMMA, cRP,
    cSEMI, bind, Except.bind, pure, Except.pure]

theorem pLetn_chain {f : Nat} {nested : Bool} {n ty : Bytes} {ts' r : List Tok} {nx : Option PStmt} (hn : nameOk n = true)
    (hty : typeKws.contains ty = true) (hnext : pStmt f nested ts' = .ok (nx, r)) :
    pLetn (f + 1) nested (⟨cKW, n⟩ :: ch 58 :: ⟨cKW, ty⟩ :: ch 44 :: ts') = .ok (some (.letn n ty nx), r) := by
  have hty' : ty ∈ typeKws := by simpa using hty
  rw [pLetn.eq_def]
  simp [popName, popType, hty', nameOk_notReserved' hn, nameOk_upper hn, cKW, Gen.TOKEN_KEYWORD, cCOLON, ch, hnext, cCOMMA,
    bind, Except.bind, pure, Except.pure]

/-- **Round trip of flat statements** (every statement kind without a block: nop, break, continue, trace, return with
and without a value, assignment, typed declaration `X:type`, both with chains ` , ` of any length, print and put lists,
do, raise), all expression forms inside: the tokens of the saved statement followed by the separator read back as the
statement of the normalised expressions, whatever follows, at top level or in a block. -/
theorem flat_rt : ∀ (s : PStmt), wfFlat s = true → ∀ (nested : Bool) (rest : List Tok) (f : Nat), 16 * fsize s + 20 ≤ f →
    pStmt f nested (toksStmt s ++ ch 59 :: rest) = .ok (some (normS s), rest)
  | .nop, _, nested, rest, f, hf => by
    obtain ⟨f', rfl⟩ : ∃ f', f = f' + 1 := ⟨f - 1, by omega⟩
    simp only [toksStmt, List.cons_append, List.nil_append]
    rw [pStmt_nop, beyond_semi]; simp [normS, bind, Except.bind, pure, Except.pure]
  | .brk, _, nested, rest, f, hf => by
    obtain ⟨f', rfl⟩ : ∃ f', f = f' + 1 := ⟨f - 1, by omega⟩
    simp only [toksStmt, List.cons_append, List.nil_append]
    rw [pStmt_break, beyond_semi]; simp [normS, bind, Except.bind, pure, Except.pure]
  | .cont, _, nested, rest, f, hf => by
    obtain ⟨f', rfl⟩ : ∃ f', f = f' + 1 := ⟨f - 1, by omega⟩
    simp only [toksStmt, List.cons_append, List.nil_append]
    rw [pStmt_continue, beyond_semi]; simp [normS, bind, Except.bind, pure, Except.pure]
  | .trace e, h, nested, rest, f, hf => by
    obtain ⟨f', rfl⟩ : ∃ f', f = f' + 1 := ⟨f - 1, by omega⟩
    have hwe : wf e = true := by simpa [wfFlat] using h
    have he := expr_rt e hwe (ch 59) rest semi_stops' (fun _ => by decide) f' (by simp only [fsize] at hf; omega)
    simp only [toksStmt, List.cons_append]
    rw [pStmt_trace, he]; simp [normS, beyond_semi, bind, Except.bind, pure, Except.pure]
  | .doS e, h, nested, rest, f, hf => by
    obtain ⟨f', rfl⟩ : ∃ f', f = f' + 1 := ⟨f - 1, by omega⟩
    have hwe : wf e = true := by simpa [wfFlat] using h
    have he := expr_rt e hwe (ch 59) rest semi_stops' (fun _ => by decide) f' (by simp only [fsize] at hf; omega)
    simp only [toksStmt, List.cons_append]
    rw [pStmt_do, he]; simp [normS, beyond_semi, bind, Except.bind, pure, Except.pure]
  | .ret none, _, nested, rest, f, hf => by
    obtain ⟨f', rfl⟩ : ∃ f', f = f' + 1 := ⟨f - 1, by omega⟩
    simp only [toksStmt, List.cons_append, List.nil_append]
    rw [pStmt_return]; simp [normS, beyond_semi, bind, Except.bind, pure, Except.pure]
    simp [ch, cSEMI]
  | .ret (some e), h, nested, rest, f, hf => by
    obtain ⟨f', rfl⟩ : ∃ f', f = f' + 1 := ⟨f - 1, by omega⟩
    have hwe : wf e = true := by simpa [wfFlat] using h
    have he := expr_rt e hwe (ch 59) rest semi_stops' (fun _ => by decide) f' (by simp only [fsize] at hf; omega)
    obtain ⟨t, ts, h1, h2, _⟩ := head_tok e hwe
    have h2' : ¬ t.code = 59 := h2.2
    simp only [toksStmt, List.cons_append]
    rw [pStmt_return]
    rw [h1] at he ⊢
    simp only [List.cons_append] at he ⊢
    simp [h2', cSEMI, he, normS, beyond_semi, bind, Except.bind, pure, Except.pure]
  | .raise n, h, nested, rest, f, hf => by
    obtain ⟨f', rfl⟩ : ∃ f', f = f' + 1 := ⟨f - 1, by omega⟩
    have hn : nameOk n = true := by simpa [wfFlat] using h
    simp only [toksStmt, List.cons_append, List.nil_append]
    rw [pStmt_raise]
    simp [popName, nameOk_notReserved' hn, nameOk_upper hn, cKW, Gen.TOKEN_KEYWORD, beyond_semi, normS, bind, Except.bind, pure, Except.pure]
  | .print args, h, nested, rest, f, hf => by
    obtain ⟨f', rfl⟩ : ∃ f', f = f' + 1 := ⟨f - 1, by omega⟩
    have hw : wfArgs args = true ∧ itemsSep args = true := by simpa [wfFlat] using h
    have hi := items_rt args hw.1 hw.2 rest f' (by simp only [fsize] at hf; omega)
    simp only [toksStmt, List.cons_append]
    rw [pStmt_print, hi]; simp [normS, beyond_semi, bind, Except.bind, pure, Except.pure]
  | .put args, h, nested, rest, f, hf => by
    obtain ⟨f', rfl⟩ : ∃ f', f = f' + 1 := ⟨f - 1, by omega⟩
    have hw : wfArgs args = true ∧ itemsSep args = true := by simpa [wfFlat] using h
    have hi := items_rt args hw.1 hw.2 rest f' (by simp only [fsize] at hf; omega)
    simp only [toksStmt, List.cons_append]
    rw [pStmt_put, hi]; simp [normS, beyond_semi, bind, Except.bind, pure, Except.pure]
  | .letS n e none, h, nested, rest, f, hf => by
    obtain ⟨f1, rfl⟩ : ∃ f1, f = f1 + 1 := ⟨f - 1, by omega⟩
    obtain ⟨f2, rfl⟩ : ∃ f2, f1 = f2 + 1 := ⟨f1 - 1, by omega⟩
    have hw : nameOk n = true ∧ wf e = true := by simpa [wfFlat] using h
    have he := expr_rt e hw.2 (ch 59) rest semi_stops' (fun _ => by decide) f2 (by simp only [fsize] at hf; omega)
    simp only [toksStmt, toksNext, List.cons_append, List.append_nil]
    rw [pStmt_name_let hw.1, pLet_semi hw.1 he]; simp [normS, normNext]
  | .letS n e (some s), h, nested, rest, f, hf => by
    obtain ⟨f1, rfl⟩ : ∃ f1, f = f1 + 1 := ⟨f - 1, by omega⟩
    obtain ⟨f2, rfl⟩ : ∃ f2, f1 = f2 + 1 := ⟨f1 - 1, by omega⟩
    have hw : (nameOk n = true ∧ wf e = true) ∧ wfFlat s = true := by simpa [wfFlat] using h
    have ih := flat_rt s hw.2 nested rest f2 (by simp only [fsize] at hf; omega)
    have he := expr_rt e hw.1.2 (ch 44) (toksStmt s ++ ch 59 :: rest) comma_stops' (fun _ => by decide) f2
      (by simp only [fsize] at hf; omega)
    have e1 : toksStmt (.letS n e (some s)) ++ ch 59 :: rest =
        ⟨cKW, n⟩ :: ch 61 :: (toksExpr e ++ ch 44 :: (toksStmt s ++ ch 59 :: rest)) := by simp [toksStmt, toksNext]
    rw [e1, pStmt_name_let hw.1.1, pLet_chain hw.1.1 he ih]; simp [normS, normNext]
  | .letn n ty none, h, nested, rest, f, hf => by
    obtain ⟨f1, rfl⟩ : ∃ f1, f = f1 + 1 := ⟨f - 1, by omega⟩
    obtain ⟨f2, rfl⟩ : ∃ f2, f1 = f2 + 1 := ⟨f1 - 1, by omega⟩
    have hw : nameOk n = true ∧ typeKws.contains ty = true := by simpa [wfFlat] using h
    simp only [toksStmt, toksNext, List.cons_append, List.nil_append]
    rw [pStmt_name_letn hw.1, pLetn_semi hw.1 hw.2]; simp [normS, normNext]
  | .letn n ty (some s), h, nested, rest, f, hf => by
    obtain ⟨f1, rfl⟩ : ∃ f1, f = f1 + 1 := ⟨f - 1, by omega⟩
    obtain ⟨f2, rfl⟩ : ∃ f2, f1 = f2 + 1 := ⟨f1 - 1, by omega⟩
    have hw : (nameOk n = true ∧ typeKws.contains ty = true) ∧ wfFlat s = true := by simpa [wfFlat] using h
    have ih := flat_rt s hw.2 nested rest f2 (by simp only [fsize] at hf; omega)
    simp only [toksStmt, toksNext, List.cons_append]
    rw [pStmt_name_letn hw.1.1, pLetn_chain hw.1.1 hw.1.2 ih]; simp [normS, normNext]
  | .ifS .., h, _, _, _, _ | .whileS .., h, _, _, _, _ | .forS .., h, _, _, _, _ | .forall .., h, _, _, _, _
  | .begin .., h, _, _, _, _ | .func .., h, _, _, _, _ => by simp [wfFlat] at h

/-- the first token of a flat statement is a word, never the separator -/
theorem flat_head : ∀ (s : PStmt), wfFlat s = true → ∃ t ts, toksStmt s = t :: ts ∧ t.code ≠ cSEMI
  | .nop, _ | .brk, _ | .cont, _ | .trace _, _ | .ret none, _ | .ret (some _), _ | .letS .., _ | .letn .., _ | .print _, _
  | .put _, _ | .doS _, _ | .raise _, _ => ⟨_, _, by simp only [toksStmt]; rfl, by first | decide | (show cKW ≠ cSEMI; decide)⟩
  | .ifS .., h | .whileS .., h | .forS .., h | .forall .., h | .begin .., h | .func .., h => by simp [wfFlat] at h

def psize : List PStmt → Nat
  | [] => 0
  | s :: ss => fsize s + 2 + psize ss

/-- **Round trip of flat programs**: `Parser::parse` on the tokens of a saved program made of flat statements. -/
theorem flat_program_rt : ∀ (p : List PStmt), wfFlatB p = true → ∀ (f : Nat), 16 * psize p + 21 ≤ f →
    pProgram f (toksBlock p) = .ok (normB p)
  | [], _, f, hf => by
    obtain ⟨f', rfl⟩ : ∃ f', f = f' + 1 := ⟨f - 1, by omega⟩
    simp [toksBlock, normB, pProgram, pure, Except.pure]
  | s :: ss, h, f, hf => by
    obtain ⟨f', rfl⟩ : ∃ f', f = f' + 1 := ⟨f - 1, by omega⟩
    have hw : wfFlat s = true ∧ wfFlatB ss = true := by simpa [wfFlatB] using h
    obtain ⟨t, ts, h1, h2⟩ := flat_head s hw.1
    have hs := flat_rt s hw.1 false (toksBlock ss) f' (by simp only [psize] at hf; omega)
    have ih := flat_program_rt ss hw.2 f' (by simp only [psize] at hf; omega)
    have h2' : ¬ t.code = 59 := h2
    simp only [toksBlock]
    rw [h1] at hs ⊢
    simp only [List.cons_append] at hs ⊢
    rw [pProgram]
    simp [h2', cSEMI, hs, ih, normB, bind, Except.bind, pure, Except.pure]

end BlocV.C12L
