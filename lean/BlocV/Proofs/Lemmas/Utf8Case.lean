/-
  Helper lemmas for the case transformations of the utf8 module (Model/Mod/Utf8Case.lean): a parser with a transformation
  installed stores the transformed `done` values of the plain parser (`emit`), non-zero ones only; the representation
  invariant `Inv` is kept; `Transform(func)` on a string of valid characters re-reads exactly those characters.
-/
import BlocV.Proofs.Lemmas.Utf8Ill
import BlocV.Proofs.Lemmas.Utf8Ops
import BlocV.Model.Mod.Utf8Case

set_option linter.unusedVariables false

namespace BlocV.Mod.Utf8
open BlocV.Spec.Utf8 (isScalar encode encodeAll pack)

/-- what a parser with `f` installed stores for the `done` values `raws` of the plain parser -/
def outF (cm : CharMap) (f : Func) (raws : List Nat) : List Nat := (raws.map (applyF cm f)).filter (· ≠ 0)

theorem outF_nil (cm : CharMap) (f : Func) : outF cm f [] = [] := rfl

theorem outF_cons_zero (cm : CharMap) (f : Func) (r : Nat) (rs : List Nat) (h : applyF cm f r = 0) :
    outF cm f (r :: rs) = outF cm f rs := by
  simp [outF, h]

theorem outF_cons_ne (cm : CharMap) (f : Func) (r : Nat) (rs : List Nat) (h : applyF cm f r ≠ 0) :
    outF cm f (r :: rs) = applyF cm f r :: outF cm f rs := by
  simp [outF, h]

theorem outF_length_le (cm : CharMap) (f : Func) (rs : List Nat) : (outF cm f rs).length ≤ rs.length := by
  unfold outF
  have := List.length_filter_le (fun x => decide (x ≠ 0)) (rs.map (applyF cm f))
  simpa using this

theorem outF_nop (cm : CharMap) (rs : List Nat) : outF cm .nop rs = rs.filter (· ≠ 0) := by
  have e : applyF cm .nop = id := by funext x; rfl
  simp [outF, e]

/-- the parser with a transformation installed, over a byte sequence: same walk through the states as the plain parser,
    and the store receives `outF` of the plain parser's `done` values -/
theorem foldl_writeByteF (cm : CharMap) (f : Func) (bs : List UInt8) : ∀ (s : UStr),
    bs.foldl (writeByteF cm f) s =
      { parser := endState s.parser (bs.map (·.toNat)),
        store := s.store ++ outF cm f (emit s.parser (bs.map (·.toNat))),
        rawSize := s.rawSize + bytesOf (outF cm f (emit s.parser (bs.map (·.toNat)))) } := by
  induction bs with
  | nil => intro s; obtain ⟨p, st, sr⟩ := s; simp [emit, endState, outF, bytesOf]
  | cons b bs ih =>
    intro s
    obtain ⟨p, st, sr⟩ := s
    simp only [List.foldl_cons, List.map_cons]
    rw [ih]
    rcases hs : step p b.toNat with ⟨e, q⟩
    cases e with
    | done raw =>
      by_cases h0 : applyF cm f raw = 0
      · simp [writeByteF, hs, h0, emit, endState, outF_cons_zero]
      · simp [writeByteF, hs, h0, emit, endState, outF_cons_ne, bytesOf_cons, Nat.add_assoc]
    | cont => simp [writeByteF, hs, emit, endState]
    | error => simp [writeByteF, hs, emit, endState]

theorem foldl_writeByteF_inv (cm : CharMap) (f : Func) (bs : List UInt8) (s : UStr) (h : Inv s) :
    Inv (bs.foldl (writeByteF cm f) s) := by
  rw [foldl_writeByteF]
  simp only [Inv, bytesOf_append]
  rw [h]

theorem foldl_nested {α β γ : Type} (h : α → β → α) (g : γ → List β) : ∀ (l : List γ) (a : α),
    l.foldl (fun acc c => (g c).foldl h acc) a = (l.flatMap g).foldl h a := by
  intro l
  induction l with
  | nil => intro a; rfl
  | cons c cs ih => intro a; simp only [List.foldl_cons, List.flatMap_cons, List.foldl_append]; exact ih _

/-- `Transform(func)` in closed form, for EVERY object: the stored values are re-read through their bytes (each up to its
    first NUL byte) by a parser at rest with `f` installed -/
theorem transformT_eq (cm : CharMap) (f : Func) (t : TStr) :
    (transformT cm f t).u = (t.u.store.flatMap fun cp => (uString cp).takeWhile (· ≠ 0)).foldl (writeByteF cm f) {}
    ∧ (transformT cm f t).func = t.func := by
  refine ⟨?_, rfl⟩
  simp only [transformT]
  exact foldl_nested (writeByteF cm f) (fun cp => (uString cp).takeWhile (· ≠ 0)) t.u.store {}

theorem transformT_inv (cm : CharMap) (f : Func) (t : TStr) : Inv (transformT cm f t).u := by
  rw [(transformT_eq cm f t).1]
  exact foldl_writeByteF_inv cm f _ {} inv_empty

/-- the encoding of a non-zero scalar value has no NUL byte: `for (b = buf; *b; ++b)` walks all of it -/
theorem takeWhile_encode (n : Nat) (hs : isScalar n = true) (hn : n ≠ 0) : (encode n).takeWhile (· ≠ 0) = encode n := by
  rcases scalar_cases n hs with h | ⟨h1, h2⟩ | ⟨h1, h2, h3⟩ | ⟨h1, h2⟩
  · have e : encode n = [Spec.Utf8.byte n] := by simp [encode, h]
    have z := byte_ne_zero n (by omega) hn
    rw [e]
    simp only [List.takeWhile_cons, List.takeWhile_nil, ne_eq, z, not_false_eq_true, decide_true, if_true]
  · have e : encode n = [Spec.Utf8.byte (0xC0 + n / 0x40), Spec.Utf8.byte (0x80 + n % 0x40)] := by
      simp [encode, show ¬ n < 0x80 by omega, h2]
    have z0 := byte_ne_zero (0xC0 + n / 0x40) (by omega) (by omega)
    have z1 := byte_ne_zero (0x80 + n % 0x40) (by omega) (by omega)
    rw [e]
    simp only [List.takeWhile_cons, List.takeWhile_nil, ne_eq, z0, z1, not_false_eq_true, decide_true, if_true]
  · have e : encode n = [Spec.Utf8.byte (0xE0 + n / 0x1000), Spec.Utf8.byte (0x80 + n / 0x40 % 0x40),
        Spec.Utf8.byte (0x80 + n % 0x40)] := by
      simp [encode, show ¬ n < 0x80 by omega, show ¬ n < 0x800 by omega, h2]
    have z0 := byte_ne_zero (0xE0 + n / 0x1000) (by omega) (by omega)
    have z1 := byte_ne_zero (0x80 + n / 0x40 % 0x40) (by omega) (by omega)
    have z2 := byte_ne_zero (0x80 + n % 0x40) (by omega) (by omega)
    rw [e]
    simp only [List.takeWhile_cons, List.takeWhile_nil, ne_eq, z0, z1, z2, not_false_eq_true, decide_true, if_true]
  · have e : encode n = [Spec.Utf8.byte (0xF0 + n / 0x40000), Spec.Utf8.byte (0x80 + n / 0x1000 % 0x40),
        Spec.Utf8.byte (0x80 + n / 0x40 % 0x40), Spec.Utf8.byte (0x80 + n % 0x40)] := by
      simp [encode, show ¬ n < 0x80 by omega, show ¬ n < 0x800 by omega, show ¬ n < 0x10000 by omega]
    have z0 := byte_ne_zero (0xF0 + n / 0x40000) (by omega) (by omega)
    have z1 := byte_ne_zero (0x80 + n / 0x1000 % 0x40) (by omega) (by omega)
    have z2 := byte_ne_zero (0x80 + n / 0x40 % 0x40) (by omega) (by omega)
    have z3 := byte_ne_zero (0x80 + n % 0x40) (by omega) (by omega)
    rw [e]
    simp only [List.takeWhile_cons, List.takeWhile_nil, ne_eq, z0, z1, z2, z3, not_false_eq_true, decide_true, if_true]

/-- the bytes `Transform(func)` re-reads from a store of valid characters are the RFC 3629 encoding of the characters -/
theorem reread_bytes (cps : List Nat) (hs : ∀ c ∈ cps, isScalar c = true ∧ c ≠ 0) :
    ((cps.map pack).flatMap fun cp => (uString cp).takeWhile (· ≠ 0)) = encodeAll cps := by
  induction cps with
  | nil => rfl
  | cons c cs ih =>
    have hc := hs c (by simp)
    simp only [List.map_cons, List.flatMap_cons]
    rw [ih (fun x hx => hs x (by simp [hx])), (uString_pack c hc.1).1, takeWhile_encode c hc.1 hc.2]
    simp [encodeAll]

/-- the plain parser at rest over the encoding of valid characters: one `done` per character, at rest again -/
theorem emit_encodeAll (cps : List Nat) (hs : ∀ c ∈ cps, isScalar c = true ∧ c ≠ 0) :
    emit .p0 ((encodeAll cps).map (·.toNat)) = cps.map pack
    ∧ endState .p0 ((encodeAll cps).map (·.toNat)) = .p0 := by
  have h := foldl_writeByte (encodeAll cps) {}
  rw [writeBytes_encodeAll cps hs {} rfl] at h
  simp only [List.nil_append] at h
  exact ⟨h.1.symm, h.2.symm⟩

/-- a `done` value of the parser is never 0 (`NullCodepoint`): `_p0` drops the NUL byte, every other `done` ends in a byte > 0x7f -/
theorem p0_done_ne_zero (bb u : Nat) (q : PSt) (h : p0 bb = (.done u, q)) : u ≠ 0 := by
  simp only [p0] at h
  repeat' split at h
  all_goals first | (injection h with h1 _; injection h1 with h1; omega) | (injection h with h1 _; exact absurd h1 (by simp))

theorem step_done_ne_zero (p : PSt) (bb u : Nat) (q : PSt) (h : step p bb = (.done u, q)) : u ≠ 0 := by
  cases p with
  | p0 => exact p0_done_ne_zero bb u q (by simpa [step] using h)
  | p1u2 b0 =>
    simp only [step] at h
    split at h
    · injection h with h1 _; injection h1 with h1; omega
    · exact p0_done_ne_zero bb u q h
  | p1u3 b0 =>
    simp only [step] at h
    split at h
    · injection h with h1 _; exact absurd h1 (by simp)
    · exact p0_done_ne_zero bb u q h
  | p2u3 b0 b1 =>
    simp only [step] at h
    split at h
    · injection h with h1 _; injection h1 with h1; omega
    · exact p0_done_ne_zero bb u q h
  | p1u4 b0 =>
    simp only [step] at h
    split at h
    · injection h with h1 _; exact absurd h1 (by simp)
    · exact p0_done_ne_zero bb u q h
  | p2u4 b0 b1 =>
    simp only [step] at h
    split at h
    · injection h with h1 _; exact absurd h1 (by simp)
    · exact p0_done_ne_zero bb u q h
  | p3u4 b0 b1 b2 =>
    simp only [step] at h
    split at h
    · injection h with h1 _; injection h1 with h1; omega
    · exact p0_done_ne_zero bb u q h

/-- with `TransformNop` installed the parser is the plain one of Model/Mod/Utf8.lean -/
theorem writeByteF_nop (cm : CharMap) (s : UStr) (c : UInt8) : writeByteF cm .nop s c = writeByte s c := by
  unfold writeByteF writeByte
  rcases hs : step s.parser c.toNat with ⟨e, q⟩
  cases e with
  | done u =>
    have := step_done_ne_zero _ _ _ _ hs
    simp [applyF, this]
  | cont => rfl
  | error => rfl

theorem foldl_writeByteF_nop (cm : CharMap) (bs : List UInt8) (s : UStr) :
    bs.foldl (writeByteF cm .nop) s = bs.foldl writeByte s := by
  have : writeByteF cm .nop = writeByte := by funext s c; exact writeByteF_nop cm s c
  rw [this]

/-! ### the context-reading transformations -/

/-- what a parser with `f` installed and context `ctx` stores for the `done` values `raws`, and its context afterwards -/
def outC (cm : CharMapC) (f : FuncC) : Nat → List Nat → List Nat × Nat
  | ctx, [] => ([], ctx)
  | ctx, r :: rs =>
    if (doneC cm f ctx r).1 = 0 then outC cm f (doneC cm f ctx r).2 rs
    else ((doneC cm f ctx r).1 :: (outC cm f (doneC cm f ctx r).2 rs).1, (outC cm f (doneC cm f ctx r).2 rs).2)

theorem outC_length_le (cm : CharMapC) (f : FuncC) : ∀ (rs : List Nat) (ctx : Nat), (outC cm f ctx rs).1.length ≤ rs.length := by
  intro rs
  induction rs with
  | nil => intro ctx; simp [outC]
  | cons r rs ih =>
    intro ctx
    simp only [outC]
    split
    · have := ih (doneC cm f ctx r).2; simp only [List.length_cons]; omega
    · have := ih (doneC cm f ctx r).2; simp only [List.length_cons]; omega

theorem foldl_writeByteC (cm : CharMapC) (f : FuncC) (bs : List UInt8) : ∀ (s : UStr) (ctx : Nat),
    bs.foldl (writeByteC cm f) (s, ctx) =
      ({ parser := endState s.parser (bs.map (·.toNat)),
         store := s.store ++ (outC cm f ctx (emit s.parser (bs.map (·.toNat)))).1,
         rawSize := s.rawSize + bytesOf (outC cm f ctx (emit s.parser (bs.map (·.toNat)))).1 },
       (outC cm f ctx (emit s.parser (bs.map (·.toNat)))).2) := by
  induction bs with
  | nil => intro s ctx; obtain ⟨p, st, sr⟩ := s; simp [emit, endState, outC, bytesOf]
  | cons b bs ih =>
    intro s ctx
    obtain ⟨p, st, sr⟩ := s
    simp only [List.foldl_cons, List.map_cons]
    rcases hs : step p b.toNat with ⟨e, q⟩
    cases e with
    | done raw =>
      by_cases h0 : (doneC cm f ctx raw).1 = 0
      · have e1 : writeByteC cm f (⟨p, st, sr⟩, ctx) b = (⟨q, st, sr⟩, (doneC cm f ctx raw).2) := by
          simp [writeByteC, hs, h0]
        rw [e1, ih]
        simp [emit, endState, hs, outC, h0]
      · have e1 : writeByteC cm f (⟨p, st, sr⟩, ctx) b
            = (⟨q, st ++ [(doneC cm f ctx raw).1], sr + uSize (doneC cm f ctx raw).1⟩, (doneC cm f ctx raw).2) := by
          simp [writeByteC, hs, h0]
        rw [e1, ih]
        simp [emit, endState, hs, outC, h0, bytesOf_cons, Nat.add_assoc]
    | cont =>
      have e1 : writeByteC cm f (⟨p, st, sr⟩, ctx) b = (⟨q, st, sr⟩, ctx) := by simp [writeByteC, hs]
      rw [e1, ih]; simp [emit, endState, hs]
    | error =>
      have e1 : writeByteC cm f (⟨p, st, sr⟩, ctx) b = (⟨q, st, sr⟩, ctx) := by simp [writeByteC, hs]
      rw [e1, ih]; simp [emit, endState, hs]

theorem transformC_eq (cm : CharMapC) (f : FuncC) (t : TStr) :
    (transformC cm f t).u
      = ((t.u.store.flatMap fun cp => (uString cp).takeWhile (· ≠ 0)).foldl (writeByteC cm f) ({}, CTX0)).1
    ∧ (transformC cm f t).func = t.func := by
  refine ⟨?_, rfl⟩
  simp only [transformC]
  rw [foldl_nested (writeByteC cm f) (fun cp => (uString cp).takeWhile (· ≠ 0)) t.u.store ({}, CTX0)]

theorem transformC_inv (cm : CharMapC) (f : FuncC) (t : TStr) : Inv (transformC cm f t).u := by
  rw [(transformC_eq cm f t).1, foldl_writeByteC]
  simp [Inv, bytesOf_nil]

end BlocV.Mod.Utf8
