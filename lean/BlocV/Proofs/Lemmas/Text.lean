/-
  Helper lemmas for C10: `findFrom` (std::string::find) against Spec.Text.FirstOcc/NoOcc, `tokenize`
  against Spec.Text.join, the digit loop of `hex`, trim/upper/lower, the `replace` loop.
  (Helper lemmas only — the property theorems are in BlocV/Proofs/C10.lean.)
-/
import BlocV.Proofs.Lemmas.Bytes
namespace BlocV.Lemmas
open BlocV Spec.Text

theorem prefix_beq_iff (hay needle : Bytes) (i : Nat) :
    (((hay.drop i).take needle.length == needle) = true) ↔ needle <+: hay.drop i := by
  rw [List.prefix_iff_eq_take, beq_iff_eq]
  exact eq_comm

theorem findFrom_go_spec (hay needle : Bytes) : ∀ (fuel i : Nat), hay.length + 1 ≤ i + fuel →
    (∀ p, findFrom.go hay needle fuel i = some p → Spec.Text.FirstOcc hay needle i p) ∧
    (findFrom.go hay needle fuel i = none → Spec.Text.NoOcc hay needle i) := by
  intro fuel
  induction fuel with
  | zero =>
    intro i h
    simp only [findFrom.go]
    refine ⟨fun p hp => (by cases hp), fun _ => ?_⟩
    intro j h1 h2; omega
  | succ f ih =>
    intro i h
    simp only [findFrom.go]
    by_cases hlen : i + needle.length > hay.length
    · rw [if_pos hlen]
      refine ⟨fun p hp => (by cases hp), fun _ => ?_⟩
      intro j h1 h2 hp
      have := hp.length_le
      rw [List.length_drop] at this
      omega
    · rw [if_neg hlen]
      by_cases heq : ((hay.drop i).take needle.length == needle) = true
      · rw [if_pos heq]
        have hp := (prefix_beq_iff hay needle i).mp heq
        refine ⟨fun p e => ?_, fun e => (by cases e)⟩
        cases e
        exact ⟨Nat.le_refl _, by omega, hp, fun j h1 h2 => by omega⟩
      · rw [if_neg heq]
        have hnp : ¬ needle <+: hay.drop i := fun hp => heq ((prefix_beq_iff hay needle i).mpr hp)
        obtain ⟨ih1, ih2⟩ := ih (i + 1) (by omega)
        refine ⟨fun p e => ?_, fun e => ?_⟩
        · obtain ⟨a, b, c, d⟩ := ih1 p e
          refine ⟨by omega, b, c, ?_⟩
          intro j h1 h2
          by_cases hj : j = i
          · subst hj; exact hnp
          · exact d j (by omega) h2
        · intro j h1 h2
          by_cases hj : j = i
          · subst hj; exact hnp
          · exact ih2 e j (by omega) h2

/-- **`std::string::find` model**: the result is the first occurrence at or after `start`, or
there is none. -/
theorem findFrom_spec (hay needle : Bytes) (start : Nat) :
    (∀ p, findFrom hay needle start = some p → Spec.Text.FirstOcc hay needle start p) ∧
    (findFrom hay needle start = none → Spec.Text.NoOcc hay needle start) := by
  unfold findFrom
  by_cases h : start > hay.length
  · rw [if_pos h]
    refine ⟨fun p hp => (by cases hp), fun _ => ?_⟩
    intro j h1 h2; omega
  · rw [if_neg h]
    exact findFrom_go_spec hay needle _ _ (by omega)


/-! ### tokenize (no null trimming) against `Spec.Text.join` -/

theorem tokenizeLoop_acc (sep : Bytes) : ∀ (fuel : Nat) (rest tok : Bytes) (acc : List Bytes),
    tokenizeLoop sep false fuel rest tok acc = acc ++ tokenizeLoop sep false fuel rest tok [] := by
  intro fuel
  induction fuel with
  | zero => intro rest tok acc; simp [tokenizeLoop]
  | succ f ih =>
    intro rest tok acc
    cases rest with
    | nil => simp [tokenizeLoop]
    | cons c rs =>
      simp only [tokenizeLoop, Bool.not_false, Bool.true_or, if_true]
      split
      · rw [ih _ _ (acc ++ [tok]), ih _ _ ([] ++ [tok])]; simp
      · exact ih _ _ _

theorem tokenizeLoop_ne_nil (sep : Bytes) : ∀ (fuel : Nat) (rest tok : Bytes),
    tokenizeLoop sep false fuel rest tok [] ≠ [] := by
  intro fuel
  induction fuel with
  | zero => intro rest tok; simp [tokenizeLoop]
  | succ f ih =>
    intro rest tok
    cases rest with
    | nil => simp [tokenizeLoop]
    | cons c rs =>
      simp only [tokenizeLoop, Bool.not_false, Bool.true_or, if_true]
      split
      · rw [tokenizeLoop_acc]; simp
      · exact ih _ _

theorem join_cons_ne_nil (sep p : Bytes) (q : List Bytes) (h : q ≠ []) : join sep (p :: q) = p ++ sep ++ join sep q := by
  cases q with
  | nil => exact absurd rfl h
  | cons a b => rfl

theorem tokenizeLoop_join (sep : Bytes) : ∀ (fuel : Nat) (rest tok : Bytes), rest.length < fuel →
    join sep (tokenizeLoop sep false fuel rest tok []) = tok ++ rest := by
  intro fuel
  induction fuel with
  | zero => intro rest tok h; omega
  | succ f ih =>
    intro rest tok h
    cases rest with
    | nil => simp [tokenizeLoop, join]
    | cons c rs =>
      simp only [tokenizeLoop, Bool.not_false, Bool.true_or, if_true]
      split
      · rename_i hs
        simp only [Bool.and_eq_true, Bool.not_eq_true', beq_iff_eq] at hs
        obtain ⟨hne, htk⟩ := hs
        have hsl : 0 < sep.length := by
          cases sep with
          | nil => simp at hne
          | cons _ _ => simp
        rw [tokenizeLoop_acc, List.nil_append, List.singleton_append,
          join_cons_ne_nil _ _ _ (tokenizeLoop_ne_nil _ _ _ _), ih _ _ (by simp at h ⊢; omega)]
        rw [List.nil_append, List.append_assoc]
        congr 1
        have := List.take_append_drop sep.length (c :: rs)
        rw [htk] at this
        exact this
      · rw [ih _ _ (by simp at h; omega)]; simp

/-- **tokenize / join**: with null trimming off, the pieces joined by the separator give back the
string (any separator, also the empty one; any bytes). -/
theorem tokenize_join (s sep : Bytes) : join sep (tokenize s sep false) = s := by
  unfold tokenize
  cases s with
  | nil => rfl
  | cons c rs =>
    simp only [List.isEmpty_cons, Bool.false_eq_true, if_false]
    rw [tokenizeLoop_join _ _ _ _ (by simp)]; rfl


/-! ### hex -/

def isHexDigitLower (c : UInt8) : Bool := (48 ≤ c && c ≤ 57) || (97 ≤ c && c ≤ 102)

theorem and_0xf_lt (x : UInt64) : (x &&& 0xf).toNat < 16 := by
  rw [UInt64.toNat_and]
  exact Nat.lt_of_le_of_lt Nat.and_le_right (by decide)

theorem hexDigitB_all : ∀ n : Fin 16, isHexDigitLower (hexDigitB (UInt64.ofNat n.val)) = true := by decide +kernel

theorem hexDigitB_isHex (c : UInt64) (h : c.toNat < 16) : isHexDigitLower (hexDigitB c) = true := by
  have := hexDigitB_all ⟨c.toNat, h⟩
  simpa using this

/-- Whatever `hexLoop` returns extends the accumulator by between 1 and `k + 1` lower-case
hexadecimal digits. -/
theorem hexLoop_ok (v : Int64) : ∀ (k : Nat) (n s : Int64) (acc out : Bytes), hexLoop v k n s acc = .ok out →
    ∃ ds, out = acc ++ ds ∧ 1 ≤ ds.length ∧ ds.length ≤ k + 1 ∧ ∀ c ∈ ds, isHexDigitLower c = true := by
  intro k
  induction k with
  | zero =>
    intro n s acc out h
    simp only [hexLoop, Res.ok.injEq] at h
    subst h
    refine ⟨[_], rfl, by simp, by simp, ?_⟩
    intro c hc
    rw [List.mem_singleton.mp hc]
    exact hexDigitB_isHex _ (and_0xf_lt _)
  | succ k ih =>
    intro n s acc out h
    simp only [hexLoop] at h
    cases hs : sadd n 1 with
    | ok n' =>
      rw [hs] at h
      simp only at h
      obtain ⟨ds, e, l1, l2, hd⟩ := ih _ _ _ _ h
      split at e
      · refine ⟨_ :: ds, by rw [e, List.append_assoc]; rfl, by simp, by simp; omega, ?_⟩
        intro c hc
        rcases List.mem_cons.mp hc with rfl | hc
        · exact hexDigitB_isHex _ (and_0xf_lt _)
        · exact hd c hc
      · exact ⟨ds, e, l1, by omega, hd⟩
    | err c x => rw [hs] at h; cases h
    | haz x => rw [hs] at h; cases h
    | unmodelled => rw [hs] at h; cases h

/-- The recorded finding C10.hex.signedOverflow, exactly: `k` increments overflow when they do not fit. -/
theorem hexLoop_haz (v : Int64) : ∀ (k : Nat) (n s : Int64) (acc : Bytes), 0 < k → n.toInt + k ≥ 2 ^ 63 →
    hexLoop v k n s acc = .haz .signedOverflow := by
  intro k
  induction k with
  | zero => intro n s acc h; omega
  | succ k ih =>
    intro n s acc _ h
    have h1 := Int64.le_toInt n
    have h1' : (1 : Int64).toInt = 1 := by decide
    simp only [hexLoop, sadd_eq, h1']
    by_cases hr : -2 ^ 63 ≤ n.toInt + 1 ∧ n.toInt + 1 < 2 ^ 63
    · rw [if_pos hr]
      simp only
      have ht := toInt_add_of_range n 1 (by rw [h1']; exact hr)
      apply ih
      · omega
      · rw [ht, h1']; omega
    · rw [if_neg hr]

/-! ### upper / lower / trim -/

theorem dropWhileSp_suffix (s : Bytes) : dropWhileSp s <:+ s := List.dropWhile_suffix _
theorem rtrimSp_prefix (s : Bytes) : rtrimSp s <+: s := by
  unfold rtrimSp
  have h := List.dropWhile_suffix (fun (x : UInt8) => x == 32) (l := s.reverse)
  have := List.reverse_prefix.mpr h
  simpa using this

theorem trim_infix (s : Bytes) : dropWhileSp (rtrimSp s) <:+: s :=
  List.IsInfix.trans (dropWhileSp_suffix _).isInfix (rtrimSp_prefix s).isInfix

/-! ### replace -/

theorem replaceLoop_no_occurrence (hay needle repl : Bytes) (fuel : Nat) (h : findFrom hay needle 0 = none) :
    replaceLoop hay needle repl (fuel + 1) 0 [] = hay := by
  cases hay with
  | nil => simp [replaceLoop]
  | cons c r => simp [replaceLoop, h]


end BlocV.Lemmas
