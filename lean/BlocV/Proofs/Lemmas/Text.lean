/-
  Helper lemmas for C10: `findFrom` (std::string::find) against Spec.Text.FirstOcc/NoOcc, `tokenize`
  against Spec.Text.join, the digit loop of `hex`, trim/upper/lower, the `replace` loop.
  (Helper lemmas only — the property theorems are in BlocV/Proofs/C10.lean.)
-/
import BlocV.Proofs.Lemmas.Bytes
namespace BlocV.Lemmas
open BlocV Spec.Text

theorem prefix_beq_iff (hay needle : Bytes) (i : Nat) :
    (((hay.drop i).take needle.length == needle) = true) ↔ needle <+: hay.drop i := by
  rw [List.prefix_iff_eq_take, beq_iff_eq]
  exact eq_comm

theorem findFrom_go_spec (hay needle : Bytes) : ∀ (fuel i : Nat), hay.length + 1 ≤ i + fuel →
    (∀ p, findFrom.go hay needle fuel i = some p → Spec.Text.FirstOcc hay needle i p) ∧
    (findFrom.go hay needle fuel i = none → Spec.Text.NoOcc hay needle i) := by
  intro fuel
  induction fuel with
  | zero =>
    intro i h
    simp only [findFrom.go]
    refine ⟨fun p hp => (by cases hp), fun _ => ?_⟩
    intro j h1 h2; omega
  | succ f ih =>
    intro i h
    simp only [findFrom.go]
    by_cases hlen : i + needle.length > hay.length
    · rw [if_pos hlen]
      refine ⟨fun p hp => (by cases hp), fun _ => ?_⟩
      intro j h1 h2 hp
      have := hp.length_le
      rw [List.length_drop] at this
      omega
    · rw [if_neg hlen]
      by_cases heq : ((hay.drop i).take needle.length == needle) = true
      · rw [if_pos heq]
        have hp := (prefix_beq_iff hay needle i).mp heq
        refine ⟨fun p e => ?_, fun e => (by cases e)⟩
        cases e
        exact ⟨Nat.le_refl _, by omega, hp, fun j h1 h2 => by omega⟩
      · rw [if_neg heq]
        have hnp : ¬ needle <+: hay.drop i := fun hp => heq ((prefix_beq_iff hay needle i).mpr hp)
        obtain ⟨ih1, ih2⟩ := ih (i + 1) (by omega)
        refine ⟨fun p e => ?_, fun e => ?_⟩
        · obtain ⟨a, b, c, d⟩ := ih1 p e
          refine ⟨by omega, b, c, ?_⟩
          intro j h1 h2
          by_cases hj : j = i
          · subst hj; exact hnp
          · exact d j (by omega) h2
        · intro j h1 h2
          by_cases hj : j = i
          · subst hj; exact hnp
          · exact ih2 e j (by omega) h2

/-- **`std::string::find` model**: the result is the first occurrence at or after `start`, or
there is none. -/
theorem findFrom_spec (hay needle : Bytes) (start : Nat) :
    (∀ p, findFrom hay needle start = some p → Spec.Text.FirstOcc hay needle start p) ∧
    (findFrom hay needle start = none → Spec.Text.NoOcc hay needle start) := by
  unfold findFrom
  by_cases h : start > hay.length
  · rw [if_pos h]
    refine ⟨fun p hp => (by cases hp), fun _ => ?_⟩
    intro j h1 h2; omega
  · rw [if_neg h]
    exact findFrom_go_spec hay needle _ _ (by omega)


/-! ### tokenize (no null trimming) against `Spec.Text.join` -/

theorem tokenizeLoop_acc (sep : Bytes) : ∀ (fuel : Nat) (rest tok : Bytes) (acc : List Bytes),
    tokenizeLoop sep false fuel rest tok acc = acc ++ tokenizeLoop sep false fuel rest tok [] := by
  intro fuel
  induction fuel with
  | zero => intro rest tok acc; simp [tokenizeLoop]
  | succ f ih =>
    intro rest tok acc
    cases rest with
    | nil => simp [tokenizeLoop]
    | cons c rs =>
      simp only [tokenizeLoop, Bool.not_false, Bool.true_or, if_true]
      split
      · rw [ih _ _ (acc ++ [tok]), ih _ _ ([] ++ [tok])]; simp
      · exact ih _ _ _

theorem tokenizeLoop_ne_nil (sep : Bytes) : ∀ (fuel : Nat) (rest tok : Bytes),
    tokenizeLoop sep false fuel rest tok [] ≠ [] := by
  intro fuel
  induction fuel with
  | zero => intro rest tok; simp [tokenizeLoop]
  | succ f ih =>
    intro rest tok
    cases rest with
    | nil => simp [tokenizeLoop]
    | cons c rs =>
      simp only [tokenizeLoop, Bool.not_false, Bool.true_or, if_true]
      split
      · rw [tokenizeLoop_acc]; simp
      · exact ih _ _

theorem join_cons_ne_nil (sep p : Bytes) (q : List Bytes) (h : q ≠ []) : join sep (p :: q) = p ++ sep ++ join sep q := by
  cases q with
  | nil => exact absurd rfl h
  | cons a b => rfl

theorem tokenizeLoop_join (sep : Bytes) : ∀ (fuel : Nat) (rest tok : Bytes), rest.length < fuel →
    join sep (tokenizeLoop sep false fuel rest tok []) = tok ++ rest := by
  intro fuel
  induction fuel with
  | zero => intro rest tok h; omega
  | succ f ih =>
    intro rest tok h
    cases rest with
    | nil => simp [tokenizeLoop, join]
    | cons c rs =>
      simp only [tokenizeLoop, Bool.not_false, Bool.true_or, if_true]
      split
      · rename_i hs
        simp only [Bool.and_eq_true, Bool.not_eq_true', beq_iff_eq] at hs
        obtain ⟨hne, htk⟩ := hs
        have hsl : 0 < sep.length := by
          cases sep with
          | nil => simp at hne
          | cons _ _ => simp
        rw [tokenizeLoop_acc, List.nil_append, List.singleton_append,
          join_cons_ne_nil _ _ _ (tokenizeLoop_ne_nil _ _ _ _), ih _ _ (by simp at h ⊢; omega)]
        rw [List.nil_append, List.append_assoc]
        congr 1
        have := List.take_append_drop sep.length (c :: rs)
        rw [htk] at this
        exact this
      · rw [ih _ _ (by simp at h; omega)]; simp

/-- **tokenize / join**: with null trimming off, the pieces joined by the separator give back the
string (any separator, also the empty one; any bytes). -/
theorem tokenize_join (s sep : Bytes) : join sep (tokenize s sep false) = s := by
  unfold tokenize
  cases s with
  | nil => rfl
  | cons c rs =>
    simp only [List.isEmpty_cons, Bool.false_eq_true, if_false]
    rw [tokenizeLoop_join _ _ _ _ (by simp)]; rfl


/-! ### hex -/

def isHexDigitLower (c : UInt8) : Bool := (48 ≤ c && c ≤ 57) || (97 ≤ c && c ≤ 102)

theorem and_0xf_lt (x : UInt64) : (x &&& 0xf).toNat < 16 := by
  rw [UInt64.toNat_and]
  exact Nat.lt_of_le_of_lt Nat.and_le_right (by decide)

theorem hexDigitB_all : ∀ n : Fin 16, isHexDigitLower (hexDigitB (UInt64.ofNat n.val)) = true := by decide +kernel

theorem hexDigitB_isHex (c : UInt64) (h : c.toNat < 16) : isHexDigitLower (hexDigitB c) = true := by
  have := hexDigitB_all ⟨c.toNat, h⟩
  simpa using this

/-- Whatever `hexLoop` returns extends the accumulator by between 1 and `k + 1` lower-case
hexadecimal digits. -/
theorem hexLoop_ok (v : Int64) : ∀ (k : Nat) (n s : Int64) (acc out : Bytes), hexLoop v k n s acc = .ok out →
    ∃ ds, out = acc ++ ds ∧ 1 ≤ ds.length ∧ ds.length ≤ k + 1 ∧ ∀ c ∈ ds, isHexDigitLower c = true := by
  intro k
  induction k with
  | zero =>
    intro n s acc out h
    simp only [hexLoop, Res.ok.injEq] at h
    subst h
    refine ⟨[_], rfl, by simp, by simp, ?_⟩
    intro c hc
    rw [List.mem_singleton.mp hc]
    exact hexDigitB_isHex _ (and_0xf_lt _)
  | succ k ih =>
    intro n s acc out h
    simp only [hexLoop] at h
    cases hs : sadd n 1 with
    | ok n' =>
      rw [hs] at h
      simp only at h
      obtain ⟨ds, e, l1, l2, hd⟩ := ih _ _ _ _ h
      split at e
      · refine ⟨_ :: ds, by rw [e, List.append_assoc]; rfl, by simp, by simp; omega, ?_⟩
        intro c hc
        rcases List.mem_cons.mp hc with rfl | hc
        · exact hexDigitB_isHex _ (and_0xf_lt _)
        · exact hd c hc
      · exact ⟨ds, e, l1, by omega, hd⟩
    | err c x => rw [hs] at h; cases h
    | haz x => rw [hs] at h; cases h
    | unmodelled => rw [hs] at h; cases h

/-! #### the digit loop against Spec.Text.hex -/

theorem toNat_of_toInt (x : Int64) : (x.toUInt64.toNat : Int) = x.toInt % 2 ^ 64 := by
  have h1 : x.toInt = (x.toUInt64.toNat : Int).bmod (2 ^ 64) := by
    rw [← Int64.toNat_toBitVec]; exact BitVec.toInt_eq_toNat_bmod _
  have h2 : x.toUInt64.toNat < 2 ^ 64 := x.toUInt64.toNat_lt
  rw [h1]
  have := Int.bmod_emod (x := (x.toUInt64.toNat : Int)) (m := 2 ^ 64)
  simp only [Nat.reducePow] at this ⊢
  omega

/-- Arithmetic right shift of an `int64_t`, then the conversion to `uint64_t`. -/
theorem shr_toNat (v : Int64) (j : Nat) (hj : ((Int64.ofNat j).toBitVec.smod 64).toNat = j) :
    ((v >>> (Int64.ofNat j)).toUInt64.toNat : Int) = (v.toInt / ((2 ^ j : Nat) : Int)) % 2 ^ 64 := by
  rw [toNat_of_toInt]
  show (v >>> (Int64.ofNat j)).toBitVec.toInt % 2 ^ 64 = _
  rw [Int64.toBitVec_shiftRight, BitVec.sshiftRight_eq', BitVec.toInt_sshiftRight, Int.shiftRight_eq_div_pow, hj]
  rfl

theorem and_f_toNat (x : UInt64) : (x &&& 0xf).toNat = x.toNat % 16 := by
  rw [UInt64.toNat_and]
  exact Nat.and_two_pow_sub_one_eq_mod x.toNat 4

/-- `0xf & (val >> 4*j)` on the signed value is the j-th hexadecimal digit of the 64-bit two's-complement
pattern, for every `int64_t` (negative ones included: the arithmetic shift only replicates the sign into
bits that the mask removes). -/
theorem nib_eq (v : Int64) (j : Nat) (h1 : 1 ≤ j) (h2 : j ≤ 15) :
    ((v >>> (Int64.ofNat (4 * j))).toUInt64 &&& 0xf).toNat = v.toUInt64.toNat / 16 ^ j % 16 := by
  have hu := toNat_of_toInt v
  have hlt : v.toUInt64.toNat < 2 ^ 64 := v.toUInt64.toNat_lt
  rw [and_f_toNat]
  have hk : ∀ sh, ((Int64.ofNat sh).toBitVec.smod 64).toNat = sh →
     ((v >>> (Int64.ofNat sh)).toUInt64.toNat : Int) = (v.toInt / ((2 ^ sh : Nat) : Int)) % 2 ^ 64 := fun sh h => shr_toNat v sh h
  have : j = 1 ∨ j = 2 ∨ j = 3 ∨ j = 4 ∨ j = 5 ∨ j = 6 ∨ j = 7 ∨ j = 8 ∨ j = 9 ∨ j = 10 ∨ j = 11 ∨ j = 12 ∨ j = 13 ∨ j = 14 ∨ j = 15 := by omega
  rcases this with rfl | rfl | rfl | rfl | rfl | rfl | rfl | rfl | rfl | rfl | rfl | rfl | rfl | rfl | rfl
  · have k := hk 4 (by decide); simp only [Nat.reducePow, Nat.reduceMul] at k ⊢; omega
  · have k := hk 8 (by decide); simp only [Nat.reducePow, Nat.reduceMul] at k ⊢; omega
  · have k := hk 12 (by decide); simp only [Nat.reducePow, Nat.reduceMul] at k ⊢; omega
  · have k := hk 16 (by decide); simp only [Nat.reducePow, Nat.reduceMul] at k ⊢; omega
  · have k := hk 20 (by decide); simp only [Nat.reducePow, Nat.reduceMul] at k ⊢; omega
  · have k := hk 24 (by decide); simp only [Nat.reducePow, Nat.reduceMul] at k ⊢; omega
  · have k := hk 28 (by decide); simp only [Nat.reducePow, Nat.reduceMul] at k ⊢; omega
  · have k := hk 32 (by decide); simp only [Nat.reducePow, Nat.reduceMul] at k ⊢; omega
  · have k := hk 36 (by decide); simp only [Nat.reducePow, Nat.reduceMul] at k ⊢; omega
  · have k := hk 40 (by decide); simp only [Nat.reducePow, Nat.reduceMul] at k ⊢; omega
  · have k := hk 44 (by decide); simp only [Nat.reducePow, Nat.reduceMul] at k ⊢; omega
  · have k := hk 48 (by decide); simp only [Nat.reducePow, Nat.reduceMul] at k ⊢; omega
  · have k := hk 52 (by decide); simp only [Nat.reducePow, Nat.reduceMul] at k ⊢; omega
  · have k := hk 56 (by decide); simp only [Nat.reducePow, Nat.reduceMul] at k ⊢; omega
  · have k := hk 60 (by decide); simp only [Nat.reducePow, Nat.reduceMul] at k ⊢; omega

theorem hexDigitB_fin : ∀ n : Fin 16, hexDigitB (UInt64.ofNat n.val) = hexDigit n.val := by decide +kernel
theorem hexDigit_ne_fin : ∀ n : Fin 16, 0 < n.val → hexDigit n.val ≠ 48 := by decide +kernel

theorem hexDigitB_spec (c : UInt64) (h : c.toNat < 16) : hexDigitB c = hexDigit c.toNat := by
  have := hexDigitB_fin ⟨c.toNat, h⟩
  simpa using this

theorem hexDigit_ne_48 (d : Nat) (h0 : 0 < d) (h : d < 16) : hexDigit d ≠ 48 := hexDigit_ne_fin ⟨d, h⟩ h0

/-- the nibble read by iteration `k + 1` of the loop -/
def nibC (v : Int64) (k : Nat) : UInt64 := (v >>> (Int64.ofNat (4 * (k + 1)))).toUInt64 &&& 0xf

theorem nibC_toNat (v : Int64) (k : Nat) (hk : k + 1 ≤ 15) : (nibC v k).toNat = v.toUInt64.toNat / 16 ^ (k + 1) % 16 :=
  nib_eq v (k + 1) (by omega) hk

theorem nibC_toInt (v : Int64) (k : Nat) (hk : k + 1 ≤ 15) : (nibC v k).toInt64.toInt = ((nibC v k).toNat : Int) := by
  have h := nibC_toNat v k hk
  have hlt : (nibC v k).toNat < 16 := by rw [h]; exact Nat.mod_lt _ (by decide)
  have : (nibC v k).toInt64.toInt = ((nibC v k).toNat : Int).bmod (2 ^ 64) := by
    show (nibC v k).toBitVec.toInt = _
    exact BitVec.toInt_eq_toNat_bmod _
  rw [this, Int.bmod_eq_of_le] <;> omega

theorem hexLoop_succ (v : Int64) (k : Nat) (n s : Int64) (acc : Bytes) (hr : n.toInt + 1 < 2 ^ 63) :
    hexLoop v (k + 1) n s acc =
      hexLoop v k (n + 1) (s + (nibC v k).toInt64)
        (if (s + (nibC v k).toInt64 != 0 || decide (n ≥ 16)) = true then acc ++ [hexDigitB (nibC v k)] else acc) := by
  have h1 := Int64.le_toInt n
  have h1' : (1 : Int64).toInt = 1 := by decide
  have hr' : -2 ^ 63 ≤ n.toInt + (1 : Int64).toInt ∧ n.toInt + (1 : Int64).toInt < 2 ^ 63 := by rw [h1']; omega
  simp only [hexLoop, sadd_eq, hr', and_self, if_true, nibC]
  rfl

theorem toInt_succ (n : Int64) (hr : n.toInt + 1 < 2 ^ 63) : (n + 1).toInt = n.toInt + 1 := by
  have h1 := Int64.le_toInt n
  have h1' : (1 : Int64).toInt = 1 := by decide
  rw [toInt_add_of_range n 1 (by rw [h1']; omega), h1']

theorem ge16_iff (n : Int64) : (n ≥ 16) ↔ 16 ≤ n.toInt := by
  show (16 : Int64) ≤ n ↔ _
  rw [Int64.le_iff_toInt_le]; rfl

theorem ne_zero_of_toInt_pos (s : Int64) (h : 0 < s.toInt) : (s != 0) = true := by
  apply bne_iff_ne.mpr
  intro e; rw [e] at h; simp at h

/-- Once a digit has been printed (a non-zero nibble was seen, or the pad counter reached 16) all the
remaining nibbles are printed. -/
theorem hexLoop_all (v : Int64) : ∀ (k : Nat), k ≤ 15 → ∀ (n s : Int64) (acc : Bytes), n.toInt + k < 2 ^ 63 →
    (16 ≤ n.toInt ∨ (0 < s.toInt ∧ s.toInt + 15 * k < 2 ^ 62)) →
    hexLoop v k n s acc = .ok (acc ++ hexFixed v.toUInt64.toNat (k + 1)) := by
  intro k
  induction k with
  | zero =>
    intro _ n s acc _ _
    simp only [hexLoop, hexFixed, Nat.pow_zero, Nat.div_one]
    rw [hexDigitB_spec _ (by rw [and_f_toNat]; exact Nat.mod_lt _ (by decide)), and_f_toNat]
  | succ k ih =>
    intro hk n s acc hn hc
    have hnib := nibC_toNat v k hk
    have hlt : (nibC v k).toNat < 16 := by rw [hnib]; exact Nat.mod_lt _ (by decide)
    have hci := nibC_toInt v k hk
    have hs1 := Int64.le_toInt s
    rw [hexLoop_succ v k n s acc (by omega)]
    have hn1 := toInt_succ n (by omega)
    have hcond : (s + (nibC v k).toInt64 != 0 || decide (n ≥ 16)) = true := by
      rcases hc with h16 | ⟨hs, hb⟩
      · simp [(ge16_iff n).mpr h16]
      · have : (s + (nibC v k).toInt64).toInt = s.toInt + (nibC v k).toNat := by
          rw [toInt_add_of_range _ _ (by rw [hci]; omega), hci]
        rw [ne_zero_of_toInt_pos _ (by rw [this]; omega)]; rfl
    rw [if_pos hcond, ih (by omega) _ _ _ (by rw [hn1]; omega) ?_]
    · rw [List.append_assoc, hexDigitB_spec _ hlt, hnib]; rfl
    · rcases hc with h16 | ⟨hs, hb⟩
      · left; rw [hn1]; omega
      · right
        have : (s + (nibC v k).toInt64).toInt = s.toInt + (nibC v k).toNat := by
          rw [toInt_add_of_range _ _ (by rw [hci]; omega), hci]
        rw [this]; omega

/-- The digit loop entered with nothing printed yet (`s = 0`): the remaining `k + 1` nibbles with their
leading zeros removed while the running pad counter is below 16. -/
theorem hexLoop_strip (v : Int64) : ∀ (k : Nat), k ≤ 15 → ∀ (n : Int64) (acc : Bytes), n.toInt + k < 2 ^ 63 →
    hexLoop v k n 0 acc =
      .ok (acc ++ stripZeros (max 1 (min (n.toInt + k - 15) (k + 1))).toNat (hexFixed v.toUInt64.toNat (k + 1))) := by
  intro k
  induction k with
  | zero =>
    intro _ n acc _
    simp only [hexLoop, hexFixed, Nat.pow_zero, Nat.div_one]
    rw [hexDigitB_spec _ (by rw [and_f_toNat]; exact Nat.mod_lt _ (by decide)), and_f_toNat]
    have : ¬ ((max 1 (min (n.toInt + ((0 : Nat) : Int) - 15) (((0 : Nat) : Int) + 1))).toNat < ([] : List UInt8).length + 1) := by
      simp only [List.length_nil]; omega
    simp only [stripZeros, this, and_false, if_false]
  | succ k ih =>
    intro hk n acc hn
    have hnib := nibC_toNat v k hk
    have hlt : (nibC v k).toNat < 16 := by rw [hnib]; exact Nat.mod_lt _ (by decide)
    have hci := nibC_toInt v k hk
    rw [hexLoop_succ v k n 0 acc (by omega)]
    have hn1 := toInt_succ n (by omega)
    have hs' : ((0 : Int64) + (nibC v k).toInt64).toInt = (nibC v k).toNat := by
      rw [toInt_add_of_range _ _ (by rw [hci]; simp; omega), hci]; simp
    have hlen : (hexFixed v.toUInt64.toNat (k + 1)).length = k + 1 := hexFixed_length _ _
    have hfix : hexFixed v.toUInt64.toNat (k + 1 + 1) = hexDigit (nibC v k).toNat :: hexFixed v.toUInt64.toNat (k + 1) := by
      rw [hnib]; rfl
    rw [hfix]
    by_cases hz : (nibC v k).toNat = 0
    · -- a zero nibble
      have hs0 : (0 : Int64) + (nibC v k).toInt64 = 0 := by
        apply Int64.toInt_inj.mp; rw [hs', hz]; rfl
      by_cases h16 : 16 ≤ n.toInt
      · have hcond : ((0 : Int64) + (nibC v k).toInt64 != 0 || decide (n ≥ 16)) = true := by
          simp [(ge16_iff n).mpr h16]
        rw [if_pos hcond, hexLoop_all v k (by omega) _ _ _ (by rw [hn1]; omega) (.inl (by rw [hn1]; omega))]
        rw [List.append_assoc, hexDigitB_spec _ hlt]
        have : ¬ ((max 1 (min (n.toInt + ((k + 1 : Nat) : Int) - 15) (((k + 1 : Nat) : Int) + 1))).toNat <
            (hexFixed v.toUInt64.toNat (k + 1)).length + 1) := by
          rw [hlen]; omega
        simp only [stripZeros, this, and_false, if_false]; rfl
      · have hcond : ¬ ((0 : Int64) + (nibC v k).toInt64 != 0 || decide (n ≥ 16)) = true := by
          have : ¬ (n ≥ 16) := fun h => h16 ((ge16_iff n).mp h)
          simp [hs0, this]
        rw [if_neg hcond, hs0, ih (by omega) _ _ (by rw [hn1]; omega), hn1]
        have hd : hexDigit (nibC v k).toNat = 48 := by rw [hz]; rfl
        have hk2 : (max 1 (min (n.toInt + ((k + 1 : Nat) : Int) - 15) (((k + 1 : Nat) : Int) + 1))).toNat <
            (hexFixed v.toUInt64.toNat (k + 1)).length + 1 := by
          rw [hlen]; omega
        have hkeep : (max 1 (min (n.toInt + 1 + (k : Int) - 15) ((k : Int) + 1))).toNat =
            (max 1 (min (n.toInt + ((k + 1 : Nat) : Int) - 15) (((k + 1 : Nat) : Int) + 1))).toNat := by
          omega
        conv => rhs; rw [stripZeros]
        simp only [hd, hk2, and_self, if_true]
        rw [hkeep]
    · -- a non-zero nibble: printed, and everything after it
      have hpos : 0 < (nibC v k).toNat := Nat.pos_of_ne_zero hz
      have hcond : ((0 : Int64) + (nibC v k).toInt64 != 0 || decide (n ≥ 16)) = true := by
        rw [ne_zero_of_toInt_pos _ (by rw [hs']; omega)]; rfl
      rw [if_pos hcond, hexLoop_all v k (by omega) _ _ _ (by rw [hn1]; omega) (.inr ⟨by rw [hs']; omega, by rw [hs']; omega⟩)]
      rw [List.append_assoc, hexDigitB_spec _ hlt]
      have hd : hexDigit (nibC v k).toNat ≠ 48 := hexDigit_ne_48 _ hpos hlt
      simp only [stripZeros, hd, false_and, if_false]; rfl

/-- **`HEXExpression::hex(val, n)` is the specification**, for every value and every pad count
(negative, zero, 1..16, beyond 16 up to INT64_MAX): no hazard, no exclusion. -/
theorem hexStr_spec (v n : Int64) : hexStr v n = .ok (Spec.Text.hex v.toInt n.toInt) := by
  unfold hexStr
  have hc : (hexClamp n).toInt = min n.toInt 16 := by
    unfold hexClamp
    have e : (16 : Int64).toInt = 16 := by decide
    split
    · rename_i h
      have := Int64.lt_iff_toInt_lt.mp h
      rw [e]; omega
    · rename_i h
      have : ¬ ((16 : Int64).toInt < n.toInt) := fun h' => h (Int64.lt_iff_toInt_lt.mpr h')
      omega
  rw [hexLoop_strip v 15 (by decide) _ _ (by rw [hc]; omega), hc, List.nil_append]
  unfold Spec.Text.hex
  have hu : v.toUInt64.toNat = (v.toInt % 2 ^ 64).toNat := by
    have := toNat_of_toInt v
    omega
  rw [hu]
  congr 2
  omega

/-! ### upper / lower / trim -/

theorem dropWhileSp_suffix (s : Bytes) : dropWhileSp s <:+ s := List.dropWhile_suffix _
theorem rtrimSp_prefix (s : Bytes) : rtrimSp s <+: s := by
  unfold rtrimSp
  have h := List.dropWhile_suffix (fun (x : UInt8) => x == 32) (l := s.reverse)
  have := List.reverse_prefix.mpr h
  simpa using this

theorem trim_infix (s : Bytes) : dropWhileSp (rtrimSp s) <:+: s :=
  List.IsInfix.trans (dropWhileSp_suffix _).isInfix (rtrimSp_prefix s).isInfix

/-! ### replace -/

theorem replaceLoop_no_occurrence (hay needle repl : Bytes) (fuel : Nat) (h : findFrom hay needle 0 = none) :
    replaceLoop hay needle repl (fuel + 1) 0 [] = hay := by
  cases hay with
  | nil => simp [replaceLoop]
  | cons c r => simp [replaceLoop, h]


end BlocV.Lemmas
