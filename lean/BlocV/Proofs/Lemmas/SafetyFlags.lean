/-
  Helper lemmas for the third sentence of C02 (task C02R3): the run-time safety flag machine of Model/Safety.lean
  (`FlagSt`, `step`, `run`, `unwindTo`): unwinding to the depth a piece of a run started at restores flags and stack
  (`restored_by_unwinding`), and a flag that is set and remembered set by every running loop over its variable stays set
  whatever happens (`held_run`). (Helper lemmas only — the property theorems are in BlocV/Proofs/C02.lean.)
-/
import BlocV.Model.Safety

namespace BlocV.Safety

theorem setFlag_self (f : String → Bool) (v : String) : setFlag f v (f v) = f := by
  funext n; unfold setFlag; split <;> simp_all

theorem setFlag_setFlag (f : String → Bool) (v : String) (a b : Bool) : setFlag (setFlag f v a) v b = setFlag f v b := by
  funext n; unfold setFlag; split <;> simp_all

theorem unwindTo_of_le (d : Nat) (f : String → Bool) (c : List Ctl) (h : c.length ≤ d) : unwindTo d f c = ⟨f, c⟩ := by
  cases c with
  | nil => rfl
  | cons x r => simp only [List.length_cons] at h; simp [unwindTo, h]

theorem unwindTo_push (d : Nat) (f : String → Bool) (c : Ctl) (r : List Ctl) (h : d ≤ r.length) :
    unwindTo d f (c :: r) = unwindTo d (finalize f c) r := by
  have : ¬(r.length + 1 ≤ d) := by omega
  simp [unwindTo, this]

theorem unwindTo_length_le (d : Nat) (f : String → Bool) (c : List Ctl) : (unwindTo d f c).ctl.length ≤ c.length := by
  induction c generalizing f with
  | nil => simp [unwindTo]
  | cons x r ih =>
    unfold unwindTo
    split
    · simp
    · exact Nat.le_succ_of_le (ih _)

/-- unwinding in two stages is unwinding once -/
theorem unwindTo_unwindTo (d k : Nat) (f : String → Bool) (c : List Ctl) (h : d ≤ (unwindTo k f c).ctl.length) :
    unwindTo d (unwindTo k f c).flags (unwindTo k f c).ctl = unwindTo d f c := by
  induction c generalizing f with
  | nil => rfl
  | cons x r ih =>
    by_cases hk : r.length + 1 ≤ k
    · simp [unwindTo, hk]
    · have e : unwindTo k f (x :: r) = unwindTo k (finalize f x) r := by simp [unwindTo, hk]
      rw [e] at h ⊢
      have hl := unwindTo_length_le k (finalize f x) r
      have hd : ¬(r.length + 1 ≤ d) := by omega
      rw [ih _ h]
      simp [unwindTo, hd]

/-- key invariant: unwinding to the depth the events started at forgets them -/
theorem unwind_step (d : Nat) (s : FlagSt) (e : Ev) (hs : d ≤ s.ctl.length) (h : d ≤ (step s e).ctl.length) :
    unwindTo d (step s e).flags (step s e).ctl = unwindTo d s.flags s.ctl := by
  cases e with
  | enterFor v => simp only [step]; rw [unwindTo_push d _ _ _ hs]; simp [finalize, setFlag_setFlag, setFlag_self]
  | enterForall v => simp only [step]; rw [unwindTo_push d _ _ _ hs]; simp [finalize, setFlag_setFlag, setFlag_self]
  | enterWhile => simp only [step]; rw [unwindTo_push d _ _ _ hs]; simp [finalize]
  | unstack =>
    cases hc : s.ctl with
    | nil => simp [step, hc]
    | cons c r =>
      simp only [step, hc] at h ⊢
      rw [unwindTo_push d _ _ _ h]
  | error k => simp only [step] at h ⊢; exact unwindTo_unwindTo d k _ _ h

theorem unwind_run (d : Nat) (s : FlagSt) (evs : List Ev) (hs : d ≤ s.ctl.length) (h : depthOk d s evs = true) :
    unwindTo d (run s evs).flags (run s evs).ctl = unwindTo d s.flags s.ctl := by
  induction evs generalizing s with
  | nil => rfl
  | cons e r ih =>
    simp only [depthOk, Bool.and_eq_true, decide_eq_true_eq] at h
    simp only [run]
    rw [ih (step s e) h.1 h.2, unwind_step d s e hs h.1]

/-- **Every exit route restores the flag.** Whatever loops a piece of a run enters and leaves (normal end, break, a return
travelling outwards: `unstack`; a runtime error: `error`), as long as it does not pop frames that were there before it:
unwinding to the depth it started at gives back the state it started in — flags and stack. -/
theorem restored_by_unwinding (s : FlagSt) (evs : List Ev) (h : depthOk s.ctl.length s evs = true) :
    unwindTo s.ctl.length (run s evs).flags (run s evs).ctl = s := by
  rw [unwind_run _ s evs (Nat.le_refl _) h, unwindTo_of_le _ _ _ (Nat.le_refl _)]

/-- … in particular when the piece has closed its loops itself (depth back to where it started). -/
theorem restored_when_closed (s : FlagSt) (evs : List Ev) (h : depthOk s.ctl.length s evs = true)
    (hc : (run s evs).ctl.length = s.ctl.length) : run s evs = s := by
  have := restored_by_unwinding s evs h
  rw [unwindTo_of_le _ _ _ (Nat.le_of_eq hc)] at this
  exact this

/-- the flag of `v` is set and every frame over `v` remembers it set -/
def Held (v : String) (s : FlagSt) : Prop := s.flags v = true ∧ ∀ c ∈ s.ctl, ∀ b, c = Ctl.loop v b → b = true

theorem held_unwindTo (v : String) (d : Nat) (f : String → Bool) (c : List Ctl) (h : Held v ⟨f, c⟩) : Held v (unwindTo d f c) := by
  induction c generalizing f with
  | nil => exact h
  | cons x r ih =>
    unfold unwindTo
    split
    · exact h
    · apply ih
      refine ⟨?_, fun c hc b e => h.2 c (List.mem_cons_of_mem _ hc) b e⟩
      cases x with
      | plain => exact h.1
      | loop w b =>
        simp only [finalize, setFlag]
        split
        · rename_i e; subst e; exact h.2 _ (List.mem_cons_self ..) b rfl
        · exact h.1

theorem held_step (v : String) (s : FlagSt) (e : Ev) (h : Held v s) : Held v (step s e) := by
  cases e with
  | enterFor w =>
    refine ⟨by simp only [step, setFlag]; split <;> simp [h.1], ?_⟩
    intro c hc b e
    simp only [step, List.mem_cons] at hc
    rcases hc with rfl | hc
    · injection e with e1 e2; subst e1; rw [← e2]; exact h.1
    · exact h.2 c hc b e
  | enterForall w =>
    refine ⟨by simp only [step, setFlag]; split <;> simp [h.1], ?_⟩
    intro c hc b e
    simp only [step, List.mem_cons] at hc
    rcases hc with rfl | hc
    · injection e with e1 e2; subst e1; rw [← e2]; exact h.1
    · exact h.2 c hc b e
  | enterWhile =>
    refine ⟨h.1, ?_⟩
    intro c hc b e
    simp only [step, List.mem_cons] at hc
    rcases hc with rfl | hc
    · cases e
    · exact h.2 c hc b e
  | unstack =>
    cases hc : s.ctl with
    | nil => simpa [step, hc] using h
    | cons x r =>
      have := held_unwindTo v r.length s.flags (x :: r) (by rw [← hc]; exact h)
      have hlt : ¬(r.length + 1 ≤ r.length) := by omega
      rw [unwindTo, if_neg hlt, unwindTo_of_le _ _ _ (Nat.le_refl _)] at this
      simpa [step, hc] using this
  | error d => exact held_unwindTo v d s.flags s.ctl h

/-- **The constraint of a `$` variable survives every loop over it.** From a state in which the flag of `v` is set (and the
running loops over `v`, if any, remember it set), NO sequence of loop events — loops over `v` itself, nested, left by any
route, errors unwinding to any depth — ever shows the flag of `v` unset, at any point. -/
theorem held_run (v : String) (s : FlagSt) (evs : List Ev) (h : Held v s) : Held v (run s evs) := by
  induction evs generalizing s with
  | nil => exact h
  | cons e r ih => exact ih _ (held_step v s e h)

theorem depthOk_zero (s : FlagSt) (evs : List Ev) : depthOk 0 s evs = true := by
  induction evs generalizing s with
  | nil => rfl
  | cons e r ih => simp [depthOk, ih]

theorem run_append (s : FlagSt) (a b : List Ev) : run s (a ++ b) = run (run s a) b := by
  induction a generalizing s with
  | nil => rfl
  | cons e r ih => simp [run, ih]

end BlocV.Safety
