/-
  Helper lemmas for Proofs/C16.lean: the invariant `WorldOk` of the permission model (Model/Plugin.lean, part Perm)
  and its preservation by compilation, execution and every host operation.
-/
import BlocV.Model.Plugin

set_option linter.unusedSimpArgs false
set_option linter.unusedVariables false

namespace BlocV.Proofs.Perm
open BlocV.Plugin BlocV.Plugin.Perm

/-! ### the invariant over host histories -/

/-- What is claimed of the ghost tag of a constructor node / of an object (`eg` = every name ever granted so far,
`ts` = some context has been trusted at some time so far): the permission test saw a trusted context or a granted
name; "granted" means the name really was granted (so it was unbanned earlier); "trusted" means a trusted context
really existed. -/
def TagOk (eg : List Name) (ts : Bool) (m : Name) (t : Tag) : Prop :=
  (t.ctxTrusted = true ∨ t.granted = true) ∧ (t.granted = true → m ∈ eg) ∧ (t.ctxTrusted = true → ts = true)

def NodeOk (eg : List Name) (ts : Bool) : Node → Prop
  | .ctor m t => TagOk eg ts m t
  | _ => True

def NodesOk (eg : List Name) (ts : Bool) (ns : List Node) : Prop := ∀ n ∈ ns, NodeOk eg ts n

def FunsOk (eg : List Name) (ts : Bool) (funs : Funs) : Prop := ∀ e ∈ funs, NodesOk eg ts e.2

def ObjsOk (eg : List Name) (ts : Bool) (objs : List Obj) : Prop := ∀ o ∈ objs, TagOk eg ts o.m o.t

structure CtxOk (eg : List Name) (ts : Bool) (c : Ctx) : Prop where
  flag : c.trusted = true → ts = true
  objs : ObjsOk eg ts c.objs
  funs : FunsOk eg ts c.funs

structure WorldOk (w : World) : Prop where
  ctxs : ∀ c, some c ∈ w.ctxs → CtxOk w.proc.everGranted w.trustedSeen c
  exes : ∀ x, some x ∈ w.exes → NodesOk w.proc.everGranted w.trustedSeen x
  granted : ∀ n, n ∈ w.proc.granted → n ∈ w.proc.everGranted

theorem TagOk.mono {eg eg' : List Name} {ts ts' : Bool} {m : Name} {t : Tag} (h : TagOk eg ts m t)
    (he : ∀ n, n ∈ eg → n ∈ eg') (ht : ts = true → ts' = true) : TagOk eg' ts' m t :=
  ⟨h.1, fun g => he _ (h.2.1 g), fun g => ht (h.2.2 g)⟩

theorem NodeOk.mono {eg eg' : List Name} {ts ts' : Bool} {n : Node} (h : NodeOk eg ts n)
    (he : ∀ n, n ∈ eg → n ∈ eg') (ht : ts = true → ts' = true) : NodeOk eg' ts' n := by
  cases n with
  | ctor m t => exact TagOk.mono h he ht
  | call f => trivial
  | nop => trivial
  | trace b => trivial
  | raise => trivial

theorem CtxOk.mono {eg eg' : List Name} {ts ts' : Bool} {c : Ctx} (h : CtxOk eg ts c)
    (he : ∀ n, n ∈ eg → n ∈ eg') (ht : ts = true → ts' = true) : CtxOk eg' ts' c :=
  ⟨fun g => ht (h.flag g), fun o ho => TagOk.mono (h.objs o ho) he ht,
   fun e hm n hn => NodeOk.mono (h.funs e hm n hn) he ht⟩

/-! ### compilation -/

theorem register_granted (p : Proc) (l : Lib) :
    (p.register l).1.granted = p.granted ∧ (p.register l).1.everGranted = p.everGranted := by
  unfold Proc.register
  split
  · exact ⟨rfl, rfl⟩
  · split <;> exact ⟨rfl, rfl⟩

theorem isGranted_mem {p : Proc} {m : Name} (h : p.isGranted m = true) : m ∈ p.granted := by
  simpa [Proc.isGranted] using h

/-- One statement: the process keeps its permissions; a node that comes out satisfies the tag claim. -/
theorem compileSimple_ok (ext : Ext) (tr : Bool) (funs : Funs) (p : Proc) (s : Simple) (ts : Bool)
    (htr : tr = true → ts = true) (hg : ∀ n, n ∈ p.granted → n ∈ p.everGranted) :
    (compileSimple ext tr funs p s).1.granted = p.granted ∧ (compileSimple ext tr funs p s).1.everGranted = p.everGranted ∧
    ∀ n, (compileSimple ext tr funs p s).2 = .ok n → NodeOk p.everGranted ts n := by
  cases s with
  | ctor m =>
    simp only [compileSimple]
    split
    · split
      · exact ⟨rfl, rfl, fun n h => by cases h⟩
      · rename_i hc
        refine ⟨rfl, rfl, ?_⟩
        intro n h; injection h with h; subst h
        simp only [Bool.and_eq_true, Bool.not_eq_eq_eq_not, Bool.not_true, not_and, Bool.not_eq_false] at hc
        refine ⟨?_, ?_, ?_⟩
        · cases htr' : tr with
          | true => left; rfl
          | false => right; exact hc htr'
        · intro g; exact hg _ (isGranted_mem g)
        · exact htr
    · split
      · exact ⟨rfl, rfl, fun n h => by injection h with h; subst h; trivial⟩
      · exact ⟨rfl, rfl, fun n h => by cases h⟩
  | typedDecl m =>
    simp only [compileSimple]
    split
    · exact ⟨rfl, rfl, fun n h => by injection h with h; subst h; trivial⟩
    · exact ⟨rfl, rfl, fun n h => by cases h⟩
  | importName nm =>
    simp only [compileSimple]
    split
    · exact ⟨rfl, rfl, fun n h => by cases h⟩
    · rename_i l _
      have := register_granted p l
      split <;> exact ⟨this.1, this.2, fun n h => by first | (injection h with h; subst h; trivial) | cases h⟩
  | importPath path =>
    simp only [compileSimple]
    split
    · exact ⟨rfl, rfl, fun n h => by cases h⟩
    · split
      · exact ⟨rfl, rfl, fun n h => by cases h⟩
      · rename_i l _
        have := register_granted p l
        split <;> exact ⟨this.1, this.2, fun n h => by first | (injection h with h; subst h; trivial) | cases h⟩
  | call f =>
    simp only [compileSimple]
    split
    · exact ⟨rfl, rfl, fun n h => by injection h with h; subst h; trivial⟩
    · exact ⟨rfl, rfl, fun n h => by cases h⟩
  | trace b => exact ⟨rfl, rfl, fun n h => by simp only [compileSimple] at h; injection h with h; subst h; trivial⟩
  | raise => exact ⟨rfl, rfl, fun n h => by simp only [compileSimple] at h; injection h with h; subst h; trivial⟩
  | bad => exact ⟨rfl, rfl, fun n h => by simp only [compileSimple] at h; cases h⟩

theorem compileSimples_ok (ext : Ext) (tr : Bool) (funs : Funs) (ts : Bool) (htr : tr = true → ts = true) :
    ∀ (body : List Simple) (p : Proc), (∀ n, n ∈ p.granted → n ∈ p.everGranted) →
    (compileSimples ext tr funs p body).1.granted = p.granted ∧ (compileSimples ext tr funs p body).1.everGranted = p.everGranted ∧
    ∀ ns, (compileSimples ext tr funs p body).2 = .ok ns → NodesOk p.everGranted ts ns := by
  intro body
  induction body with
  | nil => intro p hg; exact ⟨rfl, rfl, fun ns h => by simp only [compileSimples] at h; injection h with h; subst h; intro n hn; cases hn⟩
  | cons s rest ih =>
    intro p hg
    have h1 := compileSimple_ok ext tr funs p s ts htr hg
    simp only [compileSimples]
    split
    · rename_i p1 e heq
      rw [heq] at h1
      exact ⟨h1.1, h1.2.1, fun ns h => by cases h⟩
    · rename_i p1 n heq
      rw [heq] at h1
      simp only at h1
      have hg1 : ∀ n, n ∈ p1.granted → n ∈ p1.everGranted := by rw [h1.1, h1.2.1]; exact hg
      have h2 := ih p1 hg1
      split
      · rename_i p2 e heq2
        rw [heq2] at h2
        exact ⟨by rw [h2.1, h1.1], by rw [h2.2.1, h1.2.1], fun ns h => by cases h⟩
      · rename_i p2 ns heq2
        rw [heq2] at h2
        simp only at h2
        refine ⟨by rw [h2.1, h1.1], by rw [h2.2.1, h1.2.1], ?_⟩
        intro ns' h; injection h with h; subst h
        intro x hx
        simp only [List.mem_cons] at hx
        rcases hx with hx | hx
        · subst hx; exact h1.2.2 _ rfl
        · have := h2.2.2 ns rfl x hx
          rw [h1.2.1] at this; exact this

theorem setFun_ok {eg : List Name} {ts : Bool} {funs : Funs} (hf : FunsOk eg ts funs) (f : Name) (b : List Node)
    (hb : NodesOk eg ts b) : FunsOk eg ts (setFun funs f b) := by
  unfold setFun
  split
  · intro e he
    simp only [List.mem_map] at he
    obtain ⟨e0, he0, rfl⟩ := he
    split
    · exact hb
    · exact hf e0 he0
  · intro e he
    simp only [List.mem_append, List.mem_singleton] at he
    rcases he with he | he
    · exact hf e he
    · subst he; exact hb

/-- What a compilation step function has to satisfy (used for the include recursion). -/
def CompOk (tr ts : Bool) (f : Proc → Funs → List Top → CompRes) : Prop :=
  ∀ p funs tops, (∀ n, n ∈ p.granted → n ∈ p.everGranted) → FunsOk p.everGranted ts funs →
    (f p funs tops).proc.granted = p.granted ∧ (f p funs tops).proc.everGranted = p.everGranted ∧
    FunsOk p.everGranted ts (f p funs tops).funs ∧
    ∀ ns, (f p funs tops).res = .ok ns → NodesOk p.everGranted ts ns

theorem compileList_ok (ext : Ext) (tr ts : Bool) (htr : tr = true → ts = true)
    (inc : Nat → Proc → Funs → List Top → CompRes) (hinc : ∀ d, CompOk tr ts (inc d)) (depth : Nat) :
    CompOk tr ts (compileList ext tr inc depth) := by
  intro p funs tops
  induction tops generalizing p funs with
  | nil =>
    intro hg hf
    exact ⟨rfl, rfl, hf, fun ns h => by simp only [compileList] at h; injection h with h; subst h; intro n hn; cases hn⟩
  | cons t rest ih =>
    intro hg hf
    cases t with
    | simple s =>
      have h1 := compileSimple_ok ext tr funs p s ts htr hg
      simp only [compileList]
      split
      · rename_i p1 e heq
        rw [heq] at h1
        exact ⟨h1.1, h1.2.1, hf, fun ns h => by cases h⟩
      · rename_i p1 n heq
        rw [heq] at h1
        simp only at h1
        have hg1 : ∀ n, n ∈ p1.granted → n ∈ p1.everGranted := by rw [h1.1, h1.2.1]; exact hg
        have hf1 : FunsOk p1.everGranted ts funs := by rw [h1.2.1]; exact hf
        have h2 := ih p1 funs hg1 hf1
        refine ⟨by rw [h2.1, h1.1], by rw [h2.2.1, h1.2.1], by rw [← h1.2.1]; exact h2.2.2.1, ?_⟩
        intro ns h
        cases hr : (compileList ext tr inc depth p1 funs rest).res with
        | error e => rw [hr] at h; cases h
        | ok ns0 =>
          rw [hr] at h
          simp only [Except.map] at h
          injection h with h; subst h
          intro x hx
          simp only [List.mem_cons] at hx
          rcases hx with hx | hx
          · subst hx; exact h1.2.2 _ rfl
          · have := h2.2.2.2 ns0 hr x hx
            rw [h1.2.1] at this; exact this
    | func f body =>
      simp only [compileList]
      have hf0 : FunsOk p.everGranted ts (if (lookupFun funs f).isSome then funs else setFun funs f []) := by
        split
        · exact hf
        · exact setFun_ok hf f [] (fun n hn => by cases hn)
      have h1 := compileSimples_ok ext tr (if (lookupFun funs f).isSome then funs else setFun funs f []) ts htr body p hg
      split
      · rename_i p1 e heq
        rw [heq] at h1
        exact ⟨h1.1, h1.2.1, hf, fun ns h => by cases h⟩
      · rename_i p1 b heq
        rw [heq] at h1
        simp only at h1
        have hg1 : ∀ n, n ∈ p1.granted → n ∈ p1.everGranted := by rw [h1.1, h1.2.1]; exact hg
        have hf1 : FunsOk p1.everGranted ts (setFun funs f b) := by
          rw [h1.2.1]; exact setFun_ok hf f b (h1.2.2 b rfl)
        have h2 := ih p1 (setFun funs f b) hg1 hf1
        refine ⟨by rw [h2.1, h1.1], by rw [h2.2.1, h1.2.1], by rw [← h1.2.1]; exact h2.2.2.1, ?_⟩
        intro ns h
        cases hr : (compileList ext tr inc depth p1 (setFun funs f b) rest).res with
        | error e => rw [hr] at h; cases h
        | ok ns0 =>
          rw [hr] at h
          simp only [Except.map] at h
          injection h with h; subst h
          intro x hx
          simp only [List.mem_cons] at hx
          rcases hx with hx | hx
          · subst hx; trivial
          · have := h2.2.2.2 ns0 hr x hx
            rw [h1.2.1] at this; exact this
    | incl file =>
      simp only [compileList]
      split
      · exact ⟨rfl, rfl, hf, fun ns h => by cases h⟩
      · split
        · exact ⟨rfl, rfl, hf, fun ns h => by cases h⟩
        · split
          · exact ⟨rfl, rfl, hf, fun ns h => by cases h⟩
          · rename_i tops _
            have h1 := hinc (depth + 1) p funs tops hg hf
            split
            · exact ⟨h1.1, h1.2.1, h1.2.2.1, fun ns h => by cases h⟩
            · rename_i ns1 hr1
              have hg1 : ∀ n, n ∈ (inc (depth + 1) p funs tops).proc.granted → n ∈ (inc (depth + 1) p funs tops).proc.everGranted := by
                rw [h1.1, h1.2.1]; exact hg
              have hf1 : FunsOk (inc (depth + 1) p funs tops).proc.everGranted ts (inc (depth + 1) p funs tops).funs := by
                rw [h1.2.1]; exact h1.2.2.1
              have h2 := ih _ _ hg1 hf1
              refine ⟨by rw [h2.1, h1.1], by rw [h2.2.1, h1.2.1], by rw [← h1.2.1]; exact h2.2.2.1, ?_⟩
              intro ns h
              cases hr : (compileList ext tr inc depth (inc (depth + 1) p funs tops).proc (inc (depth + 1) p funs tops).funs rest).res with
              | error e => rw [hr] at h; cases h
              | ok ns0 =>
                rw [hr] at h
                simp only [Except.map] at h
                injection h with h; subst h
                intro x hx
                simp only [List.mem_append] at hx
                rcases hx with hx | hx
                · exact h1.2.2.2 ns1 hr1 x hx
                · have := h2.2.2.2 ns0 hr x hx
                  rw [h1.2.1] at this; exact this

theorem compileTops_ok (ext : Ext) (tr ts : Bool) (htr : tr = true → ts = true) :
    ∀ fuel depth, CompOk tr ts (compileTops ext tr fuel depth) := by
  intro fuel
  induction fuel with
  | zero => intro depth p funs tops hg hf; exact ⟨rfl, rfl, hf, fun ns h => by simp [compileTops] at h⟩
  | succ n ih => intro depth; exact compileList_ok ext tr ts htr _ ih depth

/-! ### execution -/

theorem runNodes_ok {eg : List Name} {ts : Bool} {funs : Funs} (hf : FunsOk eg ts funs) :
    ∀ (fuel : Nat) (ns : List Node) (r : RunSt), NodesOk eg ts ns → ObjsOk eg ts r.objs →
      ObjsOk eg ts (runNodes funs fuel ns r).objs := by
  intro fuel
  induction fuel with
  | zero => intro ns r _ ho; simpa [runNodes] using ho
  | succ k ih =>
    intro ns r hn ho
    cases ns with
    | nil => simpa [runNodes] using ho
    | cons n rest =>
      have hrest : NodesOk eg ts rest := fun x hx => hn x (List.mem_cons_of_mem _ hx)
      simp only [runNodes]
      split
      · exact ho
      · cases n with
        | ctor m t =>
          simp only
          apply ih rest _ hrest
          intro o hm
          simp only [List.mem_append, List.mem_singleton] at hm
          rcases hm with hm | hm
          · exact ho o hm
          · subst hm; exact hn (.ctor m t) (List.mem_cons_self ..)
        | nop => exact ih rest r hrest ho
        | trace b => exact ih rest _ hrest ho
        | raise => exact ho
        | call f =>
          simp only
          split
          · rename_i b hl
            apply ih rest _ hrest
            apply ih b r _ ho
            unfold lookupFun at hl
            split at hl
            · rename_i e he
              injection hl with hl; subst hl
              exact hf e (List.mem_of_find?_eq_some he)
            · cases hl
          · exact ih rest r hrest ho

/-! ### one host operation, all host histories -/

theorem mem_set_some {α : Type} {l : List (Option α)} {k : Nat} {v : Option α} {c : α} (h : some c ∈ l.set k v) :
    some c ∈ l ∨ some c = v := by
  rcases List.mem_or_eq_of_mem_set h with h | h
  · exact Or.inl h
  · exact Or.inr h

theorem getCtx_mem {w : World} {k : Nat} {c : Ctx} (h : getCtx w k = some c) : some c ∈ w.ctxs := by
  unfold getCtx at h
  split at h
  · rename_i c' hk
    injection h with h; subst h
    exact List.mem_of_getElem? hk
  · cases h

theorem getExe_mem {w : World} {x : Nat} {e : List Node} (h : getExe w x = some e) : some e ∈ w.exes := by
  unfold getExe at h
  split at h
  · rename_i c' hk
    injection h with h; subst h
    exact List.mem_of_getElem? hk
  · cases h

theorem hostStep_ok (ext : Ext) (w : World) (op : HostOp) (hw : WorldOk w) : WorldOk (hostStep ext w op) := by
  cases op with
  | unban n =>
    simp only [hostStep]
    have he : ∀ x, x ∈ w.proc.everGranted → x ∈ (w.proc.unban n).everGranted := by
      intro x hx; simp [Proc.unban, hx]
    refine ⟨fun c hc => (hw.ctxs c hc).mono he id, fun x hx n' hn' => NodeOk.mono (hw.exes x hx n' hn') he id, ?_⟩
    intro x hx
    simp only [Proc.unban] at hx ⊢
    split at hx
    · simp [hw.granted x hx]
    · simp only [List.mem_append, List.mem_singleton] at hx ⊢
      rcases hx with hx | hx
      · exact Or.inl (hw.granted x hx)
      · exact Or.inr hx
  | clearPerms =>
    simp only [hostStep]
    exact ⟨hw.ctxs, hw.exes, fun n hn => by simp [Proc.clearPerms] at hn⟩
  | newCtx tr =>
    simp only [hostStep]
    have ht : w.trustedSeen = true → (w.trustedSeen || tr) = true := by intro h; simp [h]
    refine ⟨?_, fun x hx n' hn' => NodeOk.mono (hw.exes x hx n' hn') (fun _ h => h) ht, hw.granted⟩
    intro c hc
    simp only [List.mem_append, List.mem_singleton] at hc
    rcases hc with hc | hc
    · exact (hw.ctxs c hc).mono (fun _ h => h) ht
    · injection hc with hc; subst hc
      exact ⟨(fun h => by simp only at h; simp [h]), (fun o ho => by cases ho), (fun e he => by cases he)⟩
  | setTrace k b =>
    simp only [hostStep]
    split
    · rename_i c hk
      refine ⟨?_, hw.exes, hw.granted⟩
      intro c' hc'
      rcases mem_set_some hc' with h | h
      · exact hw.ctxs c' h
      · injection h with h; subst h
        have h0 := hw.ctxs c (getCtx_mem hk)
        exact ⟨h0.flag, h0.objs, h0.funs⟩
    · exact hw
  | setTrusted k b =>
    simp only [hostStep]
    split
    · rename_i c hk
      have ht : w.trustedSeen = true → (w.trustedSeen || b) = true := by intro h; simp [h]
      refine ⟨?_, fun x hx n' hn' => NodeOk.mono (hw.exes x hx n' hn') (fun _ h => h) ht, hw.granted⟩
      intro c' hc'
      rcases mem_set_some hc' with h | h
      · exact (hw.ctxs c' h).mono (fun _ h => h) ht
      · injection h with h; subst h
        have h0 := (hw.ctxs c (getCtx_mem hk)).mono (fun _ h => h) ht
        exact ⟨(fun h => by simp only at h; simp [h]), h0.objs, h0.funs⟩
    · exact hw
  | clone k =>
    simp only [hostStep]
    split
    · rename_i c hk
      refine ⟨?_, hw.exes, hw.granted⟩
      intro c' hc'
      simp only [List.mem_append, List.mem_singleton] at hc'
      rcases hc' with h | h
      · exact hw.ctxs c' h
      · injection h with h; subst h
        have h0 := hw.ctxs c (getCtx_mem hk)
        exact ⟨h0.flag, h0.objs, h0.funs⟩
    · exact hw
  | free k =>
    simp only [hostStep]
    refine ⟨?_, hw.exes, hw.granted⟩
    intro c hc
    rcases mem_set_some hc with h | h
    · exact hw.ctxs c h
    · cases h
  | purge k =>
    simp only [hostStep]
    split
    · rename_i c hk
      refine ⟨?_, hw.exes, hw.granted⟩
      intro c' hc'
      rcases mem_set_some hc' with h | h
      · exact hw.ctxs c' h
      · injection h with h; subst h
        exact ⟨(hw.ctxs c (getCtx_mem hk)).flag, (fun o ho => by cases ho), (fun e he => by cases he)⟩
    · exact hw
  | compile k prog =>
    simp only [hostStep]
    split
    · rename_i c hk
      have hc := hw.ctxs c (getCtx_mem hk)
      have h1 := compileTops_ok ext c.trusted w.trustedSeen hc.flag compFuel 0 w.proc c.funs prog hw.granted hc.funs
      have hctx : ∀ c', some c' ∈ w.ctxs.set k (some { c with funs := (compileTops ext c.trusted compFuel 0 w.proc c.funs prog).funs }) →
          CtxOk w.proc.everGranted w.trustedSeen c' := by
        intro c' hc'
        rcases mem_set_some hc' with h | h
        · exact hw.ctxs c' h
        · injection h with h; subst h
          exact ⟨hc.flag, hc.objs, h1.2.2.1⟩
      split
      · rename_i ns hr
        refine ⟨by simp only [h1.2.1]; exact hctx, ?_, by simp only [h1.1, h1.2.1]; exact hw.granted⟩
        intro x hx
        simp only [List.mem_append, List.mem_singleton] at hx
        simp only [h1.2.1]
        rcases hx with hx | hx
        · exact hw.exes x hx
        · injection hx with hx; subst hx; exact h1.2.2.2 _ hr
      · rename_i e hr
        refine ⟨by simp only [h1.2.1]; exact hctx, ?_, by simp only [h1.1, h1.2.1]; exact hw.granted⟩
        intro x hx
        simp only [List.mem_append, List.mem_singleton] at hx
        simp only [h1.2.1]
        rcases hx with hx | hx
        · exact hw.exes x hx
        · cases hx
    · exact hw
  | run x k =>
    simp only [hostStep]
    split
    · rename_i ns c hx hk
      have hc := hw.ctxs c (getCtx_mem hk)
      refine ⟨?_, hw.exes, hw.granted⟩
      intro c' hc'
      rcases mem_set_some hc' with h | h
      · exact hw.ctxs c' h
      · injection h with h; subst h
        exact ⟨hc.flag, runNodes_ok hc.funs _ _ ⟨c.objs, c.trace, false⟩ (hw.exes ns (getExe_mem hx)) hc.objs, hc.funs⟩
    · exact hw
  | freeExe x =>
    simp only [hostStep]
    refine ⟨hw.ctxs, ?_, hw.granted⟩
    intro e he
    rcases mem_set_some he with h | h
    · exact hw.exes e h
    · cases h

theorem init_ok : WorldOk World.init :=
  ⟨fun c hc => by simp [World.init] at hc, fun x hx => by simp [World.init] at hx, fun n hn => by simp [World.init, Proc.init] at hn⟩

theorem hostRun_ok (ext : Ext) (ops : List HostOp) (w : World) (hw : WorldOk w) : WorldOk (hostRun ext w ops) := by
  induction ops generalizing w with
  | nil => exact hw
  | cons op rest ih => exact ih _ (hostStep_ok ext w op hw)

end BlocV.Proofs.Perm
