/-
  Helper lemmas for C10 (and the built-in level of C01): "no C-level hazard" for the text and
  conversion built-ins of Model/Builtins.lean at `m := Res`, for every argument list of well-formed
  values of any length and any types. `wfVal`. (The former finding regions `substrKF`, `hexKF` are gone:
  the overflows were repaired in e2c4824 / cbe22cc, and the lemmas below hold without exclusion.)
  (Helper lemmas only — the property theorems are in BlocV/Proofs/C10.lean.)
-/
import BlocV.Proofs.Lemmas.Bytes
namespace BlocV.Lemmas
open BlocV

/-- Well-formed values: a table carries a table type (level ≥ 1), as every `Collection` does. -/
def wfVal : Val → Bool
  | .tab t _ _ => t.level != 0
  | .str s => decide (s.length < 2 ^ 63)
  | .raw s => decide (s.length < 2 ^ 63)
  | _ => true

theorem nh_ok {α} (a : α) : (Res.ok a).isHazard = false := rfl
theorem nh_err {α} (c : Nat) (x : Bytes) : (Res.err c x : Res α).isHazard = false := rfl
theorem nh_unm {α} : (Res.unmodelled : Res α).isHazard = false := rfl
theorem nh_bind {α β} (r : Res α) (f : α → Res β) (h1 : r.isHazard = false)
    (h2 : ∀ a, r = .ok a → (f a).isHazard = false) : (r >>= f).isHazard = false := by
  cases r with
  | ok a => exact h2 a rfl
  | err c x => rfl
  | haz h => simp [Res.isHazard] at h1
  | unmodelled => rfl

theorem makeTupleTy_major (d : List Ty) (l : Nat) : (makeTupleTy d l).major = .tup := by
  unfold makeTupleTy; split <;> rfl

theorem asInt_nh (v : Val) (hwf : wfVal v = true) (hn : v.isNull = false) : v.asInt.isHazard = false := by
  cases v <;> simp_all [Val.asInt, Val.type, Val.isNull, wfVal, Ty.bool, Ty.int, Ty.num, Ty.imag, Ty.str, Ty.raw, makeTupleTy_major, Res.isHazard]
theorem asNum_nh (v : Val) (hwf : wfVal v = true) (hn : v.isNull = false) : v.asNum.isHazard = false := by
  cases v <;> simp_all [Val.asNum, Val.type, Val.isNull, wfVal, Ty.bool, Ty.int, Ty.num, Ty.imag, Ty.str, Ty.raw, makeTupleTy_major, Res.isHazard]
theorem asBool_nh (v : Val) (hwf : wfVal v = true) (hn : v.isNull = false) : v.asBool.isHazard = false := by
  cases v <;> simp_all [Val.asBool, Val.type, Val.isNull, wfVal, Ty.bool, Ty.int, Ty.num, Ty.imag, Ty.str, Ty.raw, makeTupleTy_major, Res.isHazard]
theorem asStr_nh (v : Val) (hwf : wfVal v = true) (hn : v.isNull = false) : v.asStr.isHazard = false := by
  cases v <;> simp_all [Val.asStr, Val.type, Val.isNull, wfVal, Ty.bool, Ty.int, Ty.num, Ty.imag, Ty.str, Ty.raw, makeTupleTy_major, Res.isHazard]
theorem asRaw_nh (v : Val) (hwf : wfVal v = true) (hn : v.isNull = false) : v.asRaw.isHazard = false := by
  cases v <;> simp_all [Val.asRaw, Val.type, Val.isNull, wfVal, Ty.bool, Ty.int, Ty.num, Ty.imag, Ty.str, Ty.raw, makeTupleTy_major, Res.isHazard]

theorem castToInt_nh (d : Num.F64) : (castToInt d).isHazard = false := by
  unfold castToInt; split
  · split <;> rfl
  · rfl





theorem nn1 {b : Bool} (h : ¬ b = true) : b = false := by simpa using h
theorem nn2 {b : Bool} (h : (!b) = true) : b = false := by simpa using h
theorem nn3 {a b : Bool} (h : ¬ (a || b) = true) : a = false := by cases a <;> simp_all
theorem nn4 {a b : Bool} (h : ¬ (a || b) = true) : b = false := by cases a <;> simp_all

macro "nn" : tactic => `(tactic| first
  | assumption
  | exact nn1 (by assumption)
  | exact nn2 (by assumption)
  | exact nn3 (by assumption)
  | exact nn4 (by assumption))

attribute [local irreducible] Val.asInt Val.asNum Val.asBool Val.asStr Val.asRaw castToInt

macro "nh_leaf" : tactic => `(tactic| first
  | exact nh_ok _
  | exact nh_err _ _
  | exact nh_unm
  | exact castToInt_nh _
  | exact asInt_nh _ (by assumption) (by nn)
  | exact asNum_nh _ (by assumption) (by nn)
  | exact asBool_nh _ (by assumption) (by nn)
  | exact asStr_nh _ (by assumption) (by nn)
  | exact asRaw_nh _ (by assumption) (by nn))

macro "nh_auto" : tactic => `(tactic|
  repeat' (first
    | nh_leaf
    | (apply nh_bind)
    | (intro _ _)
    | split))

/-- Shapes of an argument list as the built-ins look at it (one to three leading arguments). -/
macro "nh_args1" args:ident hwf:ident : tactic => `(tactic|
  (rcases $args:ident with _ | ⟨v0, rest⟩
   all_goals (try have w0 := $hwf:ident v0 (by simp))))
macro "nh_args2" args:ident hwf:ident : tactic => `(tactic|
  (rcases $args:ident with _ | ⟨v0, _ | ⟨v1, rest⟩⟩
   all_goals (try have w0 := $hwf:ident v0 (by simp))
   all_goals (try have w1 := $hwf:ident v1 (by simp))))
macro "nh_args3" args:ident hwf:ident : tactic => `(tactic|
  (rcases $args:ident with _ | ⟨v0, _ | ⟨v1, _ | ⟨v2, rest⟩⟩⟩
   all_goals (try have w0 := $hwf:ident v0 (by simp))
   all_goals (try have w1 := $hwf:ident v1 (by simp))
   all_goals (try have w2 := $hwf:ident v2 (by simp))))

macro "nh_unfold" d:ident : tactic => `(tactic|
  simp only [$d:ident, List.map, Res.ok_bind, Res.pure_eq, argTypeErr_res, Res.liftM_eq, rerr_res])

theorem strpos_nh (args : List Val) (hwf : ∀ v ∈ args, wfVal v = true) :
    (biStrpos (m := Res) (args.map .ok)).isHazard = false := by
  nh_args3 args hwf <;> nh_unfold biStrpos <;> nh_auto

theorem replace_nh (args : List Val) (hwf : ∀ v ∈ args, wfVal v = true) :
    (biReplace (m := Res) (args.map .ok)).isHazard = false := by
  nh_args3 args hwf <;> nh_unfold biReplace <;> nh_auto

theorem strMap_nh (f : Bytes → Bytes) (args : List Val) (hwf : ∀ v ∈ args, wfVal v = true) :
    (strMap (m := Res) f (args.map .ok)).isHazard = false := by
  nh_args1 args hwf <;> nh_unfold strMap <;> nh_auto

theorem strlen_nh (args : List Val) (hwf : ∀ v ∈ args, wfVal v = true) :
    (biStrlen (m := Res) (args.map .ok)).isHazard = false := by
  nh_args1 args hwf <;> nh_unfold biStrlen <;> nh_auto

theorem tokenize_nh (args : List Val) (hwf : ∀ v ∈ args, wfVal v = true) :
    (biTokenize (m := Res) (args.map .ok)).isHazard = false := by
  nh_args3 args hwf <;> nh_unfold biTokenize <;> nh_auto

theorem hash_nh (args : List Val) (hwf : ∀ v ∈ args, wfVal v = true) :
    (biHash (m := Res) (args.map .ok)).isHazard = false := by
  nh_args2 args hwf <;> nh_unfold biHash <;> nh_auto

theorem chr_nh (args : List Val) (hwf : ∀ v ∈ args, wfVal v = true) :
    (biChr (m := Res) (args.map .ok)).isHazard = false := by
  nh_args1 args hwf <;> nh_unfold biChr <;> nh_auto

theorem raw_nh (args : List Val) (hwf : ∀ v ∈ args, wfVal v = true) :
    (biRaw (m := Res) (args.map .ok)).isHazard = false := by
  nh_args2 args hwf <;> nh_unfold biRaw <;> nh_auto

theorem b64_nh (enc : Bool) (args : List Val) (hwf : ∀ v ∈ args, wfVal v = true) :
    (biB64 (m := Res) enc (args.map .ok)).isHazard = false := by
  nh_args1 args hwf <;> nh_unfold biB64 <;> nh_auto

theorem str_nh (fmt : Num.F64 → Bytes) (args : List Val) (hwf : ∀ v ∈ args, wfVal v = true) :
    (biStr (m := Res) fmt (args.map .ok)).isHazard = false := by
  nh_args1 args hwf <;> nh_unfold biStr <;> nh_auto


theorem readPos_nh (v : Val) (hwf : wfVal v = true) : (readPos v).isHazard = false := by
  simp only [readPos, Res.pure_eq, argTypeErr_res]
  nh_auto

theorem asStr_ok (v : Val) (s : Bytes) (h : v.asStr = .ok s) : v = .str s := by
  unfold Val.asStr at h
  split at h
  · cases h
  · cases v <;> simp at h
    rw [h]
theorem asRaw_ok (v : Val) (s : Bytes) (h : v.asRaw = .ok s) : v = .raw s := by
  unfold Val.asRaw at h
  split at h
  · cases h
  · cases v <;> simp at h
    rw [h]

/-- The index arithmetic of `substr`/`subraw` never overflows, for ALL positions and counts. -/
theorem substrTail_nh (s : Bytes) (hlen : s.length < 2 ^ 63) (a0 b0 : Int64) :
    (substrTail s a0 b0).isHazard = false := by
  rw [substrTail_spec s hlen]; rfl

theorem substrLike_nh (major : Major) (nullTy : Ty) (get : Val → Res Bytes) (mk : Bytes → Val)
    (hget : ∀ v s, get v = .ok s → v = .str s ∨ v = .raw s)
    (hgnh : ∀ v, wfVal v = true → v.isNull = false → (get v).isHazard = false)
    (args : List Val) (hwf : ∀ v ∈ args, wfVal v = true) :
    (substrLike (m := Res) major nullTy get mk (args.map .ok)).isHazard = false := by
  have key : ∀ (v0 : Val) (s : Bytes) (a0 b0 : Int64), wfVal v0 = true → get v0 = .ok s →
      (substrTail s a0 b0 >>= fun r => Res.ok (mk r)).isHazard = false := by
    intro v0 s a0 b0 w0 hg
    have hlen : s.length < 2 ^ 63 := by
      rcases hget v0 s hg with rfl | rfl <;> simpa [wfVal] using w0
    apply nh_bind _ _ (substrTail_nh s hlen a0 b0)
    intro _ _; rfl
  rcases args with _ | ⟨v0, _ | ⟨v1, _ | ⟨v2, rest⟩⟩⟩
  · rfl
  · rfl
  · have w0 := hwf v0 (by simp)
    have w1 := hwf v1 (by simp)
    simp only [List.map, substrLike_res2]
    split; · rfl
    split; · rfl
    apply nh_bind _ _ (readPos_nh v1 w1)
    intro p1 hp1
    split; · rfl
    split; · rfl
    rename_i hnn
    apply nh_bind _ _ (hgnh v0 w0 (nn1 hnn))
    intro s hs
    split; · rfl
    exact key v0 s _ _ w0 hs
  · have w0 := hwf v0 (by simp)
    have w1 := hwf v1 (by simp)
    have w2 := hwf v2 (by simp)
    simp only [List.map, substrLike_res3]
    split; · rfl
    split; · rfl
    apply nh_bind _ _ (readPos_nh v1 w1)
    intro p1 hp1
    split; · rfl
    split; · rfl
    rename_i hnn
    apply nh_bind _ _ (hgnh v0 w0 (nn1 hnn))
    intro s hs
    apply nh_bind _ _ (readPos_nh v2 w2)
    intro p2 hp2
    split; · rfl
    split; · rfl
    exact key v0 s _ _ w0 hs


theorem lrSubstr_nh (left : Bool) (args : List Val) (hwf : ∀ v ∈ args, wfVal v = true) :
    (lrSubstr (m := Res) left (args.map .ok)).isHazard = false := by
  nh_args2 args hwf <;> nh_unfold lrSubstr
  · rfl
  · rfl
  · repeat' (first
      | nh_leaf
      | exact readPos_nh _ (by assumption)
      | (apply nh_bind)
      | (intro _ _)
      | split)

/-- `hex`'s digit loop performs `k` signed increments of the pad counter: no overflow when they fit. -/
theorem hexLoop_nh (v : Int64) : ∀ (k : Nat) (n s : Int64) (acc : Bytes), n.toInt + k < 2 ^ 63 →
    (hexLoop v k n s acc).isHazard = false := by
  intro k
  induction k with
  | zero => intro n s acc _; rfl
  | succ k ih =>
    intro n s acc h
    have h1 := Int64.le_toInt n
    have h1' : (1 : Int64).toInt = 1 := by decide
    have hr : -2 ^ 63 ≤ n.toInt + (1 : Int64).toInt ∧ n.toInt + (1 : Int64).toInt < 2 ^ 63 := by
      rw [h1']; omega
    have ht := toInt_add_of_range n 1 hr
    simp only [hexLoop, sadd_eq, hr, and_self, if_true]
    apply ih
    rw [ht, h1']; omega

/-- `if (n > 16) n = 16;` (commit cbe22cc): the pad count entering the digit loop is at most 16. -/
theorem hexClamp_le (n : Int64) : (hexClamp n).toInt ≤ 16 := by
  unfold hexClamp
  split
  · decide
  · rename_i h
    have : ¬ ((16 : Int64).toInt < n.toInt) := fun h' => h (Int64.lt_iff_toInt_lt.mpr h')
    have e : (16 : Int64).toInt = 16 := by decide
    omega

theorem hexClamp_toInt (n : Int64) : (hexClamp n).toInt = min n.toInt 16 := by
  unfold hexClamp
  have e : (16 : Int64).toInt = 16 := by decide
  split
  · rename_i h
    have := Int64.lt_iff_toInt_lt.mp h
    rw [e]; omega
  · rename_i h
    have : ¬ ((16 : Int64).toInt < n.toInt) := fun h' => h (Int64.lt_iff_toInt_lt.mpr h')
    omega

/-- `HEXExpression::hex` never overflows its pad counter, for EVERY value and pad count. -/
theorem hexStr_nh (v n : Int64) : (hexStr v n).isHazard = false := by
  unfold hexStr
  apply hexLoop_nh
  have := hexClamp_le n
  omega

theorem hex_nh (args : List Val) (hwf : ∀ v ∈ args, wfVal v = true) :
    (biHex (m := Res) (args.map .ok)).isHazard = false := by
  nh_args2 args hwf <;> nh_unfold biHex
  · rfl
  · nh_auto
    all_goals (exact hexStr_nh _ _)
  · nh_auto
    all_goals (exact hexStr_nh _ _)

theorem ipow_nh (a n : Int64) : (Num.ipow a n).isHazard = false := by
  unfold Num.ipow; repeat' split
  all_goals rfl

theorem abs_nh (args : List Val) (hwf : ∀ v ∈ args, wfVal v = true) :
    (biAbs (m := Res) (args.map .ok)).isHazard = false := by
  nh_args1 args hwf <;> nh_unfold biAbs <;> nh_auto

theorem pow_nh (args : List Val) (hwf : ∀ v ∈ args, wfVal v = true) :
    (biPow (m := Res) (args.map .ok)).isHazard = false := by
  nh_args2 args hwf <;> nh_unfold biPow
  · rfl
  · rfl
  · repeat' (first
      | nh_leaf
      | exact ipow_nh _ _
      | (apply nh_bind)
      | (intro _ _)
      | split)

theorem intOfDecimal_nh (b : Num.F64) : (Num.intOfDecimal b).isHazard = false := by
  unfold Num.intOfDecimal
  simp only
  split
  · rfl
  · rename_i h
    have he : Num.expo b ≠ 2047 := by
      intro e
      apply h
      by_cases hm : Num.mant b = 0
      · have hc : (b == 0xc3e0000000000000) = false := by
          apply beq_eq_false_iff_ne.mpr
          intro eb; subst eb; revert e; decide
        simp [Num.isNaN, e, hm, hc]
      · simp [Num.isNaN, e, hm]
    have : Num.truncInt b ≠ none := by
      unfold Num.truncInt
      simp [he]
    split
    · rfl
    · rename_i hn; exact absurd hn this

theorem int_nh (args : List Val) (hwf : ∀ v ∈ args, wfVal v = true) :
    (biInt (m := Res) (args.map .ok)).isHazard = false := by
  nh_args1 args hwf <;> nh_unfold biInt
  · rfl
  · repeat' (first
      | nh_leaf
      | exact intOfDecimal_nh _
      | (apply nh_bind)
      | (intro _ _)
      | split)

/-! ### what substr / subraw can return at all -/

theorem bind_eq_ok {α β} (r : Res α) (f : α → Res β) (x : β) (h : (r >>= f) = .ok x) : ∃ a, r = .ok a ∧ f a = .ok x := by
  cases r with
  | ok a => exact ⟨a, rfl, h⟩
  | err c y => cases h
  | haz y => cases h
  | unmodelled => cases h

theorem sliceBytes_infix (s : Bytes) (a b : Int64) : sliceBytes s a b <:+: s :=
  List.IsInfix.trans (List.take_prefix _ _).isInfix (List.drop_suffix _ _).isInfix

/-- Whatever the index arithmetic of `substr`/`subraw` yields is a contiguous sublist of the operand
(no length or range hypothesis at all). -/
theorem substrTail_ok_infix (s : Bytes) (a0 b0 : Int64) (r : Bytes) (h : substrTail s a0 b0 = .ok r) : r <:+: s := by
  unfold substrTail at h
  obtain ⟨ab, _, h⟩ := bind_eq_ok _ _ _ h
  split at h
  · injection h with h; subst h; exact sliceBytes_infix _ _ _
  · injection h with h; subst h; exact List.nil_infix

/-- What `substr`/`subraw` can return at all, for every argument list of every values. -/
def SubShape (nullTy : Ty) (mk : Bytes → Val) (args : List Val) (x : Val) : Prop :=
  x = .null nullTy ∨ args.head? = some x ∨
  ∃ s sub, (args.head? = some (.str s) ∨ args.head? = some (.raw s)) ∧ x = mk sub ∧ sub <:+: s

theorem substrLike_ok_shape (major : Major) (nullTy : Ty) (get : Val → Res Bytes) (mk : Bytes → Val)
    (hget : ∀ v s, get v = .ok s → v = .str s ∨ v = .raw s)
    (args : List Val) (x : Val) (h : substrLike (m := Res) major nullTy get mk (args.map .ok) = .ok x) :
    SubShape nullTy mk args x := by
  have tail : ∀ (v0 : Val) (rest : List Val) (s : Bytes) (a0 b0 : Int64), get v0 = .ok s →
      (substrTail s a0 b0 >>= fun r => Res.ok (mk r)) = .ok x → SubShape nullTy mk (v0 :: rest) x := by
    intro v0 rest s a0 b0 hg ht
    obtain ⟨r, hr, e⟩ := bind_eq_ok _ _ _ ht
    injection e with e
    refine .inr (.inr ⟨s, r, ?_, e.symm, substrTail_ok_infix s a0 b0 r hr⟩)
    rcases hget v0 s hg with rfl | rfl
    · exact .inl rfl
    · exact .inr rfl
  have same : ∀ (v0 : Val) (rest : List Val), Res.ok v0 = Res.ok x → SubShape nullTy mk (v0 :: rest) x := by
    intro v0 rest e; injection e with e; subst e; exact .inr (.inl rfl)
  rcases args with _ | ⟨v0, _ | ⟨v1, _ | ⟨v2, rest⟩⟩⟩
  · cases h
  · cases h
  · simp only [List.map, substrLike_res2] at h
    split at h
    · injection h with h; exact .inl h.symm
    split at h
    · cases h
    obtain ⟨p1, _, h⟩ := bind_eq_ok _ _ _ h
    split at h
    · exact same _ _ h
    split at h
    · exact same _ _ h
    obtain ⟨s, hs, h⟩ := bind_eq_ok _ _ _ h
    split at h
    · exact same _ _ h
    exact tail v0 _ s _ _ hs h
  · simp only [List.map, substrLike_res3] at h
    split at h
    · injection h with h; exact .inl h.symm
    split at h
    · cases h
    obtain ⟨p1, _, h⟩ := bind_eq_ok _ _ _ h
    split at h
    · exact same _ _ h
    split at h
    · exact same _ _ h
    obtain ⟨s, hs, h⟩ := bind_eq_ok _ _ _ h
    obtain ⟨p2, _, h⟩ := bind_eq_ok _ _ _ h
    split at h
    · exact same _ _ h
    split at h
    · exact same _ _ h
    exact tail v0 _ s _ _ hs h


end BlocV.Lemmas
