/-
  Helper lemmas for C01 at the level of WHOLE PROGRAMS: a Hoare-style predicate `NH I Q x` on computations of the
  interpreter's monad `EvalM` ("from every state satisfying `I`, `x` does not end in a hazard, leaves a state satisfying
  `I`, and a value it returns satisfies `Q`"), its rules, the deep representation invariant `okVal` of values, and — part 1 —
  every built-in of Model/Builtins.lean and the constructors / accessors of Model/Members.lean run IN `EvalM` (argument
  thunks = arbitrary computations satisfying `NH`), for every argument list.
  (Helper lemmas only — the property theorems are in BlocV/Proofs/C01.lean.)
-/
import BlocV.Proofs.Lemmas.Lock
import BlocV.Proofs.Lemmas.BuiltinCases
import BlocV.Proofs.Lemmas.Containers

namespace BlocV.NHI
open BlocV

/-! ## the representation invariant, deep

`okVal v`: every table value anywhere inside `v` carries a table type (level ≥ 1) — what `Val.tabOk` says of the top
level only — and every tuple value has as many items as its declaration. Every `bloc::Value` satisfies both by
construction (`Collection` / `Tuple`); `Val` does not enforce them, and the model's typed accessors reach their
null-pointer branch on a "table of level 0", its `@N` reads past the items of a short tuple. -/

mutual
  def okVal : Val → Bool
    | .tab t _ es => t.level != 0 && okVals es
    | .tup d items => d.length == items.length && okVals items
    | _ => true
  def okVals : List Val → Bool
    | [] => true
    | v :: vs => okVal v && okVals vs
end

@[simp] theorem okVal_null (t : Ty) : okVal (.null t) = true := by simp [okVal]
@[simp] theorem okVal_bool (b : Bool) : okVal (.bool b) = true := by simp [okVal]
@[simp] theorem okVal_int (b : Int64) : okVal (.int b) = true := by simp [okVal]
@[simp] theorem okVal_num (b : UInt64) : okVal (.num b) = true := by simp [okVal]
@[simp] theorem okVal_imag (a b : UInt64) : okVal (.imag a b) = true := by simp [okVal]
@[simp] theorem okVal_str (b : Bytes) : okVal (.str b) = true := by simp [okVal]
@[simp] theorem okVal_raw (b : Bytes) : okVal (.raw b) = true := by simp [okVal]
@[simp] theorem okVal_obj (a b : Nat) : okVal (.obj a b) = true := by simp [okVal]
theorem okVal_tab (t : Ty) (d : List Ty) (es : List Val) : okVal (.tab t d es) = (t.level != 0 && okVals es) := by simp [okVal]
theorem okVal_tup (d : List Ty) (es : List Val) : okVal (.tup d es) = (d.length == es.length && okVals es) := by simp [okVal]
@[simp] theorem okVals_nil : okVals [] = true := by simp [okVals]
@[simp] theorem okVals_cons (v : Val) (vs : List Val) : okVals (v :: vs) = (okVal v && okVals vs) := by simp [okVals]

theorem okVals_iff (l : List Val) : okVals l = true ↔ ∀ v ∈ l, okVal v = true := by
  induction l with
  | nil => simp
  | cons a as ih => simp [ih]

theorem okVals_append (a b : List Val) : okVals (a ++ b) = (okVals a && okVals b) := by
  induction a with
  | nil => simp
  | cons x xs ih => simp [ih, Bool.and_assoc]

theorem okVals_of_sub {a b : List Val} (hb : okVals b = true) (h : ∀ v ∈ a, v ∈ b) : okVals a = true :=
  (okVals_iff a).2 fun v hv => (okVals_iff b).1 hb v (h v hv)

theorem okVals_take (l : List Val) (n : Nat) (h : okVals l = true) : okVals (l.take n) = true :=
  okVals_of_sub h fun _ hv => List.mem_of_mem_take hv
theorem okVals_drop (l : List Val) (n : Nat) (h : okVals l = true) : okVals (l.drop n) = true :=
  okVals_of_sub h fun _ hv => List.mem_of_mem_drop hv
theorem okVals_reverse (l : List Val) (h : okVals l = true) : okVals l.reverse = true :=
  okVals_of_sub h fun _ hv => List.mem_reverse.mp hv
theorem okVals_listPut (l : List Val) (n : Nat) (x : Val) (h : okVals l = true) (hx : okVal x = true) : okVals (listPut l n x) = true := by
  unfold listPut
  simp [okVals_append, okVals_take l n h, okVals_drop l (n + 1) h, hx]
theorem okVals_listIns (l : List Val) (n : Nat) (xs : List Val) (h : okVals l = true) (hx : okVals xs = true) : okVals (listIns l n xs) = true := by
  unfold listIns
  simp [okVals_append, okVals_take l n h, okVals_drop l n h, hx]
theorem okVals_listDel (l : List Val) (n : Nat) (h : okVals l = true) : okVals (listDel l n) = true := by
  unfold listDel
  simp [okVals_append, okVals_take l n h, okVals_drop l (n + 1) h]
theorem okVals_getElem? (l : List Val) (n : Nat) (v : Val) (h : okVals l = true) (hv : l[n]? = some v) : okVal v = true :=
  (okVals_iff l).1 h v (List.mem_of_getElem? hv)
theorem okVals_map_str (l : List Bytes) : okVals (l.map Val.str) = true :=
  (okVals_iff _).2 fun v hv => by simp only [List.mem_map] at hv; obtain ⟨_, _, rfl⟩ := hv; simp

theorem tabOk_of_okVal {v : Val} (h : okVal v = true) : v.tabOk = true := by
  cases v <;> simp_all [okVal_tab, Val.tabOk]
  omega

theorem wfArg_of_okVal {v : Val} (h : okVal v = true) : C09.WfArg v := by
  intro t d es e; subst e
  simp [okVal_tab] at h
  exact h.1

/-! ## outcomes in `Res`

Everything below is parametric in `bad : Hazard → Bool`, the hazards that count: `fun _ => true` for "no hazard at all";
`(· != .signedOverflow)` for "no hazard except the signed index arithmetic of `substr` / `subraw`", which the model reaches on a
string of 2^63 bytes or more — a value no process can hold, but one that `Val.str` (an unbounded list) can, and that no invariant
of the interpreter's state excludes (63 doublings `s = s + s` build it). -/

/-- `r` is not a hazard that counts -/
def nb {α} (bad : Hazard → Bool) (r : Res α) : Prop := ∀ h, r = .haz h → bad h = false

theorem nb_of_nh {α} {bad : Hazard → Bool} {r : Res α} (h : r.isHazard = false) : nb bad r := by
  intro x e; rw [e] at h; cases h

theorem nb_triv {α} {bad : Hazard → Bool} {r : Res α} (h : ∀ x, r ≠ .haz x) : nb bad r := fun x e => absurd e (h x)

theorem nb_all {α} {r : Res α} (h : nb (fun _ => true) r) : r.isHazard = false := by
  cases r with
  | haz x => exact absurd (h x rfl) (by simp)
  | _ => rfl

/-- `r` is not a hazard and a value it returns satisfies `Q` -/
def NHR {α} (bad : Hazard → Bool) (Q : α → Prop) (r : Res α) : Prop := nb bad r ∧ ∀ a, r = .ok a → Q a

variable {bad : Hazard → Bool}

theorem NHR.ok {α} {Q : α → Prop} {a : α} (h : Q a) : NHR bad Q (.ok a) := ⟨nb_triv (fun _ e => by cases e), fun _ e => by cases e; exact h⟩
theorem NHR.err {α} {Q : α → Prop} {c : Nat} {x : Bytes} : NHR bad Q (.err c x) := ⟨nb_triv (fun _ e => by cases e), fun _ e => by cases e⟩
theorem NHR.unm {α} {Q : α → Prop} : NHR bad Q (.unmodelled : Res α) := ⟨nb_triv (fun _ e => by cases e), fun _ e => by cases e⟩
theorem NHR.mono {α} {P Q : α → Prop} {r : Res α} (h : NHR bad P r) (hpq : ∀ a, P a → Q a) : NHR bad Q r :=
  ⟨h.1, fun a e => hpq a (h.2 a e)⟩
theorem NHR.of_nb {α} {r : Res α} (h : nb bad r) : NHR bad (fun a => r = .ok a) r := ⟨h, fun _ e => e⟩
theorem NHR.of_nh {α} {r : Res α} (h : r.isHazard = false) : NHR bad (fun a => r = .ok a) r := ⟨nb_of_nh h, fun _ e => e⟩
theorem NHR.mk' {α} {Q : α → Prop} {r : Res α} (h : r.isHazard = false) (hq : ∀ a, r = .ok a → Q a) : NHR bad Q r := ⟨nb_of_nh h, hq⟩
theorem NHR.bind {α β} {P : α → Prop} {Q : β → Prop} {r : Res α} {f : α → Res β} (hr : NHR bad P r) (hf : ∀ a, P a → NHR bad Q (f a)) :
    NHR bad Q (r >>= f) := by
  cases r with
  | ok a => exact hf a (hr.2 a rfl)
  | err c x => exact NHR.err
  | haz h => exact ⟨fun x e => by cases e; exact hr.1 h rfl, fun _ e => by cases e⟩
  | unmodelled => exact NHR.unm

theorem haz_absurd {α} {r : Res α} {h : Hazard} (e : r = .haz h) (nh : r.isHazard = false) : False := by
  rw [e] at nh; cases nh

/-! ## outcomes in `EvalM` -/

/-- From every state satisfying `I`: no hazard, `I` again, and `Q` of a returned value. -/
def NH (bad : Hazard → Bool) (I : St → Prop) {α} (Q : α → Prop) (x : EvalM α) : Prop :=
  ∀ s, I s → nb bad (x s).1 ∧ I (x s).2 ∧ ∀ a, (x s).1 = .ok a → Q a

variable {I : St → Prop}

theorem NH.pure {α} {Q : α → Prop} {a : α} (h : Q a) : NH bad I Q (Pure.pure a : EvalM α) :=
  fun _ hs => ⟨nb_triv (fun _ e => by cases e), hs, fun _ e => by cases e; exact h⟩

theorem NH.bind {α β} {P : α → Prop} {Q : β → Prop} {x : EvalM α} {f : α → EvalM β}
    (hx : NH bad I P x) (hf : ∀ a, P a → NH bad I Q (f a)) : NH bad I Q (x >>= f) := by
  intro s hs
  have h1 := hx s hs
  show (fun r : Res β × St => nb bad r.1 ∧ I r.2 ∧ ∀ a, r.1 = .ok a → Q a)
    (match x s with
      | (.ok a, s') => f a s'
      | (.err c a, s') => (.err c a, s')
      | (.haz h, s') => (.haz h, s')
      | (.unmodelled, s') => (.unmodelled, s'))
  cases hxs : x s with
  | mk r s' =>
    rw [hxs] at h1
    cases r with
    | ok a => exact hf a (h1.2.2 a rfl) s' h1.2.1
    | err c a => exact ⟨nb_triv (fun _ e => by cases e), h1.2.1, fun _ e => by cases e⟩
    | haz h => exact ⟨fun x e => by cases e; exact h1.1 h rfl, h1.2.1, fun _ e => by cases e⟩
    | unmodelled => exact ⟨nb_triv (fun _ e => by cases e), h1.2.1, fun _ e => by cases e⟩

theorem NH.mono {α} {P Q : α → Prop} {x : EvalM α} (h : NH bad I P x) (hpq : ∀ a, P a → Q a) : NH bad I Q x :=
  fun s hs => ⟨(h s hs).1, (h s hs).2.1, fun a e => hpq a ((h s hs).2.2 a e)⟩

theorem NH.lift {α} {Q : α → Prop} {r : Res α} (h : NHR bad Q r) : NH bad I Q (liftM r : EvalM α) :=
  fun _ hs => ⟨h.1, hs, h.2⟩
theorem NH.mlift {α} {Q : α → Prop} {r : Res α} (h : NHR bad Q r) : NH bad I Q (monadLift r : EvalM α) :=
  fun _ hs => ⟨h.1, hs, h.2⟩
theorem NH.liftR {α} {Q : α → Prop} {r : Res α} (h : NHR bad Q r) : NH bad I Q (BlocV.liftR r : EvalM α) :=
  fun _ hs => ⟨h.1, hs, h.2⟩
theorem NH.never {α} {Q : α → Prop} {x : EvalM α} (h : ∀ s, ∃ c a, x s = (.err c a, s)) : NH bad I Q x := by
  intro s hs
  obtain ⟨c, a, e⟩ := h s
  rw [e]
  exact ⟨nb_triv (fun _ e => by cases e), hs, fun _ e => by cases e⟩
theorem NH.argTypeErr {α} {Q : α → Prop} : NH bad I Q (BlocV.argTypeErr : EvalM α) := NH.never fun _ => ⟨_, _, rfl⟩
theorem NH.rerr {α} {Q : α → Prop} (c : Nat) : NH bad I Q (BlocV.rerr c : EvalM α) := NH.never fun _ => ⟨_, _, rfl⟩
theorem NH.failE {α} {Q : α → Prop} (c : Nat) (a : Bytes) : NH bad I Q (BlocV.failE c a : EvalM α) := NH.never fun _ => ⟨_, _, rfl⟩
theorem NH.oof {α} {Q : α → Prop} : NH bad I Q (BlocV.oof : EvalM α) := NH.never fun _ => ⟨_, _, rfl⟩
theorem NH.getSt : NH bad I I BlocV.getSt := fun s hs => ⟨nb_triv (fun _ e => by cases e), hs, fun _ e => by cases e; exact hs⟩
theorem NH.modifySt {f : St → St} (hf : ∀ s, I s → I (f s)) : NH bad I (fun _ => True) (BlocV.modifySt f) :=
  fun s hs => ⟨nb_triv (fun _ e => by cases e), hf s hs, fun _ _ => trivial⟩
theorem NH.ite {α} {Q : α → Prop} (c : Prop) [Decidable c] {x y : EvalM α} (hx : c → NH bad I Q x) (hy : ¬ c → NH bad I Q y) :
    NH bad I Q (if c then x else y) := by
  split
  · exact hx ‹_›
  · exact hy ‹_›

/-- `pure a >>= f` and `(x >>= g) >>= f` computed away (no `LawfulMonad` instance is needed) -/
theorem NH.pure_bind {α β} {Q : β → Prop} {a : α} {f : α → EvalM β} (h : NH bad I Q (f a)) : NH bad I Q ((Pure.pure a : EvalM α) >>= f) := h
theorem bind_assoc_eval {α β γ} (x : EvalM α) (g : α → EvalM β) (f : β → EvalM γ) :
    ((x >>= g) >>= f) = (x >>= fun a => g a >>= f) := by
  funext s
  show (match (match x s with
      | (.ok a, s') => g a s'
      | (.err c a, s') => (.err c a, s')
      | (.haz h, s') => (.haz h, s')
      | (.unmodelled, s') => (.unmodelled, s')) with
      | (.ok a, s') => f a s'
      | (.err c a, s') => (.err c a, s')
      | (.haz h, s') => (.haz h, s')
      | (.unmodelled, s') => (.unmodelled, s')) =
    (match x s with
      | (.ok a, s') => (g a >>= f) s'
      | (.err c a, s') => (.err c a, s')
      | (.haz h, s') => (.haz h, s')
      | (.unmodelled, s') => (.unmodelled, s'))
  cases x s with
  | mk r s' => cases r <;> rfl
theorem NH.bind_assoc {α β γ} {Q : γ → Prop} {x : EvalM α} {g : α → EvalM β} {f : β → EvalM γ}
    (h : NH bad I Q (x >>= fun a => g a >>= f)) : NH bad I Q ((x >>= g) >>= f) := by
  rw [bind_assoc_eval]; exact h

theorem NH.bind_lift {α β} {Q : β → Prop} {r : Res α} {f : α → EvalM β} (h1 : nb bad r)
    (hf : ∀ a, r = .ok a → NH bad I Q (f a)) : NH bad I Q ((liftM r : EvalM α) >>= f) := NH.bind (NH.lift (NHR.of_nb h1)) hf
theorem NH.bind_mlift {α β} {Q : β → Prop} {r : Res α} {f : α → EvalM β} (h1 : nb bad r)
    (hf : ∀ a, r = .ok a → NH bad I Q (f a)) : NH bad I Q ((monadLift r : EvalM α) >>= f) := NH.bind (NH.mlift (NHR.of_nb h1)) hf
theorem NH.bind_liftR {α β} {Q : β → Prop} {r : Res α} {f : α → EvalM β} (h1 : nb bad r)
    (hf : ∀ a, r = .ok a → NH bad I Q (f a)) : NH bad I Q ((BlocV.liftR r : EvalM α) >>= f) := NH.bind (NH.liftR (NHR.of_nb h1)) hf
theorem NH.bind_never {α β} {Q : β → Prop} {x : EvalM α} {f : α → EvalM β} (h : ∀ s, ∃ c a, x s = (.err c a, s)) : NH bad I Q (x >>= f) := by
  intro s hs
  obtain ⟨c, a, e⟩ := h s
  show (fun r : Res β × St => nb bad r.1 ∧ I r.2 ∧ ∀ a, r.1 = .ok a → Q a)
    (match x s with
      | (.ok a, s') => f a s'
      | (.err c a, s') => (.err c a, s')
      | (.haz h, s') => (.haz h, s')
      | (.unmodelled, s') => (.unmodelled, s'))
  rw [e]
  exact ⟨nb_triv (fun _ e => by cases e), hs, fun _ e => by cases e⟩
theorem NH.bind_argTypeErr {α β} {Q : β → Prop} {f : α → EvalM β} : NH bad I Q ((BlocV.argTypeErr : EvalM α) >>= f) :=
  NH.bind_never fun _ => ⟨_, _, rfl⟩
theorem NH.bind_rerr {α β} {Q : β → Prop} {f : α → EvalM β} (c : Nat) : NH bad I Q ((BlocV.rerr c : EvalM α) >>= f) :=
  NH.bind_never fun _ => ⟨_, _, rfl⟩

/-- the argument thunks of a built-in call: computations that keep `I`, reach no hazard and return deep-well-formed values -/
abbrev okV (v : Val) : Prop := okVal v = true
def NArgs (bad : Hazard → Bool) (I : St → Prop) (args : List (EvalM Val)) : Prop := ∀ t ∈ args, NH bad I okV t

theorem NArgs.map_mem {α} (f : α → EvalM Val) (l : List α) (h : ∀ a ∈ l, NH bad I okV (f a)) : NArgs bad I (l.map f) := by
  intro t ht
  simp only [List.mem_map] at ht
  obtain ⟨a, ha, rfl⟩ := ht
  exact h a ha
theorem NArgs.get {args : List (EvalM Val)} (h : NArgs bad I args) (t : EvalM Val) (ht : t ∈ args) : NH bad I okV t := h t ht

/-! ## Part 1: the built-ins run in `EvalM` -/

theorem nn_of_not {b : Bool} (h : ¬ b = true) : b = false := by simpa using h
theorem nn_of_bnot {b : Bool} (h : (!b) = true) : b = false := by simpa using h
theorem nn_orL {a b : Bool} (h : ¬ (a || b) = true) : a = false := by cases a <;> simp_all
theorem nn_orR {a b : Bool} (h : ¬ (a || b) = true) : b = false := by cases a <;> simp_all
theorem nn_orL' {a b : Bool} (h : (a || b) = false) : a = false := by cases a <;> simp_all
theorem nn_orR' {a b : Bool} (h : (a || b) = false) : b = false := by cases a <;> simp_all

macro "nn_tac" : tactic => `(tactic| first
  | assumption
  | exact nn_of_not ‹_›
  | exact nn_of_bnot ‹_›
  | exact nn_orL ‹_›
  | exact nn_orR ‹_›
  | exact nn_orL' (nn_orL ‹_›)
  | exact nn_orR' (nn_orL ‹_›))

theorem numPair_ret_ok {ty : Ty} {a0 a1 v : Val} (h : numPair ty a0 a1 = .ok (.ret v)) : okVal v = true := by
  unfold numPair at h
  repeat' (split at h)
  all_goals first
    | (simp only [Res.ok.injEq, NumPair.ret.injEq] at h; subst h; exact okVal_null _)
    | (exfalso; revert h; simp [BlocV.argTypeErr, BlocV.liftR, liftM, monadLift, MonadLift.monadLift]; done)
    | (obtain ⟨x, _, h⟩ := Lemmas.bind_eq_ok _ _ _ h; obtain ⟨y, _, h⟩ := Lemmas.bind_eq_ok _ _ _ h; cases h)

macro "okv" : tactic => `(tactic| first
  | assumption
  | exact okVal_null _ | exact okVal_bool _ | exact okVal_int _ | exact okVal_num _ | exact okVal_str _ | exact okVal_raw _
  | exact numPair_ret_ok ‹_›
  | (simp [okV, okVal_tab, okVal_tup, okVals_map_str, tabStrTy]; done))

macro "nh_leaf" : tactic => `(tactic| first
  | with_reducible rfl
  | exact asInt_no_hazard (tabOk_of_okVal ‹_›) (by nn_tac)
  | exact asNum_no_hazard (tabOk_of_okVal ‹_›) (by nn_tac)
  | exact asStr_no_hazard (tabOk_of_okVal ‹_›) (by nn_tac)
  | exact asRaw_no_hazard (tabOk_of_okVal ‹_›) (by nn_tac)
  | exact asBool_no_hazard (tabOk_of_okVal ‹_›) (by nn_tac)
  | exact castToInt_no_hazard _
  | exact intOfDecimal_no_hazard _
  | exact readPos_no_hazard (tabOk_of_okVal ‹_›)
  | exact ipow_no_hazard _ _
  | exact imod_no_hazard _ _
  | exact numOfString_no_hazard _
  | exact numPair_no_hazard _ (tabOk_of_okVal ‹_›) (tabOk_of_okVal ‹_›)
  | exact Lemmas.hexStr_nh _ _)

macro "nhm_step" h:ident : tactic => `(tactic| first
  | with_reducible refine NH.pure ?_
  | with_reducible exact NH.argTypeErr
  | with_reducible exact NH.rerr _
  | with_reducible exact NH.bind_argTypeErr
  | with_reducible exact NH.bind_rerr _
  | with_reducible exact NH.lift NHR.unm
  | with_reducible exact NH.mlift NHR.unm
  | with_reducible exact NH.liftR NHR.unm
  | with_reducible apply NH.pure_bind
  | with_reducible apply NH.bind_assoc
  | with_reducible refine NH.bind (NArgs.get $h _ (by simp)) (fun _ _ => ?_)
  | with_reducible refine NH.bind_lift ?_ (fun _ _ => ?_)
  | with_reducible refine NH.bind_mlift ?_ (fun _ _ => ?_)
  | with_reducible refine NH.bind_liftR ?_ (fun _ _ => ?_)
  | (with_reducible refine nb_of_nh ?_) <;> nh_leaf
  | okv
  | split
  | dsimp only)

set_option maxHeartbeats 1000000 in
theorem lrSubstr_nh l (args : List (EvalM Val)) (h : NArgs bad I args) : NH bad I okV (lrSubstr (m := EvalM) l args) := by
  unfold lrSubstr
  repeat' (nhm_step h)

set_option maxHeartbeats 1000000 in
theorem biStrpos_nh  (args : List (EvalM Val)) (h : NArgs bad I args) : NH bad I okV (biStrpos (m := EvalM) args) := by
  unfold biStrpos
  repeat' (nhm_step h)

set_option maxHeartbeats 1000000 in
theorem biReplace_nh  (args : List (EvalM Val)) (h : NArgs bad I args) : NH bad I okV (biReplace (m := EvalM) args) := by
  unfold biReplace
  repeat' (nhm_step h)

set_option maxHeartbeats 1000000 in
theorem strMap_nh f (args : List (EvalM Val)) (h : NArgs bad I args) : NH bad I okV (strMap (m := EvalM) f args) := by
  unfold strMap
  repeat' (nhm_step h)

set_option maxHeartbeats 1000000 in
theorem biStrlen_nh  (args : List (EvalM Val)) (h : NArgs bad I args) : NH bad I okV (biStrlen (m := EvalM) args) := by
  unfold biStrlen
  repeat' (nhm_step h)

set_option maxHeartbeats 1000000 in
theorem biTokenize_nh  (args : List (EvalM Val)) (h : NArgs bad I args) : NH bad I okV (biTokenize (m := EvalM) args) := by
  unfold biTokenize
  repeat' (nhm_step h)

set_option maxHeartbeats 1000000 in
theorem biHex_nh  (args : List (EvalM Val)) (h : NArgs bad I args) : NH bad I okV (biHex (m := EvalM) args) := by
  unfold biHex
  repeat' (nhm_step h)

set_option maxHeartbeats 1000000 in
theorem biHash_nh  (args : List (EvalM Val)) (h : NArgs bad I args) : NH bad I okV (biHash (m := EvalM) args) := by
  unfold biHash
  repeat' (nhm_step h)

set_option maxHeartbeats 1000000 in
theorem biChr_nh  (args : List (EvalM Val)) (h : NArgs bad I args) : NH bad I okV (biChr (m := EvalM) args) := by
  unfold biChr
  repeat' (nhm_step h)

set_option maxHeartbeats 1000000 in
theorem biRaw_nh  (args : List (EvalM Val)) (h : NArgs bad I args) : NH bad I okV (biRaw (m := EvalM) args) := by
  unfold biRaw
  repeat' (nhm_step h)

set_option maxHeartbeats 1000000 in
theorem biInt_nh  (args : List (EvalM Val)) (h : NArgs bad I args) : NH bad I okV (biInt (m := EvalM) args) := by
  unfold biInt
  repeat' (nhm_step h)

set_option maxHeartbeats 1000000 in
theorem biB64_nh e (args : List (EvalM Val)) (h : NArgs bad I args) : NH bad I okV (biB64 (m := EvalM) e args) := by
  unfold biB64
  repeat' (nhm_step h)

set_option maxHeartbeats 1000000 in
theorem biStr_nh f (args : List (EvalM Val)) (h : NArgs bad I args) : NH bad I okV (biStr (m := EvalM) f args) := by
  unfold biStr
  repeat' (nhm_step h)

set_option maxHeartbeats 1000000 in
theorem biAbs_nh  (args : List (EvalM Val)) (h : NArgs bad I args) : NH bad I okV (biAbs (m := EvalM) args) := by
  unfold biAbs
  repeat' (nhm_step h)

set_option maxHeartbeats 1000000 in
theorem biPow_nh  (args : List (EvalM Val)) (h : NArgs bad I args) : NH bad I okV (biPow (m := EvalM) args) := by
  unfold biPow
  repeat' (nhm_step h)

set_option maxHeartbeats 1000000 in
theorem biNum_nh  (args : List (EvalM Val)) (h : NArgs bad I args) : NH bad I okV (biNum (m := EvalM) args) := by
  unfold biNum
  repeat' (nhm_step h)

set_option maxHeartbeats 1000000 in
theorem biIsnum_nh  (args : List (EvalM Val)) (h : NArgs bad I args) : NH bad I okV (biIsnum (m := EvalM) args) := by
  unfold biIsnum
  repeat' (nhm_step h)

set_option maxHeartbeats 1000000 in
theorem biBool_nh  (args : List (EvalM Val)) (h : NArgs bad I args) : NH bad I okV (biBool (m := EvalM) args) := by
  unfold biBool
  repeat' (nhm_step h)

set_option maxHeartbeats 1000000 in
theorem biIsnull_nh  (args : List (EvalM Val)) (h : NArgs bad I args) : NH bad I okV (biIsnull (m := EvalM) args) := by
  unfold biIsnull
  repeat' (nhm_step h)

set_option maxHeartbeats 1000000 in
theorem biTypeof_nh  (args : List (EvalM Val)) (h : NArgs bad I args) : NH bad I okV (biTypeof (m := EvalM) args) := by
  unfold biTypeof
  repeat' (nhm_step h)

set_option maxHeartbeats 1000000 in
theorem biSign_nh  (args : List (EvalM Val)) (h : NArgs bad I args) : NH bad I okV (biSign (m := EvalM) args) := by
  unfold biSign
  repeat' (nhm_step h)

set_option maxHeartbeats 1000000 in
theorem mathMap_nh fn (args : List (EvalM Val)) (h : NArgs bad I args) : NH bad I okV (mathMap (m := EvalM) fn args) := by
  unfold mathMap
  repeat' (nhm_step h)

set_option maxHeartbeats 1000000 in
theorem biRound_nh  (args : List (EvalM Val)) (h : NArgs bad I args) : NH bad I okV (biRound (m := EvalM) args) := by
  unfold biRound
  repeat' (nhm_step h)

set_option maxHeartbeats 1000000 in
theorem biMinMax_nh b (args : List (EvalM Val)) (h : NArgs bad I args) : NH bad I okV (biMinMax (m := EvalM) b args) := by
  unfold biMinMax
  repeat' (nhm_step h)

set_option maxHeartbeats 1000000 in
theorem biMod_nh  (args : List (EvalM Val)) (h : NArgs bad I args) : NH bad I okV (biMod (m := EvalM) args) := by
  unfold biMod
  repeat' (nhm_step h)

set_option maxHeartbeats 1000000 in
theorem biAtan2_nh  (args : List (EvalM Val)) (h : NArgs bad I args) : NH bad I okV (biAtan2 (m := EvalM) args) := by
  unfold biAtan2
  repeat' (nhm_step h)

set_option maxHeartbeats 1000000 in
theorem biClamp_nh  (args : List (EvalM Val)) (h : NArgs bad I args) : NH bad I okV (biClamp (m := EvalM) args) := by
  unfold biClamp
  repeat' (nhm_step h)

end BlocV.NHI
