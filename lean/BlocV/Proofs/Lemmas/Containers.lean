/-
  Helper lemmas for Proofs/C09.lean: unfolding of the Spec's uniformity predicate, its behaviour
  under the list operations the model performs, and soundness of the model's element classification.
-/
import BlocV.KF.C09

namespace BlocV.C09
open BlocV BlocV.Spec

/-! ### unfolding -/

theorem uniformP_tab (P) (t d es) :
    uniformP P (.tab t d es) = ((headerOk t d && (t.major != .tup || P d)) && uniformAll P (elemETy t d) es) := by
  simp [uniformP]

theorem uniformP_tup (P) (d items) :
    uniformP P (.tup d items) =
      ((!d.isEmpty && d.all scalarTy && P d) && (items.map Val.type == d && items.all scalarVal)) := by
  simp [uniformP]

@[simp] theorem uniformAll_nil (P e) : uniformAll P e [] = true := by simp [uniformAll]
theorem uniformAll_cons (P e v vs) :
    uniformAll P e (v :: vs) = ((etyOf v == e && uniformP P v) && uniformAll P e vs) := by simp [uniformAll]

@[simp] theorem uniformP_null (P t) : uniformP P (.null t) = true := by simp [uniformP]
@[simp] theorem uniformP_bool (P b) : uniformP P (.bool b) = true := by simp [uniformP]
@[simp] theorem uniformP_int (P i) : uniformP P (.int i) = true := by simp [uniformP]
@[simp] theorem uniformP_num (P d) : uniformP P (.num d) = true := by simp [uniformP]
@[simp] theorem uniformP_imag (P a b) : uniformP P (.imag a b) = true := by simp [uniformP]
@[simp] theorem uniformP_str (P s) : uniformP P (.str s) = true := by simp [uniformP]
@[simp] theorem uniformP_raw (P s) : uniformP P (.raw s) = true := by simp [uniformP]
@[simp] theorem uniformP_obj (P a b) : uniformP P (.obj a b) = true := by simp [uniformP]

/-! ### uniformAll and list surgery -/

theorem uniformAll_append (P e) (l1 l2 : List Val) :
    uniformAll P e (l1 ++ l2) = (uniformAll P e l1 && uniformAll P e l2) := by
  induction l1 with
  | nil => simp
  | cons v vs ih => simp [uniformAll_cons, ih, Bool.and_assoc]

theorem uniformAll_reverse (P e) (l : List Val) : uniformAll P e l.reverse = uniformAll P e l := by
  induction l with
  | nil => simp
  | cons v vs ih =>
    simp [uniformAll_append, uniformAll_cons, ih, Bool.and_comm]

theorem uniformAll_take (P e) (l : List Val) (n : Nat) (h : uniformAll P e l = true) :
    uniformAll P e (l.take n) = true := by
  induction l generalizing n with
  | nil => simp
  | cons v vs ih =>
    cases n with
    | zero => simp
    | succ k =>
      simp [uniformAll_cons] at h ⊢
      exact ⟨h.1, ih k h.2⟩

theorem uniformAll_drop (P e) (l : List Val) (n : Nat) (h : uniformAll P e l = true) :
    uniformAll P e (l.drop n) = true := by
  induction l generalizing n with
  | nil => simp
  | cons v vs ih =>
    cases n with
    | zero => simpa using h
    | succ k =>
      simp [uniformAll_cons] at h ⊢
      exact ih k h.2

theorem uniformAll_getElem? (P e) (l : List Val) (n : Nat) (v : Val) (h : uniformAll P e l = true)
    (hv : l[n]? = some v) : etyOf v = e ∧ uniformP P v = true := by
  induction l generalizing n with
  | nil => simp at hv
  | cons w ws ih =>
    simp [uniformAll_cons] at h
    cases n with
    | zero => simp at hv; subst hv; exact ⟨h.1.1, h.1.2⟩
    | succ k => simp at hv; exact ih k h.2 hv

theorem uniformAll_listPut (P e) (l : List Val) (n : Nat) (v : Val) (h : uniformAll P e l = true)
    (hv : etyOf v = e) (hu : uniformP P v = true) : uniformAll P e (listPut l n v) = true := by
  unfold listPut
  rw [uniformAll_append, uniformAll_cons]
  simp [uniformAll_take P e l n h, uniformAll_drop P e l (n + 1) h, hv, hu]

theorem uniformAll_listIns (P e) (l xs : List Val) (n : Nat) (h : uniformAll P e l = true)
    (hx : uniformAll P e xs = true) : uniformAll P e (listIns l n xs) = true := by
  unfold listIns
  rw [uniformAll_append, uniformAll_append]
  simp [uniformAll_take P e l n h, uniformAll_drop P e l n h, hx]

theorem uniformAll_listDel (P e) (l : List Val) (n : Nat) (h : uniformAll P e l = true) :
    uniformAll P e (listDel l n) = true := by
  unfold listDel
  rw [uniformAll_append]
  simp [uniformAll_take P e l n h, uniformAll_drop P e l (n + 1) h]

theorem uniformAll_single (P e) (v : Val) (hv : etyOf v = e) (hu : uniformP P v = true) :
    uniformAll P e [v] = true := by
  simp [uniformAll_cons, hv, hu]

/-! ### headers, exact types, the model's element classification -/

theorem makeTupleTy_minor (d : List Ty) (L : Nat) : (makeTupleTy d L).minor = (makeTupleTy d 0).minor := by
  unfold makeTupleTy; split <;> rfl
theorem makeTupleTy_major (d : List Ty) (L : Nat) : (makeTupleTy d L).major = .tup := by
  unfold makeTupleTy; split <;> rfl
theorem makeTupleTy_level (d : List Ty) (L : Nat) : (makeTupleTy d L).level = L := by
  unfold makeTupleTy; split <;> rfl

theorem mkETy_nontup (t : Ty) (d : List Ty) (L : Nat) (h : t.major ≠ .tup) : mkETy t d L = ⟨t.major, normMinor t, [], L⟩ := by
  unfold mkETy; simp [h]
theorem mkETy_tup (t : Ty) (d : List Ty) (L : Nat) (h : t.major = .tup) (hd : d ≠ []) : mkETy t d L = ⟨.tup, 0, d, L⟩ := by
  unfold mkETy; simp [h, hd]

/-- "the declarations in play hash injectively" -/
def Inj (P : List Ty → Bool) : Prop :=
  ∀ d1 d2, P d1 = true → P d2 = true → (makeTupleTy d1 0).minor = (makeTupleTy d2 0).minor → d1 = d2

/-- what `headerOk` says, as propositions -/
theorem headerOk_iff (t : Ty) (d : List Ty) : headerOk t d = true ↔
    (1 ≤ t.level ∧ t.level < 255 ∧ t.major ≠ .none ∧
      ((t.major = .tup ∧ d ≠ [] ∧ t = makeTupleTy d t.level) ∨
       (t.major ≠ .tup ∧ d = []))) := by
  unfold headerOk
  by_cases h : t.major = .tup <;> simp [h, and_assoc]

/-- two headers with the same major and minor denote the same element type (tuples: by `Inj`) -/
theorem mkETy_congr (P) (hinj : Inj P) (t d t' d' L)
    (hh : headerOk t d = true) (hh' : headerOk t' d' = true)
    (hp : t.major = .tup → P d = true) (hp' : t'.major = .tup → P d' = true)
    (hmaj : t'.major = t.major) (hmin : t'.minor = t.minor) : mkETy t' d' L = mkETy t d L := by
  rw [headerOk_iff] at hh hh'
  obtain ⟨_, _, _, hc⟩ := hh
  obtain ⟨_, _, _, hc'⟩ := hh'
  rcases hc with ⟨ht, hd, hte⟩ | ⟨ht, hd⟩
  · have ht' : t'.major = .tup := by rw [hmaj]; exact ht
    rcases hc' with ⟨_, hd', hte'⟩ | ⟨hnt, _⟩
    · have e1 : t.minor = (makeTupleTy d 0).minor := by
        have := congrArg Ty.minor hte; rw [makeTupleTy_minor] at this; exact this
      have e2 : t'.minor = (makeTupleTy d' 0).minor := by
        have := congrArg Ty.minor hte'; rw [makeTupleTy_minor] at this; exact this
      have : d' = d := hinj d' d (hp' ht') (hp ht) (by rw [← e1, ← e2, hmin])
      subst this
      rw [mkETy_tup t' d' L ht' hd', mkETy_tup t d' L ht hd]
    · exact absurd ht' hnt
  · have ht' : t'.major ≠ .tup := by rw [hmaj]; exact ht
    rw [mkETy_nontup t' d' L ht', mkETy_nontup t d L ht]
    simp [normMinor, hmaj, hmin]


theorem classify_one (k t a nullTy v) (h : classify k t a nullTy = .ok (.one v)) :
    (v = a ∧ a.type = t.levelDown ∧ (a.type.major = .tup → a.isNull = false))
    ∨ (a.type.level = 0 ∧ a.type.major ≠ t.major ∧ mixElem t a nullTy = .ok (.one v)) := by
  unfold classify at h
  split at h
  · split at h
    · rename_i at_ ad es
      split at h
      · simp at h
      · split at h
        · simp at h
          rename_i h1
          left
          refine ⟨h.symm, ?_, ?_⟩
          · simpa [Val.type] using h1
          · intro _; rfl
        · simp at h
    · split at h <;> simp at h
  · rename_i hl
    split at h
    · rename_i hm
      split at h
      · split at h
        · split at h <;> simp at h
        · split at h
          · rename_i hnn hty
            simp at h
            left
            refine ⟨h.symm, by simpa using hty, ?_⟩
            intro _; simpa using hnn
          · simp at h
      · split at h
        · rename_i hnt hty
          simp at h
          left
          refine ⟨h.symm, by simpa using hty, ?_⟩
          intro hc; simp [hc] at hnt
        · simp at h
    · rename_i hm
      right
      refine ⟨by omega, by simpa using hm, h⟩

theorem classify_many (k t a nullTy vs) (h : classify k t a nullTy = .ok (.many vs)) :
    ∃ ad, a = .tab t ad vs := by
  unfold classify at h
  split at h
  · split at h
    · split at h
      · rename_i h1
        simp at h
        simp at h1
        exact ⟨_, by rw [h1.2, h]⟩
      · split at h <;> simp at h
    · split at h <;> simp at h
  · split at h
    · split at h
      · split at h
        · split at h <;> simp at h
        · split at h <;> simp at h
      · split at h <;> simp at h
    · unfold mixElem at h
      split at h
      · split at h
        · split at h
          · simp at h
          · split at h
            · split at h <;> simp at h
            all_goals simp at h
        · split at h <;> simp at h
      · split at h
        · split at h
          · simp at h
          · split at h <;> simp at h
        · split at h <;> simp at h
      · simp at h
      · split at h <;> simp at h


theorem mixElem_one (t a nullTy v) (h : mixElem t a nullTy = .ok (.one v)) :
    (t.major = .int ∧ (a.type.major = .num ∨ a.type.major = .none) ∧ ((∃ i, v = .int i) ∨ v = .null Ty.int))
    ∨ (t.major = .num ∧ (a.type.major = .int ∨ a.type.major = .none) ∧ ((∃ x, v = .num x) ∨ v = .null Ty.num))
    ∨ (t.major ≠ .int ∧ t.major ≠ .num ∧ t.major ≠ .tup ∧ a.type.major = .none ∧ v = .null nullTy) := by
  unfold mixElem at h
  split at h
  · rename_i hm
    left
    split at h
    · rename_i ha
      split at h
      · simp at h; exact ⟨hm, Or.inl (by simpa using ha), Or.inr h.symm⟩
      · split at h
        · split at h
          · simp at h; exact ⟨hm, Or.inl (by simpa using ha), Or.inl ⟨_, h.symm⟩⟩
          all_goals simp at h
        all_goals simp at h
    · split at h
      · rename_i ha
        simp at h; exact ⟨hm, Or.inr (by simpa using ha), Or.inr h.symm⟩
      · simp at h
  · rename_i hm
    right; left
    split at h
    · rename_i ha
      split at h
      · simp at h; exact ⟨hm, Or.inl (by simpa using ha), Or.inr h.symm⟩
      · split at h
        · simp at h; exact ⟨hm, Or.inl (by simpa using ha), Or.inl ⟨_, h.symm⟩⟩
        all_goals simp at h
    · split at h
      · rename_i ha
        simp at h; exact ⟨hm, Or.inr (by simpa using ha), Or.inr h.symm⟩
      · simp at h
  · simp at h
  · rename_i h1 h2 h3
    right; right
    split at h
    · rename_i ha
      simp at h
      exact ⟨h1, h2, h3, by simpa using ha, h.symm⟩
    · simp at h

/-! ### the type-mixing branch after the repair 9e8652f: typed nulls, no hazard -/

/-- the two numeric majors, crossed: an integer container given a decimal, a decimal container given an
integer -/
def crossNum (tm am : Major) : Bool := (tm == .int && am == .num) || (tm == .num && am == .int)

/-- the null the type-mixing branch stores for a container of major `m`: `Value(Value::type_integer)` /
`Value(Value::type_numeric)` -/
def numNull (m : Major) : Val := .null { major := m }

/-- for a table of ONE dimension (and for a tuple item) that null has exactly the element type -/
theorem numNull_elem_type (t : Ty) (hl : t.level = 1) (hm : t.minor = 0) : (numNull t.major).type = t.levelDown := by
  cases t with
  | mk major minor level =>
    simp at hl hm; subst hl; subst hm
    simp [numNull, Val.type, Ty.levelDown]

theorem mixElem_null_cross (t nt nullTy : Ty) (hc : crossNum t.major nt.major = true) :
    mixElem t (.null nt) nullTy = .ok (.one (numNull t.major)) := by
  unfold crossNum at hc
  simp only [Bool.or_eq_true, Bool.and_eq_true, beq_iff_eq] at hc
  unfold mixElem
  rcases hc with ⟨h1, h2⟩ | ⟨h1, h2⟩
  · rw [h1]; simp [Val.type, h2, Val.isNull, numNull, Ty.int]
  · rw [h1]; simp [Val.type, h2, Val.isNull, numNull, Ty.num]

theorem mixItem_null_cross (dt nt oldTy : Ty) (hc : crossNum dt.major nt.major = true) :
    mixItem dt (.null nt) oldTy = .ok (some (numNull dt.major)) := by
  unfold crossNum at hc
  simp only [Bool.or_eq_true, Bool.and_eq_true, beq_iff_eq] at hc
  unfold mixItem
  rcases hc with ⟨h1, h2⟩ | ⟨h1, h2⟩
  · rw [h1]; simp [Val.type, h2, Val.isNull, numNull, Ty.int]
  · rw [h1]; simp [Val.type, h2, Val.isNull, numNull, Ty.num]

/-- a scalar typed null of the other numeric type reaches the mixing branch and is stored as the null of
the container's major — whatever the method and whatever the level of the table -/
theorem classify_null_cross (k : Kind) (t nt nullTy : Ty) (hc : crossNum t.major nt.major = true) (hl : nt.level = 0) :
    classify k t (.null nt) nullTy = .ok (.one (numNull t.major)) := by
  have hne : nt.major ≠ t.major := by
    unfold crossNum at hc
    simp only [Bool.or_eq_true, Bool.and_eq_true, beq_iff_eq] at hc
    rcases hc with ⟨h1, h2⟩ | ⟨h1, h2⟩ <;> rw [h1, h2] <;> simp
  unfold classify
  simp [Val.type, hl, hne, mixElem_null_cross t nt nullTy hc]

/-- not a malformed table: a `Collection` always carries a table type (level ≥ 1) -/
def WfArg (a : Val) : Prop := ∀ t d es, a = .tab t d es → t.level ≠ 0

theorem nonnull_num (a : Val) (hw : WfArg a) (hn : a.isNull = false) (hm : a.type.major = .num)
    (hl : a.type.level = 0) : ∃ x, a = .num x := by
  cases a with
  | num x => exact ⟨x, rfl⟩
  | null ty => simp [Val.isNull] at hn
  | tup d items => simp [Val.type, makeTupleTy_major] at hm
  | tab t d es => exact absurd hl (hw t d es rfl)
  | _ => simp [Val.type, Ty.bool, Ty.int, Ty.imag, Ty.str, Ty.raw] at hm

theorem nonnull_int (a : Val) (hw : WfArg a) (hn : a.isNull = false) (hm : a.type.major = .int)
    (hl : a.type.level = 0) : ∃ x, a = .int x := by
  cases a with
  | int x => exact ⟨x, rfl⟩
  | null ty => simp [Val.isNull] at hn
  | tup d items => simp [Val.type, makeTupleTy_major] at hm
  | tab t d es => exact absurd hl (hw t d es rfl)
  | _ => simp [Val.type, Ty.bool, Ty.num, Ty.imag, Ty.str, Ty.raw] at hm

/-- `Value::toInteger`: the range test lets no infinity or NaN through to the cast -/
theorem intOfDecimal_not_haz (b : Num.F64) (h : Hazard) : Num.intOfDecimal b ≠ .haz h := by
  unfold Num.intOfDecimal
  simp only
  split
  · simp
  · rename_i hr
    have he : Num.expo b ≠ 2047 := by
      intro e
      apply hr
      by_cases hm : Num.mant b = 0
      · have hc : (b == 0xc3e0000000000000) = false := by
          apply beq_eq_false_iff_ne.mpr
          intro eb; subst eb; revert e; decide
        simp [Num.isNaN, e, hm, hc]
      · simp [Num.isNaN, e, hm]
    have : Num.truncInt b ≠ none := by
      unfold Num.truncInt
      simp [he]
    split
    · simp
    · rename_i hn; exact absurd hn this

/-- **no hazard is left in the type-mixing branch** of put / insert / concat (9e8652f): for every table
type and every level-0 argument the outcome is a slot, a refusal or OUT_OF_RANGE. -/
theorem mixElem_no_hazard (t : Ty) (a : Val) (nullTy : Ty) (hw : WfArg a) (hl : a.type.level = 0) :
    (mixElem t a nullTy).isHazard = false := by
  unfold mixElem
  split
  · split
    · rename_i hm
      split
      · rfl
      · rename_i hn
        obtain ⟨x, rfl⟩ := nonnull_num a hw (by simpa using hn) (by simpa using hm) hl
        have e : (Val.num x).asNum = .ok x := rfl
        rw [e]
        cases hi : Num.intOfDecimal x with
        | haz h => exact absurd hi (intOfDecimal_not_haz x h)
        | _ => simp [hi, Res.isHazard]
    · split <;> rfl
  · split
    · rename_i hm
      split
      · rfl
      · rename_i hn
        obtain ⟨x, rfl⟩ := nonnull_int a hw (by simpa using hn) (by simpa using hm) hl
        rfl
    · split <;> rfl
  · rfl
  · split <;> rfl

/-- the same for `set@` -/
theorem mixItem_no_hazard (dt : Ty) (a : Val) (oldTy : Ty) (hw : WfArg a) (hl : a.type.level = 0) :
    (mixItem dt a oldTy).isHazard = false := by
  unfold mixItem
  split
  · split
    · rename_i hm
      split
      · rfl
      · rename_i hn
        obtain ⟨x, rfl⟩ := nonnull_num a hw (by simpa using hn) (by simpa using hm) hl
        have e : (Val.num x).asNum = .ok x := rfl
        rw [e]
        cases hi : Num.intOfDecimal x with
        | haz h => exact absurd hi (intOfDecimal_not_haz x h)
        | _ => simp [hi, Res.isHazard]
    · split <;> rfl
  · split
    · rename_i hm
      split
      · rfl
      · rename_i hn
        obtain ⟨x, rfl⟩ := nonnull_int a hw (by simpa using hn) (by simpa using hm) hl
        rfl
    · split <;> rfl
  · split <;> rfl

/-- the whole classification of an element argument reaches no hazard -/
theorem classify_no_hazard (k : Kind) (t : Ty) (a : Val) (nullTy : Ty) (hw : WfArg a) :
    (classify k t a nullTy).isHazard = false := by
  unfold classify
  split
  · split
    · split
      · rfl
      · split <;> rfl
    · rfl
  · rename_i hl
    split
    · split
      · split
        · rfl
        · split <;> rfl
      · split <;> rfl
    · exact mixElem_no_hazard t a nullTy hw (by omega)

/-- a value whose *implementation* type equals the element type of a table has the element type
of the Spec, provided declarations hash injectively -/
theorem ety_of_type_eq (P) (hinj : Inj P) (t d) (hh : headerOk t d = true) (hp : t.major = .tup → P d = true)
    (a : Val) (ha : uniformP P a = true) (hnn : a.type.major = .tup → a.isNull = false)
    (hty : a.type = t.levelDown) : etyOf a = elemETy t d := by
  have hh' := (headerOk_iff t d).1 hh
  obtain ⟨hl1, hl2, hnone, hc⟩ := hh'
  have scalar : ∀ (ty : Ty), ty.major ≠ .tup → ty = t.levelDown → mkETy ty [] ty.level = elemETy t d := by
    intro ty hnt he
    have hm : t.major ≠ .tup := by
      intro hc'; apply hnt; rw [he]; exact hc'
    unfold elemETy
    rw [mkETy_nontup ty [] ty.level hnt, mkETy_nontup t d _ hm, he]
    simp [Ty.levelDown, normMinor]
  cases a with
  | null ty =>
    have hnt : ty.major ≠ .tup := by
      intro hc'; have := hnn hc'; simp [Val.isNull] at this
    exact scalar ty hnt hty
  | bool b => exact scalar Ty.bool (by simp [Ty.bool]) hty
  | int i => exact scalar Ty.int (by simp [Ty.int]) hty
  | num x => exact scalar Ty.num (by simp [Ty.num]) hty
  | imag x y => exact scalar Ty.imag (by simp [Ty.imag]) hty
  | str x => exact scalar Ty.str (by simp [Ty.str]) hty
  | raw x => exact scalar Ty.raw (by simp [Ty.raw]) hty
  | obj tid id => exact scalar { major := .obj, minor := tid } (by simp) hty
  | tup ad items =>
    rw [uniformP_tup] at ha
    simp at ha
    have had : ad ≠ [] := ha.1.1.1
    have hPad : P ad = true := ha.1.2
    simp only [Val.type] at hty
    have htm : t.major = .tup := by
      have := congrArg Ty.major hty; rw [makeTupleTy_major] at this; simpa [Ty.levelDown] using this.symm
    rcases hc with ⟨_, hd, hte⟩ | ⟨hnt, _⟩
    · have e1 : t.minor = (makeTupleTy d 0).minor := by
        have := congrArg Ty.minor hte; rw [makeTupleTy_minor] at this; exact this
      have e2 : (makeTupleTy ad 0).minor = t.minor := by
        have := congrArg Ty.minor hty; simpa [Ty.levelDown] using this
      have e3 : t.level - 1 = 0 := by
        have := congrArg Ty.level hty; rw [makeTupleTy_level] at this; simpa [Ty.levelDown] using this.symm
      have : ad = d := hinj ad d hPad (hp htm) (by rw [e2, e1])
      subst this
      show mkETy (makeTupleTy ad 0) ad 0 = mkETy t ad (t.level - 1)
      rw [mkETy_tup _ ad 0 (makeTupleTy_major ad 0) had, mkETy_tup t ad _ htm had, e3]
    · exact absurd htm hnt
  | tab at_ ad es =>
    rw [uniformP_tab] at ha
    simp only [Bool.and_eq_true] at ha
    have hha := ha.1.1
    have hpa : at_.major = .tup → P ad = true := by
      intro hm; have := ha.1.2; simpa [hm] using this
    simp only [Val.type] at hty
    have hlev : at_.level = t.level - 1 := by rw [hty]; simp [Ty.levelDown]
    show mkETy at_ ad at_.level = mkETy t d (t.level - 1)
    rw [hlev]
    exact mkETy_congr P hinj t d at_ ad _ hh hha hp hpa (by rw [hty]; simp [Ty.levelDown]) (by rw [hty]; simp [Ty.levelDown])


theorem classify_sound (P) (hinj : Inj P) (k t d a nullTy)
    (hh : headerOk t d = true) (hp : t.major = .tup → P d = true)
    (ha : uniformP P a = true) (hl : KF.levelBug t a = false)
    (hn : t.major ≠ .tup → nullTy.major = t.major ∧ normMinor nullTy = normMinor t ∧ nullTy.level = t.level - 1) :
    (∀ v, classify k t a nullTy = .ok (.one v) → etyOf v = elemETy t d ∧ uniformP P v = true) ∧
    (∀ vs, classify k t a nullTy = .ok (.many vs) → uniformAll P (elemETy t d) vs = true) := by
  have hh' := (headerOk_iff t d).1 hh
  obtain ⟨hl1, hl2, hnone, hc⟩ := hh'
  constructor
  · intro v h
    rcases classify_one k t a nullTy v h with ⟨hv, hty, hnn⟩ | ⟨hl0, hne, hmix⟩
    · subst hv
      exact ⟨ety_of_type_eq P hinj t d hh hp v ha hnn hty, ha⟩
    · have numeric : ∀ (m : Major) (ty : Ty), m ≠ .tup → m ≠ .obj → t.major = m → ty = { major := m } →
          (a.type.major = .num ∨ a.type.major = .int ∨ a.type.major = .none) →
          ((t.major == .int && (a.type.major == .num || a.type.major == .none)) ||
            (t.major == .num && (a.type.major == .int || a.type.major == .none))) = true →
          mkETy ty [] 0 = elemETy t d := by
        intro m ty hm1 hm2 htm hty _ hreg
        have hmt : t.major ≠ .tup := by rw [htm]; exact hm1
        have hlev : t.level - 1 = 0 := by
          unfold KF.levelBug at hl
          simp [hl0, hreg] at hl
          omega
        unfold elemETy
        rw [mkETy_nontup t d _ hmt, hlev, hty]
        rw [mkETy_nontup _ [] 0 (by simpa using hm1)]
        have e1 : normMinor t = 0 := by
          unfold normMinor; rw [htm]
          cases m <;> first | rfl | exact absurd rfl hm1 | exact absurd rfl hm2
        have e2 : normMinor ({ major := m } : Ty) = 0 := by
          unfold normMinor
          cases m <;> first | rfl | exact absurd rfl hm1 | exact absurd rfl hm2
        rw [e1, e2, htm]
      rcases mixElem_one t a nullTy v hmix with ⟨htm, ham, hv⟩ | ⟨htm, ham, hv⟩ | ⟨h1, h2, h3, ham, hv⟩
      · have hreg : ((t.major == .int && (a.type.major == .num || a.type.major == .none)) ||
            (t.major == .num && (a.type.major == .int || a.type.major == .none))) = true := by
          rcases ham with ham | ham <;> simp [htm, ham]
        have := numeric .int Ty.int (by simp) (by simp) htm rfl (by rcases ham with h | h <;> simp [h]) hreg
        rcases hv with ⟨i, hv⟩ | hv <;> subst hv <;> exact ⟨this, by simp⟩
      · have hreg : ((t.major == .int && (a.type.major == .num || a.type.major == .none)) ||
            (t.major == .num && (a.type.major == .int || a.type.major == .none))) = true := by
          rcases ham with ham | ham <;> simp [htm, ham]
        have := numeric .num Ty.num (by simp) (by simp) htm rfl (by rcases ham with h | h <;> simp [h]) hreg
        rcases hv with ⟨i, hv⟩ | hv <;> subst hv <;> exact ⟨this, by simp⟩
      · subst hv
        refine ⟨?_, by simp⟩
        show mkETy nullTy [] nullTy.level = elemETy t d
        unfold elemETy
        have hn := hn h3
        rw [mkETy_nontup nullTy [] _ (by rw [hn.1]; exact h3), mkETy_nontup t d _ h3, hn.1, hn.2.1, hn.2.2]
  · intro vs h
    obtain ⟨ad, hae⟩ := classify_many k t a nullTy vs h
    subst hae
    rw [uniformP_tab] at ha
    simp only [Bool.and_eq_true] at ha
    have hpa : t.major = .tup → P ad = true := by
      intro hm; have := ha.1.2; simpa [hm] using this
    have : elemETy t ad = elemETy t d := mkETy_congr P hinj t d t ad _ hh ha.1.1 hp hpa rfl rfl
    rw [← this]; exact ha.2

/-! ### the methods preserve uniformity -/

theorem tab_parts (P t d es) (h : uniformP P (.tab t d es) = true) :
    headerOk t d = true ∧ (t.major = .tup → P d = true) ∧ uniformAll P (elemETy t d) es = true := by
  rw [uniformP_tab] at h
  simp only [Bool.and_eq_true] at h
  refine ⟨h.1.1, ?_, h.2⟩
  intro hm; have := h.1.2; simpa [hm] using this

theorem tab_build (P t d es es') (h : uniformP P (.tab t d es) = true)
    (h' : uniformAll P (elemETy t d) es' = true) : uniformP P (.tab t d es') = true := by
  rw [uniformP_tab] at h ⊢
  simp only [Bool.and_eq_true] at h ⊢
  exact ⟨h.1, h'⟩

theorem mAt_preserves (P x a0 r x') (hx : uniformP P x = true) (h : mAt x a0 = .ok (r, x')) :
    uniformP P r = true ∧ uniformP P x' = true := by
  unfold mAt at h
  split at h
  · simp [idxErr] at h
  · split at h
    · rename_i t d es _
      split at h
      · split at h
        · split at h
          · rename_i e he
            simp at h; obtain ⟨rfl, rfl⟩ := h
            exact ⟨(uniformAll_getElem? P _ es _ e (tab_parts P t d es hx).2.2 he).2, hx⟩
          · simp [idxErr] at h
        · simp [idxErr] at h
      all_goals simp at h
    · split at h
      · split at h
        · split at h
          · simp at h; obtain ⟨rfl, rfl⟩ := h; simp
          · simp [idxErr] at h
        · simp [idxErr] at h
      all_goals simp at h
    · split at h
      · split at h
        · split at h
          · simp at h; obtain ⟨rfl, rfl⟩ := h; simp
          · simp [idxErr] at h
        · simp [idxErr] at h
      all_goals simp at h
    · simp at h

theorem mCount_preserves (P x r x') (hx : uniformP P x = true) (h : mCount x = .ok (r, x')) :
    uniformP P r = true ∧ uniformP P x' = true := by
  unfold mCount at h
  split at h <;> simp at h <;> obtain ⟨rfl, rfl⟩ := h <;> simp [hx]

theorem mDelete_preserves (P x a0 c r x') (hx : uniformP P x = true) (h : mDelete x a0 c = .ok (r, x')) :
    uniformP P r = true ∧ uniformP P x' = true := by
  unfold mDelete at h
  split at h
  · simp [idxErr] at h
  · split at h
    · rename_i t d es _
      split at h
      · split at h
        · simp [idxErr] at h
        · simp at h; obtain ⟨rfl, rfl⟩ := h
          have := tab_build P t d es _ hx (uniformAll_listDel P _ es (idxOf ‹_›) (tab_parts P t d es hx).2.2)
          exact ⟨this, this⟩
      all_goals simp at h
    · split at h
      · split at h
        · simp [idxErr] at h
        · simp at h; obtain ⟨rfl, rfl⟩ := h; split <;> simp [hx]
      all_goals simp at h
    · split at h
      · split at h
        · simp [idxErr] at h
        · simp at h; obtain ⟨rfl, rfl⟩ := h; simp
      all_goals simp at h
    · simp at h

theorem mkETy_nil (t : Ty) (L : Nat) : mkETy t [] L = ⟨t.major, normMinor t, [], L⟩ := by
  unfold mkETy; simp

/-- the implementation type of a value that has the (non-tuple) element type of a table -/
theorem type_of_ety (P) (v : Val) (t : Ty) (d : List Ty) (hnt : t.major ≠ .tup)
    (h : etyOf v = elemETy t d) (hu : uniformP P v = true) :
    v.type.major = t.major ∧ normMinor v.type = normMinor t ∧ v.type.level = t.level - 1 := by
  unfold elemETy at h
  rw [mkETy_nontup t d _ hnt] at h
  cases v with
  | tup ad items =>
    rw [uniformP_tup] at hu
    simp at hu
    have : etyOf (.tup ad items) = mkETy (makeTupleTy ad 0) ad 0 := rfl
    rw [this, mkETy_tup _ ad 0 (makeTupleTy_major ad 0) hu.1.1.1] at h
    injection h with h1
    exact absurd h1.symm hnt
  | tab at_ ad es =>
    have : etyOf (.tab at_ ad es) = mkETy at_ ad at_.level := rfl
    rw [this] at h
    by_cases hc : at_.major = .tup ∧ ad ≠ []
    · rw [mkETy_tup at_ ad _ hc.1 hc.2] at h
      injection h with h1
      exact absurd h1.symm hnt
    · have : mkETy at_ ad at_.level = ⟨at_.major, normMinor at_, [], at_.level⟩ := by
        unfold mkETy
        by_cases h1 : at_.major = .tup
        · have : ad = [] := by
            by_cases h2 : ad = []
            · exact h2
            · exact absurd ⟨h1, h2⟩ hc
          simp [this]
        · simp [h1]
      rw [this] at h
      injection h with h1 h2 h3 h4
      exact ⟨h1, h2, h4⟩
  | null ty =>
    have : etyOf (.null ty) = mkETy ty [] ty.level := rfl
    rw [this, mkETy_nil] at h
    injection h with h1 h2 h3 h4
    exact ⟨h1, h2, h4⟩
  | bool b =>
    have : etyOf (.bool b) = mkETy Ty.bool [] 0 := rfl
    rw [this, mkETy_nil] at h
    injection h with h1 h2 h3 h4
    exact ⟨h1, h2, h4⟩
  | int b =>
    have : etyOf (.int b) = mkETy Ty.int [] 0 := rfl
    rw [this, mkETy_nil] at h
    injection h with h1 h2 h3 h4
    exact ⟨h1, h2, h4⟩
  | num b =>
    have : etyOf (.num b) = mkETy Ty.num [] 0 := rfl
    rw [this, mkETy_nil] at h
    injection h with h1 h2 h3 h4
    exact ⟨h1, h2, h4⟩
  | imag b c =>
    have : etyOf (.imag b c) = mkETy Ty.imag [] 0 := rfl
    rw [this, mkETy_nil] at h
    injection h with h1 h2 h3 h4
    exact ⟨h1, h2, h4⟩
  | str b =>
    have : etyOf (.str b) = mkETy Ty.str [] 0 := rfl
    rw [this, mkETy_nil] at h
    injection h with h1 h2 h3 h4
    exact ⟨h1, h2, h4⟩
  | raw b =>
    have : etyOf (.raw b) = mkETy Ty.raw [] 0 := rfl
    rw [this, mkETy_nil] at h
    injection h with h1 h2 h3 h4
    exact ⟨h1, h2, h4⟩
  | obj tid id =>
    have : etyOf (.obj tid id) = mkETy { major := .obj, minor := tid } [] 0 := rfl
    rw [this, mkETy_nil] at h
    injection h with h1 h2 h3 h4
    exact ⟨h1, h2, h4⟩

theorem mPut_preserves (P) (hinj : Inj P) (x a0 a1 c r x') (hx : uniformP P x = true) (ha : uniformP P a1 = true)
    (hreg : ∀ t d es, x = .tab t d es → KF.levelBug t a1 = false)
    (h : mPut x a0 a1 c = .ok (r, x')) : uniformP P r = true ∧ uniformP P x' = true := by
  unfold mPut at h
  split at h
  · simp [idxErr] at h
  · split at h
    · rename_i t d es _
      obtain ⟨hh, hp, hes⟩ := tab_parts P t d es hx
      split at h
      · split at h
        · simp [idxErr] at h
        · split at h
          · simp [idxErr] at h
          · rename_i old hold
            have hold' := uniformAll_getElem? P _ es _ old hes hold
            split at h
            · rename_i v hc
              simp at h; obtain ⟨rfl, rfl⟩ := h
              have hs := (classify_sound P hinj .put t d a1 old.type hh hp ha (hreg t d es rfl)
                (fun hnt => type_of_ety P old t d hnt hold'.1 hold'.2)).1 v hc
              have := tab_build P t d es _ hx (uniformAll_listPut P _ es (idxOf ‹_›) v hes hs.1 hs.2)
              exact ⟨this, this⟩
            all_goals simp [tyMismatch] at h
      all_goals simp at h
    · split at h
      · split at h
        · simp [idxErr] at h
        · split at h
          · simp [tyMismatch] at h
          · split at h
            · simp at h; obtain ⟨rfl, rfl⟩ := h; split <;> simp [hx]
            all_goals simp at h
      all_goals simp at h
    · split at h
      · split at h
        · simp [idxErr] at h
        · split at h
          · simp [tyMismatch] at h
          · split at h
            · simp at h; obtain ⟨rfl, rfl⟩ := h; simp
            all_goals simp at h
      all_goals simp at h
    · simp at h

theorem levelDown_fields (t : Ty) : t.levelDown.major = t.major ∧ normMinor t.levelDown = normMinor t ∧ t.levelDown.level = t.level - 1 := by
  simp [Ty.levelDown, normMinor]

theorem insRaw_preserves (P x s a0 a1 r x') (hx : uniformP P x = true)
    (h : insRaw x s a0 a1 = .ok (r, x')) : uniformP P r = true ∧ uniformP P x' = true := by
  unfold insRaw at h
  split at h
  · split at h
    · simp [idxErr] at h
    · split at h
      · simp at h; obtain ⟨rfl, rfl⟩ := h; exact ⟨hx, hx⟩
      · split at h
        · split at h
          · simp at h; obtain ⟨rfl, rfl⟩ := h; simp
          all_goals simp at h
        · split at h
          · simp at h; obtain ⟨rfl, rfl⟩ := h; simp
          all_goals simp at h
        · split at h
          · simp at h; obtain ⟨rfl, rfl⟩ := h; simp
          all_goals simp at h
        · simp at h
  all_goals simp at h

theorem mInsert_preserves (P) (hinj : Inj P) (x a0 a1 c r x') (hx : uniformP P x = true) (ha : uniformP P a1 = true)
    (hreg : ∀ t d es, x = .tab t d es → KF.levelBug t a1 = false)
    (h : mInsert x a0 a1 c = .ok (r, x')) : uniformP P r = true ∧ uniformP P x' = true := by
  unfold mInsert at h
  split at h
  · simp [idxErr] at h
  · split at h
    · rename_i t d es _
      obtain ⟨hh, hp, hes⟩ := tab_parts P t d es hx
      have hs := classify_sound P hinj .insert t d a1 t.levelDown hh hp ha (hreg t d es rfl)
        (fun _ => levelDown_fields t)
      split at h
      · split at h
        · simp [idxErr] at h
        · split at h
          · rename_i v hc
            simp at h; obtain ⟨rfl, rfl⟩ := h
            have hv := hs.1 v hc
            have := tab_build P t d es _ hx (uniformAll_listIns P _ es [v] (idxOf ‹_›) hes
              (uniformAll_single P _ v hv.1 hv.2))
            exact ⟨this, this⟩
          · rename_i vs hc
            simp at h; obtain ⟨rfl, rfl⟩ := h
            have hv := hs.2 vs hc
            have := tab_build P t d es _ hx (uniformAll_listIns P _ es vs.reverse (idxOf ‹_›) hes
              (by rw [uniformAll_reverse]; exact hv))
            exact ⟨this, this⟩
          · simp at h; obtain ⟨rfl, rfl⟩ := h; exact ⟨hx, hx⟩
          all_goals simp [tyMismatch] at h
      all_goals simp at h
    · split at h
      · split at h
        · simp [idxErr] at h
        · split at h
          · simp at h; obtain ⟨rfl, rfl⟩ := h; exact ⟨hx, hx⟩
          · split at h
            · split at h
              · simp at h; obtain ⟨rfl, rfl⟩ := h; split <;> simp [hx]
              all_goals simp at h
            · split at h
              · simp at h; obtain ⟨rfl, rfl⟩ := h; split <;> simp [hx]
              all_goals simp at h
            · simp at h
      all_goals simp at h
    · exact insRaw_preserves P _ _ a0 a1 r x' hx h
    · simp at h

theorem concatRawCase_preserves (P x a0 r x') (_hx : uniformP P x = true) (ha : uniformP P a0 = true)
    (h : concatRawCase x a0 = .ok (r, x')) : uniformP P r = true ∧ uniformP P x' = true := by
  unfold concatRawCase at h
  split at h
  · split at h
    · simp at h; obtain ⟨rfl, rfl⟩ := h; exact ⟨ha, ha⟩
    · split at h
      · split at h
        · simp at h; obtain ⟨rfl, rfl⟩ := h; simp
        all_goals simp at h
      all_goals simp at h
  · split at h
    · split at h
      · simp at h; obtain ⟨rfl, rfl⟩ := h; simp
      · split at h
        · simp at h; obtain ⟨rfl, rfl⟩ := h; simp
        all_goals simp at h
    all_goals simp at h
  · split at h
    · split at h
      · simp at h; obtain ⟨rfl, rfl⟩ := h; simp
      · split at h
        · simp at h; obtain ⟨rfl, rfl⟩ := h; simp
        all_goals simp at h
    all_goals simp at h
  · simp at h

theorem mConcat_preserves (P) (hinj : Inj P) (x a0 c r x') (hx : uniformP P x = true) (ha : uniformP P a0 = true)
    (hreg : ∀ t d es, x = .tab t d es → KF.levelBug t a0 = false)
    (h : mConcat x a0 c = .ok (r, x')) : uniformP P r = true ∧ uniformP P x' = true := by
  unfold mConcat at h
  split at h
  · split at h
    · rename_i t d es _
      obtain ⟨hh, hp, hes⟩ := tab_parts P t d es hx
      have hs := classify_sound P hinj .concat t d a0 t.levelDown hh hp ha (hreg t d es rfl)
        (fun _ => levelDown_fields t)
      split at h
      · rename_i v hc
        simp at h; obtain ⟨rfl, rfl⟩ := h
        have hv := hs.1 v hc
        have := tab_build P t d es (es ++ [v]) hx (by
          rw [uniformAll_append]; simp [hes, uniformAll_single P _ v hv.1 hv.2])
        exact ⟨this, this⟩
      · rename_i vs hc
        simp at h; obtain ⟨rfl, rfl⟩ := h
        have hv := hs.2 vs hc
        have := tab_build P t d es (es ++ vs) hx (by rw [uniformAll_append]; simp [hes, hv])
        exact ⟨this, this⟩
      · simp at h; obtain ⟨rfl, rfl⟩ := h; exact ⟨hx, hx⟩
      all_goals simp [tyMismatch] at h
    · -- null table receiver
      split at h
      · split at h
        · simp at h; obtain ⟨rfl, rfl⟩ := h; exact ⟨hx, hx⟩
        · simp at h; obtain ⟨rfl, rfl⟩ := h; exact ⟨ha, ha⟩
      · rename_i hl0
        split at h
        · split at h
          · rename_i decl items _
            simp at h; obtain ⟨rfl, rfl⟩ := h
            have hu := ha
            rw [uniformP_tup] at hu
            simp at hu
            have hd : decl ≠ [] := hu.1.1.1
            have : uniformP P (.tab (makeTupleTy decl 1) decl [.tup decl items]) = true := by
              rw [uniformP_tab]
              simp only [Bool.and_eq_true]
              refine ⟨⟨?_, ?_⟩, ?_⟩
              · rw [headerOk_iff]
                refine ⟨by rw [makeTupleTy_level]; omega, by rw [makeTupleTy_level]; omega, by rw [makeTupleTy_major]; simp, ?_⟩
                left
                exact ⟨makeTupleTy_major decl 1, hd, by rw [makeTupleTy_level]⟩
              · simp [hu.1.2]
              · apply uniformAll_single _ _ _ _ ha
                show mkETy (makeTupleTy decl 0) decl 0 = elemETy (makeTupleTy decl 1) decl
                unfold elemETy
                rw [mkETy_tup _ decl 0 (makeTupleTy_major decl 0) hd, mkETy_tup _ decl _ (makeTupleTy_major decl 1) hd,
                  makeTupleTy_level]
            exact ⟨this, this⟩
          · simp at h; obtain ⟨rfl, rfl⟩ := h; exact ⟨hx, hx⟩
        · rename_i hnt
          split at h
          · simp at h; obtain ⟨rfl, rfl⟩ := h; exact ⟨hx, hx⟩
          · rename_i hnn
            simp at h; obtain ⟨rfl, rfl⟩ := h
            have hnt' : a0.type.major ≠ .tup := by simpa using hnt
            have hnn' : a0.type.major ≠ .none := by simpa using hnn
            have hlv : a0.type.level = 0 := by omega
            have : uniformP P (.tab a0.type.levelUp [] [a0]) = true := by
              rw [uniformP_tab]
              simp only [Bool.and_eq_true]
              refine ⟨⟨?_, ?_⟩, ?_⟩
              · rw [headerOk_iff]
                refine ⟨by simp [Ty.levelUp], by simp [Ty.levelUp, hlv], by simpa [Ty.levelUp] using hnn', ?_⟩
                right
                exact ⟨by simpa [Ty.levelUp] using hnt', rfl⟩
              · simp [Ty.levelUp, hnt']
              · apply uniformAll_single _ _ _ _ ha
                have hup : a0.type.levelUp.major ≠ .tup := by simpa [Ty.levelUp] using hnt'
                have e : etyOf a0 = mkETy a0.type [] a0.type.level := by
                  cases a0 with
                  | tup dd ii => simp [Val.type, makeTupleTy_major] at hnt'
                  | tab tt dd ee =>
                    rw [uniformP_tab] at ha
                    simp only [Bool.and_eq_true] at ha
                    have := (headerOk_iff tt dd).1 ha.1.1
                    simp [Val.type] at hlv
                    omega
                  | _ => rfl
                rw [e]
                unfold elemETy
                rw [mkETy_nontup _ [] _ hnt', mkETy_nontup _ [] _ hup, hlv]
                simp [Ty.levelUp, normMinor, hlv]
            exact ⟨this, this⟩
  · split at h
    · simp at h; obtain ⟨rfl, rfl⟩ := h; exact ⟨hx, hx⟩
    · split at h
      · -- untyped null receiver
        split at h
        · simp at h; obtain ⟨rfl, rfl⟩ := h; exact ⟨ha, by split <;> assumption⟩
        · split at h
          · split at h
            · simp at h
            · split at h <;> (simp at h; obtain ⟨rfl, rfl⟩ := h; refine ⟨by simp, ?_⟩; split <;> simp [hx])
          all_goals simp at h
        · simp at h
      · -- string receiver
        split at h
        · split at h
          · split at h
            · split at h
              · simp at h; obtain ⟨rfl, rfl⟩ := h; simp [hx]
              all_goals simp at h
            · simp at h; obtain ⟨rfl, rfl⟩ := h; exact ⟨ha, ha⟩
          · split at h
            · simp at h; obtain ⟨rfl, rfl⟩ := h; split <;> simp [hx]
            all_goals simp at h
        · split at h
          · split at h
            · simp at h; obtain ⟨rfl, rfl⟩ := h; split <;> simp [hx]
            · split at h
              · simp at h; obtain ⟨rfl, rfl⟩ := h; split <;> simp [hx]
              all_goals simp at h
          all_goals simp at h
        · exact concatRawCase_preserves P x a0 r x' hx ha h
      · exact concatRawCase_preserves P x a0 r x' hx ha h
      · simp at h

/-! ### tuples -/

theorem map_listPut {α β} (f : α → β) (l : List α) (n : Nat) (v : α) :
    (listPut l n v).map f = listPut (l.map f) n (f v) := by
  unfold listPut; simp [List.map_take, List.map_drop]

theorem listPut_self {α} (l : List α) (n : Nat) (y : α) (h : l[n]? = some y) : listPut l n y = l := by
  unfold listPut
  induction l generalizing n with
  | nil => simp at h
  | cons x xs ih =>
    cases n with
    | zero => simp at h; simp [h]
    | succ k => simp at h; simpa using ih k h

theorem listPut_eq_set {α} (l : List α) (n : Nat) (x : α) (h : n < l.length) : listPut l n x = l.set n x := by
  unfold listPut
  induction l generalizing n with
  | nil => simp at h
  | cons y ys ih =>
    cases n with
    | zero => simp
    | succ k => simp at h; simp [ih k h]

theorem length_listPut {α} (l : List α) (n : Nat) (y : α) (h : n < l.length) : (listPut l n y).length = l.length := by
  unfold listPut; simp; omega

theorem all_listPut {α} (p : α → Bool) (l : List α) (n : Nat) (y : α) (h : l.all p = true) (hy : p y = true) :
    (listPut l n y).all p = true := by
  unfold listPut
  rw [List.all_append, List.all_cons]
  have h1 : (l.take n).all p = true := by
    rw [List.all_eq_true] at h ⊢; intro x hx; exact h x (List.mem_of_mem_take hx)
  have h2 : (l.drop (n + 1)).all p = true := by
    rw [List.all_eq_true] at h ⊢; intro x hx; exact h x (List.mem_of_mem_drop hx)
  simp [h1, h2, hy]

theorem scalarVal_of_type (P) (a : Val) (hu : uniformP P a = true) (hs : scalarTy a.type = true) : scalarVal a = true := by
  cases a with
  | tup d items =>
    simp [scalarTy, Val.type, makeTupleTy_major, makeTupleTy_level] at hs
  | tab t d es =>
    rw [uniformP_tab] at hu
    simp only [Bool.and_eq_true] at hu
    have := (headerOk_iff t d).1 hu.1.1
    simp [scalarTy, Val.type] at hs
    omega
  | _ => exact hs

theorem mixItem_some (dt a oldTy v) (h : mixItem dt a oldTy = .ok (some v)) :
    (dt.major = .int ∧ ((∃ i, v = .int i) ∨ v = .null Ty.int))
    ∨ (dt.major = .num ∧ ((∃ x, v = .num x) ∨ v = .null Ty.num))
    ∨ v = .null oldTy := by
  unfold mixItem at h
  split at h
  · rename_i hm
    left
    split at h
    · split at h
      · simp at h; exact ⟨hm, Or.inr h.symm⟩
      · split at h
        · split at h
          · simp at h; exact ⟨hm, Or.inl ⟨_, h.symm⟩⟩
          all_goals simp at h
        all_goals simp at h
    · split at h
      · simp at h; exact ⟨hm, Or.inr h.symm⟩
      · simp at h
  · rename_i hm
    right; left
    split at h
    · split at h
      · simp at h; exact ⟨hm, Or.inr h.symm⟩
      · split at h
        · simp at h; exact ⟨hm, Or.inl ⟨_, h.symm⟩⟩
        all_goals simp at h
    · split at h
      · simp at h; exact ⟨hm, Or.inr h.symm⟩
      · simp at h
  · right; right
    split at h
    · simp at h; exact h.symm
    · simp at h

theorem scalarTy_int (dt : Ty) (hs : scalarTy dt = true) (hm : dt.major = .int) : dt = Ty.int := by
  cases dt with
  | mk major minor level =>
    simp at hm; subst hm
    simp [scalarTy] at hs
    simp [Ty.int, hs.1, hs.2]

theorem scalarTy_num (dt : Ty) (hs : scalarTy dt = true) (hm : dt.major = .num) : dt = Ty.num := by
  cases dt with
  | mk major minor level =>
    simp at hm; subst hm
    simp [scalarTy] at hs
    simp [Ty.num, hs.1, hs.2]

/-- `set@`: a successful call returns the tuple itself, with the same declaration, the same number of
items, each item still of its declared type. -/
theorem setItemV_preserves (P) (x : Val) (idx : Nat) (a0 r x' : Val) (hx : uniformP P x = true) (ha : uniformP P a0 = true)
    (h : setItemV x idx a0 = .ok (r, x')) :
    r = x' ∧ uniformP P x' = true ∧
      ∃ decl items items', x = .tup decl items ∧ x' = .tup decl items' ∧ items'.length = items.length ∧
        items'.map Val.type = decl := by
  unfold setItemV at h
  split at h
  · simp [idxErr] at h
  · split at h
    · rename_i decl items _
      have hu := hx
      rw [uniformP_tup] at hu
      simp only [Bool.and_eq_true, beq_iff_eq] at hu
      obtain ⟨⟨⟨hd, hsc⟩, hP⟩, hmap, hall⟩ := hu
      split at h
      · simp at h
      · split at h
        · rename_i hidx
          split at h
          · rename_i dt old hdt hold
            have hold_ty : old.type = dt := by
              have : (items.map Val.type)[idx]? = some old.type := by simp [hold]
              rw [hmap, hdt] at this; exact (Option.some.inj this).symm
            have hdts : scalarTy dt = true := by
              rw [List.all_eq_true] at hsc
              exact hsc dt (List.mem_of_getElem? hdt)
            have hlen : idx < items.length := by
              have := congrArg List.length hmap; simp at this; omega
            have build : ∀ v : Val, v.type = dt → scalarVal v = true →
                uniformP P (.tup decl (listPut items idx v)) = true ∧ (listPut items idx v).map Val.type = decl := by
              intro v hv hsv
              have hm : (listPut items idx v).map Val.type = decl := by
                rw [map_listPut, hmap, hv]; exact listPut_self decl idx dt hdt
              refine ⟨?_, hm⟩
              rw [uniformP_tup]
              simp only [Bool.and_eq_true, beq_iff_eq]
              exact ⟨⟨⟨hd, hsc⟩, hP⟩, hm, all_listPut _ items idx v hall hsv⟩
            split at h
            · rename_i heq
              simp at h; obtain ⟨rfl, rfl⟩ := h
              have heq' : a0.type = dt := by simpa using (Eq.symm (by simpa using heq))
              have hb := build a0 heq' (scalarVal_of_type P a0 ha (by rw [heq']; exact hdts))
              exact ⟨rfl, hb.1, decl, items, _, rfl, rfl, length_listPut items idx a0 hlen, hb.2⟩
            · split at h
              · rename_i v hmx
                simp at h; obtain ⟨rfl, rfl⟩ := h
                have hv : v.type = dt ∧ scalarVal v = true := by
                  rcases mixItem_some dt a0 old.type v hmx with ⟨hm, hv⟩ | ⟨hm, hv⟩ | hv
                  · have := scalarTy_int dt hdts hm
                    rcases hv with ⟨i, hv⟩ | hv <;> subst hv <;> subst this <;> exact ⟨rfl, rfl⟩
                  · have := scalarTy_num dt hdts hm
                    rcases hv with ⟨i, hv⟩ | hv <;> subst hv <;> subst this <;> exact ⟨rfl, rfl⟩
                  · subst hv
                    refine ⟨hold_ty, ?_⟩
                    show scalarTy old.type = true
                    rw [hold_ty]; exact hdts
                have hb := build v hv.1 hv.2
                exact ⟨rfl, hb.1, decl, items, _, rfl, rfl, length_listPut items idx v hlen, hb.2⟩
              all_goals simp [tyMismatch] at h
          · simp at h
        · simp [idxErr] at h
    · simp at h

/-! ### positions -/

/-- the model's outcome satisfies a Spec outcome -/
def Sat (r : Res (Val × Val)) : SOut → Prop
  | .ok res x => r = .ok (res, x)
  | .reject .index => r = .err Gen.EXC_RT_INDEX_RANGE_S
  | .reject .range => r = .err Gen.EXC_RT_OUT_OF_RANGE
  | .reject _ => ∃ c a, r = .err c a
  | .either res x => r = .ok (res, x) ∨ ∃ c a, r = .err c a

/-- how the model reads a position: the Spec's `pos`, with INDEX_RANGE for null and out-of-range
integers and NOT_INTEGER for everything that is not an integer. -/
theorem asInt_of_pos (P) (p : Val) (n : Nat) (hp : uniformP P p = true) :
    (∃ i, p = .int i ∧ p.isNull = false ∧ p.asInt = .ok i ∧
        Spec.pos p n = (if 0 ≤ i.toInt ∧ i.toInt < (n : Int) then .ok i.toInt.toNat else .error .index)) ∨
    (p.isNull = true ∧ Spec.pos p n = .error .index) ∨
    (p.isNull = false ∧ p.asInt = .err Gen.EXC_RT_NOT_INTEGER ∧ Spec.pos p n = .error .any) := by
  cases p with
  | int i => left; exact ⟨i, rfl, rfl, rfl, rfl⟩
  | null t => right; left; exact ⟨rfl, rfl⟩
  | tab t d es =>
    right; right
    have := (headerOk_iff t d).1 (tab_parts P t d es hp).1
    refine ⟨rfl, ?_, rfl⟩
    unfold Val.asInt
    have : t.level ≠ 0 := by omega
    simp [Val.type, this]
  | tup d items => right; right; exact ⟨rfl, by simp [Val.asInt, Val.type, makeTupleTy_major], rfl⟩
  | bool b => right; right; exact ⟨rfl, rfl, rfl⟩
  | num b => right; right; exact ⟨rfl, rfl, rfl⟩
  | imag a b => right; right; exact ⟨rfl, rfl, rfl⟩
  | str b => right; right; exact ⟨rfl, rfl, rfl⟩
  | raw b => right; right; exact ⟨rfl, rfl, rfl⟩
  | obj a b => right; right; exact ⟨rfl, rfl, rfl⟩

end BlocV.C09
