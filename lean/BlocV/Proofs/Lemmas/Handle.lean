/-
  Helper lemmas for Proofs/C17.lean: the invariant of the handle reference counter (Model/Plugin.lean, part H) and
  its preservation by the five primitive state changes out of which every operation of complex.cpp is composed; the
  ownership invariant of the store level (part S): every handle not yet destructed belongs to a live context.
-/
import BlocV.Model.Plugin

set_option linter.unusedSimpArgs false

namespace BlocV.Proofs.Handle
open BlocV.Plugin BlocV.Plugin.H

/-- The invariant: handles only point to created objects; the counter of a not yet destroyed object equals the number
of live handles sharing it, is positive, and the module has not been asked to destroy it; a destroyed object has no
handle left and was destroyed exactly once. -/
structure Inv (s : HState) : Prop where
  bound : ∀ o, Slot.ref o ∈ s.slots → o < s.nobj
  live : ∀ o, o < s.nobj → s.freed o = false → s.cnt o = (refs s o : Int) ∧ 0 < refs s o ∧ s.destroyed o = 0
  dead : ∀ o, o < s.nobj → s.freed o = true → refs s o = 0 ∧ s.destroyed o = 1

theorem count_set' (l : List Slot) (i : Nat) (c x : Slot) (h : i < l.length) :
    (l.set i c).count x = l.count x - (if l[i] = x then 1 else 0) + (if c = x then 1 else 0) := by
  rw [List.count_set h]; simp

theorem count_le_of_getElem (l : List Slot) (i : Nat) (h : i < l.length) : 1 ≤ l.count l[i] := by
  have : l[i] ∈ l := List.getElem_mem h
  exact List.count_pos_iff.mpr this

theorem getElem?_lt {l : List Slot} {i : Nat} {c : Slot} (h : l[i]? = some c) : i < l.length := by
  rcases Nat.lt_or_ge i l.length with h1 | h1
  · exact h1
  · rw [List.getElem?_eq_none h1] at h; cases h

theorem getElem_of_some {l : List Slot} {i : Nat} {c : Slot} (h : l[i]? = some c) : l[i]'(getElem?_lt h) = c := by
  have := List.getElem?_eq_getElem (getElem?_lt h)
  rw [this] at h; exact Option.some.inj h

theorem init_inv : Inv HState.init := by
  constructor
  · intro o h; simp [HState.init] at h
  · intro o h; simp [HState.init] at h
  · intro o h; simp [HState.init] at h

/-- Changing handles without changing how many of them share each object keeps the invariant. -/
theorem inv_of_counts {s : HState} (hi : Inv s) (sl : List Slot)
    (hc : ∀ o, sl.count (.ref o) = s.slots.count (.ref o)) : Inv { s with slots := sl } := by
  constructor
  · intro o hm
    have h1 : 0 < sl.count (.ref o) := List.count_pos_iff.mpr hm
    rw [hc] at h1
    exact hi.bound o (List.count_pos_iff.mp h1)
  · intro o ho hf
    have := hi.live o ho hf
    simp only [refs] at *
    rw [hc]; exact this
  · intro o ho hf
    have := hi.dead o ho hf
    simp only [refs] at *
    rw [hc]; exact this

/-- `drop` on a handle sharing `o`: succeeds, the handle becomes null, everything else as the code does. -/
theorem drop_spec {s : HState} (hi : Inv s) {i o : Nat} (h : s.slots[i]? = some (.ref o)) :
    ∃ s', drop s i = .ok s' ∧ Inv s' ∧ s'.slots = s.slots.set i .null ∧ s'.nobj = s.nobj ∧
      (∀ x, x ≠ o → s'.destroyed x = s.destroyed x ∧ s'.freed x = s.freed x) ∧
      (s'.destroyed o = s.destroyed o ∨ (s'.destroyed o = s.destroyed o + 1 ∧ s.cnt o = 1 ∧ refs s o = 1 ∧ s'.freed o = true)) := by
  have hlt := getElem?_lt h
  have hget := getElem_of_some h
  have hmem : Slot.ref o ∈ s.slots := by rw [← hget]; exact List.getElem_mem hlt
  have ho := hi.bound o hmem
  have hnf : s.freed o = false := by
    cases hf : s.freed o with
    | false => rfl
    | true =>
      have := (hi.dead o ho hf).1
      have h1 : 0 < refs s o := List.count_pos_iff.mpr hmem
      omega
  obtain ⟨hcnt, hpos, hd0⟩ := hi.live o ho hnf
  have hcount : ∀ x, (s.slots.set i .null).count (.ref x) = s.slots.count (.ref x) - (if x = o then 1 else 0) := by
    intro x
    rw [count_set' _ _ _ _ hlt, hget]
    by_cases hx : x = o
    · subst hx; simp
    · have : ¬ (Slot.ref o = Slot.ref x) := by intro e; injection e with e; exact hx e.symm
      simp [this, hx]
  unfold drop
  rw [h]
  simp only [hnf]
  by_cases hz : s.cnt o - 1 = 0
  · simp only [hz, ↓reduceIte]
    refine ⟨_, rfl, ?_, rfl, rfl, ?_, ?_⟩
    · constructor
      · intro x hm
        have h1 : 0 < (s.slots.set i .null).count (.ref x) := List.count_pos_iff.mpr hm
        rw [hcount] at h1
        have : 0 < s.slots.count (.ref x) := by omega
        exact hi.bound x (List.count_pos_iff.mp this)
      · intro x hx hf
        by_cases hxo : x = o
        · subst hxo; simp [upd] at hf
        · simp only [upd, hxo, ↓reduceIte] at hf ⊢
          have := hi.live x hx hf
          simp only [refs] at this ⊢
          rw [hcount]; simp only [hxo, ↓reduceIte, Nat.sub_zero, Nat.add_zero]; exact this
      · intro x hx hf
        by_cases hxo : x = o
        · subst hxo
          simp only [refs] at hcnt hpos ⊢
          rw [hcount]
          simp only [upd, ↓reduceIte]
          constructor <;> omega
        · simp only [upd, hxo, ↓reduceIte] at hf ⊢
          have := hi.dead x hx hf
          simp only [refs] at this ⊢
          rw [hcount]; simp only [hxo, ↓reduceIte, Nat.sub_zero, Nat.add_zero]; exact this
    · intro x hx; simp [upd, hx]
    · right
      simp only [upd, ↓reduceIte, refs] at hcnt ⊢
      refine ⟨trivial, by omega, by omega, trivial⟩
  · simp only [hz, ↓reduceIte]
    refine ⟨_, rfl, ?_, rfl, rfl, ?_, ?_⟩
    · constructor
      · intro x hm
        have h1 : 0 < (s.slots.set i .null).count (.ref x) := List.count_pos_iff.mpr hm
        rw [hcount] at h1
        have : 0 < s.slots.count (.ref x) := by omega
        exact hi.bound x (List.count_pos_iff.mp this)
      · intro x hx hf
        by_cases hxo : x = o
        · subst hxo
          simp only [refs] at hcnt hpos ⊢
          rw [hcount]
          simp only [upd, ↓reduceIte]
          refine ⟨by omega, by omega, hd0⟩
        · simp only [upd, hxo, ↓reduceIte] at hf ⊢
          have := hi.live x hx hf
          simp only [refs] at this ⊢
          rw [hcount]; simp only [hxo, ↓reduceIte, Nat.sub_zero, Nat.add_zero]; exact this
      · intro x hx hf
        by_cases hxo : x = o
        · subst hxo; rw [hnf] at hf; cases hf
        · have := hi.dead x hx hf
          simp only [refs] at this ⊢
          rw [hcount]; simp only [hxo, ↓reduceIte, Nat.sub_zero, Nat.add_zero]; exact this
    · intro x hx; exact ⟨rfl, rfl⟩
    · left; rfl

/-- `acquire` on a null handle for an object that some other handle still shares. -/
theorem acquire_spec {s : HState} (hi : Inv s) {i o : Nat} (h : s.slots[i]? = some .null)
    (hmem : Slot.ref o ∈ s.slots) :
    ∃ s', acquire s i o = .ok s' ∧ Inv s' ∧ s'.slots = s.slots.set i (.ref o) ∧ s'.nobj = s.nobj ∧
      s'.destroyed = s.destroyed ∧ s'.freed = s.freed ∧ 2 ≤ s'.cnt o := by
  have hlt := getElem?_lt h
  have hget := getElem_of_some h
  have ho := hi.bound o hmem
  have hnf : s.freed o = false := by
    cases hf : s.freed o with
    | false => rfl
    | true =>
      have := (hi.dead o ho hf).1
      have h1 : 0 < refs s o := List.count_pos_iff.mpr hmem
      omega
  obtain ⟨hcnt, hpos, hd0⟩ := hi.live o ho hnf
  have hcount : ∀ x, (s.slots.set i (.ref o)).count (.ref x) = s.slots.count (.ref x) + (if x = o then 1 else 0) := by
    intro x
    rw [count_set' _ _ _ _ hlt, hget]
    by_cases hx : x = o
    · subst hx; simp
    · have : ¬ (Slot.ref o = Slot.ref x) := by intro e; injection e with e; exact hx e.symm
      simp [this, hx]
  unfold acquire
  simp only [hnf]
  refine ⟨_, rfl, ?_, rfl, rfl, rfl, rfl, ?_⟩
  · constructor
    · intro x hm
      by_cases hxo : x = o
      · subst hxo; exact ho
      · have h1 : 0 < (s.slots.set i (.ref o)).count (.ref x) := List.count_pos_iff.mpr hm
        rw [hcount] at h1
        simp only [hxo, ↓reduceIte, Nat.add_zero] at h1
        exact hi.bound x (List.count_pos_iff.mp h1)
    · intro x hx hf
      by_cases hxo : x = o
      · subst hxo
        simp only [refs] at hcnt hpos ⊢
        rw [hcount]
        simp only [upd, ↓reduceIte]
        refine ⟨by omega, by omega, hd0⟩
      · simp only [upd, hxo, ↓reduceIte]
        have := hi.live x hx hf
        simp only [refs] at this ⊢
        rw [hcount]; simp only [hxo, ↓reduceIte, Nat.sub_zero, Nat.add_zero]; exact this
    · intro x hx hf
      by_cases hxo : x = o
      · subst hxo; rw [hnf] at hf; cases hf
      · have := hi.dead x hx hf
        simp only [refs] at this ⊢
        rw [hcount]; simp only [hxo, ↓reduceIte, Nat.sub_zero, Nat.add_zero]; exact this
  · simp only [upd, ↓reduceIte, refs] at hcnt hpos ⊢
    omega

set_option linter.unusedVariables false

/-! ### list facts used below -/

theorem liveSlot_some {s : HState} {i : Nat} {c : Slot} (h : liveSlot s i = some c) :
    s.slots[i]? = some c ∧ c ≠ .gone := by
  unfold liveSlot at h
  split at h
  · cases h
  · rename_i r hne
    constructor
    · exact h
    · intro hc; subst hc; exact hne h

theorem swap_counts (l : List Slot) (i j : Nat) (a b : Slot) (hi : l[i]? = some a) (hj : l[j]? = some b) (x : Slot) :
    ((l.set i b).set j a).count x = l.count x := by
  have hil := getElem?_lt hi
  have hjl := getElem?_lt hj
  have hia := getElem_of_some hi
  have hjb := getElem_of_some hj
  by_cases hij : i = j
  · subst hij
    have hab : a = b := by rw [← hia, ← hjb]
    subst hab
    have h1 : l.set i a = l := by rw [← hia]; exact List.set_getElem_self hil
    rw [h1, h1]
  · have hjl' : j < (l.set i b).length := by rw [List.length_set]; exact hjl
    rw [count_set' _ _ _ _ hjl', count_set' _ _ _ _ hil]
    have hg : (l.set i b)[j]'hjl' = b := by rw [List.getElem_set]; simp [hij, hjb]
    rw [hg, hia]
    have ha1 := count_le_of_getElem l i hil
    have hb1 := count_le_of_getElem l j hjl
    rw [hia] at ha1; rw [hjb] at hb1
    by_cases hax : a = x <;> by_cases hbx : b = x
    · subst hax; subst hbx; simp only [↓reduceIte]; omega
    · subst hax; simp only [hbx, ↓reduceIte]; omega
    · subst hbx; simp only [hax, ↓reduceIte]; omega
    · simp only [hax, hbx, ↓reduceIte]; omega

theorem set_same_counts (l : List Slot) (i : Nat) (a c : Slot) (hi : l[i]? = some a)
    (ha : ∀ o, a ≠ .ref o) (hc : ∀ o, c ≠ .ref o) (o : Nat) : (l.set i c).count (.ref o) = l.count (.ref o) := by
  have hil := getElem?_lt hi
  rw [count_set' _ _ _ _ hil, getElem_of_some hi]
  simp [ha o, hc o]

/-! ### one operation -/

/-- What one operation of complex.cpp does to the invariant and to the destroy counts. -/
theorem step_spec {s s' : HState} (hinv : Inv s) (op : HOp) (h : step s op = .ok s') :
    Inv s' ∧ s.nobj ≤ s'.nobj ∧
    ∀ o, o < s.nobj → (s'.destroyed o = s.destroyed o ∧ s'.freed o = s.freed o) ∨
      (s'.destroyed o = s.destroyed o + 1 ∧ s.cnt o = 1 ∧ refs s o = 1 ∧ s'.freed o = true) := by
  cases op with
  | new =>
    simp only [step] at h
    injection h with h; subst h
    refine ⟨?_, Nat.le_succ _, ?_⟩
    · have hz : s.slots.count (.ref s.nobj) = 0 := by
        rcases Nat.eq_zero_or_pos (s.slots.count (.ref s.nobj)) with h0 | h0
        · exact h0
        · have := hinv.bound _ (List.count_pos_iff.mp h0); omega
      constructor
      · intro o hm
        simp only [List.mem_append, List.mem_singleton] at hm
        rcases hm with hm | hm
        · have := hinv.bound o hm; show o < s.nobj + 1; omega
        · injection hm with hm; show o < s.nobj + 1; omega
      · intro o ho hf
        simp only [refs, List.count_append, List.count_singleton]
        by_cases hon : o = s.nobj
        · subst hon; simp [upd, hz]
        · have ho' : o < s.nobj := by have ho2 : o < s.nobj + 1 := ho; omega
          simp only [upd, hon, ↓reduceIte] at hf ⊢
          have hne : ¬ (Slot.ref s.nobj = Slot.ref o) := by intro e; injection e with e; exact hon e.symm
          have := hinv.live o ho' hf
          simp only [refs] at this
          first | (simp only [beq_iff_eq, hne, ↓reduceIte, Nat.add_zero]; exact this) | exact this
      · intro o ho hf
        simp only [refs, List.count_append, List.count_singleton]
        by_cases hon : o = s.nobj
        · subst hon; simp [upd] at hf
        · have ho' : o < s.nobj := by have ho2 : o < s.nobj + 1 := ho; omega
          simp only [upd, hon, ↓reduceIte] at hf ⊢
          have hne : ¬ (Slot.ref s.nobj = Slot.ref o) := by intro e; injection e with e; exact hon e.symm
          have := hinv.dead o ho' hf
          simp only [refs] at this
          first | (simp only [beq_iff_eq, hne, ↓reduceIte, Nat.add_zero]; exact this) | exact this
    · intro o ho
      have : o ≠ s.nobj := by omega
      left; simp [upd, this]
  | copy i =>
    simp only [step] at h
    split at h
    · rename_i o hl
      obtain ⟨hs, _⟩ := liveSlot_some hl
      have hinv0 : Inv { s with slots := s.slots ++ [.null] } := by
        apply inv_of_counts hinv
        intro x; simp [List.count_append, List.count_singleton]
      have hnull : ({ s with slots := s.slots ++ [.null] } : HState).slots[s.slots.length]? = some .null := by
        simp
      have hmem : Slot.ref o ∈ ({ s with slots := s.slots ++ [.null] } : HState).slots := by
        have : Slot.ref o ∈ s.slots := by
          have := getElem_of_some hs
          rw [← this]; exact List.getElem_mem _
        simp [this]
      obtain ⟨s2, h2, hi2, _, hn2, hd2, hf2, _⟩ := acquire_spec hinv0 hnull hmem
      rw [h2] at h; injection h with h; subst h
      refine ⟨hi2, by rw [hn2]; exact Nat.le_refl _, ?_⟩
      intro o' _; left; rw [hd2, hf2]; exact ⟨rfl, rfl⟩
    · cases h
    · cases h
  | move i =>
    simp only [step] at h
    split at h
    · rename_i c hl
      obtain ⟨hs, _⟩ := liveSlot_some hl
      injection h with h; subst h
      refine ⟨?_, Nat.le_refl _, fun o _ => Or.inl ⟨rfl, rfl⟩⟩
      apply inv_of_counts hinv
      intro x
      have hil := getElem?_lt hs
      rw [List.count_append, List.count_singleton, count_set' _ _ _ _ hil, getElem_of_some hs]
      have h1 := count_le_of_getElem s.slots i hil
      rw [getElem_of_some hs] at h1
      by_cases hc : c = Slot.ref x
      · subst hc; simp; omega
      · simp [hc]
    · cases h
  | dtor i =>
    simp only [step] at h
    split at h
    · rename_i s1 hd
      injection h with h; subst h
      -- the handle must share some object, else `drop` fails
      have hsl : ∃ o, s.slots[i]? = some (.ref o) := by
        unfold drop at hd
        split at hd
        · rename_i o hs; exact ⟨o, hs⟩
        · cases hd
        · cases hd
      obtain ⟨o, hs⟩ := hsl
      obtain ⟨s2, h2, hi2, hsl2, hn2, hoth, hself⟩ := drop_spec hinv hs
      rw [h2] at hd; injection hd with hd; subst hd
      refine ⟨?_, by simp only; omega, ?_⟩
      · apply inv_of_counts hi2
        intro x
        have hnull : s2.slots[i]? = some .null := by
          rw [hsl2]; simp [getElem?_lt hs]
        exact set_same_counts _ _ _ _ hnull (by intro o h; cases h) (by intro o h; cases h) x
      · intro x _
        by_cases hx : x = o
        · subst hx
          rcases hself with h1 | ⟨h1, h2, h3, h4⟩
          · left; refine ⟨h1, ?_⟩
            -- freed unchanged in the non-zero branch: read it off the definition
            unfold drop at h2
            rw [hs] at h2
            simp only at h2
            split at h2
            · cases h2
            · split at h2
              · injection h2 with h2; subst h2; simp [upd] at h1
              · injection h2 with h2; subst h2; rfl
          · right; exact ⟨h1, h2, h3, h4⟩
        · left; exact hoth x hx
    · cases h
  | assign i j =>
    simp only [step] at h
    split at h
    · rename_i a b hla hlb
      obtain ⟨hsa, hag⟩ := liveSlot_some hla
      obtain ⟨hsb, hbg⟩ := liveSlot_some hlb
      split at h
      · injection h with h; subst h
        exact ⟨hinv, Nat.le_refl _, fun o _ => Or.inl ⟨rfl, rfl⟩⟩
      · rename_i hij
        split at h
        · cases h
        · rename_i s1 hd
          have hsl : ∃ o, s.slots[i]? = some (.ref o) := by
            unfold drop at hd
            split at hd
            · rename_i o hs; exact ⟨o, hs⟩
            · cases hd
            · cases hd
          obtain ⟨o, hs⟩ := hsl
          obtain ⟨s2, h2, hi2, hsl2, hn2, hoth, hself⟩ := drop_spec hinv hs
          rw [h2] at hd; injection hd with hd; subst hd
          split at h
          · rename_i o' hj'
            have hnull : s2.slots[i]? = some .null := by rw [hsl2]; simp [getElem?_lt hs]
            have hmem : Slot.ref o' ∈ s2.slots := by
              have := getElem_of_some hj'
              rw [← this]; exact List.getElem_mem _
            obtain ⟨s3, h3, hi3, hsl3, hn3, hd3, hf3, hc3⟩ := acquire_spec hi2 hnull hmem
            rw [h3] at h
            simp only at h
            have hlt : ¬ (s3.cnt o' < 2) := by omega
            simp only [hlt, ↓reduceIte] at h
            injection h with h; subst h
            refine ⟨hi3, by omega, ?_⟩
            intro x hx
            rw [hd3, hf3]
            by_cases hxo : x = o
            · subst hxo
              rcases hself with h1 | ⟨h1, h2', h3', h4'⟩
              · left; refine ⟨h1, ?_⟩
                unfold drop at h2
                rw [hs] at h2
                simp only at h2
                split at h2
                · cases h2
                · split at h2
                  · injection h2 with h2; subst h2; simp [upd] at h1
                  · injection h2 with h2; subst h2; rfl
              · right; exact ⟨h1, h2', h3', h4'⟩
            · left; exact hoth x hxo
          · cases h
    · cases h
  | swap i j =>
    simp only [step] at h
    split at h
    · rename_i a b hla hlb
      obtain ⟨hsa, _⟩ := liveSlot_some hla
      obtain ⟨hsb, _⟩ := liveSlot_some hlb
      injection h with h; subst h
      refine ⟨?_, Nat.le_refl _, fun o _ => Or.inl ⟨rfl, rfl⟩⟩
      apply inv_of_counts hinv
      intro x; exact swap_counts _ _ _ _ _ hsa hsb _
    · cases h
  | swapMove i j =>
    simp only [step] at h
    split at h
    · rename_i a b hla hlb
      split at h
      · cases h
      · rename_i s1 hd
        have hsl : ∃ o, s.slots[i]? = some (.ref o) := by
          unfold drop at hd
          split at hd
          · rename_i o hs; exact ⟨o, hs⟩
          · cases hd
          · cases hd
        obtain ⟨o, hs⟩ := hsl
        obtain ⟨s2, h2, hi2, hsl2, hn2, hoth, hself⟩ := drop_spec hinv hs
        rw [h2] at hd; injection hd with hd; subst hd
        split at h
        · rename_i c hj'
          injection h with h; subst h
          have hnull : s2.slots[i]? = some .null := by rw [hsl2]; simp [getElem?_lt hs]
          refine ⟨?_, by simp only; omega, ?_⟩
          · apply inv_of_counts hi2
            intro x; exact swap_counts _ _ _ _ _ hnull hj' _
          · intro x hx
            by_cases hxo : x = o
            · subst hxo
              rcases hself with h1 | ⟨h1, h2', h3', h4'⟩
              · left; refine ⟨h1, ?_⟩
                unfold drop at h2
                rw [hs] at h2
                simp only at h2
                split at h2
                · cases h2
                · split at h2
                  · injection h2 with h2; subst h2; simp [upd] at h1
                  · injection h2 with h2; subst h2; rfl
              · right; exact ⟨h1, h2', h3', h4'⟩
            · left; exact hoth x hxo
        · cases h
    · cases h

/-! ### all operation sequences -/

theorem run_inv {ops : List HOp} {s s' : HState} (hinv : Inv s) (h : run s ops = .ok s') : Inv s' := by
  induction ops generalizing s with
  | nil => simp only [run] at h; injection h with h; subst h; exact hinv
  | cons op rest ih =>
    simp only [run] at h
    split at h
    · rename_i s1 h1
      exact ih (step_spec hinv op h1).1 h
    · cases h


/-! ### store level: who owns a live handle

Every handle that has not been destructed sits in a value of a context that is still live. Kept by every store-level
operation; `release` destructs exactly the handles of the contexts it deletes. No operation loses a context (the
`createEnv` path on which an argument raises hands the runtime context back to the cache), so the invariant needs no
exception. -/

/-- The ownership invariant of part S. -/
structure Owned (s : S.SState) : Prop where
  len : s.owner.length = s.h.slots.length
  own : ∀ (i : Nat) (c : Slot), s.h.slots[i]? = some c → c ≠ .gone → ∃ k, s.owner[i]? = some k ∧ s.ctxs[k]? = some .live

theorem owned_init : Owned S.SState.init := by
  constructor
  · rfl
  · intro i c h; simp [S.SState.init, HState.init] at h

theorem new_slots {s s' : HState} (h : step s .new = .ok s') : s'.slots = s.slots ++ [.ref s.nobj] := by
  simp only [step] at h; injection h with h; subst h; rfl

theorem copy_slots {s s' : HState} {i : Nat} (h : step s (.copy i) = .ok s') : ∃ o, s'.slots = s.slots ++ [.ref o] := by
  simp only [step] at h
  split at h
  · rename_i o _
    unfold acquire at h
    split at h
    · cases h
    · injection h with h; subst h
      exact ⟨o, by simp⟩
  · cases h
  · cases h

theorem dtor_slots {s s' : HState} {i : Nat} (h : step s (.dtor i) = .ok s') : s'.slots = s.slots.set i .gone := by
  simp only [step] at h
  split at h
  · rename_i s1 hd
    injection h with h; subst h
    unfold drop at hd
    split at hd
    · split at hd
      · cases hd
      · split at hd <;> (injection hd with hd; subst hd; simp)
    · cases hd
    · cases hd
  · cases h

/-- `destructWhere`: no handle is added; a handle among the first `n` that survives belongs to a context outside `p`. -/
theorem destructWhere_slots (p : Nat → Bool) (owner : List Nat) :
    ∀ (n : Nat) (h h' : HState), S.destructWhere p owner n h = .ok h' →
      h'.slots.length = h.slots.length ∧
      ∀ (j : Nat) (c : Slot), h'.slots[j]? = some c → c ≠ .gone →
        h.slots[j]? = some c ∧ (j < n → ∀ k, owner[j]? = some k → p k = false) := by
  intro n
  induction n with
  | zero =>
    intro h h' he
    simp only [S.destructWhere] at he; injection he with he; subst he
    exact ⟨rfl, fun j c hj _ => ⟨hj, fun hlt => absurd hlt (Nat.not_lt_zero _)⟩⟩
  | succ n ih =>
    intro h h' he
    simp only [S.destructWhere] at he
    split at he
    · cases he
    · rename_i h1 h1eq
      obtain ⟨hl1, ih1⟩ := ih h h1 h1eq
      split at he
      · rename_i k c0 hown hlive
        split at he
        · rename_i hp
          have hs := dtor_slots he
          refine ⟨by rw [hs, List.length_set, hl1], ?_⟩
          intro j c hj hc
          rw [hs, List.getElem?_set] at hj
          split at hj
          · split at hj
            · injection hj with hj; exact absurd hj.symm hc
            · cases hj
          · rename_i hne
            obtain ⟨a, b⟩ := ih1 j c hj hc
            refine ⟨a, fun hlt => b (by omega)⟩
        · rename_i hp
          injection he with he; subst he
          refine ⟨hl1, ?_⟩
          intro j c hj hc
          obtain ⟨a, b⟩ := ih1 j c hj hc
          refine ⟨a, fun hlt k' hk' => ?_⟩
          rcases Nat.lt_or_ge j n with hjn | hjn
          · exact b hjn k' hk'
          · have : j = n := by omega
            subst this
            rw [hown] at hk'; injection hk' with hk'; subst hk'
            simpa using hp
      · rename_i hno
        injection he with he; subst he
        refine ⟨hl1, ?_⟩
        intro j c hj hc
        obtain ⟨a, b⟩ := ih1 j c hj hc
        refine ⟨a, fun hlt k' hk' => ?_⟩
        rcases Nat.lt_or_ge j n with hjn | hjn
        · exact b hjn k' hk'
        · have : j = n := by omega
          subst this
          have hl : liveSlot h1 j = some c := by
            unfold liveSlot
            rw [hj]
            split
            · rename_i heq; injection heq with heq; exact absurd heq hc
            · rfl
          exact absurd hl (hno k' c hk')

theorem ctxLive_iff {s : S.SState} {k : Nat} : S.ctxLive s k = true ↔ s.ctxs[k]? = some .live := by
  unfold S.ctxLive
  cases h : s.ctxs[k]? with
  | none => simp
  | some c => cases c <;> simp

theorem live_append {l : List S.CtxSt} {k : Nat} {x : S.CtxSt} (h : l[k]? = some .live) : (l ++ [x])[k]? = some .live := by
  have hk : k < l.length := by
    rcases Nat.lt_or_ge k l.length with h' | h'
    · exact h'
    · rw [List.getElem?_eq_none h'] at h; cases h
  rw [List.getElem?_append_left hk]; exact h

/-- appending a handle owned by a live context keeps the invariant -/
theorem owned_push {s : S.SState} (ho : Owned s) {h' : HState} {x : Slot} {k : Nat} (hs : h'.slots = s.h.slots ++ [x])
    (hk : s.ctxs[k]? = some .live) : Owned { s with h := h', owner := s.owner ++ [k] } := by
  constructor
  · simp [hs, ho.len]
  · intro i c hi hc
    simp only at hi ⊢
    rw [hs] at hi
    rcases Nat.lt_or_ge i s.h.slots.length with hlt | hge
    · rw [List.getElem?_append_left hlt] at hi
      obtain ⟨k', hk1, hk2⟩ := ho.own i c hi hc
      refine ⟨k', ?_, hk2⟩
      rw [List.getElem?_append_left (by rw [ho.len]; exact hlt)]; exact hk1
    · rcases Nat.lt_or_ge s.h.slots.length i with hgt | hle
      · rw [List.getElem?_eq_none (by simp; omega)] at hi; cases hi
      · have : i = s.h.slots.length := by omega
        subst this
        refine ⟨k, ?_, hk⟩
        rw [← ho.len]; simp

theorem sstep_owned {s s' : S.SState} (ho : Owned s) (op : S.SOp) (h : S.sstep s op = .ok s') : Owned s' := by
  cases op with
  | newCtx =>
    simp only [S.sstep] at h; injection h with h; subst h
    exact ⟨ho.len, fun i c hi hc => by
      obtain ⟨k, h1, h2⟩ := ho.own i c hi hc
      exact ⟨k, h1, live_append h2⟩⟩
  | childCtx k =>
    simp only [S.sstep] at h
    split at h
    · injection h with h; subst h
      exact ⟨ho.len, fun i c hi hc => by
        obtain ⟨k', h1, h2⟩ := ho.own i c hi hc
        exact ⟨k', h1, live_append h2⟩⟩
    · cases h
  | construct k =>
    simp only [S.sstep] at h
    split at h
    · rename_i hk
      split at h
      · rename_i h1 he; injection h with h; subst h
        exact owned_push ho (new_slots he) (ctxLive_iff.mp hk)
      · cases h
    · cases h
  | clone i k =>
    simp only [S.sstep] at h
    split at h
    · rename_i hk
      split at h
      · rename_i h1 he; injection h with h; subst h
        obtain ⟨o, hs⟩ := copy_slots he
        exact owned_push ho hs (ctxLive_iff.mp hk)
      · cases h
    · cases h
  | clear i =>
    simp only [S.sstep] at h
    split at h
    · rename_i h1 he; injection h with h; subst h
      have hs := dtor_slots he
      constructor
      · simp [hs, ho.len]
      · intro j c hj hc
        simp only at hj ⊢
        rw [hs, List.getElem?_set] at hj
        split at hj
        · split at hj
          · injection hj with hj; exact absurd hj.symm hc
          · cases hj
        · exact ho.own j c hj hc
    · cases h
  | give i k =>
    simp only [S.sstep] at h
    split at h
    · rename_i hc
      injection h with h; subst h
      simp only [Bool.and_eq_true] at hc
      have hk := ctxLive_iff.mp hc.1
      constructor
      · simp [ho.len]
      · intro j c hj hcg
        simp only at hj ⊢
        rw [List.getElem?_set]
        split
        · rename_i hij
          subst hij
          have hlt : i < s.owner.length := by rw [ho.len]; exact getElem?_lt hj
          exact ⟨k, by simp [hlt], hk⟩
        · exact ho.own j c hj hcg
    · cases h
  | release k =>
    simp only [S.sstep] at h
    split at h
    · split at h
      · rename_i h1 he; injection h with h; subst h
        obtain ⟨hl, hsl⟩ := destructWhere_slots _ _ _ _ _ he
        constructor
        · simp only; rw [hl]; exact ho.len
        · intro j c hj hc
          simp only at hj ⊢
          obtain ⟨hj0, hnot⟩ := hsl j c hj hc
          obtain ⟨k', hk1, hk2⟩ := ho.own j c hj0 hc
          have hnd := hnot (getElem?_lt hj0) k' hk1
          refine ⟨k', hk1, ?_⟩
          simp [List.getElem?_mapIdx, hk2, hnd]
      · cases h
    · cases h

theorem srun_owned {ops : List S.SOp} {s s' : S.SState} (ho : Owned s) (h : S.srun s ops = .ok s') : Owned s' := by
  induction ops generalizing s with
  | nil => simp only [S.srun] at h; injection h with h; subst h; exact ho
  | cons op rest ih =>
    simp only [S.srun] at h
    split at h
    · rename_i s1 h1; exact ih (sstep_owned ho op h1) h
    · cases h

/-- with no live context left, no handle is left -/
theorem owned_allReleased_quiescent {s : S.SState} (ho : Owned s) (hr : S.allReleased s = true) : quiescent s.h = true := by
  simp only [quiescent, List.all_eq_true]
  intro x hx
  obtain ⟨i, hi⟩ := List.mem_iff_getElem?.mp hx
  by_cases hg : x = .gone
  · subst hg; rfl
  · obtain ⟨k, _, hk⟩ := ho.own i x hi hg
    simp only [S.allReleased, List.all_eq_true] at hr
    have hm : S.CtxSt.live ∈ s.ctxs := List.mem_iff_getElem?.mpr ⟨k, hk⟩
    have := hr _ hm
    simp at this

end BlocV.Proofs.Handle
