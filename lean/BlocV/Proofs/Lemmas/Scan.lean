/-
  C12, bytes → tokens: foundations for discharging the scanning hypothesis `hscan` of `C12.program_roundtrip_bytes`
  (work in progress — see notes/NOTES-C12.md, block C12-deepen-3, for what is still missing).

    * `first` / `nullable` of the regular expressions of tokenizer.lex, with soundness: a rule whose first-set does not
      contain the next byte offers nothing (`cand_dead`), so at each byte only 2–3 of the 24 rules are live;
    * byte-generic locality (C13 proves it for '\n' only): a pattern none of whose classes / literals contains the byte `x`
      sees nothing beyond an `x` (`matchLens_free`); with `pick_congr`: when every LIVE rule is `x`-free (or a one-byte
      class), the rule choice on `lexeme ++ x :: rest` is the rule choice on the bare lexeme (`pick_localx`);
    * `lex_token`: one step of the buffer scanner from a known rule choice;
    * lexemes: punctuation bytes, identifiers / keywords (`pick_ident`).
-/
import BlocV.Proofs.Lemmas.Lex
import BlocV.Model.Unparse

namespace BlocV.Scan
open BlocV BlocV.Lex

/-! ## first-sets -/

def nullable : Re → Bool
  | .cls _ => false
  | .lit l => l.isEmpty
  | .seq a b => nullable a && nullable b
  | .alt a b => nullable a || nullable b
  | .opt _ => true
  | .star _ => true
  | .plus _ => false

def first : Re → UInt8 → Bool
  | .cls p, c => p c
  | .lit [], _ => false
  | .lit (a :: _), c => a == c
  | .seq a b, c => first a c || (nullable a && first b c)
  | .alt a b, c => first a c || first b c
  | .opt a, c => first a c
  | .star p, c => p c
  | .plus p, c => p c

theorem zero_mem_nullable : ∀ (r : Re) (s : Bytes), 0 ∈ matchLens r s → nullable r = true := by
  intro r
  induction r with
  | cls p =>
    intro s h
    cases s with
    | nil => simp [matchLens] at h
    | cons c t =>
      simp only [matchLens] at h
      split at h <;> simp at h
  | lit l =>
    intro s h
    simp only [matchLens] at h
    split at h
    · simp at h; simp [nullable, List.eq_nil_of_length_eq_zero h.symm]
    · simp at h
  | seq a b iha ihb =>
    intro s h
    simp only [matchLens, List.mem_flatMap, List.mem_map] at h
    obtain ⟨n1, h1, n2, h2, he⟩ := h
    have e1 : n1 = 0 := by omega
    have e2 : n2 = 0 := by omega
    subst e1; subst e2
    simp [nullable, iha s h1, ihb _ h2]
  | alt a b iha ihb =>
    intro s h
    simp only [matchLens, List.mem_append] at h
    rcases h with h | h
    · simp [nullable, iha s h]
    · simp [nullable, ihb s h]
  | opt a _ => intro _ _; rfl
  | star p => intro _ _; rfl
  | plus p =>
    intro s h
    cases s with
    | nil => simp [matchLens] at h
    | cons c t =>
      simp only [matchLens] at h
      split at h
      · simp at h
      · simp at h

theorem starLens_pos (p : UInt8 → Bool) (c : UInt8) (t : Bytes) (n : Nat) (h : n ∈ starLens p (c :: t)) (hn : 0 < n) :
    p c = true := by
  simp only [starLens] at h
  split at h
  · assumption
  · simp at h; omega

theorem pos_mem_first : ∀ (r : Re) (c : UInt8) (t : Bytes) (n : Nat), n ∈ matchLens r (c :: t) → 0 < n → first r c = true := by
  intro r
  induction r with
  | cls p =>
    intro c t n h _
    simp only [matchLens] at h
    split at h
    · simpa [first]
    · simp at h
  | lit l =>
    intro c t n h hn
    simp only [matchLens] at h
    split at h
    · rename_i hp
      cases l with
      | nil => simp at h; omega
      | cons a l' => simp only [isPre, Bool.and_eq_true] at hp; simpa [first] using hp.1
    · simp at h
  | seq a b iha ihb =>
    intro c t n h hn
    simp only [matchLens, List.mem_flatMap, List.mem_map] at h
    obtain ⟨n1, h1, n2, h2, he⟩ := h
    by_cases h0 : n1 = 0
    · subst h0
      have hna := zero_mem_nullable a _ h1
      have : first b c = true := ihb c t n2 (by simpa using h2) (by omega)
      simp [first, hna, this]
    · have := iha c t n1 h1 (by omega)
      simp [first, this]
  | alt a b iha ihb =>
    intro c t n h hn
    simp only [matchLens, List.mem_append] at h
    rcases h with h | h
    · simp [first, iha c t n h hn]
    · simp [first, ihb c t n h hn]
  | opt a iha =>
    intro c t n h hn
    simp only [matchLens, List.mem_cons] at h
    rcases h with rfl | h
    · omega
    · simpa [first] using iha c t n h hn
  | star p => intro c t n h hn; exact starLens_pos p c t n h hn
  | plus p =>
    intro c t n h _
    simp only [matchLens] at h
    split at h
    · simpa [first]
    · simp at h

theorem maxL_zero (l : List Nat) (h : ∀ n ∈ l, n = 0) : maxL l = 0 := by
  induction l with
  | nil => rfl
  | cons x l ih =>
    have := h x (by simp)
    have := ih (fun n hn => h n (by simp [hn]))
    simp only [maxL]; omega

theorem longest_dead {r : Re} {c : UInt8} (t : Bytes) (h : first r c = false) : longest r (c :: t) = 0 := by
  apply maxL_zero
  intro n hn
  by_cases h0 : n = 0
  · exact h0
  · have := pos_mem_first r c t n hn (by omega)
    rw [h] at this; cases this

theorem cand_dead {r : Rule} {c : UInt8} (bol : Bool) (t : Bytes) (h : first r.re c = false) : cand r bol (c :: t) = 0 := by
  unfold cand; split
  · rfl
  · exact longest_dead t h

/-! ## the rule choice -/

theorem pick_congr (rules : List Rule) (bol : Bool) (s1 s2 : Bytes) (h : ∀ r ∈ rules, cand r bol s1 = cand r bol s2) :
    pick rules bol s1 = pick rules bol s2 := by
  induction rules with
  | nil => rfl
  | cons r rs ih =>
    have h1 := h r (by simp)
    have h2 := ih (fun x hx => h x (by simp [hx]))
    simp only [pick, h1, h2]

theorem pick_skip {r : Rule} {rs : List Rule} {bol : Bool} {s : Bytes} (h : cand r bol s = 0) :
    pick (r :: rs) bol s = pick rs bol s := by
  simp [pick, h]

theorem pick_dead_prefix (pre rs : List Rule) (bol : Bool) (s : Bytes) (h : ∀ r ∈ pre, cand r bol s = 0) :
    pick (pre ++ rs) bol s = pick rs bol s := by
  induction pre with
  | nil => rfl
  | cons r pre ih =>
    rw [List.cons_append, pick_skip (h r (by simp))]
    exact ih (fun x hx => h x (by simp [hx]))

theorem pick_take {r : Rule} {rs : List Rule} {bol : Bool} {s : Bytes} {m : Nat} (hc : cand r bol s = m) (hm : 0 < m)
    (hrs : (pick rs bol s).2 ≤ m) : pick (r :: rs) bol s = (r.code, m) := by
  simp [pick, hc, hm, hrs]

/-! ## byte-generic locality -/

/-- no class and no literal of `r` contains the byte `x` -/
def freeOf (x : UInt8) : Re → Bool
  | .cls p => !p x
  | .lit l => l.all (· != x)
  | .seq a b => freeOf x a && freeOf x b
  | .alt a b => freeOf x a && freeOf x b
  | .opt a => freeOf x a
  | .star p => !p x
  | .plus p => !p x

theorem starLens_free (p : UInt8 → Bool) (x : UInt8) (hp : p x = false) (q : Bytes) :
    ∀ a : Bytes, starLens p (a ++ x :: q) = starLens p a := by
  intro a
  induction a with
  | nil => simp [starLens, hp]
  | cons c t ih => simp [starLens, ih]

theorem isPre_free (x : UInt8) (q : Bytes) : ∀ (l a : Bytes), l.all (· != x) = true → isPre l (a ++ x :: q) = isPre l a := by
  intro l
  induction l with
  | nil => intro a _; simp [isPre]
  | cons y l ih =>
    intro a h
    simp only [List.all_cons, Bool.and_eq_true] at h
    cases a with
    | nil =>
      have : (y == x) = false := by simpa using h.1
      simp [isPre, this]
    | cons z a => simp [isPre, ih a h.2]

theorem matchLens_free (x : UInt8) (q : Bytes) : ∀ (r : Re), freeOf x r = true → ∀ a : Bytes,
    matchLens r (a ++ x :: q) = matchLens r a := by
  intro r
  induction r with
  | cls p =>
    intro h a
    have hp : p x = false := by simpa [freeOf] using h
    cases a with
    | nil => simp [matchLens, hp]
    | cons c t => simp [matchLens]
  | lit l =>
    intro h a
    simp only [freeOf] at h
    simp [matchLens, isPre_free x q l a h]
  | seq u v ihu ihv =>
    intro h a
    simp only [freeOf, Bool.and_eq_true] at h
    simp only [matchLens, ihu h.1 a]
    apply flatMap_congr'
    intro n hn
    have hb := matchLens_bound u a n hn
    rw [List.drop_append_of_le_length hb, ihv h.2]
  | alt u v ihu ihv =>
    intro h a
    simp only [freeOf, Bool.and_eq_true] at h
    simp [matchLens, ihu h.1 a, ihv h.2 a]
  | opt u ihu =>
    intro h a
    simp only [freeOf] at h
    simp [matchLens, ihu h a]
  | star p =>
    intro h a
    have hp : p x = false := by simpa [freeOf] using h
    simp [matchLens, starLens_free p x hp q a]
  | plus p =>
    intro h a
    have hp : p x = false := by simpa [freeOf] using h
    cases a with
    | nil => simp [matchLens, hp]
    | cons c t => simp [matchLens, starLens_free p x hp q t]

def isCls : Re → Bool
  | .cls _ => true
  | _ => false

/-- the rule is dead at first byte `c`, or sees nothing beyond `x`, or is a one-byte class -/
def ruleOk (c x : UInt8) (r : Rule) : Bool := !first r.re c || freeOf x r.re || isCls r.re

theorem cand_localx {r : Rule} {c x : UInt8} (h : ruleOk c x r = true) (bol : Bool) (a q : Bytes) :
    cand r bol (c :: a ++ x :: q) = cand r bol (c :: a) := by
  simp only [ruleOk, Bool.or_eq_true, Bool.not_eq_true'] at h
  rcases h with (h | h) | h
  · rw [show c :: a ++ x :: q = c :: (a ++ x :: q) from rfl, cand_dead bol _ h, cand_dead bol _ h]
  · simp only [cand, longest, matchLens_free x q r.re h (c :: a)]
  · cases hr : r.re with
    | cls p => simp [cand, longest, hr, matchLens]
    | _ => simp [isCls, hr] at h

/-- **Locality.** When every rule is dead at `c`, `x`-free or a one-byte class, the choice on `lexeme ++ x :: rest` is the
choice on the bare lexeme. -/
theorem pick_localx (rules : List Rule) (c x : UInt8) (h : rules.all (ruleOk c x) = true) (bol : Bool) (a q : Bytes) :
    pick rules bol (c :: a ++ x :: q) = pick rules bol (c :: a) :=
  pick_congr rules bol _ _ (fun r hr => cand_localx (List.all_eq_true.mp h r hr) bol a q)

/-! ## one step of the scanner -/

theorem lex_token (st : St) (bol : Bool) (L rest : Bytes) (code : Option Nat) (hL : L ≠ [])
    (hp : pick (rulesOf st) bol (L ++ rest) = (code, L.length)) :
    lex st bol (L ++ rest) =
      (emit code L ++ (lex (nextSt st code) (endsNl L) rest).1, (lex (nextSt st code) (endsNl L) rest).2) := by
  cases L with
  | nil => exact absurd rfl hL
  | cons c t =>
    have hlen : (c :: t).length ≠ 0 := by simp
    rw [List.cons_append] at hp ⊢
    rw [lex_cons, hp]
    simp only [hlen, if_false]
    have e1 : (c :: (t ++ rest)).take (c :: t).length = c :: t := by
      rw [← List.cons_append]; simp
    have e2 : (c :: (t ++ rest)).drop (c :: t).length = rest := by
      rw [← List.cons_append]; simp
    rw [e1, e2]

/-! ## Lexemes in the INITIAL start condition -/

def preA : List Rule := rulesInitial.take 1
def litR : Rule := { code := some tLITERALBEG, re := .seq (.opt reSP) (.lit [34]), src := "({SP}?\\\")" }
def preB : List Rule := (rulesInitial.drop 2).take 20
def kwR : Rule := { code := some tKEYWORD, re := reKEYWORD, src := "{KEYWORD}" }
def dfR : Rule := { code := none, re := .cls anyByte, src := ".|\\n" }

theorem rulesInitial_split : rulesInitial = preA ++ litR :: (preB ++ [kwR, dfR]) := rfl

/-- bytes after which a word, a number or a closing token ends in the text `unparse` writes -/
def sepList : List UInt8 := [32, 40, 41, 44, 59, 10, 64, 58, 46]

theorem ofNat_toNat (c : UInt8) : UInt8.ofNat c.toNat = c := by simp

/-- for a letter, only LITERALBEG, KEYWORD and the default rule are live — and they see nothing beyond a separator -/
theorem tbl_letter : ∀ n, n < 256 → isLetter (UInt8.ofNat n) = true →
    (preA.all (fun r => !first r.re (UInt8.ofNat n)) && preB.all (fun r => !first r.re (UInt8.ofNat n))) = true := by
  decide +kernel

theorem tbl_letter_sep : ∀ n, n < 256 → isLetter (UInt8.ofNat n) = true → ∀ x ∈ sepList,
    rulesInitial.all (ruleOk (UInt8.ofNat n) x) = true := by
  decide +kernel

theorem maxL_eq (l : List Nat) (m : Nat) (hm : m ∈ l) (hb : ∀ n ∈ l, n ≤ m) : maxL l = m := by
  induction l with
  | nil => simp at hm
  | cons x l ih =>
    simp only [maxL]
    rcases List.mem_cons.mp hm with rfl | hm'
    · have := maxL_le l m (fun n hn => hb n (by simp [hn])); omega
    · have := ih hm' (fun n hn => hb n (by simp [hn]))
      have := hb x (by simp); omega

theorem zero_mem_starLens (p : UInt8 → Bool) (s : Bytes) : 0 ∈ starLens p s := by
  cases s with
  | nil => simp [starLens]
  | cons c t => simp only [starLens]; split <;> simp

theorem starLens_full (p : UInt8 → Bool) : ∀ (a : Bytes), a.all p = true → a.length ∈ starLens p a := by
  intro a
  induction a with
  | nil => intro _; simp [starLens]
  | cons c t ih =>
    intro h
    simp only [List.all_cons, Bool.and_eq_true] at h
    simp only [starLens, h.1, if_true, List.length_cons, List.mem_cons, List.mem_map]
    exact Or.inr ⟨t.length, ih h.2, rfl⟩

/-- an identifier: a letter, then letters and digits (`{LETTER}+[0-9a-zA-Z_$]*`) -/
def isIdent : Bytes → Bool
  | [] => false
  | c :: a => isLetter c && a.all isAlnum

theorem longest_keyword (c : UInt8) (a : Bytes) (hc : isLetter c = true) (ha : a.all isAlnum = true) :
    longest reKEYWORD (c :: a) = a.length + 1 := by
  apply maxL_eq
  · simp only [reKEYWORD, matchLens, hc, if_true, List.mem_flatMap, List.mem_map]
    exact ⟨1, ⟨0, zero_mem_starLens _ _, rfl⟩, a.length, by simpa using starLens_full isAlnum a ha, by omega⟩
  · intro n hn
    have := matchLens_bound reKEYWORD (c :: a) n hn
    simpa using this

theorem litbeg_dead (s : Bytes) (h : ∀ b ∈ s, b ≠ 34) : longest litR.re s = 0 := by
  apply maxL_zero
  intro n hn
  exfalso
  simp only [litR, matchLens, List.mem_flatMap, List.mem_map] at hn
  obtain ⟨n1, _, n2, h2, _⟩ := hn
  split at h2
  · rename_i hp
    cases hd : s.drop n1 with
    | nil => simp [hd, isPre] at hp
    | cons y ys =>
      simp only [hd, isPre, Bool.and_eq_true, beq_iff_eq] at hp
      have : y ∈ s := List.mem_of_mem_drop (by rw [hd]; simp)
      exact h y this hp.1.symm
  · simp at h2

theorem alnum_ne_quote {b : UInt8} (h : isAlnum b = true) : b ≠ 34 := by
  intro he; subst he; revert h; decide

/-- **The rule choice on an identifier** (alone in the buffer): KEYWORD, its whole length. -/
theorem pick_ident (bol : Bool) (c : UInt8) (a : Bytes) (hc : isLetter c = true) (ha : a.all isAlnum = true) :
    pick rulesInitial bol (c :: a) = (some tKEYWORD, a.length + 1) := by
  have ht := tbl_letter c.toNat (UInt8.toNat_lt c) (by rw [ofNat_toNat]; exact hc)
  rw [ofNat_toNat] at ht
  simp only [Bool.and_eq_true] at ht
  have hq : ∀ b ∈ c :: a, b ≠ 34 := by
    intro b hb
    rcases List.mem_cons.mp hb with rfl | hb
    · exact alnum_ne_quote (by simp [isAlnum, hc])
    · exact alnum_ne_quote (List.all_eq_true.mp ha b hb)
  have hlit : cand litR bol (c :: a) = 0 := by
    simp only [cand]
    split
    · rfl
    · exact litbeg_dead _ hq
  rw [rulesInitial_split, pick_dead_prefix preA _ bol _ (fun r hr => cand_dead bol a (by simpa using List.all_eq_true.mp ht.1 r hr)),
    pick_skip (show cand litR bol (c :: a) = 0 from hlit),
    pick_dead_prefix preB _ bol _ (fun r hr => cand_dead bol a (by simpa using List.all_eq_true.mp ht.2 r hr))]
  have hk : cand kwR bol (c :: a) = a.length + 1 := by simp [cand, kwR, longest_keyword c a hc ha]
  have hd : pick [dfR] bol (c :: a) = (none, 1) := by simp [pick, cand, dfR, longest, matchLens, anyByte, maxL]
  have := pick_take (r := kwR) (rs := [dfR]) hk (by omega) (by rw [hd]; simp)
  simpa [kwR] using this

/-- **Scanning an identifier / keyword followed by a separator**: one KEYWORD token, then the rest. -/
theorem lex_ident (bol : Bool) (n : Bytes) (hn : isIdent n = true) (x : UInt8) (hx : x ∈ sepList) (q : Bytes) :
    lex .initial bol (n ++ x :: q) =
      (⟨tKEYWORD, n⟩ :: (lex .initial false (x :: q)).1, (lex .initial false (x :: q)).2) := by
  cases n with
  | nil => simp [isIdent] at hn
  | cons c a =>
    simp only [isIdent, Bool.and_eq_true] at hn
    have hl := tbl_letter_sep c.toNat (UInt8.toNat_lt c) (by rw [ofNat_toNat]; exact hn.1) x hx
    rw [ofNat_toNat] at hl
    have hp : pick (rulesOf .initial) bol ((c :: a) ++ x :: q) = (some tKEYWORD, (c :: a).length) := by
      have := pick_localx rulesInitial c x hl bol a q
      simp only [rulesOf, List.cons_append] at this ⊢
      rw [this, pick_ident bol c a hn.1 hn.2]; simp
    have hnl : endsNl (c :: a) = false := by
      have : ∀ b ∈ c :: a, b ≠ 10 := by
        intro b hb
        rcases List.mem_cons.mp hb with rfl | hb
        · intro he; subst he; exact absurd hn.1 (by decide)
        · intro he; subst he; exact absurd (List.all_eq_true.mp hn.2 10 hb) (by decide)
      simp only [endsNl]
      cases hg : (c :: a).getLast? with
      | none => simp
      | some y =>
        have hy : y ∈ c :: a := List.mem_of_getLast? hg
        have := this y hy
        simp [this]
    have hns : nextSt .initial (some tKEYWORD) = .initial := by decide
    rw [lex_token .initial bol (c :: a) (x :: q) (some tKEYWORD) (by simp) hp, hnl, hns]
    simp [emit]

/-- **Workhorse.** A lexeme `c :: a` followed by a byte `x` such that every rule is dead at `c`, `x`-free or a one-byte class:
the scanner's step on `lexeme ++ x :: q` is given by the rule choice on the BARE lexeme (decidable for a fixed lexeme). -/
theorem lex_lexeme (bol : Bool) (c : UInt8) (a : Bytes) (x : UInt8) (q : Bytes) (code : Option Nat)
    (hl : rulesInitial.all (ruleOk c x) = true) (hp : pick rulesInitial bol (c :: a) = (code, a.length + 1)) :
    lex .initial bol (c :: a ++ x :: q) =
      (emit code (c :: a) ++ (lex (nextSt .initial code) (endsNl (c :: a)) (x :: q)).1,
       (lex (nextSt .initial code) (endsNl (c :: a)) (x :: q)).2) := by
  have hp' : pick (rulesOf .initial) bol ((c :: a) ++ x :: q) = (code, (c :: a).length) := by
    have := pick_localx rulesInitial c x hl bol a q
    simp only [rulesOf, List.cons_append] at this ⊢
    rw [this, hp]; simp
  exact lex_token .initial bol (c :: a) (x :: q) code (by simp) hp'

/-- the bytes that are tokens by themselves whatever follows: `(` `)` `,` `;` `@` `~` -/
def punctList : List UInt8 := [40, 41, 44, 59, 64, 126]

theorem tbl_punct : ∀ c ∈ punctList, (rulesInitial.take 23).all (fun r => !first r.re c) = true := by decide +kernel

theorem rulesInitial_split23 : rulesInitial = rulesInitial.take 23 ++ [dfR] := rfl

/-- **Punctuation**: one default-rule token (code = the byte), whatever follows, at the beginning of a line or not. -/
theorem lex_punct (bol : Bool) (c : UInt8) (hc : c ∈ punctList) (t : Bytes) :
    lex .initial bol (c :: t) = (⟨c.toNat, [c]⟩ :: (lex .initial false t).1, (lex .initial false t).2) := by
  have ht := tbl_punct c hc
  have hp : pick (rulesOf .initial) bol ([c] ++ t) = (none, [c].length) := by
    simp only [rulesOf, List.singleton_append]
    rw [rulesInitial_split23, pick_dead_prefix _ _ bol _ (fun r hr => cand_dead bol t (by simpa using List.all_eq_true.mp ht r hr))]
    simp [pick, cand, dfR, longest, matchLens, anyByte, maxL]
  have h0 : (c == 0) = false := by
    simp only [punctList, List.mem_cons, List.mem_nil_iff, or_false] at hc
    rcases hc with rfl | rfl | rfl | rfl | rfl | rfl <;> decide
  have hnl : endsNl [c] = false := by
    simp only [punctList, List.mem_cons, List.mem_nil_iff, or_false] at hc
    rcases hc with rfl | rfl | rfl | rfl | rfl | rfl <;> decide
  have hns : nextSt .initial none = .initial := by decide
  have := lex_token .initial bol [c] t none (by simp) hp
  simp only [List.singleton_append] at this
  rw [this, hnl, hns]
  simp [emit, h0]

/-- `F(` — a name directly followed by `(`, as the unparser writes calls: KEYWORD, then `(`, then the arguments. -/
example (n : Bytes) (hn : isIdent n = true) (t : Bytes) :
    (lex .initial false (n ++ 40 :: t)).1 = ⟨tKEYWORD, n⟩ :: ⟨40, [40]⟩ :: (lex .initial false t).1 := by
  rw [lex_ident false n hn 40 (by decide) t, lex_punct false 40 (by decide) t]
  rfl

end BlocV.Scan
