/-
  Helper for C19 (owned by the C19 task): one fact about the interpreter model (Model/Interp.lean).

  `ext_all`: A BIGGER FUNCTION TABLE DOES NOT CHANGE A RUN WHOSE CALLS ALL RESOLVE IN THE SMALLER ONE.
  If `fs'` answers every look-up the way `fs` does on the signatures `R` (`Ext.agree`), the functions found
  there have bodies whose calls are all in `R` (`Ext.closed`), and every call of the expression / statement
  is in `R` (`okE` / `okS`), then the nine mutually recursive functions of the interpreter compute the same
  thing with `fs'` as with `fs` — same result, same state, same fuel (equality of the functions themselves).

  NOT here (planned, not done): "`St.out` only grows" over the nine functions (needed for 'the per-statement
  deltas of the transcript concatenate to the output'); the `Pres` framework of Lemmas/Interp.lean would carry it.
-/
import BlocV.Model.Interp
import BlocV.Proofs.Lemmas.Interp

namespace BlocV.Lemmas.CliInterp
open BlocV BlocV.Lemmas

/-- The look-up predicate of `callFunc`: same name, same number of parameters. -/
def sigP (name : String) (n : Nat) : Func → Bool := fun f => f.name == name && f.params.length == n

/-- The call `name(…n arguments…)` resolves in the table. -/
def resolves (fs : List Func) (name : String) (n : Nat) : Bool := (fs.find? (sigP name n)).isSome

mutual
  /-- every user-function call of the expression has its signature in `R` -/
  def okE (R : String → Nat → Bool) : Expr → Bool
    | .lit _ => true
    | .var _ => true
    | .un _ a => okE R a
    | .bin _ a b => okE R a && okE R b
    | .call _ args => okEs R args
    | .fcall n args => R n args.length && okEs R args
    | .member _ r args => okE R r && okEs R args
    | .errorE => true
    | .item e _ => okE R e
  def okEs (R : String → Nat → Bool) : List Expr → Bool
    | [] => true
    | a :: as => okE R a && okEs R as
end

mutual
  def okS (R : String → Nat → Bool) : Stmt → Bool
    | .nop => true
    | .letS _ e => okE R e
    | .doS e => okE R e
    | .printS es => okEs R es
    | .ifS rules => okRules R rules
    | .whileS c b => okE R c && okL R b
    | .forS _ b e step _ body => okE R b && okE R e && (match step with | some s => okE R s | none => true) && okL R body
    | .forallS _ src _ body => okE R src && okL R body
    | .beginS body catches => okL R body && okC R catches
    | .raiseS _ => true
    | .returnS none => true
    | .returnS (some e) => okE R e
    | .breakS => true
    | .continueS => true
    | .funcS _ _ _ _ _ => true          -- executing a declaration does nothing; its body counts when it is CALLED
  def okL (R : String → Nat → Bool) : List Stmt → Bool
    | [] => true
    | s :: rest => okS R s && okL R rest
  def okRules (R : String → Nat → Bool) : List (Option Expr × List Stmt) → Bool
    | [] => true
    | (c, b) :: rest => (match c with | some e => okE R e | none => true) && okL R b && okRules R rest
  def okC (R : String → Nat → Bool) : List (String × List Stmt) → Bool
    | [] => true
    | (_, b) :: rest => okL R b && okC R rest
end

/-- `fs'` extends `fs` on the signatures `R`. -/
structure Ext (R : String → Nat → Bool) (fs fs' : List Func) : Prop where
  agree : ∀ name n, R name n = true → fs'.find? (sigP name n) = fs.find? (sigP name n)
  closed : ∀ name n f, R name n = true → fs.find? (sigP name n) = some f → okL R f.body = true ∧ okC R f.catches = true

def AllEq (R : String → Nat → Bool) (fs fs' : List Func) (fuel : Nat) : Prop :=
  (∀ depth e, okE R e = true → eval fs' depth fuel e = eval fs depth fuel e) ∧
  (∀ depth name args, R name args.length = true → okEs R args = true → callFunc fs' depth fuel name args = callFunc fs depth fuel name args) ∧
  (∀ depth args, okEs R args = true → evalArgs fs' depth fuel args = evalArgs fs depth fuel args) ∧
  (∀ depth body catches, okL R body = true → okC R catches = true → execBlock fs' depth fuel body catches = execBlock fs depth fuel body catches) ∧
  (∀ depth l, okL R l = true → execList fs' depth fuel l = execList fs depth fuel l) ∧
  (∀ depth st, okS R st = true → exec fs' depth fuel st = exec fs depth fuel st) ∧
  (∀ depth es, okEs R es = true → evalPrint fs' depth fuel es = evalPrint fs depth fuel es) ∧
  (∀ depth rules, okRules R rules = true → execIf fs' depth fuel rules = execIf fs depth fuel rules)

theorem map_congr_ok {R : String → Nat → Bool} {β} (f g : Expr → β) (h : ∀ e, okE R e = true → f e = g e) :
    ∀ args, okEs R args = true → args.map f = args.map g := by
  intro args
  induction args with
  | nil => intro _; rfl
  | cons a as ih =>
    intro hok
    simp only [okEs, Bool.and_eq_true] at hok
    simp only [List.map_cons, h a hok.1, ih hok.2]

theorem okC_find {R : String → Nat → Bool} : ∀ (catches : List (String × List Stmt)) (p : String × List Stmt → Bool) (n : String) (h : List Stmt),
    okC R catches = true → catches.find? p = some (n, h) → okL R h = true := by
  intro catches
  induction catches with
  | nil => intro p n h _ hf; simp at hf
  | cons c cs ih =>
    intro p n h hok hf
    obtain ⟨cn, cb⟩ := c
    simp only [okC, Bool.and_eq_true] at hok
    simp only [List.find?_cons] at hf
    split at hf
    · cases hf; exact hok.1
    · exact ih p n h hok.2 hf

section step
variable {R : String → Nat → Bool} {fs fs' : List Func}

theorem eval_step (fuel : Nat) (ih : AllEq R fs fs' fuel) (depth : Nat) (e : Expr) (hok : okE R e = true) :
    eval fs' depth (fuel + 1) e = eval fs depth (fuel + 1) e := by
  obtain ⟨ihE, ihC, ihA, -, -, -, -, -⟩ := ih
  have hm : ∀ args, okEs R args = true → List.map (eval fs' depth fuel) args = List.map (eval fs depth fuel) args :=
    map_congr_ok (R := R) (eval fs' depth fuel) (eval fs depth fuel) (fun e he => ihE depth e he)
  unfold eval
  split
  · rfl
  · rfl
  · simp only [okE] at hok; simp only [ihE _ _ hok]
  · simp only [okE, Bool.and_eq_true] at hok; simp only [ihE _ _ hok.1, ihE _ _ hok.2]
  · simp only [okE, Bool.and_eq_true] at hok; simp only [ihE _ _ hok.1, ihE _ _ hok.2]
  · simp only [okE, Bool.and_eq_true] at hok; simp only [ihE _ _ hok.1, ihE _ _ hok.2]
  · simp only [okE] at hok; rw [hm _ hok]
  · simp only [okE] at hok; rw [hm _ hok]
  · simp only [okE] at hok; rw [hm _ hok]
  · simp only [okE, Bool.and_eq_true] at hok; exact ihC _ _ _ hok.1 hok.2
  · simp only [okE, Bool.and_eq_true] at hok; simp only [ihE _ _ hok.1, ihA _ _ hok.2]
  · rfl
  · simp only [okE] at hok; simp only [ihE _ _ hok]

theorem callFunc_step (hx : Ext R fs fs') (fuel : Nat) (ih : AllEq R fs fs' fuel) (depth : Nat) (name : String) (args : List Expr)
    (hr : R name args.length = true) (hok : okEs R args = true) :
    callFunc fs' depth (fuel + 1) name args = callFunc fs depth (fuel + 1) name args := by
  obtain ⟨-, -, ihA, ihB, -, -, -, -⟩ := ih
  have hag := hx.agree name args.length hr
  unfold sigP at hag
  unfold callFunc
  simp only [hag]
  cases hf : fs.find? (fun f => f.name == name && f.params.length == args.length) with
  | none => rfl
  | some f =>
    have hcl := hx.closed name args.length f hr (by unfold sigP; exact hf)
    simp only [ihA _ _ hok, ihB _ _ _ hcl.1 hcl.2]

theorem evalArgs_step (fuel : Nat) (ih : AllEq R fs fs' fuel) (depth : Nat) (args : List Expr) (hok : okEs R args = true) :
    evalArgs fs' depth (fuel + 1) args = evalArgs fs depth (fuel + 1) args := by
  obtain ⟨ihE, -, ihA, -, -, -, -, -⟩ := ih
  cases args with
  | nil => simp only [evalArgs]
  | cons a as =>
    simp only [okEs, Bool.and_eq_true] at hok
    simp only [evalArgs, ihE _ _ hok.1, ihA _ _ hok.2]

theorem execBlock_step (fuel : Nat) (ih : AllEq R fs fs' fuel) (depth : Nat) (body : List Stmt) (catches : List (String × List Stmt))
    (hb : okL R body = true) (hc : okC R catches = true) :
    execBlock fs' depth (fuel + 1) body catches = execBlock fs depth (fuel + 1) body catches := by
  obtain ⟨-, -, -, -, ihL, -, -, -⟩ := ih
  unfold execBlock
  funext s
  rw [ihL _ _ hb]
  split
  · split
    · rfl
    · split
      · rename_i n handler hfind
        rw [ihL _ _ (okC_find catches _ n handler hc hfind)]
      · rfl
  · rfl

theorem execList_step (fuel : Nat) (ih : AllEq R fs fs' fuel) (depth : Nat) (l : List Stmt) (hok : okL R l = true) :
    execList fs' depth (fuel + 1) l = execList fs depth (fuel + 1) l := by
  obtain ⟨-, -, -, -, ihL, ihS, -, -⟩ := ih
  cases l with
  | nil => simp only [execList]
  | cons a as =>
    simp only [okL, Bool.and_eq_true] at hok
    simp only [execList, ihS _ _ hok.1, ihL _ _ hok.2]

theorem evalPrint_step (fuel : Nat) (ih : AllEq R fs fs' fuel) (depth : Nat) (l : List Expr) (hok : okEs R l = true) :
    evalPrint fs' depth (fuel + 1) l = evalPrint fs depth (fuel + 1) l := by
  obtain ⟨ihE, -, -, -, -, -, ihP, -⟩ := ih
  cases l with
  | nil => simp only [evalPrint]
  | cons a as =>
    simp only [okEs, Bool.and_eq_true] at hok
    simp only [evalPrint, ihE _ _ hok.1, ihP _ _ hok.2]

theorem execIf_step (fuel : Nat) (ih : AllEq R fs fs' fuel) (depth : Nat) (l : List (Option Expr × List Stmt)) (hok : okRules R l = true) :
    execIf fs' depth (fuel + 1) l = execIf fs depth (fuel + 1) l := by
  obtain ⟨ihE, -, -, -, ihL, -, -, ihI⟩ := ih
  cases l with
  | nil => simp only [execIf]
  | cons a as =>
    obtain ⟨c, b⟩ := a
    simp only [okRules, Bool.and_eq_true] at hok
    cases c with
    | none => simp only [execIf, ihL _ _ hok.1.2]
    | some ce => simp only [execIf, ihE _ _ hok.1.1, ihL _ _ hok.1.2, ihI _ _ hok.2]

theorem exec_step (fuel : Nat) (ih : AllEq R fs fs' fuel) (depth : Nat) (st : Stmt) (hok : okS R st = true) :
    exec fs' depth (fuel + 1) st = exec fs depth (fuel + 1) st := by
  obtain ⟨ihE, -, -, ihB, ihL, -, ihP, ihI⟩ := ih
  cases st with
  | nop => simp only [exec] <;> rfl
  | funcS n ps rt b c => simp only [exec] <;> rfl
  | letS n e => simp only [okS] at hok; simp only [exec, ihE _ _ hok] <;> rfl
  | doS e => simp only [okS] at hok; simp only [exec, ihE _ _ hok] <;> rfl
  | printS es => simp only [okS] at hok; simp only [exec, ihP _ _ hok] <;> rfl
  | ifS rules => simp only [okS] at hok; simp only [exec, ihI _ _ hok] <;> rfl
  | whileS c body => simp only [okS, Bool.and_eq_true] at hok; simp only [exec, ihE _ _ hok.1, ihL _ _ hok.2] <;> rfl
  | forS v b e step dir body =>
    simp only [okS, Bool.and_eq_true] at hok
    cases step with
    | none => simp only [exec, ihE _ _ hok.1.1.1, ihE _ _ hok.1.1.2, ihL _ _ hok.2] <;> rfl
    | some se => simp only [exec, ihE _ _ hok.1.1.1, ihE _ _ hok.1.1.2, ihE _ _ hok.1.2, ihL _ _ hok.2] <;> rfl
  | forallS it src dir body => simp only [okS, Bool.and_eq_true] at hok; simp only [exec, ihE _ _ hok.1, ihL _ _ hok.2] <;> rfl
  | beginS body catches => simp only [okS, Bool.and_eq_true] at hok; simp only [exec, ihB _ _ _ hok.1 hok.2] <;> rfl
  | raiseS name => simp only [exec] <;> rfl
  | returnS e =>
    cases e with
    | none => simp only [exec] <;> rfl
    | some e => simp only [okS] at hok; simp only [exec, ihE _ _ hok] <;> rfl
  | breakS => simp only [exec] <;> rfl
  | continueS => simp only [exec] <;> rfl

end step

/-- **The mutual induction.** -/
theorem ext_all {R : String → Nat → Bool} {fs fs' : List Func} (hx : Ext R fs fs') : ∀ fuel, AllEq R fs fs' fuel := by
  intro fuel
  induction fuel with
  | zero =>
    refine ⟨?_, ?_, ?_, ?_, ?_, ?_, ?_, ?_⟩
    · intro d e _; simp only [eval]
    · intro d n a _ _; simp only [callFunc]
    · intro d a _; simp only [evalArgs]
    · intro d b c _ _; simp only [execBlock]
    · intro d l _; simp only [execList]
    · intro d s _; simp only [exec]
    · intro d l _; simp only [evalPrint]
    · intro d l _; simp only [execIf]
  | succ fuel ih =>
    exact ⟨eval_step fuel ih, callFunc_step hx fuel ih, evalArgs_step fuel ih, execBlock_step fuel ih, execList_step fuel ih,
      exec_step fuel ih, evalPrint_step fuel ih, execIf_step fuel ih⟩

end BlocV.Lemmas.CliInterp
